/-
  GIV.Lemmas.ParWorkWake — no lost wake-up / work conservation for par.Work:
  while a runner is parked in the wait set of the condition variable, every queued item is matched
  by a wake-up that is under way (or by the one operation in flight under the mutex).

  The invariant `InvW` sits on top of the safety invariant `Inv` and the mutex/cond invariant `InvL`.
  The one fact about Add's Signal test that is needed (`SigOK`: Add signals whenever
  `w.waiting > 0`) is a HYPOTHESIS here; GIV.Props.C09 discharges it from the regenerated test
  (theorem `add_signals_when_waiting`), so that a change of the test breaks that named theorem.
-/
import GIV.Lemmas.ParWorkInv
import GIV.Lemmas.ParWorkLive
import GIV.Lemmas.ParWorkDeadlock
import GIV.Lemmas.ParWorkRun
namespace GIV.ParWork
open GIV.Gen.ParWork

/-! ### definitions -/

/-- program points at which the holder of the mutex has an operation on `todo` in flight:
`Add` between `append` and `Signal()`, a runner between the test `len(w.todo) != 0` and the removal of its item -/
def Pc.inFlight : Pc → Bool
  | .addSignal _ | .rand => true
  | _ => false

def inFlightOf (owner : Option Nat) (pc : Nat → Pc) : Nat :=
  match owner with
  | some t => if (pc t).inFlight then 1 else 0
  | none => 0

/-- 1 when the current holder of the mutex is at an in-flight point, 0 otherwise (in particular when the mutex is free) -/
def inFlight (s : State) : Nat := inFlightOf s.owner s.pc

/-- what the proofs need to know about Add's Signal test -/
def SigOK : Prop := ∀ w : Int, 0 < w → (signalWhenWaiting && signalTest w) = true

structure InvW (s : State) : Prop where
  /-- the wait set and the woken set are duplicate free, disjoint, and contain only runners inside `Wait()` -/
  cntW : ∀ i : Nat, s.waiters.count i + s.woken.count i ≤ if s.pc i = .wake then 1 else 0
  /-- a runner about to call `Wait()` has seen an empty queue, and still holds the mutex -/
  waitTodo : ∀ t : Nat, s.pc t = .wait → s.todo = []
  /-- work conservation -/
  conserve : s.waiters ≠ [] → s.todo.length ≤ s.woken.length + inFlight s

/-! ### the two shared pieces of code, field by field -/

/-- the program point `loopHead` moves its task to -/
def loopPc (s : State) : Pc :=
  if s.todo = [] then (if s.waiting + 1 = s.running then .bcast else .wait) else .rand

theorem loopHead_pc (s : State) (t : Nat) : (loopHead s t).pc = upd s.pc t (loopPc s) := by
  rw [loopHead_eq]; unfold loopPc; split <;> (try split) <;> rfl
theorem loopHead_todo (s : State) (t : Nat) : (loopHead s t).todo = s.todo := by
  rw [loopHead_eq]; split <;> (try split) <;> rfl
theorem loopHead_owner (s : State) (t : Nat) : (loopHead s t).owner = s.owner := by
  rw [loopHead_eq]; split <;> (try split) <;> rfl
theorem loopHead_waiters (s : State) (t : Nat) : (loopHead s t).waiters = s.waiters := by
  rw [loopHead_eq]; split <;> (try split) <;> rfl
theorem loopHead_woken (s : State) (t : Nat) : (loopHead s t).woken = s.woken := by
  rw [loopHead_eq]; split <;> (try split) <;> rfl

theorem loopPc_ne_wake (s : State) : loopPc s ≠ .wake := by
  unfold loopPc; split <;> (try split) <;> simp
theorem loopPc_wait (s : State) (h : loopPc s = .wait) : s.todo = [] := by
  unfold loopPc at h; split at h
  · assumption
  · simp at h
theorem loopPc_inFlight (s : State) : (loopPc s).inFlight = decide (s.todo ≠ []) := by
  unfold loopPc; split <;> (try split) <;> simp_all [Pc.inFlight]

/-- the program point `addBody` moves its task to -/
def addPc (s : State) (k : Cont) (x : Item) : Pc :=
  if x ∈ s.added then .addUnlock k
  else if (signalWhenWaiting && signalTest s.waiting) = true then .addSignal k else .addUnlock k

theorem addBody_pc (s : State) (t : Nat) (k : Cont) (x : Item) : (addBody s t k x).pc = upd s.pc t (addPc s k x) := by
  rw [addBody_eq]; unfold addPc; split <;> (try split) <;> rfl
theorem addBody_todo (s : State) (t : Nat) (k : Cont) (x : Item) :
    (addBody s t k x).todo = if x ∈ s.added then s.todo else s.todo ++ [x] := by
  rw [addBody_eq]; split <;> (try split) <;> rfl
theorem addBody_owner (s : State) (t : Nat) (k : Cont) (x : Item) : (addBody s t k x).owner = s.owner := by
  rw [addBody_eq]; split <;> (try split) <;> rfl
theorem addBody_waiters (s : State) (t : Nat) (k : Cont) (x : Item) : (addBody s t k x).waiters = s.waiters := by
  rw [addBody_eq]; split <;> (try split) <;> rfl
theorem addBody_woken (s : State) (t : Nat) (k : Cont) (x : Item) : (addBody s t k x).woken = s.woken := by
  rw [addBody_eq]; split <;> (try split) <;> rfl

theorem addPc_ne_wake (s : State) (k : Cont) (x : Item) : addPc s k x ≠ .wake := by
  unfold addPc; split <;> (try split) <;> simp
theorem addPc_ne_wait (s : State) (k : Cont) (x : Item) : addPc s k x ≠ .wait := by
  unfold addPc; split <;> (try split) <;> simp

theorem length_swapRemove (l : List Nat) (k x : Nat) (h : l[k]? = some x) : (swapRemove l k).length + 1 = l.length := by
  rcases List.eq_nil_or_concat l with hl | ⟨l', z, hl⟩
  · subst hl; simp at h
  · subst hl
    have hlast : (l'.concat z).getLast? = some z := by simp
    unfold swapRemove
    rw [hlast]
    simp

/-! ### preservation of `cntW` -/

/-- a task that is not inside `Wait()` may move anywhere -/
theorem cntW_upd {A B : List Nat} {pc : Nat → Pc} {t : Nat} (q : Pc)
    (h : ∀ i : Nat, A.count i + B.count i ≤ if pc i = .wake then 1 else 0) (hp : pc t ≠ .wake) :
    ∀ i : Nat, A.count i + B.count i ≤ if upd pc t q i = .wake then 1 else 0 := by
  intro i
  have hi := h i
  simp only [upd]
  by_cases e : i = t
  · subst e; simp only [hp, if_false] at hi; omega
  · simp only [e, if_false]; exact hi

theorem cntW_step {c : Cfg} {s s' : State} {t : Nat} {e : Event} (inv : Inv c s) (w : InvW s) (h : Step c s t e s') :
    ∀ i : Nat, s'.waiters.count i + s'.woken.count i ≤ if s'.pc i = .wake then 1 else 0 := by
  have cw := w.cntW
  cases h with
  | start hpc => exact cntW_upd _ cw (by rw [hpc]; simp)
  | @addLock p k x hpc hcall ho =>
    rw [addBody_pc, addBody_waiters, addBody_woken]
    exact cntW_upd _ cw (by rw [hpc]; cases hcall <;> simp)
  | doCall hpc hj => exact cntW_upd _ cw (by rw [hpc]; simp)
  | panic hpc => exact cntW_upd _ cw (by rw [hpc]; simp)
  | @go j hpc =>
    have habs : s.pc j = .absent := inv.spawnAbs t j hpc j (Nat.le_refl j)
    have h1 := cntW_upd (t := j) .init cw (by rw [habs]; simp)
    have h2 : upd s.pc j .init t ≠ .wake := by rw [upd_apply]; split <;> simp [hpc]
    exact cntW_upd _ h1 h2
  | lockTop hpc ho =>
    rw [loopHead_pc, loopHead_waiters, loopHead_woken]
    exact cntW_upd _ cw (by rw [hpc]; simp)
  | wait hpc ho =>
    intro i
    have hi := cw i
    simp only [State.setPc, upd, List.count_append, List.count_singleton, beq_iff_eq]
    by_cases e : i = t
    · subst e; rw [hpc] at hi; simp at hi; simp [hi]
    · have e' : ¬ t = i := fun h => e h.symm
      simp only [e, e', if_false]; exact hi
  | wake hpc hw ho =>
    rw [loopHead_pc, loopHead_waiters, loopHead_woken]
    intro i
    have hi := cw i
    simp only [upd, List.count_erase, beq_iff_eq]
    by_cases e : i = t
    · subst e
      have : 0 < s.woken.count i := List.count_pos_iff.mpr hw
      rw [hpc] at hi
      simp only [if_true, loopPc_ne_wake, if_false] at hi ⊢
      omega
    · have e' : ¬ t = i := fun h => e h.symm
      simp only [e, e', if_false]; exact hi
  | spurious hpc hw =>
    intro i
    have hi := cw i
    simp only [List.count_erase, List.count_cons, beq_iff_eq]
    by_cases e : t = i
    · subst e
      have : 0 < s.waiters.count t := List.count_pos_iff.mpr hw
      simp only [if_true]; omega
    · simp only [e, if_false]; exact hi
  | bcast hpc =>
    intro i
    have hi := cntW_upd (t := t) .unlockRet cw (by rw [hpc]; simp) i
    refine Nat.le_trans ?_ hi
    simp only [State.setPc, List.count_append, List.count_nil]
    omega
  | unlockRet hpc ho => exact cntW_upd _ cw (by rw [hpc]; simp)
  | doReturn hpc ht0 => exact cntW_upd _ cw (by rw [hpc]; simp)
  | exitRunner hpc ht0 => exact cntW_upd _ cw (by rw [hpc]; simp)
  | exitMain hpc => exact cntW_upd _ cw (by rw [hpc]; simp)
  | rand hpc hx => exact cntW_upd _ cw (by rw [hpc]; simp)
  | unlockRun hpc ho => exact cntW_upd _ cw (by rw [hpc]; simp)
  | fEnter hpc => exact cntW_upd _ cw (by rw [hpc]; simp)
  | fExit hpc hk => exact cntW_upd _ cw (by rw [hpc]; simp)
  | signalNone hpc hw => exact cntW_upd _ cw (by rw [hpc]; simp)
  | @signalSome k w0 rest hpc hw =>
    intro i
    have hi := cntW_upd (t := t) (.addUnlock k) cw (by rw [hpc]; simp) i
    rw [hw] at hi
    refine Nat.le_trans ?_ hi
    simp only [State.setPc, List.count_cons]
    omega
  | addUnlock hpc ho => exact cntW_upd _ cw (by rw [hpc]; simp)

/-! ### preservation of `waitTodo` -/

theorem wt_upd {todo : List Nat} {pc : Nat → Pc} {t : Nat} (q : Pc)
    (h : ∀ i : Nat, pc i = .wait → todo = []) (hq : q ≠ .wait) :
    ∀ i : Nat, upd pc t q i = .wait → todo = [] := by
  intro i hi
  rw [upd_apply] at hi
  split at hi
  · exact absurd hi hq
  · exact h i hi

theorem waitTodo_step {c : Cfg} {s s' : State} {t : Nat} {e : Event} (l : InvL c s) (w : InvW s) (h : Step c s t e s') :
    ∀ i : Nat, s'.pc i = .wait → s'.todo = [] := by
  have wt := w.waitTodo
  cases h with
  | start hpc => exact wt_upd _ wt (by split <;> simp)
  | @addLock p k x hpc hcall ho =>
    intro i hi
    rw [addBody_pc, upd_apply] at hi
    split at hi
    · exact absurd hi (addPc_ne_wait _ _ _)
    · have := l.holder_own i (by rw [show s.pc i = .wait from hi]; rfl)
      rw [ho] at this; simp at this
  | doCall hpc hj => exact wt_upd _ wt (by simp only [afterSpawn_eq]; split <;> (try split) <;> simp)
  | panic hpc => exact wt_upd _ wt (by simp)
  | @go j hpc => exact wt_upd _ (wt_upd (t := j) .init wt (by simp)) (by simp only [afterSpawn_eq]; split <;> simp)
  | lockTop hpc ho =>
    intro i hi
    rw [loopHead_pc, upd_apply] at hi
    rw [loopHead_todo]
    split at hi
    · exact loopPc_wait _ hi
    · exact wt i hi
  | wait hpc ho => exact wt_upd _ wt (by simp)
  | wake hpc hw ho =>
    intro i hi
    rw [loopHead_pc, upd_apply] at hi
    rw [loopHead_todo]
    split at hi
    · exact loopPc_wait _ hi
    · exact wt i hi
  | spurious hpc hw => exact wt
  | bcast hpc => exact wt_upd _ wt (by simp)
  | unlockRet hpc ho => exact wt_upd _ wt (by simp)
  | doReturn hpc ht0 => exact wt_upd _ wt (by simp)
  | exitRunner hpc ht0 => exact wt_upd _ wt (by simp)
  | exitMain hpc => exact wt_upd _ wt (by simp)
  | rand hpc hx =>
    intro i hi
    simp only [State.setPc, upd_apply] at hi
    split at hi
    · simp at hi
    · rename_i hne
      have h1 := l.holder_own i (by rw [hi]; rfl)
      have h2 := l.holder_own t (by rw [hpc]; rfl)
      rw [h1] at h2
      exact absurd (Option.some.inj h2) hne
  | unlockRun hpc ho => exact wt_upd _ wt (by simp)
  | fEnter hpc => exact wt_upd _ wt (by simp)
  | fExit hpc hk => exact wt_upd _ wt (by simp)
  | signalNone hpc hw => exact wt_upd _ wt (by simp)
  | signalSome hpc hw => exact wt_upd _ wt (by simp)
  | @addUnlock k hpc ho => exact wt_upd _ wt (by cases k <;> simp [resume])

/-! ### preservation of `conserve` -/

theorem inFlightOf_congr {owner : Option Nat} {pc pc' : Nat → Pc} (h : ∀ t0 : Nat, owner = some t0 → pc' t0 = pc t0) :
    inFlightOf owner pc' = inFlightOf owner pc := by
  cases owner with
  | none => rfl
  | some t0 => simp only [inFlightOf, h t0 rfl]

/-- a task that does not hold the mutex does not change what is in flight -/
theorem inFlightOf_upd {owner : Option Nat} {pc : Nat → Pc} {t : Nat} (q : Pc)
    (oh : ∀ t0 : Nat, owner = some t0 → (pc t0).holder = true) (hp : (pc t).holder = false) :
    inFlightOf owner (upd pc t q) = inFlightOf owner pc := by
  apply inFlightOf_congr
  intro t0 h0
  rw [upd_apply]
  split
  · rename_i e; subst e; have := oh t0 h0; rw [hp] at this; simp at this
  · rfl

theorem inFlightOf_self (pc : Nat → Pc) (t : Nat) (q : Pc) :
    inFlightOf (some t) (upd pc t q) = if q.inFlight then 1 else 0 := by
  simp [inFlightOf]

theorem inFlight_holder {c : Cfg} {s : State} (l : InvL c s) {t : Nat} (hp : (s.pc t).holder = true) :
    inFlight s = if (s.pc t).inFlight then 1 else 0 := by
  unfold inFlight
  rw [l.holder_own t hp]
  rfl

theorem inFlight_free {s : State} (ho : s.owner = none) : inFlight s = 0 := by
  unfold inFlight; rw [ho]; rfl

/-- a step of a task that does not hold the mutex and touches neither queue nor condition variable -/
theorem conserve_quiet {c : Cfg} {s : State} (l : InvL c s) (w : InvW s) {t : Nat} (q : Pc) (hp : (s.pc t).holder = false) :
    s.waiters ≠ [] → s.todo.length ≤ s.woken.length + inFlightOf s.owner (upd s.pc t q) := by
  intro hne
  rw [inFlightOf_upd q l.own_holder hp]
  exact w.conserve hne

/-- the holder releases the mutex with nothing in flight -/
theorem conserve_unlock {c : Cfg} {s : State} (l : InvL c s) (w : InvW s) {t : Nat} (pc' : Nat → Pc)
    (hp : (s.pc t).holder = true) (hf : (s.pc t).inFlight = false) :
    s.waiters ≠ [] → s.todo.length ≤ s.woken.length + inFlightOf none pc' := by
  intro hne
  have := w.conserve hne
  rw [inFlight_holder l hp, hf] at this
  exact this

/-- somebody is parked, so `w.waiting` is positive -/
theorem waiting_pos {c : Cfg} {s : State} (inv : Inv c s) (w : InvW s) (hne : s.waiters ≠ []) : 0 < s.waiting := by
  obtain ⟨i, hi⟩ := List.exists_mem_of_ne_nil _ hne
  have h1 : 0 < s.waiters.count i := List.count_pos_iff.mpr hi
  have h2 := w.cntW i
  have hpc : s.pc i = .wake := by
    apply Classical.byContradiction
    intro hn; simp only [hn, if_false] at h2; omega
  have hin : i < c.n := inv.bound i (by rw [hpc]; simp)
  have := cnt_pos Pc.inW s.pc c.n i hin (by rw [hpc]; rfl)
  rw [inv.waitingEq]; omega

theorem conserve_step {c : Cfg} (hsig : SigOK) {s s' : State} {t : Nat} {e : Event} (inv : Inv c s) (l : InvL c s)
    (w : InvW s) (h : Step c s t e s') :
    s'.waiters ≠ [] → s'.todo.length ≤ s'.woken.length + inFlight s' := by
  cases h with
  | start hpc => exact conserve_quiet l w _ (by rw [hpc]; rfl)
  | @addLock p k x hpc hcall ho =>
    rw [addBody_waiters, addBody_woken, addBody_todo]
    intro hne
    have h0 := w.conserve hne
    rw [inFlight_free ho] at h0
    show _ ≤ _ + inFlightOf (addBody _ t k x).owner (addBody _ t k x).pc
    rw [addBody_owner, addBody_pc]
    show _ ≤ _ + inFlightOf (some t) _
    rw [inFlightOf_self]
    unfold addPc
    by_cases hx : x ∈ s.added
    · simp only [hx, if_true]; omega
    · have hs := hsig s.waiting (waiting_pos inv w hne)
      simp only [hx, if_false]
      rw [if_pos hs]
      simp only [Pc.inFlight, if_true, List.length_append, List.length_singleton]
      omega
  | doCall hpc hj => exact conserve_quiet l w _ (by rw [hpc]; rfl)
  | panic hpc => exact conserve_quiet l w _ (by rw [hpc]; rfl)
  | @go j hpc =>
    have habs : s.pc j = .absent := inv.spawnAbs t j hpc j (Nat.le_refl j)
    intro hne
    have h0 := w.conserve hne
    show s.todo.length ≤ s.woken.length + inFlightOf s.owner (upd (upd s.pc j .init) t _)
    rw [inFlightOf_congr (pc := s.pc)]
    · exact h0
    · intro t0 h0'
      have hh := l.own_holder t0 h0'
      rw [upd_apply, upd_apply]
      split
      · rename_i e; subst e; rw [hpc] at hh; simp [Pc.holder] at hh
      · split
        · rename_i e; subst e; rw [habs] at hh; simp [Pc.holder] at hh
        · rfl
  | lockTop hpc ho =>
    rw [loopHead_waiters, loopHead_woken, loopHead_todo]
    intro hne
    have h0 := w.conserve hne
    rw [inFlight_free ho] at h0
    show _ ≤ _ + inFlightOf (loopHead _ t).owner (loopHead _ t).pc
    rw [loopHead_owner, loopHead_pc]
    show _ ≤ _ + inFlightOf (some t) _
    rw [inFlightOf_self, loopPc_inFlight]
    show s.todo.length ≤ s.woken.length + _
    omega
  | wait hpc ho =>
    intro _
    show s.todo.length ≤ _
    rw [w.waitTodo t hpc]
    exact Nat.zero_le _
  | wake hpc hw ho =>
    rw [loopHead_waiters, loopHead_woken, loopHead_todo]
    intro hne
    have h0 := w.conserve hne
    rw [inFlight_free ho] at h0
    show _ ≤ _ + inFlightOf (loopHead _ t).owner (loopHead _ t).pc
    rw [loopHead_owner, loopHead_pc]
    show _ ≤ _ + inFlightOf (some t) _
    rw [inFlightOf_self, loopPc_inFlight]
    show s.todo.length ≤ (s.woken.erase t).length + (if decide (s.todo ≠ []) = true then 1 else 0)
    have hl : 0 < s.woken.length := List.length_pos_of_mem hw
    rw [List.length_erase_of_mem hw]
    by_cases htd : s.todo = []
    · simp [htd]
    · simp only [htd, ne_eq, not_false_eq_true, decide_true, if_true]; omega
  | spurious hpc hw =>
    intro _
    have h0 := w.conserve (List.ne_nil_of_mem hw)
    show s.todo.length ≤ (t :: s.woken).length + inFlight s
    simp only [List.length_cons]; omega
  | bcast hpc => intro hne; exact absurd rfl hne
  | unlockRet hpc ho => exact conserve_unlock l w _ (by rw [hpc]; rfl) (by rw [hpc]; rfl)
  | doReturn hpc ht0 => exact conserve_quiet l w _ (by rw [hpc]; rfl)
  | exitRunner hpc ht0 => exact conserve_quiet l w _ (by rw [hpc]; rfl)
  | exitMain hpc => exact conserve_quiet l w _ (by rw [hpc]; rfl)
  | @rand k x hpc hx =>
    intro hne
    have h0 := w.conserve hne
    rw [inFlight_holder l (t := t) (by rw [hpc]; rfl), hpc] at h0
    have hl := length_swapRemove s.todo k x hx
    have ho := l.holder_own t (by rw [hpc]; rfl)
    show (swapRemove s.todo k).length ≤ s.woken.length + inFlightOf s.owner (upd s.pc t (.unlockRun x))
    rw [ho, inFlightOf_self]
    simp only [Pc.inFlight, if_true] at h0 ⊢
    omega
  | unlockRun hpc ho => exact conserve_unlock l w _ (by rw [hpc]; rfl) (by rw [hpc]; rfl)
  | fEnter hpc => exact conserve_quiet l w _ (by rw [hpc]; rfl)
  | fExit hpc hk => exact conserve_quiet l w _ (by rw [hpc]; rfl)
  | signalNone hpc hw => intro hne; exact absurd hw hne
  | @signalSome k w0 rest hpc hw =>
    intro _
    have h0 := w.conserve (by rw [hw]; simp)
    rw [inFlight_holder l (t := t) (by rw [hpc]; rfl), hpc] at h0
    have ho := l.holder_own t (by rw [hpc]; rfl)
    show s.todo.length ≤ (w0 :: s.woken).length + inFlightOf s.owner (upd s.pc t (.addUnlock k))
    rw [ho, inFlightOf_self]
    simp only [Pc.inFlight, if_true, List.length_cons] at h0 ⊢
    omega
  | addUnlock hpc ho => exact conserve_unlock l w _ (by rw [hpc]; rfl) (by rw [hpc]; rfl)

/-! ### the invariant holds in every reachable state -/

theorem invW_init : InvW init0 := by
  refine ⟨?_, ?_, ?_⟩
  · intro i; simp [init0]
  · intro t; simp only [init0]; split <;> simp
  · intro h; exact absurd rfl h

theorem invW_step {c : Cfg} (hsig : SigOK) {s s' : State} {t : Nat} {e : Event} (inv : Inv c s) (l : InvL c s)
    (w : InvW s) (h : Step c s t e s') : InvW s' :=
  ⟨cntW_step inv w h, waitTodo_step l w h, conserve_step hsig inv l w h⟩

theorem invW_reach {c : Cfg} (hsig : SigOK) (hn : 1 ≤ c.n) {s : State} (h : Reach c s) : InvW s := by
  induction h with
  | init => exact invW_init
  | step hr hs ih => exact invW_step hsig (inv_reach hn hr) (invL_reach hn hr) ih (step_sound hs)

/-- the wait set is exactly the set of runners inside `Wait()` for which no wake-up is under way -/
theorem waiters_iff {c : Cfg} {s : State} (l : InvL c s) (w : InvW s) (t : Nat) :
    t ∈ s.waiters ↔ s.pc t = .wake ∧ t ∉ s.woken := by
  have h2 := w.cntW t
  constructor
  · intro hi
    have h1 : 0 < s.waiters.count t := List.count_pos_iff.mpr hi
    have hpc : s.pc t = .wake := by
      apply Classical.byContradiction
      intro hn; simp only [hn, if_false] at h2; omega
    refine ⟨hpc, ?_⟩
    intro hk
    have h3 : 0 < s.woken.count t := List.count_pos_iff.mpr hk
    split at h2 <;> omega
  · intro ⟨hpc, hk⟩
    rcases l.wakeMem t hpc with h | h
    · exact h
    · exact absurd h hk

/-- the scenario `Do(3, f)` after `Add(0)`, where `f 0` adds 1 and 2 -/
def exCfg3 : Cfg := { n := 3, init := [0], children := fun x => if x = 0 then [1, 2] else [] }

/-- runners 1 and 2 park; runner 0, inside `f 0`, has appended item 1 and is about to call `Signal()` -/
def exWakeTrace : List (Nat × Event) :=
  [(0, .start), (0, .lock), (0, .unlock), (0, .doCall 3), (0, .go 1), (0, .go 2), (1, .start), (2, .start),
   (0, .lock), (0, .rand 1 0), (0, .unlock), (1, .lock), (1, .wait), (2, .lock), (2, .wait), (0, .fEnter 0), (0, .lock)]

end GIV.ParWork
