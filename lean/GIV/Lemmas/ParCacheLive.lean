/-
  GIV.Lemmas.ParCacheLive — progress of par.Cache: deadlock freedom, who blocks a `Do`, bounded waiting,
  a per-task step measure and termination.

  The model has a task for EVERY natural number (`Cfg.prog : TaskId → List Op`; all of them start at `.init`),
  so the statements come in two forms: per task (unconditional), and for the tasks `< n` when the
  others have not been started.
-/
import GIV.Lemmas.ParCacheRun
namespace GIV.ParCache
open GIV.Gen.ParCache

/-! ### enabledness -/

/-- a step of the function `step` determines its event: it is the one `nextEvent` names -/
theorem nextEvent_of_step {c : Cfg} {s s' : State} {t : Nat} {e : Event} (h : Step c s t e s') :
    nextEvent s t = some e := by
  cases h <;> simp [nextEvent, doneStoreValue_eq, *]

/-- the model's executable `enabledTask` is "some step of the task is defined" -/
theorem enabledTask_iff (c : Cfg) (s : State) (t : Nat) :
    enabledTask c s t = true ↔ ∃ e s', step c s t e = some s' := by
  constructor
  · intro h
    unfold enabledTask at h
    split at h
    · rename_i e _
      cases hs : step c s t e with
      | some s' => exact ⟨e, s', hs⟩
      | none => rw [hs] at h; simp at h
    · simp at h
  · intro ⟨e, s', hs⟩
    unfold enabledTask
    rw [nextEvent_of_step (step_sound hs)]; simp only [hs]; rfl

/-- the completeness direction of `step_sound` is not needed: enabledness of each program point is
computed directly from `step`.  A task that has not exited and is not at a `Lock` of a held mutex is enabled. -/
theorem enabled_of_pc (c : Cfg) (s : State) (inv : Inv s) (t : Nat) (hx : s.pc t ≠ .exited)
    (hl : ∀ k : Nat, s.pc t = .dLock k → (s.key k).owner = none) : enabledTask c s t = true := by
  cases hp : s.pc t with
  | exited => exact absurd hp hx
  | idle =>
    cases hr : s.rest t with
    | nil => simp [enabledTask, nextEvent, step, hp, hr, shapeOK_true]
    | cons o r => cases o <;> simp [enabledTask, nextEvent, step, hp, hr, shapeOK_true]
  | dLock k => simp [enabledTask, nextEvent, step, hp, shapeOK_true, hl k hp]
  | dUnlock k => simp [enabledTask, nextEvent, step, hp, shapeOK_true, (inv.unlockPt t k hp).1]
  | _ => simp [enabledTask, nextEvent, step, hp, shapeOK_true]

/-- a task at the `Lock` of a held mutex is NOT enabled (the only blocking operation) -/
theorem blocked_of_held (c : Cfg) (s : State) (t : Nat) (k : Nat) (hp : s.pc t = .dLock k) (h : Nat)
    (ho : (s.key k).owner = some h) : enabledTask c s t = false := by
  simp [enabledTask, nextEvent, step, hp, shapeOK_true, ho]

/-! ### the holder of an entry mutex is inside its critical section -/

/-- between `e.mu.Lock()` and `e.mu.Unlock()` of the entry of key `k` -/
def Pc.inCS (k : Key) : Pc → Bool
  | .dLoad2 k' | .dFEnter k' | .dStore k' | .dUnlock k' => k' == k
  | .dInF k' _ | .dWrite k' _ => k' == k
  | _ => false

/-- the number of steps the task still takes up to and including its `Unlock` (0 outside a critical section) -/
def Pc.csLeft : Pc → Nat
  | .dLoad2 _ => 6 | .dFEnter _ => 5 | .dInF _ _ => 4 | .dWrite _ _ => 3 | .dStore _ => 2 | .dUnlock _ => 1
  | _ => 0

theorem csLeft_pos_of_inCS {k : Nat} {p : Pc} (h : p.inCS k = true) : 1 ≤ p.csLeft ∧ p.csLeft ≤ 6 := by
  cases p <;> simp [Pc.inCS] at h <;> simp [Pc.csLeft]

/-- the owner recorded in an entry is a task inside that entry's critical section
(the converse of the `…Pt` clauses of `Inv`) -/
def HoldInv (s : State) : Prop := ∀ (k t : Nat), (s.key k).owner = some t → (s.pc t).inCS k = true

theorem holdInv_init (c : Cfg) : HoldInv (init0 c) := by
  intro k t h; simp [init0, K0] at h

theorem holdInv_step {c : Cfg} {s s' : State} {t : Nat} {e : Event} (hi : HoldInv s) (h : Step c s t e s') :
    HoldInv s' := by
  unfold HoldInv at *
  cases h
  all_goals (simp only [setPc_pc, setPc_key, setKey_pc, setKey_key]; grind [Pc.inCS])

theorem holdInv_reach {c : Cfg} {s : State} (h : Reach c s) : HoldInv s := by
  induction h with
  | init => exact holdInv_init c
  | step _ hs ih => exact holdInv_step ih (step_sound hs)

/-! ### progress: deadlock freedom -/

/-- Per-task progress.  A task that has not exited either has an enabled step itself, or it is at the
`Lock` of the entry of some key `k` whose mutex is held by ANOTHER task `h`; that holder is between
`Lock` and `Unlock` of the same entry and has an enabled step. -/
theorem task_progress (c : Cfg) (s : State) (hr : Reach c s) (t : Nat) (hx : s.pc t ≠ .exited) :
    enabledTask c s t = true ∨
    ∃ k h, s.pc t = .dLock k ∧ enabledTask c s t = false ∧ (s.key k).owner = some h ∧ h ≠ t ∧
      (s.pc h).inCS k = true ∧ enabledTask c s h = true := by
  have inv := inv_reach hr
  have hi := holdInv_reach hr
  by_cases hl : ∀ k : Nat, s.pc t = .dLock k → (s.key k).owner = none
  · exact Or.inl (enabled_of_pc c s inv t hx hl)
  · right
    have : ∃ k : Nat, s.pc t = .dLock k ∧ (s.key k).owner ≠ none := by
      apply Classical.byContradiction
      intro hne
      apply hl
      intro k hp
      apply Classical.byContradiction
      intro ho
      exact hne ⟨k, hp, ho⟩
    obtain ⟨k, hp, ho⟩ := this
    cases hown : (s.key k).owner with
    | none => exact absurd hown ho
    | some h =>
      have hcs := hi k h hown
      have hne : h ≠ t := by
        intro e; subst e; rw [hp] at hcs; simp [Pc.inCS] at hcs
      refine ⟨k, h, hp, blocked_of_held c s t k hp h hown, hown, hne, hcs, ?_⟩
      apply enabled_of_pc c s inv h
      · intro e; rw [e] at hcs; simp [Pc.inCS] at hcs
      · intro k' e; rw [e] at hcs; simp [Pc.inCS] at hcs

/-- Deadlock freedom among any set `A` of tasks outside of which no task has been started (e.g. the
tasks `< n` of a scenario with n goroutines, or all tasks): as long as a task of `A` has not finished its
program, some task OF `A` has an enabled step. -/
theorem deadlock_free_within (c : Cfg) (s : State) (hr : Reach c s) (A : Nat → Prop)
    (hA : ∀ t, ¬ A t → s.pc t = .init) (hnf : ∃ t, A t ∧ s.pc t ≠ .exited) :
    ∃ t, A t ∧ enabledTask c s t = true := by
  obtain ⟨t, hat, hx⟩ := hnf
  rcases task_progress c s hr t hx with h | ⟨k, h, _, _, _, _, hcs, hen⟩
  · exact ⟨t, hat, h⟩
  · refine ⟨h, ?_, hen⟩
    apply Classical.byContradiction
    intro hna
    rw [hA h hna] at hcs; simp [Pc.inCS] at hcs

/-- deadlock freedom: in every reachable state in which some task has not finished its program, some
task has an enabled step -/
theorem deadlock_free (c : Cfg) (s : State) (hr : Reach c s) (hnf : ∃ t, s.pc t ≠ .exited) :
    ∃ t e s', step c s t e = some s' := by
  obtain ⟨t, hx⟩ := hnf
  obtain ⟨t', _, h⟩ := deadlock_free_within c s hr (fun _ => True) (fun _ h => absurd trivial h) ⟨t, trivial, hx⟩
  exact ⟨t', (enabledTask_iff c s t').1 h⟩

/-! ### who blocks a `Do`, and for how long -/

/-- one step, seen from the holder `h` of the mutex of key `k`: steps of other tasks leave the holder
and its ownership alone; a step of the holder other than `Unlock k` keeps the mutex and brings the holder
at least one step closer to its `Unlock` (`csLeft`); its `Unlock k` frees the mutex. -/
theorem holder_step {c : Cfg} {s s' : State} {t : Nat} {e : Event} (inv : Inv s) (hi : HoldInv s)
    {k h : Nat} (ho : (s.key k).owner = some h) (st : Step c s t e s') :
    (t ≠ h → (s'.key k).owner = some h ∧ s'.pc h = s.pc h) ∧
    (t = h → e ≠ .unlock k → (s'.key k).owner = some h ∧ (s'.pc h).csLeft + 1 ≤ (s.pc h).csLeft) ∧
    (t = h → e = .unlock k → (s'.key k).owner = none) := by
  have hcs := hi k h ho
  have i7 := inv.unlockPt
  unfold HoldInv at hi
  cases st
  all_goals (simp only [setPc_pc, setPc_key, setKey_pc, setKey_key]; grind [Pc.inCS, Pc.csLeft])

/-- Bounded waiting: from a reachable state in which `h` holds the mutex of key `k`, along any run in
which `h` has not yet done its `Unlock k`, `h` still holds the mutex and the steps `h` has taken are
bounded by what was left of its critical section — so `h` takes at most 5 steps (done re-check, f-enter,
f-exit, write, store) before the `Unlock` that unblocks the waiting `Do`s. -/
theorem holder_bounded {c : Cfg} {k h : Nat} : ∀ (evs : List (Nat × Event)) {s s' : State}, Reach c s →
    (s.key k).owner = some h → runFrom c s evs = some s' → (∀ te ∈ evs, te ≠ (h, Event.unlock k)) →
    (s'.key k).owner = some h ∧ (s'.pc h).csLeft + evs.countP (fun te => te.1 == h) ≤ (s.pc h).csLeft
  | [], s, s', _, ho, hrun, _ => by
    simp only [runFrom, Option.some.injEq] at hrun; subst hrun; exact ⟨ho, by simp⟩
  | (t, e) :: rest, s, s', hr, ho, hrun, hno => by
    simp only [runFrom] at hrun
    split at hrun
    · rename_i s1 hs
      have st := step_sound hs
      have hst := holder_step (inv_reach hr) (holdInv_reach hr) ho st
      have hne : (t, e) ≠ (h, Event.unlock k) := hno _ (by simp)
      have hrest : ∀ te ∈ rest, te ≠ (h, Event.unlock k) := fun te hte => hno te (by simp [hte])
      by_cases hth : t = h
      · have heu : e ≠ .unlock k := by intro he; apply hne; rw [hth, he]
        obtain ⟨ho1, hlt⟩ := hst.2.1 hth heu
        obtain ⟨ho2, hle⟩ := holder_bounded rest (Reach.step hr hs) ho1 hrun hrest
        refine ⟨ho2, ?_⟩
        simp only [List.countP_cons, hth, beq_self_eq_true, if_true]
        omega
      · obtain ⟨ho1, hpc⟩ := hst.1 hth
        obtain ⟨ho2, hle⟩ := holder_bounded rest (Reach.step hr hs) ho1 hrun hrest
        refine ⟨ho2, ?_⟩
        have : (t == h) = false := by simp [hth]
        simp only [List.countP_cons, this, Bool.false_eq_true, if_false]
        rw [hpc] at hle
        omega
    · simp at hrun

/-- A task blocked in `Do(k)`: it is at the `Lock` of the entry of `k`; another task `h` holds that
mutex; `h` is between `Lock` and `Unlock` of the same entry (at the done re-check, the call of f, inside f,
the plain write, the atomic store or the Unlock), `h` has an enabled step, and between 1 and 6 steps separate `h`
from the end of its `Unlock`. -/
theorem blocked_do (c : Cfg) (s : State) (hr : Reach c s) (t : Nat) (hx : s.pc t ≠ .exited)
    (hb : enabledTask c s t = false) :
    ∃ k h, s.pc t = .dLock k ∧ (s.key k).owner = some h ∧ h ≠ t ∧ (s.pc h).inCS k = true ∧
      enabledTask c s h = true ∧ 1 ≤ (s.pc h).csLeft ∧ (s.pc h).csLeft ≤ 6 := by
  rcases task_progress c s hr t hx with h | ⟨k, h, hp, _, ho, hne, hcs, hen⟩
  · rw [h] at hb; exact absurd hb (by simp)
  · exact ⟨k, h, hp, ho, hne, hcs, hen, csLeft_pos_of_inCS hcs⟩

/-! ### a step measure -/

/-- an upper bound for the steps of one call: `do-call` + 11 events of the slow path of `Do`; `get-call` + 3 -/
def Op.cost : Op → Nat
  | .doK _ => 12
  | .getK _ => 4

def restCost : List Op → Nat
  | [] => 0
  | o :: r => o.cost + restCost r

/-- an upper bound for the steps a task at this program point still takes before it is `idle` with
nothing left (+1 for `exit`) -/
def Pc.left : Pc → Nat
  | .exited => 0
  | .idle => 1
  | .init => 2
  | .dRet _ => 2 | .dUnlock _ => 3 | .dStore _ => 4 | .dWrite _ _ => 5 | .dInF _ _ => 6 | .dFEnter _ => 7
  | .dLoad2 _ => 8 | .dLock _ => 9 | .dLoad1 _ => 10 | .dLos _ => 11 | .dLoad _ => 12
  | .gRetNil _ => 2 | .gRet _ => 2 | .gLoad1 _ => 3 | .gLoad _ => 4

/-- remaining steps of task `t` (an upper bound): its current call plus the calls it has not made yet -/
def tmeas (s : State) (t : Nat) : Nat := (s.pc t).left + restCost (s.rest t)

/-- every step of a task decreases ITS remaining-steps bound and leaves the bounds of all other tasks
unchanged (a blocked `Lock` attempt is not a step: `step` is undefined for it) -/
theorem tmeas_step {c : Cfg} {s s' : State} {t : Nat} {e : Event} (h : Step c s t e s') :
    tmeas s' t < tmeas s t ∧ ∀ t', t' ≠ t → tmeas s' t' = tmeas s t' := by
  cases h
  all_goals
    (refine ⟨?_, fun t' hne => ?_⟩ <;>
      simp_all [tmeas, State.setPc, State.setKey, Pc.left, restCost, Op.cost] <;> omega)

/-- Σ_{t<n} tmeas s t -/
def measure (s : State) : Nat → Nat
  | 0 => 0
  | n + 1 => measure s n + tmeas s n

theorem measure_congr {s s' : State} (n : Nat) (h : ∀ t, t < n → tmeas s' t = tmeas s t) :
    measure s' n = measure s n := by
  induction n with
  | zero => rfl
  | succ n ih => simp only [measure]; rw [ih (fun t ht => h t (by omega)), h n (by omega)]

theorem measure_step {c : Cfg} {s s' : State} {t : Nat} {e : Event} (h : Step c s t e s') (n : Nat) :
    (t < n → measure s' n < measure s n) ∧ (n ≤ t → measure s' n = measure s n) := by
  obtain ⟨hlt, hoth⟩ := tmeas_step h
  induction n with
  | zero => exact ⟨fun h => absurd h (by omega), fun _ => rfl⟩
  | succ n ih =>
    constructor
    · intro htn
      simp only [measure]
      by_cases e : t = n
      · subst e; have := ih.2 (Nat.le_refl t); omega
      · have := ih.1 (by omega); have := hoth n (fun h => e h.symm); omega
    · intro htn
      simp only [measure]
      have := ih.2 (by omega); have := hoth n (by omega); omega

/-! ### termination -/

theorem tmeas_init (c : Cfg) (t : Nat) : tmeas (init0 c) t = 2 + restCost (c.prog t) := rfl

/-- along any run, the steps task `t` takes are paid for by its remaining-steps bound -/
theorem run_task_steps {c : Cfg} (t : Nat) : ∀ (evs : List (Nat × Event)) {s s' : State},
    runFrom c s evs = some s' → tmeas s' t + evs.countP (fun te => te.1 == t) ≤ tmeas s t
  | [], s, s', hrun => by
    simp only [runFrom, Option.some.injEq] at hrun; subst hrun; simp
  | (t1, e) :: rest, s, s', hrun => by
    simp only [runFrom] at hrun
    split at hrun
    · rename_i s1 hs
      obtain ⟨hlt, hoth⟩ := tmeas_step (step_sound hs)
      have ih := run_task_steps t rest hrun
      by_cases h : t1 = t
      · subst h; simp only [List.countP_cons, beq_self_eq_true, if_true]; omega
      · have : (t1 == t) = false := by simp [h]
        have := hoth t (fun e => h e.symm)
        simp only [List.countP_cons, *, Bool.false_eq_true, if_false]; omega
    · simp at hrun

/-- in every execution (from the initial state, under every schedule, whatever the other tasks do) task `t`
takes at most `2 + Σ cost` steps: `start`, `exit`, 12 per `Do`, 4 per `Get` -/
theorem exec_task_steps {c : Cfg} {tr : List (Nat × Event)} {s : State} (h : Exec c tr s) (t : Nat) :
    tmeas s t + tr.countP (fun te => te.1 == t) ≤ 2 + restCost (c.prog t) := by
  induction h with
  | nil => simp [tmeas_init]
  | @snoc tr s s' t1 e _ hs ih =>
    obtain ⟨hlt, hoth⟩ := tmeas_step (step_sound hs)
    rw [List.countP_append]
    by_cases h : t1 = t
    · subst h; simp; omega
    · have := hoth t (fun e => h e.symm)
      simp [h]; omega

/-- a run of the tasks `< n` is paid for by the measure `Σ_{t<n} tmeas` -/
theorem run_measure {c : Cfg} (n : Nat) : ∀ (evs : List (Nat × Event)) {s s' : State},
    runFrom c s evs = some s' → (∀ te ∈ evs, te.1 < n) → measure s' n + evs.length ≤ measure s n
  | [], s, s', hrun, _ => by
    simp only [runFrom, Option.some.injEq] at hrun; subst hrun; simp
  | (t1, e) :: rest, s, s', hrun, hlt => by
    simp only [runFrom] at hrun
    split at hrun
    · rename_i s1 hs
      have h1 := (measure_step (step_sound hs) n).1 (hlt (t1, e) (by simp))
      have ih := run_measure n rest hrun (fun te hte => hlt te (by simp [hte]))
      simp only [List.length_cons]; omega
    · simp at hrun

/-- there is no infinite execution (from any state) in which only the tasks `< n` take steps -/
theorem no_infinite_run (c : Cfg) (n : Nat) :
    ¬ ∃ (σ : Nat → State) (τ : Nat → Nat × Event),
      ∀ i, (τ i).1 < n ∧ step c (σ i) (τ i).1 (τ i).2 = some (σ (i + 1)) := by
  intro ⟨σ, τ, hstep⟩
  have hm : ∀ i, measure (σ i) n + i ≤ measure (σ 0) n := by
    intro i
    induction i with
    | zero => omega
    | succ i ih =>
      have := (measure_step (step_sound (hstep i).2) n).1 (hstep i).1
      omega
  have := hm (measure (σ 0) n + 1)
  omega

/-- in an infinite execution (any schedule, any number of tasks) no task takes infinitely many steps -/
theorem no_task_runs_forever (c : Cfg) (t : Nat) :
    ¬ ∃ (σ : Nat → State) (τ : Nat → Nat × Event),
      (∀ i, step c (σ i) (τ i).1 (τ i).2 = some (σ (i + 1))) ∧ ∀ i, ∃ j, i ≤ j ∧ (τ j).1 = t := by
  intro ⟨σ, τ, hstep, hinf⟩
  have mono : ∀ d i, tmeas (σ (i + d)) t ≤ tmeas (σ i) t := by
    intro d
    induction d with
    | zero => intro i; exact Nat.le_refl _
    | succ d ih =>
      intro i
      have h1 := ih i
      obtain ⟨hlt, hoth⟩ := tmeas_step (step_sound (hstep (i + d)))
      by_cases e : t = (τ (i + d)).1
      · rw [← e] at hlt; show tmeas (σ (i + d + 1)) t ≤ _; omega
      · have := hoth t e; show tmeas (σ (i + d + 1)) t ≤ _; omega
  have key : ∀ m i, tmeas (σ i) t ≤ m → False := by
    intro m
    induction m with
    | zero =>
      intro i hm
      obtain ⟨j, hij, hj⟩ := hinf i
      obtain ⟨hlt, _⟩ := tmeas_step (step_sound (hstep j))
      rw [hj] at hlt
      have := mono (j - i) i
      rw [show i + (j - i) = j by omega] at this
      omega
    | succ m ih =>
      intro i hm
      obtain ⟨j, hij, hj⟩ := hinf i
      obtain ⟨hlt, _⟩ := tmeas_step (step_sound (hstep j))
      rw [hj] at hlt
      have := mono (j - i) i
      rw [show i + (j - i) = j by omega] at this
      exact ih (j + 1) (by omega)
  exact key _ 0 (Nat.le_refl _)

theorem step_pc_other {c : Cfg} {s s' : State} {t : Nat} {e : Event} (h : Step c s t e s') (t' : Nat)
    (hne : t' ≠ t) : s'.pc t' = s.pc t' := by
  cases h <;> simp [State.setPc, State.setKey, hne]

theorem run_unstarted {c : Cfg} (n : Nat) : ∀ (evs : List (Nat × Event)) {s s' : State},
    runFrom c s evs = some s' → (∀ te ∈ evs, te.1 < n) → (∀ t, n ≤ t → s.pc t = .init) →
    ∀ t, n ≤ t → s'.pc t = .init
  | [], s, s', hrun, _, hun => by
    simp only [runFrom, Option.some.injEq] at hrun; subst hrun; exact hun
  | (t1, e) :: rest, s, s', hrun, hlt, hun => by
    simp only [runFrom] at hrun
    split at hrun
    · rename_i s1 hs
      have h1 : t1 < n := hlt (t1, e) (by simp)
      refine run_unstarted n rest hrun (fun te hte => hlt te (by simp [hte])) ?_
      intro t ht
      rw [step_pc_other (step_sound hs) t (by omega)]; exact hun t ht
    · simp at hrun

/-- a state of the n-goroutine system in which no task `< n` is enabled is final: all of them have exited -/
theorem maximal_final (c : Cfg) (s : State) (hr : Reach c s) (n : Nat) (hun : ∀ t, n ≤ t → s.pc t = .init)
    (hmax : ∀ t, t < n → enabledTask c s t = false) : ∀ t, t < n → s.pc t = .exited := by
  intro t ht
  apply Classical.byContradiction
  intro hx
  obtain ⟨t', ht', hen⟩ := deadlock_free_within c s hr (fun t => t < n)
    (fun t h => hun t (by simp at h; omega)) ⟨t, ht, hx⟩
  rw [hmax t' ht'] at hen; exact absurd hen (by simp)

/-- from every reachable state of the n-goroutine system the tasks can be run to completion -/
theorem can_finish (c : Cfg) (n : Nat) : ∀ (m : Nat) (s : State), measure s n ≤ m → Reach c s →
    (∀ t, n ≤ t → s.pc t = .init) →
    ∃ evs s', (∀ te ∈ evs, te.1 < n) ∧ runFrom c s evs = some s' ∧ ∀ t, t < n → s'.pc t = .exited := by
  intro m
  induction m with
  | zero =>
    intro s hm hr hun
    by_cases hall : ∀ t, t < n → s.pc t = .exited
    · exact ⟨[], s, by simp, rfl, hall⟩
    · exfalso
      have : ∃ t, t < n ∧ s.pc t ≠ .exited := by
        apply Classical.byContradiction
        intro hne; apply hall; intro t ht
        apply Classical.byContradiction
        intro hx; exact hne ⟨t, ht, hx⟩
      obtain ⟨t', ht', hen⟩ := deadlock_free_within c s hr (fun t => t < n)
        (fun t h => hun t (by simp at h; omega)) this
      obtain ⟨e, s1, hs⟩ := (enabledTask_iff c s t').1 hen
      have := (measure_step (step_sound hs) n).1 ht'
      omega
  | succ m ih =>
    intro s hm hr hun
    by_cases hall : ∀ t, t < n → s.pc t = .exited
    · exact ⟨[], s, by simp, rfl, hall⟩
    · have : ∃ t, t < n ∧ s.pc t ≠ .exited := by
        apply Classical.byContradiction
        intro hne; apply hall; intro t ht
        apply Classical.byContradiction
        intro hx; exact hne ⟨t, ht, hx⟩
      obtain ⟨t', ht', hen⟩ := deadlock_free_within c s hr (fun t => t < n)
        (fun t h => hun t (by simp at h; omega)) this
      obtain ⟨e, s1, hs⟩ := (enabledTask_iff c s t').1 hen
      have hdec := (measure_step (step_sound hs) n).1 ht'
      have hun1 : ∀ t, n ≤ t → s1.pc t = .init := by
        intro t ht
        rw [step_pc_other (step_sound hs) t (by omega)]; exact hun t ht
      obtain ⟨evs, s2, h1, h2, h3⟩ := ih s1 (by omega) (Reach.step hr hs) hun1
      refine ⟨(t', e) :: evs, s2, ?_, ?_, h3⟩
      · intro te hte
        simp only [List.mem_cons] at hte
        rcases hte with h | h
        · rw [h]; exact ht'
        · exact h1 te h
      · simp only [runFrom, hs]; exact h2

/-! ### the unrestricted termination statement is false: the model has infinitely many tasks -/

/-- the state after tasks 0 … i-1 of the scenario without any call have done their `start` -/
def startedUpTo (i : Nat) : State :=
  { key := fun _ => K0, pc := fun t => if t < i then .idle else .init, rest := fun _ => [] }

theorem startedUpTo_zero : startedUpTo 0 = init0 { prog := fun _ => [] } := by
  simp [startedUpTo, init0]

theorem startedUpTo_step (c : Cfg) (i : Nat) : step c (startedUpTo i) i .start = some (startedUpTo (i + 1)) := by
  have hp : (startedUpTo i).pc i = .init := by simp [startedUpTo]
  simp only [step, shapeOK_true, hp]
  simp only [Bool.not_true, Bool.false_eq_true, if_false, if_true, Option.some.injEq]
  simp only [State.setPc, startedUpTo, State.mk.injEq, true_and, and_true]
  funext (t : Nat)
  by_cases h : t = i
  · subst h; simp
  · simp only [h, if_false]
    by_cases h2 : t < i
    · have : t < i + 1 := by omega
      simp [h2, this]
    · have : ¬ t < i + 1 := by omega
      simp [h2, this]

/-! ### every call of `Do` that was made has returned once the task is outside `Do` -/

/-- the task is inside a call of `Do k` -/
def Pc.inDo (k : Key) : Pc → Bool
  | .dLoad k' | .dLos k' | .dLoad1 k' | .dLock k' | .dLoad2 k' | .dFEnter k' | .dStore k' | .dUnlock k' | .dRet k' => k' == k
  | .dInF k' _ | .dWrite k' _ => k' == k
  | _ => false

def isDoCall (t : Nat) (k : Key) (te : Nat × Event) : Bool := te.1 == t && te.2 == Event.doCall k
def isDoReturn (t : Nat) (k : Key) (te : Nat × Event) : Bool :=
  te.1 == t && match te.2 with
    | .doReturn k' _ => k' == k
    | _ => false
def isDoOp (k : Key) (o : Op) : Bool := o == Op.doK k

/-- bookkeeping over an execution: for every task and key, the `do-call k` events of the task are its
`do-return k _` events plus one if it is inside `Do k` right now; and calls made + calls still to make
= the `Do k` entries of the task's program -/
theorem exec_do_balance {c : Cfg} {tr : List (Nat × Event)} {s : State} (h : Exec c tr s) (t k : Nat) :
    tr.countP (isDoCall t k) = tr.countP (isDoReturn t k) + (if (s.pc t).inDo k = true then 1 else 0) ∧
    tr.countP (isDoCall t k) + (s.rest t).countP (isDoOp k) = (c.prog t).countP (isDoOp k) := by
  induction h with
  | nil => simp [init0, Pc.inDo]
  | @snoc tr s s' t1 e _ hs ih =>
    obtain ⟨ih1, ih2⟩ := ih
    rw [List.countP_append, List.countP_append]
    have st := step_sound hs
    by_cases htt : t1 = t
    · subst htt
      cases st <;>
        simp_all [isDoCall, isDoReturn, isDoOp, Pc.inDo, State.setPc, State.setKey, List.countP_cons] <;>
        grind
    · have hpc := step_pc_other st t (fun e => htt e.symm)
      have hne : t ≠ t1 := fun e => htt e.symm
      have hrest : s'.rest t = s.rest t := by
        cases st <;> simp [State.setPc, State.setKey] <;> exact fun e => absurd e hne
      have h1 : List.countP (isDoCall t k) [(t1, e)] = 0 := by simp [isDoCall, htt]
      have h2 : List.countP (isDoReturn t k) [(t1, e)] = 0 := by simp [isDoReturn, htt]
      rw [hpc, hrest, h1, h2]
      exact ⟨by omega, by omega⟩

/-- a task exits only with an empty rest of its program -/
theorem exited_rest {c : Cfg} {s : State} (h : Reach c s) (t : Nat) (hx : s.pc t = .exited) : s.rest t = [] := by
  induction h with
  | init => simp [init0] at hx
  | @step s s' t1 e _ hs ih =>
    have st := step_sound hs
    by_cases htt : t = t1
    · subst htt
      cases st <;> simp_all [State.setPc, State.setKey]
    · have hpc := step_pc_other st t htt
      rw [hpc] at hx
      have := ih hx
      cases st <;> simp_all [State.setPc, State.setKey]

end GIV.ParCache
