/-
  GIV.Lemmas.ScanSpec — what the model of imports/scan.go (GIV.Model.Scan) computes, read as a
  specification: per-file notions (`readFails`, `litsD`, `prefixD`, `selected`, `isTest`), the loop as
  filter + flatMap, the byte-wise order and `keys` (strictly ascending, same members, canonical).
  Core Lean only.  `readImports`, `shouldBuild`, `matchFile` are opaque here.
-/
import GIV.Model.Scan

namespace GIV.Scan
open GIV GIV.Build GIV.ReadImports

/-! ### the byte-wise order -/

theorem blt_cons (a b : UInt8) (as bs : Bytes) :
    blt (a :: as) (b :: bs) = true ↔ a < b ∨ (a = b ∧ blt as bs = true) := by
  simp [blt]

theorem u8_total {a b : UInt8} (h1 : ¬ a < b) (h2 : a ≠ b) : b < a := by
  rw [UInt8.lt_iff_toNat_lt] at *
  have : a.toNat ≠ b.toNat := fun h => h2 (UInt8.toNat_inj.mp h)
  omega

theorem blt_irrefl : ∀ a : Bytes, blt a a = false
  | [] => rfl
  | a :: as => by
    have ih := blt_irrefl as
    cases h : blt (a :: as) (a :: as) with
    | false => rfl
    | true =>
      rcases (blt_cons a a as as).mp h with h1 | ⟨_, h2⟩
      · exact absurd h1 (UInt8.lt_irrefl a)
      · rw [ih] at h2; cases h2

theorem blt_trans : ∀ {a b c : Bytes}, blt a b = true → blt b c = true → blt a c = true
  | [], [], _, h, _ => by simp [blt] at h
  | [], _ :: _, [], _, h => by simp [blt] at h
  | [], _ :: _, _ :: _, _, _ => rfl
  | _ :: _, [], _, h, _ => by simp [blt] at h
  | _ :: _, _ :: _, [], _, h => by simp [blt] at h
  | a :: as, b :: bs, c :: cs, h1, h2 => by
    rw [blt_cons] at *
    rcases h1 with h1 | ⟨rfl, h1⟩
    · rcases h2 with h2 | ⟨rfl, _⟩
      · exact Or.inl (UInt8.lt_trans h1 h2)
      · exact Or.inl h1
    · rcases h2 with h2 | ⟨rfl, h2⟩
      · exact Or.inl h2
      · exact Or.inr ⟨rfl, blt_trans h1 h2⟩

theorem blt_total : ∀ {a b : Bytes}, blt a b = false → a ≠ b → blt b a = true
  | [], [], _, h => absurd rfl h
  | [], _ :: _, h, _ => by simp [blt] at h
  | _ :: _, [], _, _ => rfl
  | a :: as, b :: bs, h1, h2 => by
    rw [blt_cons]
    have h1' : ¬ (a < b ∨ (a = b ∧ blt as bs = true)) := by
      rw [← blt_cons, h1]; simp
    by_cases hab : a = b
    · subst hab
      refine Or.inr ⟨rfl, blt_total ?_ ?_⟩
      · cases h : blt as bs with
        | false => rfl
        | true => exact absurd (Or.inr ⟨rfl, h⟩) h1'
      · intro h; exact h2 (by rw [h])
    · exact Or.inl (u8_total (fun h => h1' (Or.inl h)) hab)

theorem blt_asymm {a b : Bytes} (h : blt a b = true) : blt b a = false := by
  cases h2 : blt b a with
  | false => rfl
  | true => have := blt_trans h h2; rw [blt_irrefl] at this; cases this

theorem blt_ne {a b : Bytes} (h : blt a b = true) : a ≠ b := by
  intro e; subst e; rw [blt_irrefl] at h; cases h

/-- strictly ascending in the byte-wise order (hence duplicate-free). -/
def Sorted (l : List Bytes) : Prop := l.Pairwise (fun a b => blt a b = true)

instance (l : List Bytes) : Decidable (Sorted l) := by unfold Sorted; infer_instance

theorem Sorted.nodup {l : List Bytes} (h : Sorted l) : l.Nodup :=
  List.Pairwise.imp (fun hab => blt_ne hab) h

/-! ### insertKey, keys -/

theorem mem_insertKey (x y : Bytes) : ∀ l : List Bytes, y ∈ insertKey x l ↔ y = x ∨ y ∈ l
  | [] => by simp [insertKey]
  | z :: zs => by
    have ih := mem_insertKey x y zs
    unfold insertKey
    split
    · simp
    · split
      · next h => subst h; simp
      · simp only [List.mem_cons, ih]
        constructor
        · rintro (h | h | h)
          · exact Or.inr (Or.inl h)
          · exact Or.inl h
          · exact Or.inr (Or.inr h)
        · rintro (h | h | h)
          · exact Or.inr (Or.inl h)
          · exact Or.inl h
          · exact Or.inr (Or.inr h)

theorem sorted_insertKey (x : Bytes) : ∀ l : List Bytes, Sorted l → Sorted (insertKey x l)
  | [], _ => by simp [insertKey, Sorted]
  | z :: zs, h => by
    have hz : ∀ w ∈ zs, blt z w = true := (List.pairwise_cons.mp h).1
    have hs : Sorted zs := (List.pairwise_cons.mp h).2
    unfold insertKey
    split
    · next hxz =>
      refine List.pairwise_cons.mpr ⟨?_, h⟩
      intro w hw
      rcases List.mem_cons.mp hw with rfl | hw
      · exact hxz
      · exact blt_trans hxz (hz w hw)
    · next hxz =>
      split
      · exact h
      · next hne =>
        refine List.pairwise_cons.mpr ⟨?_, sorted_insertKey x zs hs⟩
        intro w hw
        rcases (mem_insertKey x w zs).mp hw with rfl | hw
        · exact blt_total (by simpa using hxz) hne
        · exact hz w hw

theorem mem_keys (x : Bytes) : ∀ l : List Bytes, x ∈ keys l ↔ x ∈ l
  | [] => by simp [keys]
  | y :: ys => by
    have ih := mem_keys x ys
    unfold keys at *
    rw [List.foldr_cons, mem_insertKey, ih, List.mem_cons]

theorem sorted_keys : ∀ l : List Bytes, Sorted (keys l)
  | [] => by simp [keys, Sorted]
  | y :: ys => by
    have ih := sorted_keys ys
    unfold keys at *
    rw [List.foldr_cons]
    exact sorted_insertKey y _ ih

/-- a strictly ascending list is determined by its members. -/
theorem sorted_ext : ∀ {l1 l2 : List Bytes}, Sorted l1 → Sorted l2 → (∀ x, x ∈ l1 ↔ x ∈ l2) → l1 = l2
  | [], [], _, _, _ => rfl
  | [], y :: _, _, _, h => absurd ((h y).mpr (List.mem_cons_self ..)) (by simp)
  | x :: _, [], _, _, h => absurd ((h x).mp (List.mem_cons_self ..)) (by simp)
  | x :: xs, y :: ys, h1, h2, h => by
    have hx := List.pairwise_cons.mp h1
    have hy := List.pairwise_cons.mp h2
    have hxy : x = y := by
      rcases List.mem_cons.mp ((h x).mp (List.mem_cons_self ..)) with e | hxin
      · exact e
      · rcases List.mem_cons.mp ((h y).mpr (List.mem_cons_self ..)) with e | hyin
        · exact e.symm
        · have a := hy.1 x hxin
          have b := hx.1 y hyin
          rw [blt_asymm a] at b; cases b
    subst hxy
    have : xs = ys := by
      refine sorted_ext hx.2 hy.2 ?_
      intro w
      constructor
      · intro hw
        rcases List.mem_cons.mp ((h w).mp (List.mem_cons_of_mem _ hw)) with e | hw'
        · subst e; exact absurd (hx.1 w hw) (by rw [blt_irrefl]; simp)
        · exact hw'
      · intro hw
        rcases List.mem_cons.mp ((h w).mpr (List.mem_cons_of_mem _ hw)) with e | hw'
        · subst e; exact absurd (hy.1 w hw) (by rw [blt_irrefl]; simp)
        · exact hw'
    rw [this]

theorem keys_congr {l1 l2 : List Bytes} (h : ∀ x, x ∈ l1 ↔ x ∈ l2) : keys l1 = keys l2 :=
  sorted_ext (sorted_keys l1) (sorted_keys l2) (fun x => by rw [mem_keys, mem_keys, h])

/-! ### per-file notions -/

/-- the import literals ReadImports (reportSyntaxError = false) reports for the content. -/
def litsD (d : Bytes) : List Bytes :=
  match readImports d false with
  | .ok l _ none => l
  | _ => []

/-- the prefix ReadImports returns for the content. -/
def prefixD (d : Bytes) : Bytes :=
  match readImports d false with
  | .ok _ b none => b
  | _ => []

/-- the error the scan aborts with at this file, if ReadImports fails on it. -/
def readFails (f : File) : Option ScanErr :=
  match readImports f.2 false with
  | .panic => some (.panic f.1)
  | .stuck => some (.panic f.1)
  | .ok _ _ (some e) => some (.read f.1 e)
  | .ok _ _ none => none

/-- the content passes the cgo rule and (unless the files are explicit) the build-tag filter. -/
def selectedD (U : Nat → Bool) (tags : Tags) (explicitFiles : Bool) (d : Bytes) : Bool :=
  !cSkip tags (litsD d) && (explicitFiles || shouldBuild U (prefixD d) tags)

def selected (U : Nat → Bool) (tags : Tags) (explicitFiles : Bool) (f : File) : Bool :=
  selectedD U tags explicitFiles f.2

def isTest (f : File) : Bool := hasSuffix testGoSuffix f.1

/-- the unquoted import paths of the content (literals Unquote rejects are skipped). -/
def quotesD (d : Bytes) : List Bytes := unquoteAll (litsD d)

theorem mem_quotesD (q d : Bytes) : q ∈ quotesD d ↔ ∃ p ∈ litsD d, unquote p = some q := by
  simp [quotesD, unquoteAll, List.mem_filterMap]

def impsOf (U : Nat → Bool) (tags : Tags) (ex : Bool) (files : List File) : List Bytes :=
  (files.filter fun f => selected U tags ex f && !isTest f).flatMap fun f => quotesD f.2

def testImpsOf (U : Nat → Bool) (tags : Tags) (ex : Bool) (files : List File) : List Bytes :=
  (files.filter fun f => selected U tags ex f && isTest f).flatMap fun f => quotesD f.2

def countSel (U : Nat → Bool) (tags : Tags) (ex : Bool) (files : List File) : Nat :=
  (files.filter fun f => selected U tags ex f).length

theorem scanOne_eq (U : Nat → Bool) (tags : Tags) (ex : Bool) (a : Acc) (f : File) :
    scanOne U tags ex a f =
      match readFails f with
      | some e => .error e
      | none =>
        .ok (if selected U tags ex f then
              (if isTest f then { a with numFiles := a.numFiles + 1, testImports := a.testImports ++ quotesD f.2 }
               else { a with numFiles := a.numFiles + 1, imports := a.imports ++ quotesD f.2 })
             else a) := by
  unfold scanOne readFails selected selectedD isTest quotesD litsD prefixD
  cases readImports f.2 false with
  | panic => rfl
  | stuck => rfl
  | ok l b err =>
    cases err with
    | some e => rfl
    | none =>
      simp only
      cases hc : cSkip tags l <;> cases hex : ex <;> cases hsb : shouldBuild U b tags <;>
        cases ht : hasSuffix testGoSuffix f.1 <;> simp

theorem loopE_cons (step : Acc → File → Except ScanErr Acc) (f : File) (fs : List File) (a : Acc) :
    loopE step (f :: fs) a =
      match step a f with
      | .error e => .error e
      | .ok a' => loopE step fs a' := by rw [loopE]; cases step a f <;> rfl

theorem scanLoop_ok (U : Nat → Bool) (tags : Tags) (ex : Bool) (files : List File) :
    ∀ (a : Acc), (∀ f ∈ files, readFails f = none) →
      scanLoop U tags ex files a =
        .ok ⟨a.imports ++ impsOf U tags ex files, a.testImports ++ testImpsOf U tags ex files,
             a.numFiles + countSel U tags ex files⟩ := by
  unfold scanLoop
  induction files with
  | nil => intro a _; simp [loopE, impsOf, testImpsOf, countSel]
  | cons f fs ih =>
    intro a h
    have hf : readFails f = none := h f (List.mem_cons_self ..)
    have hfs : ∀ g ∈ fs, readFails g = none := fun g hg => h g (List.mem_cons_of_mem _ hg)
    rw [loopE_cons, scanOne_eq, hf]
    simp only
    rw [ih _ hfs]
    cases hs : selected U tags ex f <;> cases ht : isTest f <;>
      simp [impsOf, testImpsOf, countSel, hs, ht, Nat.add_assoc, Nat.add_comm 1]

theorem scanLoop_err (U : Nat → Bool) (tags : Tags) (ex : Bool) (f : File) (post : List File) (e : ScanErr)
    (hf : readFails f = some e) (pre : List File) :
    ∀ (a : Acc), (∀ g ∈ pre, readFails g = none) →
      scanLoop U tags ex (pre ++ f :: post) a = .error e := by
  unfold scanLoop
  induction pre with
  | nil =>
    intro a _
    rw [List.nil_append, loopE_cons, scanOne_eq, hf]
  | cons g gs ih =>
    intro a h
    have hg : readFails g = none := h g (List.mem_cons_self ..)
    have hgs : ∀ x ∈ gs, readFails x = none := fun x hx => h x (List.mem_cons_of_mem _ hx)
    rw [List.cons_append, loopE_cons, scanOne_eq, hg]
    simp only
    exact ih _ hgs

/-- either ReadImports fails on no file, or there is a first file on which it fails. -/
theorem first_fail : ∀ files : List File,
    (∀ f ∈ files, readFails f = none) ∨
    ∃ pre f post e, files = pre ++ f :: post ∧ (∀ g ∈ pre, readFails g = none) ∧ readFails f = some e
  | [] => Or.inl (by simp)
  | f :: fs => by
    cases hf : readFails f with
    | some e => exact Or.inr ⟨[], f, fs, e, rfl, by simp, hf⟩
    | none =>
      rcases first_fail fs with h | ⟨pre, g, post, e, he, hpre, hg⟩
      · left
        intro x hx
        rcases List.mem_cons.mp hx with rfl | hx
        · exact hf
        · exact h x hx
      · right
        refine ⟨f :: pre, g, post, e, by rw [he]; rfl, ?_, hg⟩
        intro x hx
        rcases List.mem_cons.mp hx with rfl | hx
        · exact hf
        · exact hpre x hx

theorem scanFiles_noFail (U : Nat → Bool) (tags : Tags) (ex : Bool) (files : List File)
    (h : ∀ f ∈ files, readFails f = none) :
    scanFiles U tags ex files =
      if countSel U tags ex files = 0 then .error .noGo
      else .ok (keys (impsOf U tags ex files), keys (testImpsOf U tags ex files)) := by
  unfold scanFiles
  rw [scanLoop_ok U tags ex files _ h]
  simp

theorem scanFiles_fail (U : Nat → Bool) (tags : Tags) (ex : Bool) (pre : List File) (f : File)
    (post : List File) (e : ScanErr) (hpre : ∀ g ∈ pre, readFails g = none) (hf : readFails f = some e) :
    scanFiles U tags ex (pre ++ f :: post) = .error e := by
  unfold scanFiles
  rw [scanLoop_err U tags ex f post e hf pre _ hpre]

theorem readFails_ne_noGo (f : File) : readFails f ≠ some .noGo := by
  unfold readFails
  split <;> simp

/-- an ok result means no file failed, some file is selected, and the lists are `keys` of the contributions. -/
theorem scanFiles_ok_inv (U : Nat → Bool) (tags : Tags) (ex : Bool) (files : List File)
    (imps timps : List Bytes) (h : scanFiles U tags ex files = .ok (imps, timps)) :
    (∀ f ∈ files, readFails f = none) ∧ countSel U tags ex files ≠ 0 ∧
    imps = keys (impsOf U tags ex files) ∧ timps = keys (testImpsOf U tags ex files) := by
  rcases first_fail files with hn | ⟨pre, f, post, e, he, hpre, hf⟩
  · rw [scanFiles_noFail U tags ex files hn] at h
    split at h
    · cases h
    · next hc =>
      simp only [Except.ok.injEq, Prod.mk.injEq] at h
      exact ⟨hn, hc, h.1.symm, h.2.symm⟩
  · rw [he, scanFiles_fail U tags ex pre f post e hpre hf] at h
    cases h

theorem mem_impsOf (U : Nat → Bool) (tags : Tags) (ex : Bool) (files : List File) (q : Bytes) :
    q ∈ impsOf U tags ex files ↔
      ∃ f ∈ files, selected U tags ex f = true ∧ isTest f = false ∧ ∃ p ∈ litsD f.2, unquote p = some q := by
  simp only [impsOf, List.mem_flatMap, List.mem_filter, mem_quotesD, Bool.and_eq_true, Bool.not_eq_true']
  constructor
  · rintro ⟨f, ⟨hf, hs, ht⟩, hp⟩; exact ⟨f, hf, hs, ht, hp⟩
  · rintro ⟨f, hf, hs, ht, hp⟩; exact ⟨f, ⟨hf, hs, ht⟩, hp⟩

theorem mem_testImpsOf (U : Nat → Bool) (tags : Tags) (ex : Bool) (files : List File) (q : Bytes) :
    q ∈ testImpsOf U tags ex files ↔
      ∃ f ∈ files, selected U tags ex f = true ∧ isTest f = true ∧ ∃ p ∈ litsD f.2, unquote p = some q := by
  simp only [testImpsOf, List.mem_flatMap, List.mem_filter, mem_quotesD, Bool.and_eq_true]
  constructor
  · rintro ⟨f, ⟨hf, hs, ht⟩, hp⟩; exact ⟨f, hf, hs, ht, hp⟩
  · rintro ⟨f, hf, hs, ht, hp⟩; exact ⟨f, ⟨hf, hs, ht⟩, hp⟩

theorem countSel_eq_zero (U : Nat → Bool) (tags : Tags) (ex : Bool) (files : List File) :
    countSel U tags ex files = 0 ↔ ∀ f ∈ files, selected U tags ex f = false := by
  simp [countSel, List.filter_eq_nil_iff]

/-! ### a separator byte cuts suffixes: the `_test.go` test on `dir/name` looks at `name` only -/

theorem suffix_of_sep {s l r : Bytes} {c : UInt8} (hc : c ∉ s) (h : s <:+ l ++ c :: r) : s <:+ r := by
  obtain ⟨t, ht⟩ := h
  rcases List.append_eq_append_iff.mp ht with ⟨a', hl, hs⟩ | ⟨c', ht', hs⟩
  · exact absurd (by rw [hs]; simp) hc
  · cases c' with
    | nil => exact absurd (by simp at hs; rw [← hs]; simp) hc
    | cons x c'' =>
      simp only [List.cons_append, List.cons.injEq] at hs
      exact ⟨c'', hs.2.symm⟩

theorem isTest_join (dir name data : Bytes) :
    isTest (joinPath dir name, data) = hasSuffix testGoSuffix name := by
  unfold isTest hasSuffix joinPath
  rw [Bool.eq_iff_iff, List.isSuffixOf_iff_suffix, List.isSuffixOf_iff_suffix]
  constructor
  · exact suffix_of_sep (by decide)
  · intro h
    exact List.IsSuffix.trans h (List.suffix_append_of_suffix (List.suffix_cons _ _))

/-! ### ScanDir -/

/-- a directory entry is scanned: the entry filter of ScanDir, the cgo rule and the build-tag filter. -/
def entrySelected (U : Nat → Bool) (tags : Tags) (e : Entry) : Bool :=
  e.regular && !hasPrefix underscore e.name && hasSuffix dotGo e.name && matchFile U e.name tags &&
    !cSkip tags (litsD e.data) && shouldBuild U (prefixD e.data) tags

def dirFiles (U : Nat → Bool) (tags : Tags) (dir : Bytes) (entries : List Entry) : List File :=
  (entries.filter (dirSelects U tags)).map fun e => (joinPath dir e.name, e.data)

theorem scanDir_eq (U : Nat → Bool) (tags : Tags) (dir : Bytes) (entries : List Entry) :
    scanDir U tags dir entries = scanFiles U tags false (dirFiles U tags dir entries) := rfl

theorem entrySelected_eq (U : Nat → Bool) (tags : Tags) (dir : Bytes) (e : Entry) :
    entrySelected U tags e = (dirSelects U tags e && selected U tags false (joinPath dir e.name, e.data)) := by
  simp [entrySelected, dirSelects, selected, selectedD, Bool.and_assoc]

theorem dirFiles_exists (U : Nat → Bool) (tags : Tags) (dir : Bytes) (entries : List Entry)
    (P : File → Prop) :
    (∃ f ∈ dirFiles U tags dir entries, P f) ↔
      ∃ e ∈ entries, dirSelects U tags e = true ∧ P (joinPath dir e.name, e.data) := by
  simp only [dirFiles, List.mem_map, List.mem_filter]
  constructor
  · rintro ⟨f, ⟨e, ⟨he, hd⟩, rfl⟩, hp⟩; exact ⟨e, he, hd, hp⟩
  · rintro ⟨e, he, hd, hp⟩; exact ⟨_, ⟨e, ⟨he, hd⟩, rfl⟩, hp⟩

theorem dirFiles_forall (U : Nat → Bool) (tags : Tags) (dir : Bytes) (entries : List Entry)
    (P : File → Prop) :
    (∀ f ∈ dirFiles U tags dir entries, P f) ↔
      ∀ e ∈ entries, dirSelects U tags e = true → P (joinPath dir e.name, e.data) := by
  simp only [dirFiles, List.mem_map, List.mem_filter]
  constructor
  · intro h e he hd; exact h _ ⟨e, ⟨he, hd⟩, rfl⟩
  · rintro h f ⟨e, ⟨he, hd⟩, rfl⟩; exact h e he hd

theorem countSel_ne_zero (U : Nat → Bool) (tags : Tags) (ex : Bool) (files : List File)
    (h : countSel U tags ex files ≠ 0) : ∃ f ∈ files, selected U tags ex f = true := by
  unfold countSel at h
  have hne : (files.filter fun f => selected U tags ex f) ≠ [] := fun e => h (by rw [e]; rfl)
  obtain ⟨f, hf⟩ := List.exists_mem_of_ne_nil _ hne
  exact ⟨f, (List.mem_filter.mp hf).1, (List.mem_filter.mp hf).2⟩

/-- ErrNoGo exactly when ReadImports fails on no file and no file is selected. -/
theorem scanFiles_noGo_iff (U : Nat → Bool) (tags : Tags) (ex : Bool) (files : List File) :
    scanFiles U tags ex files = .error .noGo ↔
      (∀ f ∈ files, readFails f = none) ∧ ∀ f ∈ files, selected U tags ex f = false := by
  constructor
  · intro h
    rcases first_fail files with hn | ⟨pre, f, post, e0, he, hpre, hf⟩
    · rw [scanFiles_noFail U tags ex files hn] at h
      split at h
      · next hc => exact ⟨hn, (countSel_eq_zero U tags ex files).mp hc⟩
      · cases h
    · rw [he, scanFiles_fail U tags ex pre f post e0 hpre hf] at h
      simp only [Except.error.injEq] at h
      subst h
      exact absurd hf (readFails_ne_noGo f)
  · rintro ⟨hn, hs⟩
    rw [scanFiles_noFail U tags ex files hn, if_pos ((countSel_eq_zero U tags ex files).mpr hs)]

theorem cSkip_star (tags : Tags) (hs : tags starTag = true) (l : List Bytes) : cSkip tags l = false := by
  simp [cSkip, hs]

end GIV.Scan
