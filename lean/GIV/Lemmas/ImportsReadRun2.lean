/-
  C18 — good-path lemmas, part 2: keywords, identifiers, string literals.
-/
import GIV.Lemmas.ImportsReadRun

namespace GIV.C18
open GIV GIV.ReadImports GIV.Gen.Imports

/-! ### keywords -/

theorem kwLoop_run : ∀ (kw : Bytes) (st : St) (inp b : Bytes) (i : List Bytes),
    Rep st (kw ++ inp) b i → noNul kw = true → kw ≠ [] →
    kwLoop kw st = (G inp (kw.reverse ++ b) 0 i, true) := by
  intro kw
  induction kw with
  | nil => intro st inp b i _ _ h; exact absurd rfl h
  | cons k ks ih =>
    intro st inp b i hr hn _
    simp only [noNul, List.all_cons, Bool.and_eq_true, decide_eq_true_eq] at hn
    rw [kwLoop, nextByte_false st k (ks ++ inp) b i hr hn.1]
    simp only [ne_eq, not_true_eq_false, if_false]
    cases ks with
    | nil => simp [kwLoop]
    | cons k2 ks2 =>
      rw [ih (G (k2 :: ks2 ++ inp) (k :: b) 0 i) inp (k :: b) i (Rep.plain _ _ _) (by simpa [noNul] using hn.2) (by simp)]
      simp

/-- `readKeyword kw` over leading white space, the keyword, and a following non-identifier byte `x`
(which is left peeked). -/
theorem readKeyword_run (kw : Bytes) (st : St) (sp : Sp) (x : UInt8) (tl b : Bytes) (i : List Bytes)
    (hr : Rep st (renderSp sp ++ kw ++ x :: tl) b i) (hw : sp.WF = true)
    (hkw : noNul kw = true) (hk0 : ∃ k ks, kw = k :: ks ∧ solid k) (hx : x ≠ 0) (hxi : isIdent x = false) :
    readKeyword kw st = G tl (x :: kw.reverse ++ (renderSp sp).reverse ++ b) x i := by
  obtain ⟨k, ks, rfl, hk⟩ := hk0
  unfold readKeyword
  have h1 := peekByte_skip st sp (.byte k (ks ++ x :: tl)) b i (by simpa [Ending.bytes] using hr) hw hk
  rw [h1]
  simp only [peekResult]
  have hkl := kwLoop_run (k :: ks) (G (ks ++ x :: tl) (k :: ((renderSp sp).reverse ++ b)) k i) (x :: tl)
    ((renderSp sp).reverse ++ b) i
    (by simpa using Rep.peeked k (ks ++ x :: tl) ((renderSp sp).reverse ++ b) i hk.2.2) hkw (by simp)
  simp only [hkl, if_true]
  rw [peekByte_false _ x tl _ i (Rep.plain _ _ _) hx]
  simp [hxi]

/-! ### identifiers -/

theorem identLoop_run (x : UInt8) (tl : Bytes) (i : List Bytes) (hx : x ≠ 0) (hxi : isIdent x = false) :
    ∀ (id : Bytes) (n : Nat) (st : St) (b : Bytes), Rep st (id ++ x :: tl) b i → id.all isIdent = true →
      id.length + 1 ≤ n → identLoop n st = G tl (x :: id.reverse ++ b) x i := by
  intro id
  induction id with
  | nil =>
    intro n st b hr _ hn
    obtain ⟨m, rfl⟩ : ∃ m, n = m + 1 := ⟨n - 1, by omega⟩
    rw [identLoop, peekByte_false st x tl b i (by simpa using hr) hx]
    simp [hxi]
  | cons a as ih =>
    intro n st b hr hid hn
    obtain ⟨m, rfl⟩ : ∃ m, n = m + 1 := ⟨n - 1, by simp at hn; omega⟩
    simp only [List.all_cons, Bool.and_eq_true] at hid
    have ha : a ≠ 0 := (isIdent_solid a hid.1).2.2
    rw [identLoop, peekByte_false st a (as ++ x :: tl) b i (by simpa using hr) ha]
    simp only [hid.1, if_true, G_setPeek]
    rw [ih m _ (a :: b) (Rep.plain _ _ _) hid.2 (by simp at hn; omega)]
    simp

theorem identWF_iff (id : Bytes) : identWF id = true ↔ (id ≠ [] ∧ id.all isIdent = true) := by
  cases id <;> simp [identWF]

/-- `readIdent` over white space, an identifier and a following non-identifier byte (left peeked). -/
theorem readIdent_run (st : St) (sp : Sp) (id : Bytes) (x : UInt8) (tl b : Bytes) (i : List Bytes)
    (hr : Rep st (renderSp sp ++ id ++ x :: tl) b i) (hw : sp.WF = true) (hid : identWF id = true)
    (hx : x ≠ 0) (hxi : isIdent x = false) :
    readIdent st = G tl (x :: id.reverse ++ (renderSp sp).reverse ++ b) x i := by
  rw [identWF_iff] at hid
  obtain ⟨a, as, rfl⟩ : ∃ a as, id = a :: as := by
    cases id with
    | nil => exact absurd rfl hid.1
    | cons a as => exact ⟨a, as, rfl⟩
  have hid2 := hid.2
  simp only [List.all_cons, Bool.and_eq_true] at hid2
  have hsolid := isIdent_solid a hid2.1
  unfold readIdent
  rw [peekByte_skip st sp (.byte a (as ++ x :: tl)) b i (by simpa [Ending.bytes] using hr) hw hsolid]
  simp only [peekResult, hid2.1, Bool.not_true, Bool.false_eq_true, if_false]
  rw [identLoop_run x tl i hx hxi (a :: as) _ _ ((renderSp sp).reverse ++ b)
    (by simpa using Rep.peeked a (as ++ x :: tl) ((renderSp sp).reverse ++ b) i hsolid.2.2) hid.2 (by simp)]
  simp

/-- `readIdent` when the input ends right after the identifier. -/
theorem readIdent_run_eof (st : St) (sp : Sp) (id : Bytes) (b : Bytes) (i : List Bytes)
    (hr : Rep st (renderSp sp ++ id) b i) (hw : sp.WF = true) (hid : identWF id = true) :
    readIdent st = E (id.reverse ++ (renderSp sp).reverse ++ b) 0 i := by
  rw [identWF_iff] at hid
  obtain ⟨a, as, rfl⟩ : ∃ a as, id = a :: as := by
    cases id with
    | nil => exact absurd rfl hid.1
    | cons a as => exact ⟨a, as, rfl⟩
  have hid2 := hid.2
  simp only [List.all_cons, Bool.and_eq_true] at hid2
  have hsolid := isIdent_solid a hid2.1
  unfold readIdent
  rw [peekByte_skip st sp (.byte a as) b i (by simpa [Ending.bytes] using hr) hw hsolid]
  simp only [peekResult, hid2.1, Bool.not_true, Bool.false_eq_true, if_false, G_rest]
  -- run the loop to the end of input
  have loop : ∀ (as : Bytes) (n : Nat) (st : St) (b : Bytes), Rep st as b i → as.all isIdent = true →
      as.length + 1 ≤ n → identLoop n st = E (as.reverse ++ b) 0 i := by
    intro as
    induction as with
    | nil =>
      intro n st b hr _ hn
      obtain ⟨m, rfl⟩ : ∃ m, n = m + 1 := ⟨n - 1, by omega⟩
      rcases hr with rfl | ⟨c, inp', _, h, _⟩
      · rw [identLoop, peekByte_false_eof]
        simp [show isIdent 0 = false by decide]
      · simp at h
    | cons a as ih =>
      intro n st b hr hid hn
      obtain ⟨m, rfl⟩ : ∃ m, n = m + 1 := ⟨n - 1, by simp at hn; omega⟩
      simp only [List.all_cons, Bool.and_eq_true] at hid
      have ha : a ≠ 0 := (isIdent_solid a hid.1).2.2
      rw [identLoop, peekByte_false st a as b i hr ha]
      simp only [hid.1, if_true, G_setPeek]
      rw [ih m _ (a :: b) (Rep.plain _ _ _) hid.2 (by simp at hn; omega)]
      simp
  rw [loop (a :: as) _ _ ((renderSp sp).reverse ++ b) (Rep.peeked a as _ i hsolid.2.2) hid.2 (by simp)]
  simp

/-! ### string literals -/

theorem Rep.err {st : St} {inp b : Bytes} {i : List Bytes} (h : Rep st inp b i) : st.err = none := by
  rcases h with rfl | ⟨_, _, _, _, rfl⟩ <;> rfl

theorem saveFrom_G (tl X B : Bytes) (i : List Bytes) :
    saveFrom B.length (G tl (X ++ B) 0 i) = G tl (X ++ B) 0 (i ++ [X.reverse]) := by
  simp [saveFrom, G]

theorem rawLoop_run (tl : Bytes) (i : List Bytes) (start : Nat) :
    ∀ (body : Bytes) (n : Nat) (st : St) (b : Bytes), Rep st (body ++ 96 :: tl) b i → noNul body = true →
      body.all (· ≠ 96) = true → body.length + 1 ≤ n →
      rawLoop n start st = saveFrom start (G tl (96 :: body.reverse ++ b) 0 i) := by
  intro body
  induction body with
  | nil =>
    intro n st b hr _ _ hn
    obtain ⟨m, rfl⟩ : ∃ m, n = m + 1 := ⟨n - 1, by omega⟩
    rw [rawLoop, hr.err, nextByte_false st 96 tl b i (by simpa using hr) (by decide)]
    simp
  | cons x xs ih =>
    intro n st b hr hnul h96 hn
    obtain ⟨m, rfl⟩ : ∃ m, n = m + 1 := ⟨n - 1, by simp at hn; omega⟩
    simp only [noNul, List.all_cons, Bool.and_eq_true, decide_eq_true_eq] at hnul h96
    rw [rawLoop, hr.err, nextByte_false st x (xs ++ 96 :: tl) b i (by simpa using hr) hnul.1]
    simp only [Option.isNone_none, if_true, h96.1, if_false, G_eof, Bool.false_eq_true]
    rw [ih m _ (x :: b) (Rep.plain _ _ _) (by simpa [noNul] using hnul.2) h96.2 (by simp at hn; omega)]
    simp

def renderItems (items : List StrItem) : Bytes := items.flatMap StrItem.render

theorem strLoop_run (tl : Bytes) (i : List Bytes) (start : Nat) :
    ∀ (items : List StrItem) (n : Nat) (st : St) (b : Bytes), Rep st (renderItems items ++ 34 :: tl) b i →
      items.all StrItem.WF = true → items.length + 1 ≤ n →
      strLoop n start st = saveFrom start (G tl (34 :: (renderItems items).reverse ++ b) 0 i) := by
  intro items
  induction items with
  | nil =>
    intro n st b hr _ hn
    obtain ⟨m, rfl⟩ : ∃ m, n = m + 1 := ⟨n - 1, by omega⟩
    rw [strLoop, hr.err, nextByte_false st 34 tl b i (by simpa [renderItems] using hr) (by decide)]
    simp [renderItems]
  | cons it its ih =>
    intro n st b hr hw hn
    obtain ⟨m, rfl⟩ : ∃ m, n = m + 1 := ⟨n - 1, by simp at hn; omega⟩
    simp only [List.all_cons, Bool.and_eq_true] at hw
    cases it with
    | plain c =>
      simp only [StrItem.WF, Bool.and_eq_true, decide_eq_true_eq] at hw
      obtain ⟨⟨⟨⟨h34, h92⟩, h10⟩, h0⟩, hrest⟩ := hw
      have hr' : Rep st (c :: (renderItems its ++ 34 :: tl)) b i := by
        simpa [renderItems, StrItem.render] using hr
      rw [strLoop, hr.err, nextByte_false st c _ b i hr' h0]
      simp only [Option.isNone_none, if_true, h34, if_false, G_eof, Bool.false_eq_true, h10, h92,
        decide_false, Bool.or_self]
      rw [ih m _ (c :: b) (Rep.plain _ _ _) hrest (by simp at hn; omega)]
      simp [renderItems, StrItem.render]
    | esc c =>
      simp only [StrItem.WF, Bool.and_eq_true, decide_eq_true_eq] at hw
      obtain ⟨⟨h0, h10⟩, hrest⟩ := hw
      have hr' : Rep st (92 :: c :: (renderItems its ++ 34 :: tl)) b i := by
        simpa [renderItems, StrItem.render] using hr
      rw [strLoop, hr.err, nextByte_false st 92 _ b i hr' (by decide)]
      have e1 : ((92 : UInt8) = 34) = False := by decide
      have e2 : ((92 : UInt8) = 10) = False := by decide
      simp only [Option.isNone_none, if_true, e1, if_false, G_eof, Bool.false_eq_true, e2,
        decide_false, Bool.or_self]
      rw [nextByte_false _ c _ (92 :: b) i (Rep.plain _ _ _) h0]
      simp only [h10, decide_false, Bool.and_false, Bool.false_eq_true, if_false]
      rw [ih m _ (c :: 92 :: b) (Rep.plain _ _ _) hrest (by simp at hn; omega)]
      simp [renderItems, StrItem.render]

theorem nextByte_skip (st : St) (sp : Sp) (d : UInt8) (tl b : Bytes) (i : List Bytes)
    (hr : Rep st (renderSp sp ++ d :: tl) b i) (hw : sp.WF = true) (hd : solid d) :
    nextByte true st = (d, G tl (d :: ((renderSp sp).reverse ++ b)) 0 i) := by
  unfold nextByte
  rw [peekByte_skip st sp (.byte d tl) b i (by simpa [Ending.bytes] using hr) hw hd]
  rfl

/-- `readString` over white space and a path literal: the literal (quotes included) is saved. -/
theorem readString_run (st : St) (sp : Sp) (path : PathLit) (tl b : Bytes) (i : List Bytes)
    (hr : Rep st (renderSp sp ++ path.render ++ tl) b i) (hw : sp.WF = true) (hp : path.WF = true) :
    readString st = G tl (path.render.reverse ++ (renderSp sp).reverse ++ b) 0 (i ++ [path.render]) := by
  unfold readString
  cases path with
  | raw body =>
    simp only [PathLit.WF, Bool.and_eq_true] at hp
    have hq : solid 96 := ⟨by decide, by decide, by decide⟩
    rw [nextByte_skip st sp 96 (body ++ 96 :: tl) b i (by simpa [PathLit.render] using hr) hw hq]
    simp only [if_true, G_rest, G_buf]
    rw [rawLoop_run tl i _ body _ _ (96 :: ((renderSp sp).reverse ++ b)) (Rep.plain _ _ _) hp.1 hp.2 (by simp; omega)]
    have := saveFrom_G tl (96 :: body.reverse ++ [96]) ((renderSp sp).reverse ++ b) i
    simp only [List.length_cons, Nat.add_sub_cancel]
    simp only [List.cons_append, List.append_assoc, List.singleton_append, List.nil_append] at this
    simp only [List.cons_append] 
    rw [this]
    simp [PathLit.render]
  | interp items =>
    simp only [PathLit.WF] at hp
    have hq : solid 34 := ⟨by decide, by decide, by decide⟩
    rw [nextByte_skip st sp 34 (renderItems items ++ 34 :: tl) b i
      (by simpa [PathLit.render, renderItems] using hr) hw hq]
    have e1 : ((34 : UInt8) = 96) = False := by decide
    simp only [e1, if_false, if_true, G_rest, G_buf]
    rw [strLoop_run tl i _ items _ _ (34 :: ((renderSp sp).reverse ++ b)) (Rep.plain _ _ _) hp (by
      have : items.length ≤ (renderItems items).length := by
        clear hr hp
        induction items with
        | nil => simp
        | cons it its ih =>
          cases it <;> simp [renderItems, StrItem.render] at * <;> omega
      simp; omega)]
    have := saveFrom_G tl (34 :: (renderItems items).reverse ++ [34]) ((renderSp sp).reverse ++ b) i
    simp only [List.length_cons, Nat.add_sub_cancel]
    simp only [List.cons_append, List.append_assoc, List.singleton_append, List.nil_append] at this
    simp only [List.cons_append]
    rw [this]
    simp [PathLit.render, renderItems]

end GIV.C18
