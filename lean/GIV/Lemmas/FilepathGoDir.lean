/-
  GIV.Lemmas.FilepathGoDir — the Lean translation of the STANDARD LIBRARY's filepath.Dir for Unix
  (GIV.Gen.FilepathGo: `Dir`, `VolumeName` of GOROOT/src/internal/filepathlite/path.go).

    Dir_loop_eq   the backward scan `for i >= len(vol) && !IsPathSeparator(path[i]) { i-- }` stops just after the last
                  separator (at -1 when there is none); `path[i]` never fails; the budget suffices
    Dir_eq        `Dir(front ++ c) = Clean(front)` when `c` has no separator and `front` is empty or ends with one
    Dir_pathStr   for an absolute normalised non-root path, Dir is the path string of `dropLast` — what the model's
                  `writeOne` passes to `mkdirAll`
-/
import GIV.Lemmas.FilepathGoClean
import GIV.Lemmas.FsxPath
namespace GIV.FilepathGo
open GIV GIV.GoLib GIV.Fsx GIV.Go.Filepath

theorem Dir_loop_eq (front : Bytes) (hf : front = [] ∨ front.getLast? = some SEP) :
    ∀ (rc done : Bytes) (fuel : Nat), SEP ∉ rc → rc.length < fuel →
      Dir_loop1 (front ++ rc.reverse ++ done) [] fuel (((front ++ rc.reverse).length : Int) - 1) =
        Dir_after1 (front ++ rc.reverse ++ done) [] ((front.length : Int) - 1) := by
  intro rc
  induction rc with
  | nil =>
    intro done fuel _ hfu
    cases fuel with
    | zero => omega
    | succ fuel =>
      rw [Dir_loop1]
      simp only [List.reverse_nil, List.append_nil]
      rcases hf with h | h
      · subst h
        simp [GoLib.len]
      · obtain ⟨fr, rfl⟩ : ∃ fr, front = fr ++ [SEP] := by
          rcases List.eq_nil_or_concat front with h0 | ⟨fr, x, hx⟩
          · rw [h0] at h; simp at h
          · refine ⟨fr, ?_⟩
            rw [hx] at h ⊢
            simp at h; rw [h]; simp
        have hi : ((fr ++ [SEP]).length : Int) - 1 = (fr.length : Int) := by simp
        have hidx : GoLib.idx? (fr ++ [SEP] ++ done) (fr.length : Int) = some SEP := by
          rw [List.append_assoc, idx_app0]; rfl
        rw [hi]
        have hidx' : GoLib.idx? (fr ++ SEP :: done) (fr.length : Int) = some SEP := by
          have := hidx; simpa using this
        simp [GoLib.len, hidx', isSep]
  | cons x rc ih =>
    intro done fuel hs hfu
    cases fuel with
    | zero => omega
    | succ fuel =>
      rw [Dir_loop1]
      have hx : x ≠ SEP := fun e => hs (by simp [e])
      have hs' : SEP ∉ rc := fun h => hs (List.mem_cons_of_mem _ h)
      have hpath : front ++ (x :: rc).reverse ++ done = front ++ rc.reverse ++ (x :: done) := by simp
      have hi : (((front ++ (x :: rc).reverse).length : Int) - 1) = ((front ++ rc.reverse).length : Int) := by
        simp; omega
      have hidx : GoLib.idx? (front ++ rc.reverse ++ (x :: done)) ((front ++ rc.reverse).length : Int) = some x := by
        rw [idx_app0]; rfl
      have hge : decide (((front ++ rc.reverse).length : Int) ≥ GoLib.len ([] : Bytes)) = true := by
        apply decide_eq_true; unfold GoLib.len; simp; omega
      have hx' : decide (x = SEP) = false := decide_eq_false hx
      rw [hpath, hi]
      simp only [hge, if_true, hidx, isSep, hx', Option.pure_def, Option.bind_eq_bind, Option.bind_some, Bool.not_false,
        Bool.not_true, Bool.false_eq_true, if_false]
      exact ih (x :: done) fuel hs' (by simpa using hfu)

/-- **filepath.Dir** (translated): everything up to the last separator, cleaned. -/
theorem Dir_eq (front c : Bytes) (hf : front = [] ∨ front.getLast? = some SEP) (hc : SEP ∉ c) :
    Dir (front ++ c) = some (cleanPath front) := by
  unfold Dir VolumeName
  have hvol : volumeNameLen (front ++ c) = some 0 := rfl
  have hs0 : GoLib.slice? (front ++ c) 0 0 = some [] := by unfold GoLib.slice?; simp; omega
  simp only [hvol, Option.pure_def, Option.bind_eq_bind, Option.bind_some, hs0, fromSlash]
  have h := Dir_loop_eq front hf c.reverse [] ((front ++ c).length + 1) (by simpa using hc) (by simp; omega)
  simp only [List.reverse_reverse, List.append_nil] at h
  unfold GoLib.len
  rw [h]
  unfold Dir_after1
  have hsl : GoLib.slice? (front ++ c) (GoLib.len ([] : Bytes)) ((front.length : Int) - 1 + 1) = some front := by
    unfold GoLib.slice? GoLib.len
    rw [if_pos (by simp; omega)]
    simp
  simp only [hsl, Option.pure_def, Option.bind_eq_bind, Option.bind_some, Clean_eq_path]
  simp [GoLib.len]

theorem joinPath_nil (d : Path) : joinPath d [] = d := by
  simp [joinPath, splitSep, splitAux, cleanComps, cleanStep]

/-- for an absolute normalised non-root path, Dir drops the last element. -/
theorem Dir_pathStr (q : Path) (hq : ∀ c ∈ q, Normal c) (hne : q ≠ []) :
    Dir (pathStr q) = some (pathStr q.dropLast) := by
  obtain ⟨d, c, rfl⟩ : ∃ d c, q = d ++ [c] := by
    rcases List.eq_nil_or_concat q with h | ⟨d, c, h⟩
    · exact absurd h hne
    · exact ⟨d, c, by rw [h]; simp⟩
  have hc : SEP ∉ c := (hq c (by simp)).2.2.2
  rw [List.dropLast_concat]
  cases d with
  | nil =>
    have : pathStr ([] ++ [c]) = [SEP] ++ c := rfl
    rw [this, Dir_eq [SEP] c (Or.inr rfl) hc]
    rfl
  | cons a d =>
    have hd : ∀ x ∈ a :: d, Normal x := fun x hx => hq x (List.mem_append_left _ hx)
    have : pathStr ((a :: d) ++ [c]) = (pathStr (a :: d) ++ [SEP]) ++ c := by
      unfold pathStr
      rw [joinSep_append (by simp) (by simp)]
      simp [joinSep]
    rw [this, Dir_eq _ c (Or.inr (by simp)) hc]
    have := joinPath_eq_clean hd []
    rw [joinPath_nil] at this
    rw [this]

end GIV.FilepathGo
