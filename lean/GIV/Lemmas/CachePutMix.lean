/-
  GIV.Lemmas.CachePutMix — C11, the torn-read corner: a reader whose read of the index entry is torn by
  a concurrent rewrite of the SAME (id, output, size) sees a byte-wise mixture of two entries that differ
  only in the digits of the time stamp; such a mixture parses to that (output, size).

  Stated over an entry codec with fixed field positions (`FixedFields`): the entry is
  `pre id out size ++ (' ' :: 19 digits of the time) ++ post`, and `parse` accepts ANY 19 digits with a
  leading digit ≤ 8 in the time field (they denote a number below 9·10¹⁸ < 2⁶³) — what
  `parseEntry_of_fields` of group `cache` proves for the real codec; time stamps have 19 digits with a
  leading digit ≤ 8 from 2001 to 2255.
-/
import GIV.Model.CachePut

namespace GIV.CachePut
open GIV

variable {Id Hsh : Type}

/-- a decimal digit; a leading digit that keeps 19 digits below 9·10¹⁸. -/
def IsDigit (b : UInt8) : Prop := 48 ≤ b ∧ b ≤ 57
def IsLead (b : UInt8) : Prop := 48 ≤ b ∧ b ≤ 56

/-- a time field: 19 digits, the first one at most 8. -/
def TimeDigits (ds : Bytes) : Prop :=
  ds.length = 19 ∧ (∀ b, b ∈ ds → IsDigit b) ∧ (∀ b, ds.head? = some b → IsLead b)

/-- `m` is a byte-wise mixture of `a` and `b`. -/
def Mixture (m a b : Bytes) : Prop :=
  m.length = a.length ∧ a.length = b.length ∧ ∀ (i : Nat) (x : UInt8), m[i]? = some x → a[i]? = some x ∨ b[i]? = some x

theorem Mixture.nil : Mixture [] [] [] := ⟨rfl, rfl, fun i x h => by simp at h⟩

theorem Mixture.cons_a {m a b : Bytes} (x y : UInt8) (h : Mixture m a b) : Mixture (x :: m) (x :: a) (y :: b) := by
  refine ⟨by simpa using h.1, by simpa using h.2.1, fun i z hz => ?_⟩
  cases i with
  | zero => left; simpa using hz
  | succ i => simpa using h.2.2 i z (by simpa using hz)

theorem Mixture.cons_b {m a b : Bytes} (x y : UInt8) (h : Mixture m a b) : Mixture (y :: m) (x :: a) (y :: b) := by
  refine ⟨by simpa using h.1, by simpa using h.2.1, fun i z hz => ?_⟩
  cases i with
  | zero => right; simpa using hz
  | succ i => simpa using h.2.2 i z (by simpa using hz)

structure FixedFields (P : Params Id Hsh) where
  pre : Id → Hsh → Nat → Bytes
  post : Bytes
  digits : Int → Bytes
  okTime : Int → Prop
  okSize : Nat → Prop
  enc_eq : ∀ id out size t, okTime t → P.enc id out size t = pre id out size ++ (32 :: digits t) ++ post
  digits_ok : ∀ t, okTime t → TimeDigits (digits t)
  parse_any : ∀ id out size ds, okSize size → TimeDigits ds →
    P.parse id (pre id out size ++ (32 :: ds) ++ post) = some ⟨out, size⟩

theorem mixture_append_left {m a b p : Bytes} (h : Mixture m (p ++ a) (p ++ b)) :
    ∃ m', m = p ++ m' ∧ Mixture m' a b := by
  induction p generalizing m with
  | nil => exact ⟨m, rfl, by simpa using h⟩
  | cons x p ih =>
    obtain ⟨h1, h2, h3⟩ := h
    cases m with
    | nil => simp at h1
    | cons y m =>
      have hy : y = x := by
        have := h3 0 y (by simp)
        simp at this; exact this.symm
      subst hy
      have : Mixture m (p ++ a) (p ++ b) := by
        refine ⟨by simpa using h1, by simpa using h2, fun i z hz => ?_⟩
        have := h3 (i + 1) z (by simpa using hz)
        simpa using this
      obtain ⟨m', rfl, hm'⟩ := ih this
      exact ⟨m', rfl, hm'⟩

theorem mixture_split {m a b s : Bytes} (hab : a.length = b.length) (h : Mixture m (a ++ s) (b ++ s)) :
    ∃ m', m = m' ++ s ∧ Mixture m' a b := by
  induction a generalizing m b with
  | nil =>
    cases b with
    | nil =>
      obtain ⟨h1, _, h3⟩ := h
      refine ⟨[], ?_, by simp [Mixture]⟩
      apply List.ext_getElem? 
      intro i
      simp only [List.nil_append] at h1 h3 ⊢
      cases hm : m[i]? with
      | none =>
        have : m.length ≤ i := List.getElem?_eq_none_iff.mp hm
        exact (List.getElem?_eq_none_iff.mpr (by omega)).symm
      | some x => rcases h3 i x hm with h | h <;> exact h.symm
    | cons y b => simp at hab
  | cons x a ih =>
    cases b with
    | nil => simp at hab
    | cons y b =>
      obtain ⟨h1, h2, h3⟩ := h
      cases m with
      | nil => simp at h1
      | cons z m =>
        have : Mixture m (a ++ s) (b ++ s) := by
          refine ⟨by simpa using h1, by simpa using h2, fun i w hw => ?_⟩
          have := h3 (i + 1) w (by simpa using hw)
          simpa using this
        obtain ⟨m', rfl, hm'⟩ := ih (by simpa using hab) this
        refine ⟨z :: m', rfl, ?_⟩
        refine ⟨by simpa using hm'.1, by simpa using hab, fun i w hw => ?_⟩
        cases i with
        | zero =>
          have := h3 0 w (by simpa using hw)
          simpa using this
        | succ i =>
          have := hm'.2.2 i w (by simpa using hw)
          simpa using this

theorem timeDigits_mixture {m a b : Bytes} (ha : TimeDigits a) (hb : TimeDigits b) (h : Mixture m a b) :
    TimeDigits m := by
  obtain ⟨h1, h2, h3⟩ := h
  refine ⟨by rw [h1]; exact ha.1, fun x hx => ?_, fun x hx => ?_⟩
  · obtain ⟨i, hi⟩ := List.getElem?_of_mem hx
    rcases h3 i x hi with h | h
    · exact ha.2.1 x (List.mem_of_getElem? h)
    · exact hb.2.1 x (List.mem_of_getElem? h)
  · have h0 : m[0]? = some x := by rw [← List.head?_eq_getElem?]; exact hx
    rcases h3 0 x h0 with h | h
    · exact ha.2.2 x (by rw [List.head?_eq_getElem?]; exact h)
    · exact hb.2.2 x (by rw [List.head?_eq_getElem?]; exact h)

/-- **mix_parse_same**: any byte-wise mixture of two entries with equal (id, output, size) whose time
stamps have the fixed width parses to that (output, size) — a torn read during a rewrite of identical
content is harmless. -/
theorem mix_parse_same {P : Params Id Hsh} (F : FixedFields P) (id : Id) (out : Hsh) (size : Nat) (t1 t2 : Int)
    (hs : F.okSize size) (h1 : F.okTime t1) (h2 : F.okTime t2) {m : Bytes}
    (hm : Mixture m (P.enc id out size t1) (P.enc id out size t2)) : P.parse id m = some ⟨out, size⟩ := by
  rw [F.enc_eq id out size t1 h1, F.enc_eq id out size t2 h2] at hm
  have d1 := F.digits_ok t1 h1
  have d2 := F.digits_ok t2 h2
  rw [List.append_assoc, List.append_assoc] at hm
  obtain ⟨m1, rfl, hm1⟩ := mixture_append_left hm
  obtain ⟨m2, rfl, hm2⟩ := mixture_split (a := 32 :: F.digits t1) (b := 32 :: F.digits t2)
    (by simp [d1.1, d2.1]) hm1
  obtain ⟨m3, rfl, hm3⟩ := mixture_append_left (p := [32]) (a := F.digits t1) (b := F.digits t2) (by simpa using hm2)
  have := F.parse_any id out size m3 hs (timeDigits_mixture d1 d2 hm3)
  simpa [List.append_assoc] using this

end GIV.CachePut
