/-
  GIV.Lemmas.CachePutConcX — further local facts of a fault-free writer (C11): what it has read during
  the reuse check is a prefix of the file, and once `copyFile` is over the output is COMPLETE and stays so.
-/
import GIV.Lemmas.CachePutConc

set_option linter.unusedSimpArgs false
set_option linter.unusedSectionVars false
set_option linter.unusedVariables false

namespace GIV.CachePut
open GIV

variable {Id Hsh : Type} [DecidableEq Id] [DecidableEq Hsh]
variable {P : Params Id Hsh} {offered : Bytes → Prop} {now : Int} {id : Id} {s : Src}
  {fs fs' : FS Id Hsh} {proc n : Nat} {fault : Fault} {r : Res} {nx : Next Hsh}

/-! ## bytes -/

theorem prefix_mono {d d' c : Bytes} (h : d <+: c) (h' : d' <+: c) (hl : d.length ≤ d'.length) : d <+: d' := by
  rw [List.prefix_iff_eq_take] at h h' ⊢
  rw [h']
  simp only [List.take_take, List.length_take]
  have := prefix_length_le (List.prefix_iff_eq_take.mpr h)
  rw [Nat.min_eq_left hl]
  exact h

theorem take_eq_of_prefix {d d' c : Bytes} {off : Nat} (h : d <+: c) (h' : d' <+: c) (hl : d.length ≤ d'.length)
    (ho : off ≤ d.length) : d'.take off = d.take off := by
  obtain ⟨t, rfl⟩ := prefix_mono h h' hl
  rw [List.take_append_of_le_length ho]

/-! ## complete outputs, full index files -/

/-- the output with the hash of `c` is stored completely. -/
def CompleteF (P : Params Id Hsh) (fs : FS Id Hsh) (c : Bytes) : Prop :=
  ∃ i nd, fs.names (.data (P.H c)) = some i ∧ fs.inodes i = some nd ∧ nd.data = c

/-- the index file of `id` holds a whole entry (it is not empty). -/
def IndexFull (fs : FS Id Hsh) (id : Id) : Prop :=
  ∃ i nd, fs.names (.index id : Name Id Hsh) = some i ∧ fs.inodes i = some nd ∧ nd.data.length = Gen.CachePut.entrySize

theorem completeF_mono {f : Option Nat} {c : Bytes} (hm : Mono fs fs' f) (hinv' : FSInvP P offered fs')
    (hc : offered c) (h : CompleteF P fs c) : CompleteF P fs' c := by
  obtain ⟨i, nd, h1, h2, h3⟩ := h
  obtain ⟨nd', k1, k2⟩ := hm.inodes _ _ h2
  have hp : nd'.data <+: c := hinv'.2 _ _ _ (by simp) (hm.names _ _ h1) k1 c hc rfl
  refine ⟨i, nd', hm.names _ _ h1, k1, prefix_of_length_eq hp ?_⟩
  have := prefix_length_le hp
  rw [h3] at k2
  omega

theorem indexFull_mono (hy : Hyps P offered) {f : Option Nat} (hm : Mono fs fs' f) (hinv' : FSInvP P offered fs')
    (h : IndexFull fs id) : IndexFull fs' id := by
  obtain ⟨i, nd, h1, h2, h3⟩ := h
  obtain ⟨nd', k1, k2⟩ := hm.inodes _ _ h2
  refine ⟨i, nd', hm.names _ _ h1, k1, ?_⟩
  rcases hinv'.2 _ _ _ (by simp) (hm.names _ _ h1) k1 with h0 | ⟨c, t, hc, hcd⟩
  · rw [h0] at k2; simp [Gen.CachePut.entrySize] at h3 k2; rw [k2] at h3; simp at h3
  · rw [hcd]; exact hy.encLen id c t hc

theorem completeF_same {c : Bytes} (h : SameFiles fs fs') (hc : CompleteF P fs c) : CompleteF P fs' c := by
  obtain ⟨i, nd, h1, h2, h3⟩ := hc
  exact ⟨i, nd, by rw [h.1]; exact h1, by rw [h.2.1]; exact h2, h3⟩

theorem indexFull_same (h : SameFiles fs fs') (hc : IndexFull fs id) : IndexFull fs' id := by
  obtain ⟨i, nd, h1, h2, h3⟩ := hc
  exact ⟨i, nd, by rw [h.1]; exact h1, by rw [h.2.1]; exact h2, h3⟩

/-! ## the extra local facts -/

section
variable (P : Params Id Hsh) (id : Id) (s : Src) (fs : FS Id Hsh)

def Extra : PC Hsh → Prop
  | .pCkRead fd acc _ => ∃ o nd, fs.fds fd = some o ∧ fs.names (.data (putOut P s)) = some o.ino ∧
      fs.inodes o.ino = some nd ∧ o.off ≤ nd.data.length ∧ acc = nd.data.take o.off
  | .pCkClose _ acc _ => ∃ i nd, fs.names (.data (putOut P s)) = some i ∧ fs.inodes i = some nd ∧ acc <+: nd.data
  | .pReuseStat => CompleteF P fs s.data1
  | .pReuseChtimes => CompleteF P fs s.data1
  | .pClose _ => CompleteF P fs s.data1
  | .pChtimes _ => CompleteF P fs s.data1
  | .pDeferClose _ _ => CompleteF P fs s.data1
  | .iOpen => CompleteF P fs s.data1
  | .iWrite _ => CompleteF P fs s.data1
  | .iTrunc _ => CompleteF P fs s.data1
  | .iClose _ _ => CompleteF P fs s.data1 ∧ IndexFull fs id
  | .iChtimes => CompleteF P fs s.data1 ∧ IndexFull fs id
  | _ => True
end

def PostX (P : Params Id Hsh) (id : Id) (s : Src) (fs' : FS Id Hsh) : Next Hsh → Prop
  | .goto pc' => Extra P id s fs' pc'
  | .done (.putOk _ _) => CompleteF P fs' s.data1 ∧ IndexFull fs' id
  | .done _ => True

/-- the extra facts survive the steps of the others. -/
theorem extra_mono (hy : Hyps P offered) (hoff : offered s.data1) {f : Option Nat} (hm : Mono fs fs' f)
    (hinv : FSInvP P offered fs) (hinv' : FSInvP P offered fs') {pc : PC Hsh}
    (hfd : ∀ g, fdOf pc = some g → some g ≠ f ∧ g < fs.nextFd) (hL : Extra P id s fs pc) :
    Extra P id s fs' pc := by
  have hc : CompleteF P fs s.data1 → CompleteF P fs' s.data1 := completeF_mono hm hinv' hoff
  cases pc <;> simp only [Extra] at hL ⊢ <;> simp only [fdOf] at hfd <;>
    first | exact hc hL | exact ⟨hc hL.1, indexFull_mono hy hm hinv' hL.2⟩ | trivial | skip
  case pCkRead fd acc L =>
    obtain ⟨o, nd, g1, g2, g3, g4, g5⟩ := hL
    obtain ⟨nd', k1, k2⟩ := hm.inodes _ _ g3
    have hp : nd.data <+: s.data1 := hinv.2 _ _ _ (by simp) g2 g3 s.data1 hoff rfl
    have hp' : nd'.data <+: s.data1 := hinv'.2 _ _ _ (by simp) (hm.names _ _ g2) k1 s.data1 hoff rfl
    refine ⟨o, nd', by rw [hm.fds fd (hfd fd rfl).1 (hfd fd rfl).2]; exact g1, hm.names _ _ g2, k1, by omega, ?_⟩
    rw [g5, take_eq_of_prefix hp hp' k2 g4]
  case pCkClose fd acc L =>
    obtain ⟨i, nd, g1, g2, g3⟩ := hL
    obtain ⟨nd', k1, k2⟩ := hm.inodes _ _ g2
    have hp : nd.data <+: s.data1 := hinv.2 _ _ _ (by simp) g1 g2 s.data1 hoff rfl
    have hp' : nd'.data <+: s.data1 := hinv'.2 _ _ _ (by simp) (hm.names _ _ g1) k1 s.data1 hoff rfl
    exact ⟨i, nd', hm.names _ _ g1, k1, g3.trans (prefix_mono hp hp' k2)⟩

theorem postX_writeOrNext (hg : GoodSrc s) (hsz : s.size ≠ 0) {fd : Nat} {rest : Bytes} :
    PostX P id s fs' (writeOrNext P s fd rest) := by
  have hf := first_lt hsz
  have hlen := good_size hg
  have hsize : s.data1.length = s.size := rfl
  have hfs : s.first = s.size - 1 := by simp [Src.first, Gen.CachePut.firstLen]
  have hfull : s.data2.take (s.first + 1) = s.data1 := by
    rw [hg.2.2]; apply List.take_of_length_le; omega
  unfold writeOrNext
  split
  · unfold afterCopyN
    simp only [Gen.CachePut.checkBeforeLastByte, Gen.CachePut.underfoot, if_true, hfull, putOut]
    rw [if_neg (by omega), if_neg (by omega)]
    simp [PostX, Extra]
  · simp [PostX, Extra]

/-- **the extra facts are re-established by every fault-free step of the writer itself.** -/
theorem put_xstep (hy : Hyps P offered) (hg : GoodSrc s) (hoff : offered s.data1)
    (hinv : FSInvP P offered fs) {pc : PC Hsh} (hL : LocalC P id s fs pc) (hX : Extra P id s fs pc)
    (hs : tstep P now fs proc (.put id s) pc .none n = some (fs', r, nx)) : PostX P id s fs' nx := by
  have hinv' : FSInvP P offered fs' := (put_cstep hy hg hoff hinv hL hs).1
  obtain ⟨he, rfl⟩ := tstep_eq hs
  simp only [exec] at he
  have hm := exec_mono hinv.1 he (put_safe hy hoff hL)
  have carryC : CompleteF P fs s.data1 → CompleteF P fs' s.data1 := completeF_mono hm hinv' hoff
  have carryI : IndexFull fs id → IndexFull fs' id := indexFull_mono hy hm hinv'
  cases pc <;> simp only [LocalC] at hL <;> simp only [Extra] at hX <;> simp only [sysOf] at he
  case pStat =>
    cases r <;> simp only [next] <;> (try split) <;> simp [PostX, Extra]
  case pCkOpen L =>
    cases r <;> simp only [next, PostX, Extra]
    case okFd fd =>
      have hs' : exec fs proc (.open (.data (putOut P s)) .rdonly false false) .none = some (fs', .okFd fd) := by
        simpa [exec] using he
      obtain ⟨i, nd, h1, h2, h3⟩ := exec_okFd_ro hs'
      have hsame := exec_open_ro_same hs'
      exact ⟨⟨i, 0, proc⟩, nd, h3, by rw [hsame.1]; exact h1, by rw [hsame.2.1]; exact h2, Nat.zero_le _, by simp⟩
  case pCkRead fd acc L =>
    obtain ⟨o, nd, g1, g2, g3, g4, g5⟩ := hX
    have hs' : exec fs proc (.read fd (chunk n)) .none = some (fs', r) := by simpa [exec] using he
    have hr : r ≠ .fail := by
      intro e; subst e
      simp only [execOk] at he
      rw [g1] at he; simp only [g3] at he
      split at he <;> simp at he
    obtain ⟨o', nd', k1, k2, hcase⟩ := read_spec hs' hr
    rw [g1] at k1; cases k1
    rw [g3] at k2; cases k2
    rcases hcase with ⟨rfl, rfl, _⟩ | ⟨bs, rfl, hbne, hbs, rfl⟩
    · simp only [next, PostX, Extra]
      exact ⟨o.ino, nd, g2, g3, by rw [g5]; exact List.take_prefix _ _⟩
    · simp only [next, PostX, Extra]
      refine ⟨{ o with off := o.off + bs.length }, nd, by simp [FS.setFd], g2, g3, ?_, ?_⟩
      · show o.off + bs.length ≤ nd.data.length
        rw [hbs]; simp; omega
      · show acc ++ bs = nd.data.take (o.off + bs.length)
        rw [g5, List.take_add, hbs]
        congr 1
        exact (take_take_length _ _).symm
  case pCkClose fd acc L =>
    obtain ⟨i, nd, g1, g2, g3⟩ := hX
    simp only [next, Gen.CachePut.reuseHit, Gen.CachePut.copyReuseRefreshes, if_true]
    by_cases hh : putOut P s = P.H acc
    · simp only [hh, decide_true, if_true, PostX, Extra]
      apply carryC
      have hacc : acc = s.data1 := hy.noColl _ _ hoff (by simpa [putOut] using hh.symm)
      have hp : nd.data <+: s.data1 := hinv.2 _ _ _ (by simp) g1 g2 s.data1 hoff rfl
      refine ⟨i, nd, g1, g2, prefix_of_length_eq hp ?_⟩
      have h1 := prefix_length_le hp
      have h2 := prefix_length_le g3
      rw [hacc] at h2; omega
    · simp [hh, PostX, Extra]
  case pReuseStat =>
    simp only [next, copyOk, Gen.CachePut.indexAfterCopy, if_true]
    split <;> (simp only [PostX, Extra]; exact carryC hX)
  case pReuseChtimes =>
    simp only [next, copyOk, Gen.CachePut.indexAfterCopy, if_true, PostX, Extra]; exact carryC hX
  case pOpen trunc =>
    subst hL
    obtain ⟨_, i, nd', rfl, hfd, hnm, hnd, _⟩ := open_create_specp hinv he
    simp only [next, Gen.CachePut.emptyReturn, Gen.CachePut.truncOnSeekErr, decide_eq_true_eq]
    by_cases hsz : s.size = 0
    · simp only [hsz, if_true, PostX, Extra]
      have hp : nd'.data <+: s.data1 := hinv'.2 _ _ _ (by simp) hnm hnd s.data1 hoff rfl
      refine ⟨i, nd', hnm, hnd, prefix_of_length_eq hp ?_⟩
      have := prefix_length_le hp
      have hsize : s.data1.length = s.size := rfl
      omega
    · simp only [hsz, if_false, hg.2.1, Bool.not_true, Bool.false_eq_true]
      exact postX_writeOrNext hg hsz
  case pWrite fd rest =>
    obtain ⟨_, _, _, _, _, hr⟩ := write_spec he
    subst hr
    simp only [next]
    exact postX_writeOrNext hg hL.1
  case pCommit fd checked =>
    obtain ⟨hsz, rfl, o, nd, h1, h2, h3, h4, h5⟩ := hL
    obtain ⟨o', nd', g1, g2, rfl, rfl⟩ := write_spec he
    rw [h1] at g1; cases g1
    rw [h3] at g2; cases g2
    simp only [next, if_true, PostX, Extra]
    have hsize : s.data1.length = s.size := rfl
    have hfs : s.first = s.size - 1 := by simp [Src.first, Gen.CachePut.firstLen]
    have hoffv : o.off = s.first := by
      have := congrArg List.length h5
      simp at this; omega
    have hlb : (lastByte s).length = 1 := by
      simp only [lastByte, hg.2.2]; simp; omega
    have hnm' : ((fs.setInode o.ino { nd with data := writeAt nd.data o.off (lastByte s) }).setFd fd
        (some { o with off := o.off + (lastByte s).length })).names (.data (putOut P s)) = some o.ino := by
      simpa [FS.setFd, FS.setInode] using h2
    have hp := hinv'.2 _ _ { nd with data := writeAt nd.data o.off (lastByte s) } (by simp) hnm'
      (by simp [FS.setFd, FS.setInode]) s.data1 hoff rfl
    refine ⟨o.ino, _, hnm', by simp [FS.setFd, FS.setInode], prefix_of_length_eq hp ?_⟩
    have := prefix_length_le hp
    simp only at this ⊢
    rw [writeAt_length _ _ _ h4] at this ⊢
    omega
  case pClose fd =>
    simp only [next, Gen.CachePut.removeOnCloseErr, if_true]
    split <;> simp only [PostX, Extra]
    exact carryC hX
  case pChtimes fd => simp only [next, PostX, Extra]; exact carryC hX
  case pDeferClose fd ok =>
    subst hL
    simp only [next, copyOk, Gen.CachePut.indexAfterCopy, if_true, PostX, Extra]; exact carryC hX
  case iOpen =>
    simp only [Op.id, Gen.CachePut.indexOpenCreate, Gen.CachePut.indexOpenTrunc] at he
    obtain ⟨_, i, nd', rfl, _⟩ := open_create_specp hinv he
    simp only [next, PostX, Extra]; exact carryC hX
  case iWrite fd =>
    obtain ⟨_, _, _, _, _, hr⟩ := write_spec he
    subst hr
    simp only [next, Gen.CachePut.indexTruncAfterWrite, if_true, PostX, Extra]; exact carryC hX
  case iTrunc fd =>
    obtain ⟨o, nd, h1, h2, h3, h4⟩ := hL
    obtain ⟨_, _, _, _, _, hr⟩ := ftruncate_spec he
    subst hr
    simp only [next, PostX, Extra]
    exact ⟨carryC hX, carryI ⟨o.ino, nd, h2, h3, h4⟩⟩
  case iClose fd err =>
    simp only [next, Gen.CachePut.indexRemoveOnErr, if_true]
    split <;> simp only [PostX, Extra]
    exact ⟨carryC hX.1, carryI hX.2⟩
  case iChtimes =>
    simp only [next, indexOk, Gen.CachePut.indexAfterCopy, if_true, PostX]
    exact ⟨carryC hX.1, carryI hX.2⟩
  all_goals exact hL.elim

end GIV.CachePut
