/-
  Consequences of the waitOrStop invariant (GIV/Lemmas/TsLifeWos.lean): no deadlock / no leak,
  bounded executions, outcome attribution, kill timing, independence from the deadline.
-/
import GIV.Lemmas.TsLifeWos

namespace GIV.TsLife
open GIV

/-- when every execution of waitOrStop must come to an end: the process can exit by itself, or
there is a deadline and the escalation to Kill is armed (`killDelay > 0`). -/
def Scn.live (c : Scn) : Prop :=
  c.mayExit = true ∨ (c.deadline.isSome = true ∧ killArmed c.killDelay = true)

/-- no label is enabled -/
def Stuck (c : Scn) (s : St) : Prop := ∀ l, step c s l = none

theorem stuck_final {c : Scn} {s : St} (hi : Inv c s) (hl : c.live) (hs : Stuck c s) : s.final = true := by
  obtain ⟨now, ctxDone, proc, w, st, sends, recvs, sigAt, delivered, killAt⟩ := s
  have j1 := hi.j1; have j2 := hi.j2; have j3 := hi.j3; have j4 := hi.j4; have j5 := hi.j5
  simp only at j1 j2 j3 j4 j5
  cases proc with
  | exited hh =>
    cases w with
    | waiting =>
      have := hs (.waitRet now)
      simp [step, stepCore, Lbl.time] at this
    | ready =>
      cases st with
      | done => obtain ⟨v, hv⟩ := j1.1 rfl; cases hv
      | sig => have := hs (.signal now .ok); simp [step, stepCore, Lbl.time] at this
      | kill e => have := hs (.kill now); simp [step, stepCore, Lbl.time] at this
      | sel1 => have := hs (.sendRecv now); simp [step, stepCore, Lbl.time, Stopper.offer] at this
      | sendNil => have := hs (.sendRecv now); simp [step, stepCore, Lbl.time, Stopper.offer] at this
      | sel2 e t0 => have := hs (.sendRecv now); simp [step, stepCore, Lbl.time, Stopper.offer] at this
      | sendErr e => have := hs (.sendRecv now); simp [step, stepCore, Lbl.time, Stopper.offer] at this
    | returned v =>
      have hd := j1.2 ⟨v, rfl⟩
      subst hd
      simp at j2
      simp [St.final, j2.2, ← j2.1]
  | running pi pk =>
    have hw : w = .waiting := by
      cases w with
      | waiting => rfl
      | ready => obtain ⟨h, hh⟩ := j3 (by simp); cases hh
      | returned v => obtain ⟨h, hh⟩ := j3 (by simp); cases hh
    subst hw
    have hnd : st ≠ .done := by
      intro hd; obtain ⟨v, hv⟩ := j1.1 hd; cases hv
    rcases hl with hm | ⟨hdl, ha⟩
    · have := hs (.exitOwn now); simp [step, stepCore, Lbl.time, hm] at this
    · cases hd : c.deadline with
      | none => simp [hd] at hdl
      | some d =>
        cases ctxDone with
        | false =>
          have := hs (.ctxFire (max now d))
          have h1 : now ≤ max now d := Nat.le_max_left ..
          have h2 : d ≤ max now d := Nat.le_max_right ..
          simp [step, stepCore, Lbl.time, hd, h1, h2, hnd] at this
        | true =>
          cases st with
          | done => exact absurd rfl hnd
          | sel1 => have := hs (.selCtx now); simp [step, stepCore, Lbl.time] at this
          | sig => have := hs (.signal now .ok); simp [step, stepCore, Lbl.time] at this
          | sendNil => obtain ⟨h, hh⟩ := j4 rfl; cases hh
          | kill e => have := hs (.kill now); simp [step, stepCore, Lbl.time] at this
          | sel2 e t0 =>
            have := hs (.timer (max now ((t0 : Int) + c.killDelay).toNat))
            have h1 : now ≤ max now ((t0 : Int) + c.killDelay).toNat := Nat.le_max_left ..
            have h2 : ((t0 : Int) + c.killDelay) ≤ ((max now ((t0 : Int) + c.killDelay).toNat : Nat) : Int) := by
              have := Nat.le_max_right now ((t0 : Int) + c.killDelay).toNat
              omega
            simp [step, stepCore, Lbl.time, h1, h2] at this
          | sendErr e =>
            have hk := j5 e pi pk rfl ha rfl
            subst hk
            have := hs (.exitKill now); simp [step, stepCore, Lbl.time] at this

/-! ### every execution is short -/

def Stopper.rank : Stopper → Nat
  | .sel1 => 5 | .sig => 4 | .sel2 _ _ => 3 | .kill _ => 2 | .sendErr _ => 1 | .sendNil => 1 | .done => 0

def Waiter.rank : Waiter → Nat
  | .waiting => 2 | .ready => 1 | .returned _ => 0

def St.measure (s : St) : Nat :=
  (if s.ctxDone then 0 else 1) + (match s.proc with | .running _ _ => 1 | .exited _ => 0) + s.w.rank + s.s.rank

theorem rank_sel1 : Stopper.rank .sel1 = 5 := rfl
theorem rank_sig : Stopper.rank .sig = 4 := rfl
theorem rank_sel2 (e : SErr) (t : Nat) : Stopper.rank (.sel2 e t) = 3 := rfl
theorem rank_kill (e : SErr) : Stopper.rank (.kill e) = 2 := rfl
theorem rank_sendErr (e : SErr) : Stopper.rank (.sendErr e) = 1 := rfl
theorem rank_sendNil : Stopper.rank .sendNil = 1 := rfl
theorem rank_done : Stopper.rank .done = 0 := rfl

theorem afterSignal_rank (c : Scn) (e : SErr) (t : Nat) : (afterSignal c e t).rank < 4 := by
  unfold afterSignal; split <;> simp [Stopper.rank]

theorem measure_step {c : Scn} {s s' : St} {l : Lbl} (h : step c s l = some s') : s'.measure < s.measure := by
  obtain ⟨_, s1, h1, rfl⟩ := step_some h
  clear h
  obtain ⟨now, ctxDone, proc, w, st, sends, recvs, sigAt, delivered, killAt⟩ := s
  cases l <;> simp only [stepCore] at h1 <;> (repeat' split at h1) <;>
    first
      | contradiction
      | (injection h1 with h1; subst h1
         simp_all [St.measure, Waiter.rank, Stopper.rank]
         done)
      | (injection h1 with h1; subst h1
         simp_all [St.measure, Waiter.rank, rank_sig, rank_done]
         first
           | omega
           | (have := afterSignal_rank c .ctxErr ‹Nat›; omega)
           | (have := afterSignal_rank c .other ‹Nat›; omega))

theorem run_length {c : Scn} : ∀ (ls : List Lbl) {s s' : St}, runLbls c s ls = some s' →
    ls.length + s'.measure ≤ s.measure
  | [], s, s', h => by simp [runLbls] at h; subst h; simp
  | l :: rest, s, s', h => by
    simp only [runLbls] at h
    split at h
    · cases h
    · rename_i s1 h1
      have := run_length rest h
      have := measure_step h1
      simp only [List.length_cons]; omega

/-! ### outcome -/

theorem result_interrupt {c : Scn} {s : St} (hi : Inv c s) {e : SErr}
    (h : s.result = some (.interruptErr e)) : s.ctxDone = true ∧ s.sigAt.isSome = true := by
  unfold St.result at h
  split at h
  · rename_i e' hw
    exact hi.j9 e' hw
  · cases h
  · cases h

theorem result_status {c : Scn} {s : St} (hi : Inv c s) {f : Fate}
    (h : s.result = some (.waitStatus f)) : s.delivered = false ∧ s.killAt = none ∧ f = .own ∧ c.mayExit = true := by
  unfold St.result at h
  split at h
  · cases h
  · rename_i h0 hw hp
    injection h with h; injection h with h; subst h
    obtain ⟨hd, hk⟩ := hi.j10 hw
    obtain ⟨a, b, c'⟩ := hi.j14 h0 hp
    cases h0 with
    | own => exact ⟨hd, hk, rfl, a rfl⟩
    | bySig => have := (b rfl).2; simp [hd] at this
    | byKill => have := c' rfl; simp [hk] at this
  · cases h

theorem kill_timing {c : Scn} {s : St} (hi : Inv c s) {tk : Nat} (h : s.killAt = some tk) :
    killArmed c.killDelay = true ∧ ∃ ti, s.sigAt = some ti ∧ (ti : Int) + c.killDelay ≤ (tk : Int) :=
  hi.j13 tk h

theorem final_result {s : St} (h : s.final = true) (hp : ∃ f, s.proc = .exited f) : s.result.isSome = true := by
  obtain ⟨f, hp⟩ := hp
  unfold St.final at h
  unfold St.result
  cases hw : s.w with
  | waiting => simp [hw] at h
  | ready => simp [hw] at h
  | returned v => cases v <;> simp [hp]

/-- a process that neither exits by itself nor reacts to the interrupt: when waitOrStop has
returned it was killed, `killDelay` after the interrupt, and the interrupt error is reported. -/
theorem ignoring_killed {c : Scn} {s : St} (hi : Inv c s) (hm : c.mayExit = false) (ho : c.onInt = false)
    (hf : s.final = true) :
    s.proc = .exited .byKill ∧ (∃ e, s.result = some (.interruptErr e)) ∧
    ∃ ti tk, s.sigAt = some ti ∧ s.killAt = some tk ∧ (ti : Int) + c.killDelay ≤ (tk : Int) := by
  have hw : ∃ v, s.w = .returned v := by
    unfold St.final at hf
    cases hw : s.w with
    | waiting => simp [hw] at hf
    | ready => simp [hw] at hf
    | returned v => exact ⟨v, rfl⟩
  obtain ⟨v, hv⟩ := hw
  obtain ⟨f, hp⟩ := hi.j3 (by rw [hv]; intro hh; cases hh)
  obtain ⟨a, b, c'⟩ := hi.j14 f hp
  cases f with
  | own => have := a rfl; simp [hm] at this
  | bySig => have := (b rfl).1; simp [ho] at this
  | byKill =>
    have hk := c' rfl
    cases hka : s.killAt with
    | none => simp [hka] at hk
    | some tk =>
      obtain ⟨_, ti, hti, hle⟩ := hi.j13 tk hka
      refine ⟨hp, ?_, ti, tk, hti, rfl, hle⟩
      cases v with
      | some e => exact ⟨e, by simp [St.result, hv]⟩
      | none => have := (hi.j10 hv).2; simp [hka] at this

/-! ### executions in which the context does not fire do not depend on the deadline -/

theorem ctxDone_mono {c : Scn} {s s' : St} {l : Lbl} (h : step c s l = some s') (hd : s.ctxDone = true) :
    s'.ctxDone = true := by
  obtain ⟨_, s1, h1, rfl⟩ := step_some h
  cases l <;> simp only [stepCore] at h1 <;> (repeat' split at h1) <;>
    first
      | contradiction
      | (injection h1 with h1; subst h1; simp [hd])

theorem step_no_deadline {c : Scn} {s s' : St} {l : Lbl} (h : step c s l = some s') (hd : s'.ctxDone = false) :
    step { c with deadline := none } s l = some s' := by
  cases l with
  | ctxFire t =>
    obtain ⟨_, s1, h1, rfl⟩ := step_some h
    simp only [stepCore] at h1
    split at h1
    · split at h1
      · injection h1 with h1; subst h1; simp at hd
      · cases h1
    · cases h1
  | signal t r =>
    unfold step at h ⊢
    simp only [stepCore, afterSignal] at h ⊢
    exact h
  | exitOwn t => unfold step at h ⊢; simp only [stepCore] at h ⊢; exact h
  | exitSig t => unfold step at h ⊢; simp only [stepCore] at h ⊢; exact h
  | exitKill t => unfold step at h ⊢; simp only [stepCore] at h ⊢; exact h
  | waitRet t => unfold step at h ⊢; simp only [stepCore] at h ⊢; exact h
  | sendRecv t => unfold step at h ⊢; simp only [stepCore] at h ⊢; exact h
  | selCtx t => unfold step at h ⊢; simp only [stepCore] at h ⊢; exact h
  | timer t => unfold step at h ⊢; simp only [stepCore] at h ⊢; exact h
  | kill t => unfold step at h ⊢; simp only [stepCore] at h ⊢; exact h

theorem run_no_deadline {c : Scn} : ∀ (ls : List Lbl) {s s' : St}, runLbls c s ls = some s' →
    s'.ctxDone = false → runLbls { c with deadline := none } s ls = some s'
  | [], s, s', h, _ => by simpa [runLbls] using h
  | l :: rest, s, s', h, hd => by
    simp only [runLbls] at h ⊢
    split at h
    · cases h
    · rename_i s1 h1
      have hd1 : s1.ctxDone = false := by
        cases hc : s1.ctxDone with
        | false => rfl
        | true =>
          have : ∀ (ls : List Lbl) (a b : St), runLbls c a ls = some b → a.ctxDone = true → b.ctxDone = true := by
            intro ls
            induction ls with
            | nil => intro a b hab ha; simp [runLbls] at hab; subst hab; exact ha
            | cons l' r ih =>
              intro a b hab ha
              simp only [runLbls] at hab
              split at hab
              · cases hab
              · rename_i a1 ha1
                exact ih a1 b hab (ctxDone_mono ha1 ha)
          have := this rest s1 s' h hc
          simp [hd] at this
      rw [step_no_deadline h1 hd1]
      exact run_no_deadline rest h hd

/-- without a deadline the context never fires, no signal is ever sent, and what waitOrStop returns
is the command's own status. -/
theorem no_deadline_result {c : Scn} {s : St} (hi : Inv c s) (hn : c.deadline = none) :
    s.ctxDone = false ∧ s.delivered = false ∧ s.killAt = none ∧
    ∀ r, s.result = some r → r = .waitStatus .own := by
  have hc := hi.j17 hn
  have hd : s.delivered = false := by
    cases h : s.delivered with
    | false => rfl
    | true => have := (hi.j16 h).1; simp [hc] at this
  have hk : s.killAt = none := by
    cases h : s.killAt with
    | none => rfl
    | some tk =>
      obtain ⟨_, ti, hti, _⟩ := hi.j13 tk h
      -- a kill needs the stopper to have passed the context
      exfalso
      have := hi.j12
      -- sigAt = some means the signal call happened, which needs ctxDone; derive through delivered-free path
      cases hs : s.s with
      | sel1 => have := (hi.j8 (by simp [hs, Stopper.preSignal])).2; simp [h] at this
      | sig => have := (hi.j8 (by simp [hs, Stopper.preSignal])).2; simp [h] at this
      | sendNil => have := (hi.j8 (by simp [hs, Stopper.preSignal])).2; simp [h] at this
      | sel2 e st => have := hi.j6 (by simp [hs, Stopper.afterCtx]); simp [hc] at this
      | kill e => have := hi.j6 (by simp [hs, Stopper.afterCtx]); simp [hc] at this
      | sendErr e => have := hi.j6 (by simp [hs, Stopper.afterCtx]); simp [hc] at this
      | done =>
        obtain ⟨v, hv⟩ := hi.j1.1 hs
        cases v with
        | none => have := (hi.j10 hv).2; simp [h] at this
        | some e => have := (hi.j9 e hv).1; simp [hc] at this
  refine ⟨hc, hd, hk, ?_⟩
  intro r hr
  cases r with
  | interruptErr e => have := (result_interrupt hi hr).1; simp [hc] at this
  | waitStatus f => have := (result_status hi hr).2.2.1; subst this; rfl

end GIV.TsLife
