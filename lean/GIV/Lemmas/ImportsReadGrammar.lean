/-
  C18 — the specification side: an inductive grammar of Go file headers
  (optional BOM, white space and comments, package clause, import declarations: single and
  grouped; named, dot and blank imports; raw and interpreted path literals), with
  `render : Header → Bytes` and `importsOf : Header → List Bytes`.
  Written from the Go specification's lexical rules as far as ReadImports needs them; it is tied
  to go/parser by the correspondence run (the harness's generator emits members of this grammar).
-/
import GIV.Model.ReadImports

namespace GIV.C18
open GIV GIV.ReadImports

/-! ### white space and comments -/

inductive SpItem
  | blank (c : UInt8)          -- one of ' ' \f \t \r \n ;
  | line (body : Bytes)        -- //body\n
  | block (body : Bytes)       -- /*body*/
deriving DecidableEq, Repr

/-- no adjacent `*` `/` -/
def noStarSlash : Bytes → Bool
  | x :: y :: r => !(x = 42 && y = 47) && noStarSlash (y :: r)
  | _ => true

def noNul (b : Bytes) : Bool := b.all (· ≠ 0)

def SpItem.WF : SpItem → Bool
  | .blank c => c = 32 || c = 12 || c = 9 || c = 13 || c = 10 || c = 59
  | .line body => noNul body && body.all (· ≠ 10)
  | .block body => noNul body && noStarSlash body

def SpItem.render : SpItem → Bytes
  | .blank c => [c]
  | .line body => 47 :: 47 :: body ++ [10]
  | .block body => 47 :: 42 :: body ++ [42, 47]

abbrev Sp := List SpItem
def renderSp (s : Sp) : Bytes := s.flatMap SpItem.render
def Sp.WF (s : Sp) : Bool := s.all SpItem.WF

/-! ### identifiers and string literals -/

/-- an identifier as ReadImports sees it: letters, digits, '_' and bytes ≥ 0x80, non-empty. -/
def identWF (id : Bytes) : Bool := !id.isEmpty && id.all isIdent

/-- one element of an interpreted string: a plain byte or a backslash escape. -/
inductive StrItem
  | plain (c : UInt8)
  | esc (c : UInt8)
deriving DecidableEq, Repr

def StrItem.WF : StrItem → Bool
  | .plain c => c ≠ 34 && c ≠ 92 && c ≠ 10 && c ≠ 0
  | .esc c => c ≠ 0 && c ≠ 10     -- an interpreted string never spans lines, escaped or not

def StrItem.render : StrItem → Bytes
  | .plain c => [c]
  | .esc c => [92, c]

inductive PathLit
  | raw (body : Bytes)                 -- `body`
  | interp (items : List StrItem)      -- "items"
deriving DecidableEq, Repr

def PathLit.WF : PathLit → Bool
  | .raw body => noNul body && body.all (· ≠ 96)
  | .interp items => items.all StrItem.WF

def PathLit.render : PathLit → Bytes
  | .raw body => 96 :: body ++ [96]
  | .interp items => 34 :: items.flatMap StrItem.render ++ [34]

/-! ### import specs, declarations, headers -/

inductive ImpName
  | none                      -- "path"
  | dot                       -- . "path"
  | ident (id : Bytes)        -- name "path", _ "path"
deriving DecidableEq, Repr

structure Spec where
  name : ImpName
  sp : Sp                     -- between name and path (empty when there is no name)
  path : PathLit
deriving DecidableEq, Repr

def Spec.WF (s : Spec) : Bool :=
  s.sp.WF && s.path.WF &&
  match s.name with
  | .none => s.sp.isEmpty
  | .dot => true
  | .ident id => identWF id

def Spec.render (s : Spec) : Bytes :=
  (match s.name with
   | .none => []
   | .dot => [46]
   | .ident id => id) ++ renderSp s.sp ++ s.path.render

inductive Decl
  | single (sp : Sp) (s : Spec)                        -- import sp spec
  | group (sp : Sp) (specs : List (Sp × Spec)) (close : Sp)   -- import sp ( {sp spec} close )
deriving Repr

def startsWithIdent (s : Spec) : Bool :=
  match s.name with
  | .ident _ => true
  | _ => false

def Decl.WF : Decl → Bool
  | .single sp s => sp.WF && s.WF && (!sp.isEmpty || !startsWithIdent s)
  | .group sp specs close => sp.WF && close.WF && specs.all (fun x => x.1.WF && x.2.WF)

def kwImportBytes : Bytes := [105, 109, 112, 111, 114, 116]
def kwPackageBytes : Bytes := [112, 97, 99, 107, 97, 103, 101]

def renderSpecs (specs : List (Sp × Spec)) : Bytes := specs.flatMap (fun x => renderSp x.1 ++ x.2.render)

def Decl.render : Decl → Bytes
  | .single sp s => kwImportBytes ++ renderSp sp ++ s.render
  | .group sp specs close => kwImportBytes ++ renderSp sp ++ [40] ++ renderSpecs specs ++ renderSp close ++ [41]

def Decl.imports : Decl → List Bytes
  | .single _ s => [s.path.render]
  | .group _ specs _ => specs.map (fun x => x.2.path.render)

structure Header where
  bom : Bool
  pre : Sp                       -- before `package`
  sep : Sp                       -- between `package` and the name (non-empty)
  name : Bytes
  decls : List (Sp × Decl)       -- each import declaration with the white space before it
deriving Repr

def renderDecls (ds : List (Sp × Decl)) : Bytes := ds.flatMap (fun x => renderSp x.1 ++ x.2.render)

/-- the header without the byte-order mark. -/
def Header.body (h : Header) : Bytes :=
  renderSp h.pre ++ kwPackageBytes ++ renderSp h.sep ++ h.name ++ renderDecls h.decls

def bomBytes : Bytes := [0xEF, 0xBB, 0xBF]

def Header.render (h : Header) : Bytes := (if h.bom then bomBytes else []) ++ h.body

/-- the import path literals, in order, as written (quotes included). -/
def Header.importsOf (h : Header) : List Bytes := h.decls.flatMap (fun x => x.2.imports)

def Header.WF (h : Header) : Bool :=
  h.pre.WF && h.sep.WF && !h.sep.isEmpty && identWF h.name &&
  h.decls.all (fun x => x.1.WF && x.2.WF) &&
  (match h.decls with
   | [] => true
   | d :: _ => !d.1.isEmpty)      -- the package name must be separated from `import`

/-- a byte that can start the first declaration after the imports: not white space, not a comment
start, not NUL and not `i` (every Go declaration keyword but `import`: const, func, type, var). -/
def declStart (d : UInt8) : Bool := !isSpace d && d ≠ 47 && d ≠ 0 && d ≠ 105

/-- What may follow the header: white space and comments `sp`, then `rest`, which is the end of
input, or a final `//…` comment without newline, or a declaration (whose first byte is `declStart`).
After a header without imports the package name must be separated from a following declaration. -/
def TailOK (h : Header) (sp : Sp) (rest : Bytes) : Prop :=
  sp.WF = true ∧
  (rest = [] ∨
   (∃ body, rest = 47 :: 47 :: body ∧ noNul body = true ∧ body.all (· ≠ 10) = true) ∨
   (∃ d tl, rest = d :: tl ∧ declStart d = true ∧ (h.decls = [] → sp ≠ [])))

/-- the part of `rest` ReadImports still returns: a final comment is read to the end of input, a
declaration is not touched. -/
def keptTail : Bytes → Bytes
  | 47 :: 47 :: body => 47 :: 47 :: body
  | _ => []

end GIV.C18
