/-
  GIV.Lemmas.CacheFS — extensional characterisation of the cache-directory primitives
  (`FS.get / set / erase`, `chtimes`, `used`) and of file names.  Core Lean only.
-/
import GIV.Lemmas.CacheCodec

namespace GIV.Cache
open GIV

namespace FS

@[simp] theorem get_empty (n : Bytes) : FS.get FS.empty n = none := rfl
@[simp] theorem get_nil (n : Bytes) : FS.get ([] : FS) n = none := rfl

theorem get_erase (fs : FS) (n m : Bytes) : (fs.erase n).get m = if m = n then none else fs.get m := by
  induction fs with
  | nil => simp [erase]
  | cons p rest ih =>
    obtain ⟨k, v⟩ := p
    simp only [erase, get]
    by_cases hk : k = n
    · subst hk
      simp only [if_true, ih]
      by_cases hm : m = k
      · simp [hm]
      · have : ¬ k = m := fun h => hm h.symm
        simp [hm, this]
    · simp only [hk, if_false, get, ih]
      by_cases hm : m = n
      · subst hm; simp [hk]
      · simp [hm]

theorem get_set (fs : FS) (n : Bytes) (f : File) (m : Bytes) :
    (fs.set n f).get m = if m = n then some f else fs.get m := by
  simp only [set, get, get_erase]
  by_cases hm : m = n
  · subst hm; simp
  · have : ¬ n = m := fun h => hm h.symm
    simp [hm, this]

theorem get_set_self (fs : FS) (n : Bytes) (f : File) : (fs.set n f).get n = some f := by
  simp [get_set]

theorem get_set_ne (fs : FS) (n : Bytes) (f : File) (m : Bytes) (h : m ≠ n) : (fs.set n f).get m = fs.get m := by
  simp [get_set, h]

/-- a name has a file iff it is listed. -/
theorem get_isSome_iff_mem_names (fs : FS) (n : Bytes) : (fs.get n).isSome ↔ n ∈ fs.names := by
  induction fs with
  | nil => simp [names]
  | cons p rest ih =>
    obtain ⟨k, v⟩ := p
    simp only [get, names, List.map_cons, List.mem_cons]
    by_cases hk : k = n
    · simp [hk]
    · have : ¬ n = k := fun h => hk h.symm
      simp only [hk, if_false, this, false_or]
      exact ih

end FS

/-- the bytes stored under a name. -/
def dataOf (fs : FS) (n : Bytes) : Option Bytes := (fs.get n).map (·.data)

theorem dataOf_set (fs : FS) (n : Bytes) (f : File) (m : Bytes) :
    dataOf (fs.set n f) m = if m = n then some f.data else dataOf fs m := by
  simp only [dataOf, FS.get_set]; split <;> rfl

theorem get_chtimes (fs : FS) (file : Bytes) (t : Int) (m : Bytes) :
    (chtimes fs file t).get m = if m = file then (fs.get file).map (fun f => { f with mtime := t }) else fs.get m := by
  unfold chtimes
  cases h : fs.get file with
  | none => by_cases hm : m = file <;> simp [hm, h]
  | some f => simp [FS.get_set]

theorem dataOf_chtimes (fs : FS) (file : Bytes) (t : Int) (m : Bytes) : dataOf (chtimes fs file t) m = dataOf fs m := by
  simp only [dataOf, get_chtimes]
  by_cases hm : m = file
  · subst hm; cases fs.get m <;> simp
  · simp [hm]

theorem used_cases (fs : FS) (now : Int) (file : Bytes) :
    used fs now file = fs ∨ used fs now file = chtimes fs file now := by
  cases h : fs.get file with
  | none => simp only [used, h]; split <;> simp
  | some f => simp only [used, h]; split <;> simp

/-- `used` changes no file content and creates or removes no file. -/
theorem dataOf_used (fs : FS) (now : Int) (file m : Bytes) : dataOf (used fs now file) m = dataOf fs m := by
  rcases used_cases fs now file with h | h <;> rw [h]
  exact dataOf_chtimes _ _ _ _

theorem get_used_ne (fs : FS) (now : Int) (file m : Bytes) (h : m ≠ file) : (used fs now file).get m = fs.get m := by
  rcases used_cases fs now file with h' | h' <;> rw [h']
  simp [get_chtimes, h]

/-- what `used` does to the file itself: the mtime stays if it is less than `mtimeInterval` old, else becomes `now`. -/
theorem get_used_self (fs : FS) (now : Int) (file : Bytes) :
    (used fs now file).get file =
      (fs.get file).map (fun f => if Gen.Cache.usedFresh true (durSub now f.mtime) then f else { f with mtime := now }) := by
  cases h : fs.get file with
  | none =>
    simp only [used, h, Option.map_none]
    split
    · exact h
    · simp [get_chtimes, h]
  | some f =>
    simp only [used, h, Option.map_some]
    split
    · simp [h]
    · simp [get_chtimes, h]

theorem dataOf_refreshReused (fs : FS) (now : Int) (file m : Bytes) : dataOf (refreshReused fs now file) m = dataOf fs m := by
  unfold refreshReused
  split
  · exact dataOf_used _ _ _ _
  · split
    · exact dataOf_chtimes _ _ _ _
    · rfl

theorem get_refreshReused_ne (fs : FS) (now : Int) (file m : Bytes) (h : m ≠ file) : (refreshReused fs now file).get m = fs.get m := by
  unfold refreshReused
  split
  · exact get_used_ne _ _ _ _ h
  · split
    · simp [get_chtimes, h]
    · rfl

/-! ### file names -/

theorem Hash.take1_length (h : Hash) : (h.val.take 1).length = 1 := by
  have := h.property
  simp [List.length_take, this, Gen.Cache.HashSize]

theorem fileName_eq (id : Hash) (key : Bytes) :
    fileName id key = hexEncode (id.val.take 1) ++ (slash :: (hexEncode id.val ++ (45 :: key))) := by
  simp [fileName]

theorem fileName_mid (id : Hash) (key : Bytes) : ((fileName id key).drop 3).take 64 = hexEncode id.val := by
  have h1 : (hexEncode (id.val.take 1)).length = 2 := by rw [hexEncode_length, Hash.take1_length]
  have h2 := Hash.hex_length id
  rw [fileName_eq, List.drop_append, h1]
  simp [h2, List.drop_eq_nil_of_le, h1]

theorem fileName_inj {a b : Hash} {k k' : Bytes} (h : fileName a k = fileName b k') : a = b := by
  have := congrArg (fun s => (s.drop 3).take 64) h
  simp only [fileName_mid] at this
  exact Subtype.ext (hexEncode_injective this)

theorem fileName_key {a b : Hash} {k k' : Bytes} (h : fileName a k = fileName b k') : k = k' := by
  have hab := fileName_inj h
  subst hab
  simpa [fileName] using h

theorem fileName_a_ne_d (a b : Hash) : fileName a keyA ≠ fileName b keyD := by
  intro h
  have := fileName_key h
  exact absurd this (by decide)

theorem fileName_length (id : Hash) (key : Bytes) : (fileName id key).length = 68 + key.length := by
  have h1 : (hexEncode (id.val.take 1)).length = 2 := by rw [hexEncode_length, Hash.take1_length]
  simp [fileName, h1, Hash.hex_length]; omega

theorem fileName_ne_trimFile (id : Hash) (key : Bytes) : fileName id key ≠ Gen.Cache.trimFile := by
  intro h
  have := congrArg List.length h
  rw [fileName_length] at this
  simp [Gen.Cache.trimFile] at this
  omega

end GIV.Cache
