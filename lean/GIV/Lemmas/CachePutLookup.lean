/-
  GIV.Lemmas.CachePutLookup — the lookups (`get`, `GetFile`, `GetBytes`) as programs: they never
  change a file, and under the invariant what they return is what some `Put` stored.
-/
import GIV.Lemmas.CachePutStep

set_option linter.unusedSimpArgs false
set_option linter.unusedSectionVars false
set_option linter.unusedVariables false

namespace GIV.CachePut
open GIV

variable {Id Hsh : Type} [DecidableEq Id] [DecidableEq Hsh]
variable {P : Params Id Hsh} {offered : Bytes → Prop} {now : Int} {used used' : Bool}
  {fs fs' : FS Id Hsh} {proc n : Nat} {fault : Fault} {r : Res} {nx : Next Hsh}

def isLookup : Op Id → Bool
  | .put _ _ => false
  | _ => true

/-- an index entry naming an offered content. -/
def EntryOK (P : Params Id Hsh) (offered : Bytes → Prop) (e : Entry Hsh) : Prop :=
  ∃ c, offered c ∧ e = ⟨P.H c, c.length⟩

/-- what a lookup may report under the invariant. -/
def ResOK (P : Params Id Hsh) (offered : Bytes → Prop) : Result Hsh → Prop
  | .file e cont => ∃ c, offered c ∧ e = ⟨P.H c, c.length⟩ ∧ cont = some c
  | .bytes d e => P.H d = e.out ∧ EntryOK P offered e
  | .entry e => EntryOK P offered e
  | _ => True

def LocalGet (P : Params Id Hsh) (offered : Bytes → Prop) (id : Id) (fs : FS Id Hsh) : PC Hsh → Prop
  | .gOpen => FSInv P offered fs
  | .gRead fd acc => FSInv P offered fs ∧ acc.length < Gen.CachePut.getBufLen ∧ ∃ o nd, fs.fds fd = some o ∧
      fs.names (.index id) = some o.ino ∧ fs.inodes o.ino = some nd ∧ acc = nd.data.take o.off
  | .gUsedStat _ e => FSInv P offered fs ∧ EntryOK P offered e
  | .gUsedChtimes _ e => FSInv P offered fs ∧ EntryOK P offered e
  | .gClose _ r => FSInv P offered fs ∧ ∀ e, r = some e → EntryOK P offered e
  | .oStat e => FSInv P offered fs ∧ EntryOK P offered e
  | .oChtimes e => FSInv P offered fs ∧ EntryOK P offered e
  | .fStat e => FSInv P offered fs ∧ EntryOK P offered e
  | .bOpen e => FSInv P offered fs ∧ EntryOK P offered e
  | .bRead _ _ e => FSInv P offered fs ∧ EntryOK P offered e
  | .bClose _ _ e => FSInv P offered fs ∧ EntryOK P offered e
  | _ => False

def GetPost (P : Params Id Hsh) (offered : Bytes → Prop) (id : Id) (fs' : FS Id Hsh) : Next Hsh → Prop
  | .goto pc' => LocalGet P offered id fs' pc'
  | .done res => FSInv P offered fs' ∧ ResOK P offered res

/-! ### read-only system calls -/

/-- the system calls of a lookup never change a file. -/
theorem lookup_sameFiles {op : Op Id} {pc : PC Hsh} (hop : isLookup op = true)
    (hs : tstep P now fs proc op pc fault n = some (fs', r, nx)) : SameFiles fs fs' ∨ LocalGet P offered op.id fs pc = False := by
  obtain ⟨he, _⟩ := tstep_eq hs
  cases op with
  | put id s => simp [isLookup] at hop
  | get id =>
    cases pc <;> simp only [sysOf] at he <;>
      first
        | exact Or.inl (exec_stat_same he)
        | exact Or.inl (exec_chtimes_same he)
        | exact Or.inl (exec_close_same he)
        | exact Or.inl (exec_open_ro_same he)
        | exact Or.inl (exec_read_same he)
        | (right; simp [LocalGet])
  | getFile id =>
    cases pc <;> simp only [sysOf] at he <;>
      first
        | exact Or.inl (exec_stat_same he)
        | exact Or.inl (exec_chtimes_same he)
        | exact Or.inl (exec_close_same he)
        | exact Or.inl (exec_open_ro_same he)
        | exact Or.inl (exec_read_same he)
        | (right; simp [LocalGet])
  | getBytes id =>
    cases pc <;> simp only [sysOf] at he <;>
      first
        | exact Or.inl (exec_stat_same he)
        | exact Or.inl (exec_chtimes_same he)
        | exact Or.inl (exec_close_same he)
        | exact Or.inl (exec_open_ro_same he)
        | exact Or.inl (exec_read_same he)
        | (right; simp [LocalGet])

theorem content_of {p : Name Id Hsh} {i : Nat} {nd : Inode Id Hsh} (h1 : fs.names p = some i) (h2 : fs.inodes i = some nd) :
    fs.content p = some nd.data := by
  simp [FS.content, FS.file?, h1, h2]

theorem post_bytesResult {id : Id} {acc : Bytes} {e : Entry Hsh} (hinv : FSInv P offered fs') (he : EntryOK P offered e) :
    GetPost P offered id fs' (bytesResult P acc e) := by
  simp only [bytesResult, Gen.CachePut.getBytesReject]
  by_cases h : P.H acc = e.out
  · simp [h, GetPost, ResOK, hinv, he]
  · simp [h, GetPost, ResOK, hinv]

theorem post_afterGetClose {op : Op Id} (hop : isLookup op = true) {ro : Option (Entry Hsh)} (hinv : FSInv P offered fs')
    (he : ∀ e, ro = some e → EntryOK P offered e) : GetPost P offered op.id fs' (afterGetClose op ro) := by
  cases ro with
  | none => simp [afterGetClose, GetPost, ResOK, hinv]
  | some e =>
    have := he e rfl
    cases op <;> simp [isLookup] at hop <;> simp [afterGetClose, GetPost, ResOK, LocalGet, hinv, this]

theorem post_afterUsed {op : Op Id} (hop : isLookup op = true) {e : Entry Hsh} (hinv : FSInv P offered fs')
    (he : EntryOK P offered e) : GetPost P offered op.id fs' (afterUsed op e) := by
  cases op <;> simp [isLookup] at hop <;> simp [afterUsed, GetPost, LocalGet, hinv, he]

/-- **Every program step of a lookup preserves the invariant**, whatever happens to its system call, and
what it finally reports is an entry / a file / bytes of an offered content. -/
theorem get_step_preserves (hy : Hyps P offered) {op : Op Id} {pc : PC Hsh} (hop : isLookup op = true)
    (hL : LocalGet P offered op.id fs pc)
    (hs : tstep P now fs proc op pc fault n = some (fs', r, nx)) : GetPost P offered op.id fs' nx := by
  have hsame : SameFiles fs fs' := by
    rcases lookup_sameFiles (offered := offered) hop hs with h | h
    · exact h
    · rw [h] at hL; exact hL.elim
  obtain ⟨he, rfl⟩ := tstep_eq hs
  cases pc <;> simp only [LocalGet] at hL
  case gOpen =>
    have hinv' : FSInv P offered fs' := hsame.inv hL
    have hnx : next P fs'.content n op .gOpen r = (match r with | .okFd fd => .goto (.gRead fd []) | _ => .done .miss) := by
      cases op <;> simp [isLookup] at hop <;> cases r <;> rfl
    rw [hnx]
    cases r <;> simp only [GetPost, ResOK] <;> (try exact ⟨hinv', trivial⟩)
    case okFd fd =>
      have hs' : exec fs proc (.open (.index op.id) .rdonly false false) fault = some (fs', .okFd fd) := by
        cases op <;> simp [isLookup] at hop <;> simpa [sysOf, Op.id] using he
      obtain ⟨i, nd, h1, h2, h3⟩ := exec_okFd_ro hs'
      simp only [LocalGet]
      refine ⟨hinv', by simp [Gen.CachePut.getBufLen, Gen.CachePut.entrySize], ⟨i, 0, proc⟩, nd, h3, ?_, ?_, by simp⟩
      · rw [hsame.1]; exact h1
      · rw [hsame.2.1]; exact h2
  case gRead fd acc =>
    obtain ⟨hinv, hlt, o, nd, h1, h2, h3, h4⟩ := hL
    have hinv' : FSInv P offered fs' := hsame.inv hinv
    have hnx : next P fs'.content n op (.gRead fd acc) r = (match r with
        | .okData bs => if (acc ++ bs).length ≥ Gen.CachePut.getBufLen then .goto (.gClose fd none) else .goto (.gRead fd (acc ++ bs))
        | .eof => match P.parse op.id acc with
          | some e => .goto (.gUsedStat fd e)
          | none => .goto (.gClose fd none)
        | _ => .goto (.gClose fd none)) := by
      cases op <;> simp [isLookup] at hop <;> cases r <;> rfl
    have hs' : exec fs proc (.read fd (Gen.CachePut.getBufLen - acc.length)) fault = some (fs', r) := by
      cases op <;> simp [isLookup] at hop <;> simpa [sysOf] using he
    rw [hnx]
    by_cases hr : r = .fail
    · subst hr; simp [GetPost, LocalGet, hinv']
    obtain ⟨o', nd', g1, g2, hcase⟩ := read_spec hs' hr
    rw [h1] at g1; cases g1
    rw [h3] at g2; cases g2
    rcases hcase with ⟨rfl, rfl, hnil⟩ | ⟨bs, rfl, hbne, hbs, rfl⟩
    · -- end of file: `acc` is the whole file
      have hd : nd.data.drop o.off = [] := take_nil_of_pos (by omega) hnil
      have hacc : acc = nd.data := by rw [h4]; exact List.take_of_length_le (List.drop_eq_nil_iff.mp hd)
      have hok := hinv.2 _ _ _ (by simp) h2 h3
      rcases hok with h0 | ⟨c, t, hc, hcd⟩
      · simp [hacc, h0, hy.parseNil, GetPost, LocalGet, hinv']
      · simp [hacc, hcd, hy.parseEnc op.id c t hc, GetPost, LocalGet, hinv', EntryOK]
        exact ⟨c, hc, rfl, rfl⟩
    · simp only
      split
      · simp [GetPost, LocalGet, hinv']
      · next hlen =>
        simp only [GetPost, LocalGet]
        refine ⟨hinv', by omega, { o with off := o.off + bs.length }, nd, by simp [FS.setFd], h2, h3, ?_⟩
        simp only
        rw [h4, List.take_add, hbs]
        congr 1
        exact (take_take_length _ _).symm
  case gUsedStat fd e =>
    have hinv' : FSInv P offered fs' := hsame.inv hL.1
    have hnx : next P fs'.content n op (.gUsedStat fd e) r = (if n = 0 then .goto (.gClose fd (some e)) else .goto (.gUsedChtimes fd e)) := by
      cases op <;> simp [isLookup] at hop <;> cases r <;> rfl
    rw [hnx]
    split <;> simp only [GetPost, LocalGet]
    · exact ⟨hinv', fun e' h => by cases h; exact hL.2⟩
    · exact ⟨hinv', hL.2⟩
  case gUsedChtimes fd e =>
    have hinv' : FSInv P offered fs' := hsame.inv hL.1
    have hnx : next P fs'.content n op (.gUsedChtimes fd e) r = .goto (.gClose fd (some e)) := by
      cases op <;> simp [isLookup] at hop <;> cases r <;> rfl
    rw [hnx]
    simp only [GetPost, LocalGet]
    exact ⟨hinv', fun e' h => by cases h; exact hL.2⟩
  case gClose fd ro =>
    have hinv' : FSInv P offered fs' := hsame.inv hL.1
    have hnx : next P fs'.content n op (.gClose fd ro) r = afterGetClose op ro := by
      cases op <;> simp [isLookup] at hop <;> cases r <;> rfl
    rw [hnx]
    exact post_afterGetClose hop hinv' hL.2
  case oStat e =>
    have hinv' : FSInv P offered fs' := hsame.inv hL.1
    have hnx : next P fs'.content n op (.oStat e) r = (if n = 0 then afterUsed op e else .goto (.oChtimes e)) := by
      cases op <;> simp [isLookup] at hop <;> cases r <;> rfl
    rw [hnx]
    split
    · exact post_afterUsed hop hinv' hL.2
    · simp only [GetPost, LocalGet]; exact ⟨hinv', hL.2⟩
  case oChtimes e =>
    have hinv' : FSInv P offered fs' := hsame.inv hL.1
    have hnx : next P fs'.content n op (.oChtimes e) r = afterUsed op e := by
      cases op <;> simp [isLookup] at hop <;> cases r <;> rfl
    rw [hnx]
    exact post_afterUsed hop hinv' hL.2
  case fStat e =>
    obtain ⟨hinv, c, hc, rfl⟩ := hL
    have hinv' : FSInv P offered fs' := hsame.inv hinv
    have hnx : next P fs'.content n op (.fStat ⟨P.H c, c.length⟩) r = (match r with
        | .okSize L => if Gen.CachePut.getFileReject L c.length then .done .miss
            else .done (.file ⟨P.H c, c.length⟩ (fs'.content (.data (P.H c))))
        | _ => .done .miss) := by
      cases op <;> simp [isLookup] at hop <;> cases r <;> rfl
    have hs' : exec fs proc (.stat (.data (P.H c))) fault = some (fs', r) := by
      cases op <;> simp [isLookup] at hop <;> simpa [sysOf] using he
    rw [hnx]
    cases r <;> simp only [GetPost, ResOK] <;> (try exact ⟨hinv', trivial⟩)
    case okSize L =>
      obtain ⟨rfl, i, nd, h1, h2, rfl⟩ := exec_okSize hs'
      simp only [Gen.CachePut.getFileReject]
      by_cases hl : nd.data.length = c.length
      · simp only [hl, ne_eq, not_true_eq_false, decide_false, Bool.false_eq_true, if_false, GetPost, ResOK]
        refine ⟨hinv', c, hc, rfl, ?_⟩
        rw [content_of h1 h2]
        rcases hinv.2 _ _ _ (by simp) h1 h2 c hc rfl with hlt | heq
        · omega
        · rw [heq]
      · simp [hl, GetPost, ResOK, hinv']
  case bOpen e =>
    have hinv' : FSInv P offered fs' := hsame.inv hL.1
    have hnx : next P fs'.content n op (.bOpen e) r = (match r with
        | .okFd fd => .goto (.bRead fd [] e)
        | _ => bytesResult P [] e) := by
      cases op <;> simp [isLookup] at hop <;> cases r <;> rfl
    rw [hnx]
    cases r <;> first
      | exact post_bytesResult hinv' hL.2
      | (simp only [GetPost, LocalGet]; exact ⟨hinv', hL.2⟩)
  case bRead fd acc e =>
    have hinv' : FSInv P offered fs' := hsame.inv hL.1
    have hnx : next P fs'.content n op (.bRead fd acc e) r = (match r with
        | .okData bs => .goto (.bRead fd (acc ++ bs) e)
        | _ => .goto (.bClose fd acc e)) := by
      cases op <;> simp [isLookup] at hop <;> cases r <;> rfl
    rw [hnx]
    cases r <;> (simp only [GetPost, LocalGet]; exact ⟨hinv', hL.2⟩)
  case bClose fd acc e =>
    have hinv' : FSInv P offered fs' := hsame.inv hL.1
    have hnx : next P fs'.content n op (.bClose fd acc e) r = bytesResult P acc e := by
      cases op <;> simp [isLookup] at hop <;> cases r <;> rfl
    rw [hnx]
    exact post_bytesResult hinv' hL.2
  all_goals exact hL.elim

theorem get_start {op : Op Id} (hop : isLookup op = true) (hinv : FSInv P offered fs) :
    GetPost P offered op.id fs (startOp (Hsh := Hsh) op) := by
  cases op <;> simp [isLookup] at hop <;> simp [startOp, GetPost, LocalGet, hinv]

theorem localGet_inv {id : Id} {pc : PC Hsh} (hL : LocalGet P offered id fs pc) : FSInv P offered fs := by
  cases pc <;> simp only [LocalGet] at hL
  case gOpen => exact hL
  all_goals first | exact hL.1 | exact hL.elim

end GIV.CachePut
