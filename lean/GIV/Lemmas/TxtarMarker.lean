/-
  GIV.Lemmas.TxtarMarker — facts about `markerName` (the model of isMarker).

  The facts regenerated from archive.go (`Gen.Txtar.*`) enter as *hypotheses* (Prop-valued type
  classes, so that they are threaded silently).  The Props files discharge them by `⟨rfl⟩` inside
  each property theorem: when factgen flips a fact, exactly the property theorems that depend on
  it stop compiling, and they are reported by name.
-/
import GIV.Lemmas.TxtarTrim
import GIV.Lemmas.TxtarLines
namespace GIV.Txtar
open GIV

/-- isMarker guards the name slice with `len(data) >= len(marker)+len(markerEnd)`. -/
class FLen : Prop where
  eq : Gen.Txtar.lenGuard = true

/-- isMarker strips a trailing '\r' also when the line has no final newline. -/
class FCR : Prop where
  eq : Gen.Txtar.crAtEOF = true

/-- the marker literals `"-- "` and `" --"`. -/
class FLit : Prop where
  marker : Gen.Txtar.marker = [45, 45, 32]
  markerEnd : Gen.Txtar.markerEnd = [32, 45, 45]

/-- NeedsQuote returns `name != ""`. -/
class FNQ : Prop where
  eq : Gen.Txtar.needsQuoteTestsName = true

theorem marker_eq [FLit] : marker = [45, 45, 32] := FLit.marker
theorem markerEnd_eq [FLit] : markerEnd = [32, 45, 45] := FLit.markerEnd

/-- the name slice of a marker line body `data` (already stripped of '\r'). -/
def nameSlice (data : Bytes) : Bytes :=
  (data.take (data.length - markerEnd.length)).drop marker.length

/-- the line body as `isMarker` looks at it: one trailing '\r' stripped (at end of input only
if `crAtEOF`). -/
def lineData (l : Line) : Bytes :=
  if Gen.Txtar.crAtEOF || l.nl then dropLastCR l.body else l.body

theorem lineData_nl (b : Bytes) : lineData ⟨b, true⟩ = dropLastCR b := by
  simp [lineData]

theorem lineData_eq [FCR] (l : Line) : lineData l = dropLastCR l.body := by
  simp [lineData, FCR.eq]

theorem dropLastCR_of_ne {b : Bytes} (h : b.getLast? ≠ some CR) : dropLastCR b = b := by
  simp [dropLastCR, h]

theorem dropLastCR_append_CR (b : Bytes) : dropLastCR (b ++ [CR]) = b := by
  simp [dropLastCR]

theorem lineData_of_ne {l : Line} (h : l.body.getLast? ≠ some CR) : lineData l = l.body := by
  unfold lineData
  split
  · exact dropLastCR_of_ne h
  · rfl

/-- `markerName` with the length guard plugged in: it never panics. -/
theorem markerName_eq [FLen] (l : Line) :
    markerName l =
      if marker.isPrefixOf l.bytes ∧ markerEnd.isSuffixOf (lineData l) ∧
          marker.length + markerEnd.length ≤ (lineData l).length
      then some (trimSpace (nameSlice (lineData l))) else some [] := by
  unfold markerName nameSlice
  simp only [FLen.eq, Bool.true_and]
  show (if (!marker.isPrefixOf l.bytes) = true then some [] else
      if (!markerEnd.isSuffixOf (lineData l)) = true then some [] else
      if decide ((lineData l).length < marker.length + markerEnd.length) = true then some [] else
      if (lineData l).length - markerEnd.length < marker.length then none
      else some (trimSpace (((lineData l).take ((lineData l).length - markerEnd.length)).drop marker.length))) = _
  generalize lineData l = data
  by_cases h1 : marker.isPrefixOf l.bytes = true
  · by_cases h2 : markerEnd.isSuffixOf data = true
    · by_cases h3 : marker.length + markerEnd.length ≤ data.length
      · have : ¬ (data.length - markerEnd.length < marker.length) := by omega
        simp [h1, h2, h3, this, Nat.not_lt.mpr h3]
      · simp [h1, h2, h3, Nat.lt_of_not_le h3]
    · simp [h1, h2]
  · simp [h1]

theorem markerName_total [FLen] (l : Line) : ∃ n, markerName l = some n := by
  rw [markerName_eq]; split <;> exact ⟨_, rfl⟩

theorem marker_isPrefixOf_nl [FLit] (b : Bytes) :
    marker.isPrefixOf (b ++ [NL]) = marker.isPrefixOf b := by
  rw [marker_eq]
  match b with
  | [] => simp [List.isPrefixOf, NL]
  | [x] => simp [List.isPrefixOf, NL]
  | [x, y] => simp [List.isPrefixOf, NL]
  | x :: y :: z :: r => simp [List.isPrefixOf]

theorem marker_isPrefixOf_cr [FLit] (b : Bytes) :
    marker.isPrefixOf (b ++ [CR]) = marker.isPrefixOf b := by
  rw [marker_eq]
  match b with
  | [] => simp [List.isPrefixOf, CR]
  | [x] => simp [List.isPrefixOf, CR]
  | [x, y] => simp [List.isPrefixOf, CR]
  | x :: y :: z :: r => simp [List.isPrefixOf]

theorem marker_isPrefixOf_bytes [FLit] (l : Line) :
    marker.isPrefixOf l.bytes = marker.isPrefixOf l.body := by
  unfold Line.bytes
  split
  · exact marker_isPrefixOf_nl _
  · rfl

/-- With `crAtEOF`, recognition does not depend on whether the line has its final newline. -/
theorem markerName_nl [FLen] [FCR] [FLit] (b : Bytes) (nl : Bool) :
    markerName ⟨b, nl⟩ = markerName ⟨b, true⟩ := by
  rw [markerName_eq, markerName_eq, marker_isPrefixOf_bytes, marker_isPrefixOf_bytes,
    lineData_eq, lineData_eq]

/-- CRLF = LF for a terminated marker line; needs only the literals (both sides are the same
function of the stripped line). -/
theorem marker_crlf_nl [FLit] (body : Bytes) (h : body.getLast? ≠ some CR) :
    markerName ⟨body ++ [CR], true⟩ = markerName ⟨body, true⟩ := by
  unfold markerName
  simp only [Bool.or_true, if_true, dropLastCR_append_CR, dropLastCR_of_ne h]
  rw [marker_isPrefixOf_bytes, marker_isPrefixOf_bytes]
  simp only [marker_isPrefixOf_cr]

/-- the same at end of input (no final newline), where `crAtEOF` is what strips the '\r'. -/
theorem marker_crlf_any [FLit] [FCR] (body : Bytes) (h : body.getLast? ≠ some CR) (nl : Bool) :
    markerName ⟨body ++ [CR], nl⟩ = markerName ⟨body, nl⟩ := by
  unfold markerName
  simp only [FCR.eq, Bool.true_or, if_true, dropLastCR_append_CR, dropLastCR_of_ne h]
  rw [marker_isPrefixOf_bytes, marker_isPrefixOf_bytes]
  simp only [marker_isPrefixOf_cr]

theorem mem_of_mem_dropLastCR {b : Bytes} {x : UInt8} (h : x ∈ dropLastCR b) : x ∈ b := by
  unfold dropLastCR at h
  split at h
  · exact List.dropLast_subset _ h
  · exact h

theorem mem_of_mem_lineData {l : Line} {x : UInt8} (h : x ∈ lineData l) : x ∈ l.body := by
  unfold lineData at h
  split at h
  · exact mem_of_mem_dropLastCR h
  · exact h

theorem mem_of_mem_nameSlice {b : Bytes} {x : UInt8} (h : x ∈ nameSlice b) : x ∈ b := by
  unfold nameSlice at h
  exact List.mem_of_mem_take (List.mem_of_mem_drop h)

/-- A file name: non-empty, trimmed, no newline. -/
def NameOK (n : Bytes) : Prop := n ≠ [] ∧ trimSpace n = n ∧ NL ∉ n

instance (n : Bytes) : Decidable (NameOK n) := by unfold NameOK; infer_instance

theorem markerName_name_ok [FLen] {l : Line} {n : Bytes} (h : markerName l = some n) (hn : n ≠ [])
    (hb : NL ∉ l.body) : NameOK n := by
  rw [markerName_eq] at h
  split at h
  · simp only [Option.some.injEq] at h
    subst h
    refine ⟨hn, trimSpace_idem _, fun hx => hb ?_⟩
    exact mem_of_mem_lineData (mem_of_mem_nameSlice (mem_of_mem_trimSpace hx))
  · simp only [Option.some.injEq] at h
    exact absurd h.symm hn

theorem nameSlice_fmt (n : Bytes) : nameSlice (marker ++ n ++ markerEnd) = n := by
  unfold nameSlice
  have : (marker ++ n ++ markerEnd).length - markerEnd.length = (marker ++ n).length := by
    simp; omega
  rw [this, List.take_left, List.drop_left]

theorem markerName_fmt [FLen] [FLit] {n : Bytes} (h : trimSpace n = n) (nl : Bool) :
    markerName ⟨marker ++ n ++ markerEnd, nl⟩ = some n := by
  rw [markerName_eq, marker_isPrefixOf_bytes]
  have h1 : lineData ⟨marker ++ n ++ markerEnd, nl⟩ = marker ++ n ++ markerEnd := by
    apply lineData_of_ne
    simp [markerEnd_eq, CR]
  simp only [h1, nameSlice_fmt, h]
  rw [if_pos]
  refine ⟨?_, ?_, ?_⟩
  · rw [List.isPrefixOf_iff_prefix]; simp [List.append_assoc]
  · rw [List.isSuffixOf_iff_suffix]; exact List.suffix_append _ _
  · simp

theorem markerName_eq_ref [FLen] {l : Line} (h : CR ∉ l.body) :
    markerName l = some (refMarkerName l) := by
  have h1 : lineData l = l.body := by
    apply lineData_of_ne
    intro e
    exact h (List.mem_of_getLast? e)
  rw [markerName_eq, h1]
  unfold refMarkerName
  by_cases p : marker.isPrefixOf l.bytes = true
  · by_cases q : markerEnd.isSuffixOf l.body = true
    · by_cases r : marker.length + markerEnd.length ≤ l.body.length
      · simp [p, q, r, nameSlice]
      · simp [p, q, r]
    · simp [p, q]
  · simp [p]

theorem markerName_gt [FLen] [FLit] (b : Bytes) (nl : Bool) : markerName ⟨62 :: b, nl⟩ = some [] := by
  rw [markerName_eq, marker_isPrefixOf_bytes, if_neg]
  simp [marker_eq, List.isPrefixOf]

end GIV.Txtar
