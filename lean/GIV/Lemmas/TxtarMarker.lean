/-
  GIV.Lemmas.TxtarMarker — facts about `markerName` (the model of isMarker), proved from the
  generated facts `Gen.Txtar.lenGuard`, `crAtEOF` and the marker literals.
-/
import GIV.Lemmas.TxtarTrim
import GIV.Lemmas.TxtarLines
namespace GIV.Txtar
open GIV

/-- the name slice of a marker line body `data` (already stripped of '\r'). -/
def nameSlice (data : Bytes) : Bytes :=
  (data.take (data.length - markerEnd.length)).drop marker.length

theorem marker_eq : marker = [45, 45, 32] := rfl
theorem markerEnd_eq : markerEnd = [32, 45, 45] := rfl

/-- `markerName` with the generated facts (`lenGuard`, `crAtEOF`) plugged in. -/
theorem markerName_eq (l : Line) :
    markerName l =
      if marker.isPrefixOf l.bytes ∧ markerEnd.isSuffixOf (dropLastCR l.body) ∧
          marker.length + markerEnd.length ≤ (dropLastCR l.body).length
      then some (trimSpace (nameSlice (dropLastCR l.body))) else some [] := by
  unfold markerName nameSlice
  simp only [Gen.Txtar.lenGuard, Gen.Txtar.crAtEOF, Bool.true_or, if_true, Bool.true_and]
  by_cases h1 : marker.isPrefixOf l.bytes = true
  · by_cases h2 : markerEnd.isSuffixOf (dropLastCR l.body) = true
    · by_cases h3 : marker.length + markerEnd.length ≤ (dropLastCR l.body).length
      · have : ¬ ((dropLastCR l.body).length - markerEnd.length < marker.length) := by omega
        simp [h1, h2, h3, this, Nat.not_lt.mpr h3]
      · simp [h1, h2, h3, Nat.lt_of_not_le h3]
    · simp [h1, h2]
  · simp [h1]
end GIV.Txtar
namespace GIV.Txtar
open GIV

theorem markerName_total (l : Line) : ∃ n, markerName l = some n := by
  rw [markerName_eq]; split <;> exact ⟨_, rfl⟩

theorem marker_isPrefixOf_nl (b : Bytes) : marker.isPrefixOf (b ++ [NL]) = marker.isPrefixOf b := by
  rw [marker_eq]
  match b with
  | [] => simp [List.isPrefixOf, NL]
  | [x] => simp [List.isPrefixOf, NL]
  | [x, y] => simp [List.isPrefixOf, NL]
  | x :: y :: z :: r => simp [List.isPrefixOf]

theorem marker_isPrefixOf_bytes (l : Line) : marker.isPrefixOf l.bytes = marker.isPrefixOf l.body := by
  unfold Line.bytes
  split
  · exact marker_isPrefixOf_nl _
  · rfl

/-- With `crAtEOF`, recognition does not depend on whether the line has its final newline. -/
theorem markerName_nl (b : Bytes) (nl : Bool) : markerName ⟨b, nl⟩ = markerName ⟨b, true⟩ := by
  rw [markerName_eq, markerName_eq, marker_isPrefixOf_bytes, marker_isPrefixOf_bytes]

theorem dropLastCR_of_ne {b : Bytes} (h : b.getLast? ≠ some CR) : dropLastCR b = b := by
  simp [dropLastCR, h]

theorem dropLastCR_append_CR (b : Bytes) : dropLastCR (b ++ [CR]) = b := by
  simp [dropLastCR]

theorem marker_crlf_aux (body : Bytes) (h : body.getLast? ≠ some CR) (nl : Bool) :
    markerName ⟨body ++ [CR], nl⟩ = markerName ⟨body, nl⟩ := by
  rw [markerName_eq, markerName_eq, marker_isPrefixOf_bytes, marker_isPrefixOf_bytes]
  simp only [dropLastCR_append_CR, dropLastCR_of_ne h]
  have : marker.isPrefixOf (body ++ [CR]) = marker.isPrefixOf body := by
    rw [marker_eq]
    match body with
    | [] => simp [List.isPrefixOf, CR]
    | [x] => simp [List.isPrefixOf, CR]
    | [x, y] => simp [List.isPrefixOf, CR]
    | x :: y :: z :: r => simp [List.isPrefixOf]
  rw [this]

end GIV.Txtar
namespace GIV.Txtar
open GIV

theorem mem_of_mem_dropLastCR {b : Bytes} {x : UInt8} (h : x ∈ dropLastCR b) : x ∈ b := by
  unfold dropLastCR at h
  split at h
  · exact List.dropLast_subset _ h
  · exact h

theorem mem_of_mem_nameSlice {b : Bytes} {x : UInt8} (h : x ∈ nameSlice b) : x ∈ b := by
  unfold nameSlice at h
  exact List.mem_of_mem_take (List.mem_of_mem_drop h)

/-- A file name: non-empty, trimmed, no newline. -/
def NameOK (n : Bytes) : Prop := n ≠ [] ∧ trimSpace n = n ∧ NL ∉ n

instance (n : Bytes) : Decidable (NameOK n) := by unfold NameOK; infer_instance

theorem markerName_name_ok {l : Line} {n : Bytes} (h : markerName l = some n) (hn : n ≠ [])
    (hb : NL ∉ l.body) : NameOK n := by
  rw [markerName_eq] at h
  split at h
  · simp only [Option.some.injEq] at h
    subst h
    refine ⟨hn, trimSpace_idem _, fun hx => hb ?_⟩
    exact mem_of_mem_dropLastCR (mem_of_mem_nameSlice (mem_of_mem_trimSpace hx))
  · simp only [Option.some.injEq] at h
    exact absurd h.symm hn

theorem nameSlice_fmt (n : Bytes) : nameSlice (marker ++ n ++ markerEnd) = n := by
  unfold nameSlice
  have : (marker ++ n ++ markerEnd).length - markerEnd.length = (marker ++ n).length := by simp; omega
  rw [this, List.take_left, List.drop_left]

theorem markerName_fmt {n : Bytes} (h : trimSpace n = n) (nl : Bool) :
    markerName ⟨marker ++ n ++ markerEnd, nl⟩ = some n := by
  rw [markerName_eq, marker_isPrefixOf_bytes]
  have h1 : dropLastCR (marker ++ n ++ markerEnd) = marker ++ n ++ markerEnd := by
    apply dropLastCR_of_ne
    simp [markerEnd_eq, CR]
  simp only [h1, nameSlice_fmt, h]
  rw [if_pos]
  refine ⟨?_, ?_, ?_⟩
  · rw [List.isPrefixOf_iff_prefix]; simp [List.append_assoc]
  · rw [List.isSuffixOf_iff_suffix]; exact List.suffix_append _ _
  · simp

theorem markerName_eq_ref {l : Line} (h : CR ∉ l.body) : markerName l = some (refMarkerName l) := by
  have h1 : dropLastCR l.body = l.body := by
    apply dropLastCR_of_ne
    intro e
    exact h (List.mem_of_getLast? e)
  rw [markerName_eq, h1]
  unfold refMarkerName
  by_cases p : marker.isPrefixOf l.bytes = true
  · by_cases q : markerEnd.isSuffixOf l.body = true
    · by_cases r : marker.length + markerEnd.length ≤ l.body.length
      · simp [p, q, r, nameSlice]
      · simp [p, q, r]
    · simp [p, q]
  · simp [p]

theorem markerName_gt (b : Bytes) (nl : Bool) : markerName ⟨62 :: b, nl⟩ = some [] := by
  rw [markerName_eq, marker_isPrefixOf_bytes, if_neg]
  simp [marker_eq, List.isPrefixOf]

end GIV.Txtar
