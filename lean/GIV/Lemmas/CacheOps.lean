/-
  GIV.Lemmas.CacheOps — what `copyFile`, `putIndexEntry`, `put` and the lookups do to the cache
  directory, in terms of `dataOf` (file contents by name).  Core Lean only.
-/
import GIV.Lemmas.CacheFS

namespace GIV.Cache
open GIV

/-! ### lookups never change file contents -/

/-- same files with the same contents (mtimes may differ). -/
def SameData (fs fs' : FS) : Prop := ∀ n, dataOf fs' n = dataOf fs n

theorem SameData.refl (fs : FS) : SameData fs fs := fun _ => rfl
theorem SameData.trans {a b c : FS} (h1 : SameData a b) (h2 : SameData b c) : SameData a c :=
  fun n => (h2 n).trans (h1 n)

theorem used_sameData (fs : FS) (now : Int) (file : Bytes) : SameData fs (used fs now file) :=
  fun n => dataOf_used fs now file n

theorem get_sameData (fs : FS) (now : Int) (id : Hash) : SameData fs (get fs now id).2 := by
  unfold get
  split
  · exact SameData.refl _
  · split
    · exact SameData.refl _
    · simp only []
      split
      · exact used_sameData _ _ _
      · exact SameData.refl _

theorem outputFile_sameData (fs : FS) (now : Int) (out : Hash) : SameData fs (outputFile fs now out).2 :=
  used_sameData _ _ _

theorem getFile_sameData (fs : FS) (now : Int) (id : Hash) : SameData fs (getFile fs now id).2 := by
  have hg := get_sameData fs now id
  unfold getFile
  split
  · rename_i r fs1 h; rw [h] at hg; exact hg
  · rename_i e fs1 h
    rw [h] at hg
    have ho := outputFile_sameData fs1 now e.out
    have hg' : SameData fs fs1 := hg
    simp only []
    repeat' split
    all_goals exact hg'.trans ho

theorem getBytes_sameData (H : Bytes → Hash) (fs : FS) (now : Int) (id : Hash) : SameData fs (getBytes H fs now id).2 := by
  have hg := get_sameData fs now id
  unfold getBytes
  split
  · rename_i r fs1 h; rw [h] at hg; exact hg
  · rename_i e fs1 h
    rw [h] at hg
    have ho := outputFile_sameData fs1 now e.out
    have hg' : SameData fs fs1 := hg
    simp only []
    repeat' split
    all_goals exact hg'.trans ho

/-! ### `get` in terms of the index file's content -/

theorem get_of_data (fs : FS) (now : Int) (id : Hash) (d : Bytes) (h : dataOf fs (fileName id keyA) = some d) :
    (get fs now id).1 = parseEntry id d := by
  unfold dataOf at h
  cases hf : fs.get (fileName id keyA) with
  | none => simp [hf] at h
  | some f =>
    simp only [hf, Option.map_some, Option.some.injEq] at h
    subst h
    unfold get
    simp only [hf]
    split <;> simp_all

theorem get_of_none (fs : FS) (now : Int) (id : Hash) (h : dataOf fs (fileName id keyA) = none) :
    get fs now id = (.error .noFile, fs) := by
  unfold dataOf at h
  cases hf : fs.get (fileName id keyA) with
  | none => simp [get, hf]
  | some f => simp [hf] at h

/-! ### copyFile -/

theorem take_drop_last (data : Bytes) (h : data ≠ []) :
    data.take (data.length - 1) ++ (data.drop (data.length - 1)).take 1 = data := by
  have hl : 0 < data.length := List.length_pos_iff.mpr h
  have : (data.drop (data.length - 1)).take 1 = data.drop (data.length - 1) := by
    apply List.take_of_length_le
    simp; omega
  rw [this, List.take_append_drop]

/-- Fault-free `copyFile` for `out = H data`, `size = len data`: it succeeds, leaves every other file alone, and the
data file then holds `data` — provided a file already there with the same length *and* the same hash is `data` itself
(no collision of `H`; all other junk is overwritten or truncated away). -/
theorem copyFile_spec (H : Bytes → Hash) (fs : FS) (now : Int) (data : Bytes)
    (hcoll : ∀ f, fs.get (fileName (H data) keyD) = some f → f.data.length = data.length → H f.data = H data → f.data = data) :
    ∃ fs1, copyFile H fs now data (H data) data.length = (.ok (), fs1) ∧
      dataOf fs1 (fileName (H data) keyD) = some data ∧
      ∀ m, m ≠ fileName (H data) keyD → fs1.get m = fs.get m := by
  unfold copyFile
  simp only []
  cases hinfo : fs.get (fileName (H data) keyD) with
  | none =>
    simp only [Bool.false_eq_true, if_false]
    by_cases h0 : Gen.Cache.copyEmptyReturn (data.length : Int) = true
    · have hd : data = [] := by
        simp [Gen.Cache.copyEmptyReturn] at h0; exact h0
      simp only [h0, if_true]
      refine ⟨_, rfl, ?_, fun m hm => FS.get_set_ne _ _ _ _ hm⟩
      simp [dataOf_set, hd]
    · have hd : data ≠ [] := by
        intro hd; apply h0; simp [Gen.Cache.copyEmptyReturn, hd]
      have hcat : data.take (Gen.Cache.copyFirstLen (data.length : Int)).toNat ++
          (data.drop (Gen.Cache.copyFirstLen (data.length : Int)).toNat).take 1 = data := by
        have : (Gen.Cache.copyFirstLen (data.length : Int)).toNat = data.length - 1 := by
          simp only [Gen.Cache.copyFirstLen]; omega
        rw [this]; exact take_drop_last data hd
      simp only [h0, Bool.false_eq_true, if_false, hcat]
      have hu : Gen.Cache.copyUnderfoot (H data) (H data) = false := by simp [Gen.Cache.copyUnderfoot]
      simp only [hu, Bool.false_eq_true, if_false]
      refine ⟨_, rfl, ?_, fun m hm => ?_⟩
      · simp [dataOf_set, overwrite]
      · rw [FS.get_set_ne _ _ _ _ hm, FS.get_set_ne _ _ _ _ hm]
  | some f =>
    simp only [Option.isSome_some]
    by_cases hre : (Gen.Cache.copyCheckExisting true (f.data.length : Int) (data.length : Int) &&
        Gen.Cache.copyReuse (H data) (H f.data)) = true
    · -- the existing file is trusted
      simp only [hre, if_true]
      refine ⟨_, rfl, ?_, fun m hm => get_refreshReused_ne _ _ _ _ hm⟩
      simp only [Gen.Cache.copyCheckExisting, Gen.Cache.copyReuse, Bool.true_and, Bool.and_eq_true, decide_eq_true_eq] at hre
      have := hcoll f hinfo (by omega) hre.2.symm
      rw [dataOf_refreshReused]
      simp [dataOf, hinfo, this]
    · simp only [hre, Bool.false_eq_true, if_false]
      by_cases h0 : Gen.Cache.copyEmptyReturn (data.length : Int) = true
      · have hd : data = [] := by
          simp [Gen.Cache.copyEmptyReturn] at h0; exact h0
        simp only [h0, if_true]
        refine ⟨_, rfl, ?_, fun m hm => FS.get_set_ne _ _ _ _ hm⟩
        subst hd
        simp only [dataOf_set, if_true, Option.some.injEq]
        split
        · rfl
        · rename_i ht
          simpa [Gen.Cache.copyTrunc] using ht
      · have hd : data ≠ [] := by
          intro hd; apply h0; simp [Gen.Cache.copyEmptyReturn, hd]
        have hcat : data.take (Gen.Cache.copyFirstLen (data.length : Int)).toNat ++
            (data.drop (Gen.Cache.copyFirstLen (data.length : Int)).toNat).take 1 = data := by
          have : (Gen.Cache.copyFirstLen (data.length : Int)).toNat = data.length - 1 := by
            simp only [Gen.Cache.copyFirstLen]; omega
          rw [this]; exact take_drop_last data hd
        simp only [h0, Bool.false_eq_true, if_false, hcat]
        have hu : Gen.Cache.copyUnderfoot (H data) (H data) = false := by simp [Gen.Cache.copyUnderfoot]
        simp only [hu, Bool.false_eq_true, if_false]
        refine ⟨_, rfl, ?_, fun m hm => ?_⟩
        · simp only [dataOf_set, if_true, overwrite, Option.some.injEq]
          by_cases ht : Gen.Cache.copyTrunc true (f.data.length : Int) (data.length : Int) = true
          · simp [ht]
          · simp only [ht, Bool.false_eq_true, if_false]
            simp [Gen.Cache.copyTrunc] at ht
            rw [List.drop_eq_nil_of_le (by omega)]; simp
        · rw [FS.get_set_ne _ _ _ _ hm, FS.get_set_ne _ _ _ _ hm]

/-! ### putIndexEntry, put -/

theorem putIndexEntry_spec (fs : FS) (now : Int) (id out : Hash) (size : Int) :
    (putIndexEntry fs now id out size).get (fileName id keyA) = some ⟨fmtEntry id out size now, now⟩ ∧
    ∀ m, m ≠ fileName id keyA → (putIndexEntry fs now id out size).get m = fs.get m := by
  unfold putIndexEntry
  simp only []
  refine ⟨?_, fun m hm => FS.get_set_ne _ _ _ _ hm⟩
  rw [FS.get_set_self]
  have : Gen.Cache.indexTruncAfterWrite = true := by decide
  simp [this, overwrite]

/-- What a fault-free `Put` leaves behind. -/
theorem put_spec (H : Bytes → Hash) (fs : FS) (now : Int) (id : Hash) (data : Bytes)
    (hcoll : ∀ f, fs.get (fileName (H data) keyD) = some f → f.data.length = data.length → H f.data = H data → f.data = data) :
    ∃ fs', put H fs now id data = (.ok (H data, (data.length : Int)), fs') ∧
      dataOf fs' (fileName id keyA) = some (fmtEntry id (H data) data.length now) ∧
      dataOf fs' (fileName (H data) keyD) = some data ∧
      ∀ m, m ≠ fileName id keyA → m ≠ fileName (H data) keyD → dataOf fs' m = dataOf fs m := by
  obtain ⟨fs1, hc, hd, hother⟩ := copyFile_spec H fs now data hcoll
  obtain ⟨hi1, hi2⟩ := putIndexEntry_spec fs1 now id (H data) data.length
  refine ⟨putIndexEntry fs1 now id (H data) data.length, ?_, ?_, ?_, ?_⟩
  · simp [put, hc]
  · simp [dataOf, hi1]
  · have := hi2 (fileName (H data) keyD) (fun h => fileName_a_ne_d id (H data) h.symm)
    simp only [dataOf, this]; exact hd
  · intro m h1 h2
    simp only [dataOf, hi2 m h1, hother m h2]

/-! ### an entry whose index file parses and whose data file holds the data -/

/-- the index file of `id` holds bytes that `get` parses to `(H data, len data, _)` and the data file named by
`H data` holds `data`.  (No fact about the index codec is used here; `GIV.Lemmas.CacheStored` shows that what
`Put` writes satisfies it.) -/
def StoredP (H : Bytes → Hash) (fs : FS) (id : Hash) (data : Bytes) : Prop :=
  (∃ d t, dataOf fs (fileName id keyA) = some d ∧ parseEntry id d = .ok ⟨H data, data.length, t⟩) ∧
  dataOf fs (fileName (H data) keyD) = some data

theorem StoredP.of_sameData {H : Bytes → Hash} {fs fs' : FS} {id : Hash} {data : Bytes}
    (h : StoredP H fs id data) (hs : SameData fs fs') : StoredP H fs' id data := by
  obtain ⟨⟨d, t, hi, hp⟩, hd⟩ := h
  exact ⟨⟨d, t, by rw [hs]; exact hi, hp⟩, by rw [hs]; exact hd⟩

theorem StoredP.get {H : Bytes → Hash} {fs : FS} {id : Hash} {data : Bytes} (h : StoredP H fs id data) (now : Int) :
    ∃ t, (get fs now id).1 = .ok ⟨H data, data.length, t⟩ := by
  obtain ⟨⟨d, t, hi, hp⟩, _⟩ := h
  exact ⟨t, by rw [get_of_data fs now id _ hi, hp]⟩

theorem StoredP.getBytes {H : Bytes → Hash} {fs : FS} {id : Hash} {data : Bytes} (h : StoredP H fs id data) (now : Int) :
    ∃ t, (getBytes H fs now id).1 = .ok (data, ⟨H data, data.length, t⟩) := by
  obtain ⟨t, hg⟩ := h.get now
  have hs := get_sameData fs now id
  refine ⟨t, ?_⟩
  unfold Cache.getBytes
  cases hgr : Cache.get fs now id with
  | mk r fs1 =>
    rw [hgr] at hg hs
    simp only at hg
    subst hg
    simp only []
    have hd : dataOf (outputFile fs1 now (H data)).2 (fileName (H data) keyD) = some data := by
      rw [outputFile_sameData, hs]; exact h.2
    simp only [outputFile] at hd ⊢
    unfold dataOf at hd
    have ⟨f, hf, hfd⟩ : ∃ f, (used fs1 now (fileName (H data) keyD)).get (fileName (H data) keyD) = some f ∧ f.data = data := by
      cases hf : (used fs1 now (fileName (H data) keyD)).get (fileName (H data) keyD) with
      | none => rw [hf] at hd; simp at hd
      | some f => rw [hf] at hd; simp at hd; exact ⟨f, rfl, hd⟩
    simp [hf, hfd, Gen.Cache.getBytesReject]

theorem StoredP.getFile {H : Bytes → Hash} {fs : FS} {id : Hash} {data : Bytes} (h : StoredP H fs id data) (now : Int) :
    ∃ t, (getFile fs now id).1 = .ok (fileName (H data) keyD, ⟨H data, data.length, t⟩) := by
  obtain ⟨t, hg⟩ := h.get now
  have hs := get_sameData fs now id
  refine ⟨t, ?_⟩
  unfold Cache.getFile
  cases hgr : Cache.get fs now id with
  | mk r fs1 =>
    rw [hgr] at hg hs
    simp only at hg
    subst hg
    simp only []
    have hd : dataOf (outputFile fs1 now (H data)).2 (fileName (H data) keyD) = some data := by
      rw [outputFile_sameData, hs]; exact h.2
    simp only [outputFile] at hd ⊢
    unfold dataOf at hd
    have ⟨f, hf, hfd⟩ : ∃ f, (used fs1 now (fileName (H data) keyD)).get (fileName (H data) keyD) = some f ∧ f.data = data := by
      cases hf : (used fs1 now (fileName (H data) keyD)).get (fileName (H data) keyD) with
      | none => rw [hf] at hd; simp at hd
      | some f => rw [hf] at hd; simp at hd; exact ⟨f, rfl, hd⟩
    simp [hf, hfd, Gen.Cache.getFileReject]

/-! ### mtimes after Put -/

/-- `copyFile` finds a file of the right length and hash under the output name and trusts it. -/
def Reused (H : Bytes → Hash) (fs : FS) (data : Bytes) : Prop :=
  ∃ f, fs.get (fileName (H data) keyD) = some f ∧ f.data.length = data.length ∧ H f.data = H data

theorem copyFile_reused (H : Bytes → Hash) (fs : FS) (now : Int) (data : Bytes) (h : Reused H fs data) :
    (copyFile H fs now data (H data) data.length).2 = refreshReused fs now (fileName (H data) keyD) := by
  obtain ⟨f, hf, hl, hh⟩ := h
  unfold copyFile
  simp only [hf, Option.isSome_some]
  have : (Gen.Cache.copyCheckExisting true (f.data.length : Int) (data.length : Int) && Gen.Cache.copyReuse (H data) (H f.data)) = true := by
    simp [Gen.Cache.copyCheckExisting, Gen.Cache.copyReuse, hl, hh]
  simp [this]

/-- otherwise the data file is (re)written and carries the time of the Put. -/
theorem copyFile_fresh (H : Bytes → Hash) (fs : FS) (now : Int) (data : Bytes) (h : ¬ Reused H fs data) :
    ∃ f, (copyFile H fs now data (H data) data.length).2.get (fileName (H data) keyD) = some f ∧ f.mtime = now := by
  unfold copyFile
  simp only []
  cases hinfo : fs.get (fileName (H data) keyD) with
  | none =>
    simp only [Bool.false_eq_true, if_false]
    repeat' split
    all_goals simp [FS.get_set]
  | some f =>
    simp only [Option.isSome_some]
    have hre : (Gen.Cache.copyCheckExisting true (f.data.length : Int) (data.length : Int) && Gen.Cache.copyReuse (H data) (H f.data)) = false := by
      cases hc : (Gen.Cache.copyCheckExisting true (f.data.length : Int) (data.length : Int) && Gen.Cache.copyReuse (H data) (H f.data)) with
      | false => rfl
      | true =>
        exfalso; apply h
        simp only [Gen.Cache.copyCheckExisting, Gen.Cache.copyReuse, Bool.true_and, Bool.and_eq_true, decide_eq_true_eq] at hc
        exact ⟨f, hinfo, by omega, hc.2.symm⟩
    simp only [hre, Bool.false_eq_true, if_false]
    by_cases h0 : Gen.Cache.copyEmptyReturn (data.length : Int) = true
    · -- size 0: the existing file is non-empty (else it would have been reused), hence truncated now
      have hd : data = [] := by simp [Gen.Cache.copyEmptyReturn] at h0; exact h0
      subst hd
      simp only [h0, if_true, FS.get_set_self]
      have hne : f.data ≠ [] := by
        intro he; apply h
        exact ⟨f, hinfo, by simp [he], by rw [he]⟩
      have : Gen.Cache.copyTrunc true (f.data.length : Int) 0 = true := by
        simp [Gen.Cache.copyTrunc]; exact List.length_pos_iff.mpr hne
      simp [this]
    · simp only [h0, Bool.false_eq_true, if_false]
      repeat' split
      all_goals simp [FS.get_set]


theorem copyFile_fst_ok (H : Bytes → Hash) (fs : FS) (now : Int) (data : Bytes) :
    (copyFile H fs now data (H data) data.length).1 = .ok () := by
  by_cases hd : data = []
  · subst hd
    unfold copyFile
    have : Gen.Cache.copyEmptyReturn ((([] : Bytes).length : Nat) : Int) = true := by decide
    simp only [this, if_true]
    repeat' split
    all_goals rfl
  · have hcat : data.take (Gen.Cache.copyFirstLen (data.length : Int)).toNat ++
        (data.drop (Gen.Cache.copyFirstLen (data.length : Int)).toNat).take 1 = data := by
      have : (Gen.Cache.copyFirstLen (data.length : Int)).toNat = data.length - 1 := by
        simp only [Gen.Cache.copyFirstLen]; omega
      rw [this]; exact take_drop_last data hd
    have hu : Gen.Cache.copyUnderfoot (H data) (H data) = false := by simp [Gen.Cache.copyUnderfoot]
    unfold copyFile
    simp only [hcat, hu, Bool.false_eq_true, if_false]
    repeat' split
    all_goals rfl

theorem put_snd (H : Bytes → Hash) (fs : FS) (now : Int) (id : Hash) (data : Bytes) :
    (put H fs now id data).2 =
      putIndexEntry (copyFile H fs now data (H data) data.length).2 now id (H data) data.length := by
  have h := copyFile_fst_ok H fs now data
  unfold put
  simp only []
  cases hc : copyFile H fs now data (H data) data.length with
  | mk r fs1 =>
    rw [hc] at h
    simp only at h
    subst h
    rfl

theorem ite_error_ok {α σ : Type} {c : Prop} [Decidable c] {r : Reason} {v v' : α} {s1 s2 s' : σ}
    (h : (if c then ((Except.error r : Except Reason α), s1) else (Except.ok v, s2)) = (Except.ok v', s')) :
    ¬ c ∧ v = v' ∧ s2 = s' := by
  split at h
  · cases h
  · rename_i hc; cases h; exact ⟨hc, rfl, rfl⟩

end GIV.Cache
