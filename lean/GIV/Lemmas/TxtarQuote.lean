/-
  GIV.Lemmas.TxtarQuote — agreement with the x/tools reference on CR-free input, exactness of
  `needsQuote`, and the Quote/Unquote lemmas.
-/
import GIV.Lemmas.TxtarParse
namespace GIV.Txtar
open GIV

/-! ### agreement with the x/tools reference on CR-free input -/

theorem parseFiles_eq_ref [FLen] {ls : List Line} (h : ∀ l ∈ ls, CR ∉ l.body) (name acc : Bytes) :
    parseFiles ls name acc = some (refParseFiles ls name acc) := by
  induction ls generalizing name acc with
  | nil => rfl
  | cons l rest ih =>
    have hrest : ∀ l' ∈ rest, CR ∉ l'.body := fun l' hl' => h l' (by simp [hl'])
    simp only [parseFiles, refParseFiles, markerName_eq_ref (h l (by simp))]
    split
    · split
      · rw [ih hrest]; rfl
      · rfl
    · exact ih hrest _ _

theorem parseLines_eq_ref [FLen] {ls : List Line} (h : ∀ l ∈ ls, CR ∉ l.body) (acc : Bytes) :
    parseLines ls acc = some (refParseLines ls acc) := by
  induction ls generalizing acc with
  | nil => rfl
  | cons l rest ih =>
    have hrest : ∀ l' ∈ rest, CR ∉ l'.body := fun l' hl' => h l' (by simp [hl'])
    simp only [parseLines, refParseLines, markerName_eq_ref (h l (by simp))]
    split
    · split
      · rw [parseFiles_eq_ref hrest]; rfl
      · rfl
    · exact ih hrest _

theorem parse_eq_ref [FLen] {d : Bytes} (h : CR ∉ d) : parse d = some (refParse d) :=
  parseLines_eq_ref (fun _ hl hx => h (mem_of_mem_splitLines hl _ hx)) []

/-! ### NeedsQuote -/

theorem findFM_name [FLen] {ls : List Line} {acc : Bytes} {f : Found} (h : findFM ls acc = some f) :
    f.name ≠ [] ↔ ∃ l ∈ ls, MarkerLine l := by
  induction ls generalizing acc with
  | nil =>
    simp only [findFM, Option.some.injEq] at h
    subst h
    simp
  | cons l rest ih =>
    obtain ⟨n, hn⟩ := markerName_total l
    simp only [findFM, hn] at h
    split at h
    · rename_i hne
      simp only [Option.some.injEq] at h
      subst h
      simp only [ne_eq, hne, not_false_eq_true, true_iff]
      exact ⟨l, by simp, n, hn, hne⟩
    · rename_i hne
      have hne : n = [] := by simpa using hne
      subst hne
      rw [ih h]
      have : ¬ MarkerLine l := not_markerLine_iff.mpr hn
      simp [this]

theorem needsQuote_eq [FLen] [FNQ] (d : Bytes) : needsQuote d = some (decide (HasMarkerLine d)) := by
  unfold needsQuote
  obtain ⟨f, hf⟩ := findFM_total (splitLines d) []
  rw [hf]
  simp only [Option.map_some, FNQ.eq, if_true, Option.some.injEq]
  exact decide_eq_decide.mpr (findFM_name hf)

theorem needsQuote_false_iff [FLen] [FNQ] (d : Bytes) : needsQuote d = some false ↔ ¬ HasMarkerLine d := by
  rw [needsQuote_eq]; simp

end GIV.Txtar
namespace GIV.Txtar
open GIV

/-- `BodyOK` in terms of `needsQuote` (for callers that test `NeedsQuote` before storing data). -/
theorem bodyOK_iff_needsQuote [FLen] [FNQ] (d : Bytes) :
    BodyOK d ↔ (d = [] ∨ d.getLast? = some NL) ∧ needsQuote d = some false := by
  unfold BodyOK
  rw [needsQuote_false_iff]

theorem hasMarkerLine_fixNL [FLen] [FCR] [FLit] (d : Bytes) : HasMarkerLine (fixNL d) ↔ HasMarkerLine d := by
  unfold HasMarkerLine
  rw [splitLines_fixNL]
  constructor
  · rintro ⟨l, hl, hm⟩
    obtain ⟨l0, hl0, rfl⟩ := List.mem_map.mp hl
    exact ⟨l0, hl0, (markerLine_nl l0.body l0.nl).mpr hm⟩
  · rintro ⟨l, hl, hm⟩
    exact ⟨⟨l.body, true⟩, List.mem_map.mpr ⟨l, hl, rfl⟩, (markerLine_nl l.body l.nl).mp hm⟩

theorem bodyOK_fixNL_of [FLen] [FCR] [FLit] {d : Bytes} (h : ¬ HasMarkerLine d) : BodyOK (fixNL d) :=
  ⟨fixNL_ends d, fun hm => h ((hasMarkerLine_fixNL d).mp hm)⟩

/-- Storing `d` as the body of a single file parses back to that file (with `fixNL d`) iff `d`
has no marker line. -/
theorem parse_format_single [FLen] [FCR] [FLit] {n : Bytes} (hn : NameOK n) (d : Bytes) :
    parse (format ⟨[], [⟨n, d⟩]⟩) = some ⟨[], [⟨n, fixNL d⟩]⟩ ↔ ¬ HasMarkerLine d := by
  have hfmt : format ⟨[], [⟨n, d⟩]⟩ = format ⟨[], [⟨n, fixNL d⟩]⟩ := by
    simp [format, fixNL_idem]
  constructor
  · intro h hm
    have := parse_wf h
    have hf := this.2 ⟨n, fixNL d⟩ (by simp)
    exact hf.2.2 ((hasMarkerLine_fixNL d).mpr hm)
  · intro h
    rw [hfmt]
    apply parse_format_of_wf
    refine ⟨bodyOK_nil, ?_⟩
    intro f hf
    simp only [List.mem_singleton] at hf
    subst hf
    exact ⟨hn, bodyOK_fixNL_of h⟩

/-! ### Quote / Unquote -/

theorem quoteLoop_line_aux {body : Bytes} (rest : Bytes) (h : NL ∉ body) {p : UInt8} (hp : p ≠ NL) :
    quoteLoop p (body ++ NL :: rest) = body ++ NL :: quoteLoop NL rest := by
  induction body generalizing p with
  | nil => simp [quoteLoop, hp]
  | cons x xs ih =>
    simp only [List.mem_cons, not_or] at h
    have hx : x ≠ NL := fun e => h.1 e.symm
    simp [quoteLoop, hp, ih h.2 hx]

theorem quoteLoop_line {body : Bytes} (rest : Bytes) (h : NL ∉ body) :
    quoteLoop NL (body ++ NL :: rest) = 62 :: body ++ NL :: quoteLoop NL rest := by
  cases body with
  | nil => simp [quoteLoop]
  | cons x xs =>
    simp only [List.mem_cons, not_or] at h
    have hx : x ≠ NL := fun e => h.1 e.symm
    simp [quoteLoop, quoteLoop_line_aux rest h.2 hx]

def gtLine (l : Line) : Line := ⟨62 :: l.body, l.nl⟩

theorem quoteLoop_joinLines {ls : List Line} (h1 : ∀ l ∈ ls, NL ∉ l.body) (h2 : AllNL ls) :
    quoteLoop NL (joinLines ls) = joinLines (ls.map gtLine) := by
  induction ls with
  | nil => simp [joinLines, quoteLoop]
  | cons l ls ih =>
    obtain ⟨body, nl⟩ := l
    have hnl : nl = true := h2 ⟨body, nl⟩ (by simp)
    subst hnl
    have hb : NL ∉ body := h1 ⟨body, true⟩ (by simp)
    rw [List.map_cons, joinLines_cons, joinLines_cons]
    simp only [Line.bytes, gtLine, if_true, List.append_assoc, List.cons_append, List.nil_append]
    rw [quoteLoop_line _ hb, ih (fun l hl => h1 l (by simp [hl])) (fun l hl => h2 l (by simp [hl]))]
    simp

theorem LinesOK_of_allNL {ls : List Line} (h1 : ∀ l ∈ ls, NL ∉ l.body) (h2 : AllNL ls) : LinesOK ls := by
  induction ls with
  | nil => simp [LinesOK]
  | cons l ls ih =>
    obtain ⟨body, nl⟩ := l
    have hnl : nl = true := h2 ⟨body, nl⟩ (by simp)
    subst hnl
    exact LinesOK_cons_nl (h1 ⟨body, true⟩ (by simp))
      (ih (fun l hl => h1 l (by simp [hl])) (fun l hl => h2 l (by simp [hl])))

theorem quote_ok {d q : Bytes} (h : quote d = .ok q) :
    (d = [] ∧ q = []) ∨ (d ≠ [] ∧ d.getLast? = some NL ∧ utf8Valid d = true ∧ q = quoteLoop NL d) := by
  unfold quote at h
  split at h
  · rename_i he
    left
    simp only [Except.ok.injEq] at h
    exact ⟨by simpa using he, h.symm⟩
  · rename_i he
    right
    split at h
    · cases h
    · rename_i hl
      split at h
      · cases h
      · rename_i hv
        simp only [Except.ok.injEq] at h
        exact ⟨by simpa using he, by simpa using hl, by simpa using hv, h.symm⟩

/-- the lines of a quoted text: those of the input, each with '>' in front. -/
theorem splitLines_quote {d q : Bytes} (h : quote d = .ok q) :
    splitLines q = (splitLines d).map gtLine ∧ (q = [] ∨ q.getLast? = some NL) := by
  rcases quote_ok h with ⟨rfl, rfl⟩ | ⟨_, hl, _, rfl⟩
  · simp [splitLines_nil]
  · have hall := splitLines_allNL (Or.inr hl)
    have hbody := LinesOK_body (splitLines_ok d)
    have hq := quoteLoop_joinLines hbody hall
    rw [joinLines_splitLines] at hq
    have hall' : AllNL ((splitLines d).map gtLine) := by
      intro l hl
      obtain ⟨l0, hl0, rfl⟩ := List.mem_map.mp hl
      exact hall l0 hl0
    have hbody' : ∀ l ∈ (splitLines d).map gtLine, NL ∉ l.body := by
      intro l hl
      obtain ⟨l0, hl0, rfl⟩ := List.mem_map.mp hl
      simp only [gtLine, List.mem_cons, not_or]
      exact ⟨by decide, hbody l0 hl0⟩
    rw [hq]
    exact ⟨splitLines_joinLines (LinesOK_of_allNL hbody' hall'), joinLines_ends hall'⟩

theorem quote_bodyOK [FLen] [FLit] {d q : Bytes} (h : quote d = .ok q) : BodyOK q := by
  obtain ⟨h1, h2⟩ := splitLines_quote h
  refine ⟨h2, ?_⟩
  rintro ⟨l, hl, hm⟩
  rw [h1] at hl
  obtain ⟨l0, _, rfl⟩ := List.mem_map.mp hl
  exact (not_markerLine_iff.mpr (markerName_gt l0.body l0.nl)) hm

theorem quote_needsQuote [FLen] [FLit] [FNQ] {d q : Bytes} (h : quote d = .ok q) : needsQuote q = some false :=
  (needsQuote_false_iff q).mpr (quote_bodyOK h).2

theorem quote_survives_gen [FLen] [FLit] {d q : Bytes} (h : quote d = .ok q) {c n : Bytes} (hc : BodyOK c)
    (hn : NameOK n) : parse (format ⟨c, [⟨n, q⟩]⟩) = some ⟨c, [⟨n, q⟩]⟩ := by
  apply parse_format_of_wf
  refine ⟨hc, ?_⟩
  intro f hf
  simp only [List.mem_singleton] at hf
  subst hf
  exact ⟨hn, quote_bodyOK h⟩

theorem replaceNLGT_quoteLoop (b : UInt8) (rest : Bytes) :
    replaceNLGT (b :: quoteLoop b rest) = b :: rest := by
  induction rest generalizing b with
  | nil => simp [quoteLoop, replaceNLGT]
  | cons c r ih =>
    by_cases hb : b = NL
    · simp [quoteLoop, hb, replaceNLGT, ih]
    · simp [quoteLoop, hb, replaceNLGT, ih]

theorem getLast?_quoteLoop (p : UInt8) {d : Bytes} (hd : d ≠ []) :
    (quoteLoop p d).getLast? = d.getLast? := by
  induction d generalizing p with
  | nil => exact absurd rfl hd
  | cons x xs ih =>
    by_cases hxs : xs = []
    · subst hxs
      unfold quoteLoop
      split <;> simp [quoteLoop]
    · have h1 := ih x hxs
      have hne : quoteLoop x xs ≠ [] := by
        intro e
        rw [e] at h1
        simp only [List.getLast?_nil] at h1
        exact hxs (List.getLast?_eq_none_iff.mp h1.symm)
      unfold quoteLoop
      split
      · rw [List.getLast?_cons_of_ne_nil (by simp), List.getLast?_cons_of_ne_nil hne, h1,
          List.getLast?_cons_of_ne_nil hxs]
      · rw [List.getLast?_cons_of_ne_nil hne, h1, List.getLast?_cons_of_ne_nil hxs]

theorem unquote_quote {d q : Bytes} (h : quote d = .ok q) : unquote q = .ok d := by
  rcases quote_ok h with ⟨rfl, rfl⟩ | ⟨hne, hl, _, rfl⟩
  · rfl
  · cases d with
    | nil => exact absurd rfl hne
    | cons x xs =>
      have hlast : (quoteLoop NL (x :: xs)).getLast? = some NL := by
        rw [getLast?_quoteLoop NL hne, hl]
      have hq : quoteLoop NL (x :: xs) = 62 :: x :: quoteLoop x xs := by simp [quoteLoop]
      have hr : replaceNLGT (62 :: x :: quoteLoop x xs) = 62 :: x :: xs := by
        rw [replaceNLGT]
        · simp only [replaceNLGT_quoteLoop]
          have : ¬ ((62 : UInt8) = NL ∧ x = 62) := by
            intro h; exact absurd h.1 (by decide)
          simp [this]
      unfold unquote
      rw [hq] at hlast ⊢
      simp [hlast, hr]

theorem quote_error_iff (d : Bytes) :
    (∃ e, quote d = .error e) ↔ ((d ≠ [] ∧ d.getLast? ≠ some NL) ∨ utf8Valid d = false) := by
  unfold quote
  cases d with
  | nil => simp [utf8Valid]
  | cons x xs =>
    simp only [List.isEmpty_cons, Bool.false_eq_true, if_false, ne_eq, reduceCtorEq, not_false_eq_true,
      true_and]
    by_cases h1 : (x :: xs).getLast? = some NL
    · by_cases h2 : utf8Valid (x :: xs) = true
      · simp [h1, h2]
      · simp [h1, h2]
    · simp [h1]

end GIV.Txtar
