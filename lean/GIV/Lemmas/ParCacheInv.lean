/-
  GIV.Lemmas.ParCacheInv — the invariant of the par.Cache transition system.
-/
import GIV.Lemmas.ParCacheStep
namespace GIV.ParCache

/-- f has been entered for key k, done not yet set -/
def Pc.inCall (k : Key) : Pc → Bool
  | .dStore k' => k' == k
  | .dInF k' _ | .dWrite k' _ => k' == k
  | _ => false

structure Inv (s : State) : Prop where
  doneVal : ∀ k : Nat, (s.key k).done = 0 ∨ (s.key k).done = 1
  load2Pt : ∀ (t : Nat) (k : Nat), s.pc t = .dLoad2 k → (s.key k).owner = some t
  fEnterPt : ∀ (t : Nat) (k : Nat), s.pc t = .dFEnter k →
    (s.key k).owner = some t ∧ (s.key k).done = 0 ∧ (s.key k).fcalls = 0
  inFPt : ∀ (t : Nat) (k : Nat) v, s.pc t = .dInF k v →
    (s.key k).owner = some t ∧ (s.key k).done = 0 ∧ (s.key k).fcalls = 1
  writePt : ∀ (t : Nat) (k : Nat) v, s.pc t = .dWrite k v →
    (s.key k).owner = some t ∧ (s.key k).done = 0 ∧ (s.key k).fcalls = 1 ∧ (s.key k).fret = some v
  storePt : ∀ (t : Nat) (k : Nat), s.pc t = .dStore k →
    (s.key k).owner = some t ∧ (s.key k).done = 0 ∧ (s.key k).fcalls = 1 ∧ (s.key k).fret = some (s.key k).result
  unlockPt : ∀ (t : Nat) (k : Nat), s.pc t = .dUnlock k → (s.key k).owner = some t ∧ (s.key k).done = 1
  published : ∀ k : Nat, (s.key k).done = 1 →
    (s.key k).fcalls = 1 ∧ (s.key k).fret = some (s.key k).result
  fresh : ∀ k : Nat, (s.key k).done = 0 → (s.key k).fcalls = 0 ∨ ∃ t : Nat, (s.pc t).inCall k = true
  readPt : ∀ (t : Nat) (k : Nat), (s.pc t = .dRet k ∨ s.pc t = .gRet k) → (s.key k).done = 1

theorem inv_init (c : Cfg) : Inv (init0 c) := by
  refine ⟨?_, ?_, ?_, ?_, ?_, ?_, ?_, ?_, ?_, ?_⟩ <;> simp [init0, K0]

@[simp] theorem setPc_pc (s : State) (t : Nat) (p : Pc) (i : Nat) : (s.setPc t p).pc i = if i = t then p else s.pc i := rfl
@[simp] theorem setPc_key (s : State) (t : Nat) (p : Pc) : (s.setPc t p).key = s.key := rfl
@[simp] theorem setKey_pc (s : State) (k : Nat) (ks : KState) : (s.setKey k ks).pc = s.pc := rfl
@[simp] theorem setKey_key (s : State) (k : Nat) (ks : KState) (i : Nat) : (s.setKey k ks).key i = if i = k then ks else s.key i := rfl

/-- steps that only move task `t` to pc `p'` (the entries are untouched) -/
theorem inv_pc {s s1 : State} (inv : Inv s) (t : Nat) (p' : Pc)
    (hk : s1.key = s.key) (hp : s1.pc = fun i => if i = t then p' else s.pc i)
    (h2 : ∀ k : Nat, p' = .dLoad2 k → (s.key k).owner = some t)
    (h3 : ∀ k : Nat, p' = .dFEnter k → (s.key k).owner = some t ∧ (s.key k).done = 0 ∧ (s.key k).fcalls = 0)
    (h4 : ∀ (k : Nat) v, p' ≠ .dInF k v) (h5 : ∀ (k : Nat) v, p' ≠ .dWrite k v) (h6 : ∀ k : Nat, p' ≠ .dStore k)
    (h7 : ∀ k : Nat, p' = .dUnlock k → (s.key k).owner = some t ∧ (s.key k).done = 1)
    (h9 : ∀ k : Nat, (s.pc t).inCall k = false)
    (h10 : ∀ k : Nat, (p' = .dRet k ∨ p' = .gRet k) → (s.key k).done = 1) : Inv s1 := by
  obtain ⟨i1, i2, i3, i4, i5, i6, i7, i8, i9, i10⟩ := inv
  refine ⟨?_, ?_, ?_, ?_, ?_, ?_, ?_, ?_, ?_, ?_⟩
  all_goals simp only [hk, hp]
  · exact i1
  · intro t1 k h; split at h
    · subst t1; exact h2 k h
    · exact i2 t1 k h
  · intro t1 k h; split at h
    · subst t1; exact h3 k h
    · exact i3 t1 k h
  · intro t1 k v h; split at h
    · exact absurd h (h4 k v)
    · exact i4 t1 k v h
  · intro t1 k v h; split at h
    · exact absurd h (h5 k v)
    · exact i5 t1 k v h
  · intro t1 k h; split at h
    · exact absurd h (h6 k)
    · exact i6 t1 k h
  · intro t1 k h; split at h
    · subst t1; exact h7 k h
    · exact i7 t1 k h
  · exact i8
  · intro k hd
    rcases i9 k hd with h | ⟨t1, h⟩
    · exact Or.inl h
    · right; refine ⟨t1, ?_⟩
      have : t1 ≠ t := by intro e; subst e; rw [h9 k] at h; exact absurd h (by simp)
      simp only [this, if_false]; exact h
  · intro t1 k h
    by_cases e : t1 = t
    · subst e; simp only [if_true] at h; exact h10 k h
    · simp only [e, if_false] at h; exact i10 t1 k h

/-- a pc that is none of the special program points -/
def Pc.plain : Pc → Bool
  | .init | .idle | .exited | .dLoad _ | .dLos _ | .dLoad1 _ | .dLock _ | .gLoad _ | .gLoad1 _ | .gRetNil _ => true
  | _ => false

theorem inv_plain {s s1 : State} (inv : Inv s) (t : Nat) (p' : Pc)
    (hk : s1.key = s.key) (hp : s1.pc = fun i => if i = t then p' else s.pc i)
    (hpl : p'.plain = true) (h9 : ∀ k : Nat, (s.pc t).inCall k = false) : Inv s1 := by
  apply inv_pc inv t p' hk hp
  · intro k h; subst h; simp [Pc.plain] at hpl
  · intro k h; subst h; simp [Pc.plain] at hpl
  · intro k v h; subst h; simp [Pc.plain] at hpl
  · intro k v h; subst h; simp [Pc.plain] at hpl
  · intro k h; subst h; simp [Pc.plain] at hpl
  · intro k h; subst h; simp [Pc.plain] at hpl
  · exact h9
  · intro k h; rcases h with h | h <;> subst h <;> simp [Pc.plain] at hpl

set_option maxHeartbeats 2000000 in
/-- the steps that modify an entry -/
theorem inv_key {c : Cfg} {s s' : State} {t : Nat} {e : Event} (inv : Inv s) (h : Step c s t e s')
    (he : (∃ k b, e = .mapLoadOrStore k b) ∨ (∃ k, e = .lock k) ∨ (∃ k, e = .fEnter k) ∨ (∃ k v, e = .fExit k v) ∨
      (∃ k, e = .write k) ∨ (∃ k v, e = .atomicStore k v) ∨ (∃ k, e = .unlock k)) : Inv s' := by
  obtain ⟨i1, i2, i3, i4, i5, i6, i7, i8, i9, i10⟩ := inv
  cases h
  all_goals first
    | (exfalso; simp at he; done)
    | (refine ⟨?_, ?_, ?_, ?_, ?_, ?_, ?_, ?_, ?_, ?_⟩ <;> simp only [setPc_pc, setPc_key, setKey_pc, setKey_key] <;>
        grind [Pc.inCall])

theorem inv_step {c : Cfg} {s s' : State} {t : Nat} {e : Event} (inv : Inv s) (h : Step c s t e s') : Inv s' := by
  cases h with
  | start hpc => exact inv_plain inv t _ rfl rfl rfl (by simp [hpc, Pc.inCall])
  | exit hpc _ => exact inv_plain inv t _ rfl rfl rfl (by simp [hpc, Pc.inCall])
  | doCall hpc _ => exact inv_plain inv t _ rfl rfl rfl (by simp [hpc, Pc.inCall])
  | getCall hpc _ => exact inv_plain inv t _ rfl rfl rfl (by simp [hpc, Pc.inCall])
  | dLoadHit hpc _ => exact inv_plain inv t _ rfl rfl rfl (by simp [hpc, Pc.inCall])
  | dLoadMiss hpc _ => exact inv_plain inv t _ rfl rfl rfl (by simp [hpc, Pc.inCall])
  | dLoad1Zero hpc _ => exact inv_plain inv t _ rfl rfl rfl (by simp [hpc, Pc.inCall])
  | gLoadHit hpc _ => exact inv_plain inv t _ rfl rfl rfl (by simp [hpc, Pc.inCall])
  | gLoadMiss hpc _ => exact inv_plain inv t _ rfl rfl rfl (by simp [hpc, Pc.inCall])
  | gLoad1Zero hpc _ => exact inv_plain inv t _ rfl rfl rfl (by simp [hpc, Pc.inCall])
  | doReturn hpc => exact inv_plain inv t _ rfl rfl rfl (by simp [hpc, Pc.inCall])
  | getNil hpc => exact inv_plain inv t _ rfl rfl rfl (by simp [hpc, Pc.inCall])
  | getVal hpc => exact inv_plain inv t _ rfl rfl rfl (by simp [hpc, Pc.inCall])
  | @dLoad1Set k hpc hd =>
    apply inv_pc (s1 := s.setPc t (.dRet k)) inv t (.dRet k) rfl rfl <;> try (intros; simp_all [Pc.inCall]; done)
    intro k' h
    simp only [Pc.dRet.injEq, reduceCtorEq, or_false] at h; subst h
    rcases inv.doneVal k with h0 | h1
    · exact absurd h0 hd
    · exact h1
  | @gLoad1Set k hpc hd =>
    apply inv_pc (s1 := s.setPc t (.gRet k)) inv t (.gRet k) rfl rfl <;> try (intros; simp_all [Pc.inCall]; done)
    intro k' h
    simp only [Pc.gRet.injEq, reduceCtorEq, false_or] at h; subst h
    rcases inv.doneVal k with h0 | h1
    · exact absurd h0 hd
    · exact h1
  | @dLoad2Set k hpc hd =>
    apply inv_pc (s1 := s.setPc t (.dUnlock k)) inv t (.dUnlock k) rfl rfl <;> try (intros; simp_all [Pc.inCall]; done)
    intro k' h
    simp only [Pc.dUnlock.injEq] at h; subst h
    refine ⟨inv.load2Pt t k hpc, ?_⟩
    rcases inv.doneVal k with h0 | h1
    · exact absurd h0 hd
    · exact h1
  | @dLoad2Zero k hpc hd =>
    apply inv_pc (s1 := s.setPc t (.dFEnter k)) inv t (.dFEnter k) rfl rfl <;> try (intros; simp_all [Pc.inCall]; done)
    intro k' h
    simp only [Pc.dFEnter.injEq] at h; subst h
    have ho := inv.load2Pt t k hpc
    refine ⟨ho, hd, ?_⟩
    rcases inv.fresh k hd with h0 | ⟨t1, h1⟩
    · exact h0
    · exfalso
      have : (s.key k).owner = some t1 := by
        cases hp : s.pc t1 <;> rw [hp] at h1 <;> simp [Pc.inCall] at h1
        · subst h1; exact (inv.inFPt t1 _ _ hp).1
        · subst h1; exact (inv.writePt t1 _ _ hp).1
        · subst h1; exact (inv.storePt t1 _ hp).1
      rw [ho] at this
      have e : t = t1 := Option.some.inj this
      subst e
      rw [hpc] at h1; simp [Pc.inCall] at h1
  | dLos hpc => exact inv_key (c := c) inv (Step.dLos hpc) (Or.inl ⟨_, _, rfl⟩)
  | dLock hpc ho => exact inv_key (c := c) inv (Step.dLock hpc ho) (Or.inr (Or.inl ⟨_, rfl⟩))
  | fEnter hpc => exact inv_key (c := c) inv (Step.fEnter hpc) (Or.inr (Or.inr (Or.inl ⟨_, rfl⟩)))
  | fExit hpc => exact inv_key (c := c) inv (Step.fExit hpc) (Or.inr (Or.inr (Or.inr (Or.inl ⟨_, _, rfl⟩))))
  | write hpc => exact inv_key (c := c) inv (Step.write hpc) (Or.inr (Or.inr (Or.inr (Or.inr (Or.inl ⟨_, rfl⟩)))))
  | store hpc => exact inv_key (c := c) inv (Step.store hpc) (Or.inr (Or.inr (Or.inr (Or.inr (Or.inr (Or.inl ⟨_, _, rfl⟩))))))
  | unlock hpc ho => exact inv_key (c := c) inv (Step.unlock hpc ho) (Or.inr (Or.inr (Or.inr (Or.inr (Or.inr (Or.inr ⟨_, rfl⟩))))))

theorem inv_reach {c : Cfg} {s : State} (h : Reach c s) : Inv s := by
  induction h with
  | init => exact inv_init c
  | step _ hs ih => exact inv_step ih (step_sound hs)

/-- the values in flight are the ones the scenario's f produces: every value that f is about to return,
that is about to be written, or that a completed invocation returned for key `k` is `c.fval k 1`
(the value of the FIRST invocation; `none` for a nil key) -/
structure ValInv (c : Cfg) (s : State) : Prop where
  inFVal : ∀ (t : Nat) (k : Nat) v, s.pc t = .dInF k v → v = c.fval k 1
  writeVal : ∀ (t : Nat) (k : Nat) v, s.pc t = .dWrite k v → v = c.fval k 1
  fretVal : ∀ (k : Nat) v, (s.key k).fret = some v → v = c.fval k 1

theorem valinv_init (c : Cfg) : ValInv c (init0 c) := by
  refine ⟨?_, ?_, ?_⟩ <;> simp [init0, K0]

theorem valinv_step {c : Cfg} {s s' : State} {t : Nat} {e : Event} (inv : Inv s) (j : ValInv c s)
    (h : Step c s t e s') : ValInv c s' := by
  obtain ⟨j1, j2, j3⟩ := j
  have i3 := inv.fEnterPt
  cases h
  all_goals
    (refine ⟨?_, ?_, ?_⟩ <;> simp only [setPc_pc, setPc_key, setKey_pc, setKey_key] <;> grind)

theorem valinv_reach {c : Cfg} {s : State} (h : Reach c s) : ValInv c s := by
  induction h with
  | init => exact valinv_init c
  | step hr hs ih => exact valinv_step (inv_reach hr) ih (step_sound hs)

end GIV.ParCache
