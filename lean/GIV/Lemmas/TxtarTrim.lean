/-
  GIV.Lemmas.TxtarTrim — facts about the model of `strings.TrimSpace`:
  the result is an infix of the input, and trimming is idempotent.
-/
import GIV.Model.Txtar

namespace GIV.Txtar
open GIV

/-- A white-space pattern at the front is determined by the bytes it covers. -/
theorem spacePrefixLen_append (z t : Bytes) (h : spacePrefixLen z ≠ 0) :
    spacePrefixLen (z ++ t) = spacePrefixLen z := by
  revert h
  fun_cases spacePrefixLen z <;> intro h <;> first | exact absurd rfl h | simp [spacePrefixLen, *]

theorem spacePrefixLen_nil : spacePrefixLen [] = 0 := rfl
theorem spaceSuffixLenRev_nil : spaceSuffixLenRev [] = 0 := rfl

/-! ### trimLeft -/

theorem trimLeftAux_of_zero (n : Nat) {b : Bytes} (h : spacePrefixLen b = 0) : trimLeftAux n b = b := by
  cases n <;> simp [trimLeftAux, h]

theorem trimLeftAux_spec (n : Nat) (b : Bytes) (hn : b.length ≤ n) :
    spacePrefixLen (trimLeftAux n b) = 0 := by
  induction n generalizing b with
  | zero =>
    have : b = [] := by simpa using hn
    subst this; rfl
  | succ n ih =>
    unfold trimLeftAux
    split
    · assumption
    · apply ih
      simp only [List.length_drop]
      omega

theorem trimLeftAux_suffix (n : Nat) (b : Bytes) : trimLeftAux n b <:+ b := by
  induction n generalizing b with
  | zero => exact List.suffix_refl _
  | succ n ih =>
    unfold trimLeftAux
    split
    · exact List.suffix_refl _
    · exact (ih _).trans (List.drop_suffix _ _)

theorem trimLeft_spec (b : Bytes) : spacePrefixLen (trimLeft b) = 0 :=
  trimLeftAux_spec _ _ (Nat.le_refl _)

theorem trimLeft_suffix (b : Bytes) : trimLeft b <:+ b := trimLeftAux_suffix _ _

theorem trimLeft_of_zero {b : Bytes} (h : spacePrefixLen b = 0) : trimLeft b = b :=
  trimLeftAux_of_zero _ h

/-! ### trimRight -/

theorem trimRightRevAux_of_zero (n : Nat) {r : Bytes} (h : spaceSuffixLenRev r = 0) :
    trimRightRevAux n r = r := by
  cases n <;> simp [trimRightRevAux, h]

theorem trimRightRevAux_spec (n : Nat) (r : Bytes) (hn : r.length ≤ n) :
    spaceSuffixLenRev (trimRightRevAux n r) = 0 := by
  induction n generalizing r with
  | zero =>
    have : r = [] := by simpa using hn
    subst this; rfl
  | succ n ih =>
    unfold trimRightRevAux
    split
    · assumption
    · apply ih
      simp only [List.length_drop]
      omega

theorem trimRightRevAux_suffix (n : Nat) (r : Bytes) : trimRightRevAux n r <:+ r := by
  induction n generalizing r with
  | zero => exact List.suffix_refl _
  | succ n ih =>
    unfold trimRightRevAux
    split
    · exact List.suffix_refl _
    · exact (ih _).trans (List.drop_suffix _ _)

theorem trimRight_spec (b : Bytes) : spaceSuffixLenRev (trimRight b).reverse = 0 := by
  unfold trimRight
  rw [List.reverse_reverse]
  exact trimRightRevAux_spec _ _ (by simp)

theorem trimRight_prefix (b : Bytes) : trimRight b <+: b := by
  unfold trimRight
  have := trimRightRevAux_suffix b.length b.reverse
  have h2 := List.reverse_prefix.mpr this
  simpa using h2

theorem trimRight_of_zero {b : Bytes} (h : spaceSuffixLenRev b.reverse = 0) : trimRight b = b := by
  unfold trimRight
  rw [trimRightRevAux_of_zero _ h, List.reverse_reverse]

/-! ### trimSpace -/

theorem trimSpace_spec_left (b : Bytes) : spacePrefixLen (trimSpace b) = 0 := by
  unfold trimSpace
  obtain ⟨t, ht⟩ := trimRight_prefix (trimLeft b)
  have h0 := trimLeft_spec b
  rw [← ht] at h0
  by_cases h : spacePrefixLen (trimRight (trimLeft b)) = 0
  · exact h
  · rw [spacePrefixLen_append _ _ h] at h0
    exact h0

theorem trimSpace_spec_right (b : Bytes) : spaceSuffixLenRev (trimSpace b).reverse = 0 :=
  trimRight_spec _

theorem trimSpace_idem (b : Bytes) : trimSpace (trimSpace b) = trimSpace b := by
  have h1 := trimSpace_spec_left b
  have h2 := trimSpace_spec_right b
  generalize trimSpace b = z at h1 h2
  unfold trimSpace
  rw [trimLeft_of_zero h1, trimRight_of_zero h2]

theorem mem_of_mem_trimSpace {b : Bytes} {x : UInt8} (h : x ∈ trimSpace b) : x ∈ b := by
  unfold trimSpace at h
  exact (trimLeft_suffix b).subset ((trimRight_prefix _).subset h)

end GIV.Txtar
