/-
  C18 — the regenerated model, part 2: readString (the raw-string loop, the interpreted-string
  loop, `*save = append(*save, string(r.buf[start:]))`) of `GIV/Gen/ImportsReadGo.lean` against
  `GIV.Model.ReadImports`.  Continues `GIV.Lemmas.ImportsReadGo` in the same shape.
-/
import GIV.Lemmas.ImportsReadGo
import GIV.Lemmas.ImportsReadInv
import GIV.Lemmas.ImportsReadImps

namespace GIV.ReadGo
open GIV GIV.ReadImports GIV.GoLib GIV.Gen.Imports

/-! ### the buffer only grows -/

theorem buf_le_of_step {a b : St} (h : C18.Step a b) : a.buf.length ≤ b.buf.length := by
  have h1 := congrArg List.length (h.inv _ rfl)
  have h2 := h.len
  simp only [List.length_append, List.length_reverse] at h1
  omega

theorem buf_le_nextByte (sk : Bool) (st : St) : st.buf.length ≤ (nextByte sk st).2.buf.length :=
  buf_le_of_step (C18.step_nextByte sk st).1

theorem buf_syntaxError (st : St) : (syntaxError st).buf = st.buf := by
  unfold syntaxError; split <;> rfl

/-! ### the invariant `peek ≠ 0 → buf ≠ []` -/

/-- a byte that is held in `peek` has been read, so it is in `buf`. -/
def PeekBuf (st : St) : Prop := st.peek ≠ 0 → st.buf ≠ []

theorem pb_init (data : Bytes) : PeekBuf (St.init data) := fun h => absurd rfl h

theorem pb_of_step {a b : St} (h : C18.Step a b) (hp : b.peek = a.peek) (ha : PeekBuf a) : PeekBuf b :=
  fun hb => h.bufne (ha (hp ▸ hb))

theorem pb_readByte (st : St) (h : PeekBuf st) : PeekBuf (readByte st).2 := by
  refine pb_of_step (C18.step_readByte st).1 ?_ h
  unfold readByte
  cases st.rest with
  | nil => rfl
  | cons c r =>
    dsimp only
    split
    · split <;> rfl
    · rfl

theorem pb_syntaxError (st : St) (h : PeekBuf st) : PeekBuf (syntaxError st) := by
  refine pb_of_step (C18.step_syntaxError st).1 ?_ h
  unfold syntaxError; split <;> rfl

theorem pb_setStuck (st : St) (h : PeekBuf st) : PeekBuf (setStuck st) := h

theorem pb_saveFrom (start : Nat) (st : St) (h : PeekBuf st) : PeekBuf (saveFrom start st) := h

theorem pb_clearPeek (st : St) : PeekBuf { st with peek := 0 } := fun h => absurd rfl h

/-- a non-zero byte returned by readByte is in `buf`. -/
theorem readByte_ne_zero (st : St) (h : (readByte st).1 ≠ 0) : (readByte st).2.buf ≠ [] := by
  revert h
  unfold readByte
  cases st.rest with
  | nil => exact fun h => absurd rfl h
  | cons c r =>
    dsimp only
    intro h
    split
    · rename_i hc; rw [if_pos hc] at h; exact absurd rfl h
    · exact List.cons_ne_nil _ _

theorem skipLoop_ne_zero (sk : Bool) : ∀ (n : Nat) (c : UInt8) (st : St), (c ≠ 0 → st.buf ≠ []) →
    (skipLoop sk n c st).1 ≠ 0 → (skipLoop sk n c st).2.buf ≠ [] := by
  intro n
  induction n with
  | zero =>
    intro c st h h0
    unfold skipLoop at h0 ⊢
    dsimp only at h0 ⊢
    split
    · exact h h0
    · exact h h0
  | succ n ih =>
    intro c st h h0
    unfold skipLoop at h0 ⊢
    split at h0 <;> rename_i h1
    · rw [if_pos h1]
      split at h0 <;> rename_i h2
      · rw [if_pos h2]
        exact ih _ _ (readByte_ne_zero _) h0
      · rw [if_neg h2]
        split at h0 <;> rename_i h3
        · rw [if_pos h3]
          exact ih _ _ (readByte_ne_zero _) h0
        · rw [if_neg h3]; exact h h0
    · rw [if_neg h1]; exact h h0

/-- a non-zero byte returned by peekByte is in `buf`. -/
theorem peekByte_ne_zero (sk : Bool) (st : St) (hp : PeekBuf st) (h : (peekByte sk st).1 ≠ 0) :
    (peekByte sk st).2.buf ≠ [] := by
  unfold peekByte at h ⊢
  split at h <;> rename_i he
  · exact absurd rfl h
  · rw [if_neg he]
    dsimp only at h ⊢
    refine skipLoop_ne_zero sk _ _ _ ?_ h
    by_cases h0 : st.peek = 0
    · rw [if_pos h0]; exact readByte_ne_zero st
    · rw [if_neg h0]; exact fun _ => hp h0

theorem nextByte_ne_zero (sk : Bool) (st : St) (hp : PeekBuf st) (h : (nextByte sk st).1 ≠ 0) :
    (nextByte sk st).2.buf ≠ [] :=
  peekByte_ne_zero sk st hp h

theorem pb_peekByte (sk : Bool) (st : St) (h : PeekBuf st) : PeekBuf (peekByte sk st).2 := by
  intro h0
  have e : (peekByte sk st).2.peek = (peekByte sk st).1 ∨ (st.err.isSome = true) := by
    unfold peekByte
    by_cases he : st.err.isSome = true
    · exact Or.inr he
    · rw [if_neg he]; exact Or.inl rfl
  rcases e with e | he
  · exact peekByte_ne_zero sk st h (e ▸ h0)
  · unfold peekByte at h0 ⊢
    rw [if_pos he] at h0 ⊢
    exact h h0

/-- nextByte clears `peek`: the invariant holds afterwards whatever the state before. -/
theorem pb_nextByte_any (sk : Bool) (st : St) : PeekBuf (nextByte sk st).2 := fun h => absurd rfl h

theorem pb_nextByte (sk : Bool) (st : St) (_ : PeekBuf st) : PeekBuf (nextByte sk st).2 := pb_nextByte_any sk st

theorem pb_rawLoop : ∀ (n start : Nat) (st : St), PeekBuf st → PeekBuf (rawLoop n start st) := by
  intro n
  induction n with
  | zero =>
    intro start st h
    unfold rawLoop
    split
    · exact h
    · exact h
  | succ n ih =>
    intro start st h
    unfold rawLoop
    split
    · dsimp only
      split
      · exact pb_saveFrom _ _ (pb_nextByte_any _ _)
      · refine ih _ _ ?_
        split
        · exact pb_syntaxError _ (pb_nextByte_any _ _)
        · exact pb_nextByte_any _ _
    · exact h

theorem pb_strLoop : ∀ (n start : Nat) (st : St), PeekBuf st → PeekBuf (strLoop n start st) := by
  intro n
  induction n with
  | zero =>
    intro start st h
    unfold strLoop
    split
    · exact h
    · exact h
  | succ n ih =>
    intro start st h
    unfold strLoop
    split
    · dsimp only
      split
      · exact pb_saveFrom _ _ (pb_nextByte_any _ _)
      · refine ih _ _ ?_
        have h1 : PeekBuf (if ((nextByte false st).2.eof || decide ((nextByte false st).1 = 10)) = true
            then syntaxError (nextByte false st).2 else (nextByte false st).2) := by
          split
          · exact pb_syntaxError _ (pb_nextByte_any _ _)
          · exact pb_nextByte_any _ _
        generalize (if ((nextByte false st).2.eof || decide ((nextByte false st).1 = 10)) = true
            then syntaxError (nextByte false st).2 else (nextByte false st).2) = st1 at h1 ⊢
        by_cases h92 : (nextByte false st).1 = 92
        · rw [if_pos h92]
          split
          · exact pb_syntaxError _ (pb_nextByte_any _ _)
          · exact pb_nextByte_any _ _
        · rw [if_neg h92]; exact h1
    · exact h

theorem pb_readString_any (st : St) : PeekBuf (readString st) := by
  unfold readString
  dsimp only
  split
  · exact pb_rawLoop _ _ _ (pb_nextByte_any _ _)
  · split
    · exact pb_strLoop _ _ _ (pb_nextByte_any _ _)
    · exact pb_syntaxError _ (pb_nextByte_any _ _)

theorem pb_readString (st : St) (_ : PeekBuf st) : PeekBuf (readString st) := pb_readString_any st

/-! ### `*save = append(*save, string(r.buf[start:]))` -/

theorem slice_buf (buf : Bytes) (start : Nat) (hs : start ≤ buf.length) :
    slice? buf.reverse (start : Int) (len buf.reverse) = some (buf.take (buf.length - start)).reverse := by
  unfold slice? len
  have h1 : (0 : Int) ≤ (start : Int) ∧ (start : Int) ≤ ((buf.reverse.length : Nat) : Int) ∧
      ((buf.reverse.length : Nat) : Int) ≤ ((buf.reverse.length : Nat) : Int) := by
    rw [List.length_reverse]; omega
  rw [if_pos h1]
  have h2 : buf.length - (buf.length - start) = start := by omega
  have h3 : List.take buf.length buf.reverse = buf.reverse := by
    rw [← List.length_reverse]; exact List.take_length
  simp [List.reverse_take, h2, h3]

theorem ok_saveFrom (start : Nat) (st : St) : OK (saveFrom start st) ↔ OK st := Iff.rfl

theorem ofSt_saveFrom (start : Nat) (st : St) : ofSt (saveFrom start st) = ofSt st := rfl

/-- the `if save != nil { *save = append(*save, string(r.buf[start:])) }` block. -/
theorem save_go (start : Nat) (st : St) (imps : List Bytes) (hi : st.imports = imps) (hs : start ≤ st.buf.length) :
    ((if (some imps).isSome = true then
        (slice? (ofSt st).buf (start : Int) (len (ofSt st).buf)).bind fun t4 => pure (some (imps ++ [t4]))
      else pure (some imps)) : Option (Option (List Bytes))) = some (some (saveFrom start st).imports) := by
  subst hi
  rw [ofSt_buf, slice_buf _ _ hs]; rfl

/-- `if r.eof { r.syntaxError() }` -/
def eofErr (st : St) : St := if st.eof then syntaxError st else st

theorem ok_eofErr (st : St) : OK (eofErr st) ↔ OK st := by
  unfold eofErr; split
  · exact ok_syntaxError st
  · exact Iff.rfl

theorem buf_eofErr (st : St) : (eofErr st).buf = st.buf := by
  unfold eofErr; split
  · exact buf_syntaxError st
  · rfl

theorem imports_eofErr (st : St) : (eofErr st).imports = st.imports := by
  unfold eofErr; split
  · exact imports_syntaxError st
  · rfl

theorem eofErr_go (st : St) :
    ((if (ofSt st).eof = true then Go.Read.syntaxError (ofSt st) else pure (ofSt st)) : Option GR) =
      some (ofSt (eofErr st)) := by
  unfold eofErr
  rw [ofSt_eof]
  by_cases he : st.eof = true
  · simp [he, syntaxError_eq]
  · simp [he]

/-! ### the raw-string loop -/

theorem rawLoop_go (tag : UInt8) (start : Nat) : ∀ (n : Nat) (st : St), start ≤ st.buf.length →
    OK (rawLoop n start st) →
    OK st ∧ Go.Read.readString_loop1 tag (start : Int) (n + 1) (ofSt st) (some st.imports) =
      some (ofSt (rawLoop n start st), some (rawLoop n start st).imports) := by
  intro n
  induction n with
  | zero =>
    intro st hs h
    have hg : ((ofSt st).err == none) = st.err.isNone := by rw [ofSt_err, errGo_eq_none]
    unfold rawLoop at h ⊢
    unfold Go.Read.readString_loop1
    rw [hg]
    by_cases hc : st.err.isNone = true
    · rw [if_pos hc] at h; exact absurd h (not_ok_setStuck st)
    · rw [if_neg hc] at h ⊢
      refine ⟨h, ?_⟩
      simp only [Bool.not_eq_true] at hc
      rw [hc]; rfl
  | succ n ih =>
    intro st hs h
    have hg : ((ofSt st).err == none) = st.err.isNone := by rw [ofSt_err, errGo_eq_none]
    unfold rawLoop at h ⊢
    unfold Go.Read.readString_loop1
    rw [hg]
    by_cases hc : st.err.isNone = true
    · simp only [if_pos hc] at h ⊢
      rw [hc]
      have hb := buf_le_nextByte false st
      have hi := imports_nextByte false st
      generalize hr : nextByte false st = r at h hb hi ⊢
      obtain ⟨b, st'⟩ := r
      dsimp only at h hb hi ⊢
      by_cases h96 : b = 96
      · simp only [if_pos h96] at h ⊢
        have h0 : OK (nextByte false st).2 := by rw [hr]; exact h
        obtain ⟨h1, h2⟩ := nextByte_go false st h0
        rw [hr] at h2
        refine ⟨h1, ?_⟩
        rw [h2]
        simp only [Bool.not_true, Bool.false_eq_true, if_false, Option.bind_eq_bind, Option.bind_some, h96,
          beq_self_eq_true, if_true]
        rw [save_go start st' st.imports hi (Nat.le_trans hs hb)]
        rfl
      · simp only [if_neg h96] at h ⊢
        have h3 := ih (eofErr st') (by rw [buf_eofErr]; exact Nat.le_trans hs hb) h
        rw [ok_eofErr, imports_eofErr, hi] at h3
        obtain ⟨h4, h5⟩ := h3
        have h0 : OK (nextByte false st).2 := by rw [hr]; exact h4
        obtain ⟨h1, h2⟩ := nextByte_go false st h0
        rw [hr] at h2
        refine ⟨h1, ?_⟩
        rw [h2]
        have h96' : (b == 96) = false := by simpa using h96
        simp only [Bool.not_true, Bool.false_eq_true, if_false, Option.bind_eq_bind, Option.bind_some, h96']
        rw [eofErr_go]
        simp only [Option.bind_some]
        exact h5
    · rw [if_neg hc] at h ⊢
      refine ⟨h, ?_⟩
      simp only [Bool.not_eq_true] at hc
      rw [hc]; rfl

/-! ### the interpreted-string loop -/

/-- `if r.eof || c == '\n' { r.syntaxError() }` -/
def nlErr (c : UInt8) (st : St) : St := if st.eof || c = 10 then syntaxError st else st

theorem ok_nlErr (c : UInt8) (st : St) : OK (nlErr c st) ↔ OK st := by
  unfold nlErr; split
  · exact ok_syntaxError st
  · exact Iff.rfl

theorem buf_nlErr (c : UInt8) (st : St) : (nlErr c st).buf = st.buf := by
  unfold nlErr; split
  · exact buf_syntaxError st
  · rfl

theorem imports_nlErr (c : UInt8) (st : St) : (nlErr c st).imports = st.imports := by
  unfold nlErr; split
  · exact imports_syntaxError st
  · rfl

theorem nlErr_go (c : UInt8) (st : St) :
    ((if ((ofSt st).eof || (c == 10)) = true then Go.Read.syntaxError (ofSt st) else pure (ofSt st)) : Option GR) =
      some (ofSt (nlErr c st)) := by
  unfold nlErr
  rw [ofSt_eof, beq_dec]
  by_cases he : (st.eof || decide (c = 10)) = true
  · rw [if_pos he, if_pos he, syntaxError_eq]
  · rw [if_neg he, if_neg he]; rfl

/-- `if c == '\\' { if r.nextByte(false) == '\n' { r.syntaxError() } }` -/
def escStep (c : UInt8) (st : St) : St :=
  if c = 92 then
    if escapedNewlineIsError && (nextByte false st).1 = 10 then syntaxError (nextByte false st).2
    else (nextByte false st).2
  else st

theorem buf_le_escStep (c : UInt8) (st : St) : st.buf.length ≤ (escStep c st).buf.length := by
  unfold escStep
  split
  · split
    · rw [buf_syntaxError]; exact buf_le_nextByte false st
    · exact buf_le_nextByte false st
  · exact Nat.le_refl _

theorem imports_escStep (c : UInt8) (st : St) : (escStep c st).imports = st.imports := by
  unfold escStep
  split
  · split
    · rw [imports_syntaxError, imports_nextByte]
    · exact imports_nextByte false st
  · rfl

theorem escStep_go (c : UInt8) (st : St) (h : OK (escStep c st)) :
    OK st ∧ ((if (c == 92) = true then
        (Go.Read.nextByte (ofSt st) false).bind fun x =>
          if (x.fst == 10) = true then Go.Read.syntaxError x.snd else pure x.snd
      else pure (ofSt st)) : Option GR) = some (ofSt (escStep c st)) := by
  unfold escStep at h ⊢
  by_cases h92 : c = 92
  · rw [if_pos h92] at h ⊢
    have h92' : (c == 92) = true := by simpa using h92
    rw [if_pos h92']
    unfold escapedNewlineIsError at h ⊢
    rw [Bool.true_and] at h ⊢
    by_cases h10 : (nextByte false st).1 = 10
    · have hd : decide ((nextByte false st).1 = 10) = true := by simpa using h10
      rw [if_pos hd] at h ⊢
      obtain ⟨h1, h2⟩ := nextByte_go false st ((ok_syntaxError _).1 h)
      refine ⟨h1, ?_⟩
      rw [h2]
      simp only [Option.bind_some, h10, beq_self_eq_true, if_true]
      exact syntaxError_eq _
    · have hd : ¬ decide ((nextByte false st).1 = 10) = true := by simpa using h10
      rw [if_neg hd] at h ⊢
      obtain ⟨h1, h2⟩ := nextByte_go false st h
      refine ⟨h1, ?_⟩
      rw [h2]
      have hb : ((nextByte false st).1 == 10) = false := by simpa using h10
      simp only [Option.bind_some, hb, Bool.false_eq_true, if_false]
      rfl
  · rw [if_neg h92] at h ⊢
    have h92' : ¬ (c == 92) = true := by simpa using h92
    rw [if_neg h92']
    exact ⟨h, rfl⟩

theorem strLoop_go (tag : UInt8) (start : Nat) : ∀ (n : Nat) (st : St), start ≤ st.buf.length →
    OK (strLoop n start st) →
    OK st ∧ Go.Read.readString_loop2 tag (start : Int) (n + 1) (ofSt st) (some st.imports) =
      some (ofSt (strLoop n start st), some (strLoop n start st).imports) := by
  intro n
  induction n with
  | zero =>
    intro st hs h
    have hg : ((ofSt st).err == none) = st.err.isNone := by rw [ofSt_err, errGo_eq_none]
    unfold strLoop at h ⊢
    unfold Go.Read.readString_loop2
    rw [hg]
    by_cases hc : st.err.isNone = true
    · rw [if_pos hc] at h; exact absurd h (not_ok_setStuck st)
    · rw [if_neg hc] at h ⊢
      refine ⟨h, ?_⟩
      simp only [Bool.not_eq_true] at hc
      rw [hc]; rfl
  | succ n ih =>
    intro st hs h
    have hg : ((ofSt st).err == none) = st.err.isNone := by rw [ofSt_err, errGo_eq_none]
    unfold strLoop at h ⊢
    unfold Go.Read.readString_loop2
    rw [hg]
    by_cases hc : st.err.isNone = true
    · simp only [if_pos hc] at h ⊢
      rw [hc]
      have hb := buf_le_nextByte false st
      have hi := imports_nextByte false st
      generalize hr : nextByte false st = r at h hb hi ⊢
      obtain ⟨b, st'⟩ := r
      dsimp only at h hb hi ⊢
      by_cases h34 : b = 34
      · simp only [if_pos h34] at h ⊢
        have h0 : OK (nextByte false st).2 := by rw [hr]; exact h
        obtain ⟨h1, h2⟩ := nextByte_go false st h0
        rw [hr] at h2
        refine ⟨h1, ?_⟩
        rw [h2]
        simp only [Bool.not_true, Bool.false_eq_true, if_false, Option.bind_eq_bind, Option.bind_some, h34,
          beq_self_eq_true, if_true]
        rw [save_go start st' st.imports hi (Nat.le_trans hs hb)]
        rfl
      · simp only [if_neg h34] at h ⊢
        have h' : OK (strLoop n start (escStep b (nlErr b st'))) := h
        have h3 := ih (escStep b (nlErr b st'))
          (Nat.le_trans (Nat.le_trans hs hb) (by have := buf_le_escStep b (nlErr b st'); rw [buf_nlErr] at this; exact this)) h'
        rw [imports_escStep, imports_nlErr, hi] at h3
        obtain ⟨h4, h5⟩ := h3
        have h34' : (b == 34) = false := by simpa using h34
        simp only [Bool.not_true, Bool.false_eq_true, if_false, Option.bind_eq_bind, Option.bind_some]
        obtain ⟨h6, h7⟩ := escStep_go b (nlErr b st') h4
        rw [ok_nlErr] at h6
        have h0 : OK (nextByte false st).2 := by rw [hr]; exact h6
        obtain ⟨h1, h2⟩ := nextByte_go false st h0
        rw [hr] at h2
        refine ⟨h1, ?_⟩
        rw [h2]
        simp only [Option.bind_some, h34', Bool.false_eq_true, if_false]
        rw [nlErr_go]
        simp only [Option.bind_some]
        rw [h7]
        simp only [Option.bind_some]
        exact h5
    · rw [if_neg hc] at h ⊢
      refine ⟨h, ?_⟩
      simp only [Bool.not_eq_true] at hc
      rw [hc]; rfl

/-! ### readString -/

theorem start_eq (st : St) (h : st.buf ≠ []) :
    len (ofSt st).buf - 1 = ((st.buf.length - 1 : Nat) : Int) := by
  have : 1 ≤ st.buf.length := List.length_pos_iff.mpr h
  unfold len
  rw [ofSt_buf, List.length_reverse]
  omega

/-- `readString(save)` with `save != nil`; `hp` holds in every state the reader reaches from `St.init`
(`pb_init`, `pb_readByte`, `pb_peekByte`, …). -/
theorem readString_go (st : St) (hp : PeekBuf st) (h : OK (readString st)) :
    OK st ∧ Go.Read.readString (ofSt st) (some st.imports) =
      some (ofSt (readString st), some (readString st).imports) := by
  unfold readString at h ⊢
  unfold Go.Read.readString
  have hi := imports_nextByte true st
  have hn := nextByte_ne_zero true st hp
  generalize hr : nextByte true st = r at h hi hn ⊢
  obtain ⟨b, st'⟩ := r
  dsimp only at h hi hn ⊢
  have e2 : List.length (ofSt st').b + 3 = List.length st'.rest + 2 + 1 := rfl
  by_cases h96 : b = 96
  · simp only [if_pos h96] at h ⊢
    have hne : st'.buf ≠ [] := hn (by rw [h96]; decide)
    obtain ⟨h3, h4⟩ := rawLoop_go b (st'.buf.length - 1) _ st' (Nat.sub_le _ _) h
    have h0 : OK (nextByte true st).2 := by rw [hr]; exact h3
    obtain ⟨h1, h2⟩ := nextByte_go true st h0
    rw [hr] at h2
    refine ⟨h1, ?_⟩
    rw [h2]
    have hb : (b == 96) = true := by simpa using h96
    simp only [Option.bind_eq_bind, Option.bind_some, hb, if_true]
    rw [start_eq st' hne, e2, ← hi]
    exact h4
  · simp only [if_neg h96] at h ⊢
    have hb : (b == 96) = false := by simpa using h96
    by_cases h34 : b = 34
    · simp only [if_pos h34] at h ⊢
      have hne : st'.buf ≠ [] := hn (by rw [h34]; decide)
      obtain ⟨h3, h4⟩ := strLoop_go b (st'.buf.length - 1) _ st' (Nat.sub_le _ _) h
      have h0 : OK (nextByte true st).2 := by rw [hr]; exact h3
      obtain ⟨h1, h2⟩ := nextByte_go true st h0
      rw [hr] at h2
      refine ⟨h1, ?_⟩
      rw [h2]
      have hb2 : (b == 34) = true := by simpa using h34
      simp only [Option.bind_eq_bind, Option.bind_some, hb, hb2, if_true, Bool.false_eq_true, if_false]
      rw [start_eq st' hne, e2, ← hi]
      exact h4
    · simp only [if_neg h34] at h ⊢
      have hb2 : (b == 34) = false := by simpa using h34
      have h0 : OK (nextByte true st).2 := by rw [hr]; exact (ok_syntaxError _).1 h
      obtain ⟨h1, h2⟩ := nextByte_go true st h0
      rw [hr] at h2
      refine ⟨h1, ?_⟩
      rw [h2]
      simp only [Option.bind_eq_bind, Option.bind_some, hb, hb2, Bool.false_eq_true, if_false, syntaxError_eq]
      rw [imports_syntaxError, hi]
      rfl

end GIV.ReadGo
