/-
  GIV.Lemmas.DiffGoTgsA — the Go→Lean translation of `tgs` (GIV.Gen.DiffGo), first half: the two counting loops
  over the `map[string]int` and the two gathering loops equal the model's `countX countY gatherY gatherX`
  (the Go map `GoLib.StrIntMap` IS the model's association list `Map Bytes`).
-/
import GIV.Lemmas.DiffGoBase

namespace GIV.Go.Diff
open GIV GIV.GoLib GIV.Diff

theorem mapGet?_eq_mget (m : GoLib.StrIntMap) (s : Bytes) : GoLib.mapGet? m s = mget m s := by
  induction m with
  | nil => rfl
  | cons p r ih =>
    cases p with
    | mk k v => simp only [GoLib.mapGet?, mget, ih]

theorem mapGet_eq_mget (m : GoLib.StrIntMap) (s : Bytes) : GoLib.mapGet m s = (mget m s).getD 0 := by
  simp only [GoLib.mapGet, mapGet?_eq_mget]

theorem mapHas_eq_mget (m : GoLib.StrIntMap) (s : Bytes) : GoLib.mapHas m s = (mget m s).isSome := by
  simp only [GoLib.mapHas, mapGet?_eq_mget]

theorem mapSet_eq_mset (m : GoLib.StrIntMap) (s : Bytes) (v : Int) : GoLib.mapSet m s v = mset m s v := rfl

theorem tgs_loop1_eq (x y l : List Bytes) (m : GoLib.StrIntMap) :
    tgs_loop1 x y l m = tgs_after1 x y (countX l m) := by
  induction l generalizing m with
  | nil => rfl
  | cons s r ih =>
    simp only [tgs_loop1, countX, mapGet_eq_mget, mapSet_eq_mset, Gen.Diff.cntXCond, Gen.Diff.cntXUpd]
    by_cases h : (mget m s).getD 0 > -2
    · simp [h, ih]
    · simp [h, ih]

theorem tgs_loop2_eq (x y l : List Bytes) (m : GoLib.StrIntMap) :
    tgs_loop2 x y l m = tgs_after2 x y (countY l m) := by
  induction l generalizing m with
  | nil => rfl
  | cons s r ih =>
    simp only [tgs_loop2, countY, mapGet_eq_mget, mapSet_eq_mset, Gen.Diff.cntYCond, Gen.Diff.cntYUpd]
    by_cases h : (mget m s).getD 0 > -8
    · simp [h, ih]
    · simp [h, ih]

theorem tgs_loop3_eq (x y : List Bytes) (xi inv : List Int) (l : List Bytes) (i : Nat) (m : GoLib.StrIntMap) (yi : Array Nat) :
    tgs_loop3 x y xi inv l (i : Int) m (ints yi) =
      tgs_after3 x y (gatherY l i m yi).1 xi (ints (gatherY l i m yi).2) inv := by
  induction l generalizing i m yi with
  | nil => rfl
  | cons s r ih =>
    have hi : ((i : Int) + 1) = ((i + 1 : Nat) : Int) := by omega
    simp only [tgs_loop3, gatherY, mapGet_eq_mget, mapSet_eq_mset, Gen.Diff.isUniqueCode, len_ints, hi]
    by_cases h : (mget m s).getD 0 = -1 + -4
    · simp only [h, decide_true, if_true, beq_self_eq_true, ← ints_push]
      exact ih (i + 1) _ _
    · have h' : ((mget m s).getD 0 == -1 + -4) = false := by simpa using h
      simp only [h, h', decide_false, if_false, Bool.false_eq_true]
      exact ih (i + 1) _ _

theorem tgs_loop4_eq (x y : List Bytes) (m : GoLib.StrIntMap) (yi : List Int) (l : List Bytes) (i : Nat) (xi inv : Array Nat) :
    tgs_loop4 x y m yi l (i : Int) (ints xi) (ints inv) =
      tgs_after4 x y m (ints (gatherX l i m xi inv).1) yi (ints (gatherX l i m xi inv).2) := by
  induction l generalizing i xi inv with
  | nil => rfl
  | cons s r ih =>
    have hi : ((i : Int) + 1) = ((i + 1 : Nat) : Int) := by omega
    simp only [tgs_loop4, gatherX, mapGet_eq_mget, mapHas_eq_mget, hi]
    cases hm : mget m s with
    | none =>
      simp only [Option.isSome_none, Bool.false_and, Bool.false_eq_true, if_false]
      exact ih (i + 1) _ _
    | some j =>
      by_cases h : j ≥ 0
      · have hj : ((j.toNat : Nat) : Int) = j := Int.toNat_of_nonneg h
        simp only [Option.isSome_some, Option.getD_some, Bool.true_and, h, decide_true, if_true]
        have := ih (i + 1) (xi.push i) (inv.push j.toNat)
        rw [ints_push, ints_push, hj] at this
        exact this
      · simp only [Option.isSome_some, Option.getD_some, Bool.true_and, h, decide_false, Bool.false_eq_true, if_false]
        exact ih (i + 1) _ _

/-- `xi` and `inv` grow together -/
theorem gatherX_sizes (l : List Bytes) (i : Nat) (m : GoLib.StrIntMap) (xi inv : Array Nat) (h : inv.size = xi.size) :
    (gatherX l i m xi inv).2.size = (gatherX l i m xi inv).1.size := by
  induction l generalizing i xi inv with
  | nil => exact h
  | cons s r ih =>
    simp only [gatherX]
    split
    · split
      · exact ih _ _ _ (by simp only [Array.size_push, h])
      · exact ih _ _ _ h
    · exact ih _ _ _ h

/-- the translated `tgs` up to the point where the index slices are built -/
theorem tgs_front_eq (x y : List Bytes) :
    GIV.Go.Diff.tgs x y =
      tgs_after4 x y (gatherY y 0 (countY y (countX x [])) #[]).1
        (ints (gatherX x 0 (gatherY y 0 (countY y (countX x [])) #[]).1 #[] #[]).1)
        (ints (gatherY y 0 (countY y (countX x [])) #[]).2)
        (ints (gatherX x 0 (gatherY y 0 (countY y (countX x [])) #[]).1 #[] #[]).2) := by
  have h3 := tgs_loop3_eq x y [] [] y 0 (countY y (countX x [])) #[]
  have h4 := tgs_loop4_eq x y (gatherY y 0 (countY y (countX x [])) #[]).1
    (ints (gatherY y 0 (countY y (countX x [])) #[]).2) x 0 #[] #[]
  simp only [ints_empty, Int.natCast_zero] at h3 h4
  simp only [tgs, GoLib.mapEmpty, tgs_loop1_eq, tgs_after1, tgs_loop2_eq, tgs_after2, h3, tgs_after3, h4]

end GIV.Go.Diff
