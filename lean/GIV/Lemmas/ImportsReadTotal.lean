/-
  C18 — consequences of the invariants for arbitrary input bytes: no panic, the returned bytes are a
  prefix of the input, and after an unreported syntax error the whole input is returned.
-/
import GIV.Lemmas.ImportsReadInv

namespace GIV.C18
open GIV GIV.ReadImports GIV.Gen.Imports

theorem scan_panicked (d : Bytes) : (scan d).panicked = false := by
  have h := step_scan d
  cases hp : (scan d).panicked with
  | false => rfl
  | true =>
    rcases h.1.pan hp with h1 | h1
    · simp [St.init] at h1
    · have h2 := h.2
      have hl : nerrLimit = 10000 := rfl
      simp only [St.init] at h2
      omega

/-- something has been read, or the input is over, or an error is pending. -/
def Started (st : St) : Prop := st.buf ≠ [] ∨ st.eof = true ∨ st.err ≠ none

theorem Started.step {a b : St} (h : Started a) (hs : Step a b) : Started b := by
  rcases h with h | h | h
  · exact Or.inl (hs.bufne h)
  · exact Or.inr (Or.inl (hs.eof h))
  · exact Or.inr (Or.inr (by rw [hs.err h]; exact h))

theorem started_readByte (st : St) : Started (readByte st).2 := by
  unfold readByte
  cases st.rest with
  | nil => exact Or.inr (Or.inl rfl)
  | cons c r =>
    by_cases hc : c = 0
    · by_cases he : st.err.isNone = true
      · left; simp [hc, he]
      · left; simp [hc, he]
    · left; simp [hc]

/-- readKeyword after its first peekByte. -/
def kwRest (kw : Bytes) (st1 : St) : St :=
  let r := kwLoop kw st1
  if r.2 then
    let p := peekByte false r.1
    if isIdent p.1 then syntaxError p.2 else p.2
  else r.1

theorem readKeyword_eq (kw : Bytes) (st : St) : readKeyword kw st = kwRest kw (peekByte true st).2 := rfl

theorem step_kwRest (kw : Bytes) (a : St) : StepN (kw.length + 1) a (kwRest kw a) := by
  unfold kwRest
  simp only
  have h1 := step_kwLoop kw a
  split
  · split
    · exact ((h1.trans (step_peekByte false _)).trans (step_syntaxError _)).mono (by omega)
    · exact (h1.trans (step_peekByte false _)).mono (by omega)
  · exact h1.mono (by omega)

theorem started_first_peek (d : Bytes) : Started (peekByte true (St.init d)).2 := by
  unfold peekByte
  simp only [St.init, Option.isSome_none, Bool.false_eq_true, if_false, if_true]
  have h0 := started_readByte (St.init d)
  simp only [St.init] at h0
  exact (h0.step (step_skipLoop true _ _ _).1).step (step_setPeek _ _).1

theorem scan_started (d : Bytes) : Started (scan d) := by
  unfold scan
  simp only
  rw [readKeyword_eq]
  exact (((started_first_peek d).step (step_kwRest _ _).1).step (step_readIdent _).1).step (step_declLoop _ _).1

theorem scan_inv (d : Bytes) : (scan d).buf.reverse ++ (scan d).rest = d :=
  (step_scan d).1.inv d (by simp [St.init])

theorem scan_good (d : Bytes) : (scan d).eof = true → (scan d).rest = [] :=
  (step_scan d).1.good (by simp [St.init])

/-- the state after the final read-everything loop. -/
def drained (st : St) : St := drain (st.rest.length + 1) { st with err := none }

/-- the three ways ReadImports ends. -/
theorem finish_cases (r : Bool) (st : St) (hp : st.panicked = false) :
    (st.err = none ∧ st.eof = false ∧
      ((st.buf = [] ∧ finish r st = .panic) ∨
       ∃ x t, st.buf = x :: t ∧ finish r st = if st.stuck then .stuck else .ok st.imports t.reverse none)) ∨
    (¬(st.err = none ∧ st.eof = false) ∧ st.err = some .syntax ∧ r = false ∧
      finish r st = if (drained st).stuck then .stuck
        else .ok (drained st).imports (drained st).buf.reverse (drained st).err) ∨
    (¬(st.err = none ∧ st.eof = false) ∧ ¬(st.err = some .syntax ∧ r = false) ∧
      finish r st = if st.stuck then .stuck else .ok st.imports st.buf.reverse st.err) := by
  have h1 : dropsLastByte = true := rfl
  have h2 : consumesWholeOnSyntax = true := rfl
  by_cases hA : st.err = none ∧ st.eof = false
  · left
    refine ⟨hA.1, hA.2, ?_⟩
    cases hb : st.buf with
    | nil => left; simp [finish, hp, hA.1, hA.2, h1, hb]
    | cons x t => right; exact ⟨x, t, rfl, by simp [finish, hp, hA.1, hA.2, h1, hb]⟩
  · right
    have hcond : (st.err.isNone && !st.eof) = false := by
      cases he : st.err <;> cases hf : st.eof <;> simp_all
    by_cases hB : st.err = some .syntax ∧ r = false
    · left
      refine ⟨hA, hB.1, hB.2, ?_⟩
      simp [finish, hp, hcond, hB.1, hB.2, h2, drained]
    · right
      refine ⟨hA, hB, ?_⟩
      have : (decide (st.err = some Err.syntax) && !r && consumesWholeOnSyntax) = false := by
        rw [h2]
        cases r <;> simp_all
      simp [finish, hp, hcond, this]

/-- ReadImports never panics: neither the "import reader looping" panic of peekByte (the error-state
counter stays below 30, far from `nerrLimit`) nor the slice `r.buf[:len(r.buf)-1]`. -/
theorem readImports_no_panic (d : Bytes) (report : Bool) : readImports d report ≠ .panic := by
  unfold readImports
  rcases finish_cases report (scan (stripBOM d)) (scan_panicked _) with
    ⟨he, hf, (⟨hb, _⟩ | ⟨x, t, _, h⟩)⟩ | ⟨_, _, _, h⟩ | ⟨_, _, h⟩
  · exfalso
    rcases scan_started (stripBOM d) with h | h | h
    · exact h hb
    · rw [hf] at h; cases h
    · exact h he
  · rw [h]; split <;> simp
  · rw [h]; split <;> simp
  · rw [h]; split <;> simp

/-- the bytes ReadImports returns are a prefix of its input, the byte-order mark aside. -/
theorem readImports_prefix (d : Bytes) (report : Bool) (imps : List Bytes) (buf : Bytes) (err : Option Err)
    (h : readImports d report = .ok imps buf err) : buf <+: stripBOM d := by
  have hinv := scan_inv (stripBOM d)
  have hp := scan_panicked (stripBOM d)
  unfold readImports at h
  generalize stripBOM d = data at *
  generalize scan data = st at *
  rcases finish_cases report st hp with
    ⟨_, _, (⟨_, h2⟩ | ⟨x, t, hb, h2⟩)⟩ | ⟨_, _, _, h2⟩ | ⟨_, _, h2⟩
  · rw [h2] at h; cases h
  · rw [h2] at h
    split at h
    · cases h
    · simp only [Outcome.ok.injEq] at h
      rw [hb] at hinv
      refine ⟨x :: st.rest, ?_⟩
      rw [← h.2.1, ← hinv]
      simp
  · rw [h2] at h
    split at h
    · cases h
    · simp only [Outcome.ok.injEq] at h
      have hd := (step_drain (st.rest.length + 1) { st with err := none }).1.inv data hinv
      exact ⟨(drained st).rest, by rw [← h.2.1]; exact hd⟩
  · rw [h2] at h
    split at h
    · cases h
    · simp only [Outcome.ok.injEq] at h
      exact ⟨st.rest, by rw [← h.2.1]; exact hinv⟩

/-- the final loop reads a NUL-free rest to the end. -/
theorem drain_all : ∀ (rest : Bytes) (n : Nat) (st : St), st.rest = rest → st.err = none →
    (st.eof = true → st.rest = []) → rest.all (· ≠ 0) = true → rest.length + 1 ≤ n →
    (drain n st).err = none ∧ (drain n st).rest = [] ∧ (drain n st).stuck = st.stuck ∧
      (drain n st).imports = st.imports := by
  intro rest
  induction rest with
  | nil =>
    intro n st hr he hg _ hn
    obtain ⟨m, rfl⟩ : ∃ m, n = m + 1 := ⟨n - 1, by simp at hn; omega⟩
    unfold drain
    by_cases heof : st.eof = true
    · simp [he, heof, hr]
    · have heof' : st.eof = false := by simpa using heof
      simp only [he, Option.isNone_none, heof', Bool.not_false, Bool.and_self, if_true]
      have : readByte st = (0, { st with eof := true }) := by simp [readByte, hr]
      rw [this]
      cases m <;> simp [drain, he, hr]
  | cons c r ih =>
    intro n st hr he hg hnul hn
    obtain ⟨m, rfl⟩ : ∃ m, n = m + 1 := ⟨n - 1, by simp at hn; omega⟩
    simp only [List.all_cons, Bool.and_eq_true, decide_eq_true_eq] at hnul
    have heof : st.eof = false := by
      cases h : st.eof with
      | false => rfl
      | true => have := hg h; rw [hr] at this; cases this
    unfold drain
    simp only [he, Option.isNone_none, heof, Bool.not_false, Bool.and_self, if_true]
    have hrb : readByte st = (c, { st with rest := r, buf := c :: st.buf }) := by
      simp [readByte, hr, hnul.1]
    rw [hrb]
    have := ih m { st with rest := r, buf := c :: st.buf } rfl he (by simp [heof]) hnul.2 (by simp at hn; omega)
    simpa using this

/-- If ReadImports stops for a syntax error and errors were not requested, it returns the whole
input (the byte-order mark aside) and no error — provided the input has no NUL byte, which is a
hard error of its own. Stated from the outcome of the reporting run, so no internal state appears. -/
theorem readImports_whole_on_syntax (d : Bytes) (imps : List Bytes) (buf : Bytes)
    (h : readImports d true = .ok imps buf (some .syntax)) (hnul : (stripBOM d).all (· ≠ 0) = true) :
    readImports d false = .ok imps (stripBOM d) none := by
  have hinv := scan_inv (stripBOM d)
  have hgood := scan_good (stripBOM d)
  have hp := scan_panicked (stripBOM d)
  unfold readImports at h ⊢
  generalize stripBOM d = data at *
  generalize scan data = st at *
  -- the reporting run
  have hst : st.err = some .syntax ∧ st.stuck = false ∧ st.imports = imps := by
    rcases finish_cases true st hp with ⟨_, _, (⟨_, h2⟩ | ⟨x, t, _, h2⟩)⟩ | ⟨_, _, hr, _⟩ | ⟨_, _, h2⟩
    · rw [h2] at h; cases h
    · rw [h2] at h
      split at h
      · cases h
      · simp at h
    · cases hr
    · rw [h2] at h
      split at h
      · cases h
      · next hs =>
        simp only [Outcome.ok.injEq] at h
        exact ⟨h.2.2, by simpa using hs, h.1⟩
  obtain ⟨herr, hstuck, himp⟩ := hst
  rcases finish_cases false st hp with ⟨he, _, _⟩ | ⟨_, _, _, h2⟩ | ⟨_, hn, _⟩
  · rw [herr] at he; cases he
  · rw [h2]
    have hrestnul : st.rest.all (· ≠ 0) = true := by
      rw [← hinv] at hnul
      simp only [List.all_append, Bool.and_eq_true] at hnul
      exact hnul.2
    have hd := drain_all st.rest (st.rest.length + 1) { st with err := none } rfl rfl hgood hrestnul (Nat.le_refl _)
    have hdi := (step_drain (st.rest.length + 1) { st with err := none }).1.inv data hinv
    rw [hd.2.1, List.append_nil] at hdi
    have hs : (drained st).stuck = false := by
      unfold drained; rw [hd.2.2.1]; exact hstuck
    have h3 : (drained st).buf.reverse = data := hdi
    have h4 : (drained st).err = none := hd.1
    have h5 : (drained st).imports = imps := by unfold drained; rw [hd.2.2.2]; exact himp
    simp [hs, h3, h4, h5]
  · exact absurd ⟨herr, rfl⟩ hn

end GIV.C18
