/-
  GIV.Lemmas.FsxFS — the abstract file system operations and `writeArchive`.

  The regenerated facts (GIV/Gen/Fsx.lean) enter as Prop-valued classes; GIV/Props/C15.lean proves the
  instances from the generated definitions, so a changed source fact breaks a *named* theorem there.
-/
import GIV.Lemmas.FsxPath

namespace GIV.Fsx
open GIV GIV.Txtar

/-! ### regenerated facts as hypotheses -/

/-- what Write's rejection test (on the cleaned name) guarantees. -/
class FRej : Prop where
  /-- a name that passes is not rooted, not ".", not "..", and does not start with "../" -/
  sound : ∀ c : Bytes, Gen.Fsx.writeRejects c = false →
    c.head? ≠ some SEP ∧ c ≠ dotB ∧ c ≠ dotdotB ∧ ¬ dotdotSlash <+: c
  /-- rooted names, ".." and "../…" are rejected -/
  complete : ∀ c : Bytes, (c.head? = some SEP ∨ c = dotdotB ∨ dotdotSlash <+: c) →
    Gen.Fsx.writeRejects c = true
  /-- `isAbs` is "starts with '/'" -/
  abs : ∀ p : Bytes, Gen.Fsx.isAbs p = true ↔ p.head? = some SEP
  /-- nothing else is rejected -/
  accepts : ∀ c : Bytes, c.head? ≠ some SEP → c ≠ dotB → c ≠ dotdotB → ¬ dotdotSlash <+: c →
    Gen.Fsx.writeRejects c = false

/-- O_CREATE and O_EXCL are passed to OpenFile, and MkdirAll(Dir(fp)) comes first. -/
class FOpen : Prop where
  create : Gen.Fsx.openCreate = true
  excl : Gen.Fsx.openExcl = true
  mkdirFirst : Gen.Fsx.mkdirAllBeforeOpen = true

theorem len_pos {α : Type} {l : List α} (h : l ≠ []) : 0 < l.length := by
  cases l with
  | nil => exact absurd rfl h
  | cons a l => simp

/-! ### get / set -/

theorem get_root (fs : FS) : fs.get [] = some .dir := by simp [FS.get]

theorem ne_nil_of_get_none {fs : FS} {p : Path} (h : fs.get p = none) : p ≠ [] := by
  intro e; subst e; simp [FS.get] at h

theorem get_set_self (fs : FS) {p : Path} (n : Node) (h : p ≠ []) : (fs.set p n).get p = some n := by
  simp [FS.get, FS.set, lookupP, h]

theorem get_set_ne (fs : FS) {p q : Path} (n : Node) (h : q ≠ p) : (fs.set p n).get q = fs.get q := by
  simp [FS.get, FS.set, lookupP, h]

/-- everything that exists in `fs` exists unchanged in `fs'`. -/
def Ext (fs fs' : FS) : Prop := ∀ q n, fs.get q = some n → fs'.get q = some n

/-- `fs'` extends `fs`, and everything new satisfies `P`. -/
def Step (P : Path → Node → Prop) (fs fs' : FS) : Prop :=
  Ext fs fs' ∧ ∀ q n, fs.get q = none → fs'.get q = some n → P q n

theorem Ext.refl (fs : FS) : Ext fs fs := fun _ _ h => h

theorem Ext.trans {a b c : FS} (h1 : Ext a b) (h2 : Ext b c) : Ext a c :=
  fun q n h => h2 q n (h1 q n h)

theorem Step.refl (P : Path → Node → Prop) (fs : FS) : Step P fs fs :=
  ⟨Ext.refl fs, fun q n h1 h2 => by rw [h1] at h2; cases h2⟩

theorem Step.trans {P : Path → Node → Prop} {a b c : FS} (h1 : Step P a b) (h2 : Step P b c) :
    Step P a c := by
  refine ⟨h1.1.trans h2.1, ?_⟩
  intro q n ha hc
  cases hb : b.get q with
  | none => exact h2.2 q n hb hc
  | some m =>
    have := h2.1 q m hb
    rw [this] at hc
    have e : m = n := Option.some.inj hc
    subst e
    exact h1.2 q m ha hb

theorem Step.mono {P Q : Path → Node → Prop} {a b : FS} (h : Step P a b) (hPQ : ∀ q n, P q n → Q q n) :
    Step Q a b := ⟨h.1, fun q n h1 h2 => hPQ q n (h.2 q n h1 h2)⟩

theorem step_set {P : Path → Node → Prop} {fs : FS} {p : Path} {n : Node}
    (hnone : fs.get p = none) (hP : P p n) : Step P fs (fs.set p n) := by
  refine ⟨?_, ?_⟩
  · intro q m hq
    have : q ≠ p := by intro e; subst e; rw [hnone] at hq; cases hq
    rw [get_set_ne fs n this]; exact hq
  · intro q m hq hm
    by_cases e : q = p
    · subst e
      rw [get_set_self fs n (ne_nil_of_get_none hnone)] at hm
      cases hm; exact hP
    · rw [get_set_ne fs n e, hq] at hm; cases hm

/-! ### mkdir / MkdirAll -/

theorem mkdir_step (fs : FS) (p : Path) : Step (fun q n => q = p ∧ n = .dir) fs (mkdir fs p).2 := by
  unfold mkdir
  cases h1 : fs.get p with
  | some x => exact Step.refl _ _
  | none =>
    cases h2 : fs.get p.dropLast with
    | none => exact Step.refl _ _
    | some x =>
      cases x with
      | dir => exact step_set h1 ⟨rfl, rfl⟩
      | file d => exact Step.refl _ _

theorem mkdir_ok_get {fs : FS} {p : Path} (h : (mkdir fs p).1 = none) :
    (mkdir fs p).2.get p = some .dir := by
  unfold mkdir at h ⊢
  cases h1 : fs.get p with
  | some x => simp [h1] at h
  | none =>
    cases h2 : fs.get p.dropLast with
    | none => simp [h1, h2] at h
    | some x =>
      cases x with
      | dir => simp only []; exact get_set_self fs _ (ne_nil_of_get_none h1)
      | file d => simp [h1, h2] at h

theorem mkdir_succeeds {fs : FS} {p : Path} (h1 : fs.get p = none) (h2 : fs.get p.dropLast = some .dir) :
    (mkdir fs p).1 = none := by
  simp [mkdir, h1, h2]

theorem mkdirAllR_step (fs : FS) (r : List Bytes) :
    Step (fun q n => n = .dir ∧ q <+: r.reverse) fs (mkdirAllR fs r).2 := by
  induction r generalizing fs with
  | nil => exact Step.refl _ _
  | cons c up ih =>
    unfold mkdirAllR
    cases h1 : fs.get (c :: up).reverse with
    | some x =>
      cases x with
      | dir => exact Step.refl _ _
      | file d => exact Step.refl _ _
    | none =>
      have hrec := ih fs
      have hpre : ∀ q : Path, q <+: up.reverse → q <+: (c :: up).reverse := by
        intro q hq
        rw [List.reverse_cons]
        exact hq.trans (List.prefix_append _ _)
      have hrec' : Step (fun q n => n = Node.dir ∧ q <+: (c :: up).reverse) fs (mkdirAllR fs up).2 :=
        hrec.mono (fun q n h => ⟨h.1, hpre q h.2⟩)
      rcases hres : mkdirAllR fs up with ⟨e, fs1⟩
      rw [hres] at hrec'
      cases e with
      | some e => exact hrec'
      | none =>
        refine hrec'.trans ?_
        exact (mkdir_step fs1 (c :: up).reverse).mono (fun q n h => ⟨h.2, by rw [h.1]; exact List.prefix_refl _⟩)

theorem mkdirAllR_ok_get {fs : FS} {r : List Bytes} (h : (mkdirAllR fs r).1 = none) :
    (mkdirAllR fs r).2.get r.reverse = some .dir := by
  cases r with
  | nil => exact get_root _
  | cons c up =>
    unfold mkdirAllR at h ⊢
    cases h1 : fs.get (c :: up).reverse with
    | some x =>
      rw [h1] at h
      cases x with
      | dir => exact h1
      | file d => exact absurd h (by simp)
    | none =>
      rw [h1] at h
      rcases hres : mkdirAllR fs up with ⟨e, fs1⟩
      rw [hres] at h
      cases e with
      | some e => exact absurd h (by simp)
      | none => exact mkdir_ok_get h

theorem mkdirAllR_succeeds {fs : FS} {r : List Bytes}
    (h : ∀ q : Path, q <+: r.reverse → ∀ d, fs.get q ≠ some (.file d)) : (mkdirAllR fs r).1 = none := by
  induction r generalizing fs with
  | nil => rfl
  | cons c up ih =>
    unfold mkdirAllR
    cases h1 : fs.get (c :: up).reverse with
    | some x =>
      cases x with
      | dir => rfl
      | file d => exact absurd h1 (h _ (List.prefix_refl _) d)
    | none =>
      have hup : (mkdirAllR fs up).1 = none := by
        apply ih
        intro q hq d
        apply h q
        rw [List.reverse_cons]
        exact hq.trans (List.prefix_append _ _)
      have hget := mkdirAllR_ok_get hup
      have hstep := mkdirAllR_step fs up
      rcases hres : mkdirAllR fs up with ⟨e, fs1⟩
      rw [hres] at hup hget hstep
      simp only at hup hget
      subst hup
      simp only []
      apply mkdir_succeeds
      · cases hq : fs1.get (c :: up).reverse with
        | none => rfl
        | some n =>
          have := (hstep.2 _ n h1 hq).2
          have hl := this.length_le
          simp at hl
          omega
      · rw [List.reverse_cons, List.dropLast_concat]
        exact hget

theorem mkdirAll_step (fs : FS) (p : Path) :
    Step (fun q n => n = .dir ∧ q <+: p) fs (mkdirAll fs p).2 := by
  have := mkdirAllR_step fs p.reverse
  rw [List.reverse_reverse] at this
  exact this

theorem mkdirAll_ok_get {fs : FS} {p : Path} (h : (mkdirAll fs p).1 = none) :
    (mkdirAll fs p).2.get p = some .dir := by
  have := mkdirAllR_ok_get (fs := fs) (r := p.reverse) h
  rw [List.reverse_reverse] at this
  exact this

theorem mkdirAll_succeeds {fs : FS} {p : Path}
    (h : ∀ q : Path, q <+: p → ∀ d, fs.get q ≠ some (.file d)) : (mkdirAll fs p).1 = none := by
  apply mkdirAllR_succeeds
  rw [List.reverse_reverse]; exact h

/-! ### open + write with O_CREATE|O_EXCL -/

theorem openFile_excl [FOpen] (fs : FS) (p : Path) :
    (fs.get p = none ∧ fs.get p.dropLast = some .dir ∧ openFile writeFlags fs p = (none, fs.set p (.file []))) ∨
    ((fs.get p ≠ none ∨ fs.get p.dropLast ≠ some .dir) ∧ ∃ e, openFile writeFlags fs p = (some e, fs)) := by
  have hc : writeFlags.create = true := FOpen.create
  have he : writeFlags.excl = true := FOpen.excl
  unfold openFile
  cases h1 : fs.get p with
  | some x =>
    right
    refine ⟨Or.inl (by simp), ?_⟩
    cases x with
    | dir => exact ⟨_, rfl⟩
    | file d => simp [hc, he]
  | none =>
    cases h2 : fs.get p.dropLast with
    | none => right; exact ⟨Or.inr (by simp), by simp [hc]⟩
    | some x =>
      cases x with
      | dir => left; simp [hc]
      | file d => right; exact ⟨Or.inr (by simp), by simp [hc]⟩

theorem writeData_fresh (fl : OpenFlags) (fs : FS) {p : Path} (hp : p ≠ []) (data : Bytes) :
    writeData fl (fs.set p (.file [])) p data = (fs.set p (.file [])).set p (.file data) := by
  unfold writeData
  rw [get_set_self fs _ hp]
  cases fl.append <;> simp

/-! ### one entry of Write -/

/-- what one entry may add: directories on the way to `dir ++ ns`, and the file itself. -/
def EntryNew (dir : Path) (ns : List Bytes) (data : Bytes) (q : Path) (n : Node) : Prop :=
  (n = .dir ∧ q <+: dir ++ ns.dropLast) ∨ (q = dir ++ ns ∧ n = .file data)

theorem joinPath_normal (dir : Path) {c : Bytes} {ns : List Bytes} (hs : splitSep c = ns)
    (hns : ∀ x ∈ ns, Normal x) : joinPath dir c = dir ++ ns := by
  unfold joinPath
  rw [hs, cleanComps_normal true _ hns]
  simp

/-- a name that passes the rejection test is a non-empty sequence of ordinary elements. -/
theorem accepted_shape [FRej] {name : Bytes} (h : Gen.Fsx.writeRejects (cleanPath name) = false) :
    ∃ ns : List Bytes, ns ≠ [] ∧ (∀ c ∈ ns, Normal c) ∧ splitSep (cleanPath name) = ns ∧
      cleanPath name = joinSep ns := by
  obtain ⟨h1, h2, h3, h4⟩ := FRej.sound _ h
  have hrel : name.head? ≠ some SEP := by
    intro hr
    rw [cleanPath_rooted hr] at h1
    simp at h1
  obtain ⟨k, ns, hns, hsh⟩ := clean_rel_shape name hrel
  rcases hsh with ⟨_, _, hdot⟩ | ⟨hne, hj, hs⟩
  · exact absurd hdot h2
  · cases k with
    | zero =>
      simp only [List.replicate_zero, List.nil_append] at hne hj hs
      exact ⟨ns, hne, hns, hs, hj⟩
    | succ k =>
      exfalso
      rw [List.replicate_succ, List.cons_append] at hj
      cases hrest : List.replicate k dotdotB ++ ns with
      | nil =>
        rw [hrest] at hj
        exact h3 hj
      | cons d ds =>
        rw [hrest, joinSep_cons_cons] at hj
        apply h4
        rw [hj]
        exact ⟨joinSep (d :: ds), rfl⟩

theorem writeOne_rejected {dir : Path} {fs : FS} {f : File}
    (h : Gen.Fsx.writeRejects (cleanPath f.name) = true) : writeOne dir fs f = (some .outside, fs) := by
  simp [writeOne, h]

/-- the entry's effect when the name passes the test. -/
theorem writeOne_accepted [FOpen] {dir : Path} {fs : FS} {f : File} {ns : List Bytes}
    (hrej : Gen.Fsx.writeRejects (cleanPath f.name) = false)
    (hs : splitSep (cleanPath f.name) = ns) (hns : ∀ c ∈ ns, Normal c) (hne : ns ≠ []) :
    Step (EntryNew dir ns f.data) fs (writeOne dir fs f).2 ∧
    ((writeOne dir fs f).1 = none → (writeOne dir fs f).2.get (dir ++ ns) = some (.file f.data)) ∧
    ((∀ q : Path, q <+: dir ++ ns.dropLast → ∀ d, fs.get q ≠ some (.file d)) → fs.get (dir ++ ns) = none →
      (writeOne dir fs f).1 = none) := by
  have hfull : joinPath dir (cleanPath f.name) = dir ++ ns := joinPath_normal dir hs hns
  have hdl : (dir ++ ns).dropLast = dir ++ ns.dropLast := List.dropLast_append_of_ne_nil hne
  have hfne : dir ++ ns ≠ [] := by simp [hne]
  have hnotpre : ¬ (dir ++ ns <+: dir ++ ns.dropLast) := by
    intro hp
    have := hp.length_le
    have hl : 0 < ns.length := len_pos hne
    rw [List.length_append, List.length_append, List.length_dropLast] at this
    omega
  unfold writeOne
  simp only [hrej, Bool.false_eq_true, if_false, FOpen.mkdirFirst, if_true, hfull, hdl]
  have hmk := mkdirAll_step fs (dir ++ ns.dropLast)
  have hmkok := @mkdirAll_ok_get fs (dir ++ ns.dropLast)
  have hmksuc := @mkdirAll_succeeds fs (dir ++ ns.dropLast)
  rcases hres : mkdirAll fs (dir ++ ns.dropLast) with ⟨e, fs1⟩
  rw [hres] at hmk hmkok hmksuc
  have hmk' : Step (EntryNew dir ns f.data) fs fs1 := hmk.mono (fun q n h => Or.inl h)
  cases e with
  | some e =>
    refine ⟨hmk', by simp, ?_⟩
    intro hnf _
    have := hmksuc hnf
    simp at this
  | none =>
    simp only []
    have hparent : fs1.get (dir ++ ns.dropLast) = some .dir := hmkok rfl
    rcases openFile_excl fs1 (dir ++ ns) with ⟨hnone, _, hopen⟩ | ⟨hwhy, e, hopen⟩
    · rw [hopen]
      simp only []
      rw [writeData_fresh _ _ hfne]
      refine ⟨hmk'.trans ?_, fun _ => get_set_self _ _ hfne, fun _ _ => by first | rfl | trivial⟩
      refine ⟨?_, ?_⟩
      · intro q n hq
        have hqne : q ≠ dir ++ ns := by intro e; subst e; rw [hnone] at hq; cases hq
        rw [get_set_ne _ _ hqne, get_set_ne _ _ hqne]; exact hq
      · intro q n hq hn
        by_cases e : q = dir ++ ns
        · subst e
          rw [get_set_self _ _ hfne] at hn
          cases hn
          exact Or.inr ⟨rfl, rfl⟩
        · rw [get_set_ne _ _ e, get_set_ne _ _ e, hq] at hn; cases hn
    · rw [hopen]
      refine ⟨hmk', by simp, ?_⟩
      intro _ hnone
      exfalso
      rw [hdl] at hwhy
      rcases hwhy with hw | hw
      · apply hw
        cases hq : fs1.get (dir ++ ns) with
        | none => rfl
        | some n => exact absurd (hmk.2 _ n hnone hq).2 hnotpre
      · exact hw hparent

/-! ### the loop -/

/-- new paths are strictly beneath `dir`, or are `dir` / one of its ancestors created as a directory. -/
def Inside (dir : Path) (q : Path) (n : Node) : Prop :=
  (dir <+: q ∧ q ≠ dir) ∨ (n = .dir ∧ q <+: dir)

theorem prefix_append_cases {q dir xs : Path} (h : q <+: dir ++ xs) : q <+: dir ∨ (dir <+: q ∧ q ≠ dir) := by
  by_cases hl : q.length ≤ dir.length
  · exact Or.inl (List.prefix_of_prefix_length_le h (List.prefix_append _ _) hl)
  · right
    refine ⟨List.prefix_of_prefix_length_le (List.prefix_append _ _) h (by omega), ?_⟩
    intro e; subst e; exact hl (Nat.le_refl _)

theorem entryNew_inside {dir : Path} {ns : List Bytes} {data : Bytes} (hne : ns ≠ []) {q : Path} {n : Node}
    (h : EntryNew dir ns data q n) : Inside dir q n := by
  rcases h with ⟨hn, hq⟩ | ⟨hq, _⟩
  · rcases prefix_append_cases hq with h | h
    · exact Or.inr ⟨hn, h⟩
    · exact Or.inl h
  · subst hq
    refine Or.inl ⟨List.prefix_append _ _, ?_⟩
    intro e
    have := congrArg List.length e
    have hl : 0 < ns.length := len_pos hne
    rw [List.length_append] at this
    omega

theorem writeOne_inside [FRej] [FOpen] (dir : Path) (fs : FS) (f : File) :
    Step (Inside dir) fs (writeOne dir fs f).2 := by
  cases hrej : Gen.Fsx.writeRejects (cleanPath f.name) with
  | true => rw [writeOne_rejected hrej]; exact Step.refl _ _
  | false =>
    obtain ⟨ns, hne, hns, hs, _⟩ := accepted_shape hrej
    exact (writeOne_accepted (dir := dir) (fs := fs) hrej hs hns hne).1.mono (fun q n h => entryNew_inside hne h)

theorem writeFiles_inside [FRej] [FOpen] (dir : Path) (fs : FS) (files : List File) :
    Step (Inside dir) fs (writeFiles dir fs files).2 := by
  induction files generalizing fs with
  | nil => exact Step.refl _ _
  | cons f rest ih =>
    unfold writeFiles
    have h1 := writeOne_inside dir fs f
    rcases hres : writeOne dir fs f with ⟨e, fs1⟩
    rw [hres] at h1
    cases e with
    | some e => exact h1
    | none => exact h1.trans (ih fs1)

theorem writeFiles_contents [FRej] [FOpen] (dir : Path) (fs : FS) (files : List File)
    (hok : (writeFiles dir fs files).1 = none) :
    ∀ f ∈ files, (writeFiles dir fs files).2.get (joinPath dir (cleanPath f.name)) = some (.file f.data) := by
  induction files generalizing fs with
  | nil => intro f hf; cases hf
  | cons g rest ih =>
    unfold writeFiles at hok ⊢
    have hins := writeOne_inside dir fs g
    rcases hres : writeOne dir fs g with ⟨e, fs1⟩
    rw [hres] at hok
    cases e with
    | some e => simp at hok
    | none =>
      simp only [] at hok ⊢
      intro f hf
      simp only [List.mem_cons] at hf
      rcases hf with rfl | hf
      · have hrej : Gen.Fsx.writeRejects (cleanPath f.name) = false := by
          cases h : Gen.Fsx.writeRejects (cleanPath f.name) with
          | false => rfl
          | true => rw [writeOne_rejected h] at hres; cases hres
        obtain ⟨ns, hne, hns, hs, _⟩ := accepted_shape hrej
        have h2 := (writeOne_accepted (dir := dir) (fs := fs) hrej hs hns hne).2.1
        rw [hres] at h2
        rw [joinPath_normal dir hs hns]
        exact (writeFiles_inside dir fs1 rest).1 _ _ (h2 rfl)
      · exact ih fs1 hok f hf

/-- an entry whose name is absolute or whose clean form is ".." or starts with "../" -/
def Escapes (name : Bytes) : Prop :=
  Gen.Fsx.isAbs name = true ∨ cleanPath name = dotdotB ∨ dotdotSlash <+: cleanPath name

theorem escapes_rejected [FRej] {name : Bytes} (h : Escapes name) :
    Gen.Fsx.writeRejects (cleanPath name) = true := by
  apply FRej.complete
  rcases h with h | h | h
  · left
    have hr := (FRej.abs name).mp h
    rw [cleanPath_rooted hr]; rfl
  · exact Or.inr (Or.inl h)
  · exact Or.inr (Or.inr h)

theorem writeFiles_escape_error [FRej] (dir : Path) (fs : FS) (files : List File)
    (h : ∃ f ∈ files, Escapes f.name) : (writeFiles dir fs files).1 ≠ none := by
  induction files generalizing fs with
  | nil => obtain ⟨f, hf, _⟩ := h; cases hf
  | cons g rest ih =>
    unfold writeFiles
    rcases hres : writeOne dir fs g with ⟨e, fs1⟩
    cases e with
    | some e => simp
    | none =>
      simp only []
      apply ih
      obtain ⟨f, hf, hesc⟩ := h
      simp only [List.mem_cons] at hf
      rcases hf with rfl | hf
      · rw [writeOne_rejected (escapes_rejected hesc)] at hres; cases hres
      · exact ⟨f, hf, hesc⟩

/-- everything new is a directory or the file of one of the entries, holding that entry's data. -/
def FromEntry (dir : Path) (files : List File) (q : Path) (n : Node) : Prop :=
  n = .dir ∨ ∃ f ∈ files, q = joinPath dir (cleanPath f.name) ∧ n = .file f.data

theorem writeOne_new [FRej] [FOpen] (dir : Path) (fs : FS) (f : File) :
    Step (FromEntry dir [f]) fs (writeOne dir fs f).2 := by
  cases hrej : Gen.Fsx.writeRejects (cleanPath f.name) with
  | true => rw [writeOne_rejected hrej]; exact Step.refl _ _
  | false =>
    obtain ⟨ns, hne, hns, hs, _⟩ := accepted_shape hrej
    refine (writeOne_accepted (dir := dir) (fs := fs) hrej hs hns hne).1.mono ?_
    intro q n h
    rcases h with ⟨h, _⟩ | ⟨h1, h2⟩
    · exact Or.inl h
    · exact Or.inr ⟨f, by simp, by rw [joinPath_normal dir hs hns]; exact h1, h2⟩

theorem writeFiles_new [FRej] [FOpen] (dir : Path) (fs : FS) (files : List File) :
    Step (FromEntry dir files) fs (writeFiles dir fs files).2 := by
  induction files generalizing fs with
  | nil => exact Step.refl _ _
  | cons f rest ih =>
    unfold writeFiles
    have h1 : Step (FromEntry dir (f :: rest)) fs (writeOne dir fs f).2 :=
      (writeOne_new dir fs f).mono (fun q n h => by
        rcases h with h | ⟨g, hg, h⟩
        · exact Or.inl h
        · simp only [List.mem_singleton] at hg
          subst hg
          exact Or.inr ⟨g, by simp, h⟩)
    rcases hres : writeOne dir fs f with ⟨e, fs1⟩
    rw [hres] at h1
    cases e with
    | some e => exact h1
    | none =>
      refine h1.trans ((ih fs1).mono ?_)
      intro q n h
      rcases h with h | ⟨g, hg, h⟩
      · exact Or.inl h
      · exact Or.inr ⟨g, List.mem_cons_of_mem _ hg, h⟩

/-! ### the abstract file system stays a tree -/

/-- every entry's parent is a directory (so a regular file has nothing beneath it). -/
def TreeFS (fs : FS) : Prop := ∀ (q : Path) (n : Node), q ≠ [] → fs.get q = some n → fs.get q.dropLast = some .dir

theorem dropLast_ne_self {p : Path} (h : p ≠ []) : p.dropLast ≠ p := by
  intro e
  have := congrArg List.length e
  have hl := len_pos h
  rw [List.length_dropLast] at this
  omega

theorem treeFS_set {fs : FS} {p : Path} {n : Node} (hwf : TreeFS fs) (hp : p ≠ [])
    (hpar : fs.get p.dropLast = some .dir)
    (hkind : fs.get p = none ∨ ((∃ d, fs.get p = some (.file d)) ∧ ∃ d', n = .file d')) :
    TreeFS (fs.set p n) := by
  intro q m hq hget
  have hnotdir : fs.get p ≠ some .dir := by
    rcases hkind with h | ⟨⟨d, h⟩, _⟩ <;> rw [h] <;> simp
  by_cases e : q = p
  · subst e
    rw [get_set_ne fs n (dropLast_ne_self hp)]; exact hpar
  · rw [get_set_ne fs n e] at hget
    have hparq := hwf q m hq hget
    have : q.dropLast ≠ p := by
      intro e2; rw [e2] at hparq; exact hnotdir hparq
    rw [get_set_ne fs n this]; exact hparq

theorem treeFS_mkdir {fs : FS} (hwf : TreeFS fs) (p : Path) : TreeFS (mkdir fs p).2 := by
  unfold mkdir
  cases h1 : fs.get p with
  | some x => exact hwf
  | none =>
    cases h2 : fs.get p.dropLast with
    | none => exact hwf
    | some x =>
      cases x with
      | dir => exact treeFS_set hwf (ne_nil_of_get_none h1) h2 (Or.inl h1)
      | file d => exact hwf

theorem treeFS_mkdirAllR {fs : FS} (hwf : TreeFS fs) (r : List Bytes) : TreeFS (mkdirAllR fs r).2 := by
  induction r generalizing fs with
  | nil => exact hwf
  | cons c up ih =>
    unfold mkdirAllR
    cases h1 : fs.get (c :: up).reverse with
    | some x => cases x <;> exact hwf
    | none =>
      have := ih hwf
      rcases hres : mkdirAllR fs up with ⟨e, fs1⟩
      rw [hres] at this
      cases e with
      | some e => exact this
      | none => exact treeFS_mkdir this _

theorem treeFS_writeOne [FOpen] {fs : FS} (hwf : TreeFS fs) (dir : Path) (f : File) :
    TreeFS (writeOne dir fs f).2 := by
  cases hrej : Gen.Fsx.writeRejects (cleanPath f.name) with
  | true => rw [writeOne_rejected hrej]; exact hwf
  | false =>
    unfold writeOne
    simp only [hrej, Bool.false_eq_true, if_false, FOpen.mkdirFirst, if_true]
    generalize joinPath dir (cleanPath f.name) = full
    have h1 : TreeFS (mkdirAll fs full.dropLast).2 := treeFS_mkdirAllR hwf _
    rcases hres : mkdirAll fs full.dropLast with ⟨e, fs1⟩
    rw [hres] at h1
    cases e with
    | some e => exact h1
    | none =>
      simp only []
      rcases openFile_excl fs1 full with ⟨hnone, hpar, hopen⟩ | ⟨_, e, hopen⟩
      · rw [hopen]
        simp only []
        have hne := ne_nil_of_get_none hnone
        rw [writeData_fresh _ _ hne]
        have h2 : TreeFS (fs1.set full (.file [])) := treeFS_set h1 hne hpar (Or.inl hnone)
        apply treeFS_set h2 hne
        · rw [get_set_ne _ _ (dropLast_ne_self hne)]; exact hpar
        · exact Or.inr ⟨⟨[], get_set_self _ _ hne⟩, ⟨_, rfl⟩⟩
      · rw [hopen]; exact h1

theorem treeFS_writeFiles [FOpen] {fs : FS} (hwf : TreeFS fs) (dir : Path) (files : List File) :
    TreeFS (writeFiles dir fs files).2 := by
  induction files generalizing fs with
  | nil => exact hwf
  | cons f rest ih =>
    unfold writeFiles
    have h1 := treeFS_writeOne hwf dir f
    rcases hres : writeOne dir fs f with ⟨e, fs1⟩
    rw [hres] at h1
    cases e with
    | some e => exact h1
    | none => exact ih h1

end GIV.Fsx
