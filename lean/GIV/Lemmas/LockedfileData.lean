/-
  Who changes file contents and the commit history (for C07): effect lemmas of the OS model,
  `only_ex_holder_mutates`, and the invariant `HeadOK` (while no exclusive lock is held on a file, its
  contents are the newest entry of its commit history).
-/
import GIV.Lemmas.LockedfileInv
namespace GIV.Lockedfile
open GIV

/-- The descriptor a content-changing call writes through. -/
def Sys.dataFd : Sys → Option Fd
  | .ftruncate fd _ => some fd
  | .write fd _ => some fd
  | .pwrite fd _ _ => some fd
  | _ => none

/-- The descriptor argument of a call. -/
def Sys.fdArg : Sys → Option Fd
  | .open _ _ => none
  | .flock fd _ => some fd
  | .funlock fd => some fd
  | .ftruncate fd _ => some fd
  | .read fd _ => some fd
  | .write fd _ => some fd
  | .pwrite fd _ _ => some fd
  | .fstat fd => some fd
  | .close fd => some fd
  | .mlock _ => none
  | .munlock _ => none

theorem contentOf_upd (w : World) (p q : Path) (d : Bytes) :
    contentOf (upd w.files p (some d) q) = if q = p then d else w.content q := by
  by_cases h : q = p <;> simp [upd, h, contentOf, World.content]

theorem osStep_ftruncate_spec {w w' : World} {c fd n f r} (h : osStep w c (.ftruncate fd n) f = some (w', r)) :
    (∃ e, r = .err e ∧ w' = w) ∨
    (∃ o, w.fds fd = some o ∧ o.wr = true ∧ r = .ok ∧
      w' = { w with files := upd w.files o.path (some (resize (w.content o.path) n)) }) := by
  simp only [osStep] at h
  cases ho : w.fds fd with
  | none => simp [ho] at h; exact .inl ⟨_, h.2.symm, h.1.symm⟩
  | some o =>
    simp only [ho] at h
    cases hf : faultErr f with
    | some e => simp [hf] at h; exact .inl ⟨_, h.2.symm, h.1.symm⟩
    | none =>
      simp only [hf] at h
      by_cases hwr : o.wr = true
      · simp [hwr] at h; exact .inr ⟨o, rfl, hwr, h.2.symm, h.1.symm⟩
      · simp [hwr] at h; exact .inl ⟨_, h.2.symm, h.1.symm⟩

/-- The bytes a write stores and the result it reports, under fault `f`. -/
def stored (f : Fault) (bs : Bytes) : Bytes × Res :=
  match f with
  | .short k => (bs.take k, .short (bs.take k).length)
  | _ => (bs, .n bs.length)

theorem osStep_write_spec {w w' : World} {c fd bs f r} (h : osStep w c (.write fd bs) f = some (w', r)) :
    (∃ e, r = .err e ∧ w' = w) ∨
    (∃ o, w.fds fd = some o ∧ o.wr = true ∧ faultErr f = none ∧ r = (stored f bs).2 ∧
      w' = { w with
        files := upd w.files o.path (some (pwriteAt (w.content o.path)
          (if o.app then (w.content o.path).length else o.off) (stored f bs).1)),
        fds := upd w.fds fd (some { o with off := (if o.app then (w.content o.path).length else o.off) +
          (stored f bs).1.length }) }) := by
  simp only [osStep] at h
  cases ho : w.fds fd with
  | none => simp [ho] at h; exact .inl ⟨_, h.2.symm, h.1.symm⟩
  | some o =>
    simp only [ho] at h
    cases hf : faultErr f with
    | some e => simp [hf] at h; exact .inl ⟨_, h.2.symm, h.1.symm⟩
    | none =>
      simp only [hf] at h
      by_cases hwr : o.wr = true
      · rw [if_pos hwr] at h
        simp only [Option.some.injEq, Prod.mk.injEq] at h
        refine .inr ⟨o, rfl, hwr, rfl, ?_, ?_⟩
        · cases f <;> simp [stored] at h ⊢ <;> exact h.2.symm
        · cases f <;> simp [stored] at h ⊢ <;> exact h.1.symm
      · simp [hwr] at h; exact .inl ⟨_, h.2.symm, h.1.symm⟩

theorem osStep_pwrite_spec {w w' : World} {c fd bs off f r} (h : osStep w c (.pwrite fd bs off) f = some (w', r)) :
    (∃ e, r = .err e ∧ w' = w) ∨
    (∃ o, w.fds fd = some o ∧ o.wr = true ∧ o.app = false ∧ faultErr f = none ∧ r = (stored f bs).2 ∧
      w' = { w with files := upd w.files o.path (some (pwriteAt (w.content o.path) off (stored f bs).1)) }) := by
  simp only [osStep] at h
  cases ho : w.fds fd with
  | none => simp [ho] at h; exact .inl ⟨_, h.2.symm, h.1.symm⟩
  | some o =>
    simp only [ho] at h
    cases hf : faultErr f with
    | some e => simp [hf] at h; exact .inl ⟨_, h.2.symm, h.1.symm⟩
    | none =>
      simp only [hf] at h
      by_cases happ : o.app = true
      · simp [happ] at h; exact .inl ⟨_, h.2.symm, h.1.symm⟩
      · by_cases hwr : o.wr = true
        · rw [if_neg happ, if_pos hwr] at h
          simp only [Option.some.injEq, Prod.mk.injEq] at h
          refine .inr ⟨o, rfl, hwr, by simpa using happ, rfl, ?_, ?_⟩
          · cases f <;> simp [stored] at h ⊢ <;> exact h.2.symm
          · cases f <;> simp [stored] at h ⊢ <;> exact h.1.symm
        · simp [happ, hwr] at h; exact .inl ⟨_, h.2.symm, h.1.symm⟩

theorem osStep_read_spec {w w' : World} {c fd n f r} (h : osStep w c (.read fd n) f = some (w', r)) :
    (∃ e, r = .err e ∧ w' = w) ∨
    (∃ o, w.fds fd = some o ∧ o.rd = true ∧
      ((o.off < (w.content o.path).length ∧ r = .bytes (((w.content o.path).drop o.off).take n) ∧
          w' = { w with fds := upd w.fds fd (some { o with off := o.off + (((w.content o.path).drop o.off).take n).length }) }) ∨
       (¬ o.off < (w.content o.path).length ∧ r = .eof ∧ w' = w))) := by
  simp only [osStep] at h
  cases ho : w.fds fd with
  | none => simp [ho] at h; exact .inl ⟨_, h.2.symm, h.1.symm⟩
  | some o =>
    simp only [ho] at h
    cases hf : faultErr f with
    | some e => simp [hf] at h; exact .inl ⟨_, h.2.symm, h.1.symm⟩
    | none =>
      simp only [hf] at h
      by_cases hrd : o.rd = true
      · rw [if_pos hrd] at h
        by_cases hlt : o.off < (w.content o.path).length
        · rw [if_pos hlt] at h
          simp only [Option.some.injEq, Prod.mk.injEq] at h
          exact .inr ⟨o, rfl, hrd, .inl ⟨hlt, h.2.symm, h.1.symm⟩⟩
        · rw [if_neg hlt] at h
          simp only [Option.some.injEq, Prod.mk.injEq] at h
          exact .inr ⟨o, rfl, hrd, .inr ⟨hlt, h.2.symm, h.1.symm⟩⟩
      · simp [hrd] at h; exact .inl ⟨_, h.2.symm, h.1.symm⟩

/-- A call changes the contents of `p` only by truncating at open(2) or by a write / pwrite / ftruncate
through a writable descriptor of `p`. -/
theorem osStep_content {w w' : World} {c sc f r} (h : osStep w c sc f = some (w', r)) {p : Path}
    (hne : w'.content p ≠ w.content p) :
    (∃ fl, sc = .open p fl ∧ fTrunc fl = true) ∨
    (∃ fd o, Sys.dataFd sc = some fd ∧ w.fds fd = some o ∧ o.path = p ∧ o.wr = true) := by
  cases sc with
  | «open» q fl =>
    rcases osStep_open_spec h with ⟨e, _, rfl⟩ | ⟨_, rfl⟩
    · exact absurd rfl hne
    · simp only [World.content, contentOf_upd] at hne
      by_cases hq : p = q
      · subst hq
        by_cases ht : fTrunc fl = true
        · exact .inl ⟨fl, rfl, ht⟩
        · simp [ht] at hne
      · simp [hq] at hne
  | flock fd k =>
    rcases osStep_flock_spec h with ⟨e, _, rfl⟩ | ⟨o, _, _, _, rfl⟩
    · exact absurd rfl hne
    · simp at hne
  | funlock fd =>
    rcases osStep_funlock_spec h with ⟨e, _, rfl⟩ | ⟨o, _, _, rfl⟩
    · exact absurd rfl hne
    · simp at hne
  | close fd =>
    rcases osStep_close_spec h with rfl | ⟨o, _, _, rfl⟩
    · exact absurd rfl hne
    · simp at hne
  | ftruncate fd n =>
    rcases osStep_ftruncate_spec h with ⟨e, _, rfl⟩ | ⟨o, ho, hwr, _, rfl⟩
    · exact absurd rfl hne
    · simp only [World.content, contentOf_upd] at hne
      by_cases hq : p = o.path
      · exact .inr ⟨fd, o, rfl, ho, hq.symm, hwr⟩
      · simp [hq] at hne
  | write fd bs =>
    rcases osStep_write_spec h with ⟨e, _, rfl⟩ | ⟨o, ho, hwr, _, _, rfl⟩
    · exact absurd rfl hne
    · simp only [World.content, contentOf_upd] at hne
      by_cases hq : p = o.path
      · exact .inr ⟨fd, o, rfl, ho, hq.symm, hwr⟩
      · simp [hq] at hne
  | pwrite fd bs off =>
    rcases osStep_pwrite_spec h with ⟨e, _, rfl⟩ | ⟨o, ho, hwr, _, _, _, rfl⟩
    · exact absurd rfl hne
    · simp only [World.content, contentOf_upd] at hne
      by_cases hq : p = o.path
      · exact .inr ⟨fd, o, rfl, ho, hq.symm, hwr⟩
      · simp [hq] at hne
  | read fd n =>
    rcases osStep_read_spec h with ⟨e, _, rfl⟩ | ⟨o, _, _, ⟨_, _, rfl⟩ | ⟨_, _, rfl⟩⟩
    · exact absurd rfl hne
    · exact absurd rfl hne
    · exact absurd rfl hne
  | _ =>
    os_cases h
    all_goals first | (simp at h; done) | (simp at h; obtain ⟨rfl, _⟩ := h; exact absurd rfl hne)


/-! ### only the exclusive holder changes the contents -/

theorem UserIO.sys_dataFd {io : UserIO} {fd fd' : Fd} (h : Sys.dataFd (io.sys fd) = some fd') : fd' = fd := by
  cases io <;> simp [UserIO.sys, Sys.dataFd] at h <;> exact h.symm

/-- The descriptor a running operation writes through is its own locked descriptor, or a File it holds. -/
theorem sysOf_dataFd {w : World} {c held} {fr : Frame}
    (hh : ∀ x ∈ held, Owns w c x.fd x.path x.flag ∧ holdsFd w x.fd x.path (lockMode x.flag))
    (hf : FrameOK w c held fr) {n sc tag fd}
    (hs : sysOf fr n = some (sc, tag)) (hd : Sys.dataFd sc = some fd) :
    ∃ p fl, Owns w c fd p fl ∧ holdsFd w fd p (lockMode fl) := by
  cases hpc : fr.pc <;> simp only [sysOf, hpc] at hs
  case user s =>
    obtain ⟨h, io, _, rfl, hm⟩ := hf.user s hpc
    simp at hs; obtain ⟨rfl, _⟩ := hs
    obtain rfl := UserIO.sys_dataFd hd
    exact ⟨_, _, hh h hm⟩
  case done r => cases hs
  all_goals (first | (split at hs <;> simp at hs) | simp at hs)
  all_goals (obtain ⟨rfl, _⟩ := hs; simp [Sys.dataFd] at hd)
  all_goals
    have := hf.fd fd (by simp [hpc, Pc.fd?, hd])
    simp only [hpc, Pc.locked, if_true] at this
    exact ⟨_, _, this.1, this.2.2⟩

/-- The flags a running operation passes to open(2) are the stripped ones. -/
theorem sysOf_open {w : World} {c held} {fr : Frame} (hf : FrameOK w c held fr) {n q fl tag}
    (hs : sysOf fr n = some (.open q fl, tag)) : fl = openFlags fr.op.flag := by
  cases hpc : fr.pc <;> simp only [sysOf, hpc] at hs
  case user s =>
    obtain ⟨h, io, _, rfl, hm⟩ := hf.user s hpc
    simp at hs
    exact absurd hs.1 (UserIO.sys_not_open io h.fd q fl)
  case done r => cases hs
  all_goals (first | (split at hs <;> simp at hs) | simp at hs)
  exact hs.1.2.symm

/-- **Every step that changes the contents of a file is taken by the client that holds the exclusive
lock on it** (through a descriptor of its own).  This is where the O_TRUNC stripping is needed: with
O_TRUNC left in the open(2) flags a client that holds nothing would truncate the file. -/
theorem step_mutates {s s' : State} {l : Label} (hi : Inv1 s) (h : step s l = some s') {p : Path}
    (hne : s'.w.content p ≠ s.w.content p) : ∃ fd fl, Owns s.w l.c fd p fl ∧ holdsFd s.w fd p .ex := by
  obtain ⟨c, a⟩ := l
  cases a with
  | call op => obtain ⟨_, _, rfl⟩ := step_call h; exact absurd rfl hne
  | ret => obtain ⟨_, _, _, _, rfl⟩ := step_ret h; exact absurd rfl hne
  | sys f n =>
    obtain ⟨fr, sc, tag, w', r, hcur, hs, hos, rfl⟩ := step_sys h
    have hk := hi.clients c
    have hfr := hk.frame fr hcur
    rcases osStep_content hos hne with ⟨fl, rfl, ht⟩ | ⟨fd, o, hd, ho, hp, hwr⟩
    · rw [sysOf_open hfr hs, openFlags_noTrunc] at ht; cases ht
    · obtain ⟨q, fl, h1, h2⟩ := sysOf_dataFd hk.handles hfr hs hd
      obtain ⟨o', ho', hp', _, _, hwr', _⟩ := h1.open
      rw [ho] at ho'; cases ho'
      have hex : lockMode fl = .ex := (lockMode_ex_iff fl).2 (hwr' ▸ hwr)
      rw [hex] at h2
      rw [hp] at hp'; subst hp'
      exact ⟨fd, fl, h1, h2⟩


/-! ### commit history and descriptors under a call -/

/-- A call changes the commit history of `p` only by releasing the exclusive lock on `p`, and then it
pushes the contents. -/
theorem osStep_hist {w w' : World} {c sc f r} (h : osStep w c sc f = some (w', r)) (p : Path) :
    w'.hist p = w.hist p ∨
    (∃ fd0, Sys.ctl sc = some fd0 ∧ holdsFd w fd0 p .ex ∧ w'.hist p = w.content p :: w.hist p) := by
  by_cases hctl : Sys.ctl sc = none
  · rcases Sys.open_or sc with ⟨q, fl, rfl⟩ | hop
    · rcases osStep_open_spec h with ⟨e, _, rfl⟩ | ⟨_, rfl⟩ <;> exact .inl rfl
    · exact .inl (by rw [(osStep_data_spec h hctl hop).2.1])
  · have key : ∀ fd0 q, w'.hist = (dropLock w fd0 q).hist → Sys.ctl sc = some fd0 →
        w'.hist p = w.hist p ∨ (∃ fd0, Sys.ctl sc = some fd0 ∧ holdsFd w fd0 p .ex ∧ w'.hist p = w.content p :: w.hist p) := by
      intro fd0 q hh hc
      rw [hh, dropLock_hist]
      by_cases hq : p = q ∧ (w.locks q).ex = some fd0
      · rw [if_pos hq]; obtain ⟨rfl, hq2⟩ := hq
        exact .inr ⟨fd0, hc, hq2, rfl⟩
      · rw [if_neg hq]; exact .inl rfl
    cases sc with
    | flock fd k =>
      rcases osStep_flock_spec h with ⟨e, _, rfl⟩ | ⟨o, _, _, _, rfl⟩
      · exact .inl rfl
      · exact key fd o.path (by simp) rfl
    | funlock fd =>
      rcases osStep_funlock_spec h with ⟨e, _, rfl⟩ | ⟨o, _, _, rfl⟩
      · exact .inl rfl
      · exact key fd o.path rfl rfl
    | close fd =>
      rcases osStep_close_spec h with rfl | ⟨o, _, _, rfl⟩
      · exact .inl rfl
      · exact key fd o.path rfl rfl
    | _ => simp [Sys.ctl] at hctl

theorem osStep_hist_suffix {w w' : World} {c sc f r} (h : osStep w c sc f = some (w', r)) (p : Path) :
    w.hist p <:+ w'.hist p := by
  rcases osStep_hist h p with e | ⟨_, _, _, e⟩ <;> rw [e]
  · exact List.suffix_refl _
  · exact List.suffix_cons _ _

/-- A call leaves alone (offset included) the descriptors it is not given. -/
theorem osStep_fds_other {w w' : World} {c sc f r} (hw : WInv w) (h : osStep w c sc f = some (w', r)) {fd : Fd}
    (hfd : Sys.fdArg sc ≠ some fd) (hopen : w.fds fd ≠ none) : w'.fds fd = w.fds fd := by
  have hne : fd ≠ w.nextFd := fun e => hopen (e ▸ hw.fresh _ (Nat.le_refl _))
  cases sc with
  | «open» q fl =>
    rcases osStep_open_spec h with ⟨e, _, rfl⟩ | ⟨_, rfl⟩
    · rfl
    · simp only [upd_other _ _ _ _ hne]
  | flock fd0 k => rcases osStep_flock_spec h with ⟨e, _, rfl⟩ | ⟨o, _, _, _, rfl⟩ <;> simp
  | funlock fd0 => rcases osStep_funlock_spec h with ⟨e, _, rfl⟩ | ⟨o, _, _, rfl⟩ <;> simp
  | close fd0 =>
    have : fd ≠ fd0 := fun e => hfd (by simp [Sys.fdArg, e])
    rcases osStep_close_spec h with rfl | ⟨o, _, _, rfl⟩
    · rfl
    · rw [closeFd_fds, if_neg this]
  | ftruncate fd0 n => rcases osStep_ftruncate_spec h with ⟨e, _, rfl⟩ | ⟨o, _, _, _, rfl⟩ <;> rfl
  | write fd0 bs =>
    have : fd ≠ fd0 := fun e => hfd (by simp [Sys.fdArg, e])
    rcases osStep_write_spec h with ⟨e, _, rfl⟩ | ⟨o, _, _, _, _, rfl⟩
    · rfl
    · simp only [upd_other _ _ _ _ this]
  | pwrite fd0 bs off => rcases osStep_pwrite_spec h with ⟨e, _, rfl⟩ | ⟨o, _, _, _, _, _, rfl⟩ <;> rfl
  | read fd0 n =>
    have : fd ≠ fd0 := fun e => hfd (by simp [Sys.fdArg, e])
    rcases osStep_read_spec h with ⟨e, _, rfl⟩ | ⟨o, _, _, ⟨_, _, rfl⟩ | ⟨_, _, rfl⟩⟩
    · rfl
    · simp only [upd_other _ _ _ _ this]
    · rfl
  | _ =>
    os_cases h
    all_goals first | (simp at h; done) | (simp at h; obtain ⟨rfl, _⟩ := h; rfl)

theorem UserIO.sys_fdArg {io : UserIO} {fd fd' : Fd} (h : Sys.fdArg (io.sys fd) = some fd') : fd' = fd := by
  cases io <;> simp [UserIO.sys, Sys.fdArg] at h <;> exact h.symm

/-- The descriptor a running operation passes to a call is one of its own. -/
theorem sysOf_fdArg {w : World} {c held} {fr : Frame}
    (hh : ∀ x ∈ held, Owns w c x.fd x.path x.flag ∧ holdsFd w x.fd x.path (lockMode x.flag))
    (hf : FrameOK w c held fr) {n sc tag fd}
    (hs : sysOf fr n = some (sc, tag)) (hd : Sys.fdArg sc = some fd) : ∃ p fl, Owns w c fd p fl := by
  cases hpc : fr.pc <;> simp only [sysOf, hpc] at hs
  case user s =>
    obtain ⟨h, io, _, rfl, hm⟩ := hf.user s hpc
    simp at hs; obtain ⟨rfl, _⟩ := hs
    obtain rfl := UserIO.sys_fdArg hd
    exact ⟨_, _, (hh h hm).1⟩
  case done r => cases hs
  all_goals (first | (split at hs <;> simp at hs) | simp at hs)
  all_goals (obtain ⟨rfl, _⟩ := hs; simp [Sys.fdArg] at hd)
  all_goals exact ⟨_, _, (hf.fd fd (by simp [hpc, Pc.fd?, hd])).1⟩

/-- What a step of client `c0` cannot do to a descriptor of another client `c` and to the file it has
locked: the descriptor (offset included) is untouched; while it holds a lock on `p`, neither the
contents nor the commit history of `p` change. -/
theorem other_step_stable {s s' : State} {c0 c : Cid} {a : Act} (hi : Inv1 s) (h : step s ⟨c0, a⟩ = some s')
    (hc : c ≠ c0) {fd p fl} (ho : Owns s.w c fd p fl) :
    s'.w.fds fd = s.w.fds fd ∧ s.w.hist p <:+ s'.w.hist p ∧
    (∀ k, holdsFd s.w fd p k → s'.w.content p = s.w.content p ∧ s'.w.hist p = s.w.hist p) := by
  cases a with
  | call op => obtain ⟨_, _, rfl⟩ := step_call h; exact ⟨rfl, List.suffix_refl _, fun _ _ => ⟨rfl, rfl⟩⟩
  | ret => obtain ⟨_, _, _, _, rfl⟩ := step_ret h; exact ⟨rfl, List.suffix_refl _, fun _ _ => ⟨rfl, rfl⟩⟩
  | sys f n =>
    have h0 := h
    obtain ⟨fr, sc, tag, w', r, hcur, hs, hos, rfl⟩ := step_sys h
    have hk := hi.clients c0
    have hfr := hk.frame fr hcur
    obtain ⟨o, hfd, _⟩ := ho.open
    refine ⟨osStep_fds_other hi.world hos (fun e => ?_) (by rw [hfd]; simp), osStep_hist_suffix hos p, fun k hk' => ⟨?_, ?_⟩⟩
    · obtain ⟨q, fl', ho'⟩ := sysOf_fdArg hk.handles hfr hs e
      exact hc (ho.owner_eq ho')
    · -- contents
      apply Classical.byContradiction; intro hne
      obtain ⟨fd', fl', ho', hex⟩ := step_mutates hi h0 hne
      obtain ⟨e, _⟩ := hi.world.ex_only hex hk'
      subst e
      exact hc (ho.owner_eq ho')
    · -- history
      rcases osStep_hist hos p with e | ⟨fd0, hctl, hex, _⟩
      · exact e
      · obtain ⟨e, _⟩ := hi.world.ex_only hex hk'
        subst e
        have := sysOf_ctl hfr hs hctl
        exact absurd (ho.owner_eq (hfr.fd fd this).1) hc

end GIV.Lockedfile
