/-
  tgs, part 3: the result of `tgs` satisfies `TgsSpec`, for all inputs.
-/
import GIV.Lemmas.DiffTgsCount
import GIV.Lemmas.DiffTgsLis
import GIV.Lemmas.DiffLoop
namespace GIV.Diff
open GIV
set_option linter.unusedSectionVars false
variable {α : Type} [DecidableEq α]

theorem list_shape {β : Type} (l : List β) (k : Nat) (a e : β) (hlen : l.length = k + 2)
    (h0 : l[0]? = some a) (he : l[k + 1]? = some e) : l = a :: (l.drop 1).take k ++ [e] := by
  apply List.ext_getElem?
  intro i
  cases i with
  | zero => simpa using h0
  | succ i =>
    simp only [List.cons_append, List.getElem?_cons_succ]
    by_cases hi : i < k
    · rw [List.getElem?_append_left (by simp; omega), List.getElem?_take_of_lt hi, List.getElem?_drop, Nat.add_comm]
    · by_cases hik : i = k
      · subst hik
        rw [List.getElem?_append_right (by simp; omega), he]
        simp [show i ≤ l.length - 1 by omega]
      · rw [List.getElem?_eq_none (by omega), List.getElem?_eq_none (by simp; omega)]

theorem tgs_spec (x y : List α) : ∃ s, tgs x y = some s ∧ TgsSpec x y s := by
  have G := gathered x y
  unfold tgs
  simp only
  generalize gatherX x 0 (gatherY y 0 (countY y (countX x [])) #[]).fst #[] #[] = gx at G ⊢
  generalize (gatherY y 0 (countY y (countX x [])) #[]).snd = yi at G ⊢
  obtain ⟨xi, inv⟩ := gx
  simp only at G ⊢
  have hJlt : ∀ (t a : Nat), inv[t]? = some a → a < xi.size := by
    intro t a h
    have ht : t < xi.size := by
      have := (Array.getElem?_eq_some_iff.mp h).1
      rw [G.sizeX] at this; exact this
    obtain ⟨k, j, s, h1, h2, _⟩ := G.pairs t xi[t] (by simp [ht])
    rw [h] at h1; cases h1
    have := (Array.getElem?_eq_some_iff.mp h2).1
    rw [G.sizeY] at this; exact this
  obtain ⟨T', L, hlis, LI⟩ := lisLoop_spec inv xi.size G.sizeX (fun t a h => Nat.le_of_lt (hJlt t a h)) xi.size 0
    (Array.replicate xi.size (Gen.Diff.unfilled xi.size)) (Array.replicate xi.size 0) (by omega)
    ⟨by simp, by simp, fun k _ hk => by simp [Gen.Diff.unfilled, hk],
     (fun k v h hv => by
       exfalso
       simp only [Array.getElem?_replicate, Gen.Diff.unfilled] at h
       split at h
       · cases h; exact hv rfl
       · cases h),
     (fun i' l h => by omega)⟩
  rw [hlis]
  simp only
  obtain ⟨hk1, hk2⟩ := kmax_spec L
  have hsz0 : (Array.replicate (2 + L.foldl max 0) ((0, 0) : Nat × Nat)).size = 2 + L.foldl max 0 := by simp
  rw [dif_pos (by rw [hsz0]; omega)]
  obtain ⟨seq', hbs, B⟩ := backScan_spec xi yi inv L xi.size (L.foldl max 0) (x.length, y.length) rfl G.sizeY G.sizeX LI.sL hJlt
    G.monoX G.monoY (fun i' l h => LI.l1 i' l (by have := (Array.getElem?_eq_some_iff.mp h).1; rw [LI.sL] at this; exact this) h)
    xi.size (L.foldl max 0)
    ((Array.replicate (2 + L.foldl max 0) ((0, 0) : Nat × Nat)).set (1 + L.foldl max 0) (x.length, y.length) (by rw [hsz0]; omega))
    (Nat.le_refl _)
    ⟨⟨Nat.le_refl _, by simp, by simp⟩, fun k' h1 h2 => by omega, fun k1 k2 _ _ h1 h2 h3 => by omega,
     (fun h1 => by
       rcases hk2 with h | ⟨i, hi⟩
       · omega
       · exact ⟨i, by have := (Array.getElem?_eq_some_iff.mp hi).1; rw [LI.sL] at this; exact this, hi, fun h => by omega⟩)⟩
  rw [hbs]
  simp only
  obtain ⟨_, hsz, hlast⟩ := B.b0
  rw [dif_pos (by rw [hsz]; omega)]
  refine ⟨_, rfl, ?_⟩
  -- the resulting list
  have hget : ∀ k' : Nat, 1 ≤ k' → ((seq'.set 0 (0, 0) (by rw [hsz]; omega)).toList)[k']? = seq'[k']? := by
    intro k' hk'
    rw [Array.getElem?_toList, Array.getElem?_set]
    rw [if_neg (by omega)]
  refine ⟨⟨_, list_shape _ (L.foldl max 0) (0, 0) (x.length, y.length) (by simp [hsz]; omega)
    (by rw [Array.toList_set, List.getElem?_set_self (by simp [hsz]; omega)]) ?_, ?_, ?_⟩⟩
  · rw [hget _ (by omega), Nat.add_comm]; exact hlast
  · intro p hp
    obtain ⟨i, hi⟩ := List.mem_iff_getElem?.mp hp
    have hik : i < L.foldl max 0 := by
      have := (List.getElem?_eq_some_iff.mp hi).1
      simp at this; omega
    rw [List.getElem?_take_of_lt hik, List.getElem?_drop, hget _ (by omega)] at hi
    obtain ⟨p', a, j1, j2, _, g2, g3, g4, g5⟩ := B.b1 (1 + i) (by omega) (by omega)
    rw [hi] at g5; cases g5
    obtain ⟨k, j, s, e1, e2, e3, e4, e5⟩ := G.pairs p' j1 g2
    rw [g3] at e1; cases e1
    rw [g4] at e2; cases e2
    exact ⟨s, e3, e4, fun i' h => idx_unique_of_count e5.1 h e3, fun j' h => idx_unique_of_count e5.2 h e4⟩
  · rw [List.pairwise_iff_getElem]
    intro i j hi hj hij
    have hjk : j < L.foldl max 0 := by simp at hj; omega
    have e1 : ((List.drop 1 (seq'.set 0 (0, 0) (by rw [hsz]; omega)).toList).take (L.foldl max 0))[i]? = seq'[1 + i]? := by
      rw [List.getElem?_take_of_lt (by omega), List.getElem?_drop, hget _ (by omega)]
    have e2 : ((List.drop 1 (seq'.set 0 (0, 0) (by rw [hsz]; omega)).toList).take (L.foldl max 0))[j]? = seq'[1 + j]? := by
      rw [List.getElem?_take_of_lt hjk, List.getElem?_drop, hget _ (by omega)]
    rw [List.getElem?_eq_getElem hi] at e1
    rw [List.getElem?_eq_getElem hj] at e2
    exact B.b2 (1 + i) (1 + j) _ _ (by omega) (by omega) (by omega) e1.symm e2.symm
end GIV.Diff
