/-
  C18 — invariants of the byte machine that hold on *every* input: what was consumed is a prefix
  of the input, errors and EOF are sticky, the error-state counter `nerr` stays small.
-/
import GIV.Model.ReadImports

namespace GIV.C18
open GIV GIV.ReadImports GIV.Gen.Imports

/-- `b` is reachable from `a` by reading bytes and recording errors. -/
structure Step (a b : St) : Prop where
  inv : ∀ data, a.buf.reverse ++ a.rest = data → b.buf.reverse ++ b.rest = data
  eof : a.eof = true → b.eof = true
  err : a.err ≠ none → b.err = a.err
  nerrEq : b.err = none → b.nerr = a.nerr
  good : (a.eof = true → a.rest = []) → (b.eof = true → b.rest = [])
  pan : b.panicked = true → a.panicked = true ∨ b.nerr > nerrLimit
  nerrLe : a.nerr ≤ b.nerr
  bufne : a.buf ≠ [] → b.buf ≠ []
  len : b.rest.length ≤ a.rest.length

/-- a step that calls peekByte in the error state at most `n` times. -/
def StepN (n : Nat) (a b : St) : Prop := Step a b ∧ b.nerr ≤ a.nerr + n

theorem Step.refl (a : St) : Step a a :=
  ⟨fun _ h => h, id, fun _ => rfl, fun _ => rfl, id, Or.inl, Nat.le_refl _, id, Nat.le_refl _⟩

theorem Step.trans {a b c : St} (h1 : Step a b) (h2 : Step b c) : Step a c where
  inv := fun d h => h2.inv d (h1.inv d h)
  eof := fun h => h2.eof (h1.eof h)
  err := fun h => by
    have e1 := h1.err h
    rw [← e1]; exact h2.err (by rw [e1]; exact h)
  nerrEq := fun h => by
    have hb : b.err = none := by
      cases hb : b.err with
      | none => rfl
      | some e => have := h2.err (by rw [hb]; simp); rw [h, hb] at this; cases this
    rw [h2.nerrEq h, h1.nerrEq hb]
  good := fun h => h2.good (h1.good h)
  pan := fun h => by
    rcases h2.pan h with h | h
    · rcases h1.pan h with h | h
      · exact Or.inl h
      · exact Or.inr (Nat.lt_of_lt_of_le h h2.nerrLe)
    · exact Or.inr h
  nerrLe := Nat.le_trans h1.nerrLe h2.nerrLe
  bufne := fun h => h2.bufne (h1.bufne h)
  len := Nat.le_trans h2.len h1.len

theorem StepN.refl (a : St) : StepN 0 a a := ⟨Step.refl a, Nat.le_refl _⟩

theorem StepN.trans {n m : Nat} {a b c : St} (h1 : StepN n a b) (h2 : StepN m b c) : StepN (n + m) a c :=
  ⟨h1.1.trans h2.1, by have := h1.2; have := h2.2; omega⟩

theorem StepN.mono {n m : Nat} {a b : St} (h : StepN n a b) (hnm : n ≤ m) : StepN m a b :=
  ⟨h.1, by have := h.2; omega⟩

/-- when no error is pending at the end, the counter has not moved: the step was free. -/
theorem StepN.free {n : Nat} {a b : St} (h : StepN n a b) (hb : b.err = none) : StepN 0 a b :=
  ⟨h.1, by rw [h.1.nerrEq hb]; omega⟩

/-! ### primitive steps -/

theorem step_readByte (st : St) : StepN 0 st (readByte st).2 := by
  unfold readByte
  cases hr : st.rest with
  | nil =>
    refine ⟨⟨?_, ?_, ?_, ?_, ?_, ?_, ?_, ?_, ?_⟩, ?_⟩ <;> simp_all
  | cons c r =>
    by_cases hc : c = 0
    · by_cases he : st.err.isNone = true
      · refine ⟨⟨?_, ?_, ?_, ?_, ?_, ?_, ?_, ?_, ?_⟩, ?_⟩ <;> simp_all
      · refine ⟨⟨?_, ?_, ?_, ?_, ?_, ?_, ?_, ?_, ?_⟩, ?_⟩ <;> simp_all
    · refine ⟨⟨?_, ?_, ?_, ?_, ?_, ?_, ?_, ?_, ?_⟩, ?_⟩ <;> simp_all

theorem step_syntaxError (st : St) : StepN 0 st (syntaxError st) := by
  unfold syntaxError
  by_cases he : st.err.isNone = true
  · refine ⟨⟨?_, ?_, ?_, ?_, ?_, ?_, ?_, ?_, ?_⟩, ?_⟩ <;> simp_all
  · simp only [he]; exact StepN.refl st

theorem step_setStuck (st : St) : StepN 0 st (setStuck st) := by
  unfold setStuck
  refine ⟨⟨?_, ?_, ?_, ?_, ?_, ?_, ?_, ?_, ?_⟩, ?_⟩ <;> simp_all

theorem step_setPeek (st : St) (c : UInt8) : StepN 0 st { st with peek := c } := by
  refine ⟨⟨?_, ?_, ?_, ?_, ?_, ?_, ?_, ?_, ?_⟩, ?_⟩ <;> simp_all

theorem step_saveFrom (st : St) (n : Nat) : StepN 0 st (saveFrom n st) := by
  unfold saveFrom
  refine ⟨⟨?_, ?_, ?_, ?_, ?_, ?_, ?_, ?_, ?_⟩, ?_⟩ <;> simp_all

theorem step_ite {n : Nat} {a : St} (c : Prop) [Decidable c] {x y : St} (hx : StepN n a x) (hy : StepN n a y) :
    StepN n a (if c then x else y) := by
  split <;> assumption

/-! ### loops that never call peekByte -/

theorem step_lineLoop : ∀ (n : Nat) (c : UInt8) (st : St), StepN 0 st (lineLoop n c st).2 := by
  intro n
  induction n with
  | zero =>
    intro c st
    unfold lineLoop
    simp only
    split
    · exact step_setStuck st
    · exact StepN.refl st
  | succ n ih =>
    intro c st
    unfold lineLoop
    split
    · exact (step_readByte st).trans (ih _ _)
    · exact StepN.refl st

theorem step_blockLoop : ∀ (n : Nat) (c c1 : UInt8) (st : St), StepN 0 st (blockLoop n c c1 st) := by
  intro n
  induction n with
  | zero =>
    intro c c1 st
    unfold blockLoop
    split
    · exact step_setStuck st
    · exact StepN.refl st
  | succ n ih =>
    intro c c1 st
    unfold blockLoop
    split
    · have h1 : StepN 0 st (if st.eof = true then syntaxError st else st) :=
        step_ite _ (step_syntaxError st) (StepN.refl st)
      exact (h1.trans (step_readByte _)).trans (ih _ _ _)
    · exact StepN.refl st

theorem step_skipLoop (s : Bool) : ∀ (n : Nat) (c : UInt8) (st : St), StepN 0 st (skipLoop s n c st).2 := by
  intro n
  induction n with
  | zero =>
    intro c st
    unfold skipLoop
    simp only
    split
    · exact step_setStuck st
    · exact StepN.refl st
  | succ n ih =>
    intro c st
    unfold skipLoop
    split
    · split
      · exact (step_readByte st).trans (ih _ _)
      · split
        · have h0 := step_readByte st
          have h1 : StepN 0 (readByte st).2
              (if (readByte st).1 = 47 then (lineLoop ((readByte st).2.rest.length + 1) (readByte st).1 (readByte st).2).2
               else if (readByte st).1 = 42 then blockLoop ((readByte st).2.rest.length + 2) (readByte st).1 0 (readByte st).2
               else syntaxError (readByte st).2) :=
            step_ite _ (step_lineLoop _ _ _) (step_ite _ (step_blockLoop _ _ _ _) (step_syntaxError _))
          exact ((h0.trans h1).trans (step_readByte _)).trans (ih _ _)
        · exact StepN.refl st
    · exact StepN.refl st

theorem step_drain : ∀ (n : Nat) (st : St), StepN 0 st (drain n st) := by
  intro n
  induction n with
  | zero =>
    intro st
    unfold drain
    split
    · exact step_setStuck st
    · exact StepN.refl st
  | succ n ih =>
    intro st
    unfold drain
    split
    · exact (step_readByte st).trans (ih _)
    · exact StepN.refl st

/-! ### peekByte, nextByte -/

theorem isSome_of_ne_none {α : Type} {o : Option α} (h : o ≠ none) : o.isSome = true := by
  cases o <;> simp_all

theorem step_peekByte_ok (s : Bool) (a : St) (h : a.err = none) : StepN 0 a (peekByte s a).2 := by
  unfold peekByte
  simp only [h, Option.isSome_none, Bool.false_eq_true, if_false]
  have h1 : StepN 0 a (if a.peek = 0 then readByte a else (a.peek, a)).2 := by
    split
    · exact step_readByte a
    · exact StepN.refl a
  exact (h1.trans (step_skipLoop s _ _ _)).trans (step_setPeek _ _)

theorem step_peekByte_err (s : Bool) (a : St) (h : a.err ≠ none) :
    (peekByte s a).1 = 0 ∧ StepN 1 a (peekByte s a).2 := by
  unfold peekByte
  simp only [isSome_of_ne_none h, if_true, true_and]
  refine ⟨⟨?_, ?_, ?_, ?_, ?_, ?_, ?_, ?_, ?_⟩, ?_⟩ <;> simp_all

theorem step_peekByte (s : Bool) (a : St) : StepN 1 a (peekByte s a).2 := by
  by_cases h : a.err = none
  · exact (step_peekByte_ok s a h).mono (by omega)
  · exact (step_peekByte_err s a h).2

theorem step_nextByte_ok (s : Bool) (a : St) (h : a.err = none) : StepN 0 a (nextByte s a).2 :=
  (step_peekByte_ok s a h).trans (step_setPeek _ _)

theorem step_nextByte (s : Bool) (a : St) : StepN 1 a (nextByte s a).2 :=
  (step_peekByte s a).trans (step_setPeek _ _)

theorem nextByte_err (s : Bool) (a : St) (h : a.err ≠ none) : (nextByte s a).1 = 0 :=
  (step_peekByte_err s a h).1

/-! ### keywords and identifiers -/

theorem step_kwLoop : ∀ (kw : Bytes) (a : St), StepN kw.length a (kwLoop kw a).1 := by
  intro kw
  induction kw with
  | nil => intro a; exact StepN.refl a
  | cons k ks ih =>
    intro a
    unfold kwLoop
    simp only
    split
    · exact ((step_nextByte false a).trans (step_syntaxError _)).mono (by simp)
    · exact ((step_nextByte false a).trans (ih _)).mono (by simp; omega)

theorem step_readKeyword (kw : Bytes) (a : St) : StepN (kw.length + 2) a (readKeyword kw a) := by
  unfold readKeyword
  simp only
  have h1 := (step_peekByte true a).trans (step_kwLoop kw (peekByte true a).2)
  split
  · split
    · exact ((h1.trans (step_peekByte false _)).trans (step_syntaxError _)).mono (by omega)
    · exact (h1.trans (step_peekByte false _)).mono (by omega)
  · exact h1.mono (by omega)

theorem isIdent_zero : isIdent 0 = false := by decide

theorem step_identLoop : ∀ (n : Nat) (a : St), StepN 1 a (identLoop n a) := by
  intro n
  induction n with
  | zero =>
    intro a
    unfold identLoop
    simp only
    split
    · exact (step_peekByte false a).trans (step_setStuck _)
    · exact step_peekByte false a
  | succ n ih =>
    intro a
    unfold identLoop
    simp only
    by_cases h : a.err = none
    · split
      · exact ((step_peekByte_ok false a h).trans (step_setPeek _ 0)).trans (ih _) |>.mono (by omega)
      · exact step_peekByte false a
    · have h0 := (step_peekByte_err false a h).1
      simp only [h0, isIdent_zero, Bool.false_eq_true, if_false]
      exact step_peekByte false a

theorem step_readIdent (a : St) : StepN 2 a (readIdent a) := by
  unfold readIdent
  simp only
  split
  · exact ((step_peekByte true a).trans (step_syntaxError _)).mono (by omega)
  · exact (step_peekByte true a).trans (step_identLoop _ _)

/-! ### strings, specs, declarations -/

theorem step_rawLoop : ∀ (n start : Nat) (a : St), StepN 0 a (rawLoop n start a) := by
  intro n
  induction n with
  | zero =>
    intro start a
    unfold rawLoop
    split
    · exact step_setStuck a
    · exact StepN.refl a
  | succ n ih =>
    intro start a
    unfold rawLoop
    by_cases h : a.err = none
    · simp only [h, Option.isNone_none, if_true]
      split
      · exact (step_nextByte_ok false a h).trans (step_saveFrom _ _)
      · have h1 : StepN 0 (nextByte false a).2
            (if (nextByte false a).2.eof = true then syntaxError (nextByte false a).2 else (nextByte false a).2) :=
          step_ite _ (step_syntaxError _) (StepN.refl _)
        exact ((step_nextByte_ok false a h).trans h1).trans (ih _ _)
    · have : a.err.isNone = false := by cases he : a.err <;> simp_all
      simp only [this, Bool.false_eq_true, if_false]
      exact StepN.refl a

theorem loop_err_stop_raw (n start : Nat) (a : St) (h : a.err ≠ none) : rawLoop n start a = a := by
  have : a.err.isNone = false := by cases he : a.err <;> simp_all
  cases n <;> simp [rawLoop, this]

theorem strLoop_err_stop (n start : Nat) (a : St) (h : a.err ≠ none) : strLoop n start a = a := by
  have : a.err.isNone = false := by cases he : a.err <;> simp_all
  cases n <;> simp [strLoop, this]

theorem step_strLoop : ∀ (n start : Nat) (a : St), StepN 1 a (strLoop n start a) := by
  intro n
  induction n with
  | zero =>
    intro start a
    unfold strLoop
    split
    · exact (step_setStuck a).mono (by omega)
    · exact (StepN.refl a).mono (by omega)
  | succ n ih =>
    intro start a
    by_cases h : a.err = none
    · unfold strLoop
      simp only [h, Option.isNone_none, if_true]
      split
      · exact ((step_nextByte_ok false a h).trans (step_saveFrom _ _)).mono (by omega)
      · -- one iteration: at most one peekByte in the error state (after `\` at end of input)
        have h1 : StepN 0 (nextByte false a).2
            (if ((nextByte false a).2.eof || decide ((nextByte false a).1 = 10)) = true
              then syntaxError (nextByte false a).2 else (nextByte false a).2) :=
          step_ite _ (step_syntaxError _) (StepN.refl _)
        have h2 := (step_nextByte_ok false a h).trans h1
        generalize hst1 : (if ((nextByte false a).2.eof || decide ((nextByte false a).1 = 10)) = true
              then syntaxError (nextByte false a).2 else (nextByte false a).2) = st1 at h2
        have h3 : StepN 1 st1 (if (nextByte false a).1 = 92 then
              (if (escapedNewlineIsError && decide ((nextByte false st1).1 = 10)) = true
                then syntaxError (nextByte false st1).2 else (nextByte false st1).2) else st1) :=
          step_ite _ (step_ite _ ((step_nextByte false st1).trans (step_syntaxError _)) (step_nextByte false st1))
            ((StepN.refl st1).mono (by omega))
        generalize hst2 : (if (nextByte false a).1 = 92 then
              (if (escapedNewlineIsError && decide ((nextByte false st1).1 = 10)) = true
                then syntaxError (nextByte false st1).2 else (nextByte false st1).2) else st1) = st2 at h3
        have h4 := h2.trans h3
        by_cases he2 : st2.err = none
        · exact ((h4.free he2).trans (ih start st2)).mono (by omega)
        · rw [strLoop_err_stop n start st2 he2]
          exact h4.mono (by omega)
    · rw [strLoop_err_stop _ start a h]
      exact (StepN.refl a).mono (by omega)

theorem step_readString (a : St) : StepN 2 a (readString a) := by
  unfold readString
  simp only
  split
  · exact ((step_nextByte true a).trans (step_rawLoop _ _ _)).mono (by omega)
  · split
    · exact (step_nextByte true a).trans (step_strLoop _ _ _)
    · exact ((step_nextByte true a).trans (step_syntaxError _)).mono (by omega)

theorem step_readImport (a : St) : StepN 5 a (readImport a) := by
  unfold readImport
  simp only
  have h1 : StepN 2 (peekByte true a).2
      (if (peekByte true a).1 = 46 then { (peekByte true a).2 with peek := 0 }
       else if isIdent (peekByte true a).1 = true then readIdent (peekByte true a).2 else (peekByte true a).2) :=
    step_ite _ ((step_setPeek _ 0).mono (by omega))
      (step_ite _ (step_readIdent _) ((StepN.refl _).mono (by omega)))
  exact ((step_peekByte true a).trans h1).trans (step_readString _)

theorem groupLoop_err (n : Nat) (a : St) (h : a.err ≠ none) : StepN 1 a (groupLoop n a) := by
  have h0 := step_peekByte_err true a h
  have he : (peekByte true a).2.err.isNone = false := by
    have := h0.2.1.err h
    cases hh : (peekByte true a).2.err with
    | none => rw [hh] at this; exact absurd this.symm h
    | some e => rfl
  cases n <;> simp only [groupLoop, he, Bool.and_false, Bool.false_eq_true, if_false] <;> exact h0.2

theorem step_groupLoop : ∀ (n : Nat) (a : St), StepN 6 a (groupLoop n a) := by
  intro n
  induction n with
  | zero =>
    intro a
    unfold groupLoop
    simp only
    split
    · exact ((step_peekByte true a).trans (step_setStuck _)).mono (by omega)
    · exact (step_peekByte true a).mono (by omega)
  | succ n ih =>
    intro a
    by_cases h : a.err = none
    · unfold groupLoop
      simp only
      split
      · have h1 := (step_peekByte_ok true a h).trans (step_readImport (peekByte true a).2)
        by_cases he : (readImport (peekByte true a).2).err = none
        · exact ((h1.free he).trans (ih _)).mono (by omega)
        · exact (h1.trans (groupLoop_err n _ he)).mono (by omega)
      · exact (step_peekByte true a).mono (by omega)
    · exact (groupLoop_err _ a h).mono (by omega)

theorem declLoop_err (n : Nat) (a : St) (h : a.err ≠ none) : StepN 1 a (declLoop n a) := by
  have h0 := step_peekByte_err true a h
  have e1 : ((0 : UInt8) = 105) = False := by decide
  cases n <;> simp only [declLoop, h0.1, e1, if_false] <;> exact h0.2

/-- one iteration of the declaration loop (after `i` was peeked). -/
theorem step_declIter (p : St) :
    StepN 17 p
      (if (peekByte true (readKeyword kwImport p)).1 = 40 then
        (nextByte false (groupLoop ((peekByte true (readKeyword kwImport p)).2.rest.length + 2)
          (nextByte false (peekByte true (readKeyword kwImport p)).2).2)).2
       else readImport (peekByte true (readKeyword kwImport p)).2) := by
  have hk : StepN 8 p (readKeyword kwImport p) := by
    have := step_readKeyword kwImport p
    have hl : kwImport.length = 6 := rfl
    rw [hl] at this; exact this
  have h1 := hk.trans (step_peekByte true _)
  split
  · exact (((h1.trans (step_nextByte false _)).trans (step_groupLoop _ _)).trans (step_nextByte false _)).mono (by omega)
  · exact (h1.trans (step_readImport _)).mono (by omega)

theorem step_declLoop : ∀ (n : Nat) (a : St), StepN 18 a (declLoop n a) := by
  intro n
  induction n with
  | zero =>
    intro a
    unfold declLoop
    simp only
    split
    · exact ((step_peekByte true a).trans (step_setStuck _)).mono (by omega)
    · exact (step_peekByte true a).mono (by omega)
  | succ n ih =>
    intro a
    by_cases h : a.err = none
    · unfold declLoop
      simp only
      split
      · have h1 := (step_peekByte_ok true a h).trans (step_declIter (peekByte true a).2)
        generalize hst2 : (if (peekByte true (readKeyword kwImport (peekByte true a).2)).1 = 40 then
            (nextByte false (groupLoop ((peekByte true (readKeyword kwImport (peekByte true a).2)).2.rest.length + 2)
              (nextByte false (peekByte true (readKeyword kwImport (peekByte true a).2)).2).2)).2
           else readImport (peekByte true (readKeyword kwImport (peekByte true a).2)).2) = st2 at h1
        by_cases he : st2.err = none
        · exact ((h1.free he).trans (ih _)).mono (by omega)
        · exact (h1.trans (declLoop_err n _ he)).mono (by omega)
      · exact (step_peekByte true a).mono (by omega)
    · exact (declLoop_err _ a h).mono (by omega)

theorem step_scan (d : Bytes) : StepN 29 (St.init d) (scan d) := by
  unfold scan
  have hk : StepN 9 (St.init d) (readKeyword kwPackage (St.init d)) := by
    have := step_readKeyword kwPackage (St.init d)
    have hl : kwPackage.length = 7 := rfl
    rw [hl] at this; exact this
  exact ((hk.trans (step_readIdent _)).trans (step_declLoop _ _)).mono (by omega)

end GIV.C18
