/-
  GIV.Lemmas.DiffGoTgsB — the Go→Lean translation of `tgs` (GIV.Gen.DiffGo), second half: from the index slices
  `xi yi inv` on — the arrays T and L, `sort.Search` (GoLib.sortSearch) against the model's `search`, the maximum of L,
  `make([]pair, 2+k)`, the backward scan — equals the model's `lisLoop` / `backScan` pipeline (`tgsTail`).
-/
import GIV.Lemmas.DiffGoBase

namespace GIV.Go.Diff
open GIV GIV.GoLib GIV.Diff

/-- the model's `tgs` after the four counting / gathering loops (`lx`, `ly` = the lengths of x and y) -/
def tgsTail (lx ly : Nat) (xi yi inv : Array Nat) : Option (List (Nat × Nat)) :=
  let n := xi.size
  match lisLoop inv n n 0 (Array.replicate n (Gen.Diff.unfilled n)) (Array.replicate n 0) with
  | none => none
  | some (_, L) =>
    let k := L.foldl max 0
    let seq : Array (Nat × Nat) := Array.replicate (2 + k) (0, 0)
    if h1 : 1 + k < seq.size then
      let seq := seq.set (1 + k) (lx, ly) h1
      match backScan xi yi inv L n n k seq with
      | none => none
      | some seq => if h0 : 0 < seq.size then some (seq.set 0 (0, 0) h0).toList else none
    else none

/-! ### loop 5: `for i := range T { T[i] = n + 1 }` -/

theorem tgs_loop5_eq (x y : List Bytes) (m : GoLib.StrIntMap) (xi yi inv J : List Int) (n : Int) (L : List Int) :
    ∀ (l : List Int) (pre rest : List Int), rest.length = l.length →
      tgs_loop5 x y m xi yi inv J n L l (pre.length : Int) (pre ++ rest) =
        tgs_after5 x y m xi yi inv J n (pre ++ List.replicate l.length (n + 1)) L := by
  intro l
  induction l with
  | nil =>
    intro pre rest hr
    have : rest = [] := List.length_eq_zero_iff.mp hr
    subst this
    simp [tgs_loop5]
  | cons a l ih =>
    intro pre rest hr
    cases rest with
    | nil => simp at hr
    | cons r rest =>
      have hlen : pre.length < (pre ++ r :: rest).length := by simp
      have hset : (pre ++ r :: rest).set pre.length (n + 1) = (pre ++ [n + 1]) ++ rest := by
        simp
      have := ih (pre ++ [n + 1]) rest (by simpa using hr)
      simp only [List.length_append, List.length_cons, List.length_nil, Nat.zero_add, Int.natCast_add,
        Int.cast_ofNat_Int] at this
      simp only [tgs_loop5, setIdx_nat, if_pos hlen, hset, Option.bind_eq_bind, Option.bind_some]
      rw [this]
      simp [List.replicate_succ]

/-! ### `sort.Search` -/

theorem sortSearchLoop_eq (f' : Int → Option Bool) (f : Nat → Option Bool) (hf : ∀ k : Nat, f' (k : Int) = f k) :
    ∀ fuel i j : Nat,
      GoLib.sortSearchLoop f' fuel (i : Int) (j : Int) = (searchLoop f fuel i j).map Int.ofNat := by
  intro fuel
  induction fuel with
  | zero =>
    intro i j
    simp only [sortSearchLoop, searchLoop]
    by_cases h : i < j
    · have h' : (i : Int) < j := by omega
      simp [h, h']
    · have h' : ¬ (i : Int) < j := by omega
      simp [h, h']
  | succ fuel ih =>
    intro i j
    have hh : ((i : Int) + j) / 2 = (((i + j) / 2 : Nat) : Int) := by omega
    simp only [sortSearchLoop, searchLoop]
    by_cases h : i < j
    · have h' : (i : Int) < j := by omega
      rw [if_pos h, if_pos h', hh, hf]
      cases f ((i + j) / 2) with
      | none => rfl
      | some b =>
        cases b with
        | false =>
          have := ih ((i + j) / 2 + 1) j
          simp only [Int.natCast_add, Int.cast_ofNat_Int] at this
          simpa using this
        | true =>
          have := ih i ((i + j) / 2)
          simpa using this
    · have h' : ¬ (i : Int) < j := by omega
      simp [h, h']

theorem sortSearch_eq (f' : Int → Option Bool) (f : Nat → Option Bool) (hf : ∀ k : Nat, f' (k : Int) = f k) (n : Nat) :
    GoLib.sortSearch (n : Int) f' = (search f 0 n).map Int.ofNat := by
  have := sortSearchLoop_eq f' f hf n 0 n
  simpa [sortSearch, search] using this

/-! ### loop 6: the longest increasing subsequence -/

theorem tgs_closure_eq (T : Array Int) (J : Array Nat) (i k : Nat) :
    (do let t10 ← GoLib.idx? T.toList (k : Int)
        let t11 ← GoLib.idx? (ints J) (i : Int)
        pure (decide (t10 ≥ t11)) : Option Bool) = searchF T J i k := by
  rw [idx_nat, idx_ints, Array.getElem?_toList]
  unfold searchF
  cases T[k]? <;> cases J[i]? <;> simp [Gen.Diff.searchPred]

theorem ints_set (L : Array Nat) (i v : Nat) (h : i < L.size) :
    ints (L.set i v h) = (ints L).set i (v : Int) := by
  simp [ints, List.map_set]

theorem tgs_loop6_eq (x y : List Bytes) (m : GoLib.StrIntMap) (xi yi inv0 : List Int) (inv : Array Nat) (n : Nat) :
    ∀ (fuel i : Nat) (T : Array Int) (L : Array Nat),
      tgs_loop6 x y m xi yi inv0 (ints inv) (n : Int) ((List.range' i fuel).map Int.ofNat) T.toList (ints L) =
        (lisLoop inv n fuel i T L).bind
          (fun p => tgs_after6 x y m xi yi inv0 (ints inv) (n : Int) p.1.toList (ints p.2)) := by
  intro fuel
  induction fuel with
  | zero =>
    intro i T L
    simp [tgs_loop6, lisLoop]
  | succ fuel ih =>
    intro i T L
    simp only [List.range'_succ, List.map_cons, tgs_loop6, lisLoop, Int.ofNat_eq_natCast]
    rw [sortSearch_eq _ (searchF T inv i) (fun k => tgs_closure_eq T inv i k)]
    cases search (searchF T inv i) 0 n with
    | none => rfl
    | some k =>
      simp only [Option.map_some, Option.bind_eq_bind, Option.bind_some, Int.ofNat_eq_natCast, idx_ints]
      cases inv[i]? with
      | none => rfl
      | some j =>
        simp only [Option.map_some, Option.bind_some, Int.ofNat_eq_natCast, setIdx_nat, Array.length_toList]
        by_cases hk : k < T.size
        · simp only [if_pos hk, dif_pos hk, Option.bind_some]
          have hc : ((k : Int) + 1) = ((k + 1 : Nat) : Int) := by omega
          rw [hc, ints_length]
          by_cases hi : i < L.size
          · simp only [if_pos hi, dif_pos hi, Option.bind_some]
            rw [← ih (i + 1) (T.set k j hk) (L.set i (k + 1) hi), Array.toList_set, ints_set]
          · simp only [if_neg hi, dif_neg hi]; rfl
        · simp only [if_neg hk, dif_neg hk]; rfl

theorem rangeInt_nat (n : Nat) : GoLib.rangeInt (n : Int) = (List.range' 0 n).map Int.ofNat := by
  simp [GoLib.rangeInt, List.range_eq_range']

/-! ### loop 7: the maximum of L -/

theorem tgs_loop7_eq (x y : List Bytes) (m : GoLib.StrIntMap) (xi yi inv J : List Int) (n : Int) (T L : List Int) :
    ∀ (l : List Nat) (k : Nat),
      tgs_loop7 x y m xi yi inv J n T L (l.map Int.ofNat) (k : Int) =
        tgs_after7 x y m xi yi inv J n T L ((l.foldl max k : Nat) : Int) := by
  intro l
  induction l with
  | nil => intro k; simp [tgs_loop7]
  | cons v l ih =>
    intro k
    simp only [List.map_cons, tgs_loop7, List.foldl_cons, Int.ofNat_eq_natCast]
    by_cases h : k < v
    · have h' : (k : Int) < v := by omega
      have hm : max k v = v := by omega
      simp only [h', decide_true, if_true, hm]
      exact ih v
    · have h' : ¬ (k : Int) < v := by omega
      have hm : max k v = k := by omega
      simp only [h', decide_false, hm]
      exact ih k

/-! ### loop 8: the backward scan -/

/-- the end of `tgs`: `seq[0] = pair{0, 0}; return seq` -/
def tgsFinish (seq : Array (Nat × Nat)) : Option (List GoPair) :=
  if h0 : 0 < seq.size then some ((seq.set 0 (0, 0) h0).toList.map ofPair) else none

theorem tgs_after8_eq (x y : List Bytes) (m : GoLib.StrIntMap) (xi yi inv J : List Int) (n : Int) (T L : List Int)
    (k : Int) (seq : Array (Nat × Nat)) (lastj i : Int) :
    tgs_after8 x y m xi yi inv J n T L k (seq.toList.map ofPair) lastj i = tgsFinish seq := by
  have := setIdx_nat (seq.toList.map ofPair) 0 ({ x := 0, y := 0 } : GoPair)
  simp only [Int.natCast_zero] at this
  simp only [tgs_after8, tgsFinish, this, List.length_map, Array.length_toList]
  by_cases h0 : 0 < seq.size
  · simp [h0, List.map_set, ofPair]
  · simp [h0]

theorem tgs_loop8_eq (x y : List Bytes) (m : GoLib.StrIntMap) (inv0 : List Int) (n : Int) (T : List Int)
    (xi yi J L : Array Nat) (lastj : Int) :
    ∀ (i' fuel : Nat) (k : Int) (seq : Array (Nat × Nat)), i' + 1 ≤ fuel → i' ≤ J.size →
      tgs_loop8 x y m (ints xi) (ints yi) inv0 (ints J) n T (ints L) lastj fuel k (seq.toList.map ofPair)
          ((i' : Int) - 1) =
        (backScan xi yi J L lastj i' k seq).bind tgsFinish := by
  intro i'
  induction i' with
  | zero =>
    intro fuel k seq hf _
    cases fuel with
    | zero => omega
    | succ fuel =>
      simp [tgs_loop8, backScan, tgs_after8_eq]
  | succ i' ih =>
    intro fuel k seq hf hJ
    cases fuel with
    | zero => omega
    | succ fuel =>
      have hi : ((i' + 1 : Nat) : Int) - 1 = (i' : Int) := by omega
      have hge : decide ((i' : Int) ≥ 0) = true := by simp
      have hJ' : i' < J.size := by omega
      have hJi : J[i']? = some J[i'] := Array.getElem?_eq_getElem hJ'
      rw [hi]
      simp only [tgs_loop8, backScan, hge, Bool.not_true, Bool.false_eq_true, if_false, idx_ints, hJi]
      cases hL : L[i']? with
      | none => simp
      | some li =>
        simp only [Option.map_some, Option.bind_eq_bind, Option.bind_some, Int.ofNat_eq_natCast]
        by_cases hc : Gen.Diff.pickCond (↑li) k (↑J[i']) lastj = true
        · have hc' := hc
          simp only [Gen.Diff.pickCond, Bool.and_eq_true, decide_eq_true_eq] at hc'
          have h1 : ((li : Int) == k) = true := by simp [hc'.1]
          have h2 : decide ((J[i'] : Int) < lastj) = true := by simp [hc'.2]
          simp only [h1, h2, if_true, hc, Option.pure_def, Option.bind_some, idx_ints]
          cases xi[i']? with
          | none => simp
          | some a =>
            cases yi[J[i']]? with
            | none => simp
            | some b =>
              simp only [Option.map_some, Option.bind_some, Int.ofNat_eq_natCast, GoLib.setIdx?, List.length_map,
                Array.length_toList]
              by_cases hk0 : 0 ≤ k
              · by_cases hk : k.toNat < seq.size
                · have hk' : 0 ≤ k ∧ k < (seq.size : Int) := by omega
                  simp only [if_pos hk', if_pos hk0, dif_pos hk, Option.bind_some]
                  rw [← ih fuel (k - 1) (seq.set k.toNat (a, b) hk) (by omega) (by omega), Array.toList_set,
                    List.map_set]
                  rfl
                · have hk' : ¬ (0 ≤ k ∧ k < (seq.size : Int)) := by omega
                  simp only [if_neg hk', if_pos hk0, dif_neg hk]; rfl
              · have hk' : ¬ (0 ≤ k ∧ k < (seq.size : Int)) := by omega
                simp only [if_neg hk', if_neg hk0]; rfl
        · have hc' := hc
          simp only [Gen.Diff.pickCond, Bool.and_eq_true, decide_eq_true_eq, not_and] at hc'
          have h6 : ((if ((li : Int) == k) = true then some (decide ((J[i'] : Int) < lastj)) else some false) : Option Bool)
              = some false := by
            by_cases h1 : (li : Int) = k
            · have := hc' h1
              simp [h1, this]
            · simp [h1]
          simp only [Option.pure_def]
          simp only [h6, hc, Option.bind_some, Bool.false_eq_true, if_false]
          exact ih fuel k seq (by omega) (by omega)

/-! ### assembly -/

theorem tgs_after7_eq (x y : List Bytes) (m : GoLib.StrIntMap) (inv0 : List Int) (T : List Int)
    (xi yi J L : Array Nat) (n k : Nat) (hn : n ≤ J.size) :
    tgs_after7 x y m (ints xi) (ints yi) inv0 (ints J) (n : Int) T (ints L) (k : Int) =
      (let seq : Array (Nat × Nat) := Array.replicate (2 + k) (0, 0)
       if h1 : 1 + k < seq.size then
         (backScan xi yi J L n n k (seq.set (1 + k) (x.length, y.length) h1)).bind tgsFinish
       else none) := by
  have h2 : (2 : Int) + (k : Int) = ((2 + k : Nat) : Int) := by omega
  have h1 : (1 : Int) + (k : Int) = ((1 + k : Nat) : Int) := by omega
  have hlt : 1 + k < 2 + k := by omega
  simp only [tgs_after7, h2, h1, make_nat, setIdx_nat, List.length_replicate, if_pos hlt, Option.bind_eq_bind,
    Option.bind_some, Array.size_replicate, dif_pos hlt, Int.toNat_natCast]
  rw [← tgs_loop8_eq x y m inv0 (n : Int) T xi yi J L (n : Int) n (n + 1) (k : Int) _ (by omega) hn]
  congr 1
  simp [Array.toList_set, List.map_set, ofPair, GoLib.len]

/-- From the index slices on, the translated `tgs` is the model's (`inv` and `xi` have the same length: they are
appended to together — needed because the model reads `L[i]` and `J[i]` before the test where Go short-circuits). -/
theorem tgs_after4_eq (x y : List Bytes) (m : GoLib.StrIntMap) (xi yi inv : Array Nat) (h : inv.size = xi.size) :
    tgs_after4 x y m (ints xi) (ints yi) (ints inv) =
      (tgsTail x.length y.length xi yi inv).map (List.map ofPair) := by
  have hT : ([] : List Int) ++ List.replicate (List.replicate xi.size (0 : Int)).length ((xi.size : Int) + 1) =
      (Array.replicate xi.size (Gen.Diff.unfilled (xi.size : Int))).toList := by
    simp [Gen.Diff.unfilled]
  have hL : List.replicate xi.size (0 : Int) = ints (Array.replicate xi.size 0) := by
    simp [ints]
  have h5 := tgs_loop5_eq x y m (ints xi) (ints yi) (ints inv) (ints inv) (xi.size : Int)
    (List.replicate xi.size (0 : Int)) (List.replicate xi.size (0 : Int)) [] (List.replicate xi.size (0 : Int)) rfl
  rw [hT] at h5
  simp only [List.length_nil, Int.natCast_zero, List.nil_append] at h5
  simp only [tgs_after4, len_ints, make_nat, Option.bind_eq_bind, Option.bind_some, h5, tgs_after5, rangeInt_nat]
  rw [hL, tgs_loop6_eq, tgsTail]
  cases lisLoop inv xi.size xi.size 0 (Array.replicate xi.size (Gen.Diff.unfilled ↑xi.size))
      (Array.replicate xi.size 0) with
  | none => rfl
  | some p =>
    obtain ⟨T', L'⟩ := p
    have h7 := tgs_loop7_eq x y m (ints xi) (ints yi) (ints inv) (ints inv) (xi.size : Int) T'.toList (ints L')
      L'.toList 0
    simp only [Int.natCast_zero] at h7
    simp only [Option.bind_some, tgs_after6]
    rw [show ints L' = L'.toList.map Int.ofNat from rfl] at h7 ⊢
    rw [h7]
    rw [show L'.toList.map Int.ofNat = ints L' from rfl, tgs_after7_eq _ _ _ _ _ _ _ _ _ _ _ (by omega),
      Array.foldl_toList]
    simp only [Array.size_replicate]
    have hlt : 1 + Array.foldl max 0 L' < 2 + Array.foldl max 0 L' := by omega
    simp only [dif_pos hlt]
    cases backScan xi yi inv L' ↑xi.size xi.size ↑(Array.foldl max 0 L')
        ((Array.replicate (2 + Array.foldl max 0 L') (0, 0)).set (1 + Array.foldl max 0 L') (x.length, y.length)
          (by simp)) with
    | none => rfl
    | some seq =>
      simp only [Option.bind_some, tgsFinish]
      by_cases h0 : 0 < seq.size
      · simp [h0]
      · simp [h0]

end GIV.Go.Diff
