/-
  GIV.Lemmas.ParWorkFinal — outcome of par.Work: which items are called (schedule independence),
  causality of calls, monotonicity of the ghost logs, the duplicate-Add case, the all-done test.
-/
import GIV.Lemmas.ParWorkWake
import GIV.Lemmas.ParWorkMeasure
namespace GIV.ParWork
open GIV.Gen.ParWork

/-! ### the items of a scenario -/

/-- the least set containing the initial items and closed under `children`
(`Item` itself is the model's name for the type of items) -/
inductive IsItem (c : Cfg) : Nat → Prop
  | init {x : Nat} : x ∈ c.init → IsItem c x
  | child {x y : Nat} : IsItem c x → y ∈ c.children x → IsItem c y

theorem IsItem.mem_closed {c : Cfg} {U : List Nat} (cl : Closed c U) {x : Nat} (h : IsItem c x) : x ∈ U := by
  induction h with
  | init h => exact cl.init _ h
  | child _ hy ih => exact cl.children _ ih _ hy

/-! ### field-by-field effect of the shared code -/

theorem addBody_added (s : State) (t : Nat) (k : Cont) (x : Item) :
    (addBody s t k x).added = if x ∈ s.added then s.added else x :: s.added := by
  rw [addBody_eq]; split <;> (try split) <;> rfl
theorem addBody_calls (s : State) (t : Nat) (k : Cont) (x : Item) : (addBody s t k x).calls = s.calls := by
  rw [addBody_eq]; split <;> (try split) <;> rfl
theorem addBody_waiting (s : State) (t : Nat) (k : Cont) (x : Item) : (addBody s t k x).waiting = s.waiting := by
  rw [addBody_eq]; split <;> (try split) <;> rfl
theorem addBody_running (s : State) (t : Nat) (k : Cont) (x : Item) : (addBody s t k x).running = s.running := by
  rw [addBody_eq]; split <;> (try split) <;> rfl
theorem loopHead_added (s : State) (t : Nat) : (loopHead s t).added = s.added := by
  rw [loopHead_eq]; split <;> (try split) <;> rfl
theorem loopHead_calls (s : State) (t : Nat) : (loopHead s t).calls = s.calls := by
  rw [loopHead_eq]; split <;> (try split) <;> rfl

theorem addPc_cases (s : State) (k : Cont) (x : Item) : addPc s k x = .addSignal k ∨ addPc s k x = .addUnlock k := by
  unfold addPc; split <;> (try split) <;> simp

theorem loopPc_cases (s : State) : loopPc s = .bcast ∨ loopPc s = .wait ∨ loopPc s = .rand := by
  unfold loopPc; split <;> (try split) <;> simp

/-! ### (c) the ghost logs only grow -/

theorem step_added {c : Cfg} {s s' : State} {t : Nat} {e : Event} (h : Step c s t e s') :
    s'.added = s.added ∨ ∃ p k x, s.pc t = p ∧ AddCall c p k x ∧ x ∉ s.added ∧ s'.added = x :: s.added := by
  cases h with
  | @addLock p k x hpc hcall ho =>
    rw [addBody_added]
    by_cases hx : x ∈ s.added
    · left; simp [hx]
    · right; exact ⟨p, k, x, hpc, hcall, hx, by simp [hx]⟩
  | lockTop hpc ho => left; rw [loopHead_added]
  | wake hpc hw ho => left; rw [loopHead_added]
  | _ => left; rfl

theorem step_calls {c : Cfg} {s s' : State} {t : Nat} {e : Event} (h : Step c s t e s') :
    s'.calls = s.calls ∨ ∃ x, s.pc t = .fEnter x ∧ e = .fEnter x ∧ s'.calls = s.calls ++ [x] := by
  cases h with
  | @addLock p k x hpc hcall ho => left; rw [addBody_calls]
  | lockTop hpc ho => left; rw [loopHead_calls]
  | wake hpc hw ho => left; rw [loopHead_calls]
  | @fEnter x hpc => right; exact ⟨x, hpc, rfl, rfl⟩
  | _ => left; rfl

theorem todo_sub_added {c : Cfg} {s : State} (inv : Inv c s) (x : Nat) (hx : x ∈ s.todo) : x ∈ s.added := by
  have := inv.items x
  have h1 : 0 < s.todo.count x := List.count_pos_iff.mpr hx
  split at this
  · assumption
  · omega

theorem holds_added {c : Cfg} {s : State} (inv : Inv c s) {t x : Nat} (hx : (s.pc t).holds x = true) : x ∈ s.added := by
  have := inv.items x
  have ht : t < c.n := inv.bound t (by intro h; rw [h] at hx; simp [Pc.holds] at hx)
  have h1 := cnt_pos (Pc.holds x) s.pc c.n t ht hx
  split at this
  · assumption
  · omega

/-! ### (a), (b): who is called, and why -/

/-- the item whose call of f the task is inside -/
def Pc.parent : Pc → Option Nat
  | .inF x _ | .addSignal (.inF x _) | .addUnlock (.inF x _) => some x
  | _ => none

/-- the items the task will still `Add` before it leaves its current straight-line code
(main: the rest of the initial items; inside `f x`: the rest of `children x`) -/
def pending (c : Cfg) : Pc → List Nat
  | .init => c.init
  | .mainAdd j => c.init.drop j
  | .addSignal (.main j) | .addUnlock (.main j) => c.init.drop (j + 1)
  | .inF x k => (c.children x).drop k
  | .addSignal (.inF x k) | .addUnlock (.inF x k) => (c.children x).drop (k + 1)
  | _ => []

structure InvF (c : Cfg) (s : State) : Prop where
  pc0 : s.pc 0 ≠ .absent
  parentCalled : ∀ t x : Nat, (s.pc t).parent = some x → x ∈ s.calls
  addedWhy : ∀ x : Nat, x ∈ s.added → x ∈ c.init ∨ ∃ p, p ∈ s.calls ∧ x ∈ c.children p
  causal : ∀ (l1 : List Nat) (x : Nat) (l2 : List Nat), s.calls = l1 ++ x :: l2 →
    x ∈ c.init ∨ ∃ p, p ∈ l1 ∧ x ∈ c.children p
  initP : ∀ x : Nat, x ∈ c.init → x ∈ s.added ∨ x ∈ pending c (s.pc 0)
  childP : ∀ p : Nat, p ∈ s.calls → ∀ y : Nat, y ∈ c.children p →
    y ∈ s.added ∨ ∃ t : Nat, (s.pc t).parent = some p ∧ y ∈ pending c (s.pc t)

theorem invF_init (c : Cfg) : InvF c init0 := by
  refine ⟨?_, ?_, ?_, ?_, ?_, ?_⟩
  · simp [init0]
  · intro t x; simp only [init0]; split <;> simp [Pc.parent]
  · simp [init0]
  · intro l1 x l2 h; simp [init0] at h
  · intro x hx; right; simpa [init0, pending] using hx
  · simp [init0]

/-- a step of task `t` that leaves `added` and `calls` alone -/
theorem invF_quiet {c : Cfg} {s s1 : State} {t : Nat} {p' : Pc} (f : InvF c s)
    (ha : s1.added = s.added) (hc : s1.calls = s.calls) (hpc : ∀ i, s1.pc i = if i = t then p' else s.pc i)
    (hp0 : p' ≠ .absent)
    (h0 : t = 0 → ∀ y, y ∈ pending c (s.pc t) → y ∈ pending c p')
    (h1 : ∀ x y, (s.pc t).parent = some x → y ∈ pending c (s.pc t) → p'.parent = some x ∧ y ∈ pending c p')
    (h2 : ∀ x, p'.parent = some x → (s.pc t).parent = some x) : InvF c s1 := by
  refine ⟨?_, ?_, ?_, ?_, ?_, ?_⟩
  · rw [hpc]; split
    · exact hp0
    · exact f.pc0
  · intro t1 x; rw [hpc, hc]; split
    · rename_i e; subst e; intro h; exact f.parentCalled t1 x (h2 x h)
    · exact f.parentCalled t1 x
  · rw [ha, hc]; exact f.addedWhy
  · rw [hc]; exact f.causal
  · intro x hx
    rcases f.initP x hx with h | h
    · left; rw [ha]; exact h
    · right; rw [hpc]; split
      · rename_i e; exact h0 e.symm x (e ▸ h)
      · exact h
  · intro p hp y hy
    rw [hc] at hp
    rcases f.childP p hp y hy with h | ⟨t1, hpar, hpend⟩
    · left; rw [ha]; exact h
    · right
      by_cases e : t1 = t
      · subst e
        obtain ⟨a, b⟩ := h1 p y hpar hpend
        exact ⟨t1, by rw [hpc, if_pos rfl]; exact a, by rw [hpc, if_pos rfl]; exact b⟩
      · exact ⟨t1, by rw [hpc, if_neg e]; exact hpar, by rw [hpc, if_neg e]; exact hpend⟩

theorem mem_drop_succ {l : List Nat} {j x y : Nat} (hj : l[j]? = some x) (hy : y ∈ l.drop j) :
    y = x ∨ y ∈ l.drop (j + 1) := by
  have hlt : j < l.length := getElem?_lt hj
  rw [List.drop_eq_getElem_cons hlt] at hy
  rw [List.getElem?_eq_getElem hlt] at hj
  rcases List.mem_cons.mp hy with h | h
  · left; rw [h]; exact Option.some.inj hj
  · right; exact h

theorem pending_add {c : Cfg} {p q : Pc} {k : Cont} {x : Nat} (hcall : AddCall c p k x)
    (hq : q = .addSignal k ∨ q = .addUnlock k) (y : Nat) (hy : y ∈ pending c p) :
    y = x ∨ y ∈ pending c q := by
  cases hcall with
  | main hj => rcases hq with h | h <;> subst h <;> exact mem_drop_succ hj hy
  | inF hj => rcases hq with h | h <;> subst h <;> exact mem_drop_succ hj hy

theorem parent_add {c : Cfg} {p q : Pc} {k : Cont} {x : Nat} (hcall : AddCall c p k x)
    (hq : q = .addSignal k ∨ q = .addUnlock k) : q.parent = p.parent := by
  cases hcall <;> rcases hq with h | h <;> subst h <;> rfl

/-- the body of `Add(x)` -/
theorem invF_add {c : Cfg} {s s1 : State} {t : Nat} {p q : Pc} {k : Cont} {x : Nat} (f : InvF c s)
    (hp : s.pc t = p) (hcall : AddCall c p k x) (hq : q = .addSignal k ∨ q = .addUnlock k)
    (ha : ∀ y, y ∈ s1.added ↔ y = x ∨ y ∈ s.added) (hc : s1.calls = s.calls)
    (hpc : ∀ i, s1.pc i = if i = t then q else s.pc i) : InvF c s1 := by
  have hpar := parent_add hcall hq
  have hpend := pending_add hcall hq
  refine ⟨?_, ?_, ?_, ?_, ?_, ?_⟩
  · rw [hpc]; split
    · rcases hq with h | h <;> subst h <;> simp
    · exact f.pc0
  · intro t1 y; rw [hpc, hc]; split
    · rename_i e; subst e; rw [hpar, ← hp]; exact f.parentCalled t1 y
    · exact f.parentCalled t1 y
  · intro y hy
    rw [hc]
    rcases (ha y).mp hy with h | h
    · subst h
      cases hcall with
      | main hj => left; exact List.mem_of_getElem? hj
      | @inF y0 i _ hj =>
        right; exact ⟨y0, f.parentCalled t y0 (by rw [hp]; rfl), List.mem_of_getElem? hj⟩
    · exact f.addedWhy y h
  · rw [hc]; exact f.causal
  · intro y hy
    rcases f.initP y hy with h | h
    · left; exact (ha y).mpr (Or.inr h)
    · rw [hpc]; split
      · rename_i e
        subst e
        rw [hp] at h
        rcases hpend y h with h' | h'
        · left; exact (ha y).mpr (Or.inl h')
        · right; exact h'
      · right; exact h
  · intro p0 hp0 y hy
    rw [hc] at hp0
    rcases f.childP p0 hp0 y hy with h | ⟨t1, hpa, hpe⟩
    · left; exact (ha y).mpr (Or.inr h)
    · by_cases e : t1 = t
      · subst e
        rw [hp] at hpa hpe
        rcases hpend y hpe with h' | h'
        · left; exact (ha y).mpr (Or.inl h')
        · right; exact ⟨t1, by rw [hpc, if_pos rfl, hpar]; exact hpa, by rw [hpc, if_pos rfl]; exact h'⟩
      · right; exact ⟨t1, by rw [hpc, if_neg e]; exact hpa, by rw [hpc, if_neg e]; exact hpe⟩

/-- `f x` is entered -/
theorem invF_fEnter {c : Cfg} {s s1 : State} {t : Nat} {x : Nat} (f : InvF c s)
    (hp : s.pc t = .fEnter x) (hx : x ∈ s.added)
    (ha : s1.added = s.added) (hc : s1.calls = s.calls ++ [x])
    (hpc : ∀ i, s1.pc i = if i = t then .inF x 0 else s.pc i) : InvF c s1 := by
  refine ⟨?_, ?_, ?_, ?_, ?_, ?_⟩
  · rw [hpc]; split
    · simp
    · exact f.pc0
  · intro t1 y; rw [hpc, hc]; split
    · intro h; simp only [Pc.parent, Option.some.injEq] at h; subst h; simp
    · intro h; exact List.mem_append_left _ (f.parentCalled t1 y h)
  · intro y hy
    rw [ha] at hy; rw [hc]
    rcases f.addedWhy y hy with h | ⟨p, h1, h2⟩
    · left; exact h
    · right; exact ⟨p, List.mem_append_left _ h1, h2⟩
  · intro l1 y l2 h
    rw [hc] at h
    rcases List.eq_nil_or_concat l2 with e | ⟨l2', z, e⟩
    · subst e
      have h' : s.calls ++ [x] = l1 ++ [y] := h
      obtain ⟨e1, e2⟩ := List.append_inj' h' rfl
      simp only [List.cons.injEq, and_true] at e2
      subst e1; subst e2
      exact f.addedWhy x hx
    · subst e
      have h' : s.calls ++ [x] = (l1 ++ y :: l2') ++ [z] := by
        rw [h]; simp
      obtain ⟨e1, _⟩ := List.append_inj' h' rfl
      exact f.causal l1 y l2' e1
  · intro y hy
    rcases f.initP y hy with h | h
    · left; rw [ha]; exact h
    · right; rw [hpc]; split
      · rename_i e; subst e; rw [hp] at h; simp [pending] at h
      · exact h
  · intro p0 hp0 y hy
    rw [hc] at hp0
    rcases List.mem_append.mp hp0 with hp0 | hp0
    · rcases f.childP p0 hp0 y hy with h | ⟨t1, hpa, hpe⟩
      · left; rw [ha]; exact h
      · right
        by_cases e : t1 = t
        · subst e; rw [hp] at hpa; simp [Pc.parent] at hpa
        · exact ⟨t1, by rw [hpc, if_neg e]; exact hpa, by rw [hpc, if_neg e]; exact hpe⟩
    · simp only [List.mem_singleton] at hp0; subst hp0
      right
      exact ⟨t, by rw [hpc, if_pos rfl]; rfl, by rw [hpc, if_pos rfl]; simpa [pending] using hy⟩

theorem drop_nil_of_none {l : List Nat} {k : Nat} (h : l[k]? = none) : l.drop k = [] :=
  List.drop_eq_nil_of_le (getElem?_ge h)

syntax "fquiet " ident ident : tactic
macro_rules
  | `(tactic| fquiet $f $hpc) => `(tactic|
    (refine invF_quiet $f rfl rfl (fun _ => rfl) (by simp [resume]) ?_ ?_ ?_
     · intro _ y; rw [$hpc:ident]; simp [pending, resume]
     · intro x y; rw [$hpc:ident]; simp +contextual [pending, Pc.parent, resume]
     · intro x; rw [$hpc:ident]; simp [Pc.parent, resume]))

theorem invF_step {c : Cfg} {s s' : State} {t : Nat} {e : Event} (inv : Inv c s) (f : InvF c s)
    (h : Step c s t e s') : InvF c s' := by
  cases h with
  | start hpc =>
    refine invF_quiet f rfl rfl (fun _ => rfl) (by split <;> simp) ?_ ?_ ?_
    · intro e0 y; rw [hpc]; simp [pending, e0]
    · intro x y; rw [hpc]; simp [Pc.parent]
    · intro x; split <;> simp [Pc.parent]
  | @addLock p k x hpc hcall ho =>
    refine invF_add (q := addPc { s with owner := some t } k x) f hpc hcall (addPc_cases _ k x) ?_ ?_ ?_
    · intro y; rw [addBody_added]; split
      · rename_i hx; constructor
        · exact Or.inr
        · intro h; rcases h with h | h
          · rw [h]; exact hx
          · exact h
      · simp
    · rw [addBody_calls]
    · intro i; rw [addBody_pc]; rfl
  | doCall hpc hj =>
    have hd := drop_nil_of_none hj
    refine invF_quiet f rfl rfl (fun _ => rfl) ?_ ?_ ?_ ?_
    · rw [afterSpawn_eq]; split <;> (try split) <;> simp
    · intro _ y; rw [hpc]; simp [pending, hd]
    · intro x y; rw [hpc]; simp [Pc.parent]
    · intro x; rw [afterSpawn_eq]; split <;> (try split) <;> simp [Pc.parent]
  | panic hpc => exact absurd hpc (inv.nopanic t)
  | @go i hpc =>
    have habs : s.pc i = .absent := inv.spawnAbs t i hpc i (Nat.le_refl i)
    have hit : t ≠ i := by intro e; rw [e, habs] at hpc; simp at hpc
    have f1 : InvF c (s.setPc i .init) := by
      refine invF_quiet f rfl rfl (fun _ => rfl) (by simp) ?_ ?_ ?_
      · intro _ y; rw [habs]; simp [pending]
      · intro x y; rw [habs]; simp [Pc.parent]
      · intro x; simp [Pc.parent]
    have hpc1 : (s.setPc i .init).pc t = .spawn i := by simp [State.setPc, upd, hit, hpc]
    refine invF_quiet f1 rfl rfl (fun _ => rfl) ?_ ?_ ?_ ?_
    · rw [afterSpawn_eq]; split <;> simp
    · intro _ y; rw [hpc1]; simp [pending]
    · intro x y; rw [hpc1]; simp [Pc.parent]
    · intro x; rw [afterSpawn_eq]; split <;> simp [Pc.parent]
  | lockTop hpc ho =>
    refine invF_quiet (p' := loopPc { s with owner := some t }) f (loopHead_added _ _) (loopHead_calls _ _)
      (fun i => by rw [loopHead_pc]; rfl) ?_ ?_ ?_ ?_
    · rcases loopPc_cases { s with owner := some t } with h | h | h <;> rw [h] <;> simp
    · intro _ y; rw [hpc]; simp [pending]
    · intro x y; rw [hpc]; simp [Pc.parent]
    · intro x; rcases loopPc_cases { s with owner := some t } with h | h | h <;> rw [h] <;> simp [Pc.parent]
  | wait hpc ho => fquiet f hpc
  | wake hpc hw ho =>
    refine invF_quiet (p' := loopPc { s with owner := some t, woken := s.woken.erase t, waiting := s.waiting - 1 }) f
      (loopHead_added _ _) (loopHead_calls _ _) (fun i => by rw [loopHead_pc]; rfl) ?_ ?_ ?_ ?_
    · rcases loopPc_cases { s with owner := some t, woken := s.woken.erase t, waiting := s.waiting - 1 } with h | h | h <;>
        rw [h] <;> simp
    · intro _ y; rw [hpc]; simp [pending]
    · intro x y; rw [hpc]; simp [Pc.parent]
    · intro x
      rcases loopPc_cases { s with owner := some t, woken := s.woken.erase t, waiting := s.waiting - 1 } with h | h | h <;>
        rw [h] <;> simp [Pc.parent]
  | spurious hpc hw =>
    refine invF_quiet (t := t) (p' := s.pc t) f rfl rfl (fun i => by split <;> simp_all) ?_ (fun _ _ h => h)
      (fun _ _ h1 h2 => ⟨h1, h2⟩) (fun _ h => h)
    rw [hpc]; simp
  | bcast hpc => fquiet f hpc
  | unlockRet hpc ho => fquiet f hpc
  | doReturn hpc ht0 => fquiet f hpc
  | exitRunner hpc ht0 => fquiet f hpc
  | exitMain hpc => fquiet f hpc
  | rand hpc hx => fquiet f hpc
  | unlockRun hpc ho => fquiet f hpc
  | @fEnter x hpc =>
    exact invF_fEnter f hpc (holds_added inv (t := t) (by rw [hpc]; simp [Pc.holds])) rfl rfl
      (fun _ => rfl)
  | @fExit x k hpc hk =>
    have hd := drop_nil_of_none hk
    refine invF_quiet f rfl rfl (fun _ => rfl) (by simp) ?_ ?_ ?_
    · intro _ y; rw [hpc]; simp [pending, hd]
    · intro x y; rw [hpc]; simp [pending, hd]
    · intro x; simp [Pc.parent]
  | @signalNone k hpc hw => cases k <;> fquiet f hpc
  | @signalSome k w rest hpc hw => cases k <;> fquiet f hpc
  | @addUnlock k hpc ho => cases k <;> fquiet f hpc

theorem invF_reach {c : Cfg} (hn : 1 ≤ c.n) {s : State} (h : Reach c s) : InvF c s := by
  induction h with
  | init => exact invF_init c
  | step hr hs ih => exact invF_step (inv_reach hn hr) ih (step_sound hs)

/-! ### the final state -/

theorem done_added_called {c : Cfg} {s : State} (inv : Inv c s) {d : Nat} (hd : (s.pc d).isDone = true)
    (x : Nat) (hx : x ∈ s.added) : x ∈ s.calls := by
  obtain ⟨h1, _, h3⟩ := inv.doneAll d hd
  have hz : cnt (Pc.holds x) s.pc c.n = 0 := by
    apply cnt_eq_zero
    intro i hi
    have := h3 i hi
    cases hp : s.pc i <;> simp_all [Pc.inW, Pc.holds]
  have := inv.items x
  rw [if_pos hx, h1, hz] at this
  apply List.count_pos_iff.mp
  simp at this
  omega

theorem called_isItem_aux {c : Cfg} {s : State} (f : InvF c s) :
    ∀ (n : Nat) (l1 : List Nat) (x : Nat) (l2 : List Nat), l1.length ≤ n → s.calls = l1 ++ x :: l2 → IsItem c x := by
  intro n
  induction n with
  | zero =>
    intro l1 x l2 hl hc
    rcases f.causal l1 x l2 hc with h | ⟨p, hp, _⟩
    · exact .init h
    · have : l1 = [] := List.eq_nil_of_length_eq_zero (by omega)
      subst this; simp at hp
  | succ n ih =>
    intro l1 x l2 hl hc
    rcases f.causal l1 x l2 hc with h | ⟨p, hp, hch⟩
    · exact .init h
    · obtain ⟨a, b, rfl⟩ := List.append_of_mem hp
      refine .child (ih a p (b ++ x :: l2) ?_ ?_) hch
      · simp at hl; omega
      · rw [hc]; simp

theorem called_isItem {c : Cfg} {s : State} (f : InvF c s) (x : Nat) (hx : x ∈ s.calls) : IsItem c x := by
  obtain ⟨a, b, h⟩ := List.append_of_mem hx
  exact called_isItem_aux f a.length a x b (Nat.le_refl _) h

theorem added_isItem {c : Cfg} {s : State} (f : InvF c s) (x : Nat) (hx : x ∈ s.added) : IsItem c x := by
  rcases f.addedWhy x hx with h | ⟨p, hp, hch⟩
  · exact .init h
  · exact .child (called_isItem f p hp) hch

theorem final_isItem_called {c : Cfg} {s : State} (inv : Inv c s) (f : InvF c s) (hf : final s)
    (x : Nat) (hx : IsItem c x) : x ∈ s.calls := by
  have h0 : s.pc 0 = .exited := by
    rcases hf 0 with h | h
    · exact h
    · exact absurd h f.pc0
  have hd : (s.pc 0).isDone = true := by rw [h0]; rfl
  have hnp : ∀ t, (s.pc t).parent = none ∧ pending c (s.pc t) = [] := by
    intro t; rcases hf t with h | h <;> rw [h] <;> exact ⟨rfl, rfl⟩
  induction hx with
  | init h =>
    rcases f.initP _ h with h' | h'
    · exact done_added_called inv hd _ h'
    · rw [(hnp 0).2] at h'; simp at h'
  | child _ hy ih =>
    rcases f.childP _ ih _ hy with h' | ⟨t, hpa, _⟩
    · exact done_added_called inv hd _ h'
    · rw [(hnp t).1] at hpa; simp at hpa

/-! ### (d) the Add step -/

theorem addCall_unique {c : Cfg} {p : Pc} {k k' : Cont} {x x' : Nat} (h : AddCall c p k x) (h' : AddCall c p k' x') :
    k = k' ∧ x = x' := by
  cases h <;> cases h' <;> simp_all

theorem step_add {c : Cfg} {s s' : State} {t : Nat} {p : Pc} {k : Cont} {x : Nat}
    (hs : step c s t .lock = some s') (hp : s.pc t = p) (hcall : AddCall c p k x) :
    s.owner = none ∧ s' = addBody { s with owner := some t } t k x := by
  have h := step_sound hs
  cases h with
  | @addLock p' k' x' hpc hcall' ho =>
    rw [hp] at hpc; subst hpc
    obtain ⟨rfl, rfl⟩ := addCall_unique hcall hcall'
    exact ⟨ho, rfl⟩
  | lockTop hpc ho => rw [hp] at hpc; subst hpc; cases hcall

theorem step_add_enabled {c : Cfg} {s : State} {t : Nat} {p : Pc} {k : Cont} {x : Nat}
    (hp : s.pc t = p) (hcall : AddCall c p k x) (ho : s.owner = none) :
    step c s t .lock = some (addBody { s with owner := some t } t k x) := by
  cases hcall with
  | main hj => simp [step, shapeOK_true, hp, hj, lockStep, ho]
  | inF hj => simp [step, shapeOK_true, hp, hj, lockStep, ho]

/-! ### (f) the all-done test -/

theorem cnt_inW_others (f : Nat → Pc) (n t : Nat) (ht : t < n) :
    cnt Pc.inW f n + (if (f t).inW then 0 else 1) = n ↔ ∀ i, i < n → i ≠ t → (f i).inW = true := by
  have h1 := cnt_upd Pc.inW f t .wait n ht
  simp only [show Pc.inW .wait = true from rfl, if_true] at h1
  constructor
  · intro h i hi hit
    have hfull : cnt Pc.inW (upd f t .wait) n = n := by
      cases hp : (f t).inW <;> simp [hp] at h h1 <;> omega
    have := cnt_full _ _ _ hfull i hi
    simpa [upd, hit] using this
  · intro h
    have hall : cnt Pc.inW (upd f t .wait) n = n := by
      apply cnt_all
      intro i hi
      by_cases hit : i = t
      · simp [upd, hit, Pc.inW]
      · simp only [upd, hit, if_false]; exact h i hi hit
    cases hp : (f t).inW <;> simp [hp] at h1 ⊢ <;> omega

theorem loopPc_bcast_iff (s : State) : loopPc s = .bcast ↔ s.todo = [] ∧ s.waiting + 1 = s.running := by
  unfold loopPc; split <;> (try split) <;> simp_all

/-- the test `len(w.todo) == 0 … w.waiting == w.running` made by runner `t` (at the top of the loop, or when woken)
succeeds exactly when nothing is queued and every other runner is counted in `w.waiting` -/
theorem allDone_iff {c : Cfg} {s s1 : State} {t : Nat} (inv : Inv c s)
    (hp : s.pc t = .lockTop ∨ s.pc t = .wake)
    (h2 : s1.todo = s.todo) (h3 : s1.waiting + (if (s.pc t).inW then 1 else 0) = s.waiting) (h4 : s1.running = s.running) :
    loopPc s1 = .bcast ↔ s.todo = [] ∧ ∀ i, i < c.n → i ≠ t → (s.pc i).inW = true := by
  have hpa : s.pc t ≠ .absent := by rcases hp with h | h <;> rw [h] <;> simp
  have hpre : (s.pc t).preDo = false := by rcases hp with h | h <;> rw [h] <;> rfl
  have ht : t < c.n := inv.bound t hpa
  have hrun : s.running = c.n := inv.run (run_of_pc inv hpa hpre)
  have hw := inv.waitingEq
  rw [loopPc_bcast_iff, h2, h4, hrun, ← cnt_inW_others s.pc c.n t ht]
  generalize cnt Pc.inW s.pc c.n = X at *
  cases hq : (s.pc t).inW <;> simp [hq] at h3 ⊢ <;> intro _ <;> omega

/-! ### (e) calls in progress versus items -/

/-- picked an item, has not entered f yet -/
def Pc.holdsSome : Pc → Bool
  | .unlockRun _ | .fEnter _ => true
  | _ => false

structure InvE (c : Cfg) (s : State) : Prop where
  inProg : cnt Pc.insideF s.pc c.n ≤ s.calls.length
  bal : s.todo.length + cnt Pc.holdsSome s.pc c.n + s.calls.length = s.added.length

theorem invE_init (c : Cfg) : InvE c init0 := by
  constructor
  · rw [cnt_eq_zero]; · simp
    intro i _; simp only [init0]; split <;> rfl
  · rw [cnt_eq_zero]; · simp [init0]
    intro i _; simp only [init0]; split <;> rfl

theorem invE_upd {c : Cfg} {s s1 : State} {t : Nat} {p' : Pc} (ht : t < c.n) (e : InvE c s)
    (hpc : s1.pc = upd s.pc t p')
    (hA : s.calls.length + (if p'.insideF then 1 else 0) ≤ s1.calls.length + (if (s.pc t).insideF then 1 else 0))
    (hB : s1.todo.length + (if p'.holdsSome then 1 else 0) + s1.calls.length + s.added.length =
          s.todo.length + (if (s.pc t).holdsSome then 1 else 0) + s.calls.length + s1.added.length) : InvE c s1 := by
  have a := cnt_upd Pc.insideF s.pc t p' c.n ht
  have b := cnt_upd Pc.holdsSome s.pc t p' c.n ht
  have e1 := e.inProg
  have e2 := e.bal
  constructor
  · rw [hpc]; omega
  · rw [hpc]; omega

syntax "egoal " ident ident ident : tactic
macro_rules
  | `(tactic| egoal $inv $e $hpc) => `(tactic|
    (refine invE_upd (($inv).bound _ (by rw [$hpc:ident]; simp)) $e rfl ?_ ?_ <;>
      (rw [$hpc:ident]; simp [Pc.insideF, Pc.holdsSome, State.setPc, resume])))

theorem invE_step {c : Cfg} {s s' : State} {t : Nat} {e : Event} (inv : Inv c s) (f : InvE c s)
    (h : Step c s t e s') : InvE c s' := by
  cases h with
  | start hpc => split <;> egoal inv f hpc
  | @addLock p k x hpc hcall ho =>
    have ht : t < c.n := inv.bound t (by rw [hpc]; cases hcall <;> simp)
    have hq : (addPc { s with owner := some t } k x).insideF = p.insideF ∧ (addPc { s with owner := some t } k x).holdsSome = false ∧
        p.holdsSome = false := by
      rcases addPc_cases { s with owner := some t } k x with h | h <;> rw [h] <;> cases hcall <;> exact ⟨rfl, rfl, rfl⟩
    refine invE_upd (p' := addPc { s with owner := some t } k x) ht f (addBody_pc _ _ _ _) ?_ ?_
    · rw [addBody_calls, hpc, hq.1]; exact Nat.le_refl _
    · rw [addBody_calls, addBody_todo, addBody_added, hpc, hq.2.1, hq.2.2]
      split <;> simp <;> omega
  | doCall hpc hj =>
    rw [afterSpawn_eq]; split <;> (try split) <;> egoal inv f hpc
  | panic hpc => exact absurd hpc (inv.nopanic t)
  | @go i hpc =>
    have habs : s.pc i = .absent := inv.spawnAbs t i hpc i (Nat.le_refl i)
    have hi : i < c.n := inv.spawnLt t i hpc
    have hit : t ≠ i := by intro e; rw [e, habs] at hpc; simp at hpc
    have ht : t < c.n := inv.bound t (by rw [hpc]; simp)
    have f1 : InvE c (s.setPc i .init) := by
      refine invE_upd hi f rfl ?_ ?_ <;> (rw [habs]; simp [Pc.insideF, Pc.holdsSome, State.setPc])
    have hpc1 : (s.setPc i .init).pc t = .spawn i := by simp [State.setPc, upd, hit, hpc]
    rw [afterSpawn_eq]
    split <;> (refine invE_upd ht f1 rfl ?_ ?_ <;> (rw [hpc1]; simp [Pc.insideF, Pc.holdsSome, State.setPc]))
  | lockTop hpc ho =>
    have ht : t < c.n := inv.bound t (by rw [hpc]; simp)
    refine invE_upd (p' := loopPc { s with owner := some t }) ht f (loopHead_pc _ _) ?_ ?_ <;>
      (rw [loopHead_calls, hpc]; try rw [loopHead_todo, loopHead_added]) <;>
      (rcases loopPc_cases { s with owner := some t } with h | h | h <;> rw [h] <;> simp [Pc.insideF, Pc.holdsSome])
  | wait hpc ho => egoal inv f hpc
  | wake hpc hw ho =>
    have ht : t < c.n := inv.bound t (by rw [hpc]; simp)
    refine invE_upd (p' := loopPc { s with owner := some t, woken := s.woken.erase t, waiting := s.waiting - 1 }) ht f
      (loopHead_pc _ _) ?_ ?_ <;>
      (rw [loopHead_calls, hpc]; try rw [loopHead_todo, loopHead_added]) <;>
      (rcases loopPc_cases { s with owner := some t, woken := s.woken.erase t, waiting := s.waiting - 1 } with h | h | h <;>
        rw [h] <;> simp [Pc.insideF, Pc.holdsSome])
  | spurious hpc hw => exact ⟨f.inProg, f.bal⟩
  | bcast hpc => egoal inv f hpc
  | unlockRet hpc ho => egoal inv f hpc
  | doReturn hpc ht0 => egoal inv f hpc
  | exitRunner hpc ht0 => egoal inv f hpc
  | exitMain hpc => egoal inv f hpc
  | @rand k x hpc hx =>
    have hl := length_swapRemove s.todo k x hx
    have ht : t < c.n := inv.bound t (by rw [hpc]; simp)
    refine invE_upd ht f rfl ?_ ?_ <;> (rw [hpc]; simp [Pc.insideF, Pc.holdsSome, State.setPc])
    omega
  | unlockRun hpc ho => egoal inv f hpc
  | @fEnter x hpc =>
    have ht : t < c.n := inv.bound t (by rw [hpc]; simp)
    refine invE_upd ht f rfl ?_ ?_ <;> (rw [hpc]; simp [Pc.insideF, Pc.holdsSome, State.setPc])
    omega
  | fExit hpc hk => egoal inv f hpc
  | @signalNone k hpc hw => cases k <;> egoal inv f hpc
  | @signalSome k w rest hpc hw => cases k <;> egoal inv f hpc
  | @addUnlock k hpc ho => cases k <;> egoal inv f hpc

theorem invE_reach {c : Cfg} (hn : 1 ≤ c.n) {s : State} (h : Reach c s) : InvE c s := by
  induction h with
  | init => exact invE_init c
  | step hr hs ih => exact invE_step (inv_reach hn hr) ih (step_sound hs)

theorem cnt_mono (p : Pc → Bool) (f : Nat → Pc) (a b : Nat) (h : a ≤ b) : cnt p f a ≤ cnt p f b := by
  induction b with
  | zero => have : a = 0 := by omega
            subst this; exact Nat.le_refl _
  | succ b ih =>
    by_cases hab : a = b + 1
    · subst hab; exact Nat.le_refl _
    · have := ih (by omega)
      simp only [cnt]; omega

theorem cnt_beyond (p : Pc → Bool) (f : Nat → Pc) (n N : Nat) (h : ∀ i, n ≤ i → p (f i) = false) :
    cnt p f N ≤ cnt p f n := by
  induction N with
  | zero => simp [cnt]
  | succ N ih =>
    by_cases hN : n ≤ N
    · simp only [cnt, h N hN]; simpa using ih
    · exact cnt_mono p f _ _ (by omega)

end GIV.ParWork
