/-
  Lemmas about the routing of `handler`: what a canonical URL is cut into, and what any routed URL
  looks like; module paths contain no '@'.
-/
import GIV.Lemmas.ProxyName
namespace GIV.Proxy
open GIV

theorem mem_splitOn (sep : UInt8) : ∀ (s : Bytes) (c : UInt8), c ∈ s → c ≠ sep → ∃ e ∈ splitOn sep s, c ∈ e := by
  intro s
  induction s with
  | nil => intro c h; cases h
  | cons d rest ih =>
    intro c hc hne
    unfold splitOn
    by_cases hd : d = sep
    · simp only [hd, if_true]
      rcases List.mem_cons.mp hc with rfl | hc
      · exact absurd hd hne
      · obtain ⟨e, he, hce⟩ := ih c hc hne
        exact ⟨e, List.mem_cons_of_mem _ he, hce⟩
    · simp only [hd, if_false]
      rcases List.mem_cons.mp hc with rfl | hc
      · cases splitOn sep rest with
        | nil => exact ⟨[c], by simp, by simp⟩
        | cons h t => exact ⟨c :: h, by simp, by simp⟩
      · obtain ⟨e, he, hce⟩ := ih c hc hne
        cases hs : splitOn sep rest with
        | nil => rw [hs] at he; cases he
        | cons h t =>
          rw [hs] at he
          rcases List.mem_cons.mp he with rfl | he
          · exact ⟨d :: e, by simp, List.mem_cons_of_mem _ hce⟩
          · exact ⟨e, by simp [he], hce⟩

/-- a valid module path contains no '@' -/
theorem checkPath_no_at {p : Bytes} (h : checkPath p = true) : (64 : UInt8) ∉ p := by
  intro hmem
  unfold checkPath at h
  simp only [Bool.and_eq_true] at h
  have h1 := h.1.1
  unfold checkPathElems at h1
  simp only [Bool.and_eq_true, List.all_eq_true] at h1
  obtain ⟨e, he, hce⟩ := mem_splitOn 47 p 64 hmem (by decide)
  have h2 := h1.2 e he
  unfold checkElem at h2
  simp only [Bool.and_eq_true, List.all_eq_true] at h2
  have h3 := h2.1.2 64 hce
  revert h3
  decide

theorem escapePath_no_at {p ep : Bytes} (h : escapePath p = some ep) : (64 : UInt8) ∉ ep := by
  obtain ⟨hc, hs⟩ := escapePath_eq_some.mp h
  intro hm
  exact checkPath_no_at hc ((mem_escapeString hs 64 (by decide) (by decide) (by decide)).mp hm)

/-- `"/mod/" ++ enc ++ "/@v/" ++ file` is routed to `(enc, file)` when `enc` has no '@' -/
theorem route_canonical (enc file : Bytes) (h : (64 : UInt8) ∉ enc) :
    route ([47, 109, 111, 100, 47] ++ enc ++ [47, 64, 118, 47] ++ file) = some (enc, file) := by
  unfold route cutAt
  have hp : Gen.Proxy.urlPrefix = [47, 109, 111, 100, 47] := rfl
  have hv : Gen.Proxy.vSep = [47, 64, 118, 47] := rfl
  rw [hp, hv]
  have h1 : hasPrefix [47, 109, 111, 100, 47] ([47, 109, 111, 100, 47] ++ enc ++ [47, 64, 118, 47] ++ file) = true :=
    List.isPrefixOf_iff_prefix.mpr ⟨enc ++ [47, 64, 118, 47] ++ file, by simp⟩
  have h2 : ([47, 109, 111, 100, 47] ++ enc ++ [47, 64, 118, 47] ++ file).drop ([47, 109, 111, 100, 47] : Bytes).length
      = enc ++ [47, 64, 118, 47] ++ file := by simp
  rw [h1, h2, indexOf_append 47 64 [118, 47] file (by decide) enc h]
  simp only [Bool.not_true, Bool.false_eq_true, if_false, Option.map_some, Option.some.injEq, Prod.mk.injEq]
  constructor
  · simp
  ·    simp

/-- every routed URL has the form `"/mod/" ++ enc ++ "/@v/" ++ file` -/
theorem route_spec {url enc file : Bytes} (h : route url = some (enc, file)) :
    url = [47, 109, 111, 100, 47] ++ enc ++ [47, 64, 118, 47] ++ file := by
  unfold route cutAt at h
  have hp : Gen.Proxy.urlPrefix = [47, 109, 111, 100, 47] := rfl
  have hv : Gen.Proxy.vSep = [47, 64, 118, 47] := rfl
  rw [hp, hv] at h
  by_cases hpre : hasPrefix [47, 109, 111, 100, 47] url = true
  · simp only [hpre, Bool.not_true, Bool.false_eq_true, if_false, Option.map_eq_some_iff, Prod.mk.injEq] at h
    obtain ⟨t, ht⟩ := List.isPrefixOf_iff_prefix.mp hpre
    obtain ⟨i, hi, h1, h2⟩ := h
    have hd : url.drop ([47, 109, 111, 100, 47] : Bytes).length = t := by rw [← ht]; simp
    rw [hd] at hi h1 h2
    obtain ⟨pre, post, hs, hl⟩ := indexOf_spec _ _ _ hi
    rw [← ht, hs]
    have e1 : enc = pre := by rw [← h1, hs, ← hl]; simp
    have e2 : file = post := by
      rw [← h2, hs, ← hl]
      simp
    rw [e1, e2]
    simp
  · simp [hpre] at h

theorem splitExt_canonical (ev ext : Bytes) (h : (46 : UInt8) ∉ ext) : splitExt (ev ++ 46 :: ext) = some (ev, ext) := by
  unfold splitExt
  have h1 : Gen.Proxy.extSplitLast = true := rfl
  have h2 : Gen.Proxy.extSep = [46] := rfl
  rw [h1, h2]
  have := lastIndexOf_append 46 [] ext (by simp) h ev
  simp only [List.append_assoc, List.cons_append, List.nil_append, if_true] at this ⊢
  rw [this]
  simp only [Option.map_some, Option.some.injEq, Prod.mk.injEq]
  constructor
  · simp
  ·    simp

theorem splitExt_spec {file ev ext : Bytes} (h : splitExt file = some (ev, ext)) : file = ev ++ 46 :: ext := by
  unfold splitExt at h
  have h1 : Gen.Proxy.extSplitLast = true := rfl
  have h2 : Gen.Proxy.extSep = [46] := rfl
  rw [h1, h2] at h
  simp only [if_true, Option.map_eq_some_iff, Prod.mk.injEq] at h
  obtain ⟨i, hi, e1, e2⟩ := h
  obtain ⟨pre, post, hs, hl⟩ := lastIndexOf_spec _ _ _ hi
  have e1' : ev = pre := by rw [← e1, hs, ← hl]; simp
  have e2' : ext = post := by
    rw [← e2, hs, ← hl]
    simp
  rw [e1', e2', hs]
  simp

/-- a request for `<escaped version>.<ext>` of an escaped path reaches `serveFile` with the unescaped pair -/
theorem serveRouted_file (x : Ext) (ml : List ModVer) (st : Store) (who : Bytes → Option (Bytes × Bytes))
    {p v ep ev : Bytes} (ext : Bytes) (hep : escapePath p = some ep) (hev : escapeVersion v = some ev)
    (hext : (46 : UInt8) ∉ ext) :
    serveRouted x ml st who ep (ev ++ 46 :: ext) = serveFile x ml st who p v ext := by
  unfold serveRouted
  rw [unescapePath_escapePath hep]
  have hne : ev ++ 46 :: ext ≠ Gen.Proxy.listName := by
    intro h
    have : (46 : UInt8) ∈ Gen.Proxy.listName := by rw [← h]; simp
    revert this
    decide
  simp only [hne, if_false]
  rw [splitExt_canonical ev ext hext]
  simp only
  rw [unescapeVersion_escapeVersion hev]

/-- for a recorded module version the commit-hash loop is not entered and the membership check passes -/
theorem serveFile_of_mem (x : Ext) {ml : List ModVer} {st : Store} (who : Bytes → Option (Bytes × Bytes))
    (hml : readModList st = some ml) {p v : Bytes} (hm : (⟨p, v⟩ : ModVer) ∈ ml) (ext : Bytes) :
    serveFile x ml st who p v ext =
      match archiveBase p v with
      | none => .notFound
      | some name =>
        match loadArchive x st name with
        | none => .notFound
        | some files =>
          if Gen.Proxy.fileExts.contains ext then
            match files.find? (fun f => f.name = Gen.Proxy.wantPrefix ++ ext) with
            | some f => .bytes f.data
            | none => .notFound
          else if ext = Gen.Proxy.zipExt then
            match who name with
            | some (p', v') => zipResponse (zipMembers p' v' files)
            | none => zipResponse (zipMembers p v files)
          else .notFound := by
  have hhex : allHex v = false := not_allHex_of_head (version_head_of_mem hml hm)
  have hres : resolve x st ml p v = v := by simp [resolve, hhex]
  have hc : ml.contains (⟨p, v⟩ : ModVer) = true := List.contains_iff_mem.mpr hm
  have hk : Gen.Proxy.zipKeyIsArchive = true := rfl
  unfold serveFile
  simp only [hres, hc, hk, Bool.not_true, Bool.and_false, Bool.false_eq_true, if_false, if_true]
  rfl

end GIV.Proxy
