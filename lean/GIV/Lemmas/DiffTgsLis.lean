/-
  tgs, part 2: sort.Search, Algorithm A (the T / L arrays) and the back-scan.
-/
import GIV.Model.Diff
namespace GIV.Diff
open GIV

/-- `sort.Search` as transcribed: for any (not necessarily monotone) total predicate the result
`r` lies in `[lo, hi]`, the predicate is false just below `r` (unless `r = lo`) and true at `r`
(unless `r = hi`); the iteration bound is never hit. -/
theorem searchLoop_spec (f : Nat → Option Bool) : ∀ (fuel lo hi : Nat), lo ≤ hi → hi - lo ≤ fuel →
    (∀ k, lo ≤ k → k < hi → ∃ b, f k = some b) →
    ∃ r, searchLoop f fuel lo hi = some r ∧ lo ≤ r ∧ r ≤ hi ∧ (r = lo ∨ f (r - 1) = some false) ∧ (r = hi ∨ f r = some true) := by
  intro fuel
  induction fuel with
  | zero =>
    intro lo hi hle hf _
    refine ⟨lo, ?_, Nat.le_refl _, hle, Or.inl rfl, Or.inl (by omega)⟩
    simp only [searchLoop]
    rw [if_neg (by omega)]
  | succ fuel ih =>
    intro lo hi hle hf htot
    unfold searchLoop
    by_cases hlt : lo < hi
    · rw [if_pos hlt]
      obtain ⟨b, hb⟩ := htot ((lo + hi) / 2) (by omega) (by omega)
      rw [hb]
      cases b with
      | false =>
        obtain ⟨r, h1, h2, h3, h4, h5⟩ := ih ((lo + hi) / 2 + 1) hi (by omega) (by omega)
          (fun k hk1 hk2 => htot k (by omega) hk2)
        refine ⟨r, h1, by omega, h3, ?_, h5⟩
        rcases h4 with h4 | h4
        · right; rw [h4]; simpa using hb
        · right; exact h4
      | true =>
        obtain ⟨r, h1, h2, h3, h4, h5⟩ := ih lo ((lo + hi) / 2) (by omega) (by omega)
          (fun k hk1 hk2 => htot k hk1 (by omega))
        refine ⟨r, h1, h2, by omega, h4, ?_⟩
        rcases h5 with h5 | h5
        · right; rw [h5]; exact hb
        · right; exact h5
    · rw [if_neg hlt]
      exact ⟨lo, rfl, Nat.le_refl _, hle, Or.inl rfl, Or.inl (by omega)⟩

theorem search_spec (f : Nat → Option Bool) (lo hi : Nat) (hle : lo ≤ hi)
    (htot : ∀ k, lo ≤ k → k < hi → ∃ b, f k = some b) :
    ∃ r, search f lo hi = some r ∧ lo ≤ r ∧ r ≤ hi ∧ (r = lo ∨ f (r - 1) = some false) ∧ (r = hi ∨ f r = some true) :=
  searchLoop_spec f (hi - lo) lo hi hle (Nat.le_refl _) htot

/-- Invariant of Szymanski's Algorithm A as coded, before processing index `i`:
`T[k]` is still the unfilled marker `n+1`, or it is `J[i']` for the last `i' < i` with `L[i'] = k+1`;
every assigned level `l ≥ 2` has, as the last earlier index of level `l-1`, one with a smaller `J`. -/
structure LIS (J : Array Nat) (n i : Nat) (T : Array Int) (L : Array Nat) : Prop where
  sT : T.size = n
  sL : L.size = n
  t1 : ∀ (k : Nat), i ≤ k → k < n → T[k]? = some ((n : Int) + 1)
  t2 : ∀ (k : Nat) (v : Int), T[k]? = some v → v ≠ (n : Int) + 1 →
    ∃ (i' a : Nat), i' < i ∧ L[i']? = some (k + 1) ∧ J[i']? = some a ∧ v = (a : Int) ∧
      ∀ (i'' : Nat), i' < i'' → i'' < i → L[i'']? ≠ some (k + 1)
  l1 : ∀ (i' l : Nat), i' < i → L[i']? = some l → 1 ≤ l ∧ (2 ≤ l →
    ∃ (i'' a b : Nat), i'' < i' ∧ L[i'']? = some (l - 1) ∧ J[i'']? = some a ∧ J[i']? = some b ∧ a < b ∧
      ∀ (i3 : Nat), i'' < i3 → i3 < i' → L[i3]? ≠ some (l - 1))

theorem lisLoop_spec (J : Array Nat) (n : Nat) (hJ : J.size = n) (hJn : ∀ (t a : Nat), J[t]? = some a → a ≤ n) :
    ∀ (fuel i : Nat) (T : Array Int) (L : Array Nat), i + fuel = n → LIS J n i T L →
      ∃ T' L', lisLoop J n fuel i T L = some (T', L') ∧ LIS J n n T' L' := by
  intro fuel
  induction fuel with
  | zero =>
    intro i T L hi inv
    have : i = n := by omega
    subst this
    exact ⟨T, L, rfl, inv⟩
  | succ fuel ih =>
    intro i T L hi inv
    have hin : i < n := by omega
    obtain ⟨ji, hji⟩ : ∃ ji, J[i]? = some ji := ⟨J[i], by simp [hin, hJ]⟩
    have hjin := hJn i ji hji
    have htot : ∀ k, 0 ≤ k → k < n → ∃ b, searchF T J i k = some b := by
      intro k _ hk
      have hk' : k < T.size := by rw [inv.sT]; exact hk
      have : T[k]? = some T[k] := by simp [hk']
      simp only [searchF, this, hji]
      exact ⟨_, rfl⟩
    obtain ⟨r, hr, _, hrn, hlo, _⟩ := search_spec _ 0 n (Nat.zero_le _) htot
    -- what the search result means
    have hlo' : r = 0 ∨ ∃ t : Int, T[r - 1]? = some t ∧ t < ji := by
      rcases hlo with h | h
      · exact Or.inl h
      · right
        simp only [searchF, hji] at h
        split at h
        · rename_i t j ht hj
          cases hj
          simp only [Gen.Diff.searchPred, Option.some.injEq, decide_eq_false_iff_not] at h
          exact ⟨t, ht, by omega⟩
        · cases h
    have hri : r ≤ i := by
      rcases hlo' with h | ⟨t, ht, hlt⟩
      · omega
      · by_cases hc : r ≤ i
        · exact hc
        · exfalso
          have := inv.t1 (r - 1) (by omega) (by omega)
          rw [this] at ht; cases ht; omega
    unfold lisLoop
    rw [hr]
    simp only [hji]
    rw [dif_pos (by rw [inv.sT]; omega), dif_pos (by rw [inv.sL]; omega)]
    apply ih (i + 1) _ _ (by omega)
    have sT := inv.sT
    have sL := inv.sL
    refine ⟨by simp [sT], by simp [sL], ?_, ?_, ?_⟩
    · intro k hk1 hk2
      have := inv.t1 k (by omega) hk2
      grind
    · intro k v hkv hv
      by_cases hkr : k = r
      · subst hkr
        refine ⟨i, ji, by omega, by grind, hji, by grind, fun i'' h1 h2 => by omega⟩
      · obtain ⟨i', a, h1, h2, h3, h4, h5⟩ := inv.t2 k v (by grind) hv
        refine ⟨i', a, by omega, by grind, h3, h4, fun i'' g1 g2 => ?_⟩
        by_cases hi'' : i'' = i
        · subst hi''; grind
        · have := h5 i'' g1 (by omega); grind
    · intro i' l hi' hl
      by_cases hii : i' = i
      · subst hii
        have hl' : l = r + 1 := by grind
        subst hl'
        refine ⟨by omega, fun h2 => ?_⟩
        rcases hlo' with h | ⟨t, ht, hlt⟩
        · omega
        · obtain ⟨i'', a, g1, g2, g3, g4, g5⟩ := inv.t2 (r - 1) t ht (by omega)
          refine ⟨i'', a, ji, g1, by grind, g3, hji, by omega, fun i3 e1 e2 => ?_⟩
          have := g5 i3 e1 e2
          grind
      · obtain ⟨g1, g2⟩ := inv.l1 i' l (by omega) (by grind)
        refine ⟨g1, fun h2 => ?_⟩
        obtain ⟨i'', a, b, e1, e2, e3, e4, e5, e6⟩ := g2 h2
        refine ⟨i'', a, b, e1, by grind, e3, e4, e5, fun i3 f1 f2 => ?_⟩
        have := e6 i3 f1 f2
        grind
theorem foldl_max_spec (l : List Nat) : ∀ acc : Nat,
    acc ≤ l.foldl max acc ∧ (∀ v ∈ l, v ≤ l.foldl max acc) ∧ (l.foldl max acc = acc ∨ l.foldl max acc ∈ l) := by
  induction l with
  | nil => intro acc; simp
  | cons a l ih =>
    intro acc
    obtain ⟨h1, h2, h3⟩ := ih (max acc a)
    simp only [List.foldl_cons, List.mem_cons, forall_eq_or_imp]
    refine ⟨by omega, ⟨by omega, h2⟩, ?_⟩
    rcases h3 with h | h
    · rw [h]
      by_cases hc : acc ≤ a
      · right; left; omega
      · left; omega
    · right; right; exact h

theorem kmax_spec (L : Array Nat) :
    (∀ (i l : Nat), L[i]? = some l → l ≤ L.foldl max 0) ∧ (L.foldl max 0 = 0 ∨ ∃ i : Nat, L[i]? = some (L.foldl max 0)) := by
  obtain ⟨_, h2, h3⟩ := foldl_max_spec L.toList 0
  rw [Array.foldl_toList] at h2 h3
  refine ⟨fun i l h => h2 l ?_, ?_⟩
  · rw [← Array.getElem?_toList] at h
    exact List.mem_of_getElem? h
  · rcases h3 with h | h
    · exact Or.inl h
    · right
      obtain ⟨i, hi, e⟩ := List.getElem_of_mem h
      exact ⟨i, by rw [← Array.getElem?_toList, List.getElem?_eq_getElem hi, e]⟩

/-- Invariant of the back-scan, before processing index `i - 1`; `k` is the level looked for. -/
structure BS (xi yi J L : Array Nat) (kmax : Nat) (e : Nat × Nat) (i k : Nat) (seq : Array (Nat × Nat)) : Prop where
  b0 : k ≤ kmax ∧ seq.size = 2 + kmax ∧ seq[1 + kmax]? = some e
  b1 : ∀ (k' : Nat), k < k' → k' ≤ kmax → ∃ (p a j1 j2 : Nat), i ≤ p ∧ xi[p]? = some j1 ∧ J[p]? = some a ∧
    yi[a]? = some j2 ∧ seq[k']? = some (j1, j2)
  b2 : ∀ (k1 k2 : Nat) (c1 c2 : Nat × Nat), k < k1 → k1 < k2 → k2 ≤ kmax → seq[k1]? = some c1 → seq[k2]? = some c2 →
    c1.1 < c2.1 ∧ c1.2 < c2.2
  b3 : 1 ≤ k → ∃ (i'' : Nat), i'' < i ∧ L[i'']? = some k ∧ (k < kmax →
    ∃ (p a b j1 j2 : Nat), i ≤ p ∧ xi[p]? = some j1 ∧ J[p]? = some b ∧ yi[b]? = some j2 ∧ seq[k + 1]? = some (j1, j2) ∧
      J[i'']? = some a ∧ a < b ∧ ∀ (i3 : Nat), i'' < i3 → i3 < i → L[i3]? ≠ some k)

theorem backScan_spec (xi yi J L : Array Nat) (n kmax : Nat) (e : Nat × Nat)
    (sxi : xi.size = n) (syi : yi.size = n) (sJ : J.size = n) (sL : L.size = n)
    (hJ : ∀ (t a : Nat), J[t]? = some a → a < n)
    (monoX : ∀ (t t' p p' : Nat), t < t' → xi[t]? = some p → xi[t']? = some p' → p < p')
    (monoY : ∀ (k k' j j' : Nat), k < k' → yi[k]? = some j → yi[k']? = some j' → j < j')
    (hl1 : ∀ (i' l : Nat), L[i']? = some l → 1 ≤ l ∧ (2 ≤ l →
      ∃ (i'' a b : Nat), i'' < i' ∧ L[i'']? = some (l - 1) ∧ J[i'']? = some a ∧ J[i']? = some b ∧ a < b ∧
        ∀ (i3 : Nat), i'' < i3 → i3 < i' → L[i3]? ≠ some (l - 1))) :
    ∀ (i k : Nat) (seq : Array (Nat × Nat)), i ≤ n → BS xi yi J L kmax e i k seq →
      ∃ seq', backScan xi yi J L (n : Int) i (k : Int) seq = some seq' ∧ BS xi yi J L kmax e 0 0 seq' := by
  intro i
  induction i with
  | zero =>
    intro k seq _ inv
    have hk : k = 0 := by
      by_cases h : 1 ≤ k
      · obtain ⟨i'', h1, _⟩ := inv.b3 h; omega
      · omega
    subst hk
    exact ⟨seq, rfl, inv⟩
  | succ q ih =>
    intro k seq hq inv
    have hq' : q < n := by omega
    obtain ⟨lq, hlq⟩ : ∃ lq, L[q]? = some lq := ⟨L[q]'(by omega), by simp [sL, hq']⟩
    obtain ⟨jq, hjq⟩ : ∃ jq, J[q]? = some jq := ⟨J[q]'(by omega), by simp [sJ, hq']⟩
    have hjqn := hJ q jq hjq
    obtain ⟨a1, ha1⟩ : ∃ a1, xi[q]? = some a1 := ⟨xi[q]'(by omega), by simp [sxi, hq']⟩
    obtain ⟨b1, hb1⟩ : ∃ b1, yi[jq]? = some b1 := ⟨yi[jq]'(by omega), by simp [syi, hjqn]⟩
    obtain ⟨hk0, hsz, hlast⟩ := inv.b0
    unfold backScan
    simp only [hlq, hjq]
    by_cases hpk : lq = k
    · subst hpk
      have hk1 : 1 ≤ lq := (hl1 q lq hlq).1
      have hcond : Gen.Diff.pickCond (lq : Int) (lq : Int) (jq : Int) (n : Int) = true := by
        simp only [Gen.Diff.pickCond, Bool.and_eq_true, decide_eq_true_eq]; exact ⟨trivial, by omega⟩
      rw [if_pos hcond]
      simp only [ha1, hb1]
      rw [if_pos (by omega), dif_pos (by rw [hsz]; omega)]
      have hkm : ((lq : Int) - 1) = ((lq - 1 : Nat) : Int) := by omega
      rw [hkm]
      apply ih (lq - 1) _ (by omega)
      have hlt : (lq : Int).toNat < seq.size := by rw [hsz]; omega
      have hself : (seq.set (lq : Int).toNat (a1, b1) hlt)[lq]? = some (a1, b1) := by
        simp
      have hother : ∀ k' : Nat, k' ≠ lq → (seq.set (lq : Int).toNat (a1, b1) hlt)[k']? = seq[k']? := by
        intro k' h; simp [Array.getElem?_set]; omega
      -- facts about the level above, from the pending part of the invariant
      have hnext : lq < kmax → ∃ (p b j1 j2 : Nat), q + 1 ≤ p ∧ xi[p]? = some j1 ∧ J[p]? = some b ∧ yi[b]? = some j2 ∧
          seq[lq + 1]? = some (j1, j2) ∧ jq < b := by
        intro hlt
        obtain ⟨i'', h1, h2, h3⟩ := inv.b3 hk1
        obtain ⟨p, a, b, j1, j2, g1, g2, g3, g4, g5, g6, g7, g8⟩ := h3 hlt
        have : i'' = q := by
          by_cases hc : i'' = q
          · exact hc
          · exact absurd hlq (g8 q (by omega) (by omega))
        subst this
        rw [hjq] at g6; cases g6
        exact ⟨p, b, j1, j2, g1, g2, g3, g4, g5, g7⟩
      refine ⟨⟨by omega, by simp [hsz], by rw [hother _ (by omega)]; exact hlast⟩, ?_, ?_, ?_⟩
      · intro k' h1 h2
        by_cases hk' : k' = lq
        · subst hk'
          exact ⟨q, jq, a1, b1, Nat.le_refl _, ha1, hjq, hb1, hself⟩
        · obtain ⟨p, a, j1, j2, g1, g2, g3, g4, g5⟩ := inv.b1 k' (by omega) h2
          exact ⟨p, a, j1, j2, by omega, g2, g3, g4, by rw [hother _ hk']; exact g5⟩
      · intro k1 k2 c1 c2 h1 h2 h3 hc1 hc2
        by_cases hk' : k1 = lq
        · subst hk'
          have hc1' : c1 = (a1, b1) := by rw [hself] at hc1; exact (Option.some.inj hc1).symm
          subst hc1'
          obtain ⟨p, b, j1, j2, g1, g2, g3, g4, g5, g6⟩ := hnext (by omega)
          have hx := monoX q p a1 j1 (by omega) ha1 g2
          have hy := monoY jq b b1 j2 g6 hb1 g4
          rw [hother _ (by omega)] at hc2
          by_cases hk2 : k2 = k1 + 1
          · subst hk2
            rw [g5] at hc2
            cases hc2
            exact ⟨hx, hy⟩
          · have := inv.b2 (k1 + 1) k2 (j1, j2) c2 (by omega) (by omega) h3 g5 hc2
            simp only at this ⊢
            omega
        · rw [hother _ hk'] at hc1
          rw [hother _ (by omega)] at hc2
          exact inv.b2 k1 k2 c1 c2 (by omega) h2 h3 hc1 hc2
      · intro hk2
        obtain ⟨i'', a, b, e1, e2, e3, e4, e5, e6⟩ := (hl1 q lq hlq).2 (by omega)
        rw [hjq] at e4; cases e4
        refine ⟨i'', e1, e2, fun _ => ⟨q, a, jq, a1, b1, Nat.le_refl _, ha1, hjq, hb1, ?_, e3, e5, e6⟩⟩
        rw [show lq - 1 + 1 = lq by omega]
        exact hself
    · have hcond : ¬ (Gen.Diff.pickCond (lq : Int) (k : Int) (jq : Int) (n : Int) = true) := by
        simp only [Gen.Diff.pickCond, Bool.and_eq_true, decide_eq_true_eq]; omega
      rw [if_neg hcond]
      apply ih k seq (by omega)
      refine ⟨inv.b0, ?_, inv.b2, ?_⟩
      · intro k' h1 h2
        obtain ⟨p, a, j1, j2, g1, g2⟩ := inv.b1 k' h1 h2
        exact ⟨p, a, j1, j2, by omega, g2⟩
      · intro hk1
        obtain ⟨i'', h1, h2, h3⟩ := inv.b3 hk1
        have hne : i'' ≠ q := by
          rintro rfl
          rw [hlq] at h2; cases h2; exact hpk rfl
        refine ⟨i'', by omega, h2, fun hlt => ?_⟩
        obtain ⟨p, a, b, j1, j2, g1, g2, g3, g4, g5, g6, g7, g8⟩ := h3 hlt
        exact ⟨p, a, b, j1, j2, by omega, g2, g3, g4, g5, g6, g7, fun i3 f1 f2 => g8 i3 f1 (by omega)⟩
end GIV.Diff
