/-
  C18 — the regenerated model: `GIV/Gen/ImportsReadGo.lean` (imports/read.go translated by
  harness/internal/go2lean on every run) against the hand-written byte machine
  `GIV.Model.ReadImports`.  Part 1: the state correspondence and the leaf functions
  (isIdent, syntaxError, readByte, the comment loops, peekByte, nextByte).

  STATE CORRESPONDENCE.  The translated `GoImportReader` is the Go struct with the bufio.Reader
  replaced by the input that remains; the model's `St` keeps `buf` reversed, has the error as an
  enumeration, and carries the import list and two flags of its own:

      ofSt st = { b := st.rest, buf := st.buf.reverse, peek := st.peek, err := errGo st.err,
                  eof := st.eof, nerr := st.nerr }           (imports: the in-out parameter `some st.imports`)

  `panicked` (the `nerr > 10000` panic has fired; the model runs on) and `stuck` (a loop of the
  model ran out of its budget) have no counterpart: where the model raises one of them the
  translation is `none`.  Every lemma therefore has the shape

      OK (f st) → OK st ∧ Go.f (ofSt st) = some (…, ofSt (f st))          OK st := ¬stuck ∧ ¬panicked

  (the flags are never reset, so `OK` of the final state gives `OK` of every state on the way), and
  the model's theorems `scan_not_stuck`, `scan_panicked` discharge the hypothesis at the top.
  The translation's loop budgets are the model's plus one (the model still evaluates the loop
  condition at budget 0), so loops correspond in lock step.
-/
import GIV.Gen.ImportsReadGo
import GIV.Model.ReadImports

namespace GIV.ReadGo
open GIV GIV.ReadImports GIV.GoLib GIV.Gen.Imports

abbrev GR := GIV.Go.Read.GoImportReader

/-- `errSyntax` / `errNUL` as the translation inlines them (errors.New messages). -/
def errSyntaxGo : GoError := some [115, 121, 110, 116, 97, 120, 32, 101, 114, 114, 111, 114]
def errNULGo : GoError :=
  some [117, 110, 101, 120, 112, 101, 99, 116, 101, 100, 32, 78, 85, 76, 32, 105, 110, 32, 105, 110, 112, 117, 116]

def errGo : Option Err → GoError
  | none => none
  | some .syntax => errSyntaxGo
  | some .nul => errNULGo

/-- the Go struct a model state stands for. -/
def ofSt (st : St) : GR :=
  { b := st.rest, buf := st.buf.reverse, peek := st.peek, err := errGo st.err, eof := st.eof, nerr := (st.nerr : Int) }

/-- neither model-only flag is raised. -/
def OK (st : St) : Prop := st.stuck = false ∧ st.panicked = false

@[simp] theorem errGo_eq_none (e : Option Err) : (errGo e == none) = e.isNone := by
  cases e with
  | none => rfl
  | some e => cases e <;> rfl

@[simp] theorem errGo_ne_none (e : Option Err) : (errGo e != none) = e.isSome := by
  cases e with
  | none => rfl
  | some e => cases e <;> rfl

@[simp] theorem errGo_eq_none_iff (e : Option Err) : errGo e = none ↔ e = none := by
  rcases e with _ | (_ | _) <;> simp [errGo, errSyntaxGo, errNULGo]

@[simp] theorem errGo_isSome (e : Option Err) : (errGo e).isSome = e.isSome := by
  rcases e with _ | (_ | _) <;> rfl

@[simp] theorem errGo_isNone (e : Option Err) : (errGo e).isNone = e.isNone := by
  rcases e with _ | (_ | _) <;> rfl

theorem errGo_eof (e : Option Err) : (errGo e == ioEOF) = false := by
  cases e with
  | none => rfl
  | some e => cases e <;> decide

theorem errGo_syntax (e : Option Err) : (errGo e == errSyntaxGo) = decide (e = some .syntax) := by
  cases e with
  | none => rfl
  | some e => cases e <;> decide

@[simp] theorem ofSt_b (st : St) : (ofSt st).b = st.rest := rfl
@[simp] theorem ofSt_buf (st : St) : (ofSt st).buf = st.buf.reverse := rfl
@[simp] theorem ofSt_peek (st : St) : (ofSt st).peek = st.peek := rfl
@[simp] theorem ofSt_err (st : St) : (ofSt st).err = errGo st.err := rfl
@[simp] theorem ofSt_eof (st : St) : (ofSt st).eof = st.eof := rfl
@[simp] theorem ofSt_nerr (st : St) : (ofSt st).nerr = (st.nerr : Int) := rfl

theorem bne_dec (a b : UInt8) : (a != b) = decide (a ≠ b) := by
  by_cases h : a = b <;> simp [h]

theorem beq_dec (a b : UInt8) : (a == b) = decide (a = b) := by
  by_cases h : a = b <;> simp [h]

/-! ### isIdent, syntaxError, readByte -/

theorem isIdent_eq (c : UInt8) : Go.Read.isIdent c = some (isIdent c) := by
  simp [Go.Read.isIdent, isIdent]
  rfl

theorem syntaxError_eq (st : St) : Go.Read.syntaxError (ofSt st) = some (ofSt (syntaxError st)) := by
  unfold Go.Read.syntaxError syntaxError
  cases h : st.err with
  | none => simp [h, ofSt, errGo, errSyntaxGo]
  | some e => cases e <;> simp [h, errGo, errSyntaxGo, errNULGo]

theorem ok_syntaxError (st : St) : OK (syntaxError st) ↔ OK st := by
  unfold syntaxError OK; split <;> rfl

theorem readByte_eq (st : St) : Go.Read.readByte (ofSt st) = some ((readByte st).1, ofSt (readByte st).2) := by
  unfold Go.Read.readByte readByte
  cases hr : st.rest with
  | nil => simp [hr, ofSt, readerReadByte, ioEOF]
  | cons c rest' =>
    by_cases hc : c = 0
    · rcases he : st.err with _ | (_ | _) <;>
        simp [hr, hc, he, ofSt, readerReadByte, errGo, errNULGo, errSyntaxGo, ioEOF]
    · rcases he : st.err with _ | (_ | _) <;>
        simp [hr, hc, he, ofSt, readerReadByte, errGo, errNULGo, errSyntaxGo, ioEOF]

theorem ok_readByte (st : St) : OK (readByte st).2 ↔ OK st := by
  unfold readByte OK
  cases st.rest with
  | nil => rfl
  | cons c rest' =>
    dsimp only
    split
    · split <;> rfl
    · rfl

theorem not_ok_setStuck (st : St) : ¬ OK (setStuck st) := by
  intro h; exact Bool.noConfusion h.1

/-! ### the comment loops of peekByte -/

/-- `for c != '\n' && r.err == nil && !r.eof { c = r.readByte() }` -/
theorem lineLoop_go (sk : Bool) : ∀ (n : Nat) (c : UInt8) (st : St), OK (lineLoop n c st).2 →
    OK st ∧ Go.Read.peekByte_loop2 sk (n + 1) (ofSt st) c =
      some (ofSt (lineLoop n c st).2, (lineLoop n c st).1) := by
  intro n
  induction n with
  | zero =>
    intro c st h
    unfold lineLoop at h ⊢
    unfold Go.Read.peekByte_loop2
    by_cases hc : (c ≠ 10 && st.err.isNone && !st.eof) = true
    · rw [if_pos hc] at h; exact absurd h (not_ok_setStuck st)
    · rw [if_neg hc] at h ⊢
      refine ⟨h, ?_⟩
      simp at hc ⊢
      intro a b d
      rw [hc a b] at d; cases d
  | succ n ih =>
    intro c st h
    unfold lineLoop at h ⊢
    unfold Go.Read.peekByte_loop2
    by_cases hc : (c ≠ 10 && st.err.isNone && !st.eof) = true
    · rw [if_pos hc] at h ⊢
      have := ih _ _ h
      rw [ok_readByte] at this
      refine ⟨this.1, ?_⟩
      obtain ⟨⟨h1, h2⟩, h3⟩ : (¬c = 10 ∧ st.err = none) ∧ st.eof = false := by simpa using hc
      simp [h1, h2, h3, readByte_eq, this.2]
    · rw [if_neg hc] at h ⊢
      refine ⟨h, ?_⟩
      simp at hc ⊢
      intro a b d
      rw [hc a b] at d; cases d

/-- `for (c != '*' || c1 != '/') && r.err == nil { if r.eof { r.syntaxError() }; c, c1 = c1, r.readByte() }` -/
theorem blockLoop_go (sk : Bool) : ∀ (n : Nat) (c c1 : UInt8) (st : St), OK (blockLoop n c c1 st) →
    OK st ∧ ∃ c' c1', Go.Read.peekByte_loop3 sk (n + 1) (ofSt st) c c1 =
      some (ofSt (blockLoop n c c1 st), c', c1') := by
  intro n
  induction n with
  | zero =>
    intro c c1 st h
    have hg : (((c != 42) || (c1 != 47)) && ((ofSt st).err == none)) = ((c ≠ 42 || c1 ≠ 47) && st.err.isNone) := by
      rw [bne_dec, bne_dec, ofSt_err, errGo_eq_none]
    unfold blockLoop at h ⊢
    unfold Go.Read.peekByte_loop3
    by_cases hc : ((c ≠ 42 || c1 ≠ 47) && st.err.isNone) = true
    · rw [if_pos hc] at h; exact absurd h (not_ok_setStuck st)
    · rw [if_neg hc] at h ⊢
      refine ⟨h, c, c1, ?_⟩
      simp only [Bool.not_eq_true] at hc
      rw [hg, hc]
      rfl
  | succ n ih =>
    intro c c1 st h
    have hg : (((c != 42) || (c1 != 47)) && ((ofSt st).err == none)) = ((c ≠ 42 || c1 ≠ 47) && st.err.isNone) := by
      rw [bne_dec, bne_dec, ofSt_err, errGo_eq_none]
    unfold blockLoop at h ⊢
    unfold Go.Read.peekByte_loop3
    by_cases hc : ((c ≠ 42 || c1 ≠ 47) && st.err.isNone) = true
    · rw [if_pos hc] at h ⊢
      obtain ⟨h0, c', c1', h1⟩ := ih _ _ _ h
      rw [ok_readByte] at h0
      have h0' : OK st := by
        by_cases he : st.eof = true
        · rw [if_pos he] at h0; exact (ok_syntaxError st).1 h0
        · rw [if_neg he] at h0; exact h0
      refine ⟨h0', c', c1', ?_⟩
      rw [hg, hc]
      by_cases he : st.eof = true
      · rw [if_pos he] at h1
        simp [he, syntaxError_eq, readByte_eq, h1]
      · rw [if_neg he] at h1
        simp [he, readByte_eq, h1]
    · rw [if_neg hc] at h ⊢
      refine ⟨h, c, c1, ?_⟩
      simp only [Bool.not_eq_true] at hc
      rw [hg, hc]
      rfl

/-! ### peekByte, nextByte -/

theorem isSpace_eq (c : UInt8) :
    ((((((c == 32) || (c == 12)) || (c == 9)) || (c == 13)) || (c == 10)) || (c == 59)) = isSpace c := by
  simp [isSpace, spaceBytes, beq_dec, Bool.or_assoc]

/-- `r.peek = c` -/
def withPeek (c : UInt8) (st : St) : St := { st with peek := c }

theorem ok_withPeek (c : UInt8) (st : St) : OK (withPeek c st) ↔ OK st := Iff.rfl

theorem after1_eq (sk : Bool) (c : UInt8) (st : St) :
    Go.Read.peekByte_after1 (ofSt st) sk c = some (c, ofSt (withPeek c st)) := rfl

/-- the `for r.err == nil && !r.eof { … }` loop of peekByte. -/
theorem skipLoop_go (sk : Bool) : ∀ (n : Nat) (c : UInt8) (st : St), OK (skipLoop sk n c st).2 →
    OK st ∧ Go.Read.peekByte_loop1 sk (n + 1) (ofSt st) c =
      some ((skipLoop sk n c st).1, ofSt (withPeek (skipLoop sk n c st).1 (skipLoop sk n c st).2)) := by
  intro n
  induction n with
  | zero =>
    intro c st h
    have hg : (((ofSt st).err == none) && !(ofSt st).eof) = (st.err.isNone && !st.eof) := by
      rw [ofSt_err, errGo_eq_none, ofSt_eof]
    unfold skipLoop at h ⊢
    unfold Go.Read.peekByte_loop1
    rw [hg, isSpace_eq]
    by_cases hc : (st.err.isNone && !st.eof && sk && (isSpace c || c = 47)) = true
    · rw [if_pos hc] at h; exact absurd h (not_ok_setStuck st)
    · rw [if_neg hc] at h ⊢
      refine ⟨h, ?_⟩
      simp only [Bool.not_eq_true] at hc
      rw [after1_eq]
      cases h1 : (st.err.isNone && !st.eof) <;> cases sk <;> cases h3 : isSpace c <;> simp_all
  | succ n ih =>
    intro c st h
    have hg : (((ofSt st).err == none) && !(ofSt st).eof) = (st.err.isNone && !st.eof) := by
      rw [ofSt_err, errGo_eq_none, ofSt_eof]
    unfold skipLoop at h ⊢
    unfold Go.Read.peekByte_loop1
    rw [hg, isSpace_eq]
    by_cases hc : (st.err.isNone && !st.eof && sk) = true
    · simp only [if_pos hc] at h ⊢
      obtain ⟨h1, rfl⟩ : (st.err.isNone && !st.eof) = true ∧ sk = true := by
        rw [Bool.and_eq_true] at hc; exact hc
      rw [h1]
      by_cases hs : isSpace c = true
      · simp only [if_pos hs] at h ⊢
        obtain ⟨h0, h2⟩ := ih _ _ h
        rw [ok_readByte] at h0
        refine ⟨h0, ?_⟩
        simp [readByte_eq, h2]
      · simp only [if_neg hs] at h ⊢
        by_cases h47 : c = 47
        · simp only [if_pos h47] at h ⊢
          generalize hr : readByte st = r at h ⊢
          obtain ⟨b, st'⟩ := r
          dsimp only at h ⊢
          generalize hst1 : (if b = 47 then (lineLoop (List.length st'.rest + 1) b st').snd
            else if b = 42 then blockLoop (List.length st'.rest + 2) b 0 st' else syntaxError st') = st1 at h ⊢
          obtain ⟨h0, h2⟩ := ih _ _ h
          rw [ok_readByte] at h0
          have hrb : Go.Read.readByte (ofSt st) = some (b, ofSt st') := by rw [readByte_eq, hr]
          have key : OK st' ∧ ∃ c', (if (b == 47) = true then
                (Go.Read.peekByte_loop2 true (List.length (ofSt st').b + 2) (ofSt st') b).bind fun x => pure (x.1, x.2)
              else (if (b == 42) = true then
                  (Go.Read.peekByte_loop3 true (List.length (ofSt st').b + 3) (ofSt st') b 0).bind fun x => pure (x.1, x.2.1)
                else (Go.Read.syntaxError (ofSt st')).bind fun r => pure (r, b)).bind fun x => pure (x.1, x.2)) =
              some (ofSt st1, c') := by
            by_cases hb : b = 47
            · rw [if_pos hb] at hst1
              subst hst1
              obtain ⟨h3, h4⟩ := lineLoop_go true _ _ _ h0
              refine ⟨h3, (lineLoop (List.length st'.rest + 1) b st').fst, ?_⟩
              have e : List.length (ofSt st').b + 2 = List.length st'.rest + 1 + 1 := rfl
              rw [e, h4]
              simp [hb]
            · rw [if_neg hb] at hst1
              by_cases hb2 : b = 42
              · rw [if_pos hb2] at hst1
                subst hst1
                obtain ⟨h3, c', c1', h4⟩ := blockLoop_go true _ _ _ _ h0
                refine ⟨h3, c', ?_⟩
                have e : List.length (ofSt st').b + 3 = List.length st'.rest + 2 + 1 := rfl
                rw [e, h4]
                simp [hb2]
              · rw [if_neg hb2] at hst1
                subst hst1
                refine ⟨(ok_syntaxError _).1 h0, b, ?_⟩
                simp [hb, hb2, syntaxError_eq]
          obtain ⟨h5, c', h6⟩ := key
          refine ⟨(ok_readByte st).1 (by rw [hr]; exact h5), ?_⟩
          rw [hrb]
          simp only [Option.bind_eq_bind, Option.bind_some] at h6 ⊢
          rw [h6]
          simp [readByte_eq, h2, h47]
        · simp only [if_neg h47] at h ⊢
          refine ⟨h, ?_⟩
          simp [h47, after1_eq]
    · simp only [if_neg hc] at h ⊢
      refine ⟨h, ?_⟩
      simp only [Bool.not_eq_true] at hc
      rw [after1_eq]
      cases h1 : (st.err.isNone && !st.eof) <;> cases sk <;> simp_all

/-- `peekByte(skipSpace)`: in particular the `nerr > 10000` panic does not fire while the model's `panicked` is clear. -/
theorem peekByte_go (sk : Bool) (st : St) (h : OK (peekByte sk st).2) :
    OK st ∧ Go.Read.peekByte (ofSt st) sk = some ((peekByte sk st).1, ofSt (peekByte sk st).2) := by
  unfold peekByte at h ⊢
  unfold Go.Read.peekByte
  by_cases he : st.err.isSome = true
  · simp only [if_pos he] at h ⊢
    obtain ⟨h1, h2⟩ := h
    dsimp only at h1 h2
    have h3 : st.panicked = false ∧ ¬ (st.nerr + 1 > nerrLimit) := by simpa using h2
    refine ⟨⟨h1, h3.1⟩, ?_⟩
    have h4 : ¬ ((st.nerr : Int) + 1 > 10000) := by
      have := h3.2; unfold nerrLimit at this; omega
    simp [he, h4, ofSt]
  · simp only [if_neg he] at h ⊢
    have he' : ((ofSt st).err != none) = false := by
      rw [ofSt_err, errGo_ne_none]; simpa using he
    rw [he']
    generalize hr : (if st.peek = 0 then readByte st else (st.peek, st)) = r at h ⊢
    obtain ⟨c, st'⟩ := r
    dsimp only at h ⊢
    obtain ⟨h1, h2⟩ := skipLoop_go sk _ _ _ ((ok_withPeek _ _).1 h)
    have e : List.length (ofSt st').b + 3 = List.length st'.rest + 2 + 1 := rfl
    by_cases hp : st.peek = 0
    · rw [if_pos hp] at hr
      refine ⟨(ok_readByte st).1 (by rw [hr]; exact h1), ?_⟩
      simp only [ofSt_peek, hp, beq_self_eq_true, if_true, Bool.false_eq_true, if_false, Option.bind_eq_bind,
        readByte_eq, hr, Option.bind_some, pure]
      rw [e, h2]
      rfl
    · rw [if_neg hp] at hr
      cases hr
      refine ⟨h1, ?_⟩
      have hp' : (st.peek == 0) = false := by simpa using hp
      simp only [ofSt_peek, hp', Bool.false_eq_true, if_false, Option.bind_eq_bind, Option.bind_some, pure]
      rw [e, h2]
      rfl

theorem ok_clearPeek (st : St) : OK { st with peek := 0 } ↔ OK st := Iff.rfl

/-- `nextByte(skipSpace)`. -/
theorem nextByte_go (sk : Bool) (st : St) (h : OK (nextByte sk st).2) :
    OK st ∧ Go.Read.nextByte (ofSt st) sk = some ((nextByte sk st).1, ofSt (nextByte sk st).2) := by
  unfold nextByte at h ⊢
  obtain ⟨h1, h2⟩ := peekByte_go sk st h
  refine ⟨h1, ?_⟩
  unfold Go.Read.nextByte
  rw [h2]
  rfl

end GIV.ReadGo
