/-
  The loop of `Diff` over the match sequence: invariant, one-step lemma, and the theorem that
  from a sequence satisfying `MsOK` the loop produces an edit script from `x` to `y`.
-/
import GIV.Lemmas.DiffScript
import GIV.Lemmas.DiffSeg

namespace GIV.Diff
open GIV

set_option linter.unusedSectionVars false
variable {α : Type} [DecidableEq α]

/-! ### the regenerated conditions, on natural numbers -/

theorem C_eq : Gen.Diff.C = 3 := rfl

theorem skipCond_iff (mx my dx dy : Nat) : Gen.Diff.skipCond mx my dx dy = true ↔ mx < dx := by
  simp only [Gen.Diff.skipCond, decide_eq_true_eq]; omega

theorem contCond_iff (sx sy w lx ly lc : Nat) :
    Gen.Diff.contCond ((sx + w : Nat) : Int) ((sy + w : Nat) : Int) sx sy lx ly lc = true ↔
      ((sx + w < lx ∨ sy + w < ly) ∧ (w < 3 ∨ (0 < lc ∧ w < 6))) := by
  have hC := C_eq
  simp only [Gen.Diff.contCond, Bool.and_eq_true, Bool.or_eq_true, decide_eq_true_eq]
  omega

theorem closeCond_iff (lc : Nat) : Gen.Diff.closeCond lc = true ↔ 0 < lc := by
  simp only [Gen.Diff.closeCond, decide_eq_true_eq]; omega

theorem closeN_eq (sx sy w : Nat) :
    Gen.Diff.closeN ((sx + w : Nat) : Int) ((sy + w : Nat) : Int) sx sy = ((min w 3 : Nat) : Int) := by
  have hC := C_eq
  simp only [Gen.Diff.closeN]
  omega

theorem eofCond_iff (ex ey lx ly : Nat) : Gen.Diff.eofCond ex ey lx ly = true ↔ (lx ≤ ex ∧ ly ≤ ey) := by
  simp only [Gen.Diff.eofCond, Bool.and_eq_true, decide_eq_true_eq]; omega

theorem newChunkX_eq (ex ey : Nat) (h : 3 ≤ ex) : Gen.Diff.newChunkX ex ey = ((ex - 3 : Nat) : Int) := by
  have hC := C_eq
  simp only [Gen.Diff.newChunkX]; omega

theorem newChunkY_eq (ex ey : Nat) (h : 3 ≤ ey) : Gen.Diff.newChunkY ex ey = ((ey - 3 : Nat) : Int) := by
  have hC := C_eq
  simp only [Gen.Diff.newChunkY]; omega

theorem hdrIncX_iff (cx cy : Nat) : Gen.Diff.hdrIncX cx cy = true ↔ 0 < cx := by
  simp only [Gen.Diff.hdrIncX, decide_eq_true_eq]; omega

theorem hdrIncY_iff (cx cy : Nat) : Gen.Diff.hdrIncY cx cy = true ↔ 0 < cy := by
  simp only [Gen.Diff.hdrIncY, decide_eq_true_eq]; omega

/-! ### sides of tagged lines -/

theorem oldSide_append (a b : List (Tag × α)) : oldSide (a ++ b) = oldSide a ++ oldSide b := by
  simp [oldSide]
theorem newSide_append (a b : List (Tag × α)) : newSide (a ++ b) = newSide a ++ newSide b := by
  simp [newSide]
theorem oldSide_del (l : List α) : oldSide (tagged .del l) = l := by
  induction l <;> simp_all [oldSide, tagged]
theorem oldSide_ins (l : List α) : oldSide (tagged .ins l) = [] := by
  induction l <;> simp_all [oldSide, tagged]
theorem oldSide_ctx (l : List α) : oldSide (tagged .ctx l) = l := by
  induction l <;> simp_all [oldSide, tagged]
theorem newSide_del (l : List α) : newSide (tagged .del l) = [] := by
  induction l <;> simp_all [newSide, tagged]
theorem newSide_ins (l : List α) : newSide (tagged .ins l) = l := by
  induction l <;> simp_all [newSide, tagged]
theorem newSide_ctx (l : List α) : newSide (tagged .ctx l) = l := by
  induction l <;> simp_all [newSide, tagged]

/-! ### what the loop needs from the match sequence -/

/-- `p` pairs a line of `x` with an equal line of `y`, and that line occurs nowhere else in `x` or `y`. -/
def Anchor (x y : List α) (p : Nat × Nat) : Prop :=
  ∃ a, x[p.1]? = some a ∧ y[p.2]? = some a ∧ (∀ i, x[i]? = some a → i = p.1) ∧ (∀ j, y[j]? = some a → j = p.2)

/-- The (rest of the) match sequence: in range, anchors or a sentinel, non-decreasing on
the `y` side, and the end sentinel is still to come. -/
structure MsOK (x y : List α) (ms : List (Nat × Nat)) : Prop where
  elems : ∀ m ∈ ms, m.1 ≤ x.length ∧ m.2 ≤ y.length ∧ (m = (x.length, y.length) ∨ m = (0, 0) ∨ Anchor x y m)
  mono : ms.Pairwise (fun a b => a.2 ≤ b.2)
  last : (x.length, y.length) ∈ ms

/-- What the hunk loop needs from `tgs`: the sequence is `(0,0)`, then anchors (equal lines that
are unique in `x` and in `y`), strictly increasing in both coordinates, then `(|x|, |y|)`. -/
structure TgsSpec (x y : List α) (s : List (Nat × Nat)) : Prop where
  shape : ∃ mid, s = (0, 0) :: mid ++ [(x.length, y.length)] ∧ (∀ p ∈ mid, Anchor x y p) ∧
    mid.Pairwise (fun p q => p.1 < q.1 ∧ p.2 < q.2)

theorem TgsSpec.msOK {x y : List α} {s : List (Nat × Nat)} (t : TgsSpec x y s) : MsOK x y s := by
  obtain ⟨mid, rfl, hanch, hmono⟩ := t.shape
  have hin : ∀ p ∈ mid, p.1 < x.length ∧ p.2 < y.length := by
    intro p hp
    obtain ⟨a, h1, h2, _⟩ := hanch p hp
    exact ⟨(List.getElem?_eq_some_iff.mp h1).1, (List.getElem?_eq_some_iff.mp h2).1⟩
  refine ⟨?_, ?_, by simp⟩
  · intro m hm
    simp only [List.cons_append, List.mem_cons, List.mem_append, List.mem_nil_iff, or_false] at hm
    rcases hm with rfl | hm | rfl
    · exact ⟨Nat.zero_le _, Nat.zero_le _, Or.inr (Or.inl rfl)⟩
    · have := hin m hm
      exact ⟨by omega, by omega, Or.inr (Or.inr (hanch m hm))⟩
    · exact ⟨Nat.le_refl _, Nat.le_refl _, Or.inl rfl⟩
  · rw [List.cons_append, List.pairwise_cons]
    refine ⟨fun _ _ => Nat.zero_le _, ?_⟩
    rw [List.pairwise_append]
    refine ⟨hmono.imp (fun h => by omega), by simp, ?_⟩
    intro p hp q hq
    simp only [List.mem_cons, List.mem_nil_iff, or_false] at hq
    subst hq
    have := hin p hp
    simp only
    omega

/-- The loop invariant at an iteration boundary (DESIGN §6.2). -/
structure Inv (x y : List α) (ms : List (Nat × Nat)) (st : St α) : Prop where
  dx : st.done.1 ≤ x.length
  dy : st.done.2 ≤ y.length
  /-- `done` lies on the diagonal through an already processed match -/
  diag : ∃ (m₀ : Nat × Nat) (t : Nat), st.done = (m₀.1 + t, m₀.2 + t) ∧ Diag x y m₀ t ∧ ∀ m' ∈ ms, m₀.2 ≤ m'.2
  /-- printed chunks rewrite `x[:px]` to `y[:py]`; the open chunk holds `x[px:done.x]` / `y[py:done.y]` -/
  chunk : ∃ px py : Nat, st.chunk = ((px : Int), (py : Int)) ∧ px ≤ st.done.1 ∧ py ≤ st.done.2 ∧
    Script 0 0 (x.take px) (y.take py) st.out ∧
    oldSide st.ctext = seg x px st.done.1 ∧ newSide st.ctext = seg y py st.done.2 ∧
    st.count = (st.done.1 - px, st.done.2 - py)

theorem Inv.init (x y : List α) (ms : List (Nat × Nat)) : Inv x y ms {} where
  dx := Nat.zero_le _
  dy := Nat.zero_le _
  diag := ⟨(0, 0), 0, rfl, Diag.zero _ _ _, fun _ _ => Nat.zero_le _⟩
  chunk := ⟨0, 0, rfl, Nat.le_refl _, Nat.le_refl _, by simpa using Script.nil 0 0 ([] : List α),
    by simp [oldSide, seg], by simp [newSide, seg], rfl⟩

/-- The diagonal argument: a later match at or beyond `done.x` is at or beyond `done.y`. -/
theorem Inv.done_y_le {x y : List α} {ms : List (Nat × Nat)} {st : St α} (inv : Inv x y ms st)
    {m : Nat × Nat} (hm : m ∈ ms) (hmy : m.2 ≤ y.length)
    (ha : m = (x.length, y.length) ∨ m = (0, 0) ∨ Anchor x y m)
    (hx : st.done.1 ≤ m.1) : st.done.2 ≤ m.2 := by
  obtain ⟨m₀, t, hdone, hd, hle⟩ := inv.diag
  rcases ha with rfl | rfl | ⟨a, hxa, hya, ux, _⟩
  · exact inv.dy
  · have h0 := hle _ hm
    rw [hdone] at hx ⊢
    simp only at hx h0 ⊢
    omega
  · by_cases h : st.done.2 ≤ m.2
    · exact h
    · exfalso
      have h0 := hle m hm
      rw [hdone] at h hx
      simp only at h hx
      obtain ⟨c, h1, h2⟩ := hd (m.2 - m₀.2) (by omega)
      rw [show m₀.2 + (m.2 - m₀.2) = m.2 by omega, hya] at h2
      cases h2
      have := ux _ h1
      omega

/-- Both expansions, packaged: the common run `[start, end)` around `m`. -/
theorem expand_spec (x y : List α) (dx dy : Nat) (m : Nat × Nat) (hmx : m.1 ≤ x.length) (hmy : m.2 ≤ y.length)
    (hdx : dx ≤ m.1) (hdy : dy ≤ m.2) :
    ∃ sx sy w e, expandStart x y dx dy m.1 m.2 = some (sx, sy) ∧ expandEnd x y m = (sx + w, sy + w) ∧
      Diag x y (sx, sy) w ∧ dx ≤ sx ∧ dy ≤ sy ∧ sx + w ≤ x.length ∧ sy + w ≤ y.length ∧
      (sx + w, sy + w) = (m.1 + e, m.2 + e) ∧ Diag x y m e := by
  obtain ⟨t, h1, h2, h3, h4⟩ := expandStart_spec x y dx dy m.1 m.2 hmx hmy hdx hdy
  obtain ⟨e, h5, h6⟩ := expandEnd_spec x y m
  have hd : Diag x y (m.1 - t, m.2 - t) (t + e) := by
    apply h4.append
    simpa [show m.1 - t + t = m.1 by omega, show m.2 - t + t = m.2 by omega] using h6
  have hb := hd.bound (by simp; omega) (by simp; omega)
  refine ⟨m.1 - t, m.2 - t, t + e, e, h1, ?_, hd, by omega, by omega, hb.1, hb.2, ?_, h6⟩
  · rw [h5]; congr 1 <;> omega
  · congr 1 <;> omega

/-- Printing the open chunk extends the script. -/
theorem emit_script {x y : List α} {out : List (Hunk α)} {px py qx qy cx cy : Nat} {body : List (Tag × α)}
    {c1 c2 : Int}
    (hscript : Script 0 0 (x.take px) (y.take py) out)
    (hold : oldSide body = seg x px qx) (hnew : newSide body = seg y py qy)
    (hpx : px ≤ qx) (hpy : py ≤ qy) (hqx : qx ≤ x.length) (hqy : qy ≤ y.length)
    (hcx : cx = qx - px) (hcy : cy = qy - py) (hc1 : c1 = px) (hc2 : c2 = py) :
    Script 0 0 (x.take qx) (y.take qy)
      (out ++ [⟨if Gen.Diff.hdrIncX cx cy then c1 + 1 else c1, cx, if Gen.Diff.hdrIncY cx cy then c2 + 1 else c2, cy, body⟩]) := by
  have hlo : (oldSide body).length = qx - px := by rw [hold]; exact seg_length hqx
  have hln : (newSide body).length = qy - py := by rw [hnew]; exact seg_length hqy
  have := hscript.snoc ⟨if Gen.Diff.hdrIncX cx cy then c1 + 1 else c1, cx, if Gen.Diff.hdrIncY cx cy then c2 + 1 else c2, cy, body⟩ [] ?_ ?_ ?_ ?_
  · simp only [hold, hnew, List.append_nil] at this
    rwa [take_append_seg hpx, take_append_seg hpy] at this
  · simp only [Hunk.posX, List.length_take, Nat.zero_add, hdrIncX_iff]
    rw [Nat.min_eq_left (by omega)]
    by_cases h : cx = 0
    · simp [h, hc1]
    · rw [if_neg h, if_pos (by omega)]; omega
  · simp only [Hunk.posY, List.length_take, Nat.zero_add, hdrIncY_iff]
    rw [Nat.min_eq_left (by omega)]
    by_cases h : cy = 0
    · simp [h, hc2]
    · rw [if_neg h, if_pos (by omega)]; omega
  · simp only [hlo, hcx]
  · simp only [hln, hcy]

theorem closeChunk_spec {x y : List α} {st : St α} {ctext1 : List (Tag × α)} {px py sx sy w : Nat}
    (hchunk : st.chunk = ((px : Int), (py : Int))) (hpx : px ≤ sx) (hpy : py ≤ sy)
    (hscript : Script 0 0 (x.take px) (y.take py) st.out)
    (hold1 : oldSide ctext1 = seg x px sx) (hnew1 : newSide ctext1 = seg y py sy)
    (hd : Diag x y (sx, sy) w) (hbx : sx + w ≤ x.length) (hby : sy + w ≤ y.length) :
    ∃ st2 n', closeChunk x st ctext1 (sx - px, sy - py) (sx, sy) (sx + w, sy + w) = some st2 ∧
      st2.ctext = [] ∧ st2.count = (0, 0) ∧ n' ≤ w ∧ (0 < ctext1.length → n' = min w 3) ∧
      (ctext1.length = 0 → n' = 0) ∧ Script 0 0 (x.take (sx + n')) (y.take (sy + n')) st2.out := by
  have hlo : (oldSide ctext1).length = sx - px := by rw [hold1]; exact seg_length (by omega)
  have hln : (newSide ctext1).length = sy - py := by rw [hnew1]; exact seg_length (by omega)
  by_cases hcl : 0 < ctext1.length
  · unfold closeChunk
    rw [if_pos ((closeCond_iff _).2 hcl)]
    simp only [closeN_eq]
    rw [if_neg (by omega), Int.toNat_natCast, slice_eq_seg (by omega) (by omega)]
    refine ⟨_, min w 3, rfl, rfl, rfl, by omega, fun _ => rfl, fun h => by omega, ?_⟩
    simp only
    have hcomm : seg x sx (sx + min w 3) = seg y sy (sy + min w 3) := by
      simpa using hd.seg_eq (a := 0) (b := min w 3) (by omega)
    have hlc : (seg x sx (sx + min w 3)).length = min w 3 := by rw [seg_length (by omega)]; omega
    apply emit_script hscript
    · rw [oldSide_append, oldSide_ctx, hold1]; exact seg_append hpx (by omega)
    · rw [newSide_append, newSide_ctx, hnew1, hcomm]; exact seg_append hpy (by omega)
    · omega
    · omega
    · omega
    · omega
    · rw [hlc]; omega
    · rw [hlc]; omega
    · rw [hchunk]
    · rw [hchunk]
  · have h0 : ctext1 = [] := List.eq_nil_of_length_eq_zero (by omega)
    subst h0
    simp only [oldSide, newSide, List.filterMap_nil, List.length_nil] at hlo hln
    unfold closeChunk
    rw [if_neg (by rw [closeCond_iff]; simp)]
    refine ⟨_, 0, rfl, rfl, ?_, by omega, fun h => by simp at h, fun _ => rfl, ?_⟩
    · simp only [Prod.mk.injEq]; omega
    · simp only [Nat.add_zero]
      rw [show sx = px by omega, show sy = py by omega]
      exact hscript

theorem openChunk_spec {x y : List α} {ms : List (Nat × Nat)} {st2 : St α} {sx sy w n' : Nat}
    (hctext : st2.ctext = []) (hcount : st2.count = (0, 0))
    (hscript : Script 0 0 (x.take (sx + n')) (y.take (sy + n')) st2.out)
    (hd : Diag x y (sx, sy) w) (hbx : sx + w ≤ x.length) (hby : sy + w ≤ y.length) (hn : n' + 3 ≤ w)
    (hdiag : ∃ (m₀ : Nat × Nat) (t : Nat), (sx + w, sy + w) = (m₀.1 + t, m₀.2 + t) ∧ Diag x y m₀ t ∧
      ∀ m' ∈ ms, m₀.2 ≤ m'.2) :
    ∃ st3, openChunk x st2 (sx + w, sy + w) = some st3 ∧ Inv x y ms st3 := by
  unfold openChunk
  simp only
  rw [newChunkX_eq _ _ (by omega), newChunkY_eq _ _ (by omega), if_neg (by omega), Int.toNat_natCast,
    slice_eq_seg (by omega) (by omega)]
  refine ⟨_, rfl, hbx, hby, hdiag, sx + w - 3, sy + w - 3, rfl, by simp only; omega, by simp only; omega, ?_, ?_, ?_, ?_⟩
  · simp only
    have hg : seg x (sx + n') (sx + (w - 3)) = seg y (sy + n') (sy + (w - 3)) := hd.seg_eq (by omega)
    have := hscript.gap_right (seg x (sx + n') (sx + (w - 3)))
    rw [take_append_seg (by omega), hg, take_append_seg (by omega)] at this
    rwa [show sx + w - 3 = sx + (w - 3) by omega, show sy + w - 3 = sy + (w - 3) by omega]
  · simp only [hctext, List.nil_append, oldSide_ctx]
  · simp only [hctext, List.nil_append, newSide_ctx]
    have := hd.seg_eq (a := w - 3) (b := w) (Nat.le_refl _)
    simp only at this
    rw [show sx + w - 3 = sx + (w - 3) by omega, show sy + w - 3 = sy + (w - 3) by omega]
    exact this
  · simp only [hcount, seg_length hbx, Prod.mk.injEq]
    omega

theorem step_ok {x y : List α} {m : Nat × Nat} {ms : List (Nat × Nat)} {st : St α}
    (hms : MsOK x y (m :: ms)) (inv : Inv x y (m :: ms) st) (hns : st.done.1 ≤ m.1) :
    ∃ st' b, step x y st m = some (st', b) ∧
      (b = true → Script 0 0 x y st'.out) ∧
      (b = false → Inv x y ms st' ∧ m ≠ (x.length, y.length)) := by
  obtain ⟨hmx, hmy, hm⟩ := hms.elems m (by simp)
  have hmono : ∀ m' ∈ ms, m.2 ≤ m'.2 := (List.pairwise_cons.mp hms.mono).1
  have hdy := inv.done_y_le (List.mem_cons_self ..) hmy hm hns
  obtain ⟨sx, sy, w, e, hst, hen, hd, hsx, hsy, hbx, hby, hme, hde⟩ :=
    expand_spec x y st.done.1 st.done.2 m hmx hmy hns hdy
  obtain ⟨px, py, hchunk, hpx, hpy, hscript, hold, hnew, hcount⟩ := inv.chunk
  obtain ⟨⟨d1, d2⟩, ⟨c1, c2⟩, ⟨n1, n2⟩, ctext, out⟩ := st
  simp only at *
  have hdiag' : ∃ (m₀ : Nat × Nat) (t : Nat), (sx + w, sy + w) = (m₀.1 + t, m₀.2 + t) ∧ Diag x y m₀ t ∧
      ∀ m' ∈ ms, m₀.2 ≤ m'.2 := ⟨m, e, hme, hde, hmono⟩
  have hold1 : oldSide (ctext ++ tagged .del (seg x d1 sx) ++ tagged .ins (seg y d2 sy)) = seg x px sx := by
    simp only [oldSide_append, oldSide_del, oldSide_ins, hold, List.append_nil]
    exact seg_append hpx hsx
  have hnew1 : newSide (ctext ++ tagged .del (seg x d1 sx) ++ tagged .ins (seg y d2 sy)) = seg y py sy := by
    simp only [newSide_append, newSide_del, newSide_ins, hnew, List.append_nil]
    exact seg_append hpy hsy
  have hl1 : (seg x d1 sx).length = sx - d1 := seg_length (by omega)
  have hl2 : (seg y d2 sy).length = sy - d2 := seg_length (by omega)
  have hseg : ∀ a b, b ≤ w → seg x (sx + a) (sx + b) = seg y (sy + a) (sy + b) := fun a b hb => hd.seg_eq hb
  have hcomm : seg x sx (sx + w) = seg y sy (sy + w) := by simpa using hseg 0 w (Nat.le_refl _)
  simp only [Prod.mk.injEq] at hcount hme hchunk
  unfold step
  simp only [hst, hen]
  rw [slice_eq_seg hsx (by omega), slice_eq_seg hsy (by omega)]
  simp only
  split
  · -- the chunk continues
    rename_i hc
    rw [contCond_iff] at hc
    rw [slice_eq_seg (by omega) hbx]
    refine ⟨_, false, rfl, by simp, fun _ => ⟨⟨hbx, hby, hdiag', ?_⟩, ?_⟩⟩
    · refine ⟨px, py, by simp [hchunk], by simp only; omega, by simp only; omega, hscript, ?_, ?_, ?_⟩
      · simp only [oldSide_append _ (tagged .ctx _), hold1, oldSide_ctx]
        exact seg_append (by omega) (by omega)
      · simp only [newSide_append _ (tagged .ctx _), hnew1, newSide_ctx, hcomm]
        exact seg_append (by omega) (by omega)
      · simp only [hl1, hl2, seg_length hbx, Prod.mk.injEq]
        omega
    · rintro rfl
      simp only at hme
      omega
  · rename_i hc
    rw [contCond_iff] at hc
    have hcnt : (n1 + (seg x d1 sx).length, n2 + (seg y d2 sy).length) = (sx - px, sy - py) := by
      simp only [hl1, hl2, Prod.mk.injEq]; omega
    rw [hcnt]
    obtain ⟨st2, n', hcl, hct2, hcn2, hn'w, hn'1, hn'0, hscript2⟩ :=
      closeChunk_spec (st := { done := (d1, d2), chunk := (c1, c2), count := (n1, n2), ctext := ctext, out := out })
        (x := x) (y := y) (w := w) (by simp [hchunk]) (by omega) (by omega) hscript hold1 hnew1 hd hbx hby
    rw [hcl]
    simp only
    split
    · -- EOF: break
      rename_i heof
      rw [eofCond_iff] at heof
      refine ⟨st2, true, rfl, fun _ => ?_, by simp⟩
      have hg : seg x (sx + n') (sx + w) = seg y (sy + n') (sy + w) := hseg n' w (Nat.le_refl _)
      have := hscript2.gap_right (seg x (sx + n') (sx + w))
      rw [take_append_seg (by omega), hg, take_append_seg (by omega)] at this
      rwa [List.take_of_length_le (by omega), List.take_of_length_le (by omega)] at this
    · -- a new chunk
      rename_i heof
      rw [eofCond_iff] at heof
      have hn3 : n' + 3 ≤ w := by
        by_cases h0 : 0 < (ctext ++ tagged Tag.del (seg x d1 sx) ++ tagged Tag.ins (seg y d2 sy)).length
        · have := hn'1 h0; omega
        · have := hn'0 (by omega); omega
      obtain ⟨st3, hop, hinv3⟩ := openChunk_spec (ms := ms) hct2 hcn2 hscript2 hd hbx hby hn3 hdiag'
      rw [hop]
      refine ⟨st3, false, rfl, by simp, fun _ => ⟨hinv3, ?_⟩⟩
      rintro rfl
      simp only at hme
      omega

/-- The loop: from a state satisfying the invariant, over a sequence satisfying `MsOK`, it ends
by `break` at the latest at the end sentinel, without panic, with a complete script. -/
theorem loop_ok {x y : List α} : ∀ (ms : List (Nat × Nat)) (st : St α), MsOK x y ms → Inv x y ms st →
    ∃ hs, loop x y ms st = some hs ∧ Script 0 0 x y hs := by
  intro ms
  induction ms with
  | nil => intro st hms _; exact absurd hms.last (by simp)
  | cons m ms ih =>
    intro st hms inv
    unfold loop
    by_cases hsk : m.1 < st.done.1
    · rw [if_pos ((skipCond_iff _ _ _ _).2 hsk)]
      have hne : m ≠ (x.length, y.length) := by
        rintro rfl
        have := inv.dx
        simp only at hsk
        omega
      have hms' : MsOK x y ms := ⟨fun m' h => hms.elems m' (List.mem_cons_of_mem _ h), (List.pairwise_cons.mp hms.mono).2,
        by have := hms.last; simp only [List.mem_cons] at this; rcases this with h | h
           · exact absurd h.symm hne
           · exact h⟩
      have inv' : Inv x y ms st := ⟨inv.dx, inv.dy,
        by obtain ⟨m₀, t, h1, h2, h3⟩ := inv.diag; exact ⟨m₀, t, h1, h2, fun m' h => h3 m' (List.mem_cons_of_mem _ h)⟩,
        inv.chunk⟩
      exact ih st hms' inv'
    · rw [if_neg (by rw [skipCond_iff]; exact hsk)]
      obtain ⟨st', b, hstep, hb1, hb2⟩ := step_ok hms inv (by omega)
      rw [hstep]
      cases b with
      | true => exact ⟨_, rfl, hb1 rfl⟩
      | false =>
        obtain ⟨inv', hne⟩ := hb2 rfl
        have hms' : MsOK x y ms := ⟨fun m' h => hms.elems m' (List.mem_cons_of_mem _ h), (List.pairwise_cons.mp hms.mono).2,
          by have := hms.last; simp only [List.mem_cons] at this; rcases this with h | h
             · exact absurd h.symm hne
             · exact h⟩
        exact ih st' hms' inv'

end GIV.Diff
