/-
  The loop of `Diff` over the match sequence: invariant, one-step lemma, and the theorem that
  from a sequence satisfying `MsOK` the loop produces an edit script from `x` to `y`.
-/
import GIV.Lemmas.DiffScript
import GIV.Lemmas.DiffSeg

namespace GIV.Diff
open GIV

set_option linter.unusedSectionVars false
variable {α : Type} [DecidableEq α]

/-! ### the regenerated conditions, on natural numbers -/

theorem C_eq : Gen.Diff.C = 3 := rfl

theorem skipCond_iff (mx my dx dy : Nat) : Gen.Diff.skipCond mx my dx dy = true ↔ mx < dx := by
  simp only [Gen.Diff.skipCond, decide_eq_true_eq]; omega

theorem contCond_iff (sx sy w lx ly lc : Nat) :
    Gen.Diff.contCond ((sx + w : Nat) : Int) ((sy + w : Nat) : Int) sx sy lx ly lc = true ↔
      ((sx + w < lx ∨ sy + w < ly) ∧ (w < 3 ∨ (0 < lc ∧ w < 6))) := by
  have hC := C_eq
  simp only [Gen.Diff.contCond, Bool.and_eq_true, Bool.or_eq_true, decide_eq_true_eq]
  omega

theorem closeCond_iff (lc : Nat) : Gen.Diff.closeCond lc = true ↔ 0 < lc := by
  simp only [Gen.Diff.closeCond, decide_eq_true_eq]; omega

theorem closeN_eq (sx sy w : Nat) :
    Gen.Diff.closeN ((sx + w : Nat) : Int) ((sy + w : Nat) : Int) sx sy = ((min w 3 : Nat) : Int) := by
  have hC := C_eq
  simp only [Gen.Diff.closeN]
  omega

theorem eofCond_iff (ex ey lx ly : Nat) : Gen.Diff.eofCond ex ey lx ly = true ↔ (lx ≤ ex ∧ ly ≤ ey) := by
  simp only [Gen.Diff.eofCond, Bool.and_eq_true, decide_eq_true_eq]; omega

theorem newChunkX_eq (ex ey : Nat) (h : 3 ≤ ex) : Gen.Diff.newChunkX ex ey = ((ex - 3 : Nat) : Int) := by
  have hC := C_eq
  simp only [Gen.Diff.newChunkX]; omega

theorem newChunkY_eq (ex ey : Nat) (h : 3 ≤ ey) : Gen.Diff.newChunkY ex ey = ((ey - 3 : Nat) : Int) := by
  have hC := C_eq
  simp only [Gen.Diff.newChunkY]; omega

theorem hdrIncX_iff (cx cy : Nat) : Gen.Diff.hdrIncX cx cy = true ↔ 0 < cx := by
  simp only [Gen.Diff.hdrIncX, decide_eq_true_eq]; omega

theorem hdrIncY_iff (cx cy : Nat) : Gen.Diff.hdrIncY cx cy = true ↔ 0 < cy := by
  simp only [Gen.Diff.hdrIncY, decide_eq_true_eq]; omega

/-! ### sides of tagged lines -/

theorem oldSide_append (a b : List (Tag × α)) : oldSide (a ++ b) = oldSide a ++ oldSide b := by
  simp [oldSide]
theorem newSide_append (a b : List (Tag × α)) : newSide (a ++ b) = newSide a ++ newSide b := by
  simp [newSide]
theorem oldSide_del (l : List α) : oldSide (tagged .del l) = l := by
  induction l <;> simp_all [oldSide, tagged]
theorem oldSide_ins (l : List α) : oldSide (tagged .ins l) = [] := by
  induction l <;> simp_all [oldSide, tagged]
theorem oldSide_ctx (l : List α) : oldSide (tagged .ctx l) = l := by
  induction l <;> simp_all [oldSide, tagged]
theorem newSide_del (l : List α) : newSide (tagged .del l) = [] := by
  induction l <;> simp_all [newSide, tagged]
theorem newSide_ins (l : List α) : newSide (tagged .ins l) = l := by
  induction l <;> simp_all [newSide, tagged]
theorem newSide_ctx (l : List α) : newSide (tagged .ctx l) = l := by
  induction l <;> simp_all [newSide, tagged]

/-! ### what the loop needs from the match sequence -/

/-- `p` pairs a line of `x` with an equal line of `y`, and that line occurs nowhere else in `x` or `y`. -/
def Anchor (x y : List α) (p : Nat × Nat) : Prop :=
  ∃ a, x[p.1]? = some a ∧ y[p.2]? = some a ∧ (∀ i, x[i]? = some a → i = p.1) ∧ (∀ j, y[j]? = some a → j = p.2)

/-- The (rest of the) match sequence: in range, anchors or the end sentinel, non-decreasing on
the `y` side, and the end sentinel is still to come. -/
structure MsOK (x y : List α) (ms : List (Nat × Nat)) : Prop where
  elems : ∀ m ∈ ms, m.1 ≤ x.length ∧ m.2 ≤ y.length ∧ (m = (x.length, y.length) ∨ Anchor x y m)
  mono : ms.Pairwise (fun a b => a.2 ≤ b.2)
  last : (x.length, y.length) ∈ ms

/-- The loop invariant at an iteration boundary (DESIGN §6.2). -/
structure Inv (x y : List α) (ms : List (Nat × Nat)) (st : St α) : Prop where
  dx : st.done.1 ≤ x.length
  dy : st.done.2 ≤ y.length
  /-- `done` lies on the diagonal through an already processed match -/
  diag : ∃ (m₀ : Nat × Nat) (t : Nat), st.done = (m₀.1 + t, m₀.2 + t) ∧ Diag x y m₀ t ∧ ∀ m' ∈ ms, m₀.2 ≤ m'.2
  /-- printed chunks rewrite `x[:px]` to `y[:py]`; the open chunk holds `x[px:done.x]` / `y[py:done.y]` -/
  chunk : ∃ px py : Nat, st.chunk = ((px : Int), (py : Int)) ∧ px ≤ st.done.1 ∧ py ≤ st.done.2 ∧
    Script 0 0 (x.take px) (y.take py) st.out ∧
    oldSide st.ctext = seg x px st.done.1 ∧ newSide st.ctext = seg y py st.done.2 ∧
    st.count = (st.done.1 - px, st.done.2 - py)

theorem Inv.init (x y : List α) (ms : List (Nat × Nat)) : Inv x y ms {} where
  dx := Nat.zero_le _
  dy := Nat.zero_le _
  diag := ⟨(0, 0), 0, rfl, Diag.zero _ _ _, fun _ _ => Nat.zero_le _⟩
  chunk := ⟨0, 0, rfl, Nat.le_refl _, Nat.le_refl _, by simpa using Script.nil 0 0 ([] : List α),
    by simp [oldSide, seg], by simp [newSide, seg], rfl⟩

/-- The diagonal argument: a later match at or beyond `done.x` is at or beyond `done.y`. -/
theorem Inv.done_y_le {x y : List α} {ms : List (Nat × Nat)} {st : St α} (inv : Inv x y ms st)
    {m : Nat × Nat} (hm : m ∈ ms) (hmy : m.2 ≤ y.length) (ha : m = (x.length, y.length) ∨ Anchor x y m)
    (hx : st.done.1 ≤ m.1) : st.done.2 ≤ m.2 := by
  obtain ⟨m₀, t, hdone, hd, hle⟩ := inv.diag
  rcases ha with rfl | ⟨a, hxa, hya, ux, _⟩
  · exact inv.dy
  · by_cases h : st.done.2 ≤ m.2
    · exact h
    · exfalso
      have h0 := hle m hm
      rw [hdone] at h hx
      simp only at h hx
      obtain ⟨c, h1, h2⟩ := hd (m.2 - m₀.2) (by omega)
      rw [show m₀.2 + (m.2 - m₀.2) = m.2 by omega, hya] at h2
      cases h2
      have := ux _ h1
      omega

/-- Both expansions, packaged: the common run `[start, end)` around `m`. -/
theorem expand_spec (x y : List α) (dx dy : Nat) (m : Nat × Nat) (hmx : m.1 ≤ x.length) (hmy : m.2 ≤ y.length)
    (hdx : dx ≤ m.1) (hdy : dy ≤ m.2) :
    ∃ sx sy w e, expandStart x y dx dy m.1 m.2 = some (sx, sy) ∧ expandEnd x y m = (sx + w, sy + w) ∧
      Diag x y (sx, sy) w ∧ dx ≤ sx ∧ dy ≤ sy ∧ sx + w ≤ x.length ∧ sy + w ≤ y.length ∧
      (sx + w, sy + w) = (m.1 + e, m.2 + e) ∧ Diag x y m e := by
  obtain ⟨t, h1, h2, h3, h4⟩ := expandStart_spec x y dx dy m.1 m.2 hmx hmy hdx hdy
  obtain ⟨e, h5, h6⟩ := expandEnd_spec x y m
  have hd : Diag x y (m.1 - t, m.2 - t) (t + e) := by
    apply h4.append
    simpa [show m.1 - t + t = m.1 by omega, show m.2 - t + t = m.2 by omega] using h6
  have hb := hd.bound (by simp; omega) (by simp; omega)
  refine ⟨m.1 - t, m.2 - t, t + e, e, h1, ?_, hd, by omega, by omega, hb.1, hb.2, ?_, h6⟩
  · rw [h5]; congr 1 <;> omega
  · congr 1 <;> omega

end GIV.Diff
