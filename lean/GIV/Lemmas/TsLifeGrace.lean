/-
  Lemmas for GIV.Model.TsLifeDl §1 (grace-period arithmetic) and §7 (cmdExec attribution).
  The regenerated numbers are hypotheses (`FGrace`, `FExec`); GIV/Props/C17.lean discharges them
  from GIV.Gen.TsLifeDl.
-/
import GIV.Model.TsLifeDl

namespace GIV.TsLife
open GIV

/-! ### §1 grace -/

/-- the numbers of RunT's deadline block as the property states them. -/
class FGrace : Prop where
  dflt : Gen.TsLifeDl.defaultGraceNs = 100000000
  div : Gen.TsLifeDl.graceDivisor = 20
  strict : Gen.TsLifeDl.graceCmpStrict = true
  reserved : Gen.TsLifeDl.reservedGraces = 2

theorem tdiv20_of_neg (t : Int) (h : t < 0) : Int.tdiv t 20 ≤ 0 := by
  have h1 : t = -(-t) := by omega
  rw [h1, Int.neg_tdiv, Int.tdiv_eq_ediv_of_nonneg (by omega)]
  omega

theorem grace_eq [F : FGrace] (t : Int) :
    grace t = if Int.tdiv t 20 > 100000000 then Int.tdiv t 20 else 100000000 := by
  simp only [grace, F.dflt, F.div, F.strict, if_true]
  by_cases h : Int.tdiv t 20 > 100000000 <;> simp [h]

theorem grace_eq_max [FGrace] (t : Int) : grace t = max 100000000 (Int.tdiv t 20) := by
  rw [grace_eq]; split <;> omega

theorem grace_ge [FGrace] (t : Int) : 100000000 ≤ grace t := by
  rw [grace_eq]; split <;> omega

/-- up to two seconds the grace period is the minimum. -/
theorem grace_small [FGrace] (t : Int) (h : t ≤ 2000000000) : grace t = 100000000 := by
  rw [grace_eq]
  by_cases h0 : 0 ≤ t
  · rw [Int.tdiv_eq_ediv_of_nonneg h0]; split <;> omega
  · have := tdiv20_of_neg t (by omega); split <;> omega

/-- beyond, it is 5% of the remaining time (rounded down). -/
theorem grace_large [FGrace] (t : Int) (h : 2000000020 ≤ t) : grace t = t / 20 := by
  rw [grace_eq, Int.tdiv_eq_ediv_of_nonneg (by omega)]; split <;> omega

theorem grace_le [FGrace] (t : Int) (h : 0 ≤ t) : 20 * grace t ≤ max 2000000000 t := by
  rw [grace_eq, Int.tdiv_eq_ediv_of_nonneg h]; split <;> omega

theorem ctxTimeout_eq [F : FGrace] (t : Int) : ctxTimeout t = t - 2 * grace t := by
  simp [ctxTimeout, F.reserved]

theorem plan_eq [FGrace] (t : Int) :
    (plan t).grace = grace t ∧ (plan t).interruptAt = t - 2 * grace t ∧ (plan t).killAt = t - grace t := by
  simp only [plan, fgKillDelay, ctxTimeout_eq]
  refine ⟨trivial, trivial, ?_⟩
  omega

theorem ctxTimeout_pos_iff [FGrace] (t : Int) : 0 < ctxTimeout t ↔ 200000000 < t := by
  rw [ctxTimeout_eq, grace_eq]
  by_cases h0 : 0 ≤ t
  · rw [Int.tdiv_eq_ediv_of_nonneg h0]; split <;> omega
  · have := tdiv20_of_neg t (by omega); split <;> omega

/-- at least 90% of the time (minus nothing more than 200ms) is left to the scripts. -/
theorem ctxTimeout_ge [FGrace] (t : Int) (h : 0 ≤ t) : 10 * ctxTimeout t ≥ min (10 * t - 2000000000) (9 * t) := by
  rw [ctxTimeout_eq, grace_eq, Int.tdiv_eq_ediv_of_nonneg h]; split <;> omega

/-- one context per RunT call, released by the finisher that removes the root -/
class FCtxOnce : Prop where
  once : Gen.TsLifeDl.ctxCreatedOncePerRun = true
  released : Gen.TsLifeDl.cancelAfterRootRemove = true

theorem scriptCtxExpiry_eq [FGrace] [F : FCtxOnce] (call start timeout : Int) :
    scriptCtxExpiry call start timeout = call + timeout - 2 * grace timeout := by
  simp only [scriptCtxExpiry, F.once, if_true, ctxTimeout_eq]
  omega

/-! ### §7 cmdExec -/

class FExec : Prop where
  first : Gen.TsLifeDl.timeoutCheckedFirst = true
  msg : Gen.TsLifeDl.timedOutMsg = "test timed out while running command"
  negOk : Gen.TsLifeDl.successNegFatal = true

theorem cmdExec_timeout [F : FExec] (neg : Bool) :
    cmdExecOutcome neg true true = .fatal "test timed out while running command" := by
  simp [cmdExecOutcome, F.first, F.msg]

theorem cmdExec_no_deadline [F : FExec] (neg err : Bool) :
    cmdExecOutcome neg err false =
      if err == neg then .ok
      else if err then .fatal "unexpected command failure" else .fatal "unexpected command success" := by
  cases neg <;> cases err <;> simp [cmdExecOutcome, F.first, F.negOk]

end GIV.TsLife
