/-
  Lemmas for GIV.Model.TsLife §1 (grace-period arithmetic), §2 (initial environment) and §7
  (cmdExec attribution).  The regenerated numbers are hypotheses (`FGrace`, `FEnvVars`, `FExec`);
  GIV/Props/C04.lean and C17.lean discharge them from GIV.Gen.TsLife.
-/
import GIV.Model.TsLife

namespace GIV.TsLife
open GIV

/-! ### §1 grace -/

/-- the numbers of RunT's deadline block as the property states them. -/
class FGrace : Prop where
  dflt : Gen.TsLife.defaultGraceNs = 100000000
  div : Gen.TsLife.graceDivisor = 20
  strict : Gen.TsLife.graceCmpStrict = true
  reserved : Gen.TsLife.reservedGraces = 2

theorem tdiv20_of_neg (t : Int) (h : t < 0) : Int.tdiv t 20 ≤ 0 := by
  have h1 : t = -(-t) := by omega
  rw [h1, Int.neg_tdiv, Int.tdiv_eq_ediv_of_nonneg (by omega)]
  omega

theorem grace_eq [F : FGrace] (t : Int) :
    grace t = if Int.tdiv t 20 > 100000000 then Int.tdiv t 20 else 100000000 := by
  simp only [grace, F.dflt, F.div, F.strict, if_true]
  by_cases h : Int.tdiv t 20 > 100000000 <;> simp [h]

theorem grace_eq_max [FGrace] (t : Int) : grace t = max 100000000 (Int.tdiv t 20) := by
  rw [grace_eq]; split <;> omega

theorem grace_ge [FGrace] (t : Int) : 100000000 ≤ grace t := by
  rw [grace_eq]; split <;> omega

/-- up to two seconds the grace period is the minimum. -/
theorem grace_small [FGrace] (t : Int) (h : t ≤ 2000000000) : grace t = 100000000 := by
  rw [grace_eq]
  by_cases h0 : 0 ≤ t
  · rw [Int.tdiv_eq_ediv_of_nonneg h0]; split <;> omega
  · have := tdiv20_of_neg t (by omega); split <;> omega

/-- beyond, it is 5% of the remaining time (rounded down). -/
theorem grace_large [FGrace] (t : Int) (h : 2000000020 ≤ t) : grace t = t / 20 := by
  rw [grace_eq, Int.tdiv_eq_ediv_of_nonneg (by omega)]; split <;> omega

theorem grace_le [FGrace] (t : Int) (h : 0 ≤ t) : 20 * grace t ≤ max 2000000000 t := by
  rw [grace_eq, Int.tdiv_eq_ediv_of_nonneg h]; split <;> omega

theorem ctxTimeout_eq [F : FGrace] (t : Int) : ctxTimeout t = t - 2 * grace t := by
  simp [ctxTimeout, F.reserved]

theorem plan_eq [FGrace] (t : Int) :
    (plan t).grace = grace t ∧ (plan t).interruptAt = t - 2 * grace t ∧ (plan t).killAt = t - grace t := by
  simp only [plan, fgKillDelay, ctxTimeout_eq]
  refine ⟨trivial, trivial, ?_⟩
  omega

theorem ctxTimeout_pos_iff [FGrace] (t : Int) : 0 < ctxTimeout t ↔ 200000000 < t := by
  rw [ctxTimeout_eq, grace_eq]
  by_cases h0 : 0 ≤ t
  · rw [Int.tdiv_eq_ediv_of_nonneg h0]; split <;> omega
  · have := tdiv20_of_neg t (by omega); split <;> omega

/-- at least 90% of the time (minus nothing more than 200ms) is left to the scripts. -/
theorem ctxTimeout_ge [FGrace] (t : Int) (h : 0 ≤ t) : 10 * ctxTimeout t ≥ min (10 * t - 2000000000) (9 * t) := by
  rw [ctxTimeout_eq, grace_eq, Int.tdiv_eq_ediv_of_nonneg h]; split <;> omega

/-! ### §2 environment -/

theorem lookupLast_none_of_forall (e : EnvList) (k : String) (h : ∀ kv ∈ e, kv.1 ≠ k) :
    lookupLast e k = none := by
  induction e with
  | nil => rfl
  | cons kv rest ih =>
    obtain ⟨k', v⟩ := kv
    have h1 := ih (fun x hx => h x (List.mem_cons_of_mem _ hx))
    have h2 : k' ≠ k := h (k', v) (List.mem_cons_self ..)
    simp [lookupLast, h1, h2]

theorem lookupLast_append (a b : EnvList) (k : String) :
    lookupLast (a ++ b) k = match lookupLast b k with
      | some w => some w
      | none => lookupLast a k := by
  induction a with
  | nil => cases h : lookupLast b k <;> simp [lookupLast, h]
  | cons kv rest ih =>
    obtain ⟨k', v⟩ := kv
    simp only [List.cons_append, lookupLast, ih]
    cases hb : lookupLast b k <;> simp

theorem lookupLast_some_mem (e : EnvList) (k v : String) (h : lookupLast e k = some v) : (k, v) ∈ e := by
  induction e with
  | nil => simp [lookupLast] at h
  | cons kv rest ih =>
    obtain ⟨k', v'⟩ := kv
    simp only [lookupLast] at h
    cases hr : lookupLast rest k with
    | some w =>
      simp only [hr] at h
      injection h with h; subst h
      exact List.mem_cons_of_mem _ (ih hr)
    | none =>
      simp only [hr] at h
      by_cases hk : k' = k
      · simp only [hk, if_true] at h
        injection h with h; subst h; subst hk
        exact List.mem_cons_self ..
      · simp [hk] at h

theorem documentedPart_keys (host : EnvList) (wd : String) :
    (documentedPart host wd).map (·.1) = Gen.TsLife.documentedVars.map (·.1) := by
  simp [documentedPart, List.map_map, Function.comp_def]

theorem passthroughPart_keys (host : EnvList) (kv : String × String) (h : kv ∈ passthroughPart host) :
    kv.1 ∈ Gen.TsLife.passthroughVars ∧ kv.2 = hostGetenv host kv.1 := by
  simp only [passthroughPart, List.mem_filterMap] at h
  obtain ⟨k, hk, hs⟩ := h
  split at hs
  · cases hs
  · injection hs with hs; subst hs; exact ⟨hk, rfl⟩

/-- a name outside the built-in list and outside Setup's additions is not in the environment:
host variables are invisible. -/
theorem initialEnv_invisible (host : EnvList) (wd : String) (setup : EnvList) (k : String)
    (hb : k ∉ builtinNames) (hs : k ∉ setup.map (·.1)) :
    lookupLast (initialEnv host wd setup) k = none := by
  apply lookupLast_none_of_forall
  intro kv hkv hk
  simp only [initialEnv, List.mem_append] at hkv
  simp only [builtinNames, List.mem_append, not_or] at hb
  rcases hkv with ((h | h) | h) | h
  · apply hb.1.1
    rw [← documentedPart_keys host wd, ← hk]
    exact List.mem_map_of_mem h
  · exact hb.1.2 (hk ▸ (passthroughPart_keys host kv h).1)
  · exact hb.2 (hk ▸ List.mem_map_of_mem h)
  · exact hs (hk ▸ List.mem_map_of_mem h)

/-- whatever the environment holds for a name is: a documented value, the host's value of a
pass-through variable, a tail value, or one of Setup's additions. -/
theorem initialEnv_sources (host : EnvList) (wd : String) (setup : EnvList) (k v : String)
    (h : lookupLast (initialEnv host wd setup) k = some v) :
    (k, v) ∈ setup ∨ (k, v) ∈ Gen.TsLife.unixTailVars ∨
    (k ∈ Gen.TsLife.passthroughVars ∧ v = hostGetenv host k) ∨
    (∃ s, (k, s) ∈ Gen.TsLife.documentedVars ∧ v = evalSrc host wd s) := by
  have hm := lookupLast_some_mem _ _ _ h
  simp only [initialEnv, List.mem_append] at hm
  rcases hm with ((h | h) | h) | h
  · right; right; right
    simp only [documentedPart, List.mem_map] at h
    obtain ⟨⟨k', s⟩, hks, he⟩ := h
    injection he with h1 h2
    subst h1; subst h2
    exact ⟨s, hks, rfl⟩
  · right; right; left; exact passthroughPart_keys host (k, v) h
  · right; left; exact h
  · left; exact h

/-- Setup's additions win over everything built in. -/
theorem initialEnv_setup_wins (host : EnvList) (wd : String) (setup : EnvList) (k v : String)
    (h : lookupLast setup k = some v) : lookupLast (initialEnv host wd setup) k = some v := by
  simp [initialEnv, lookupLast_append, h]

/-- without an addition by Setup the built-in part decides. -/
theorem initialEnv_no_setup (host : EnvList) (wd : String) (setup : EnvList) (k : String)
    (h : lookupLast setup k = none) :
    lookupLast (initialEnv host wd setup) k = lookupLast (initialEnv host wd []) k := by
  simp [initialEnv, lookupLast_append, h]

/-! ### §7 cmdExec -/

class FExec : Prop where
  first : Gen.TsLife.timeoutCheckedFirst = true
  msg : Gen.TsLife.timedOutMsg = "test timed out while running command"
  negOk : Gen.TsLife.successNegFatal = true

theorem cmdExec_timeout [F : FExec] (neg : Bool) :
    cmdExecOutcome neg true true = .fatal "test timed out while running command" := by
  simp [cmdExecOutcome, F.first, F.msg]

theorem cmdExec_no_deadline [F : FExec] (neg err : Bool) :
    cmdExecOutcome neg err false =
      if err == neg then .ok
      else if err then .fatal "unexpected command failure" else .fatal "unexpected command success" := by
  cases neg <;> cases err <;> simp [cmdExecOutcome, F.first, F.negOk]

end GIV.TsLife
