/-
  GIV.Lemmas.TsRunRerun — the fix-point clause of C16 for a WHOLE RUN.

  Setting (an instance of the skeleton GIV.Model.Script, so every statement is about `run`):

  * the state of a run is split into `base` (everything except the golden entries: `*ts`, the
    environment, stdout/stderr, the file system outside the files extracted from the archive, and
    `ts.scriptFiles`, which holds names only), `gold` (the archive entries as `setup` extracted
    them), `updates` (`ts.scriptUpdates`) and a ghost `log` of the comparisons made against archive
    entries;
  * `cmp` is the real comparison `doCmp` of GIV.Model.ScriptUpdate (`cmpCmd`); what doCmdCmp does
    before `eq := text1 == text2` (usage, name1 == name2, ReadFile(name1), MkAbs(name2), the read of a
    second file that is not a key of `ts.scriptFiles`) is an arbitrary function `read` of the base
    state;
  * every other command, the tokenizer and the conditions are arbitrary, subject to `Frame`:
    deterministic functions of the base state that leave `gold`, `updates` and `log` alone
    (in particular `cmpenv`, `unquote`, `cp`, `exec cat` … applied to a golden file are outside
    the class);
  * `runFile … upd b file`: parse the file, run the script from base state `b`, then the deferred
    `applyScriptUpdates` (`finish`) — which is applied whatever the verdict is.

  Nothing here depends on a regenerated fact of GIV.Gen.TsRun (the loop / runLine shape belongs to
  C01): the two runs are compared branch by branch, whatever the branches are.  The facts of
  GIV.Gen.TsRunUpdate and of the txtar group enter through `CmpFacts` / `ApplyFacts` / `FLen …`.
-/
import GIV.Model.ScriptUpdate
import GIV.Lemmas.TsRun
import GIV.Lemmas.TsRunUpdate
import GIV.Lemmas.TxtarQuote

namespace GIV.TsRun.Rerun
open GIV GIV.Txtar GIV.TsRun GIV.TsRun.Update

variable {τ : Type}

/-! ### the setting -/

/-- One comparison against an archive entry: `[!] cmp <text1> <entry>`. -/
structure Ev where
  neg : Bool
  entry : Bytes
  text1 : Bytes
deriving DecidableEq, Repr

structure St (τ : Type) where
  /-- everything except the golden entries -/
  base : τ
  /-- the archive entries as extracted by `setup` (the files a `cmp` reads its second text from) -/
  gold : List File
  /-- `ts.scriptUpdates` -/
  updates : Updates
  /-- ghost: the comparisons made against archive entries so far, oldest first -/
  log : List Ev
deriving DecidableEq

/-- Where the second argument of `cmp` points: a key of `ts.scriptFiles` (then the text is the
extracted entry), or a file outside the archive (then `read` has read it). -/
inductive Target
  | entry (name : Bytes)
  | outside (text2 : Bytes)

/-- doCmdCmp up to `eq := …`, as a function of the base state: `none` = it called Fatalf. -/
abbrev CmpRead (τ : Type) := τ → List Bytes → Option (Bytes × Target)

/-- The extracted content of entry `n`: `setup` writes the entries in order, a later entry of the
same name overwrites an earlier one. -/
def goldData : List File → Bytes → Option Bytes
  | [], _ => none
  | f :: fs, n =>
    match goldData fs n with
    | some d => some d
    | none => if f.name = n then some f.data else none

def settle (s : St τ) : CmpOut → St τ × Outcome
  | .ok => (s, .ok)
  | .fatal => (s, .fatal)
  | .recorded n c => ({ s with updates := record s.updates n c }, .ok)

/-- `cmp` (`upd` = Params.UpdateScripts). -/
def cmpCmd (read : CmpRead τ) (upd : Bool) : Cmd (St τ) := fun _ s neg args =>
  match read s.base args with
  | none => (s, .fatal)
  | some (text1, .outside text2) => settle s (doCmp ⟨upd, false, neg, text1, text2, none⟩)
  | some (text1, .entry n) =>
    match goldData s.gold n with
    | none => (s, .fatal)      -- os.ReadFile fails: ts.Check
    | some text2 =>
      settle { s with log := s.log ++ [⟨neg, n, text1⟩] } (doCmp ⟨upd, false, neg, text1, text2, some n⟩)

def CMP : Bytes := lit "cmp"

/-- `c` with `scriptCmds["cmp"]` = the real comparison. -/
def withCmp (c : Config (St τ)) (read : CmpRead τ) (upd : Bool) : Config (St τ) :=
  { c with builtin := fun name => if name = CMP then some (cmpCmd read upd) else c.builtin name }

/-- The class of scripts/commands: tokenizer, conditions and every command other than `cmp` are
functions of the base state and leave the golden entries, the recorded updates (and the ghost log)
alone.  `noCustomCmp`: Params.Cmds has no entry called `cmp` (it would be shadowed anyway as long as
scriptCmds is consulted first; assumed so that nothing depends on that order). -/
structure Frame (c : Config (St τ)) : Prop where
  parse : ∀ (s s' : St τ) (l : Bytes), s.base = s'.base → c.parse s l = c.parse s' l
  cond : ∀ (s s' : St τ) (n : Bytes), s.base = s'.base → c.cond s n = c.cond s' n
  cmd : ∀ (name : Bytes) (f : Cmd (St τ)), name ≠ CMP → lookup c name = some f →
    ∀ (failed : Bool) (s s' : St τ) (neg : Bool) (args : List Bytes), s.base = s'.base →
      (f failed s neg args).2 = (f failed s' neg args).2 ∧
      (f failed s neg args).1.base = (f failed s' neg args).1.base ∧
      (f failed s neg args).1.gold = s.gold ∧
      (f failed s neg args).1.updates = s.updates ∧
      (f failed s neg args).1.log = s.log
  noCustomCmp : c.custom CMP = none

/-- One whole run of a script file. -/
structure RunOut (τ : Type) where
  /-- what `T` observes, after the deferred applyScriptUpdates -/
  verdict : Verdict
  /-- the bytes of the script file afterwards -/
  file : Bytes
  /-- the loop's result (final state, calls, reported line) -/
  res : Result (St τ)

/-- `run()` on the script file `file` from base state `b` (the state `setup` leaves, golden entries
apart): the loop, then the deferred `applyScriptUpdates` — whatever the verdict of the loop. -/
def runFile (c : Config (St τ)) (read : CmpRead τ) (upd : Bool) (b : τ) (file : Bytes) : Option (RunOut τ) :=
  match parse file with
  | none => none
  | some a =>
    let r := run (withCmp c read upd) ⟨b, a.files, [], []⟩ a.comment
    let fin := finish r.verdict file a r.state.updates
    some ⟨fin.1, fin.2, r⟩

/-- Every golden entry is always compared against the same actual text. -/
def SameText (log : List Ev) : Prop :=
  ∀ e ∈ log, ∀ e' ∈ log, e.entry = e'.entry → e.text1 = e'.text1

/-- … in particular when every entry is compared at most once. -/
def AtMostOnce (log : List Ev) : Prop := (log.map (·.entry)).Nodup

theorem sameText_of_atMostOnce {log : List Ev} (h : AtMostOnce log) : SameText log := by
  unfold AtMostOnce at h
  induction log with
  | nil => intro e he; simp at he
  | cons x xs ih =>
    simp only [List.map_cons, List.nodup_cons, List.mem_map, not_exists, not_and] at h
    intro e he e' he' hn
    simp only [List.mem_cons] at he he'
    rcases he with rfl | he <;> rcases he' with rfl | he'
    · rfl
    · exact absurd hn.symm (h.1 e' he')
    · exact absurd hn (h.1 e he)
    · exact ih h.2 e he e' he' hn

/-- the comparison `e` is plain and finds the golden text equal to its actual text -/
def Good (g : List File) (e : Ev) : Prop := e.neg = false ∧ goldData g e.entry = some e.text1

/-! ### lookup in `withCmp` -/

theorem lookup_withCmp_cmp (c : Config (St τ)) (hc : c.custom CMP = none) (read : CmpRead τ) (upd : Bool) :
    lookup (withCmp c read upd) CMP = some (cmpCmd read upd) := by
  simp only [lookup, withCmp, if_true, hc]
  split <;> rfl

theorem lookup_withCmp_other (c : Config (St τ)) (read : CmpRead τ) (upd : Bool) (name : Bytes) (h : name ≠ CMP) :
    lookup (withCmp c read upd) name = lookup c name := by
  simp [lookup, withCmp, h]

theorem lookup_withCmp (c : Config (St τ)) (hc : c.custom CMP = none) (read : CmpRead τ) (upd : Bool)
    (name : Bytes) (f : Cmd (St τ)) (h : lookup (withCmp c read upd) name = some f) :
    (name = CMP ∧ f = cmpCmd read upd) ∨ (name ≠ CMP ∧ lookup c name = some f) := by
  by_cases hn : name = CMP
  · subst hn
    rw [lookup_withCmp_cmp c hc] at h
    simp at h
    exact Or.inl ⟨rfl, h.symm⟩
  · rw [lookup_withCmp_other c read upd name hn] at h
    exact Or.inr ⟨hn, h⟩

/-! ### the skeleton, without any fact about its shape -/

/-- The state after a line is the state before it, or what some command of the table returned. -/
theorem runLine_state_cases {σ : Type} (c : Config σ) (failed : Bool) (s : σ) (l : Bytes) :
    (runLine c failed s l).state = s ∨
    ∃ name f neg args, lookup c name = some f ∧ (runLine c failed s l).state = (f failed s neg args).1 := by
  unfold runLine
  split
  · left; rfl
  · left; rfl
  · rename_i w ws _
    simp only
    unfold runArgs
    split
    · left; rfl
    · left; rfl
    · rename_i a _
      unfold invoke
      simp only
      split
      · left; rfl
      · rename_i name rest _
        split
        · left; rfl
        · rename_i f hf; right; exact ⟨name, f, _, _, hf, rfl⟩

/-- A reflexive, transitive relation that every line respects holds between the first and the last
state of the loop. -/
theorem runLines_preserve {σ : Type} (c : Config σ) (P : σ → σ → Prop) (hrefl : ∀ s, P s s)
    (htrans : ∀ a b d, P a b → P b d → P a d)
    (hline : ∀ failed s l, P s (runLine c failed s l).state) (ls : List Bytes) :
    ∀ (n : Nat) (failed : Bool) (s : σ), P s (runLines c ls n failed s).state := by
  induction ls with
  | nil => intro n failed s; simp only [runLines]; exact hrefl s
  | cons l ls ih =>
    intro n failed s
    unfold runLines
    split
    · exact ih _ _ _
    · have h1 := hline (Gen.TsRun.setsTsFailed && failed) s l
      simp only
      split
      · exact htrans _ _ _ h1 (ih _ _ _)
      · split
        · exact h1
        · exact htrans _ _ _ h1 (ih _ _ _)
      · split
        · exact h1
        · exact htrans _ _ _ h1 (ih _ _ _)
      · exact h1
      · exact h1
      · exact h1

/-! ### one run: the log grows, the golden entries stay, and (with UpdateScripts) the recorded
updates are exactly the last mismatching text per entry -/

/-- What links `ts.scriptUpdates` to the comparisons made, in a run with UpdateScripts. -/
def Inv (s : St τ) : Prop :=
  (∀ n c, lookupU s.updates n = some c → (⟨false, n, c⟩ : Ev) ∈ s.log) ∧
  (∀ e ∈ s.log, e.neg = false → goldData s.gold e.entry = some e.text1 ∨ lookupU s.updates e.entry ≠ none) ∧
  (∀ e ∈ s.log, goldData s.gold e.entry ≠ none)

def Step (upd : Bool) (s s' : St τ) : Prop :=
  s'.gold = s.gold ∧ (∃ evs, s'.log = s.log ++ evs) ∧ (upd = true → Inv s → Inv s')

theorem step_refl (upd : Bool) (s : St τ) : Step upd s s := ⟨rfl, ⟨[], by simp⟩, fun _ h => h⟩

theorem step_trans (upd : Bool) (a b d : St τ) (h1 : Step upd a b) (h2 : Step upd b d) : Step upd a d := by
  obtain ⟨g1, ⟨e1, l1⟩, i1⟩ := h1
  obtain ⟨g2, ⟨e2, l2⟩, i2⟩ := h2
  exact ⟨by rw [g2, g1], ⟨e1 ++ e2, by rw [l2, l1, List.append_assoc]⟩, fun hu h => i2 hu (i1 hu h)⟩

theorem cmpCmd_step (F : CmpFacts) (read : CmpRead τ) (upd failed : Bool) (s : St τ) (neg : Bool) (args : List Bytes) :
    Step upd s (cmpCmd read upd failed s neg args).1 := by
  unfold cmpCmd
  cases hr : read s.base args with
  | none => exact step_refl upd s
  | some p =>
    obtain ⟨t1, tg⟩ := p
    cases tg with
    | outside t2 =>
      simp only
      cases hd : doCmp ⟨upd, false, neg, t1, t2, none⟩ with
      | ok => exact step_refl upd s
      | fatal => exact step_refl upd s
      | recorded n c => have := (doCmp_recorded_iff F _ n c).1 hd; simp at this
    | entry n =>
      simp only
      cases hg : goldData s.gold n with
      | none => exact step_refl upd s
      | some t2 =>
        simp only
        have hd := doCmp_eq F ⟨upd, false, neg, t1, t2, some n⟩
        simp only at hd
        refine ⟨?_, ?_, ?_⟩
        · cases h : doCmp ⟨upd, false, neg, t1, t2, some n⟩ <;> rfl
        · refine ⟨[⟨neg, n, t1⟩], ?_⟩
          cases h : doCmp ⟨upd, false, neg, t1, t2, some n⟩ <;> rfl
        · intro hu hinv
          subst hu
          obtain ⟨i1, i2, i3⟩ := hinv
          cases neg with
          | true =>
            have hst : (settle { s with log := s.log ++ [⟨true, n, t1⟩] } (doCmp ⟨true, false, true, t1, t2, some n⟩)).1 =
                { s with log := s.log ++ [⟨true, n, t1⟩] } := by
              rw [hd]; by_cases h : t1 = t2 <;> simp [h, settle]
            rw [hst]
            refine ⟨?_, ?_, ?_⟩
            · intro m c hm; simp only [List.mem_append]; left; exact i1 m c hm
            · intro e he hne
              simp at he
              rcases he with he | he
              · exact i2 e he hne
              · subst he; simp at hne
            · intro e he
              simp at he
              rcases he with he | he
              · exact i3 e he
              · subst he; simp [hg]
          | false =>
            by_cases h : t1 = t2
            · have hst : (settle { s with log := s.log ++ [⟨false, n, t1⟩] } (doCmp ⟨true, false, false, t1, t2, some n⟩)).1 =
                  { s with log := s.log ++ [⟨false, n, t1⟩] } := by
                rw [hd]; simp [h, settle]
              rw [hst]
              refine ⟨?_, ?_, ?_⟩
              · intro m c hm; simp only [List.mem_append]; left; exact i1 m c hm
              · intro e he hne
                simp at he
                rcases he with he | he
                · exact i2 e he hne
                · subst he; left; simp [hg, h]
              · intro e he
                simp at he
                rcases he with he | he
                · exact i3 e he
                · subst he; simp [hg]
            · have hst : (settle { s with log := s.log ++ [⟨false, n, t1⟩] } (doCmp ⟨true, false, false, t1, t2, some n⟩)).1 =
                  { s with log := s.log ++ [⟨false, n, t1⟩], updates := record s.updates n t1 } := by
                rw [hd]; simp [h, settle]
              rw [hst]
              refine ⟨?_, ?_, ?_⟩
              · intro m c hm
                simp only at hm
                by_cases hmn : m = n
                · subst hmn
                  rw [lookupU_record_self] at hm
                  simp at hm; subst hm; simp
                · rw [lookupU_record_other _ _ _ _ hmn] at hm
                  simp only [List.mem_append]; left; exact i1 m c hm
              · intro e he hne
                simp only at he ⊢
                simp at he
                rcases he with he | he
                · rcases i2 e he hne with h2 | h2
                  · left; exact h2
                  · right
                    by_cases hen : e.entry = n
                    · rw [hen, lookupU_record_self]; simp
                    · rw [lookupU_record_other _ _ _ _ hen]; exact h2
                · subst he; right; simp [lookupU_record_self]
              · intro e he
                simp at he
                rcases he with he | he
                · exact i3 e he
                · subst he; simp [hg]

theorem step_of_same (upd : Bool) (s s' : St τ) (hg : s'.gold = s.gold) (hu : s'.updates = s.updates)
    (hl : s'.log = s.log) : Step upd s s' := by
  refine ⟨hg, ⟨[], by simp [hl]⟩, ?_⟩
  intro _ h
  unfold Inv
  rw [hg, hu, hl]
  exact h

theorem runLine_step (F : CmpFacts) (c : Config (St τ)) (hF : Frame c) (read : CmpRead τ) (upd failed : Bool)
    (s : St τ) (l : Bytes) : Step upd s (runLine (withCmp c read upd) failed s l).state := by
  rcases runLine_state_cases (withCmp c read upd) failed s l with h | ⟨name, f, neg, args, hl, h⟩
  · rw [h]; exact step_refl upd s
  · rw [h]
    rcases lookup_withCmp c hF.noCustomCmp read upd name f hl with ⟨_, rfl⟩ | ⟨hn, hl'⟩
    · exact cmpCmd_step F read upd failed s neg args
    · obtain ⟨_, _, hg, hu, hlog⟩ := hF.cmd name f hn hl' failed s s neg args rfl
      exact step_of_same upd _ _ hg hu hlog

theorem runLines_step (F : CmpFacts) (c : Config (St τ)) (hF : Frame c) (read : CmpRead τ) (upd : Bool)
    (ls : List Bytes) (n : Nat) (failed : Bool) (s : St τ) :
    Step upd s (runLines (withCmp c read upd) ls n failed s).state :=
  runLines_preserve _ (Step upd) (step_refl upd) (step_trans upd)
    (fun failed s l => runLine_step F c hF read upd failed s l) ls n failed s

/-! ### two runs side by side: run 1 with UpdateScripts on golden entries `G`, run 2 without it on `G'` -/

/-- the two states at corresponding points of the two runs -/
def Rel (G G' : List File) (s1 s2 : St τ) : Prop :=
  s1.base = s2.base ∧ s1.gold = G ∧ s2.gold = G' ∧ s2.updates = [] ∧ s2.log = s1.log

def SameNames (G G' : List File) : Prop := ∀ n, goldData G n = none ↔ goldData G' n = none

theorem settle_log (s : St τ) (o : CmpOut) : (settle s o).1.log = s.log := by cases o <;> rfl
theorem settle_base (s : St τ) (o : CmpOut) : (settle s o).1.base = s.base := by cases o <;> rfl
theorem settle_gold (s : St τ) (o : CmpOut) : (settle s o).1.gold = s.gold := by cases o <;> rfl

theorem cmp_sim (F : CmpFacts) (read : CmpRead τ) (G G' : List File) (hN : SameNames G G')
    (f1 f2 : Bool) (s1 s2 : St τ) (neg : Bool) (args : List Bytes) (hR : Rel G G' s1 s2)
    (hgood : ∀ e ∈ (cmpCmd read true f1 s1 neg args).1.log, Good G' e) :
    (cmpCmd read false f2 s2 neg args).2 = (cmpCmd read true f1 s1 neg args).2 ∧
      Rel G G' (cmpCmd read true f1 s1 neg args).1 (cmpCmd read false f2 s2 neg args).1 := by
  obtain ⟨hb, hg1, hg2, hu, hl⟩ := hR
  unfold cmpCmd at hgood ⊢
  rw [← hb]
  cases hr : read s1.base args with
  | none => exact ⟨rfl, hb, hg1, hg2, hu, hl⟩
  | some p =>
    obtain ⟨t1, tg⟩ := p
    rw [hr] at hgood
    cases tg with
    | outside t2 =>
      simp only
      rw [doCmp_eq F, doCmp_eq F]
      simp only
      cases neg <;> by_cases h : t1 = t2 <;> simp [h, settle] <;> exact ⟨hb, hg1, hg2, hu, hl⟩
    | entry n =>
      simp only at hgood ⊢
      rw [hg1] at hgood ⊢
      rw [hg2]
      cases hgn : goldData G n with
      | none =>
        have : goldData G' n = none := (hN n).1 hgn
        rw [this]
        exact ⟨rfl, hb, hg1, hg2, hu, hl⟩
      | some t2 =>
        rw [hgn] at hgood
        simp only at hgood ⊢
        have hev := hgood ⟨neg, n, t1⟩ (by rw [settle_log]; simp)
        obtain ⟨hneg, hgd⟩ := hev
        simp only at hneg hgd
        subst hneg
        rw [hgd]
        simp only
        rw [doCmp_eq F, doCmp_eq F]
        simp only
        by_cases h : t1 = t2 <;> simp [h, settle, Rel, hb, hu, hl]

/-- `invoke` once `neg` and the words after the '!' are fixed -/
def invokeOn {σ : Type} (c : Config σ) (failed : Bool) (s : σ) (neg : Bool) : List Bytes → LineRes σ
  | [] => ⟨s, .fatal, none⟩
  | name :: rest =>
    match lookup c name with
    | none => ⟨s, if Gen.TsRun.unknownCmdFatal then .fatal else .ok, none⟩
    | some f =>
      let r := f failed s neg (if Gen.TsRun.cmdGetsNegAndRest then rest else name :: rest)
      ⟨r.1, r.2, some (neg, name, rest)⟩

theorem invoke_eq {σ : Type} (c : Config σ) (failed : Bool) (s : σ) (a : List Bytes) :
    invoke c failed s a =
      invokeOn c failed s (Gen.TsRun.bangSetsNeg && a.head? == some [BANG])
        (if (Gen.TsRun.bangSetsNeg && a.head? == some [BANG]) then a.tail else a) := by
  unfold invoke
  simp only
  split <;> rename_i h <;> rw [h] <;> rfl

/-- what a line of run 2 does, given what the same line of run 1 does -/
def LineSim (G G' : List File) (r1 r2 : LineRes (St τ)) : Prop :=
  (∀ e ∈ r1.state.log, Good G' e) → r2.out = r1.out ∧ r2.call = r1.call ∧ Rel G G' r1.state r2.state

theorem invokeOn_sim (F : CmpFacts) (c : Config (St τ)) (hF : Frame c) (read : CmpRead τ) (G G' : List File)
    (hN : SameNames G G') (failed : Bool) (s1 s2 : St τ) (neg : Bool) (a : List Bytes) (hR : Rel G G' s1 s2) :
    LineSim G G' (invokeOn (withCmp c read true) failed s1 neg a) (invokeOn (withCmp c read false) failed s2 neg a) := by
  cases a with
  | nil => intro _; exact ⟨rfl, rfl, hR⟩
  | cons name rest =>
    simp only [invokeOn]
    by_cases hn : name = CMP
    · subst hn
      rw [lookup_withCmp_cmp c hF.noCustomCmp, lookup_withCmp_cmp c hF.noCustomCmp]
      simp only
      intro hgood
      have := cmp_sim F read G G' hN failed failed s1 s2 neg _ hR hgood
      exact ⟨this.1, rfl, this.2⟩
    · rw [lookup_withCmp_other c read true name hn, lookup_withCmp_other c read false name hn]
      cases hl : lookup c name with
      | none => intro _; exact ⟨rfl, rfl, hR⟩
      | some f =>
        simp only
        intro _
        obtain ⟨hb, hg1, hg2, hu, hlog⟩ := hR
        obtain ⟨ho, hb', _, _, _⟩ := hF.cmd name f hn hl failed s1 s2 neg
          (if Gen.TsRun.cmdGetsNegAndRest then rest else name :: rest) hb
        obtain ⟨_, _, g1, _, l1⟩ := hF.cmd name f hn hl failed s1 s1 neg
          (if Gen.TsRun.cmdGetsNegAndRest then rest else name :: rest) rfl
        obtain ⟨_, _, g2, u2, l2⟩ := hF.cmd name f hn hl failed s2 s2 neg
          (if Gen.TsRun.cmdGetsNegAndRest then rest else name :: rest) rfl
        exact ⟨ho.symm, rfl, hb', by rw [g1, hg1], by rw [g2, hg2], by rw [u2, hu], by rw [l2, l1, hlog]⟩

theorem guards_sim (c : Config (St τ)) (hF : Frame c) (read : CmpRead τ) (u1 u2 : Bool) (s1 s2 : St τ)
    (hb : s1.base = s2.base) (args : List Bytes) :
    guards (withCmp c read u1) s1 args = guards (withCmp c read u2) s2 args := by
  induction args with
  | nil => rfl
  | cons w rest ih =>
    unfold guards
    have : (withCmp c read u1).cond s1 (guardCond w).2 = (withCmp c read u2).cond s2 (guardCond w).2 :=
      hF.cond s1 s2 _ hb
    rw [this, ih]

theorem runLine_sim (F : CmpFacts) (c : Config (St τ)) (hF : Frame c) (read : CmpRead τ) (G G' : List File)
    (hN : SameNames G G') (failed : Bool) (s1 s2 : St τ) (l : Bytes) (hR : Rel G G' s1 s2) :
    LineSim G G' (runLine (withCmp c read true) failed s1 l) (runLine (withCmp c read false) failed s2 l) := by
  unfold runLine
  have hp : (withCmp c read true).parse s1 l = (withCmp c read false).parse s2 l := hF.parse s1 s2 l hR.1
  rw [hp]
  cases (withCmp c read false).parse s2 l with
  | none => intro _; exact ⟨rfl, rfl, hR⟩
  | some ws =>
    cases ws with
    | nil => intro _; exact ⟨rfl, rfl, hR⟩
    | cons w ws =>
      simp only
      unfold runArgs
      rw [guards_sim c hF read true false s1 s2 hR.1]
      cases guards (withCmp c read false) s2 (w :: ws) with
      | fatal => intro _; exact ⟨rfl, rfl, hR⟩
      | skipLine => intro _; exact ⟨rfl, rfl, hR⟩
      | run a =>
        simp only
        rw [invoke_eq, invoke_eq]
        intro hgood
        obtain ⟨h1, h2, h3⟩ := invokeOn_sim F c hF read G G' hN failed s1 s2 _ _ hR hgood
        exact ⟨by rw [h1], h2, h3⟩

/-- The last state of the loop is that of its first line, or the last state of the loop over the rest. -/
theorem runLines_cons_state {σ : Type} (c : Config σ) (l : Bytes) (ls : List Bytes) (n : Nat) (failed : Bool) (s : σ)
    (hc : isComment l = false) :
    (runLines c (l :: ls) n failed s).state = (runLine c (Gen.TsRun.setsTsFailed && failed) s l).state ∨
    ∃ n' f', (runLines c (l :: ls) n failed s).state =
      (runLines c ls n' f' (runLine c (Gen.TsRun.setsTsFailed && failed) s l).state).state := by
  simp only [runLines, hc, Bool.false_eq_true, if_false]
  split
  · right; exact ⟨_, _, rfl⟩
  · split
    · left; rfl
    · right; exact ⟨_, _, rfl⟩
  · split
    · left; rfl
    · right; exact ⟨_, _, rfl⟩
  · left; rfl
  · left; rfl
  · left; rfl

theorem runLines_sim (F : CmpFacts) (c : Config (St τ)) (hF : Frame c) (read : CmpRead τ) (G G' : List File)
    (hN : SameNames G G') (ls : List Bytes) :
    ∀ (n : Nat) (failed : Bool) (s1 s2 : St τ), Rel G G' s1 s2 →
      (∀ e ∈ (runLines (withCmp c read true) ls n failed s1).state.log, Good G' e) →
      (runLines (withCmp c read false) ls n failed s2).verdict = (runLines (withCmp c read true) ls n failed s1).verdict ∧
      (runLines (withCmp c read false) ls n failed s2).reported = (runLines (withCmp c read true) ls n failed s1).reported ∧
      (runLines (withCmp c read false) ls n failed s2).calls = (runLines (withCmp c read true) ls n failed s1).calls ∧
      (runLines (withCmp c read false) ls n failed s2).lineno = (runLines (withCmp c read true) ls n failed s1).lineno ∧
      Rel G G' (runLines (withCmp c read true) ls n failed s1).state (runLines (withCmp c read false) ls n failed s2).state := by
  induction ls with
  | nil => intro n failed s1 s2 hR _; simp only [runLines]; exact ⟨trivial, trivial, trivial, trivial, hR⟩
  | cons l ls ih =>
    intro n failed s1 s2 hR hgood
    by_cases hc : isComment l = true
    · simp only [runLines, hc, if_true] at hgood ⊢
      exact ih _ _ _ _ hR hgood
    · have hc' : isComment l = false := by simpa using hc
      -- the first line
      have hline : ∀ e ∈ (runLine (withCmp c read true) (Gen.TsRun.setsTsFailed && failed) s1 l).state.log, Good G' e := by
        intro e he
        apply hgood
        rcases runLines_cons_state (withCmp c read true) l ls n failed s1 hc' with h | ⟨n', f', h⟩
        · rw [h]; exact he
        · rw [h]
          obtain ⟨_, ⟨evs, hl⟩, _⟩ := runLines_step F c hF read true ls n' f'
            (runLine (withCmp c read true) (Gen.TsRun.setsTsFailed && failed) s1 l).state
          rw [hl]; simp [he]
      obtain ⟨ho, hcall, hR'⟩ := runLine_sim F c hF read G G' hN (Gen.TsRun.setsTsFailed && failed) s1 s2 l hR hline
      have hcalls : ∀ k, callsOf k (runLine (withCmp c read false) (Gen.TsRun.setsTsFailed && failed) s2 l) =
          callsOf k (runLine (withCmp c read true) (Gen.TsRun.setsTsFailed && failed) s1 l) := by
        intro k; simp only [callsOf, hcall]
      have hstop : stopOnFail (withCmp c read false) = stopOnFail (withCmp c read true) := rfl
      simp only [runLines, hc', Bool.false_eq_true, if_false, ho, hcalls, hstop] at hgood ⊢
      cases hout : (runLine (withCmp c read true) (Gen.TsRun.setsTsFailed && failed) s1 l).out
      · -- ok
        simp only [hout] at hgood ⊢
        obtain ⟨a1, a2, a3, a4, a5⟩ := ih (n + 1) failed _ _ hR' hgood
        exact ⟨a1, a2, by rw [a3], a4, a5⟩
      · -- stop
        simp only [hout] at hgood ⊢
        split
        · exact ⟨rfl, rfl, rfl, rfl, hR'⟩
        · rename_i hsb
          simp only [hsb] at hgood
          obtain ⟨a1, a2, a3, a4, a5⟩ := ih (n + 1) failed _ _ hR' hgood
          exact ⟨a1, a2, by rw [a3], a4, a5⟩
      · -- fatal
        simp only [hout] at hgood ⊢
        split
        · exact ⟨rfl, rfl, rfl, rfl, hR'⟩
        · rename_i hsf
          simp only [hsf] at hgood
          obtain ⟨a1, a2, a3, a4, a5⟩ := ih (n + 1) true _ _ hR' hgood
          exact ⟨a1, rfl, by rw [a3], a4, a5⟩
      · exact ⟨rfl, rfl, rfl, rfl, hR'⟩
      · exact ⟨rfl, rfl, rfl, rfl, hR'⟩
      · exact ⟨rfl, rfl, rfl, rfl, hR'⟩

/-! ### what the rewrite makes of the golden entries -/

theorem updData_plain {c : Bytes} (h : needsQuote c = some false) : updData c = .ok c := by
  simp [updData, h]

theorem applyFiles_total (u : Updates) :
    ∀ (fs : List File), (∀ f ∈ fs, ∀ c, lookupU u f.name = some c → needsQuote c = some false) →
      ∃ fs', applyFiles u fs = .ok fs' := by
  intro fs
  induction fs with
  | nil => intro _; exact ⟨[], rfl⟩
  | cons f fs ih =>
    intro h
    obtain ⟨fs1, h1⟩ := ih (fun g hg => h g (by simp [hg]))
    have hf : ∃ f1, applyFile u f = .ok f1 := by
      unfold applyFile
      cases hl : lookupU u f.name with
      | none => exact ⟨f, rfl⟩
      | some c => simp only [updData_plain (h f (by simp) c hl)]; exact ⟨_, rfl⟩
    obtain ⟨f1, hf1⟩ := hf
    exact ⟨f1 :: fs1, by simp [applyFiles, hf1, h1]⟩

/-- The extracted content of every entry after the rewrite, when no recorded content needs quoting. -/
theorem applyFiles_gold (u : Updates) :
    ∀ (fs fs' : List File), applyFiles u fs = .ok fs' →
      (∀ f ∈ fs, ∀ c, lookupU u f.name = some c → needsQuote c = some false) →
      ∀ n, goldData fs' n =
        match lookupU u n with
        | none => goldData fs n
        | some c => (goldData fs n).map (fun _ => c) := by
  intro fs
  induction fs with
  | nil => intro fs' h _ n; simp [applyFiles] at h; subst h; cases lookupU u n <;> rfl
  | cons f fs ih =>
    intro fs' h hq n
    simp only [applyFiles] at h
    split at h
    · simp at h
    · rename_i f1 hf1
      split at h
      · simp at h
      · rename_i fs1 hfs1
        simp at h
        subst h
        have ih' := ih fs1 hfs1 (fun g hg => hq g (by simp [hg])) n
        obtain ⟨hname, hnone, hsome⟩ := applyFile_ok hf1
        simp only [goldData, ih', hname]
        cases hl : lookupU u n with
        | none =>
          simp only
          cases goldData fs n with
          | some d => rfl
          | none =>
            simp only
            by_cases hn : f.name = n
            · have : f1 = f := hnone (by rw [hn]; exact hl)
              simp [hn, this]
            · simp [hn]
        | some c =>
          simp only
          cases goldData fs n with
          | some d => rfl
          | none =>
            simp only [Option.map_none]
            by_cases hn : f.name = n
            · have hc : lookupU u f.name = some c := by rw [hn]; exact hl
              have h1 := hsome c hc
              rw [updData_plain (hq f (by simp) c hc)] at h1
              simp at h1
              simp [hn, h1]
            · simp [hn]

theorem sameNames_of_gold {G G' : List File} {u : Updates}
    (h : ∀ n, goldData G' n = match lookupU u n with
        | none => goldData G n
        | some c => (goldData G n).map (fun _ => c)) : SameNames G G' := by
  intro n
  rw [h n]
  cases lookupU u n <;> cases goldData G n <;> simp

/-- (as `updated_archive_reparses` of GIV.Props.C16) -/
theorem reparse [FLen] [FCR] [FLit] [FNQ] (AF : ApplyFacts) (file : Bytes) (a a' : Archive) (u : Updates)
    (hparse : parse file = some a) (happly : applyUpdates a u = .ok a')
    (hnl : ∀ f ∈ a.files, ∀ c, lookupU u f.name = some c → c = [] ∨ c.getLast? = some NL) :
    parse (format a') = some a' := by
  have hwf : WF a := parse_wf hparse
  obtain ⟨hc, hf⟩ := applyUpdates_ok happly
  apply parse_format_of_wf
  refine ⟨by rw [hc]; exact hwf.1, ?_⟩
  intro f' hf'
  obtain ⟨f, hfm, hap⟩ := applyFiles_mem u _ _ hf f' hf'
  obtain ⟨hname, hnone, hsome⟩ := applyFile_ok hap
  have hfok := hwf.2 f hfm
  refine ⟨by rw [hname]; exact hfok.1, ?_⟩
  cases hl : lookupU u f.name with
  | none => rw [hnone hl]; exact hfok.2
  | some c =>
    rcases updData_ok AF (hsome c hl) with ⟨hnq, hd⟩ | ⟨_, hq⟩
    · rw [hd]; exact (bodyOK_iff_needsQuote c).2 ⟨hnl f hfm c hl, hnq⟩
    · exact quote_bodyOK hq

/-! ### the whole run -/

/-- After run 1, every comparison it made finds its text in the rewritten entries — provided the
comparisons are plain and each entry always met the same text. -/
theorem good_of_inv {s : St τ} {G' : List File} (hinv : Inv s)
    (hplain : ∀ e ∈ s.log, e.neg = false) (hsame : SameText s.log)
    (hG' : ∀ n, goldData G' n = match lookupU s.updates n with
        | none => goldData s.gold n
        | some c => (goldData s.gold n).map (fun _ => c)) :
    ∀ e ∈ s.log, Good G' e := by
  obtain ⟨i1, i2, i3⟩ := hinv
  intro e he
  refine ⟨hplain e he, ?_⟩
  rw [hG']
  cases hl : lookupU s.updates e.entry with
  | none =>
    simp only
    rcases i2 e he (hplain e he) with h | h
    · exact h
    · exact absurd hl h
  | some c =>
    simp only
    have hmem := i1 e.entry c hl
    have : e.text1 = c := hsame e he _ hmem rfl
    have hne := i3 e he
    cases hg : goldData s.gold e.entry with
    | none => exact absurd hg hne
    | some d => simp [this]

theorem inv_init (b : τ) (g : List File) : Inv (⟨b, g, [], []⟩ : St τ) := by
  refine ⟨?_, ?_, ?_⟩
  · intro n c h; simp [lookupU] at h
  · intro e he; simp at he
  · intro e he; simp at he

/-- Run 1 and the file it leaves: the file parses to the old archive with new entries `fs'` (same
names), and every comparison run 1 made finds its actual text in `fs'`. -/
theorem rerun_core [FLen] [FCR] [FLit] [FNQ] (F : CmpFacts) (AF : ApplyFacts)
    (c : Config (St τ)) (hF : Frame c) (read : CmpRead τ) (b : τ) (file : Bytes) (o1 : RunOut τ)
    (h1 : runFile c read true b file = some o1)
    (hplain : ∀ e ∈ o1.res.state.log, e.neg = false)
    (hsame : SameText o1.res.state.log)
    (hrep : ∀ n t, lookupU o1.res.state.updates n = some t → Representable t) :
    ∃ a fs', parse file = some a ∧
      o1.res = runLines (withCmp c read true) (splitScript a.comment) 0 false ⟨b, a.files, [], []⟩ ∧
      o1.verdict = o1.res.verdict ∧ parse o1.file = some ⟨a.comment, fs'⟩ ∧ SameNames a.files fs' ∧
      ∀ e ∈ o1.res.state.log, Good fs' e := by
  unfold runFile at h1
  cases hp : parse file with
  | none => rw [hp] at h1; simp at h1
  | some a =>
    rw [hp] at h1
    simp only [Option.some.injEq] at h1
    subst h1
    simp only [run] at hplain hsame hrep ⊢
    obtain ⟨hgold, _, hinv⟩ := runLines_step F c hF read true (splitScript a.comment) 0 false ⟨b, a.files, [], []⟩
    replace hinv := hinv rfl (inv_init b a.files)
    simp only at hgold
    generalize hr1 : runLines (withCmp c read true) (splitScript a.comment) 0 false ⟨b, a.files, [], []⟩ = r1 at *
    have hnq : ∀ f ∈ a.files, ∀ t, lookupU r1.state.updates f.name = some t → needsQuote t = some false :=
      fun f _ t ht => (hrep f.name t ht).2
    obtain ⟨fs', hfs'⟩ := applyFiles_total r1.state.updates a.files hnq
    have happly : applyUpdates a r1.state.updates = .ok ⟨a.comment, fs'⟩ := by simp [applyUpdates, hfs']
    have hG' := applyFiles_gold r1.state.updates a.files fs' hfs' hnq
    have hgood : ∀ e ∈ r1.state.log, Good fs' e :=
      good_of_inv hinv hplain hsame (by rw [hgold]; exact hG')
    have hfin : finish r1.verdict file a r1.state.updates =
        (r1.verdict, if r1.state.updates.isEmpty then file else format ⟨a.comment, fs'⟩) := by
      simp only [finish, AF.noopWhenEmpty, AF.writesFormat, Bool.and_true, happly, if_true]
      split <;> rfl
    have hparse' : parse (if r1.state.updates.isEmpty then file else format ⟨a.comment, fs'⟩) = some ⟨a.comment, fs'⟩ := by
      split
      · rename_i he
        have hu : r1.state.updates = [] := by simpa using he
        rw [hu] at hfs'
        rw [applyFiles_no_update [] a.files (fun _ _ => rfl)] at hfs'
        simp at hfs'
        rw [hp, ← hfs']
      · exact reparse AF file a _ _ hp happly (fun f _ t ht => (hrep f.name t ht).1)
    rw [hfin]
    exact ⟨a, fs', rfl, hr1.symm, rfl, hparse', sameNames_of_gold hG', hgood⟩

/-- **Whole-run fix-point.**  Run 1: the script file `file` is run with UpdateScripts from base state
`b` (whatever its verdict: the deferred rewrite happens also when a later line fails).  If every
comparison it made against an archive entry was a plain `cmp`, every entry always met the same
actual text, and every content finally recorded is representable (empty or newline-terminated,
NeedsQuote false), then run 2 — the rewritten file, no UpdateScripts, the same base state — parses,
executes the same commands with the same outcome at every line (same verdict, same reported line,
same calls, same final base state, same comparisons), records no update, and leaves the file
byte-identical.  No hypothesis on the entry names is needed. -/
theorem rerun_whole_script [FLen] [FCR] [FLit] [FNQ] (F : CmpFacts) (AF : ApplyFacts)
    (c : Config (St τ)) (hF : Frame c) (read : CmpRead τ) (b : τ) (file : Bytes) (o1 : RunOut τ)
    (h1 : runFile c read true b file = some o1)
    (hplain : ∀ e ∈ o1.res.state.log, e.neg = false)
    (hsame : SameText o1.res.state.log)
    (hrep : ∀ n t, lookupU o1.res.state.updates n = some t → Representable t) :
    o1.verdict = o1.res.verdict ∧
    ∃ o2, runFile c read false b o1.file = some o2 ∧
      o2.file = o1.file ∧ o2.verdict = o1.verdict ∧ o2.res.state.updates = [] ∧
      o2.res.verdict = o1.res.verdict ∧ o2.res.reported = o1.res.reported ∧ o2.res.calls = o1.res.calls ∧
      o2.res.lineno = o1.res.lineno ∧ o2.res.state.base = o1.res.state.base ∧ o2.res.state.log = o1.res.state.log := by
  obtain ⟨a, fs', _, hr1, hv1, hparse', hN, hgood⟩ := rerun_core F AF c hF read b file o1 h1 hplain hsame hrep
  refine ⟨hv1, ?_⟩
  unfold runFile
  rw [hparse']
  simp only [run]
  have hsim := runLines_sim F c hF read a.files fs' hN (splitScript a.comment) 0 false
    ⟨b, a.files, [], []⟩ ⟨b, fs', [], []⟩ ⟨rfl, rfl, rfl, rfl, rfl⟩ (by rw [← hr1]; exact hgood)
  rw [← hr1] at hsim
  generalize runLines (withCmp c read false) (splitScript a.comment) 0 false ⟨b, fs', [], []⟩ = r2 at *
  obtain ⟨v, rp, cl, ln, hb, _, _, hu, hl⟩ := hsim
  have hfin2 : ∀ f, finish r2.verdict f ⟨a.comment, fs'⟩ r2.state.updates = (r2.verdict, f) := by
    intro f; simp [finish, hu, AF.noopWhenEmpty]
  refine ⟨_, rfl, ?_⟩
  simp only [hfin2]
  exact ⟨trivial, by rw [v, hv1], hu, v, rp, cl, ln, hb.symm, hl⟩

/-! ### the same, line by line: `okFold` (every line ends ok) -/

theorem okFold_step (F : CmpFacts) (c : Config (St τ)) (hF : Frame c) (read : CmpRead τ) (upd : Bool) (ls : List Bytes) :
    ∀ (s s' : St τ), okFold (withCmp c read upd) s ls = some s' → Step upd s s' := by
  induction ls with
  | nil => intro s s' h; simp [okFold] at h; subst h; exact step_refl upd s
  | cons l ls ih =>
    intro s s' h
    simp only [okFold] at h
    split at h
    · refine step_trans upd _ _ _ ?_ (ih _ _ h)
      unfold lineOut
      split
      · exact step_refl upd s
      · exact runLine_step F c hF read upd false s l
    · simp at h

/-- If every line of run 1 ends ok, the loop's final state is the fold's. -/
theorem okFold_runLines {σ : Type} (c : Config σ) (ls : List Bytes) :
    ∀ (n : Nat) (s s' : σ), okFold c s ls = some s' →
      (runLines c ls n false s).state = s' ∧ (runLines c ls n false s).reported = none := by
  induction ls with
  | nil => intro n s s' h; simp [okFold] at h; subst h; simp [runLines]
  | cons l ls ih =>
    intro n s s' h
    simp only [okFold] at h
    split at h
    · rename_i hok
      by_cases hc : isComment l = true
      · simp only [lineOut, hc, if_true] at h
        simp only [runLines, hc, if_true]
        exact ih _ _ _ h
      · have hc' : isComment l = false := by simpa using hc
        simp only [lineOut, hc', Bool.false_eq_true, if_false] at hok h
        simp only [runLines, hc', Bool.false_eq_true, if_false, Bool.and_false, hok]
        exact ih _ _ _ h
    · simp at h

theorem okFold_sim (F : CmpFacts) (c : Config (St τ)) (hF : Frame c) (read : CmpRead τ) (G G' : List File)
    (hN : SameNames G G') (ls : List Bytes) :
    ∀ (s1 s2 s1' : St τ), Rel G G' s1 s2 → okFold (withCmp c read true) s1 ls = some s1' →
      (∀ e ∈ s1'.log, Good G' e) →
      ∃ s2', okFold (withCmp c read false) s2 ls = some s2' ∧ Rel G G' s1' s2' := by
  induction ls with
  | nil => intro s1 s2 s1' hR h _; simp [okFold] at h; subst h; exact ⟨s2, rfl, hR⟩
  | cons l ls ih =>
    intro s1 s2 s1' hR h hgood
    simp only [okFold] at h ⊢
    split at h
    · rename_i hok
      obtain ⟨_, ⟨evs, hl⟩, _⟩ := okFold_step F c hF read true ls _ _ h
      have hline : ∀ e ∈ (lineOut (withCmp c read true) false s1 l).state.log, Good G' e := by
        intro e he; apply hgood; rw [hl]; simp [he]
      have hs : (lineOut (withCmp c read false) false s2 l).out = (lineOut (withCmp c read true) false s1 l).out ∧
          Rel G G' (lineOut (withCmp c read true) false s1 l).state (lineOut (withCmp c read false) false s2 l).state := by
        unfold lineOut at hline ⊢
        split
        · exact ⟨rfl, hR⟩
        · rename_i hc
          simp only [hc] at hline
          obtain ⟨h1, _, h3⟩ := runLine_sim F c hF read G G' hN false s1 s2 l hR hline
          exact ⟨h1, h3⟩
      rw [hs.1, hok]
      exact ih _ _ _ hs.2 h hgood
    · simp at h

/-- **… at every line.**  If moreover every line of run 1 ends ok, so does every line of run 2, and
the two end in the same base state; run 2 has recorded nothing. -/
theorem rerun_every_line_ok [FLen] [FCR] [FLit] [FNQ] (F : CmpFacts) (AF : ApplyFacts)
    (c : Config (St τ)) (hF : Frame c) (read : CmpRead τ) (b : τ) (file : Bytes) (o1 : RunOut τ) (a : Archive)
    (s1' : St τ)
    (h1 : runFile c read true b file = some o1) (hp : parse file = some a)
    (hok : okFold (withCmp c read true) ⟨b, a.files, [], []⟩ (splitScript a.comment) = some s1')
    (hplain : ∀ e ∈ s1'.log, e.neg = false)
    (hsame : SameText s1'.log)
    (hrep : ∀ n t, lookupU s1'.updates n = some t → Representable t) :
    o1.res.state = s1' ∧ o1.verdict = .pass ∧
    ∃ a' s2', parse o1.file = some a' ∧ a'.comment = a.comment ∧
      okFold (withCmp c read false) ⟨b, a'.files, [], []⟩ (splitScript a'.comment) = some s2' ∧
      s2'.base = s1'.base ∧ s2'.updates = [] ∧ s2'.log = s1'.log := by
  have hst : o1.res.state = s1' ∧ o1.res.verdict = .pass := by
    unfold runFile at h1
    rw [hp] at h1
    simp only [Option.some.injEq] at h1
    subst h1
    exact ⟨(okFold_runLines _ _ 0 _ _ hok).1, runLines_okFold_pass _ _ 0 _ _ hok⟩
  obtain ⟨a0, fs', hp0, _, hv1, hparse', hN, hgood⟩ :=
    rerun_core F AF c hF read b file o1 h1 (by rw [hst.1]; exact hplain) (by rw [hst.1]; exact hsame)
      (by rw [hst.1]; exact hrep)
  rw [hp] at hp0
  simp only [Option.some.injEq] at hp0
  subst hp0
  rw [hst.1] at hgood
  obtain ⟨s2', h2, hR⟩ := okFold_sim F c hF read a.files fs' hN (splitScript a.comment)
    ⟨b, a.files, [], []⟩ ⟨b, fs', [], []⟩ s1' ⟨rfl, rfl, rfl, rfl, rfl⟩ hok hgood
  exact ⟨hst.1, by rw [hv1, hst.2], ⟨a.comment, fs'⟩, s2', hparse', rfl, h2, hR.1.symm, hR.2.2.2.1, hR.2.2.2.2⟩

/-! ### what is outside the fix-point -/

/-- The deferred rewrite does not look at the verdict: whatever the loop's verdict is (a later line
may have failed), the updates recorded so far are written, and the verdict stays the loop's. -/
theorem runFile_rewrites (AF : ApplyFacts) (c : Config (St τ)) (read : CmpRead τ) (upd : Bool) (b : τ) (file : Bytes)
    (o : RunOut τ) (a a' : Archive)
    (h : runFile c read upd b file = some o) (hp : parse file = some a)
    (hu : o.res.state.updates ≠ []) (happly : applyUpdates a o.res.state.updates = .ok a') :
    o.file = format a' ∧ o.verdict = o.res.verdict := by
  unfold runFile at h
  rw [hp] at h
  simp only [Option.some.injEq] at h
  subst h
  simp only at hu happly ⊢
  have hne : (run (withCmp c read upd) ⟨b, a.files, [], []⟩ a.comment).state.updates.isEmpty = false := by
    cases hx : (run (withCmp c read upd) ⟨b, a.files, [], []⟩ a.comment).state.updates with
    | nil => exact absurd hx hu
    | cons _ _ => rfl
  simp [finish, hne, happly, AF.writesFormat]

/-- The quoted case: content with a marker line is stored as `Quote(c)`, which differs from `c`; the
comparison of the same output against the stored entry fails without UpdateScripts, and it is equal
once the extracted file has been `unquote`d (a command that rewrites a golden file: outside `Frame`). -/
theorem quoted_entry_mismatch [FLen] [FLit] [FNQ] (F : CmpFacts) {c q : Bytes}
    (hnq : needsQuote c = some true) (hq : quote c = .ok q) (env : Bool) (e : Option Bytes) :
    q ≠ c ∧ doCmp ⟨false, env, false, c, q, e⟩ = .fatal ∧
      unquote q = .ok c ∧ doCmp ⟨false, env, false, c, c, e⟩ = .ok := by
  have hne : q ≠ c := by
    intro h
    have := quote_needsQuote hq
    rw [h, hnq] at this
    simp at this
  refine ⟨hne, ?_, unquote_quote hq, ?_⟩
  · rw [doCmp_eq F]; simp; exact fun h => hne h.symm
  · rw [doCmp_eq F]; simp

/-- A plain comparison whose text is not what the entry holds is a failure without UpdateScripts. -/
theorem cmp_bad_fatal (F : CmpFacts) (read : CmpRead τ) (failed : Bool) (s : St τ) (args : List Bytes)
    (t1 t2 n : Bytes) (hr : read s.base args = some (t1, .entry n)) (hg : goldData s.gold n = some t2)
    (hne : t1 ≠ t2) : (cmpCmd read false failed s false args).2 = .fatal := by
  simp only [cmpCmd, hr, hg]
  rw [doCmp_eq F]
  simp [hne, settle]

/-! ### a concrete member of the class (for the closed examples) -/

namespace Demo

def splitSp : Bytes → List Bytes
  | [] => [[]]
  | b :: rest =>
    match splitSp rest with
    | [] => [[]]
    | w :: ws => if b = 32 then [] :: w :: ws else (b :: w) :: ws

def words (l : Bytes) : List Bytes := (splitSp l).filter (fun w => !w.isEmpty)

def joinSp : List Bytes → Bytes
  | [] => []
  | [w] => w
  | w :: ws => w ++ [32] ++ joinSp ws

/-- `out WORD…`: the words, joined by blanks, and a newline become stdout (the base state). -/
def outCmd : Cmd (St Bytes) := fun _ s neg args =>
  if neg then (s, .fatal) else ({ s with base := joinSp args ++ [NL] }, .ok)

/-- `cmp stdout NAME`: every NAME is taken to be an archive entry. -/
def read : CmpRead Bytes := fun b args =>
  match args with
  | [a, g] => if a = g then none else if a = lit "stdout" then some (b, .entry g) else none
  | _ => none

def cfg : Config (St Bytes) :=
  { continueOnError := false
    parse := fun _ l => some (words l)
    cond := fun _ _ => none
    builtin := fun name => if name = lit "out" then some outCmd else none
    custom := fun _ => none }

theorem frame : Frame cfg := by
  refine ⟨fun _ _ _ _ => rfl, fun _ _ _ _ => rfl, ?_, rfl⟩
  intro name f _ hl failed s s' neg args hb
  have hf : f = outCmd := by
    rcases lookup_cases cfg name f hl with h | h
    · simp only [cfg] at h
      split at h
      · simpa using h.symm
      · simp at h
    · simp [cfg] at h
  subst hf
  simp only [outCmd]
  cases neg <;> simp [hb]

/-- what the examples look at: verdict, file afterwards, reported line, recorded updates, comparisons -/
structure View where
  verdict : Verdict
  file : Bytes
  reported : Option Nat
  updates : List (Bytes × Bytes)
  log : List Ev
deriving DecidableEq, Repr

def view (o : Option (RunOut Bytes)) : Option View :=
  o.map fun r => ⟨r.verdict, r.file, r.res.reported, r.res.state.updates, r.res.state.log⟩

def bs (s : String) : Bytes := s.toList.map (fun ch => ch.toNat.toUInt8)

/-- three lines, two golden entries — `g` stale, `h` up to date: run 1 rewrites `g` only, run 2 passes
and leaves the file alone -/
example :
    view (runFile cfg read true [] (bs "out new\ncmp stdout g\ncmp stdout h\n-- g --\nold\n-- h --\nnew\n")) =
      some ⟨.pass, bs "out new\ncmp stdout g\ncmp stdout h\n-- g --\nnew\n-- h --\nnew\n", none,
        [(bs "g", bs "new\n")], [⟨false, bs "g", bs "new\n"⟩, ⟨false, bs "h", bs "new\n"⟩]⟩ ∧
    view (runFile cfg read false [] (bs "out new\ncmp stdout g\ncmp stdout h\n-- g --\nnew\n-- h --\nnew\n")) =
      some ⟨.pass, bs "out new\ncmp stdout g\ncmp stdout h\n-- g --\nnew\n-- h --\nnew\n", none,
        [], [⟨false, bs "g", bs "new\n"⟩, ⟨false, bs "h", bs "new\n"⟩]⟩ := by
  decide +kernel

/-- **`SameText` cannot be dropped.**  One golden entry compared with two different outputs: run 1
passes and stores the last one; run 2 fails at the first comparison (line 2) — and a further run
with UpdateScripts passes again and flips the entry to the other output: the file oscillates, no
script that passes without UpdateScripts is ever reached. -/
example :
    view (runFile cfg read true [] (bs "out a\ncmp stdout g\nout b\ncmp stdout g\n-- g --\nold\n")) =
      some ⟨.pass, bs "out a\ncmp stdout g\nout b\ncmp stdout g\n-- g --\nb\n", none,
        [(bs "g", bs "b\n")], [⟨false, bs "g", bs "a\n"⟩, ⟨false, bs "g", bs "b\n"⟩]⟩ ∧
    Representable (bs "b\n") ∧
    view (runFile cfg read false [] (bs "out a\ncmp stdout g\nout b\ncmp stdout g\n-- g --\nb\n")) =
      some ⟨.fail, bs "out a\ncmp stdout g\nout b\ncmp stdout g\n-- g --\nb\n", some 2,
        [], [⟨false, bs "g", bs "a\n"⟩]⟩ ∧
    view (runFile cfg read true [] (bs "out a\ncmp stdout g\nout b\ncmp stdout g\n-- g --\nb\n")) =
      some ⟨.pass, bs "out a\ncmp stdout g\nout b\ncmp stdout g\n-- g --\na\n", none,
        [(bs "g", bs "a\n")], [⟨false, bs "g", bs "a\n"⟩, ⟨false, bs "g", bs "b\n"⟩]⟩ := by
  refine ⟨by decide +kernel, ⟨by decide +kernel, by decide +kernel⟩, by decide +kernel, by decide +kernel⟩

/-- **Only plain comparisons.**  A negated `cmp` against an entry that a plain `cmp` updates passes in
run 1 (the entry is still stale) and fails in run 2. -/
example :
    view (runFile cfg read true [] (bs "out a\ncmp stdout g\n! cmp stdout g\n-- g --\nold\n")) =
      some ⟨.pass, bs "out a\ncmp stdout g\n! cmp stdout g\n-- g --\na\n", none,
        [(bs "g", bs "a\n")], [⟨false, bs "g", bs "a\n"⟩, ⟨true, bs "g", bs "a\n"⟩]⟩ ∧
    view (runFile cfg read false [] (bs "out a\ncmp stdout g\n! cmp stdout g\n-- g --\na\n")) =
      some ⟨.fail, bs "out a\ncmp stdout g\n! cmp stdout g\n-- g --\na\n", some 3,
        [], [⟨false, bs "g", bs "a\n"⟩, ⟨true, bs "g", bs "a\n"⟩]⟩ := by
  decide +kernel

/-- **Representable cannot be dropped.**  An output with a marker line is stored quoted; run 2 compares
the output with the quoted form and fails; an output without final newline is stored with one. -/
example :
    view (runFile cfg read true [] (bs "out -- x --\ncmp stdout g\n-- g --\nold\n")) =
      some ⟨.pass, bs "out -- x --\ncmp stdout g\n-- g --\n>-- x --\n", none,
        [(bs "g", bs "-- x --\n")], [⟨false, bs "g", bs "-- x --\n"⟩]⟩ ∧
    view (runFile cfg read false [] (bs "out -- x --\ncmp stdout g\n-- g --\n>-- x --\n")) =
      some ⟨.fail, bs "out -- x --\ncmp stdout g\n-- g --\n>-- x --\n", some 2,
        [], [⟨false, bs "g", bs "-- x --\n"⟩]⟩ := by
  decide +kernel

end Demo

end GIV.TsRun.Rerun
