/-
  C19 — MatchFile read the way the property states it: over SUFFIXES of the file name.

  `SuffixUnselected tags name` is written from the property text only: the part of the name before
  its first '.', a final "_test" removed, ends in `_GOOS_GOARCH`, `_GOOS` or `_GOARCH` (the '_' is
  part of the suffix) for known tokens one of which `tags` does not select (android also selecting
  linux).  It mentions suffixes / prefixes of the name, the known-OS / known-arch tables and `sel`,
  nothing of the model's split (`fileSegsRev`, `splitOn`, `cutAt`).
  `matchFile_suffix_spec` proves, for all names and tag sets, that `matchFile` is false exactly then.
-/
import GIV.Lemmas.ImportsBuildProofs

namespace GIV.C19
open GIV GIV.Build GIV.Gen.ImportsBuild

/-! ### the specification -/

/-- the part of `name` before its first '.' (all of `name` if there is none). -/
def stem (name : Bytes) : Bytes := name.takeWhile (fun b => b != 46)

/-- "_test" -/
def underscoreTest : Bytes := 95 :: testWord

/-- `s` without a final "_test" (one, not several), if it ends in that; else `s`. -/
def stripTest (s : Bytes) : Bytes :=
  if underscoreTest.isSuffixOf s then s.take (s.length - underscoreTest.length) else s

/-- `s` ends in "_" ++ tok. -/
def endsInTok (s tok : Bytes) : Prop := (95 :: tok) <:+ s

/-- `s` ends in "_" ++ o ++ "_" ++ a. -/
def endsInPair (s o a : Bytes) : Prop := (95 :: (o ++ 95 :: a)) <:+ s

/-- `s` ends in `_GOOS_GOARCH` with one of the two not selected, or in `_GOOS` / `_GOARCH` not selected. -/
def SuffixUnselectedOf (tags : Tags) (s : Bytes) : Prop :=
  (∃ o a, knownOS o = true ∧ knownArch a = true ∧ endsInPair s o a ∧
      (sel tags o = false ∨ sel tags a = false)) ∨
  (∃ t, (knownOS t = true ∨ knownArch t = true) ∧ endsInTok s t ∧ sel tags t = false)

/-- The property's condition on a file name: its stem, a final "_test" removed, ends in
`_GOOS_GOARCH`, `_GOOS` or `_GOARCH` for a known OS / architecture that `tags` does not select. -/
def SuffixUnselected (tags : Tags) (name : Bytes) : Prop :=
  SuffixUnselectedOf tags (stripTest (stem name))

/-! ### the specification's own notions, characterised by prefixes / suffixes -/

theorem stem_prefix (name : Bytes) : stem name <+: name := List.takeWhile_prefix _

theorem stem_no_dot (name : Bytes) : (46 : UInt8) ∉ stem name := by
  induction name with
  | nil => simp [stem]
  | cons b rest ih =>
    by_cases hb : b = 46
    · subst hb; simp [stem]
    · have e : stem (b :: rest) = b :: stem rest := by simp [stem, hb]
      rw [e]
      simp only [List.mem_cons, not_or]
      exact ⟨Ne.symm hb, ih⟩

/-- `stem name` is all of `name`, or is followed by a '.' in `name`. -/
theorem stem_spec (name : Bytes) : stem name = name ∨ stem name ++ [46] <+: name := by
  induction name with
  | nil => left; rfl
  | cons b rest ih =>
    by_cases hb : b = 46
    · right; subst hb; simp [stem]
    · have e : stem (b :: rest) = b :: stem rest := by simp [stem, hb]
      rw [e]
      rcases ih with h | h
      · left; rw [h]
      · right; exact (List.prefix_cons_inj b).mpr h

theorem stripTest_of_suffix (p : Bytes) : stripTest (p ++ underscoreTest) = p := by
  have h : underscoreTest.isSuffixOf (p ++ underscoreTest) = true := by
    rw [List.isSuffixOf_iff_suffix]; exact List.suffix_append _ _
  unfold stripTest
  rw [if_pos h]
  simp

theorem stripTest_of_not_suffix (s : Bytes) (h : ¬ underscoreTest <:+ s) : stripTest s = s := by
  unfold stripTest
  rw [if_neg]
  rwa [List.isSuffixOf_iff_suffix]

theorem stripTest_prefix (s : Bytes) : stripTest s <+: s := by
  unfold stripTest
  split
  · exact List.take_prefix _ _
  · exact List.prefix_refl _

/-! ### known tokens contain no '_' and no '.', and are not empty (from the regenerated tables) -/

theorem knownOS_clean : (fields goosList).all (fun t => !t.isEmpty && t.all (fun b => b != 95 && b != 46)) = true := by
  decide
theorem knownArch_clean : (fields goarchList).all (fun t => !t.isEmpty && t.all (fun b => b != 95 && b != 46)) = true := by
  decide

theorem known_clean (t : Bytes) (h : knownOS t = true ∨ knownArch t = true) :
    t ≠ [] ∧ (95 : UInt8) ∉ t ∧ (46 : UInt8) ∉ t := by
  have key : ∀ (L : List Bytes), L.all (fun t => !t.isEmpty && t.all (fun b => b != 95 && b != 46)) = true →
      L.contains t = true → t ≠ [] ∧ (95 : UInt8) ∉ t ∧ (46 : UInt8) ∉ t := by
    intro L hall hc
    have hm : t ∈ L := by simpa using hc
    have := (List.all_eq_true.mp hall) t hm
    simp only [Bool.and_eq_true, List.all_eq_true, bne_iff_ne, Bool.not_eq_true', List.isEmpty_eq_false_iff] at this
    refine ⟨this.1, fun h95 => (this.2 _ h95).1 rfl, fun h46 => (this.2 _ h46).2 rfl⟩
  rcases h with h | h
  · exact key _ knownOS_clean h
  · exact key _ knownArch_clean h

/-! ### `splitOn` and suffixes -/

theorem splitOn_of_not_mem (c : UInt8) : ∀ (t : Bytes), c ∉ t → splitOn c t = [t]
  | [], _ => by simp [splitOn]
  | b :: rest, h => by
    have hb : b ≠ c := fun e => h (by simp [e])
    have hr : c ∉ rest := fun e => h (List.mem_cons_of_mem _ e)
    rw [splitOn, if_neg hb, splitOn_of_not_mem c rest hr]

theorem splitOn_append_sep (c : UInt8) (t : Bytes) (ht : c ∉ t) :
    ∀ (p : Bytes), splitOn c (p ++ c :: t) = splitOn c p ++ [t]
  | [] => by simp [splitOn, splitOn_of_not_mem c t ht]
  | b :: p => by
    have ih := splitOn_append_sep c t ht p
    by_cases hb : b = c
    · subst hb; simp [splitOn, ih]
    · cases hsp : splitOn c p with
      | nil => exact absurd hsp (splitOn_ne_nil c p)
      | cons h tl =>
        rw [hsp] at ih
        rw [List.cons_append, splitOn, if_neg hb, ih, splitOn, if_neg hb, hsp]
        rfl

/-- every string has no `c`, or splits at its last `c`. -/
theorem split_last (c : UInt8) : ∀ (s : Bytes), c ∉ s ∨ ∃ p t, s = p ++ c :: t ∧ c ∉ t
  | [] => Or.inl (by simp)
  | b :: s => by
    rcases split_last c s with h | ⟨p, t, rfl, ht⟩
    · by_cases hb : b = c
      · right; exact ⟨[], s, by simp [hb], h⟩
      · left; simp [h, Ne.symm hb]
    · right; exact ⟨b :: p, t, rfl, ht⟩

theorem splitOn_rev_append (c : UInt8) (p t : Bytes) (ht : c ∉ t) :
    (splitOn c (p ++ c :: t)).reverse = t :: (splitOn c p).reverse := by
  rw [splitOn_append_sep c t ht, List.reverse_append]; rfl

/-- the last segment, when there are at least two, is what follows the last `c`. -/
theorem splitOn_rev_cons (c : UInt8) (w t : Bytes) (rest : List Bytes)
    (h : (splitOn c w).reverse = t :: rest) (hr : rest ≠ []) :
    ∃ p, w = p ++ c :: t ∧ (splitOn c p).reverse = rest := by
  rcases split_last c w with hw | ⟨p, t', rfl, ht'⟩
  · rw [splitOn_of_not_mem c w hw] at h
    simp at h
    exact absurd h.2 hr
  · rw [splitOn_rev_append c p t' ht'] at h
    simp only [List.cons.injEq] at h
    obtain ⟨rfl, rfl⟩ := h
    exact ⟨p, rfl, rfl⟩

/-- a string that is empty or starts with `c` has an empty first segment. -/
theorem splitOn_head (c : UInt8) (w : Bytes) (hw : w = [] ∨ ∃ w', w = c :: w') :
    ∃ tl, splitOn c w = [] :: tl := by
  rcases hw with rfl | ⟨w', rfl⟩
  · exact ⟨[], by simp [splitOn]⟩
  · exact ⟨splitOn c w', by simp [splitOn]⟩

theorem splitOn_rev_rest_ne (c : UInt8) (w t : Bytes) (rest : List Bytes)
    (hw : w = [] ∨ ∃ w', w = c :: w')
    (h : (splitOn c w).reverse = t :: rest) (ht : t ≠ []) : rest ≠ [] := by
  rintro rfl
  obtain ⟨tl, htl⟩ := splitOn_head c w hw
  rw [htl] at h
  have := congrArg List.reverse h
  simp at this
  exact ht this.1

/-- a suffix that starts with `c` does not reach into a prefix without `c`. -/
theorem suffix_append_of_head_not_mem (c : UInt8) (X w : Bytes) :
    ∀ (pre : Bytes), c ∉ pre → ((c :: X) <:+ pre ++ w ↔ (c :: X) <:+ w)
  | [], _ => by simp
  | b :: pre, h => by
    have hb : c ≠ b := fun e => h (by simp [e])
    have hp : c ∉ pre := fun e => h (List.mem_cons_of_mem _ e)
    rw [List.cons_append, List.suffix_cons_iff, suffix_append_of_head_not_mem c X w pre hp]
    constructor
    · rintro (h | h)
      · simp only [List.cons.injEq] at h; exact absurd h.1 hb
      · exact h
    · exact Or.inr

theorem not_mem_of_prefix_head (c : UInt8) (w q X : Bytes) (hw : w = [] ∨ ∃ w', w = c :: w')
    (h : w = q ++ c :: X) : q = [] ∨ ∃ q', q = c :: q' := by
  rcases hw with rfl | ⟨w', rfl⟩
  · simp at h
  · cases q with
    | nil => left; rfl
    | cons b q' =>
      right
      simp only [List.cons_append, List.cons.injEq] at h
      exact ⟨q', by rw [h.1]⟩

/-! ### the suffix reading of a string `pre ++ w` = the segment reading of `w` -/

theorem suffixUnselectedOf_iff (tags : Tags) (pre w : Bytes) (hpre : (95 : UInt8) ∉ pre)
    (hw : w = [] ∨ ∃ w', w = 95 :: w') :
    SuffixUnselectedOf tags (pre ++ w) ↔ suffixUnselected tags (splitOn 95 w).reverse := by
  unfold SuffixUnselectedOf suffixUnselected endsInPair endsInTok
  constructor
  · rintro (⟨o, a, ho, ha, hsuf, hsel⟩ | ⟨t, ht, hsuf, hsel⟩)
    · left
      have hoc := known_clean o (Or.inl ho)
      have hac := known_clean a (Or.inr ha)
      rw [suffix_append_of_head_not_mem 95 _ w pre hpre] at hsuf
      obtain ⟨p, rfl⟩ := hsuf
      refine ⟨a, o, (splitOn 95 p).reverse, ?_, ho, ha, hsel⟩
      have e : p ++ 95 :: (o ++ 95 :: a) = (p ++ 95 :: o) ++ 95 :: a := by simp
      rw [e, splitOn_rev_append 95 _ a hac.2.1, splitOn_rev_append 95 p o hoc.2.1]
    · right
      have htc := known_clean t ht
      rw [suffix_append_of_head_not_mem 95 _ w pre hpre] at hsuf
      obtain ⟨p, rfl⟩ := hsuf
      exact ⟨t, (splitOn 95 p).reverse, splitOn_rev_append 95 p t htc.2.1, ht, hsel⟩
  · rintro (⟨a, o, rest, hrl, ho, ha, hsel⟩ | ⟨t, rest, hrl, ht, hsel⟩)
    · left
      have hoc := known_clean o (Or.inl ho)
      obtain ⟨q, rfl, hq⟩ := splitOn_rev_cons 95 w a (o :: rest) hrl (by simp)
      have hq0 := not_mem_of_prefix_head 95 _ q a hw rfl
      have hrest := splitOn_rev_rest_ne 95 q o rest hq0 hq hoc.1
      obtain ⟨p, rfl, _⟩ := splitOn_rev_cons 95 q o rest hq hrest
      refine ⟨o, a, ho, ha, ?_, hsel⟩
      exact ⟨pre ++ p, by simp⟩
    · right
      have htc := known_clean t ht
      have hrest := splitOn_rev_rest_ne 95 w t rest hw hrl htc.1
      obtain ⟨p, rfl, _⟩ := splitOn_rev_cons 95 w t rest hrl hrest
      exact ⟨t, ht, ⟨pre ++ p, by simp⟩, hsel⟩

/-! ### the model's split of the name, in terms of the stem -/

theorem stem_eq_cutAt (name : Bytes) : (cutAt 46 name).1 = stem name := by
  induction name with
  | nil => rfl
  | cons b rest ih =>
    by_cases hb : b = 46
    · subst hb; simp [cutAt, stem]
    · simp only [cutAt, if_neg hb]
      rw [ih]
      simp [stem, hb]

theorem cutAt_fst_not_mem (c : UInt8) : ∀ (b : Bytes), c ∉ (cutAt c b).1
  | [] => by simp [cutAt]
  | x :: xs => by
    by_cases hx : x = c
    · simp [cutAt, hx]
    · have := cutAt_fst_not_mem c xs
      simp only [cutAt, if_neg hx, List.mem_cons, not_or]
      exact ⟨Ne.symm hx, this⟩

theorem cutAt_none_not_mem (c : UInt8) : ∀ (b : Bytes) (l : Bytes), cutAt c b = (l, none) → c ∉ b := by
  intro b l h
  have h1 := cutAt_none h
  have h2 := cutAt_fst_not_mem c b
  rw [h] at h2
  rw [← h1.1]
  exact h2

/-- the model's "drop a final test segment". -/
def stripRev (rl : List Bytes) : List Bytes :=
  match rl with
  | last :: more => if fileStripsTest && last = testTok then more else rl
  | [] => rl

theorem fileSegsRev_unfold (name : Bytes) :
    fileSegsRev name =
      match cutAt 95 (cutAt 46 name).1 with
      | (_, none) => none
      | (_, some after) => some (stripRev (splitOn 95 (95 :: after)).reverse) := rfl

/-- Either the stem has no '_' (and the model looks at nothing), or the stem with a final "_test"
removed is `pre ++ w` with no '_' in `pre`, `w` empty or starting with '_', and the model looks at
the segments of `w`. -/
theorem fileSegsRev_char (name : Bytes) :
    ((95 : UInt8) ∉ stem name ∧ fileSegsRev name = none) ∨
    (∃ pre w, (95 : UInt8) ∉ pre ∧ (w = [] ∨ ∃ w', w = 95 :: w') ∧
      stripTest (stem name) = pre ++ w ∧ fileSegsRev name = some (splitOn 95 w).reverse) := by
  rw [fileSegsRev_unfold, stem_eq_cutAt]
  rcases cutAt_cases 95 (stem name) with ⟨pre, after, hc⟩ | ⟨l, hc⟩
  · right
    rw [hc]
    have hpre : (95 : UInt8) ∉ pre := by
      have := cutAt_fst_not_mem 95 (stem name); rwa [hc] at this
    have hst : stem name = pre ++ 95 :: after := (cutAt_some hc).1
    have htw : testWord ≠ [] := by decide
    have htc : (95 : UInt8) ∉ testWord := by decide
    by_cases hsuf : underscoreTest <:+ stem name
    · -- the stem ends in "_test"
      have hsuf' : underscoreTest <:+ 95 :: after := by
        rw [hst] at hsuf
        exact (suffix_append_of_head_not_mem 95 testWord (95 :: after) pre hpre).mp hsuf
      obtain ⟨p, hp⟩ := hsuf'
      refine ⟨pre, p, hpre, not_mem_of_prefix_head 95 (95 :: after) p testWord (Or.inr ⟨after, rfl⟩) hp.symm, ?_, ?_⟩
      · rw [hst, ← hp, ← List.append_assoc, stripTest_of_suffix]
      · have : (splitOn 95 (95 :: after)).reverse = testWord :: (splitOn 95 p).reverse := by
          rw [← hp]; exact splitOn_rev_append 95 p testWord htc
        simp only [this, stripRev, testTok_eq]
        simp [show fileStripsTest = true from rfl]
    · -- it does not
      refine ⟨pre, 95 :: after, hpre, Or.inr ⟨after, rfl⟩, ?_, ?_⟩
      · rw [stripTest_of_not_suffix _ hsuf, hst]
      · simp only [Option.some.injEq]
        cases hrl : (splitOn 95 (95 :: after)).reverse with
        | nil => rfl
        | cons last more =>
          by_cases hl : last = testWord
          · exfalso
            subst hl
            have hrest := splitOn_rev_rest_ne 95 _ testWord more (Or.inr ⟨after, rfl⟩) hrl htw
            obtain ⟨p, hp, _⟩ := splitOn_rev_cons 95 _ testWord more hrl hrest
            apply hsuf
            rw [hst, hp]
            exact ⟨pre ++ p, by simp [underscoreTest]⟩
          · simp [stripRev, testTok_eq, hl]
  · left
    rw [hc]
    exact ⟨cutAt_none_not_mem 95 _ l hc, rfl⟩

/-! ### the theorem -/

/-- `MatchFile(name, tags)` is false exactly when `*` is not set and the name's stem, a final
"_test" removed, ends in `_GOOS_GOARCH`, `_GOOS` or `_GOARCH` with a known token that the tags
(android also selecting linux) do not select. -/
theorem matchFile_suffix_spec (U : Nat → Bool) (name : Bytes) (tags : Tags) :
    matchFile U name tags = false ↔ tags star = false ∧ SuffixUnselected tags name := by
  rw [matchFile_false_iff]
  apply and_congr Iff.rfl
  unfold SuffixUnselected
  rcases fileSegsRev_char name with ⟨hno, hnone⟩ | ⟨pre, w, hpre, hw, hstrip, hsome⟩
  · rw [hnone]
    constructor
    · rintro ⟨rl, h, _⟩; simp at h
    · intro h
      exfalso
      have hmem : ∀ X : Bytes, (95 :: X) <:+ stripTest (stem name) → False := by
        intro X hX
        have h1 : (95 : UInt8) ∈ stripTest (stem name) := hX.subset (by simp)
        exact hno ((stripTest_prefix _).subset h1)
      rcases h with ⟨o, a, _, _, hsuf, _⟩ | ⟨t, _, hsuf, _⟩
      · exact hmem _ hsuf
      · exact hmem _ hsuf
  · rw [hsome, hstrip, suffixUnselectedOf_iff tags pre w hpre hw]
    simp

/-! ### the specification is decidable (bounded search through the two tables) -/

/-- `SuffixUnselected`, computed: search the known-OS / known-arch tables for the suffix. -/
def suffixUnselectedB (tags : Tags) (name : Bytes) : Bool :=
  ((fields goosList).any fun o => (fields goarchList).any fun a =>
      (95 :: (o ++ 95 :: a)).isSuffixOf (stripTest (stem name)) && !(sel tags o && sel tags a)) ||
  ((fields goosList ++ fields goarchList).any fun t =>
      (95 :: t).isSuffixOf (stripTest (stem name)) && !sel tags t)

theorem suffixUnselectedB_iff (tags : Tags) (name : Bytes) :
    suffixUnselectedB tags name = true ↔ SuffixUnselected tags name := by
  unfold suffixUnselectedB SuffixUnselected SuffixUnselectedOf endsInPair endsInTok knownOS knownArch
  simp only [Bool.or_eq_true, List.any_eq_true, Bool.and_eq_true, List.isSuffixOf_iff_suffix,
    List.mem_append, List.contains_iff_mem, Bool.not_eq_true', Bool.and_eq_false_iff]
  constructor
  · rintro (⟨o, ho, a, ha, h1, h2⟩ | ⟨t, ht, h1, h2⟩)
    · exact Or.inl ⟨o, a, ho, ha, h1, h2⟩
    · exact Or.inr ⟨t, ht, h1, h2⟩
  · rintro (⟨o, a, ho, ha, h1, h2⟩ | ⟨t, ht, h1, h2⟩)
    · exact Or.inl ⟨o, ho, a, ha, h1, h2⟩
    · exact Or.inr ⟨t, ht, h1, h2⟩

instance (tags : Tags) (name : Bytes) : Decidable (SuffixUnselected tags name) :=
  decidable_of_iff _ (suffixUnselectedB_iff tags name)

/-! ### corner cases, each with the model's verdict and the specification's (closed terms, by evaluation)

`tagsOf l` = the tag set `l`; `tagsOf []` selects nothing, so under it a name is rejected exactly
when it is constrained at all. -/

def tagsOf (l : List Bytes) : Tags := fun t => l.contains t

-- 'linux.go' under {}: the name IS the token (no '_' before it): not constrained
example : matchFile (fun _ => false) [108, 105, 110, 117, 120, 46, 103, 111] (tagsOf []) = true ∧
    ¬ SuffixUnselected (tagsOf []) [108, 105, 110, 117, 120, 46, 103, 111] := by decide
-- '_linux.go' under {}: an empty prefix is enough: "_linux" ends in _GOOS, so the name is constrained
example : matchFile (fun _ => false) [95, 108, 105, 110, 117, 120, 46, 103, 111] (tagsOf []) = false ∧
    SuffixUnselected (tagsOf []) [95, 108, 105, 110, 117, 120, 46, 103, 111] := by decide
-- 'x__linux.go' under {}: an empty segment before the token does not matter
example : matchFile (fun _ => false) [120, 95, 95, 108, 105, 110, 117, 120, 46, 103, 111] (tagsOf []) = false ∧
    SuffixUnselected (tagsOf []) [120, 95, 95, 108, 105, 110, 117, 120, 46, 103, 111] := by decide
-- 'x__amd64.go' under {}: … and is not a known OS: only the architecture counts
example : matchFile (fun _ => false) [120, 95, 95, 97, 109, 100, 54, 52, 46, 103, 111] (tagsOf []) = false ∧
    SuffixUnselected (tagsOf []) [120, 95, 95, 97, 109, 100, 54, 52, 46, 103, 111] := by decide
-- 'x_linux_.go' under {}: a trailing '_' : the last token is empty, not constrained
example : matchFile (fun _ => false) [120, 95, 108, 105, 110, 117, 120, 95, 46, 103, 111] (tagsOf []) = true ∧
    ¬ SuffixUnselected (tagsOf []) [120, 95, 108, 105, 110, 117, 120, 95, 46, 103, 111] := by decide
-- 'linux_amd64.go' under {}: "linux" has no '_' before it: this is _GOARCH only …
example : matchFile (fun _ => false) [108, 105, 110, 117, 120, 95, 97, 109, 100, 54, 52, 46, 103, 111] (tagsOf []) = false ∧
    SuffixUnselected (tagsOf []) [108, 105, 110, 117, 120, 95, 97, 109, 100, 54, 52, 46, 103, 111] := by decide
-- 'linux_amd64.go' under {amd64}: … so {amd64} alone selects it (linux is not asked for)
example : matchFile (fun _ => false) [108, 105, 110, 117, 120, 95, 97, 109, 100, 54, 52, 46, 103, 111] (tagsOf [[97, 109, 100, 54, 52]]) = true ∧
    ¬ SuffixUnselected (tagsOf [[97, 109, 100, 54, 52]]) [108, 105, 110, 117, 120, 95, 97, 109, 100, 54, 52, 46, 103, 111] := by decide
-- 'x_linux_amd64.go' under {amd64}: whereas here both tokens are asked for
example : matchFile (fun _ => false) [120, 95, 108, 105, 110, 117, 120, 95, 97, 109, 100, 54, 52, 46, 103, 111] (tagsOf [[97, 109, 100, 54, 52]]) = false ∧
    SuffixUnselected (tagsOf [[97, 109, 100, 54, 52]]) [120, 95, 108, 105, 110, 117, 120, 95, 97, 109, 100, 54, 52, 46, 103, 111] := by decide
-- 'x_linux_amd64.go' under {android, amd64}: android also selects linux
example : matchFile (fun _ => false) [120, 95, 108, 105, 110, 117, 120, 95, 97, 109, 100, 54, 52, 46, 103, 111] (tagsOf [[97, 110, 100, 114, 111, 105, 100], [97, 109, 100, 54, 52]]) = true ∧
    ¬ SuffixUnselected (tagsOf [[97, 110, 100, 114, 111, 105, 100], [97, 109, 100, 54, 52]]) [120, 95, 108, 105, 110, 117, 120, 95, 97, 109, 100, 54, 52, 46, 103, 111] := by decide
-- 'x_amd64_linux.go' under {linux}: _GOARCH_GOOS is not a pair: only the final _GOOS counts
example : matchFile (fun _ => false) [120, 95, 97, 109, 100, 54, 52, 95, 108, 105, 110, 117, 120, 46, 103, 111] (tagsOf [[108, 105, 110, 117, 120]]) = true ∧
    ¬ SuffixUnselected (tagsOf [[108, 105, 110, 117, 120]]) [120, 95, 97, 109, 100, 54, 52, 95, 108, 105, 110, 117, 120, 46, 103, 111] := by decide
-- 'x_windows_linux.go' under {linux}: likewise _GOOS_GOOS
example : matchFile (fun _ => false) [120, 95, 119, 105, 110, 100, 111, 119, 115, 95, 108, 105, 110, 117, 120, 46, 103, 111] (tagsOf [[108, 105, 110, 117, 120]]) = true ∧
    ¬ SuffixUnselected (tagsOf [[108, 105, 110, 117, 120]]) [120, 95, 119, 105, 110, 100, 111, 119, 115, 95, 108, 105, 110, 117, 120, 46, 103, 111] := by decide
-- 'x_test.go' under {}: "_test" removed, nothing left to constrain
example : matchFile (fun _ => false) [120, 95, 116, 101, 115, 116, 46, 103, 111] (tagsOf []) = true ∧
    ¬ SuffixUnselected (tagsOf []) [120, 95, 116, 101, 115, 116, 46, 103, 111] := by decide
-- '_test.go' under {}: the same with an empty prefix
example : matchFile (fun _ => false) [95, 116, 101, 115, 116, 46, 103, 111] (tagsOf []) = true ∧
    ¬ SuffixUnselected (tagsOf []) [95, 116, 101, 115, 116, 46, 103, 111] := by decide
-- 'x_linux_test.go' under {}: "_test" removed, then _GOOS
example : matchFile (fun _ => false) [120, 95, 108, 105, 110, 117, 120, 95, 116, 101, 115, 116, 46, 103, 111] (tagsOf []) = false ∧
    SuffixUnselected (tagsOf []) [120, 95, 108, 105, 110, 117, 120, 95, 116, 101, 115, 116, 46, 103, 111] := by decide
-- 'x_linux_test_test.go' under {}: only ONE final "_test" is removed; what is left ends in _test, no known token
example : matchFile (fun _ => false) [120, 95, 108, 105, 110, 117, 120, 95, 116, 101, 115, 116, 95, 116, 101, 115, 116, 46, 103, 111] (tagsOf []) = true ∧
    ¬ SuffixUnselected (tagsOf []) [120, 95, 108, 105, 110, 117, 120, 95, 116, 101, 115, 116, 95, 116, 101, 115, 116, 46, 103, 111] := by decide
-- 'x_test_linux.go' under {}: "_test" is only removed at the end
example : matchFile (fun _ => false) [120, 95, 116, 101, 115, 116, 95, 108, 105, 110, 117, 120, 46, 103, 111] (tagsOf []) = false ∧
    SuffixUnselected (tagsOf []) [120, 95, 116, 101, 115, 116, 95, 108, 105, 110, 117, 120, 46, 103, 111] := by decide
-- 'x_linux.tar_windows.go' under {windows}: the stem ends at the FIRST '.': this is x_linux
example : matchFile (fun _ => false) [120, 95, 108, 105, 110, 117, 120, 46, 116, 97, 114, 95, 119, 105, 110, 100, 111, 119, 115, 46, 103, 111] (tagsOf [[119, 105, 110, 100, 111, 119, 115]]) = false ∧
    SuffixUnselected (tagsOf [[119, 105, 110, 100, 111, 119, 115]]) [120, 95, 108, 105, 110, 117, 120, 46, 116, 97, 114, 95, 119, 105, 110, 100, 111, 119, 115, 46, 103, 111] := by decide
-- 'x.go_linux' under {}: … and a token after the first '.' is not looked at
example : matchFile (fun _ => false) [120, 46, 103, 111, 95, 108, 105, 110, 117, 120] (tagsOf []) = true ∧
    ¬ SuffixUnselected (tagsOf []) [120, 46, 103, 111, 95, 108, 105, 110, 117, 120] := by decide
-- 'x_linux' under {}: no '.' at all: the whole name is the stem
example : matchFile (fun _ => false) [120, 95, 108, 105, 110, 117, 120] (tagsOf []) = false ∧
    SuffixUnselected (tagsOf []) [120, 95, 108, 105, 110, 117, 120] := by decide
-- 'x_Linux.go' under {}: tokens are case-sensitive
example : matchFile (fun _ => false) [120, 95, 76, 105, 110, 117, 120, 46, 103, 111] (tagsOf []) = true ∧
    ¬ SuffixUnselected (tagsOf []) [120, 95, 76, 105, 110, 117, 120, 46, 103, 111] := by decide

-- the two notions on their own: "x_linux.tar_windows.go" ↦ "x_linux"; "x_linux_test_test" ↦ "x_linux_test"; "_test" ↦ ""
example : stem [120, 95, 108, 105, 110, 117, 120, 46, 116, 97, 114, 95, 119, 105, 110, 100, 111, 119, 115, 46, 103, 111]
    = [120, 95, 108, 105, 110, 117, 120] := by decide
example : stripTest [120, 95, 108, 105, 110, 117, 120, 95, 116, 101, 115, 116, 95, 116, 101, 115, 116]
    = [120, 95, 108, 105, 110, 117, 120, 95, 116, 101, 115, 116] := by decide
example : stripTest [95, 116, 101, 115, 116] = [] ∧ stripTest [116, 101, 115, 116] = [116, 101, 115, 116] := by decide

/-- "linux.go" is constrained under no tag set at all (this one is not a finite evaluation). -/
theorem linux_go_unconstrained (tags : Tags) :
    ¬ SuffixUnselected tags [108, 105, 110, 117, 120, 46, 103, 111] := by
  have e : stripTest (stem [108, 105, 110, 117, 120, 46, 103, 111]) = linux := by decide
  unfold SuffixUnselected SuffixUnselectedOf endsInPair endsInTok
  rw [e]
  have hm : ∀ X : Bytes, ¬ (95 :: X) <:+ linux :=
    fun X h => absurd (h.subset List.mem_cons_self) (by decide)
  rintro (⟨o, a, _, _, h, _⟩ | ⟨t, _, h, _⟩) <;> exact hm _ h

end GIV.C19
