/-
  GIV.Lemmas.CachePutFrame — a Put (failing or not) touches only its own two files: the data file of
  its output and the index file of its id (C12: "a failed Put never makes unrelated entries unreadable").
-/
import GIV.Lemmas.CachePutSeq

set_option linter.unusedSimpArgs false
set_option linter.unusedSectionVars false
set_option linter.unusedVariables false

namespace GIV.CachePut
open GIV

variable {Id Hsh : Type} [DecidableEq Id] [DecidableEq Hsh]
variable {P : Params Id Hsh} {offered : Bytes → Prop} {now : Int} {id : Id} {s : Src} {used used' : Bool}
  {fs fs' : FS Id Hsh} {proc n : Nat} {fault : Fault} {r : Res} {nx : Next Hsh}

/-- the names whose content a system call may change are among `q1`, `q2`. -/
def Touches (fs : FS Id Hsh) (q1 q2 : Name Id Hsh) : Sys Id Hsh → Prop
  | .open q _ _ _ => q = q1 ∨ q = q2
  | .unlink q => q = q1 ∨ q = q2
  | .write fd _ => ∀ o, fs.fds fd = some o → fs.names q1 = some o.ino ∨ fs.names q2 = some o.ino
  | .ftruncate fd _ => ∀ o, fs.fds fd = some o → fs.names q1 = some o.ino ∨ fs.names q2 = some o.ino
  | _ => True

theorem content_same (h : SameFiles fs fs') (p : Name Id Hsh) : fs'.content p = fs.content p := by
  simp [FS.content, FS.file?, h.1, h.2.1]

theorem content_setInode {q p : Name Id Hsh} {i : Nat} (hst : Struct fs) (hq : fs.names q = some i) (hp : p ≠ q)
    (nd' : Inode Id Hsh) : (fs.setInode i nd').content p = fs.content p := by
  simp only [FS.content, FS.file?, FS.setInode]
  cases hn : fs.names p with
  | none => rfl
  | some j =>
    have : j ≠ i := by
      intro e; subst e
      obtain ⟨a, h1, h2⟩ := hst.named _ _ hn
      obtain ⟨b, h3, h4⟩ := hst.named _ _ hq
      rw [h1] at h3; cases h3
      exact hp (h2.symm.trans h4)
    simp [this]

theorem execOk_frame (hst : Struct fs) {sys : Sys Id Hsh} {q1 q2 : Name Id Hsh} (he : execOk fs proc sys = some (fs', r))
    (ht : Touches fs q1 q2 sys) {p : Name Id Hsh} (h1 : p ≠ q1) (h2 : p ≠ q2) : fs'.content p = fs.content p := by
  cases sys <;> simp only [Touches] at ht
  case stat q => exact content_same (exec_stat_same (fault := .none) (by simpa [exec] using he)) p
  case read fd k => exact content_same (exec_read_same (fault := .none) (by simpa [exec] using he)) p
  case close fd => exact content_same (exec_close_same (fault := .none) (by simpa [exec] using he)) p
  case chtimes q => exact content_same (exec_chtimes_same (fault := .none) (by simpa [exec] using he)) p
  case «open» q m create trunc =>
    have hpq : p ≠ q := by rcases ht with rfl | rfl <;> assumption
    simp only [execOk] at he
    cases hnm : fs.names q with
    | some i =>
      cases hnd : fs.inodes i with
      | none => simp [hnm, hnd] at he
      | some nd =>
        simp [hnm, hnd, FS.newFd] at he
        obtain ⟨rfl, _⟩ := he
        cases trunc with
        | false => simp [FS.content, FS.file?]
        | true =>
          have := content_setInode hst hnm hpq { nd with data := [] }
          simpa [FS.content, FS.file?] using this
    | none =>
      cases create with
      | false => simp [hnm] at he; obtain ⟨rfl, _⟩ := he; rfl
      | true =>
        simp [hnm, FS.newFd] at he
        obtain ⟨rfl, _⟩ := he
        simp only [FS.content, FS.file?, hpq, if_false]
        cases hn : fs.names p with
        | none => rfl
        | some j =>
          have : j ≠ fs.nextIno := by
            intro e; subst e
            obtain ⟨a, g1, _⟩ := hst.named _ _ hn
            have := hst.bound _ _ g1; omega
          simp [this]
  case write fd bs =>
    obtain ⟨o, nd, g1, g2, rfl, _⟩ := write_spec he
    rcases ht o g1 with h | h
    · simpa [FS.content, FS.file?, FS.setFd] using content_setInode hst h h1 { nd with data := writeAt nd.data o.off bs }
    · simpa [FS.content, FS.file?, FS.setFd] using content_setInode hst h h2 { nd with data := writeAt nd.data o.off bs }
  case ftruncate fd k =>
    obtain ⟨o, nd, g1, g2, rfl, _⟩ := ftruncate_spec he
    rcases ht o g1 with h | h
    · exact content_setInode hst h h1 _
    · exact content_setInode hst h h2 _
  case unlink q =>
    have hpq : p ≠ q := by rcases ht with rfl | rfl <;> assumption
    simp only [execOk] at he
    split at he <;> (simp at he; obtain ⟨rfl, _⟩ := he)
    · rfl
    · simp [FS.content, FS.file?, hpq]

theorem exec_frame (hst : Struct fs) {sys : Sys Id Hsh} {q1 q2 : Name Id Hsh} (he : exec fs proc sys fault = some (fs', r))
    (ht : Touches fs q1 q2 sys) {p : Name Id Hsh} (h1 : p ≠ q1) (h2 : p ≠ q2) : fs'.content p = fs.content p := by
  cases fault <;> simp only [exec] at he
  case none => exact execOk_frame hst he ht h1 h2
  case crashAfter => exact execOk_frame hst he ht h1 h2
  case fail => simp at he; obtain ⟨rfl, _⟩ := he; rfl
  case crashBefore => simp at he
  case short k =>
    cases sys <;> simp at he
    case write fd bs =>
      split at he
      · next w1 r1 hw =>
        simp at he; obtain ⟨rfl, _⟩ := he
        exact execOk_frame hst hw (by simpa [Touches] using ht) h1 h2
      · simp at he

/-- what the system call at a program point of `Put(id, s)` may touch. -/
theorem put_touches {pc : PC Hsh} (hL : LocalPut P offered now id s used fs pc) :
    Touches fs (.data (putOut P s)) (.index id) (sysOf P now n (.put id s) pc) := by
  cases pc <;> simp only [LocalPut] at hL <;> simp only [sysOf, Touches, Op.id] <;>
    first
      | trivial
      | exact Or.inl rfl
      | exact Or.inr rfl
      | exact Or.inl trivial
      | exact Or.inr trivial
      | exact hL.elim
      | skip
  case pWrite fd rest =>
    obtain ⟨_, _, o, nd, h1, h2, _⟩ := hL
    intro o' ho; rw [h1] at ho; cases ho; exact Or.inl h2
  case pCommit fd ck =>
    obtain ⟨_, _, _, _, o, nd, h1, h2, _⟩ := hL
    intro o' ho; rw [h1] at ho; cases ho; exact Or.inl h2
  case pTrunc0 fd =>
    obtain ⟨_, o, nd, h1, h2, _⟩ := hL
    intro o' ho; rw [h1] at ho; cases ho; exact Or.inl h2
  case iWrite fd =>
    obtain ⟨_, o, h1, _, h3⟩ := hL
    intro o' ho; rw [h1] at ho; cases ho; exact Or.inr h3
  case iTrunc fd =>
    obtain ⟨_, o, nd, h1, h2, _⟩ := hL
    intro o' ho; rw [h1] at ho; cases ho; exact Or.inr h2

theorem localPut_struct {pc : PC Hsh} (hL : LocalPut P offered now id s used fs pc) : Struct fs := by
  cases pc <;> simp only [LocalPut] at hL
  case pWrite => obtain ⟨_, _, o, nd, _, _, _, h4, _⟩ := hL; exact h4.1
  case pCommit => obtain ⟨_, _, _, _, o, nd, _, _, _, h4, _⟩ := hL; exact h4.1
  case pTrunc0 => obtain ⟨_, o, nd, _, _, _, h4, _⟩ := hL; exact h4.1
  case iClose fd err => cases err <;> simp at hL <;> first | exact hL.1 | exact hL.2.1
  case iRemove => exact hL.1.1
  all_goals first | exact hL.1 | exact hL.1.1 | exact hL.elim

theorem content_closeProc (p : Name Id Hsh) : (fs.closeProc proc).content p = fs.content p := rfl

/-- **A Put — whatever fault hits it, wherever it stops — changes no file other than the data file of
its own output and the index file of its own id.** -/
theorem put_run_frame (hy : Hyps P offered) (hoff : offered s.data1) {pc : PC Hsh} {o : Outcome Hsh}
    (hrun : OpRun P now proc (.put id s) fs pc used fs' o) (hL : LocalPut P offered now id s used fs pc)
    {p : Name Id Hsh} (h1 : p ≠ .data (putOut P s)) (h2 : p ≠ .index id) : fs'.content p = fs.content p := by
  induction hrun with
  | step hf hs _ ih =>
    have hpost := put_step_preserves hy hoff hL hs hf
    obtain ⟨he, _⟩ := tstep_eq hs
    rw [ih hpost, exec_frame (localPut_struct hL) he (put_touches hL) h1 h2]
  | done hf hs =>
    obtain ⟨he, _⟩ := tstep_eq hs
    exact exec_frame (localPut_struct hL) he (put_touches hL) h1 h2
  | crashBefore => rfl
  | crashAfter hs =>
    obtain ⟨he, _⟩ := tstep_eq hs
    rw [content_closeProc]
    exact exec_frame (localPut_struct hL) he (put_touches hL) h1 h2

end GIV.CachePut
