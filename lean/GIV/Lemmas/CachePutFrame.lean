/-
  GIV.Lemmas.CachePutFrame — a Put (failing or not) touches only its own two files: the data file of
  its output and the index file of its id (C12: "a failed Put never makes unrelated entries unreadable").
-/
import GIV.Lemmas.CachePutSeq

set_option linter.unusedSimpArgs false
set_option linter.unusedSectionVars false
set_option linter.unusedVariables false

namespace GIV.CachePut
open GIV

variable {Id Hsh : Type} [DecidableEq Id] [DecidableEq Hsh]
variable {P : Params Id Hsh} {offered : Bytes → Prop} {now : Int} {id : Id} {s : Src} {used used' : Bool}
  {fs fs' : FS Id Hsh} {proc n : Nat} {fault : Fault} {r : Res} {nx : Next Hsh}

/-- what the system call at a program point of `Put(id, s)` may touch. -/
theorem put_touches {pc : PC Hsh} (hL : LocalPut P offered now id s used fs pc) :
    Touches fs (.data (putOut P s)) (.index id) (sysOf P now n (.put id s) pc) := by
  cases pc <;> simp only [LocalPut] at hL <;> simp only [sysOf, Touches, Op.id] <;>
    first
      | trivial
      | exact Or.inl rfl
      | exact Or.inr rfl
      | exact Or.inl trivial
      | exact Or.inr trivial
      | exact hL.elim
      | skip
  case pWrite fd rest =>
    obtain ⟨_, _, o, nd, h1, h2, _⟩ := hL
    intro o' ho; rw [h1] at ho; cases ho; exact Or.inl h2
  case pCommit fd ck =>
    obtain ⟨_, _, _, _, o, nd, h1, h2, _⟩ := hL
    intro o' ho; rw [h1] at ho; cases ho; exact Or.inl h2
  case pTrunc0 fd =>
    obtain ⟨_, o, nd, h1, h2, _⟩ := hL
    intro o' ho; rw [h1] at ho; cases ho; exact Or.inl h2
  case iWrite fd =>
    obtain ⟨_, o, h1, _, h3⟩ := hL
    intro o' ho; rw [h1] at ho; cases ho; exact Or.inr h3
  case iTrunc fd =>
    obtain ⟨_, o, nd, h1, h2, _⟩ := hL
    intro o' ho; rw [h1] at ho; cases ho; exact Or.inr h2

theorem localPut_struct {pc : PC Hsh} (hL : LocalPut P offered now id s used fs pc) : Struct fs := by
  cases pc <;> simp only [LocalPut] at hL
  case pWrite => obtain ⟨_, _, o, nd, _, _, _, h4, _⟩ := hL; exact h4.1
  case pCommit => obtain ⟨_, _, _, _, o, nd, _, _, _, h4, _⟩ := hL; exact h4.1
  case pTrunc0 => obtain ⟨_, o, nd, _, _, _, h4, _⟩ := hL; exact h4.1
  case iClose fd err => cases err <;> simp at hL <;> first | exact hL.1 | exact hL.2.1
  case iRemove => exact hL.1.1
  all_goals first | exact hL.1 | exact hL.1.1 | exact hL.elim

theorem content_closeProc (p : Name Id Hsh) : (fs.closeProc proc).content p = fs.content p := rfl

/-- **A Put — whatever fault hits it, wherever it stops — changes no file other than the data file of
its own output and the index file of its own id.** -/
theorem put_run_frame (hy : Hyps P offered) (hoff : offered s.data1) {pc : PC Hsh} {o : Outcome Hsh}
    (hrun : OpRun P now proc (.put id s) fs pc used fs' o) (hL : LocalPut P offered now id s used fs pc)
    {p : Name Id Hsh} (h1 : p ≠ .data (putOut P s)) (h2 : p ≠ .index id) : fs'.content p = fs.content p := by
  induction hrun with
  | step hf hs _ ih =>
    have hpost := put_step_preserves hy hoff hL hs hf
    obtain ⟨he, _⟩ := tstep_eq hs
    rw [ih hpost, exec_frame (localPut_struct hL) he (put_touches hL) h1 h2]
  | done hf hs =>
    obtain ⟨he, _⟩ := tstep_eq hs
    exact exec_frame (localPut_struct hL) he (put_touches hL) h1 h2
  | crashBefore => rfl
  | crashAfter hs =>
    obtain ⟨he, _⟩ := tstep_eq hs
    rw [content_closeProc]
    exact exec_frame (localPut_struct hL) he (put_touches hL) h1 h2

end GIV.CachePut
