/-
  Segments of lists, diagonals (runs of equal lines), and the two expansion loops of `Diff`.
-/
import GIV.Model.Diff

namespace GIV.Diff
open GIV

set_option linter.unusedSectionVars false
variable {α : Type} [DecidableEq α]

/-- `l[a:b]` without the bounds check. -/
def seg (l : List α) (a b : Nat) : List α := (l.drop a).take (b - a)

theorem slice_eq_seg {l : List α} {a b : Nat} (h1 : a ≤ b) (h2 : b ≤ l.length) : slice l a b = some (seg l a b) := by
  simp [slice, seg, h1, h2]

theorem seg_self (l : List α) (a : Nat) : seg l a a = [] := by simp [seg]

theorem seg_length {l : List α} {a b : Nat} (h2 : b ≤ l.length) : (seg l a b).length = b - a := by
  simp [seg]; omega

theorem seg_append {l : List α} {a b c : Nat} (h1 : a ≤ b) (h2 : b ≤ c) : seg l a b ++ seg l b c = seg l a c := by
  unfold seg
  have : c - a = (b - a) + (c - b) := by omega
  rw [this, List.take_add, List.drop_drop]
  congr 3; omega

theorem take_append_seg {l : List α} {a b : Nat} (h1 : a ≤ b) : l.take a ++ seg l a b = l.take b := by
  unfold seg
  have : b = a + (b - a) := by omega
  conv => rhs; rw [this, List.take_add]

theorem take_append_drop' (l : List α) (a : Nat) : l.take a ++ l.drop a = l := List.take_append_drop a l

theorem seg_to_end {l : List α} {a b : Nat} (h : l.length ≤ b) : seg l a b = l.drop a := by
  unfold seg
  apply List.take_of_length_le
  simp; omega

theorem seg_zero (l : List α) (b : Nat) : seg l 0 b = l.take b := by simp [seg]

/-- `x` and `y` carry the same `t` lines from `p.1` resp. `p.2` on. -/
def Diag (x y : List α) (p : Nat × Nat) (t : Nat) : Prop :=
  ∀ s, s < t → ∃ a, x[p.1 + s]? = some a ∧ y[p.2 + s]? = some a

theorem Diag.zero (x y : List α) (p : Nat × Nat) : Diag x y p 0 := fun _ h => absurd h (Nat.not_lt_zero _)

theorem Diag.seg_eq {x y : List α} {p : Nat × Nat} {t : Nat} (d : Diag x y p t) {a b : Nat} (hb : b ≤ t) :
    seg x (p.1 + a) (p.1 + b) = seg y (p.2 + a) (p.2 + b) := by
  unfold seg
  apply List.ext_getElem?
  intro i
  simp only [List.getElem?_take, List.getElem?_drop]
  have e1 : p.1 + b - (p.1 + a) = b - a := by omega
  have e2 : p.2 + b - (p.2 + a) = b - a := by omega
  rw [e1, e2]
  split
  · rename_i hi
    obtain ⟨c, h1, h2⟩ := d (a + i) (by omega)
    rw [← Nat.add_assoc] at h1 h2
    rw [h1, h2]
  · rfl

theorem Diag.mono {x y : List α} {p : Nat × Nat} {t t' : Nat} (d : Diag x y p t) (h : t' ≤ t) : Diag x y p t' :=
  fun s hs => d s (by omega)

theorem Diag.shift {x y : List α} {p : Nat × Nat} {t : Nat} (d : Diag x y p t) (a : Nat) :
    Diag x y (p.1 + a, p.2 + a) (t - a) := by
  intro s hs
  obtain ⟨c, h1, h2⟩ := d (a + s) (by omega)
  exact ⟨c, by simpa [Nat.add_assoc] using h1, by simpa [Nat.add_assoc] using h2⟩

theorem Diag.append {x y : List α} {p : Nat × Nat} {t t' : Nat} (d : Diag x y p t)
    (d' : Diag x y (p.1 + t, p.2 + t) t') : Diag x y p (t + t') := by
  intro s hs
  by_cases h : s < t
  · exact d s h
  · obtain ⟨c, h1, h2⟩ := d' (s - t) (by omega)
    refine ⟨c, ?_, ?_⟩
    · rw [← h1]; congr 1; simp; omega
    · rw [← h2]; congr 1; simp; omega

theorem Diag.bound {x y : List α} {p : Nat × Nat} {t : Nat} (d : Diag x y p t) (hx : p.1 ≤ x.length) (hy : p.2 ≤ y.length) :
    p.1 + t ≤ x.length ∧ p.2 + t ≤ y.length := by
  cases t with
  | zero => exact ⟨hx, hy⟩
  | succ t =>
    obtain ⟨c, h1, h2⟩ := d t (by omega)
    have := (List.getElem?_eq_some_iff.mp h1).1
    have := (List.getElem?_eq_some_iff.mp h2).1
    omega

/-! ### forward expansion -/

theorem lcp_diag (l1 l2 : List α) : ∀ s, s < lcp l1 l2 → ∃ a, l1[s]? = some a ∧ l2[s]? = some a := by
  induction l1 generalizing l2 with
  | nil => intro s h; simp [lcp] at h
  | cons a l1 ih =>
    cases l2 with
    | nil => intro s h; simp [lcp] at h
    | cons b l2 =>
      intro s h
      unfold lcp at h
      split at h
      · rename_i hab
        subst hab
        cases s with
        | zero => exact ⟨a, by simp⟩
        | succ s => simpa using ih l2 s (by omega)
      · omega

theorem expandEnd_spec (x y : List α) (m : Nat × Nat) :
    ∃ e, expandEnd x y m = (m.1 + e, m.2 + e) ∧ Diag x y m e :=
  ⟨lcp (x.drop m.1) (y.drop m.2), rfl, fun s hs => by simpa using lcp_diag _ _ s hs⟩

/-! ### backward expansion -/

theorem expandStart_spec (x y : List α) (dx dy : Nat) : ∀ (sx sy : Nat), sx ≤ x.length → sy ≤ y.length →
    dx ≤ sx → dy ≤ sy →
    ∃ t, expandStart x y dx dy sx sy = some (sx - t, sy - t) ∧ t ≤ sx - dx ∧ t ≤ sy - dy ∧ Diag x y (sx - t, sy - t) t := by
  intro sx
  induction sx with
  | zero =>
    intro sy _ _ _ _
    refine ⟨0, ?_, by omega, by omega, Diag.zero _ _ _⟩
    unfold expandStart
    simp
  | succ sx ih =>
    intro sy hx hy hdx hdy
    cases sy with
    | zero =>
      refine ⟨0, ?_, by omega, by omega, Diag.zero _ _ _⟩
      unfold expandStart
      simp
    | succ sy =>
      unfold expandStart
      split
      · rename_i hgt
        have hxs : sx < x.length := by omega
        have hys : sy < y.length := by omega
        rw [List.getElem?_eq_getElem hxs, List.getElem?_eq_getElem hys]
        simp only
        split
        · rename_i heq
          obtain ⟨t, h1, h2, h3, h4⟩ := ih sy (by omega) (by omega) (by omega) (by omega)
          refine ⟨t + 1, ?_, by omega, by omega, ?_⟩
          · rw [h1]; congr 2 <;> omega
          · have e1 : sx + 1 - (t + 1) = sx - t := by omega
            have e2 : sy + 1 - (t + 1) = sy - t := by omega
            rw [e1, e2]
            apply h4.append
            intro s hs
            have hs0 : s = 0 := by omega
            subst hs0
            refine ⟨x[sx], ?_, ?_⟩
            · simp only [Nat.add_zero]
              rw [show sx - t + t = sx by omega]
              exact List.getElem?_eq_getElem hxs
            · simp only [Nat.add_zero]
              rw [show sy - t + t = sy by omega, heq]
              exact List.getElem?_eq_getElem hys
        · exact ⟨0, rfl, by omega, by omega, Diag.zero _ _ _⟩
      · exact ⟨0, rfl, by omega, by omega, Diag.zero _ _ _⟩

end GIV.Diff
