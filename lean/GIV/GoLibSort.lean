/-
  GIV.GoLibSort — run-time library of the Go→Lean translator, part "sort": the trusted meaning of
  `sort.Search(n, f)`.  It follows the loop of GOROOT/src/sort/search.go literally,

      i, j := 0, n
      for i < j {
          h := int(uint(i+j) >> 1) // avoid overflow when computing h
          // i ≤ h < j
          if !f(h) { i = h + 1 } else { j = h }
      }
      return i

  so that it is right also for a predicate that is NOT monotone (then the result is whatever the
  binary search happens to find, as in Go).  The predicate is a translated closure, which may panic
  (`T[k]` out of range): `f : Int → Option Bool`, and a panic of `f` is a panic of the search.
  `0 ≤ i ≤ h < j ≤ n` throughout, so `(i + j) / 2` (Int division, rounding down on non-negative
  numbers) is `int(uint(i+j) >> 1)`; Go `int` is unbounded `Int` here, as everywhere in GoLib.
  `j - i` strictly decreases, so the budget `n` is never exhausted (`sortSearchLoop_fuel`).
  Core Lean only.
-/
import GIV.GoLib

namespace GIV.GoLib

/-- the loop of `sort.Search`; the first argument bounds the number of iterations. -/
def sortSearchLoop (f : Int → Option Bool) : Nat → Int → Int → Option Int
  | 0, i, j => if i < j then none else some i
  | fuel + 1, i, j =>
    if i < j then do
      let h : Int := (i + j) / 2
      let b ← f h
      if !b then sortSearchLoop f fuel (h + 1) j else sortSearchLoop f fuel i h
    else some i

/-- `sort.Search(n, f)`: for `n ≤ 0` the loop does not run and the result is 0. -/
def sortSearch (n : Int) (f : Int → Option Bool) : Option Int := sortSearchLoop f n.toNat 0 n

/-- the budget suffices: with `j - i ≤ fuel` and a predicate that does not panic on `[i, j)` the loop
returns a position in `[i, j]` (for `0 ≤ i`). -/
theorem sortSearchLoop_fuel (f : Int → Option Bool) :
    ∀ (fuel : Nat) (i j : Int), 0 ≤ i → j - i ≤ fuel → (∀ h, i ≤ h → h < j → (f h).isSome) →
      ∃ r, sortSearchLoop f fuel i j = some r ∧ i ≤ r ∧ (r ≤ j ∨ j < i) := by
  intro fuel
  induction fuel with
  | zero =>
    intro i j hi hf _
    have : ¬ i < j := by omega
    exact ⟨i, by simp [sortSearchLoop, this], by omega, by omega⟩
  | succ fuel ih =>
    intro i j hi hf hp
    by_cases hij : i < j
    · have hh1 : i ≤ (i + j) / 2 := by omega
      have hh2 : (i + j) / 2 < j := by omega
      have := hp ((i + j) / 2) hh1 hh2
      cases hb : f ((i + j) / 2) with
      | none => simp [hb] at this
      | some b =>
        cases b with
        | false =>
          obtain ⟨r, hr, h1, h2⟩ := ih ((i + j) / 2 + 1) j (by omega) (by omega)
            (fun h a b => hp h (by omega) b)
          exact ⟨r, by simp [sortSearchLoop, hij, hb, hr], by omega, by omega⟩
        | true =>
          obtain ⟨r, hr, h1, h2⟩ := ih i ((i + j) / 2) hi (by omega)
            (fun h a b => hp h a (by omega))
          exact ⟨r, by simp [sortSearchLoop, hij, hb, hr], by omega, by omega⟩
    · exact ⟨i, by simp [sortSearchLoop, hij], by omega, by omega⟩

example : sortSearch 5 (fun k => some (decide (k * k ≥ 10))) = some 4 := by decide
example : sortSearch 0 (fun _ => none) = some 0 := by decide
example : sortSearch (-3) (fun _ => none) = some 0 := by decide
example : sortSearch 3 (fun k => if k = 1 then none else some false) = none := by decide

end GIV.GoLib
