import GIV.Basic
import GIV.Model.Txtar
