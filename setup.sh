#!/bin/sh
# Builds the whole framework offline from files on disk: Lean library (models, lemmas,
# property theorems), native model drivers, Go harness + factgen.
set -e
cd "$(dirname "$0")"
export GOFLAGS=-mod=mod GOPROXY=off GOSUMDB=off GOTOOLCHAIN=local CGO_ENABLED=0
mkdir -p evidence replays tmp harness/bin
cp /repo/go.sum harness/go.sum 2>/dev/null || true
(cd harness && go build -o bin/ ./cmd/factgen ./cmd/corr)
./harness/bin/factgen -repo /repo -out lean/GIV/Gen >/dev/null
(cd lean && lake build)
echo setup done
