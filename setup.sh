#!/bin/sh
# Builds the whole framework offline from files on disk: Go harness binaries (one per model
# group, linked against /repo), regenerated facts, Lean library (models, lemmas, property
# theorems) and the native model drivers.  Individual Lean targets that fail are reported but
# do not abort setup: every ./check run rebuilds what it needs and reports a failure itself.
cd "$(dirname "$0")"
export GOFLAGS=-mod=mod GOPROXY=off GOSUMDB=off GOTOOLCHAIN=local CGO_ENABLED=0
mkdir -p evidence replays tmp harness/bin
cp ${VERIF_REPO:-/repo}/go.sum harness/go.sum 2>/dev/null || true
(cd harness && go build -o bin/ ./cmd/...) || echo "setup: some harness binaries failed to build"
for g in harness/cmd/*/; do g=$(basename "$g"); [ -x harness/bin/$g ] && ./harness/bin/$g factgen -repo ${VERIF_REPO:-/repo} -out lean/GIV/Gen >/dev/null; done
targets=$(python3 - <<'PY'
import json
p = json.load(open("props.json"))
t = []
for k, c in sorted(p.items()):
    if c.get("driver") and c["driver"] not in t: t.append(c["driver"])
    m = c.get("props_module", "GIV.Props." + k)
    if m not in t: t.append(m)
print(" ".join(t))
PY
)
cd lean
for t in $targets; do lake build $t >/dev/null 2>&1 || echo "setup: lake build $t failed"; done
echo setup done
