module verif/harness

go 1.23

require (
	github.com/rogpeppe/go-internal v0.0.0
	golang.org/x/mod v0.21.0
	golang.org/x/tools v0.26.0
)

replace github.com/rogpeppe/go-internal => /repo
