// Instrumented-lockedfile driver (compiled by shimkit against a scratch copy of go-internal in
// which lockedfile and lockedfile/internal/filelock use vshim).  One scenario per stdin line:
//
//	run <dir> <clients: '|'-separated; each a ';'-separated list of ops> <seed|c:choices> [fault:<osIndex>:<kind>[:k]]
//
// ops: r (Read), w<hex> (Write), t<hex> (Transform: replace contents by hex), a<hex> (Transform: append hex),
// m (Mutex.Lock; unlock), each on the single file <dir>/f (mutex on <dir>/m).
// Output per scenario: `TRACE ev|ev|… END done|deadlock|aborted`.
package main

import (
	"bufio"
	"bytes"
	"encoding/hex"
	"fmt"
	"math/rand"
	"os"
	"path/filepath"
	"strconv"
	"strings"

	"github.com/rogpeppe/go-internal/lockedfile"
	"github.com/rogpeppe/go-internal/vshim"
)

func chooser(spec string) func(step int, enabled []int, s *vshim.Sched) int {
	if strings.HasPrefix(spec, "c:") {
		var choices []int
		for _, f := range strings.Split(spec[2:], ",") {
			if f != "" {
				v, _ := strconv.Atoi(f)
				choices = append(choices, v)
			}
		}
		i := 0
		return func(step int, enabled []int, s *vshim.Sched) int {
			if i < len(choices) {
				c := choices[i] % len(enabled)
				i++
				return c
			}
			return 0
		}
	}
	seed, _ := strconv.ParseInt(spec, 10, 64)
	r := rand.New(rand.NewSource(seed))
	return func(step int, enabled []int, s *vshim.Sched) int { return r.Intn(len(enabled)) }
}

func unhex(s string) []byte {
	if s == "-" || s == "" {
		return nil
	}
	b, _ := hex.DecodeString(s)
	return b
}

func hx(b []byte) string {
	if len(b) == 0 {
		return "-"
	}
	return hex.EncodeToString(b)
}

func errStr(err error) string {
	if err == nil {
		return "ok"
	}
	return "err"
}

func run(f []string) string {
	dir := f[1]
	os.MkdirAll(dir, 0o777)
	file := filepath.Join(dir, "f")
	vshim.PathName = func(p string) string { return strings.TrimPrefix(p, dir+"/") }
	s := vshim.NewSched()
	s.Choose = chooser(f[3])
	s.MaxSteps = 50000
	for _, x := range f[4:] {
		if strings.HasPrefix(x, "fault:") {
			p := strings.Split(x, ":")
			idx, _ := strconv.Atoi(p[1])
			kind := map[string]vshim.FaultKind{"fail": vshim.FFail, "short": vshim.FShort, "crashbefore": vshim.FCrashBefore, "crashafter": vshim.FCrashAfter}[p[2]]
			k := 0
			if len(p) > 3 {
				k, _ = strconv.Atoi(p[3])
			}
			s.FaultAt = func(i int, e *vshim.Event) vshim.Fault {
				if i == idx {
					return vshim.Fault{Kind: kind, K: k}
				}
				return vshim.Fault{}
			}
		}
	}
	for ci, c := range strings.Split(f[2], "|") {
		ops := strings.Split(c, ";")
		s.SpawnProc(ci, func() {
			for _, op := range ops {
				if op == "" {
					continue
				}
				switch op[0] {
				case 'r':
					vshim.Note("call", "read")
					b, err := lockedfile.Read(file)
					vshim.Note("ret", "read", errStr(err), hx(b))
				case 'w':
					vshim.Note("call", "write", op[1:])
					err := lockedfile.Write(file, bytes.NewReader(unhex(op[1:])), 0o666)
					vshim.Note("ret", "write", errStr(err))
				case 't', 'a':
					vshim.Note("call", "transform", op)
					var seen []byte
					err := lockedfile.Transform(file, func(old []byte) ([]byte, error) {
						seen = append([]byte{}, old...)
						if op[0] == 'a' {
							return append(append([]byte{}, old...), unhex(op[1:])...), nil
						}
						return unhex(op[1:]), nil
					})
					vshim.Note("ret", "transform", errStr(err), hx(seen))
				case 'm':
					vshim.Note("call", "mutex")
					mu := lockedfile.MutexAt(filepath.Join(dir, "m"))
					unlock, err := mu.Lock()
					vshim.Note("locked", "mutex", errStr(err))
					if err == nil {
						vshim.Step("critical")
						unlock()
					}
					vshim.Note("ret", "mutex")
				}
			}
		})
	}
	s.Run()
	var ev []string
	for _, e := range s.Trace {
		ev = append(ev, e.String())
	}
	end := "done"
	if s.Deadlock {
		end = "deadlock"
	} else if s.Aborted {
		end = "aborted"
	}
	final, _ := os.ReadFile(file)
	return "TRACE " + strings.Join(ev, "|") + " END " + end + " FINAL " + hx(final)
}

func main() {
	in := bufio.NewScanner(os.Stdin)
	in.Buffer(make([]byte, 1<<20), 1<<26)
	out := bufio.NewWriter(os.Stdout)
	defer out.Flush()
	for in.Scan() {
		f := strings.Fields(in.Text())
		if len(f) >= 4 && f[0] == "run" {
			fmt.Fprintln(out, run(f))
		} else {
			fmt.Fprintln(out, "bad-scenario")
		}
		out.Flush()
	}
}
