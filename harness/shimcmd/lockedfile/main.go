// Instrumented-lockedfile driver (compiled by shimkit against a scratch copy of go-internal in
// which lockedfile and lockedfile/internal/filelock use vshim).  One request per stdin line:
//
//	run <dir> <clients> <sched> [init:<hex>] [fault:<osIndex>:<fail|short|eintr|crashbefore|crashafter>[:k]]...
//	dfs <dir> <clients> <preemption bound> <max schedules> [init:<hex>] [fault:...]
//
// <clients>: '|'-separated clients (each a simulated process with one task), each a ';'-separated
// list of operations on the files <dir>/f (lower case) or <dir>/g (upper case):
//
//	r | R                 lockedfile.Read
//	w<hex> | W<hex>       lockedfile.Write
//	t<hex> | T<hex>       lockedfile.Transform replacing the contents by <hex>
//	a<hex> | A<hex>       lockedfile.Transform appending <hex>
//	x | X                 lockedfile.Transform whose function returns an error
//	m<k>                  the shared lockedfile.Mutex number k (all on <dir>/m): Lock, critical section, unlock
//	o<flag>:<acts> | O…   lockedfile.OpenFile with the numeric flag, user I/O, Close
//	c:<acts> e:<acts> n:<acts> | C E N   lockedfile.Create / Edit / Open, user I/O, Close
//	   acts (','-separated): r<n> read n bytes, w<hex> write, p<hex>@<off> WriteAt, z<n> Truncate(n), s Stat
//
// <sched>: a seed (uniform choice among the enabled tasks), `s:<seed>:<pct>` (keep running the
// current task with probability pct%), or `c:<k>,<k>,…` (choice list: one entry per scheduling
// point with more than one enabled task; beyond the list: keep running the current task).
//
// Output per execution:  TRACE ev|ev|… END done|deadlock|aborted FINAL <hex of f> SCHED c:<choices>
// (`dfs` prints one line per explored schedule, then `DFSEND <count> <exhausted|truncated>`).
// Events are vshim events; the driver adds `call …` / `ret …` / `critical` events around the
// public operations, and maps OS error strings to short names.
package main

import (
	"bufio"
	"bytes"
	"encoding/hex"
	"errors"
	"fmt"
	"math/rand"
	"os"
	"path/filepath"
	"strconv"
	"strings"
	"syscall"

	"github.com/rogpeppe/go-internal/lockedfile"
	"github.com/rogpeppe/go-internal/vshim"
)

// ---- choices

type choicePoint struct {
	n, chosen, def int
	costly         bool
	preBefore      int
}

type chooser struct {
	prefix  []int
	rnd     *rand.Rand
	sticky  int
	cps     []choicePoint
	preempt int
	last    int
}

func (c *chooser) onSched(s *vshim.Sched, alive, enabled []int) {
	if len(enabled) == 1 {
		c.last = enabled[0]
	}
}

func (c *chooser) choose(step int, enabled []int, s *vshim.Sched) int {
	n := len(enabled)
	def, costly := 0, false
	for i, id := range enabled {
		if id == c.last {
			def, costly = i, true
		}
	}
	k := def
	switch {
	case len(c.cps) < len(c.prefix):
		k = c.prefix[len(c.cps)] % n
	case c.rnd != nil:
		if !(costly && c.rnd.Intn(100) < c.sticky) {
			k = c.rnd.Intn(n)
		}
	}
	c.cps = append(c.cps, choicePoint{n, k, def, costly, c.preempt})
	if costly && k != def {
		c.preempt++
	}
	c.last = enabled[k]
	return k
}

func (c *chooser) taken() string {
	parts := make([]string, len(c.cps))
	for i, cp := range c.cps {
		parts[i] = strconv.Itoa(cp.chosen)
	}
	return "c:" + strings.Join(parts, ",")
}

func parseSched(spec string) *chooser {
	c := &chooser{last: -1}
	switch {
	case strings.HasPrefix(spec, "c:"):
		for _, f := range strings.Split(spec[2:], ",") {
			if f != "" {
				v, _ := strconv.Atoi(f)
				c.prefix = append(c.prefix, v)
			}
		}
	case strings.HasPrefix(spec, "s:"):
		p := strings.Split(spec, ":")
		seed, _ := strconv.ParseInt(p[1], 10, 64)
		c.rnd = rand.New(rand.NewSource(seed))
		if len(p) > 2 {
			c.sticky, _ = strconv.Atoi(p[2])
		}
	default:
		seed, _ := strconv.ParseInt(spec, 10, 64)
		c.rnd = rand.New(rand.NewSource(seed))
	}
	return c
}

// ---- helpers

func unhex(s string) []byte {
	if s == "-" || s == "" {
		return nil
	}
	b, _ := hex.DecodeString(s)
	return b
}

func hx(b []byte) string {
	if len(b) == 0 {
		return "-"
	}
	return hex.EncodeToString(b)
}

func errStr(err error) string {
	if err == nil {
		return "ok"
	}
	return "err"
}

// canon maps OS error strings (which contain temp paths) to short stable names.
func canon(op, res string) string {
	if strings.HasPrefix(res, "short:") && op != "write" && op != "pwrite" {
		// a "short write" fault that hit another kind of call: the call ran normally
		res = res[6:]
	}
	if res == "kernel-disagrees:bad file descriptor" {
		// flock(2) refuses descriptors opened with access mode 3 (neither readable nor writable)
		return "ebadf"
	}
	if !strings.HasPrefix(res, "err:") {
		return res
	}
	switch {
	case strings.Contains(res, "bad file descriptor"):
		return "ebadf"
	case strings.Contains(res, "invalid argument"):
		return "einval"
	case strings.Contains(res, "interrupted system call"):
		return "eintr"
	case strings.Contains(res, "O_APPEND"):
		return "eappend"
	case strings.Contains(res, "file already closed"):
		return "eclosed"
	}
	return strings.ReplaceAll(strings.ReplaceAll(res, " ", "_"), "|", "/")
}

type faultSpec struct {
	idx  int
	kind vshim.FaultKind
	k    int
}

type scenario struct {
	dir     string
	clients string
	init    *[]byte
	faults  []faultSpec
}

func parseOpts(sc *scenario, opts []string) {
	for _, x := range opts {
		switch {
		case strings.HasPrefix(x, "init:"):
			b := unhex(x[5:])
			if b == nil {
				b = []byte{}
			}
			sc.init = &b
		case strings.HasPrefix(x, "fault:"):
			p := strings.Split(x, ":")
			idx, _ := strconv.Atoi(p[1])
			kind := map[string]vshim.FaultKind{"fail": vshim.FFail, "short": vshim.FShort, "eintr": vshim.FErrno,
				"crashbefore": vshim.FCrashBefore, "crashafter": vshim.FCrashAfter}[p[2]]
			k := 0
			if len(p) > 3 {
				k, _ = strconv.Atoi(p[3])
			}
			sc.faults = append(sc.faults, faultSpec{idx, kind, k})
		}
	}
}

func userActs(f *lockedfile.File, acts string) {
	for _, a := range strings.Split(acts, ",") {
		if a == "" {
			continue
		}
		vshim.Note("call", "user", a)
		switch a[0] {
		case 'r':
			n, _ := strconv.Atoi(a[1:])
			f.Read(make([]byte, n))
		case 'w':
			f.Write(unhex(a[1:]))
		case 'p':
			at := strings.Index(a, "@")
			off, _ := strconv.ParseInt(a[at+1:], 10, 64)
			f.WriteAt(unhex(a[1:at]), off)
		case 'z':
			n, _ := strconv.ParseInt(a[1:], 10, 64)
			f.Truncate(n)
		case 's':
			f.Stat()
		}
		vshim.Note("ret", "user")
	}
}

func lower(c byte) byte {
	if c >= 'A' && c <= 'Z' {
		return c + 32
	}
	return c
}

func execute(sc *scenario, ch *chooser) string {
	dir := sc.dir
	os.RemoveAll(dir)
	os.MkdirAll(dir, 0o777)
	if sc.init != nil {
		os.WriteFile(filepath.Join(dir, "f"), *sc.init, 0o666)
	}
	vshim.PathName = func(p string) string { return strings.TrimPrefix(p, dir+"/") }
	s := vshim.NewSched()
	s.Choose = ch.choose
	s.OnSched = ch.onSched
	s.MaxSteps = 50000
	if len(sc.faults) > 0 {
		s.FaultAt = func(i int, e *vshim.Event) vshim.Fault {
			for _, f := range sc.faults {
				if f.idx == i {
					return vshim.Fault{Kind: f.kind, K: f.k, Err: syscall.EINTR}
				}
			}
			return vshim.Fault{}
		}
	}
	mutexes := map[string]*lockedfile.Mutex{}
	mutexOf := func(k string) *lockedfile.Mutex {
		if mutexes[k] == nil {
			mutexes[k] = lockedfile.MutexAt(filepath.Join(dir, "m"))
		}
		return mutexes[k]
	}
	for ci, c := range strings.Split(sc.clients, "|") {
		ops := strings.Split(c, ";")
		s.SpawnProc(ci, func() {
			for _, op := range ops {
				if op == "" {
					continue
				}
				name := "f"
				if op[0] >= 'A' && op[0] <= 'Z' {
					name = "g"
				}
				file := filepath.Join(dir, name)
				arg := op[1:]
				switch lower(op[0]) {
				case 'r':
					vshim.Note("call", "read", name)
					b, err := lockedfile.Read(file)
					vshim.Note("ret", "read", errStr(err), hx(b))
				case 'w':
					vshim.Note("call", "write", name, hx(unhex(arg)))
					err := lockedfile.Write(file, bytes.NewReader(unhex(arg)), 0o666)
					vshim.Note("ret", "write", errStr(err))
				case 't', 'a', 'x':
					kind := string(lower(op[0]))
					vshim.Note("call", "transform", name, kind+hx(unhex(arg)))
					var seen []byte
					err := lockedfile.Transform(file, func(old []byte) ([]byte, error) {
						seen = append([]byte{}, old...)
						switch kind {
						case "a":
							return append(append([]byte{}, old...), unhex(arg)...), nil
						case "x":
							return nil, errors.New("transform function failed")
						}
						return unhex(arg), nil
					})
					vshim.Note("ret", "transform", errStr(err), hx(seen))
				case 'm':
					vshim.Note("call", "mlock", arg)
					unlock, err := mutexOf(arg).Lock()
					vshim.Note("ret", "mlock", errStr(err))
					if err == nil {
						vshim.Step("critical")
						vshim.Note("call", "munlock")
						unlock()
						vshim.Note("ret", "munlock")
					}
				case 'o', 'c', 'e', 'n':
					var f *lockedfile.File
					var err error
					acts := ""
					if i := strings.Index(arg, ":"); i >= 0 {
						acts = arg[i+1:]
						arg = arg[:i]
					}
					switch lower(op[0]) {
					case 'o':
						flag, _ := strconv.Atoi(arg)
						vshim.Note("call", "openfile", name, strconv.Itoa(flag))
						f, err = lockedfile.OpenFile(file, flag, 0o666)
					case 'c':
						vshim.Note("call", "create", name)
						f, err = lockedfile.Create(file)
					case 'e':
						vshim.Note("call", "edit", name)
						f, err = lockedfile.Edit(file)
					case 'n':
						vshim.Note("call", "open", name)
						f, err = lockedfile.Open(file)
					}
					vshim.Note("ret", "openfile", errStr(err))
					if err == nil {
						userActs(f, acts)
						vshim.Note("call", "close")
						err = f.Close()
						vshim.Note("ret", "close", errStr(err))
					}
				}
			}
		})
	}
	s.Run()
	ev := make([]string, 0, len(s.Trace))
	for _, e := range s.Trace {
		if e.Op == "start" || e.Op == "exit" {
			continue
		}
		e.Res = canon(e.Op, e.Res)
		ev = append(ev, e.String())
	}
	end := "done"
	if s.Deadlock {
		end = "deadlock"
	} else if s.Aborted {
		end = "aborted"
	}
	final := "none"
	if b, err := os.ReadFile(filepath.Join(dir, "f")); err == nil {
		final = hx(b)
	}
	return "TRACE " + strings.Join(ev, "|") + " END " + end + " FINAL " + final + " SCHED " + ch.taken()
}

// dfs explores the schedules of a scenario depth first with a preemption bound.
func dfs(sc *scenario, bound, max int, out *bufio.Writer) {
	var prefix []int
	count := 0
	for {
		ch := &chooser{prefix: prefix, last: -1}
		fmt.Fprintln(out, execute(sc, ch))
		count++
		if count >= max {
			fmt.Fprintf(out, "DFSEND %d truncated\n", count)
			return
		}
		next := []int(nil)
		for i := len(ch.cps) - 1; i >= 0 && next == nil; i-- {
			cp := ch.cps[i]
			// order of alternatives: def first, then the others ascending
			ord := []int{cp.def}
			for j := 0; j < cp.n; j++ {
				if j != cp.def {
					ord = append(ord, j)
				}
			}
			pos := 0
			for j, v := range ord {
				if v == cp.chosen {
					pos = j
				}
			}
			if pos+1 < cp.n {
				alt := ord[pos+1]
				cost := cp.preBefore
				if cp.costly && alt != cp.def {
					cost++
				}
				if cost <= bound {
					for _, q := range ch.cps[:i] {
						next = append(next, q.chosen)
					}
					next = append(next, alt)
				}
			}
		}
		if next == nil {
			fmt.Fprintf(out, "DFSEND %d exhausted\n", count)
			return
		}
		prefix = next
	}
}

func main() {
	in := bufio.NewScanner(os.Stdin)
	in.Buffer(make([]byte, 1<<20), 1<<26)
	out := bufio.NewWriter(os.Stdout)
	defer out.Flush()
	for in.Scan() {
		f := strings.Fields(in.Text())
		switch {
		case len(f) >= 4 && f[0] == "run":
			sc := &scenario{dir: f[1], clients: f[2]}
			parseOpts(sc, f[4:])
			fmt.Fprintln(out, execute(sc, parseSched(f[3])))
		case len(f) >= 5 && f[0] == "dfs":
			sc := &scenario{dir: f[1], clients: f[2]}
			bound, _ := strconv.Atoi(f[3])
			max, _ := strconv.Atoi(f[4])
			parseOpts(sc, f[5:])
			dfs(sc, bound, max, out)
		default:
			fmt.Fprintln(out, "bad-scenario")
		}
		out.Flush()
	}
}
