// Instrumented-par driver (compiled by shimkit against a scratch copy of go-internal in which
// par/work.go uses vshim).  Reads one request per line on stdin, runs it under the controlled
// scheduler, prints the trace(s).
//
//	work <n> <initial items, comma separated | -> <graph: item>child,child;item>... | -> <sched>
//	cache <goroutines: each a ';'-separated list of ops d<key> / n<key> / g<key>, goroutines separated by '|'> <sched>
//
// Work items are decimal numbers; `a..b` in an item list stands for a, a+1, …, b and a graph part
// `a..b>c,d` gives every item of the range the children c, d.  The item written 999 is the Go value
// nil (`w.Add(nil)`; nil is a valid map key, hence a valid item); every other item is the string of
// its number.  Cache op `d<key>` is Do(key, f) with an f that returns "<key>#<number of the
// invocation>", `n<key>` is Do(key, f) with an f that returns the untyped nil, `g<key>` is Get(key).
//
//	dfs <preemption bound> <max schedules> work <n> <init> <graph>
//	dfs <preemption bound> <max schedules> cache <goroutines>
//
// <sched> is a seed (uniform random choice among the enabled tasks and for rand.Intn),
// `s:<seed>:<pct>` (keep running the current task with probability pct%), or `c:<k>,<k>,…`
// (recorded choice list: one entry per scheduling point with more than one enabled task and one
// per rand.Intn call, in order; the default beyond the list is "keep running the current task").
//
// Output per execution: one line
//
//	TRACE <event>|<event>|... END <done|deadlock|aborted> CH c:<choices taken>
//
// where the events are vshim events (`p0 t1 lock m0`, …) interleaved with `p0 t0 B <ids>` pseudo
// events: at that scheduling point exactly the listed live tasks were not enabled (only emitted
// while at most 16 tasks are alive).
// `dfs` prints one such line per explored schedule and then `DFSEND <count> <exhausted|truncated>`.
package main

import (
	"bufio"
	"fmt"
	"math/rand"
	"os"
	"strconv"
	"strings"

	"github.com/rogpeppe/go-internal/par"
	"github.com/rogpeppe/go-internal/vshim"
)

// blocked sets are reported at scheduling points with at most this many live tasks
const maxBlockedReport = 16

// ---- choice sources

type choicePoint struct {
	n, chosen, def int
	costly         bool // choosing something else than def is a preemption
	preBefore      int  // preemptions before this point
}

// chooser resolves scheduling and rand.Intn choices for one execution and records them.
type chooser struct {
	prefix  []int
	rnd     *rand.Rand
	sticky  int // percent
	cps     []choicePoint
	preempt int
}

func (c *chooser) choose(n, def int, costly bool) int {
	k := def
	switch {
	case len(c.cps) < len(c.prefix):
		k = c.prefix[len(c.cps)] % n
	case c.rnd != nil:
		if !(costly && c.rnd.Intn(100) < c.sticky) {
			k = c.rnd.Intn(n)
		}
	}
	c.cps = append(c.cps, choicePoint{n, k, def, costly, c.preempt})
	if costly && k != def {
		c.preempt++
	}
	return k
}

func (c *chooser) install(s *vshim.Sched) {
	s.Choose = func(step int, enabled []int, _ *vshim.Sched) int {
		def, costly := 0, false
		if step > 0 {
			cur := vshim.CurTask()
			for i, id := range enabled {
				if id == cur {
					def, costly = i, true
				}
			}
		}
		return c.choose(len(enabled), def, costly)
	}
	s.OnSched = func(s *vshim.Sched, alive, enabled []int) {
		if len(alive) > maxBlockedReport {
			return // large scenarios: traces without blocked-set pseudo events
		}
		en := map[int]bool{}
		for _, id := range enabled {
			en[id] = true
		}
		var blocked []string
		for _, id := range alive {
			if !en[id] {
				blocked = append(blocked, strconv.Itoa(id))
			}
		}
		arg := "-"
		if len(blocked) > 0 {
			arg = strings.Join(blocked, ".")
		}
		s.Trace = append(s.Trace, vshim.Event{Op: "B", Args: []string{arg}})
	}
	vshim.RandChoose = func(n int) int { return c.choose(n, 0, false) }
}

func (c *chooser) taken() string {
	parts := make([]string, len(c.cps))
	for i, cp := range c.cps {
		parts[i] = strconv.Itoa(cp.chosen)
	}
	return "c:" + strings.Join(parts, ",")
}

func parseSched(spec string) *chooser {
	c := &chooser{}
	switch {
	case strings.HasPrefix(spec, "c:"):
		for _, f := range strings.Split(spec[2:], ",") {
			if f == "" {
				continue
			}
			v, _ := strconv.Atoi(f)
			c.prefix = append(c.prefix, v)
		}
	case strings.HasPrefix(spec, "s:"):
		f := strings.Split(spec[2:], ":")
		seed, _ := strconv.ParseInt(f[0], 10, 64)
		c.rnd = rand.New(rand.NewSource(seed))
		if len(f) > 1 {
			c.sticky, _ = strconv.Atoi(f[1])
		}
	default:
		seed, _ := strconv.ParseInt(spec, 10, 64)
		c.rnd = rand.New(rand.NewSource(seed))
	}
	return c
}

// next computes the prefix of the next schedule in depth-first order (nil when exhausted).
func next(cps []choicePoint, bound int) []int {
	for i := len(cps) - 1; i >= 0; i-- {
		cp := cps[i]
		if cp.costly && cp.preBefore+1 > bound {
			continue
		}
		// candidates in order: def, then 0..n-1 without def
		order := []int{cp.def}
		for k := 0; k < cp.n; k++ {
			if k != cp.def {
				order = append(order, k)
			}
		}
		pos := 0
		for j, k := range order {
			if k == cp.chosen {
				pos = j
			}
		}
		if pos+1 < len(order) {
			prefix := make([]int, 0, i+1)
			for _, q := range cps[:i] {
				prefix = append(prefix, q.chosen)
			}
			return append(prefix, order[pos+1])
		}
	}
	return nil
}

func finish(s *vshim.Sched, c *chooser) string {
	var ev []string
	for _, e := range s.Trace {
		ev = append(ev, e.String())
	}
	end := "done"
	if s.Deadlock {
		end = "deadlock"
	} else if s.Aborted {
		end = "aborted"
	}
	return "TRACE " + strings.Join(ev, "|") + " END " + end + " CH " + c.taken()
}

// ---- scenarios

// the item that stands for the Go value nil
const nilItem = "999"

func toItem(name string) any {
	if name == nilItem {
		return nil
	}
	return name
}

func itemName(item any) string {
	if item == nil {
		return nilItem
	}
	if s, ok := item.(string); ok {
		return s
	}
	return fmt.Sprintf("?%v", item)
}

// expandItems turns "3,7..9" into [3 7 8 9].
func expandItems(list string) []string {
	var out []string
	if list == "-" || list == "" {
		return nil
	}
	for _, el := range strings.Split(list, ",") {
		if ab := strings.SplitN(el, "..", 2); len(ab) == 2 {
			a, err1 := strconv.Atoi(ab[0])
			b, err2 := strconv.Atoi(ab[1])
			if err1 == nil && err2 == nil {
				for x := a; x <= b; x++ {
					out = append(out, strconv.Itoa(x))
				}
				continue
			}
		}
		out = append(out, el)
	}
	return out
}

func runWork(f []string, c *chooser) string {
	n, _ := strconv.Atoi(f[1])
	children := map[string][]string{}
	if len(f) > 3 && f[3] != "-" {
		for _, part := range strings.Split(f[3], ";") {
			kv := strings.SplitN(part, ">", 2)
			if len(kv) == 2 && kv[1] != "" {
				cs := expandItems(kv[1])
				for _, x := range expandItems(kv[0]) {
					children[x] = cs
				}
			}
		}
	}
	init := expandItems(f[2])
	s := vshim.NewSched()
	c.install(s)
	s.MaxSteps = 20000 + 40*n + 12*len(init)
	s.SpawnProc(0, func() {
		var w par.Work
		// add-call / add-return bracket every call of Add (notes: no scheduling point)
		add := func(name string) {
			vshim.Note("add-call", name)
			w.Add(toItem(name))
			vshim.Note("add-return", name)
		}
		for _, it := range init {
			add(it)
		}
		vshim.Note("do-call", fmt.Sprint(n))
		w.Do(n, func(item any) {
			name := itemName(item)
			vshim.Step("f-enter", name)
			for _, c := range children[name] {
				add(c)
			}
			vshim.Step("f-exit", name)
		})
		vshim.Note("do-return")
	})
	s.Run()
	return finish(s, c)
}

func runCache(f []string, c *chooser) string {
	s := vshim.NewSched()
	c.install(s)
	s.MaxSteps = 20000
	var ch par.Cache
	calls := map[string]int{}
	for gi, g := range strings.Split(f[1], "|") {
		ops := strings.Split(g, ";")
		s.SpawnProc(gi, func() {
			for _, op := range ops {
				if op == "" || op == "-" {
					continue
				}
				key := op[1:]
				switch op[0] {
				case 'd', 'n':
					returnsNil := op[0] == 'n'
					vshim.Note("do-call", key)
					v := ch.Do(key, func() any {
						vshim.Step("f-enter", key)
						calls[key]++
						if returnsNil {
							vshim.Step("f-exit", key, "<nil>")
							return nil
						}
						v := fmt.Sprintf("%s#%d", key, calls[key])
						vshim.Step("f-exit", key, v)
						return v
					})
					vshim.Note("do-return", key, fmt.Sprint(v))
				case 'g':
					vshim.Note("get-call", key)
					v := ch.Get(key)
					vshim.Note("get-return", key, fmt.Sprint(v))
				}
			}
		})
	}
	s.Run()
	return finish(s, c)
}

func runScenario(f []string, c *chooser) string {
	switch {
	case f[0] == "work" && len(f) >= 4:
		return runWork(f, c)
	case f[0] == "cache" && len(f) >= 2:
		return runCache(f, c)
	}
	return "bad-scenario"
}

func main() {
	in := bufio.NewScanner(os.Stdin)
	in.Buffer(make([]byte, 1<<20), 1<<24)
	out := bufio.NewWriterSize(os.Stdout, 1<<20)
	defer out.Flush()
	for in.Scan() {
		f := strings.Fields(in.Text())
		if len(f) == 0 {
			continue
		}
		switch {
		case f[0] == "work" && len(f) == 5:
			fmt.Fprintln(out, runWork(f, parseSched(f[4])))
		case f[0] == "cache" && len(f) == 3:
			fmt.Fprintln(out, runCache(f, parseSched(f[2])))
		case f[0] == "dfs" && len(f) >= 5:
			bound, _ := strconv.Atoi(f[1])
			max, _ := strconv.Atoi(f[2])
			var prefix []int
			count, status := 0, "exhausted"
			for {
				c := &chooser{prefix: prefix}
				line := runScenario(f[3:], c)
				fmt.Fprintln(out, line)
				count++
				if line == "bad-scenario" {
					break
				}
				prefix = next(c.cps, bound)
				if prefix == nil {
					break
				}
				if count >= max {
					status = "truncated"
					break
				}
			}
			fmt.Fprintf(out, "DFSEND %d %s\n", count, status)
		default:
			fmt.Fprintln(out, "bad-scenario")
		}
		out.Flush()
	}
}
