// Instrumented-par driver (compiled by shimkit against a scratch copy of go-internal in which
// par/work.go uses vshim).  Reads one scenario per line on stdin, runs it under the controlled
// scheduler, prints the trace.
//
//	work <n> <initial items, comma separated> <graph: item>child,child;item>...> <seed|c:choices>
//	cache <goroutines: each a ';'-separated list of ops d<key> / g<key>, goroutines separated by '|'> <seed|c:choices>
//
// Output per scenario: one line `TRACE <event>|<event>|... END <done|deadlock|aborted>`.
package main

import (
	"bufio"
	"fmt"
	"math/rand"
	"os"
	"strconv"
	"strings"

	"github.com/rogpeppe/go-internal/par"
	"github.com/rogpeppe/go-internal/vshim"
)

func chooser(spec string) func(step int, enabled []int, s *vshim.Sched) int {
	if strings.HasPrefix(spec, "c:") {
		var choices []int
		for _, f := range strings.Split(spec[2:], ",") {
			if f == "" {
				continue
			}
			v, _ := strconv.Atoi(f)
			choices = append(choices, v)
		}
		i := 0
		return func(step int, enabled []int, s *vshim.Sched) int {
			if i < len(choices) {
				c := choices[i] % len(enabled)
				i++
				return c
			}
			return 0
		}
	}
	seed, _ := strconv.ParseInt(spec, 10, 64)
	r := rand.New(rand.NewSource(seed))
	vshim.RandChoose = func(n int) int { return r.Intn(n) }
	return func(step int, enabled []int, s *vshim.Sched) int { return r.Intn(len(enabled)) }
}

func finish(s *vshim.Sched) string {
	var ev []string
	for _, e := range s.Trace {
		ev = append(ev, e.String())
	}
	end := "done"
	if s.Deadlock {
		end = "deadlock"
	} else if s.Aborted {
		end = "aborted"
	}
	return "TRACE " + strings.Join(ev, "|") + " END " + end
}

func runWork(f []string) string {
	n, _ := strconv.Atoi(f[1])
	children := map[string][]string{}
	if len(f) > 3 && f[3] != "-" {
		for _, part := range strings.Split(f[3], ";") {
			kv := strings.SplitN(part, ">", 2)
			if len(kv) == 2 && kv[1] != "" {
				children[kv[0]] = strings.Split(kv[1], ",")
			}
		}
	}
	s := vshim.NewSched()
	s.Choose = chooser(f[4])
	s.MaxSteps = 20000
	s.SpawnProc(0, func() {
		var w par.Work
		if f[2] != "-" {
			for _, it := range strings.Split(f[2], ",") {
				w.Add(it)
			}
		}
		vshim.Note("do-call", fmt.Sprint(n))
		w.Do(n, func(item any) {
			vshim.Step("f-enter", item.(string))
			for _, c := range children[item.(string)] {
				w.Add(c)
			}
			vshim.Step("f-exit", item.(string))
		})
		vshim.Note("do-return")
	})
	s.Run()
	return finish(s)
}

func runCache(f []string) string {
	s := vshim.NewSched()
	s.Choose = chooser(f[2])
	s.MaxSteps = 20000
	var c par.Cache
	calls := map[string]int{}
	for gi, g := range strings.Split(f[1], "|") {
		ops := strings.Split(g, ";")
		s.SpawnProc(gi, func() {
			for _, op := range ops {
				if op == "" {
					continue
				}
				key := op[1:]
				switch op[0] {
				case 'd':
					vshim.Note("do-call", key)
					v := c.Do(key, func() any {
						vshim.Step("f-enter", key)
						calls[key]++
						v := fmt.Sprintf("%s#%d", key, calls[key])
						vshim.Step("f-exit", key, v)
						return v
					})
					vshim.Note("do-return", key, fmt.Sprint(v))
				case 'g':
					vshim.Note("get-call", key)
					v := c.Get(key)
					vshim.Note("get-return", key, fmt.Sprint(v))
				}
			}
		})
	}
	s.Run()
	return finish(s)
}

func main() {
	in := bufio.NewScanner(os.Stdin)
	in.Buffer(make([]byte, 1<<20), 1<<24)
	out := bufio.NewWriter(os.Stdout)
	defer out.Flush()
	for in.Scan() {
		f := strings.Fields(in.Text())
		if len(f) == 0 {
			continue
		}
		switch {
		case f[0] == "work" && len(f) == 5:
			fmt.Fprintln(out, runWork(f))
		case f[0] == "cache" && len(f) == 3:
			fmt.Fprintln(out, runCache(f))
		default:
			fmt.Fprintln(out, "bad-scenario")
		}
		out.Flush()
	}
}
