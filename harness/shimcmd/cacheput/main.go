// Instrumented-cache driver (compiled by shimkit against a scratch copy of go-internal in which
// cache/cache.go, lockedfile/* use vshim).  One scenario per stdin line:
//
//	run <dir> <procs: '|'-separated; each a ';'-separated list of ops> <seed|c:choices|g:segments> [fault:<osIndex>:<kind>[:k]] [now:<unixnano>]
//
// ops (ids and contents are small integers indexing fixed tables):
//
//	p<id>,<content>   Put(id, content)        b<id>   GetBytes(id)     f<id>   GetFile(id)     g<id>  Get(id)
//	P<id>,<content>,<srcfault>  Put with a faulty source: srcfault = e<off> (error at offset on the 2nd pass), s<off> (early EOF on
//	                  the 2nd pass), c<off> (byte at off differs on the 2nd pass), E (the 1st pass fails), k (the 2nd Seek fails)
//	T                 Trim()
//
// A process may run several goroutines: `ops&ops` inside one process.
//
// Output per scenario: `TRACE ev|… END done|deadlock|aborted CHOICES e.e.e:k,…` (driver events: call/ret with results;
// CHOICES lists, per scheduling step, the enabled task ids and the index chosen).
package main

import (
	"bufio"
	"bytes"
	"crypto/sha256"
	"encoding/hex"
	"errors"
	"fmt"
	"io"
	"math/rand"
	"os"
	"strconv"
	"strings"

	"github.com/rogpeppe/go-internal/cache"
	"github.com/rogpeppe/go-internal/vshim"
)

func chooser(spec string) func(step int, enabled []int, s *vshim.Sched) int {
	if strings.HasPrefix(spec, "c:") {
		var choices []int
		for _, f := range strings.Split(spec[2:], ",") {
			if f != "" {
				v, _ := strconv.Atoi(f)
				choices = append(choices, v)
			}
		}
		i := 0
		return func(step int, enabled []int, s *vshim.Sched) int {
			if i < len(choices) {
				c := choices[i] % len(enabled)
				i++
				return c
			}
			return 0
		}
	}
	if strings.HasPrefix(spec, "g:") {
		// segments `<task>*<steps>,…`: run the task for that many scheduling steps (while it is enabled),
		// afterwards the lowest enabled task: schedules with a bounded number of preemptions
		type seg struct{ task, n int }
		var segs []seg
		for _, f := range strings.Split(spec[2:], ",") {
			var t, n int
			if _, err := fmt.Sscanf(f, "%d*%d", &t, &n); err == nil && n > 0 {
				segs = append(segs, seg{t, n})
			}
		}
		return func(step int, enabled []int, s *vshim.Sched) int {
			for len(segs) > 0 {
				for i, e := range enabled {
					if e == segs[0].task {
						segs[0].n--
						if segs[0].n == 0 {
							segs = segs[1:]
						}
						return i
					}
				}
				segs = segs[1:] // the task has finished: next segment
			}
			return 0
		}
	}
	seed, _ := strconv.ParseInt(spec, 10, 64)
	r := rand.New(rand.NewSource(seed))
	return func(step int, enabled []int, s *vshim.Sched) int { return r.Intn(len(enabled)) }
}

// Contents returns the content table: sizes 0, 1, 2, 5, 40 and one multi-chunk one.
func content(i int) []byte {
	switch i {
	case 0:
		return nil
	case 1:
		return []byte("a")
	case 2:
		return []byte("bc")
	case 3:
		return []byte("hello")
	case 4:
		return bytes.Repeat([]byte("0123456789"), 4)
	case 6:
		return []byte("world")
	default:
		return bytes.Repeat([]byte{byte('A' + i)}, 70000)
	}
}

func actionID(i int) cache.ActionID {
	var id cache.ActionID
	h := sha256.Sum256([]byte(fmt.Sprintf("action-%d", i)))
	copy(id[:], h[:])
	return id
}

// faultySrc is an io.ReadSeeker whose behaviour depends on the pass (pass 1 = Put's hashing pass,
// pass 2 = copyFile's copying pass; every Seek(0, 0) starts the next pass).
type faultySrc struct {
	data []byte
	off  int
	pass int
	kind byte
	at   int
}

func (s *faultySrc) Seek(off int64, whence int) (int64, error) {
	if off == 0 && whence == io.SeekStart {
		s.off = 0
		s.pass++
		if s.kind == 'k' && s.pass >= 2 {
			return 0, errors.New("source seek error")
		}
		return 0, nil
	}
	return 0, errors.New("unsupported seek")
}

func (s *faultySrc) Read(p []byte) (int, error) {
	if s.kind == 'E' {
		return 0, errors.New("source read error")
	}
	end := len(s.data)
	if (s.kind == 'e' || s.kind == 's') && s.pass >= 2 {
		if s.off >= s.at {
			if s.kind == 'e' {
				return 0, errors.New("source read error")
			}
			return 0, io.EOF
		}
		if end > s.at {
			end = s.at
		}
	}
	if s.off >= end {
		return 0, io.EOF
	}
	n := copy(p, s.data[s.off:end])
	if s.kind == 'c' && s.pass >= 2 && s.at >= s.off && s.at < s.off+n {
		p[s.at-s.off] ^= 0xff
	}
	s.off += n
	return n, nil
}

func short(h [32]byte) string { return hex.EncodeToString(h[:]) }

func run(f []string) string {
	dir := f[1]
	os.MkdirAll(dir, 0o777)
	vshim.PathName = func(p string) string { return strings.TrimPrefix(p, dir+"/") }
	s := vshim.NewSched()
	s.Choose = chooser(f[3])
	s.MaxSteps = 200000
	for _, x := range f[4:] {
		switch {
		case strings.HasPrefix(x, "fault:"):
			p := strings.Split(x, ":")
			idx, _ := strconv.Atoi(p[1])
			kind := map[string]vshim.FaultKind{"fail": vshim.FFail, "short": vshim.FShort, "crashbefore": vshim.FCrashBefore, "crashafter": vshim.FCrashAfter}[p[2]]
			k := 0
			if len(p) > 3 {
				k, _ = strconv.Atoi(p[3])
			}
			s.FaultAt = func(i int, e *vshim.Event) vshim.Fault {
				if i == idx {
					return vshim.Fault{Kind: kind, K: k}
				}
				return vshim.Fault{}
			}
		case strings.HasPrefix(x, "now:"):
			s.Now, _ = strconv.ParseInt(x[4:], 10, 64)
		}
	}
	var choiceLog []string
	inner := s.Choose
	s.Choose = func(step int, enabled []int, sc *vshim.Sched) int {
		k := inner(step, enabled, sc)
		parts := make([]string, len(enabled))
		for i, e := range enabled {
			parts[i] = strconv.Itoa(e)
		}
		choiceLog = append(choiceLog, strings.Join(parts, ".")+":"+strconv.Itoa(k))
		return k
	}
	for pi, pspec := range strings.Split(f[2], "|") {
		for _, p := range strings.Split(pspec, "&") {
			ops := strings.Split(p, ";")
			// cache.Open (stat + 256 MkdirAll) runs outside the controlled execution: not logged, not faultable.
			c, err := cache.Open(dir)
			if err != nil {
				return "TRACE open-error END aborted"
			}
			s.SpawnProc(pi, func() {
				for _, op := range ops {
					if op == "" {
						continue
					}
					args := strings.Split(op[1:], ",")
					id := 0
					if len(args) > 0 && args[0] != "" {
						id, _ = strconv.Atoi(args[0])
					}
					switch op[0] {
					case 'p', 'P':
						ci, _ := strconv.Atoi(args[1])
						data := content(ci)
						var src io.ReadSeeker = bytes.NewReader(data)
						if op[0] == 'P' {
							at := 0
							if len(args[2]) > 1 {
								at, _ = strconv.Atoi(args[2][1:])
							}
							src = &faultySrc{data: data, kind: args[2][0], at: at}
						}
						vshim.Note("call", "put", args[0], args[1])
						out, size, err := c.Put(actionID(id), src)
						if err != nil {
							vshim.Note("ret", "put", "err")
						} else {
							vshim.Note("ret", "put", "ok", short(out), fmt.Sprint(size))
						}
					case 'b':
						vshim.Note("call", "getbytes", args[0])
						data, e, err := c.GetBytes(actionID(id))
						if err != nil {
							vshim.Note("ret", "getbytes", "miss")
						} else {
							h := sha256.Sum256(data)
							vshim.Note("ret", "getbytes", "ok", short(e.OutputID), fmt.Sprint(e.Size), short(h), fmt.Sprint(len(data)))
						}
					case 'f':
						vshim.Note("call", "getfile", args[0])
						file, e, err := c.GetFile(actionID(id))
						if err != nil {
							vshim.Note("ret", "getfile", "miss")
						} else {
							data, _ := os.ReadFile(file)
							h := sha256.Sum256(data)
							vshim.Note("ret", "getfile", "ok", short(e.OutputID), fmt.Sprint(e.Size), short(h), fmt.Sprint(len(data)))
						}
					case 'g':
						vshim.Note("call", "get", args[0])
						e, err := c.Get(actionID(id))
						if err != nil {
							vshim.Note("ret", "get", "miss")
						} else {
							vshim.Note("ret", "get", "ok", short(e.OutputID), fmt.Sprint(e.Size))
						}
					case 'T':
						vshim.Note("call", "trim")
						c.Trim()
						vshim.Note("ret", "trim")
					}
				}
			})
		}
	}
	s.Run()
	var ev []string
	for _, e := range s.Trace {
		ev = append(ev, e.String())
	}
	end := "done"
	if s.Deadlock {
		end = "deadlock"
	} else if s.Aborted {
		end = "aborted"
	}
	return "TRACE " + strings.Join(ev, "|") + " END " + end + " CHOICES " + strings.Join(choiceLog, ",")
}

func main() {
	in := bufio.NewScanner(os.Stdin)
	in.Buffer(make([]byte, 1<<20), 1<<26)
	out := bufio.NewWriter(os.Stdout)
	defer out.Flush()
	for in.Scan() {
		f := strings.Fields(in.Text())
		if len(f) >= 4 && f[0] == "run" {
			fmt.Fprintln(out, run(f))
		} else {
			fmt.Fprintln(out, "bad-scenario")
		}
		out.Flush()
	}
}
