// Clock-controlled cache driver.  Compiled by shimkit against a scratch copy of go-internal to which only
// cache/export_verif.go (func (c *Cache) SetNow) has been added — no source rewriting.  It executes the SAME
// request lines as the Lean model driver gim_cache (`hist op,op,…`, see lean/Driver/Cache.lean) on the real
// package in a real temporary directory, with the cache's clock set to the `now` of each operation, and answers
//
//	<res>,<res>,…|<listing>|<trims>
//
// in the model's format; <trims> has, per Trim operation (separated by '#'), the files before and after it:
// `name@mtime@sha;…>name@mtime@sha;…`.
package main

import (
	"bufio"
	"bytes"
	"crypto/sha256"
	"encoding/hex"
	"errors"
	"fmt"
	"io/fs"
	"os"
	"path/filepath"
	"sort"
	"strconv"
	"strings"
	"time"

	"github.com/rogpeppe/go-internal/cache"
)

func genBytes(seed, n int) []byte {
	b := make([]byte, n)
	for i := range b {
		b[i] = byte((i*131 + seed*29 + (i/256)*7 + 1) % 256)
	}
	return b
}

func content(spec string) []byte {
	switch {
	case spec == "x-":
		return nil
	case strings.HasPrefix(spec, "x"):
		b, err := hex.DecodeString(spec[1:])
		if err != nil {
			panic(err)
		}
		return b
	case strings.HasPrefix(spec, "g"):
		var n, seed int
		fmt.Sscanf(spec[1:], "%d.%d", &n, &seed)
		return genBytes(seed, n)
	}
	panic("bad content spec " + spec)
}

func hash32(s string) (h [32]byte) {
	b, err := hex.DecodeString(s)
	if err != nil || len(b) != 32 {
		panic("bad hash " + s)
	}
	copy(h[:], b)
	return
}

func reasonOf(err error) string {
	var pe *fs.PathError
	if errors.As(err, &pe) {
		switch pe.Op {
		case "open":
			return "nofile"
		case "stat":
			return "statdata"
		}
		return "patherror:" + pe.Op
	}
	s := err.Error()
	for _, m := range [][2]string{{"too long", "toolong"}, {"file is empty", "empty"}, {"entry file incomplete", "incomplete"}, {"invalid header", "header"},
		{"decoding output ID", "decodeout"}, {"decoding ID", "decodeid"}, {"mismatched ID", "mismatchedid"}, {"parsing size", "parsesize"}, {"negative size", "negsize"},
		{"parsing timestamp", "parsetime"}, {"negative timestamp", "negtime"}, {"file incomplete", "fileincomplete"}, {"bad checksum", "badchecksum"}} {
		if strings.Contains(s, m[0]) {
			return m[1]
		}
	}
	return "other:" + strings.NewReplacer(",", " ", "|", " ", "\n", " ").Replace(s)
}

func showEntry(e cache.Entry) string {
	return fmt.Sprintf("%x:%d:%d", e.OutputID, e.Size, e.Time.UnixNano())
}

type drv struct {
	dir string
	c   *cache.Cache
}

func (d *drv) reset() {
	ents, _ := os.ReadDir(d.dir)
	for _, e := range ents {
		p := filepath.Join(d.dir, e.Name())
		if e.IsDir() && len(e.Name()) == 2 && strings.Trim(e.Name(), "0123456789abcdef") == "" {
			sub, _ := os.ReadDir(p)
			for _, s := range sub {
				os.RemoveAll(filepath.Join(p, s.Name()))
			}
			continue
		}
		os.RemoveAll(p)
	}
}

type ent struct {
	name  string
	size  int
	sum   string
	mtime int64
}

func (d *drv) list() []ent {
	var out []ent
	filepath.Walk(d.dir, func(p string, info fs.FileInfo, err error) error {
		if err != nil || !info.Mode().IsRegular() {
			return nil
		}
		rel, _ := filepath.Rel(d.dir, p)
		data, _ := os.ReadFile(p)
		s := sha256.Sum256(data)
		out = append(out, ent{filepath.ToSlash(rel), len(data), hex.EncodeToString(s[:]), info.ModTime().UnixNano()})
		return nil
	})
	sort.Slice(out, func(i, j int) bool { return out[i].name < out[j].name })
	return out
}

func showEnts(es []ent) string {
	var parts []string
	for _, e := range es {
		parts = append(parts, fmt.Sprintf("%s@%d@%s", e.name, e.mtime, e.sum))
	}
	return strings.Join(parts, ";")
}

func (d *drv) rel(p string) string {
	r, _ := filepath.Rel(d.dir, p)
	return filepath.ToSlash(r)
}

func (d *drv) op(f []string, trims *[]string) (res string) {
	defer func() {
		if r := recover(); r != nil {
			res = "PANIC"
		}
	}()
	num := func(s string) int64 {
		v, err := strconv.ParseInt(s, 10, 64)
		if err != nil {
			panic(err)
		}
		return v
	}
	setNow := func(s string) {
		t := time.Unix(0, num(s))
		d.c.SetNow(func() time.Time { return t })
	}
	path := func(name string) string { return filepath.Join(d.dir, filepath.FromSlash(name)) }
	switch f[0] {
	case "P", "Q":
		setNow(f[1])
		data := content(f[3])
		if f[0] == "P" {
			out, size, err := d.c.Put(hash32(f[2]), bytes.NewReader(data))
			if err != nil {
				return "err:" + reasonOf(err)
			}
			return fmt.Sprintf("ok:%x:%d", out, size)
		}
		if err := d.c.PutBytes(hash32(f[2]), data); err != nil {
			return "err:" + reasonOf(err)
		}
		return "ok"
	case "G":
		setNow(f[1])
		e, err := d.c.Get(hash32(f[2]))
		if err != nil {
			return "nf:" + reasonOf(err)
		}
		return "ok:" + showEntry(e)
	case "F":
		setNow(f[1])
		file, e, err := d.c.GetFile(hash32(f[2]))
		if err != nil {
			return "nf:" + reasonOf(err)
		}
		return "ok:" + d.rel(file) + ":" + showEntry(e)
	case "B":
		setNow(f[1])
		data, e, err := d.c.GetBytes(hash32(f[2]))
		if err != nil {
			return "nf:" + reasonOf(err)
		}
		s := sha256.Sum256(data)
		return fmt.Sprintf("ok:%d:%x:%s", len(data), s, showEntry(e))
	case "O":
		setNow(f[1])
		return d.rel(d.c.OutputFile(hash32(f[2])))
	case "T":
		setNow(f[1])
		before := d.list()
		err := d.c.Trim()
		after := d.list()
		*trims = append(*trims, showEnts(before)+">"+showEnts(after))
		if err != nil {
			return "err:" + reasonOf(err)
		}
		return "-"
	case "w":
		p := path(f[1])
		os.MkdirAll(filepath.Dir(p), 0o777)
		if err := os.WriteFile(p, content(f[2]), 0o666); err != nil {
			panic(err)
		}
		t := time.Unix(0, num(f[3]))
		os.Chtimes(p, t, t)
	case "d":
		os.Remove(path(f[1]))
	case "m":
		t := time.Unix(0, num(f[2]))
		os.Chtimes(path(f[1]), t, t)
	case "t":
		p := path(f[1])
		if _, err := os.Stat(p); err == nil {
			os.Truncate(p, num(f[2]))
			t := time.Unix(0, num(f[3]))
			os.Chtimes(p, t, t)
		}
	case "x":
		p := path(f[1])
		if data, err := os.ReadFile(p); err == nil {
			if pos := int(num(f[2])); pos < len(data) {
				data[pos] ^= 0x5a
			}
			os.WriteFile(p, data, 0o666)
			t := time.Unix(0, num(f[3]))
			os.Chtimes(p, t, t)
		}
	case "c":
		if data, err := os.ReadFile(path(f[1])); err == nil {
			p := path(f[2])
			os.MkdirAll(filepath.Dir(p), 0o777)
			os.WriteFile(p, data, 0o666)
			t := time.Unix(0, num(f[3]))
			os.Chtimes(p, t, t)
		}
	default:
		return "bad-op"
	}
	return "-"
}

func (d *drv) line(l string) string {
	if !strings.HasPrefix(l, "hist ") {
		return "bad-op"
	}
	d.reset()
	var results, trims []string
	if ops := strings.TrimPrefix(l, "hist "); ops != "-" {
		for _, o := range strings.Split(ops, ",") {
			results = append(results, d.op(strings.Split(o, ":"), &trims))
		}
	}
	var ls []string
	for _, e := range d.list() {
		ls = append(ls, fmt.Sprintf("%s:%d:%s:%d", e.name, e.size, e.sum, e.mtime))
	}
	return strings.Join(results, ",") + "|" + strings.Join(ls, ";") + "|" + strings.Join(trims, "#")
}

func main() {
	dir, err := os.MkdirTemp("", "giv-cacheclock-")
	if err != nil {
		fmt.Fprintln(os.Stderr, err)
		os.Exit(2)
	}
	defer os.RemoveAll(dir)
	c, err := cache.Open(dir)
	if err != nil {
		fmt.Fprintln(os.Stderr, err)
		os.RemoveAll(dir)
		os.Exit(2)
	}
	d := &drv{dir: dir, c: c}
	in := bufio.NewReaderSize(os.Stdin, 1<<20)
	out := bufio.NewWriter(os.Stdout)
	for {
		l, err := in.ReadString('\n')
		l = strings.TrimRight(l, "\r\n")
		if l != "" {
			out.WriteString(d.line(l))
			out.WriteByte('\n')
			out.Flush()
		}
		if err != nil {
			break
		}
	}
}
