// corr — correspondence harness: runs the real go-internal packages and the Lean
// model drivers on the same cases and reports every difference, plus direct property
// oracles on the implementation.  One sub-command per model group.
package main

import (
	"encoding/hex"
	"encoding/json"
	"flag"
	"fmt"
	"os"
	"sort"
	"strconv"
)

// Disagreement is one case where model and implementation differ.
type Disagreement struct {
	Case  string `json:"case"`
	Impl  string `json:"impl"`
	Model string `json:"model"`
}

// Violation is a failure of a property oracle on the implementation itself.
type Violation struct {
	Property string `json:"property"`
	Input    string `json:"input"` // the concrete failing case, replayable
	What     string `json:"what"`
	Class    string `json:"class"` // stable key used by known_findings.json
}

// Result is what a sub-command reports to ./check.
type Result struct {
	Group              string            `json:"group"`
	Tier               string            `json:"tier"`
	Seed               int64             `json:"seed"`
	Evaluations        int               `json:"evaluations"`
	DistinctNontrivial int               `json:"distinct_nontrivial"`
	Rule               string            `json:"rule"`
	Exhaustive         bool              `json:"exhaustive"`
	Samples            []any             `json:"samples"`
	NDisagreements     int               `json:"n_disagreements"`
	Disagreements      []Disagreement    `json:"disagreements"`
	Violations         []Violation       `json:"violations"`
	OracleChecked      map[string]int    `json:"oracle_checked"`
	Distribution       map[string]int    `json:"distribution"`
	Observations       []string          `json:"observations"`
	Extra              map[string]any    `json:"extra,omitempty"`
	PerProperty        map[string]string `json:"per_property,omitempty"`
}

func newResult(group, tier string, seed int64) *Result {
	return &Result{Group: group, Tier: tier, Seed: seed, OracleChecked: map[string]int{}, Distribution: map[string]int{}, Extra: map[string]any{}}
}

func (r *Result) disagree(c, impl, model string) {
	r.NDisagreements++
	if len(r.Disagreements) < 20 {
		r.Disagreements = append(r.Disagreements, Disagreement{c, impl, model})
	}
}

func (r *Result) violate(prop, input, what, class string) {
	r.Distribution["violation:"+prop+":"+class]++
	if r.Distribution["violation:"+prop+":"+class] <= 5 {
		r.Violations = append(r.Violations, Violation{prop, input, what, class})
	}
}

func hx(b []byte) string {
	if len(b) == 0 {
		return "-"
	}
	return hex.EncodeToString(b)
}

func unhx(s string) []byte {
	if s == "-" {
		return nil
	}
	b, err := hex.DecodeString(s)
	if err != nil {
		panic(err)
	}
	return b
}

type subcmd func(tier string, seed int64, model string, replay string) *Result

var subcmds = map[string]subcmd{}

func main() {
	tier := flag.String("tier", "quick", "quick|thorough")
	seed := flag.Int64("seed", 1, "PRNG seed")
	model := flag.String("model", "", "path of the Lean model driver")
	out := flag.String("out", "", "result JSON path")
	replay := flag.String("replay", "", "replay a single case (group specific encoding)")
	flag.Parse()
	if flag.NArg() != 1 {
		var names []string
		for k := range subcmds {
			names = append(names, k)
		}
		sort.Strings(names)
		fmt.Fprintf(os.Stderr, "usage: corr [flags] <group>; groups: %v\n", names)
		os.Exit(2)
	}
	if s := os.Getenv("VERIF_SEED"); s != "" && *seed == 1 {
		if v, err := strconv.ParseInt(s, 10, 64); err == nil {
			*seed = v
		}
	}
	f, ok := subcmds[flag.Arg(0)]
	if !ok {
		fmt.Fprintf(os.Stderr, "unknown group %q\n", flag.Arg(0))
		os.Exit(2)
	}
	res := f(*tier, *seed, *model, *replay)
	data, _ := json.MarshalIndent(res, "", " ")
	if *out != "" {
		if err := os.WriteFile(*out, data, 0o666); err != nil {
			fmt.Fprintln(os.Stderr, err)
			os.Exit(2)
		}
	} else {
		os.Stdout.Write(data)
	}
}
