package main

import "verif/harness/internal/corr"

func runImports(tier string, seed int64, model string, replay string) *corr.Result {
	return corr.NewResult("imports", tier, seed)
}
