package main

import (
	"bytes"
	"errors"
	"fmt"
	"go/build"
	"go/build/constraint"
	"go/parser"
	"go/scanner"
	"go/token"
	"io"
	"io/fs"
	"math/rand"
	"os"
	"path/filepath"
	"runtime"
	"sort"
	"strconv"
	"strings"
	"sync"
	"testing/iotest"
	"unicode"

	"github.com/rogpeppe/go-internal/imports"

	"verif/harness/internal/corr"
	"verif/harness/internal/mdl"
)

// ---------------------------------------------------------------- common

// which property an observable belongs to: MatchFile / ShouldBuild / matchTags -> C19, ReadImports -> C18
var p19 = []string{"C19"}
var p18 = []string{"C18"}

func propsOfCase(c string) []string {
	if strings.HasPrefix(c, "read ") || strings.HasPrefix(c, "readseq ") {
		return p18
	}
	if strings.HasPrefix(c, "scandir ") || strings.HasPrefix(c, "scanfiles ") {
		return p1819
	}
	if strings.HasPrefix(c, "unquote ") {
		return p18
	}
	return p19
}

func encTags(ts []string) string {
	if len(ts) == 0 {
		return "_"
	}
	hs := make([]string, len(ts))
	for i, t := range ts {
		hs[i] = corr.Hx([]byte(t))
	}
	return strings.Join(hs, ",")
}

func decTags(s string) []string {
	if s == "_" {
		return nil
	}
	var ts []string
	for _, h := range strings.Split(s, ",") {
		ts = append(ts, string(corr.Unhx(h)))
	}
	return ts
}

func tagMap(ts []string) map[string]bool {
	m := map[string]bool{}
	for _, t := range ts {
		m[t] = true
	}
	return m
}

func encTagSets(sets [][]string) string {
	ss := make([]string, len(sets))
	for i, s := range sets {
		ss[i] = encTags(s)
	}
	return strings.Join(ss, ";")
}

func tf(b bool) byte {
	if b {
		return 't'
	}
	return 'f'
}

func boolStr(b bool) string {
	if b {
		return "true"
	}
	return "false"
}

// sel is the statement's "tags selects t, with android also selecting linux".
func sel(tags map[string]bool, t string) bool {
	return tags[t] || (t == "linux" && tags["android"])
}

// ---------------------------------------------------------------- C19: MatchFile

var mfSegs = []string{"x", "linux", "android", "windows", "amd64", "arm64", "test", ""}
var mfExts = []string{".go", "", ".s.go"}
var mfTagVocab = []string{"linux", "android", "windows", "amd64", "arm64"}

func mfTagSets() [][]string {
	var sets [][]string
	for m := 0; m < 1<<len(mfTagVocab); m++ {
		var s []string
		for i, t := range mfTagVocab {
			if m&(1<<i) != 0 {
				s = append(s, t)
			}
		}
		sets = append(sets, s)
	}
	return append(sets, []string{"*"})
}

func mfNames() []string {
	var names []string
	var rec func(prefix string, depth int)
	rec = func(prefix string, depth int) {
		for _, s := range mfSegs {
			n := s
			if depth > 0 {
				n = prefix + "_" + s
			}
			for _, e := range mfExts {
				names = append(names, n+e)
			}
			if depth < 3 {
				rec(n, depth+1)
			}
		}
	}
	rec("", 0)
	return names
}

// mfDottedExts: several dots, dots in odd places, OS/arch tokens after the first dot (the name ends at the FIRST dot).
var mfDottedExts = []string{".a.go", ".linux.go", "..go", ".", ".go.", ".x_windows.go", ".tar.gz", ".x_test.go", "._arm64"}

// mfDottedNames: 1..2 segments x mfDottedExts.
func mfDottedNames() []string {
	var names []string
	for _, a := range mfSegs {
		for _, e := range mfDottedExts {
			names = append(names, a+e)
		}
		for _, b := range mfSegs {
			for _, e := range mfDottedExts {
				names = append(names, a+"_"+b+e)
			}
		}
	}
	return names
}

// matchFileStatement is the property's wording, coded with suffix tests (independent of the
// implementation's split/index walk and of the Lean model): false exactly when the stem (name up
// to the first '.'), an optional final "_test" aside, ends in _GOOS, _GOARCH or _GOOS_GOARCH
// with a known token that tags does not select.
func matchFileStatement(name string, tags map[string]bool) bool {
	if tags["*"] {
		return true
	}
	stem := name
	if i := strings.IndexByte(stem, '.'); i >= 0 {
		stem = stem[:i]
	}
	stem = strings.TrimSuffix(stem, "_test")
	for o := range imports.KnownOS {
		if strings.HasSuffix(stem, "_"+o) && !sel(tags, o) {
			return false
		}
	}
	for a := range imports.KnownArch {
		if strings.HasSuffix(stem, "_"+a) {
			if !sel(tags, a) {
				return false
			}
			rest := strings.TrimSuffix(stem, "_"+a)
			for o := range imports.KnownOS {
				if strings.HasSuffix(rest, "_"+o) && !sel(tags, o) {
					return false
				}
			}
		}
	}
	return true
}

// goBuildMatchFile asks go/build whether the file name alone excludes the file for GOOS/GOARCH.
// Only meaningful for ".go" names that go/build does not ignore outright ("_"/"." prefix).
func goBuildMatchFile(name, goos, goarch string) (bool, bool) {
	if !strings.HasSuffix(name, ".go") || strings.HasPrefix(name, "_") || strings.HasPrefix(name, ".") || strings.Count(name, ".") != 1 {
		return false, false
	}
	ctxt := build.Context{GOOS: goos, GOARCH: goarch, Compiler: "gc",
		OpenFile: func(string) (io.ReadCloser, error) { return io.NopCloser(strings.NewReader("package p\n")), nil }}
	ok, err := ctxt.MatchFile("/d", name)
	if err != nil {
		return false, false
	}
	return ok, true
}

func osArchOf(ts []string) (string, string, bool) {
	if len(ts) != 2 {
		return "", "", false
	}
	goos, goarch := "", ""
	for _, t := range ts {
		switch t {
		case "linux", "android", "windows":
			goos = t
		case "amd64", "arm64":
			goarch = t
		}
	}
	return goos, goarch, goos != "" && goarch != ""
}

func matchFileOracle(res *corr.Result, name string, ts []string, got bool) {
	res.OracleChecked["C19"]++
	tags := tagMap(ts)
	in := "match " + corr.Hx([]byte(name)) + " " + encTags(ts)
	if want := matchFileStatement(name, tags); got != want {
		class := "matchfile-statement"
		if !got && tags["android"] && strings.Contains(name, "_linux") {
			class = "matchfile-android-linux"
		}
		res.Violate("C19", in, fmt.Sprintf("MatchFile(%q, %v) = %v, the statement gives %v", name, ts, got, want), class)
	}
	if goos, goarch, ok := osArchOf(ts); ok {
		if ref, ok := goBuildMatchFile(name, goos, goarch); ok {
			res.Distribution["matchfile-go/build-consulted"]++
			if ref != got {
				class := "matchfile-gobuild"
				if !got && goos == "android" {
					class = "matchfile-android-linux"
				}
				res.Violate("C19", in, fmt.Sprintf("MatchFile(%q, %v) = %v, go/build.Context{%s,%s}.MatchFile = %v", name, ts, got, goos, goarch, ref), class)
			}
		}
	}
}

// ---------------------------------------------------------------- C19: ShouldBuild

var sbVocab = []string{"linux", "android", "windows", "amd64", "cgo", "ignore", "foo"}
var sbBadTags = []string{"", "a-b", "#", "foo#", "×", "\xff", "a b", "€", "fo\xc3", "²"}
var sbOddTags = []string{"é", "a.b", "_x", "386", "٣", "世界", "Linux", "linux_2"}

func genTerm(r *rand.Rand) string {
	var t string
	switch k := r.Intn(40); {
	case k < 34:
		t = sbVocab[r.Intn(len(sbVocab))]
	case k < 37:
		t = sbOddTags[r.Intn(len(sbOddTags))]
	default:
		t = sbBadTags[r.Intn(len(sbBadTags))]
	}
	switch k := r.Intn(12); {
	case k < 4:
		return "!" + t
	case k == 4:
		return "!!" + t
	}
	return t
}

func genBuildLine(r *rand.Rand) string {
	var sb strings.Builder
	sb.WriteString([]string{"// +build", "//+build", "//  +build", "//\t+build", "// +build"}[r.Intn(5)])
	nopt := 1 + r.Intn(3)
	if r.Intn(25) == 0 {
		nopt = 0
	}
	for i := 0; i < nopt; i++ {
		if r.Intn(120) == 0 {
			sb.WriteString([]string{"\u00a0 ", "\u2003", "\u0085", " \u3000"}[r.Intn(4)]) // Unicode white space: strings.Fields splits here too
		} else {
			sb.WriteString([]string{" ", " ", " ", "\t", "  "}[r.Intn(5)])
		}
		nt := 1 + r.Intn(3)
		for j := 0; j < nt; j++ {
			if j > 0 {
				sb.WriteString(",")
			}
			sb.WriteString(genTerm(r))
		}
		if r.Intn(30) == 0 {
			sb.WriteString(",")
		}
	}
	if r.Intn(10) == 0 {
		sb.WriteString(" ")
	}
	return sb.String()
}

var sbPlainLines = []string{"// hello", "//", "// Copyright 2018", "// +buildx foo", "// + build foo", "//go:build ignore", "// build +build ignore", "//+builds", "// +Build ignore", "// +build ignore"}
var sbBlankLines = []string{"", "", "", "", "  ", "\t", "\v", " \t ", "\f", "\v\f ", "\r", "", "", "", "", "", "", "", "", "", "", "", "", "", "", "", "", "", "", "", "", "", "", "\u00a0 "}
var sbEnders = []string{"package p", "// Package p is documented.\npackage p", "/* block */\npackage p", "/* +build ignore */\n\npackage p", "import \"x\"", "x", "package p\n\n// +build ignore\n\nvar x int", "/*\n// +build ignore\n\n*/\npackage p", "\"// +build ignore\"\n"}

// genShouldBuild builds a file start: 0–4 comment lines (+build lines among them), blank lines placed
// at random, then (or not) a blank line, then an ender; LF or CRLF; final newline or not.
func genShouldBuild(r *rand.Rand) []byte {
	var lines []string
	n := r.Intn(5)
	for i := 0; i < n; i++ {
		if r.Intn(4) == 0 {
			lines = append(lines, sbBlankLines[r.Intn(len(sbBlankLines))])
		}
		l := ""
		if r.Intn(3) == 0 {
			l = sbPlainLines[r.Intn(len(sbPlainLines))]
		} else {
			l = genBuildLine(r)
		}
		if r.Intn(8) == 0 {
			l = []string{" ", "\t", "   "}[r.Intn(3)] + l
		}
		lines = append(lines, l)
	}
	switch r.Intn(5) {
	case 0: // directly attached: the block has no blank line after it
	case 1:
		lines = append(lines, sbBlankLines[r.Intn(len(sbBlankLines))], sbBlankLines[r.Intn(len(sbBlankLines))])
	default:
		lines = append(lines, sbBlankLines[r.Intn(len(sbBlankLines))])
	}
	if r.Intn(8) != 0 {
		lines = append(lines, sbEnders[r.Intn(len(sbEnders))])
	}
	nl := "\n"
	if r.Intn(6) == 0 {
		nl = "\r\n"
	}
	s := strings.Join(lines, nl)
	if nl == "\r\n" {
		s = strings.ReplaceAll(strings.ReplaceAll(s, "\r\n", "\n"), "\n", "\r\n")
	}
	if r.Intn(3) != 0 {
		s += nl
	}
	return []byte(s)
}

// hasFFVTBlankLine: some line consists of white space only and holds a form feed or a vertical tab.
func hasFFVTBlankLine(c []byte) bool {
	for _, l := range bytes.Split(c, []byte("\n")) {
		if bytes.ContainsAny(l, "\f\v") && len(bytes.TrimSpace(l)) == 0 {
			return true
		}
	}
	return false
}

func genSBTagSets(r *rand.Rand) [][]string {
	sets := [][]string{nil, {"*"}, {"*", "ignore"}}
	for i := 0; i < 3; i++ {
		var s []string
		for _, t := range sbVocab {
			if r.Intn(3) == 0 {
				s = append(s, t)
			}
		}
		if r.Intn(6) == 0 {
			s = append(s, "é")
		}
		if r.Intn(12) == 0 {
			s = append(s, "*")
		}
		sets = append(sets, s)
	}
	return sets
}

func hasExoticSpace(b []byte) bool {
	for _, r := range string(b) {
		if r > 0x7f && unicode.IsSpace(r) {
			return true
		}
	}
	return false
}

// leadingBlockIndep: the lines of the leading run of blank and // lines, up to and including the
// last blank line before the first other line (independent of implementation and model:
// works on the split lines, no offsets).
func leadingBlockIndep(content []byte) []string {
	lines := strings.Split(string(content), "\n")
	if len(lines) > 0 && lines[len(lines)-1] == "" {
		lines = lines[:len(lines)-1] // nothing after the final newline
	}
	lastBlank := -1
	for i, l := range lines {
		t := strings.TrimSpace(l)
		if t == "" {
			lastBlank = i
			continue
		}
		if !strings.HasPrefix(t, "//") {
			break
		}
	}
	return lines[:lastBlank+1]
}

var reWellFormedTerm = func(s string) bool {
	s = strings.TrimPrefix(s, "!")
	if s == "" {
		return false
	}
	for i := 0; i < len(s); i++ {
		c := s[i]
		if !(c >= 'a' && c <= 'z' || c >= 'A' && c <= 'Z' || c >= '0' && c <= '9' || c == '_' || c == '.') {
			return false
		}
	}
	return true
}

func validTagStatement(s string) bool {
	for _, c := range s {
		if !unicode.IsLetter(c) && !unicode.IsDigit(c) && c != '_' && c != '.' {
			return false
		}
	}
	return s != ""
}

// termStatement: tag / !tag, malformed terms are false, android also satisfies linux,
// with "*" every tag except "ignore" is both true and false.
func termStatement(term string, tags map[string]bool) bool {
	neg := false
	if strings.HasPrefix(term, "!") {
		neg = true
		term = term[1:]
	}
	if !validTagStatement(term) {
		return false // covers "", "!", "!!x" (the remaining "!x" has an invalid rune)
	}
	if tags["*"] && term != "ignore" {
		return true
	}
	return sel(tags, term) != neg
}

func buildLineStatement(args []string, tags map[string]bool) bool {
	for _, opt := range args {
		all := true
		for _, term := range strings.Split(opt, ",") {
			if !termStatement(term, tags) {
				all = false
			}
		}
		if all {
			return true
		}
	}
	return false
}

func shouldBuildOracle(res *corr.Result, content []byte, ts []string, got bool) (nBuildLines int) {
	if hasExoticSpace(content) {
		res.Distribution["shouldbuild-oracle-skipped-exotic-space"]++
		return 0
	}
	res.OracleChecked["C19"]++
	tags := tagMap(ts)
	in := "should " + corr.Hx(content) + " " + encTags(ts)
	want, wantRef, refUsable := true, true, !tags["*"]
	for _, l := range leadingBlockIndep(content) {
		t := strings.TrimSpace(l)
		if !strings.HasPrefix(t, "//") {
			continue
		}
		f := strings.Fields(strings.TrimSpace(t[2:]))
		if len(f) == 0 || f[0] != "+build" {
			continue
		}
		nBuildLines++
		if !buildLineStatement(f[1:], tags) {
			want = false
		}
		// reference: go/build/constraint on the well-formed fragment
		wf := len(f) > 1
		for _, opt := range f[1:] {
			for _, term := range strings.Split(opt, ",") {
				if !reWellFormedTerm(term) {
					wf = false
				}
			}
		}
		if !wf {
			refUsable = false
			continue
		}
		expr, err := constraint.Parse(t)
		if err != nil {
			refUsable = false
			continue
		}
		if !expr.Eval(func(tag string) bool { return sel(tags, tag) }) {
			wantRef = false
		}
	}
	if got != want {
		res.Violate("C19", in, fmt.Sprintf("ShouldBuild = %v, the statement gives %v (tags %v)", got, want, ts), "shouldbuild-statement")
	}
	if refUsable && nBuildLines > 0 {
		res.Distribution["shouldbuild-constraint-consulted"]++
		if got != wantRef {
			res.Violate("C19", in, fmt.Sprintf("ShouldBuild = %v, go/build/constraint gives %v (tags %v)", got, wantRef, ts), "shouldbuild-constraint")
		}
	}
	return nBuildLines
}

// checkDriverU compares the driver's letter-or-digit table with Go's unicode tables on the ranges it claims.
func checkDriverU(res *corr.Result, model string) {
	ranges := [][2]int{{0x80, 0x100}, {0x660, 0x66a}, {0x4e00, 0xa000}}
	var cases []string
	for _, rg := range ranges {
		cases = append(cases, fmt.Sprintf("uni %d %d", rg[0], rg[1]))
	}
	out, err := mdl.Run(model, nil, cases, 1)
	if err != nil {
		res.DisagreeFor(p19, "<driver uni>", "", err.Error())
		return
	}
	for i, rg := range ranges {
		var want []string
		for c := rg[0]; c < rg[1]; c++ {
			if unicode.IsLetter(rune(c)) || unicode.IsDigit(rune(c)) {
				want = append(want, strconv.Itoa(c))
			}
		}
		if w := strings.Join(want, ","); w != out[i] {
			res.DisagreeFor(p19, cases[i], w[:min(len(w), 200)], out[i][:min(len(out[i]), 200)])
		}
	}
}

// syslistDrift records (as an observation, not a violation: the statement's "known" is anchored to
// KnownOS/KnownArch) tokens that the toolchain's go/build treats as GOOS/GOARCH but /repo does not.
func syslistDrift(res *corr.Result) {
	cands := []string{"wasip1", "wasip2", "tamago", "none", "haiku", "fuchsia", "loong32", "riscv32", "ppc64be", "wasm32"}
	var drift []string
	for _, c := range cands {
		if imports.KnownOS[c] || imports.KnownArch[c] {
			continue
		}
		if ok, usable := goBuildMatchFile("x_"+c+".go", "linux", "amd64"); usable && !ok {
			drift = append(drift, c)
		}
	}
	for o := range imports.KnownOS {
		if o == "linux" {
			continue
		}
		if ok, usable := goBuildMatchFile("x_"+o+".go", "linux", "amd64"); usable && ok {
			drift = append(drift, "-"+o)
		}
	}
	sort.Strings(drift)
	if len(drift) > 0 {
		res.Observations = append(res.Observations, "syslist drift vs this toolchain's go/build (informational; token known to go/build but not to imports.KnownOS/KnownArch, '-' = the reverse): "+strings.Join(drift, " "))
	}
}

// runC19 adds the MatchFile and ShouldBuild cases; returns number of non-trivial cases.
func runC19(res *corr.Result, r *rand.Rand, tier, model string) int {
	nontrivial := 0
	// ---- MatchFile, exhaustive
	names := mfNames()
	nPlain := len(names)
	names = append(names, mfDottedNames()...)
	sets := mfTagSets()
	encSets := encTagSets(sets)
	cases := make([]string, len(names))
	for i, n := range names {
		cases[i] = "matchm " + corr.Hx([]byte(n)) + " " + encSets
	}
	out, err := mdl.Run(model, nil, cases, 0)
	if err != nil {
		res.DisagreeFor(p19, "<driver>", "", err.Error())
		return 0
	}
	maps := make([]map[string]bool, len(sets))
	for j, s := range sets {
		maps[j] = tagMap(s)
	}
	for i, n := range names {
		impl := make([]byte, len(sets))
		anyFalse := false
		for j := range sets {
			got := imports.MatchFile(n, maps[j])
			impl[j] = tf(got)
			if !got {
				anyFalse = true
			}
			matchFileOracle(res, n, sets[j], got)
		}
		if string(impl) != out[i] {
			for j := range sets {
				if j < len(out[i]) && out[i][j] != impl[j] {
					res.DisagreeFor(p19, "match "+corr.Hx([]byte(n))+" "+encTags(sets[j]), string(impl[j:j+1]), out[i][j:j+1])
					break
				}
			}
			if len(out[i]) != len(impl) {
				res.DisagreeFor(p19, cases[i], string(impl), out[i])
			}
		}
		res.Evaluations += len(sets)
		if anyFalse {
			nontrivial += len(sets)
			res.Distribution["matchfile-name-with-significant-suffix"]++
			if strings.Count(n, ".") > 1 {
				res.Distribution["matchfile-name-with-several-dots-and-significant-suffix"]++
			}
		}
		if strings.Count(n, ".") > 1 {
			res.Distribution["matchfile-name-with-several-dots"]++
		}
	}
	res.Distribution["matchfile-names"] = len(names)
	res.Distribution["matchfile-tagsets"] = len(sets)
	res.Exhaustive = true
	res.Extra["exhaustive_spaces"] = []string{fmt.Sprintf("MatchFile: all names of 1..4 '_'-joined segments from %q x extensions %q (%d names), and all names of 1..2 such segments x %q (%d names), x all %d subsets of %q plus {\"*\"}", mfSegs, mfExts, nPlain, mfDottedExts, len(names)-nPlain, 1<<len(mfTagVocab), mfTagVocab)}
	res.Samples = append(res.Samples, map[string]string{"case": cases[len(cases)/3], "model": out[len(cases)/3]})

	// ---- ShouldBuild, generated
	nsb := 50000
	if tier == "thorough" {
		nsb = 400000
	}
	var contents [][]byte
	var tsets [][][]string
	seen := map[string]bool{}
	corpus := []string{
		"// +build linux\n\npackage p\n", "// +build linux\npackage p\n", "// +build !linux\n\npackage p\n", "// +build ignore\n\npackage p\n",
		"// +build linux,amd64 windows\n\n// +build !cgo\n\npackage p", "// +build !!linux\n\n", "// +build !\n\n", "// +build\n\n", "// +build ,\n\n",
		"// +build linux\r\n\r\npackage p\r\n", "\n// +build foo\n \n// doc\npackage p", "// +build foo\n\n/* x */\n// +build ignore\n\n", "", "\n", "// +build foo",
	}
	for _, c := range corpus {
		contents = append(contents, []byte(c))
		tsets = append(tsets, genSBTagSets(r))
		seen[c] = true
	}
	for len(contents) < nsb {
		c := genShouldBuild(r)
		if seen[string(c)] {
			res.Distribution["shouldbuild-duplicate-skipped"]++
			if res.Distribution["shouldbuild-duplicate-skipped"] > 50*nsb {
				break
			}
			continue
		}
		seen[string(c)] = true
		contents = append(contents, c)
		tsets = append(tsets, genSBTagSets(r))
	}
	cases = make([]string, len(contents))
	for i, c := range contents {
		cases[i] = "shouldm " + corr.Hx(c) + " " + encTagSets(tsets[i])
	}
	out, err = mdl.Run(model, nil, cases, 0)
	if err != nil {
		res.DisagreeFor(p19, "<driver>", "", err.Error())
		return nontrivial
	}
	for i, c := range contents {
		impl := make([]byte, len(tsets[i]))
		nb := 0
		for j, ts := range tsets[i] {
			got := imports.ShouldBuild(c, tagMap(ts))
			impl[j] = tf(got)
			nb = max(nb, shouldBuildOracle(res, c, ts, got))
			if !got {
				res.Distribution["shouldbuild-false"]++
			} else {
				res.Distribution["shouldbuild-true"]++
			}
		}
		if string(impl) != out[i] {
			for j, ts := range tsets[i] {
				if j >= len(out[i]) || out[i][j] != impl[j] {
					m := "?"
					if j < len(out[i]) {
						m = out[i][j : j+1]
					}
					res.DisagreeFor(p19, "should "+corr.Hx(c)+" "+encTags(ts), string(impl[j:j+1]), m)
					break
				}
			}
		}
		res.Evaluations += len(tsets[i])
		if nb > 0 {
			nontrivial += len(tsets[i])
			res.Distribution[fmt.Sprintf("shouldbuild-block-with-%d-build-lines", min(nb, 3))]++
		} else {
			res.Distribution["shouldbuild-block-without-build-lines"]++
		}
		if bytes.Contains(c, []byte("\r\n")) {
			res.Distribution["shouldbuild-crlf"]++
		}
		if nb > 0 && hasFFVTBlankLine(c) {
			res.Distribution["shouldbuild-with-formfeed/vtab-blank-line"]++
		}
		if nb > 0 && bytes.Contains(c, []byte("!linux")) {
			for _, ts := range tsets[i] {
				if tm := tagMap(ts); tm["android"] && !tm["linux"] && !tm["*"] {
					res.Distribution["shouldbuild-negated-linux-under-android-without-linux"]++
				}
			}
		}
	}
	res.Distribution["shouldbuild-contents"] = len(contents)
	res.Samples = append(res.Samples, map[string]string{"case": cases[len(cases)/2], "model": out[len(cases)/2]})
	return nontrivial
}

// ---------------------------------------------------------------- C18: ReadImports

var bomBytes = []byte{0xef, 0xbb, 0xbf}

func stripBOM(d []byte) []byte {
	if bytes.HasPrefix(d, bomBytes) {
		return d[3:]
	}
	return d
}

func errKind(err error) string {
	switch {
	case err == nil:
		return "none"
	case err.Error() == "syntax error":
		return "syntax"
	case strings.Contains(err.Error(), "NUL"):
		return "nul"
	}
	return "other:" + err.Error()
}

type readResult struct {
	imps     []string
	buf      []byte
	err      error
	panicked string
}

func implRead(d []byte, report bool) (rr readResult) {
	defer func() {
		if p := recover(); p != nil {
			rr.panicked = fmt.Sprint(p)
		}
	}()
	var imps []string
	buf, err := imports.ReadImports(bytes.NewReader(d), report, &imps)
	return readResult{imps: imps, buf: buf, err: err}
}

func implReadFrom(rd io.Reader, report bool) (rr readResult) {
	defer func() {
		if p := recover(); p != nil {
			rr.panicked = fmt.Sprint(p)
		}
	}()
	var imps []string
	buf, err := imports.ReadImports(rd, report, &imps)
	return readResult{imps: imps, buf: buf, err: err}
}

// smallChunks delivers at most n bytes per Read.
type smallChunks struct {
	r io.Reader
	n int
}

func (s smallChunks) Read(p []byte) (int, error) {
	if len(p) > s.n {
		p = p[:s.n]
	}
	return s.r.Read(p)
}

// chunkOracle: what ReadImports returns (imports, bytes, error kind) is a function of the input bytes, not of how
// the io.Reader happens to deliver them (one byte at a time, half of what is asked, 511-byte pieces, data together
// with EOF): "returns exactly the file's imports and a safe prefix ... returns only bytes read from the input".
func chunkOracle(res *corr.Result, d []byte) {
	res.OracleChecked["C18"]++
	res.Distribution["read-reader-chunking-compared"]++
	if len(d) > 4096 {
		res.Distribution["read-input-larger-than-bufio-buffer"]++
	}
	for k, report := range []bool{false, true} {
		base := implRead(d, report).line()
		for _, v := range []struct {
			name string
			rd   io.Reader
		}{
			{"one byte per Read", iotest.OneByteReader(bytes.NewReader(d))},
			{"half of the request per Read", iotest.HalfReader(bytes.NewReader(d))},
			{"511 bytes per Read", smallChunks{bytes.NewReader(d), 511}},
			{"data together with EOF", iotest.DataErrReader(bytes.NewReader(d))},
		} {
			if got := implReadFrom(v.rd, report).line(); got != base {
				res.Violate("C18", fmt.Sprintf("read %s %d", corr.Hx(d), k), "ReadImports depends on how the reader delivers the bytes ("+v.name+"): "+clip(got, 120)+" instead of "+clip(base, 120), "read-depends-on-reader-chunking")
				return
			}
		}
	}
}

func clip(s string, n int) string {
	if len(s) > n {
		return s[:n] + "…"
	}
	return s
}

func (rr readResult) line() string {
	if rr.panicked != "" {
		return "panic"
	}
	is := "_"
	if len(rr.imps) > 0 {
		hs := make([]string, len(rr.imps))
		for i, s := range rr.imps {
			hs[i] = corr.Hx([]byte(s))
		}
		is = strings.Join(hs, ",")
	}
	return "I=" + is + " B=" + corr.Hx(rr.buf) + " E=" + errKind(rr.err)
}

// parserImports: the import path literals go/parser sees (ImportsOnly), and whether it accepted.
// "invalid import path" complaints are about the path's characters, not syntax: tolerated.
func parserImports(src []byte, mode parser.Mode) (lits []string, ok bool) {
	fset := token.NewFileSet()
	f, err := parser.ParseFile(fset, "x.go", src, mode)
	if f == nil {
		return nil, false
	}
	if err != nil {
		var el scanner.ErrorList
		if !errors.As(err, &el) {
			return nil, false
		}
		for _, e := range el {
			if !strings.HasPrefix(e.Msg, "invalid import path") {
				return nil, false
			}
		}
	}
	for _, s := range f.Imports {
		lits = append(lits, s.Path.Value)
	}
	return lits, true
}

// normLit: go/scanner discards carriage returns from raw string literal values (Go spec, "String
// literals"); ReadImports returns the bytes as written and its consumer's strconv.Unquote drops them
// as well, so both denote the same path.  Literals are compared with CRs removed from raw strings.
func normLit(s string) string {
	if strings.HasPrefix(s, "`") {
		return strings.ReplaceAll(s, "\r", "")
	}
	return s
}

func eqStrs(a, b []string) bool {
	if len(a) != len(b) {
		return false
	}
	for i := range a {
		if normLit(a[i]) != normLit(b[i]) {
			return false
		}
	}
	return true
}

// ---- grammar-based generator of valid file headers

type hgen struct {
	r      *rand.Rand
	strict bool // false once something go/parser is known to refuse has been emitted
}

func (g *hgen) pick(ss ...string) string { return ss[g.r.Intn(len(ss))] }

var commentBodies = []string{"", " c", " import \"fake\"", " `", " \"", " /* ", " é世", " +build ignore", "*", " a * b / c", "/", " package q", "**", " (", " )", "***", "* *", " **", "/ *", "À"}

func (g *hgen) lineComment() string { return "//" + g.pick(commentBodies...) + "\n" }
func (g *hgen) blockComment(multiline bool) string {
	b := g.pick(commentBodies...)
	if multiline && g.r.Intn(2) == 0 {
		b += "\n" + g.pick(commentBodies...)
	}
	return "/*" + b + "*/"
}

// inline: white space that cannot end a statement.
func (g *hgen) inline(min int) string {
	var sb strings.Builder
	n := min + g.r.Intn(3)
	if g.r.Intn(2) == 0 && min == 0 {
		n = 0
	}
	for i := 0; i < n; i++ {
		switch k := g.r.Intn(10); {
		case k < 6:
			sb.WriteString(" ")
		case k < 8:
			sb.WriteString("\t")
		default:
			sb.WriteString(g.blockComment(false))
		}
	}
	return sb.String()
}

// anySp: white space incl. newlines and comments but no semicolon (legal wherever a token may follow).
func (g *hgen) anySp(min int) string {
	var sb strings.Builder
	n := min + g.r.Intn(3)
	for i := 0; i < n; i++ {
		switch k := g.r.Intn(12); {
		case k < 4:
			sb.WriteString(" ")
		case k < 6:
			sb.WriteString("\n")
		case k == 6:
			sb.WriteString("\r\n")
		case k == 7:
			sb.WriteString("\t")
		case k < 10:
			sb.WriteString(g.lineComment())
		default:
			sb.WriteString(g.blockComment(true))
		}
	}
	return sb.String()
}

// term: statement terminator (newline, semicolon or line comment) with optional space around.
func (g *hgen) term() string {
	t := g.pick("\n", "\n", "\n", ";", ";\n", "\r\n", "\n\n", " ; ")
	if g.r.Intn(4) == 0 {
		t = g.lineComment()
	}
	pre := g.inline(0)
	post := ""
	if g.r.Intn(3) == 0 {
		post = g.anySp(0)
	}
	return pre + t + post
}

// π (cf 80), À (c3 80), 一 (e4 b8 80), aĀb (c4 80), Ѐ (d0 80): UTF-8 encodings with a 0x80 byte (the lowest non-ASCII byte value)
var identPool = []string{"p", "main", "imports", "x1", "_x", "π", "世界", "P_2", "i", "importx", "packagex", "imp", "é", "À", "一", "aĀb", "Ѐ"}
var pathPool = []string{"a", "fmt", "os/exec", "github.com/x/y-z", "a.b/c_d", "é/世", "C", "x~y", "import", "a+b", "golang.org/x/tools/go/packages"}

func (g *hgen) pathLit() string {
	p := g.pick(pathPool...)
	switch k := g.r.Intn(10); {
	case k < 3:
		return "`" + p + "`"
	case k < 8:
		return `"` + p + `"`
	case k == 8: // escapes that decode to path characters
		var sb strings.Builder
		sb.WriteString(`"`)
		for i := 0; i < len(p); i++ {
			c := p[i]
			if c < 0x80 && g.r.Intn(3) == 0 {
				sb.WriteString(g.pick(fmt.Sprintf(`\x%02x`, c), fmt.Sprintf(`\%03o`, c), fmt.Sprintf(`\u%04x`, c), fmt.Sprintf(`\U%08x`, c)))
			} else {
				sb.WriteByte(c)
			}
		}
		sb.WriteString(`"`)
		return sb.String()
	default: // legal string literals that are not legal import paths (parser: "invalid import path")
		return g.pick(`"a\"b"`, `"a\\b"`, `""`, "``", `"a b"`, "`a\\`", `"\\"`, `"a\tb"`, "`a\"b`", "`a\r\nb`", `"a'b"`, `"\\\\"`, `"\"`+`"`)
	}
}

func (g *hgen) spec() (src string, lit string) {
	lit = g.pathLit()
	switch k := g.r.Intn(10); {
	case k < 5:
		return lit, lit
	case k < 7:
		return g.pick(identPool...) + g.inline(0) + lit, lit
	case k == 7:
		return "_" + g.inline(0) + lit, lit
	case k == 8:
		return "." + g.inline(0) + lit, lit
	default:
		return "." + g.anySp(0) + lit, lit // no automatic semicolon after '.'
	}
}

var tailDecls = []string{
	"func f() {}\n", "var x = \"import\"\n", "const c = `import \"fake\"`\n", "type T struct{}\n", "func main() { println(\"hi\") }\n",
	"var (\n\ti = 1\n)\n", "const i = iota\n", "type import_ int\n", "func init() { /* import \"z\" */ }\n", "var _ = '\"'\n", "type i interface{}\n",
	"func (t T) import2() {}\n", "var s = \"\\\"\"\n", "const (\n\tc0 = `\n\"`\n)\n",
}

// header generates: [BOM] sp "package" sp ident { term importDecl } then a tail of declarations
// (or end of input).  Returns the source and the import literals in order.
func (g *hgen) header() (src []byte, want []string, hasBOM bool) {
	var sb strings.Builder
	if g.r.Intn(5) == 0 {
		sb.Write(bomBytes)
		hasBOM = true
	}
	if g.r.Intn(2) == 0 {
		sb.WriteString(g.anySp(0))
	}
	if g.r.Intn(6) == 0 {
		sb.WriteString("// +build linux\n\n")
	}
	sb.WriteString("package")
	if g.r.Intn(4) == 0 {
		sb.WriteString(g.anySp(1))
	} else {
		sb.WriteString(g.inline(1))
	}
	sb.WriteString(g.pick(identPool...))
	ndecl := g.r.Intn(4)
	if g.r.Intn(3) == 0 {
		ndecl = 1
	}
	for i := 0; i < ndecl; i++ {
		sb.WriteString(g.term())
		sb.WriteString("import")
		if g.r.Intn(3) == 0 { // grouped
			sb.WriteString(g.anySp(0))
			sb.WriteString("(")
			n := g.r.Intn(4)
			for j := 0; j < n; j++ {
				sb.WriteString(g.anySp(0))
				s, lit := g.spec()
				sb.WriteString(s)
				want = append(want, lit)
				if j < n-1 || g.r.Intn(2) == 0 {
					sb.WriteString(g.term())
				}
			}
			sb.WriteString(g.anySp(0))
			sb.WriteString(")")
		} else {
			s, lit := g.spec()
			c := s[0]
			sep := g.anySp(0)
			if c != '"' && c != '`' && c != '.' && sep == "" {
				sep = " "
			}
			if g.r.Intn(2) == 0 && sep == "" && c != '_' {
				sep = ""
			}
			sb.WriteString(sep)
			sb.WriteString(s)
			want = append(want, lit)
		}
	}
	switch k := g.r.Intn(10); {
	case k == 0: // end of input right after the header
	case k == 1:
		sb.WriteString(g.pick("\n", " ", "\n\n", ";", "\n// end", "\n// end\n", " /* end */", "\r\n"))
	default:
		sb.WriteString(g.term())
		n := 1 + g.r.Intn(3)
		for i := 0; i < n; i++ {
			sb.WriteString(g.pick(tailDecls...))
		}
		if g.r.Intn(6) == 0 {
			sb.WriteString(g.pick("import \"late\"\n", "}}}", "\x00", "/* open", "\"open", "`open"))
		}
	}
	return []byte(sb.String()), want, hasBOM
}

var malformedAlphabet = []byte("pkgimort \"(`)/*\n;._\\\x00x")
var corruptBytes = []byte{0, '"', '`', '/', '*', '\n', '(', ')', 'i', ';', '\\', ' ', 0xff, '.', '_', 'x'}

func (g *hgen) malformed() []byte {
	r := g.r
	switch k := r.Intn(10); {
	case k < 2: // random bytes over a small relevant alphabet
		n := r.Intn(24)
		b := make([]byte, n)
		for i := range b {
			b[i] = malformedAlphabet[r.Intn(len(malformedAlphabet))]
		}
		if r.Intn(2) == 0 {
			b = append([]byte("package p\nimport "), b...)
		}
		return b
	case k == 2: // uniformly random bytes
		n := r.Intn(20)
		b := make([]byte, n)
		for i := range b {
			b[i] = byte(r.Intn(256))
		}
		return b
	}
	src, _, _ := g.header()
	if len(src) == 0 {
		return src
	}
	switch k := r.Intn(9); k {
	case 7, 8: // drop or insert one string quote: an unterminated literal followed by further lines with quotes
		var qs []int
		for i, c := range src {
			if c == '"' || c == '`' {
				qs = append(qs, i)
			}
		}
		if len(qs) == 0 {
			return append(append([]byte{}, src...), g.pick("\nimport \"fmt\nimport \"os\"\nvar x = 1\n", "\nimport `fmt\nimport `os`\n")...)
		}
		i := qs[r.Intn(len(qs))]
		if r.Intn(3) == 0 { // swap the quote kind instead
			b := append([]byte{}, src...)
			if b[i] == '"' {
				b[i] = '`'
			} else {
				b[i] = '"'
			}
			return b
		}
		return append(append([]byte{}, src[:i]...), src[i+1:]...)
	case 0, 1: // truncation
		return src[:r.Intn(len(src)+1)]
	case 2, 3: // single byte corruption
		b := append([]byte{}, src...)
		b[r.Intn(len(b))] = corruptBytes[r.Intn(len(corruptBytes))]
		return b
	case 4: // insertion
		i := r.Intn(len(src) + 1)
		b := append([]byte{}, src[:i]...)
		b = append(b, corruptBytes[r.Intn(len(corruptBytes))])
		return append(b, src[i:]...)
	case 5: // deletion
		i := r.Intn(len(src))
		return append(append([]byte{}, src[:i]...), src[i+1:]...)
	default: // unterminated comment / string spliced in
		i := r.Intn(len(src) + 1)
		return append(append([]byte{}, src[:i]...), g.pick("/*", "\"", "`", "//", "/", "import (", "import")...)
	}
}

var tokAlphabet = []string{"package", "import", "x", ".", "(", ")", ";", "\n", `"s"`, "`r`", "//c\n", "/*c*/", "\xef\xbb\xbf"}

func enumTokens(maxLen int, f func([]byte)) {
	var rec func(prefix []string)
	rec = func(prefix []string) {
		if len(prefix) > 0 {
			f([]byte(strings.Join(prefix, " ")))
			f([]byte(strings.Join(prefix, "")))
		}
		if len(prefix) == maxLen {
			return
		}
		for _, t := range tokAlphabet {
			rec(append(prefix, t))
		}
	}
	rec(nil)
}

type posMsg struct {
	off int
	msg string
}

// headerParse: go/parser (ImportsOnly) on src: all errors and all import literals with their offsets.
func headerParse(src []byte) (errs []posMsg, lits []posMsg) {
	fset := token.NewFileSet()
	f, err := parser.ParseFile(fset, "x.go", src, parser.ImportsOnly)
	if err != nil {
		var el scanner.ErrorList
		if errors.As(err, &el) {
			for _, e := range el {
				errs = append(errs, posMsg{e.Pos.Offset, e.Msg})
			}
		} else {
			errs = append(errs, posMsg{-1, err.Error()})
		}
	}
	if f != nil {
		for _, s := range f.Imports {
			if s.Path != nil {
				lits = append(lits, posMsg{fset.Position(s.Path.Pos()).Offset, s.Path.Value})
			}
		}
	}
	return errs, lits
}

func before(xs []posMsg, n int) []posMsg {
	var out []posMsg
	for _, x := range xs {
		if x.off < n {
			out = append(out, x)
		}
	}
	return out
}

func eqPosMsgs(a, b []posMsg) bool {
	if len(a) != len(b) {
		return false
	}
	for i := range a {
		if a[i].off != b[i].off || normLit(a[i].msg) != normLit(b[i].msg) {
			return false
		}
	}
	return true
}

// prefixReparseOracle — the arbitrary-bytes clause: whenever ReadImports(I, reportSyntaxError=false)
// returns (P, nil) with P a proper prefix of I (BOM aside), a parse of P must tell the same story as a
// parse of I as far as P reaches: errors or not, the same first error (position and message) and the same import literals
// at offsets inside P; and when go/parser accepts I's header, the parser's list starts ReadImports' list.
// Errors and tokens at or beyond len(P) are out of scope: ReadImports stops at the first byte of what
// follows the imports and is deliberately lax about it (as go/build's reader is).
func prefixReparseOracle(res *corr.Result, in string, body []byte, r0 readResult) {
	if r0.err != nil || bytes.Equal(r0.buf, body) || !bytes.HasPrefix(body, r0.buf) {
		return
	}
	res.Distribution["read-proper-prefix-returned"]++
	p := r0.buf
	errsI, litsI := headerParse(body)
	errsP, litsP := headerParse(p)
	n := len(p)
	eI, eP := before(errsI, n), before(errsP, n)
	lI, lP := before(litsI, n), before(litsP, n)
	switch {
	case (len(eI) > 0) != (len(eP) > 0):
		res.Violate("C18", in, fmt.Sprintf("returned prefix (%d of %d bytes, nil error): parse of the prefix has errors inside it = %v, parse of the input = %v", n, len(body), len(eP) > 0, len(eI) > 0), "prefix-reparse-differs")
	case len(eI) > 0 && !eqPosMsgs(eI[:1], eP[:1]):
		// Only the first error is compared: ReadImports' escape branch swallows a newline after a backslash
		// (as go/build's reader does), so for `import "a\<NL>"b"` the prefix ends with the quote that
		// opens the Go token "b": the parse of the prefix then has one more error, at its very last byte
		// ("string literal not terminated"), after the same first error.
		res.Violate("C18", in, fmt.Sprintf("returned prefix (%d of %d bytes, nil error): first error inside the prefix differs: input %v, prefix %v", n, len(body), eI[0], eP[0]), "prefix-reparse-differs")
	case !eqPosMsgs(lI, lP):
		res.Violate("C18", in, fmt.Sprintf("returned prefix (%d of %d bytes, nil error): import literals inside the prefix differ: input %q, prefix %q", n, len(body), lI, lP), "prefix-reparse-differs")
	case len(errsI) == 0:
		var want []string
		for _, l := range litsI {
			want = append(want, l.msg)
		}
		// ReadImports treats ';' as white space (as go/build's reader does), so after an empty statement
		// (`import "a";;import "b"`, not valid Go, but ImportsOnly does not complain: it just stops) it
		// goes on where go/parser stops: the parser's list is then a proper prefix of ReadImports' list.
		// Equality is required (by the valid-file oracle) when the whole file parses.
		if len(want) > len(r0.imps) || !eqStrs(want, r0.imps[:len(want)]) {
			res.Violate("C18", in, fmt.Sprintf("go/parser accepts the header with imports %q, ReadImports reports %q", want, r0.imps), "prefix-reparse-differs")
		} else if len(want) < len(r0.imps) {
			res.Distribution["read-more-imports-than-importsonly-parser(empty-statement)"]++
		}
	}
}

// readOracle checks C18 on the implementation for one input; wantLits != nil when the generator knows the imports.
func readOracle(res *corr.Result, d []byte, wantLits []string, generatedValid bool) (nontrivial bool) {
	res.OracleChecked["C18"]++
	in := "read " + corr.Hx(d) + " 0"
	body := stripBOM(d)
	r0 := implRead(d, false)
	r1 := implRead(d, true)
	if r0.panicked != "" || r1.panicked != "" {
		res.Violate("C18", in, "ReadImports panics: "+r0.panicked+r1.panicked, "read-panic")
		return true
	}
	for _, rr := range []readResult{r0, r1} {
		if !bytes.HasPrefix(body, rr.buf) {
			class := "read-not-prefix"
			if bytes.HasPrefix(d, bomBytes) {
				class = "read-bom"
			}
			res.Violate("C18", in, "returned bytes are not a prefix of the input (byte-order mark aside)", class)
		}
	}
	if errKind(r1.err) == "syntax" {
		nontrivial = true
		res.Distribution["read-syntax-error"]++
		if bytes.IndexByte(body, 0) >= 0 {
			// a NUL byte is a hard error of its own ("unexpected NUL in input", reported whatever
			// reportSyntaxError says, as in go/build): the whole-input clause is about syntax errors only.
			res.Distribution["read-syntax-error-with-nul-exempt"]++
			if !(r0.err == nil && bytes.Equal(r0.buf, body)) && errKind(r0.err) != "nul" {
				res.Violate("C18", in, "syntax error not requested, input with NUL: neither the whole input nor the NUL error", "read-syntax-not-whole")
			}
		} else if r0.err != nil || !bytes.Equal(r0.buf, body) {
			class := "read-syntax-not-whole"
			if bytes.HasPrefix(d, bomBytes) && bytes.Equal(r0.buf, d) {
				class = "read-bom"
			}
			res.Violate("C18", in, fmt.Sprintf("syntax error not requested: want whole input and nil error, got %d of %d bytes, err=%v", len(r0.buf), len(body), r0.err), class)
		}
	}
	if errKind(r1.err) == "nul" {
		res.Distribution["read-nul-error"]++
	}
	prefixReparseOracle(res, in, body, r0)
	// agreement with go/parser whenever the file is valid Go (full parse) or was generated as valid
	_, fullOK := parserImports(d, parser.SkipObjectResolution)
	pl, impOK := parserImports(d, parser.ImportsOnly)
	if generatedValid && !impOK {
		// the generator is the grammar: it must only emit headers go/parser accepts
		res.Observations = append(res.Observations, "generator emitted a header go/parser (ImportsOnly) refuses: "+corr.Hx(d))
		res.Distribution["read-generator-refused-by-parser"]++
	}
	if (generatedValid || fullOK) && impOK {
		nontrivial = true
		res.Distribution["read-parser-consulted"]++
		if wantLits != nil && !eqStrs(wantLits, pl) {
			res.Observations = append(res.Observations, "generator's own import list differs from go/parser's: "+corr.Hx(d))
		}
		bomClass := func(c string) string {
			if bytes.HasPrefix(d, bomBytes) {
				return "read-bom"
			}
			return c
		}
		for _, rr := range []readResult{r0, r1} {
			if rr.err != nil {
				res.Violate("C18", in, "valid file, but ReadImports returns error "+rr.err.Error(), bomClass("read-valid-error"))
				break
			}
			if !eqStrs(rr.imps, pl) {
				res.Violate("C18", in, fmt.Sprintf("imports %q, go/parser %q", rr.imps, pl), bomClass("read-imports-differ"))
				break
			}
			pp, ok := parserImports(rr.buf, parser.ImportsOnly)
			if !ok || !eqStrs(pp, pl) {
				res.Violate("C18", in, fmt.Sprintf("returned prefix does not parse to the same imports: %q vs %q", pp, pl), bomClass("read-prefix-reparse"))
				break
			}
		}
		if len(pl) > 0 {
			res.Distribution["read-valid-with-imports"]++
		}
	}
	return nontrivial
}

// ioErrOracle: a reader failing after n bytes — no panic, returned bytes are what was read, error surfaces.
func ioErrOracle(res *corr.Result, d []byte, n int) {
	res.OracleChecked["C18"]++
	boom := errors.New("boom")
	func() {
		defer func() {
			if p := recover(); p != nil {
				res.Violate("C18", "read "+corr.Hx(d)+" 0", fmt.Sprintf("ReadImports panics on a failing reader after %d bytes: %v", n, p), "read-ioerr-panic")
			}
		}()
		var imps []string
		rd := io.MultiReader(bytes.NewReader(d[:n]), iotest.ErrReader(boom))
		buf, err := imports.ReadImports(rd, false, &imps)
		if !bytes.HasPrefix(stripBOM(d[:n]), buf) && !bytes.HasPrefix(d[:n], buf) {
			res.Violate("C18", "read "+corr.Hx(d)+" 0", "failing reader: returned bytes were not read from the input", "read-ioerr-prefix")
		}
		_ = err
	}()
}

// ---------------------------------------------------------------- C18: history oracle (a result must not change after the call returned)
//
// "returns only bytes read from the input": the slice ReadImports hands back (and the import literals it
// appended) are the caller's; scanFiles passes them on to ShouldBuild / strconv.Unquote, other callers keep
// them.  A result that is later overwritten by a call on another file (storage recycled through a pool, a
// package-level scratch buffer, strings made from such a buffer without copying) no longer holds bytes of
// its own input.  The oracle runs short sequences of ReadImports / ReadComments calls, keeps every result
// WITHOUT copying it next to a private copy taken at once, and compares the two after the later calls
// of the sequence - first from one goroutine (deterministic), then while several goroutines run the same
// calls concurrently.  A case is `readseq <item>,<item>,... <lanes>` with item = <hex input>:<mode>,
// mode 0/1 = ReadImports(reportSyntaxError=false/true), c = ReadComments.
//
// Only changes of ReadImports results are violations (the property speaks of ReadImports); ReadComments
// calls take part as later calls, and a change of one of their results is recorded as an observation.

type seqItem struct {
	d    []byte
	mode byte // '0', '1', 'c'
}

// keptRead is one call's result: the very slice / list that was returned, and private copies.
type keptRead struct {
	pos, pass int
	item      seqItem
	buf       []byte
	bufCopy   []byte
	imps      []string
	impsCopy  []string
	errKind   string
	panicked  bool
}

func cloneStr(s string) string { return string(append([]byte(nil), s...)) }

func callKeep(it seqItem, pos, pass int) (k keptRead) {
	k.pos, k.pass, k.item = pos, pass, it
	defer func() {
		if p := recover(); p != nil {
			k = keptRead{pos: pos, pass: pass, item: it, panicked: true, errKind: "panic"}
		}
	}()
	var buf []byte
	var imps []string
	var err error
	if it.mode == 'c' {
		buf, err = imports.ReadComments(bytes.NewReader(it.d))
	} else {
		buf, err = imports.ReadImports(bytes.NewReader(it.d), it.mode == '1', &imps)
	}
	k.buf, k.imps, k.errKind = buf, imps, errKind(err)
	k.bufCopy = append([]byte(nil), buf...)
	k.impsCopy = make([]string, len(imps))
	for i, s := range imps {
		k.impsCopy[i] = cloneStr(s)
	}
	return k
}

// changed: "" while the kept result still equals its copy.
func (k *keptRead) changed() string {
	if !bytes.Equal(k.buf, k.bufCopy) {
		off := 0
		for off < len(k.buf) && k.buf[off] == k.bufCopy[off] {
			off++
		}
		lo, hi := max(0, off-8), min(len(k.buf), off+24)
		return fmt.Sprintf("the %d bytes returned differ from what they were when the call returned, first at offset %d: then %q, now %q", len(k.buf), off, k.bufCopy[lo:hi], k.buf[lo:hi])
	}
	if len(k.imps) != len(k.impsCopy) {
		return "the import list changed its length"
	}
	for i := range k.imps {
		if k.imps[i] != k.impsCopy[i] {
			return fmt.Sprintf("import literal #%d was %q when the call returned, now %q", i, k.impsCopy[i], k.imps[i])
		}
	}
	return ""
}

func encSeq(seq []seqItem) string {
	ss := make([]string, len(seq))
	for i, it := range seq {
		ss[i] = corr.Hx(it.d) + ":" + string(it.mode)
	}
	return strings.Join(ss, ",")
}

func seqCase(seq []seqItem, lanes int) string {
	return "readseq " + encSeq(seq) + " " + strconv.Itoa(lanes)
}

func decSeqCase(c string) (seq []seqItem, lanes int, ok bool) {
	defer func() {
		if recover() != nil {
			ok = false
		}
	}()
	f := strings.Split(c, " ")
	if len(f) != 3 || f[0] != "readseq" {
		return nil, 0, false
	}
	for _, s := range strings.Split(f[1], ",") {
		i := strings.IndexByte(s, ':')
		if i < 0 || len(s) != i+2 || strings.IndexByte("01c", s[i+1]) < 0 {
			return nil, 0, false
		}
		seq = append(seq, seqItem{corr.Unhx(s[:i]), s[i+1]})
	}
	lanes, err := strconv.Atoi(f[2])
	return seq, lanes, err == nil && lanes >= 0 && lanes <= 16
}

// historyPasses: the sequence is run this many times in a row before the kept results are compared, so
// that a replay in a fresh process meets recycled storage that has already grown to its final size.
const historyPasses = 3

type historyVerdict struct {
	what, class     string // violation ("" = none)
	culprit         int    // sequence position of the changed result
	commentsChanged bool
	calls           int
}

func describeItem(k *keptRead) string {
	fn := "ReadImports(reportSyntaxError=" + boolStr(k.item.mode == '1') + ")"
	if k.item.mode == 'c' {
		fn = "ReadComments"
	}
	return fmt.Sprintf("%s on item #%d of the sequence (%d input bytes, run %d of %d)", fn, k.pos, len(k.item.d), k.pass+1, historyPasses)
}

// firstChanged looks through kept results; ReadComments results only set the flag.
func firstChanged(kept []keptRead, v *historyVerdict, when string) bool {
	for i := range kept {
		k := &kept[i]
		ch := k.changed()
		if ch == "" {
			continue
		}
		if k.item.mode == 'c' {
			v.commentsChanged = true
			continue
		}
		v.what = "result of " + describeItem(k) + " changed " + when + ": " + ch + " (a result must hold bytes read from its own input; it aliases storage reused by other calls)"
		v.class = "result-aliased"
		v.culprit = k.pos
		return true
	}
	return false
}

// historyRun runs the sequence (historyPasses times, one goroutine), compares; then, with lanes > 0, lets
// that many goroutines run the same calls (each starting at another item) and compares again: the results
// kept by this goroutine, the results kept by each lane, and each lane's results against the sequential
// ones for the same item (ReadImports is a function of its input alone).
func historyRun(seq []seqItem, lanes int) (v historyVerdict) {
	var kept []keptRead
	for pass := 0; pass < historyPasses; pass++ {
		for i, it := range seq {
			kept = append(kept, callKeep(it, i, pass))
		}
	}
	v.calls = len(kept)
	if firstChanged(kept, &v, "after the later calls of the sequence (single goroutine)") {
		return v
	}
	if lanes <= 0 {
		return v
	}
	var wg sync.WaitGroup
	lv := make([]historyVerdict, lanes)
	for l := 0; l < lanes; l++ {
		wg.Add(1)
		go func(l int) {
			defer wg.Done()
			var own []keptRead
			for pass := 0; pass < historyPasses; pass++ {
				for i := range seq {
					pos := (i + l + 1) % len(seq)
					own = append(own, callKeep(seq[pos], pos, pass))
					if i%2 == l%2 {
						runtime.Gosched()
					}
				}
			}
			if firstChanged(own, &lv[l], fmt.Sprintf("while %d goroutines ran the sequence concurrently (result kept by one of them)", lanes)) {
				return
			}
			for i := range own {
				k, ref := &own[i], &kept[own[i].pos] // first sequential run of the same item
				if k.item.mode == 'c' {
					continue
				}
				if k.errKind != ref.errKind || !bytes.Equal(k.bufCopy, ref.bufCopy) || strings.Join(k.impsCopy, "\x00") != strings.Join(ref.impsCopy, "\x00") {
					lv[l].what = fmt.Sprintf("%s gives another result when %d goroutines run the sequence concurrently than when called alone: %d bytes, imports %q, error %s; alone %d bytes, imports %q, error %s",
						describeItem(k), lanes, len(k.bufCopy), k.impsCopy, k.errKind, len(ref.bufCopy), ref.impsCopy, ref.errKind)
					lv[l].class = "concurrent-result-differs"
					lv[l].culprit = k.pos
					return
				}
			}
		}(l)
	}
	wg.Wait()
	v.calls += lanes * len(kept)
	if firstChanged(kept, &v, fmt.Sprintf("while %d goroutines ran the sequence concurrently", lanes)) {
		return v
	}
	for l := range lv {
		v.commentsChanged = v.commentsChanged || lv[l].commentsChanged
		if lv[l].what != "" && v.what == "" {
			v.what, v.class, v.culprit = lv[l].what, lv[l].class, lv[l].culprit
		}
	}
	return v
}

// historyOracle runs one sequence and reports; on a failure of the deterministic (single goroutine) part it
// first looks for a two-item sequence that fails as well, to report the shorter case.
func historyOracle(res *corr.Result, seq []seqItem, lanes int, shrink bool) bool {
	res.OracleChecked["C18"]++
	v := historyRun(seq, lanes)
	res.Evaluations += v.calls
	if v.commentsChanged {
		res.Distribution["history-readcomments-result-changed(observation-only)"]++
		if res.Distribution["history-readcomments-result-changed(observation-only)"] == 1 {
			res.Observations = append(res.Observations, "a slice returned by ReadComments changed after later calls (not a C18 violation by itself: the property speaks of ReadImports): "+seqCase(seq, lanes))
		}
	}
	if v.what == "" {
		return true
	}
	if shrink && v.class == "result-aliased" && len(seq) > 2 {
		for j := range seq {
			if j == v.culprit {
				continue
			}
			pair := []seqItem{seq[v.culprit], seq[j]}
			if w := historyRun(pair, 0); w.class == "result-aliased" {
				res.Violate("C18", seqCase(pair, 0), w.what, w.class)
				return false
			}
		}
	}
	res.Violate("C18", seqCase(seq, lanes), v.what, v.class)
	return false
}

// realGoFiles lists .go files under $VERIF_REPO (default /repo) and, in the thorough tier, under GOROOT/src,
// in sorted order (deterministic); testdata directories included: they hold odd but legal headers.
func realGoFiles(tier string) []string {
	roots := []string{os.Getenv("VERIF_REPO")}
	if roots[0] == "" {
		roots[0] = "/repo"
	}
	limit := 400
	if tier == "thorough" {
		roots = append(roots, filepath.Join(runtime.GOROOT(), "src"))
		limit = 12000
	}
	var files []string
	for _, root := range roots {
		n := 0
		if r, err := filepath.EvalSymlinks(root); err == nil {
			root = r
		}
		filepath.WalkDir(root, func(p string, d fs.DirEntry, err error) error {
			if err != nil {
				return nil
			}
			if d.IsDir() && (d.Name() == ".git" || d.Name() == "node_modules") {
				return filepath.SkipDir
			}
			if !d.IsDir() && strings.HasSuffix(p, ".go") && n < limit {
				files = append(files, p)
				n++
			}
			return nil
		})
	}
	sort.Strings(files)
	return files
}

// runHistory: the history oracle over sequences drawn from the inputs of this run, then the long-range check.
func runHistory(res *corr.Result, r *rand.Rand, tier string, n int, input func(int) []byte, longKept []keptRead) {
	windows := 600
	if tier == "thorough" {
		windows = 6000
	}
	pickMode := func() byte {
		switch k := r.Intn(10); {
		case k < 5:
			return '0'
		case k < 8:
			return '1'
		}
		return 'c'
	}
	for w := 0; w < windows && n > 0; w++ {
		var seq []seqItem
		ln := 2 + r.Intn(4)
		base := r.Intn(n)
		for len(seq) < ln {
			i := r.Intn(n)
			if r.Intn(3) == 0 { // a neighbour: a similar input (same generator, often a shared start)
				i = (base + len(seq)) % n
			}
			it := seqItem{input(i), pickMode()}
			if len(seq) == 0 {
				it.mode = "01"[r.Intn(2)] // the first result kept is a ReadImports one
			}
			seq = append(seq, it)
		}
		lanes := 0
		if w%4 == 0 {
			lanes = 2 + r.Intn(3)
			res.Distribution["history-sequences-with-concurrent-lanes"]++
			res.Distribution["history-concurrent-lanes"] += lanes
		}
		for _, it := range seq {
			if it.mode == 'c' {
				res.Distribution["history-readcomments-items"]++
			} else {
				res.Distribution["history-readimports-items"]++
			}
		}
		res.Distribution["history-sequences"]++
		res.Distribution["history-results-kept-and-rechecked"] += historyPasses * len(seq) * (1 + lanes)
		historyOracle(res, seq, lanes, true)
	}
	// long range: results of the comparison calls, after everything else this run did
	res.Distribution["history-long-range-results-kept"] = len(longKept)
	nbad := 0
	for i := range longKept {
		k := &longKept[i]
		ch := k.changed()
		if ch == "" {
			continue
		}
		if nbad++; nbad > 3 {
			break
		}
		res.OracleChecked["C18"]++
		seq := []seqItem{k.item}
		for j := 1; j <= 2 && k.pos+j < n; j++ {
			seq = append(seq, seqItem{input(k.pos + j), '0'}, seqItem{input(k.pos + j), '1'})
		}
		if historyOracle(res, seq, 0, true) { // the short sequence does not reproduce it: report what was seen
			res.Violate("C18", seqCase(seq, 0), fmt.Sprintf("result of ReadImports on item #0, kept since the comparison run (input %d of %d), changed by the end of the run: %s (the short sequence given here did not reproduce it in-process)", k.pos, n, ch), "result-aliased")
		}
	}
}

// commentAttached: a comment opener directly after an identifier/keyword byte or a closing quote.
func commentAttached(d []byte) bool {
	for i := 1; i+1 < len(d); i++ {
		if d[i] == '/' && (d[i+1] == '/' || d[i+1] == '*') {
			if c := d[i-1]; isWordByte(c) || c == '"' || c == '`' {
				return true
			}
		}
	}
	return false
}

func isWordByte(c byte) bool {
	return c >= 'a' && c <= 'z' || c >= 'A' && c <= 'Z' || c >= '0' && c <= '9' || c == '_' || c >= 0x80
}

func runC18(res *corr.Result, r *rand.Rand, tier, model string) int {
	g := &hgen{r: r}
	type rcase struct {
		d     []byte
		want  []string
		valid bool
	}
	var cs []rcase
	seen := map[string]bool{}
	add := func(d []byte, want []string, valid bool) {
		if seen[string(d)] {
			return
		}
		seen[string(d)] = true
		cs = append(cs, rcase{append([]byte{}, d...), want, valid})
	}
	// corpus: witnesses of past findings first
	add([]byte("\xef\xbb\xbfpackage p\nimport \"a\"\nfunc f() {}\n"), []string{`"a"`}, true)
	add([]byte("\xef\xbb\xbfpackage p\n\nimport (\n\t\"a\"\n\tb `c`\n)\n"), []string{`"a"`, "`c`"}, true)
	add([]byte("package p\nimport `a\r\nb`\nfunc f() {}\n"), nil, false) // CR inside a raw literal: go/scanner drops it from the value
	add([]byte("\xef\xbb\xbf"), nil, false)
	add([]byte("\xef\xbb"), nil, false)
	add([]byte("package p\nimport \"a\"\nimport . \"b\"\nimport _ `c`\nimport x \"d\"\nvar v int\n"), []string{`"a"`, `"b"`, "`c`", `"d"`}, true)
	for _, s := range []string{
		// regression inputs of the repaired backslash-newline defect (escaped newline inside an interpreted literal)
		"package i\nimport.\"a+b\\\nimport\"\";\nconst c = 1\n", "package p\nimport \"a\\\n\"b\"\nvar x = 1\n",
		"package p\nimport \"fmt\nimport \"os\"\nvar x = 1\n", "package p\nimport `fmt\nimport `os`\nvar x = 1\n",
		"package p\nimport (\n\t\"fmt\n\t\"os\"\n)\nvar x = \"y\"\n", "package p\nimport \"a\\\n\"\nvar x = 1\n", "package p\nimport \"a\nimport \"b\nimport \"c\"\nfunc f() {}\n",
		"package p\nimport x \"fmt\n\"os\"\n", "package _x\nimport\r\n\"a\\\n\"b\"\nvar (\n\ti = 1\n)\n", "package p\nimport \"a\" var x = 1\n", "package p import \"a\"\nvar x = 1\n", "package p\nimport \"a\"\n$\n",
	} {
		add([]byte(s), nil, false)
	}
	for _, s := range []string{"", "package", "package p", "package p;import", "package p\nimport(", "package p\nimport \"a", "package p\nimport `a", "package p /*", "package p //", "package p\x00", "package p\nimport \"a\\", "package p\nimport \"a\n\"", "x", "package p\nimport \"a\"\nimport", "package p\nimport . . \"a\"", "package p import \"a\"", "package pimport \"a\"", "package p;import\"a\";import`b`;import(\"c\");func"} {
		add([]byte(s), nil, false)
	}
	// inputs larger than bufio's 4096-byte buffer: long // and /* */ comments before and inside the import section
	// (valid files), and broken headers with a long tail (the whole input must come back when syntax errors are
	// not requested) - seeded C18-m11 (comment skipped in bulk from the buffer), C18-m12 (tail read in blocks)
	for _, n := range []int{4000, 4093, 4094, 4095, 4096, 4097, 4100, 8190, 8192, 8195, 9000} {
		long := strings.Repeat("x", n)
		add([]byte("package p\n// "+long+"\nimport \"a\"\nvar v = 1\n"), []string{`"a"`}, true)
		add([]byte("package p\n// "+long+" import \"bogus\"\nimport \"a\"\nimport (\n\t\"b\" // "+long+" \"c\"\n)\nvar v = 1\n"), []string{`"a"`, `"b"`}, true)
		add([]byte("// "+long+"\npackage p\n/* "+long+" */ import \"a\"\nfunc f() {}\n"), []string{`"a"`}, true)
		add([]byte("package p\nimport (\n\t\"a\"\n\t!!!\n)\n// "+long+"\nvar tail = `"+long+"`\n"), nil, false)
		add([]byte("package p\nimport \"a\" $ "+long+"\n"+long+"\n"), nil, false)
	}
	nvalid, nmal, tokLen := 15000, 15000, 4
	if tier == "thorough" {
		nvalid, nmal, tokLen = 500000, 500000, 5
	}
	enumTokens(tokLen, func(b []byte) { add(b, nil, false) })
	nEnum := len(cs)
	for i := 0; i < nvalid; i++ {
		src, want, _ := g.header()
		add(src, want, true)
	}
	for i := 0; i < nmal; i++ {
		add(g.malformed(), nil, false)
	}
	// real files: /repo's own sources (quick) and the toolchain's standard library (thorough)
	nReal := 0
	for _, f := range realGoFiles(tier) {
		d, err := os.ReadFile(f)
		if err != nil || len(d) > 1<<17 {
			continue
		}
		before := len(cs)
		add(d, nil, false)
		nReal += len(cs) - before
	}
	res.Distribution["read-real-go-files"] = nReal
	cases := make([]string, 0, 2*len(cs))
	for _, c := range cs {
		h := corr.Hx(c.d)
		cases = append(cases, "read "+h+" 0", "read "+h+" 1")
	}
	out, err := mdl.Run(model, nil, cases, 0)
	if err != nil {
		res.DisagreeFor(p18, "<driver>", "", err.Error())
		return 0
	}
	nontrivial := 0
	var longKept []keptRead // long-range history: results of the comparison calls themselves, looked at again at the very end
	for i, c := range cs {
		for k, report := range []bool{false, true} {
			rr := implRead(c.d, report)
			impl := rr.line()
			if impl != out[2*i+k] {
				res.DisagreeFor(p18, cases[2*i+k], impl, out[2*i+k])
			}
			if i%8 == 3*k && rr.panicked == "" && len(rr.buf) > 0 {
				kr := keptRead{pos: i, item: seqItem{c.d, "01"[k]}, buf: rr.buf, bufCopy: append([]byte(nil), rr.buf...), imps: rr.imps, errKind: errKind(rr.err)}
				for _, s := range rr.imps {
					kr.impsCopy = append(kr.impsCopy, cloneStr(s))
				}
				longKept = append(longKept, kr)
			}
		}
		if readOracle(res, c.d, c.want, c.valid) {
			nontrivial++
		}
		if i%16 == 5 || len(c.d) > 2048 {
			chunkOracle(res, c.d)
		}
		if c.valid {
			res.Distribution["read-generated-valid"]++
			if bytes.HasPrefix(c.d, bomBytes) {
				res.Distribution["read-generated-valid-with-bom"]++
			}
			res.Distribution[fmt.Sprintf("read-generated-imports=%d", min(len(c.want), 5))]++
			if bytes.IndexByte(c.d, 0x80) >= 0 {
				res.Distribution["read-generated-valid-with-0x80-byte(identifier/comment/path)"]++
			}
			if bytes.Contains(c.d, []byte("**/")) {
				res.Distribution["read-generated-valid-block-comment-ending-in-star-run"]++
			}
			if commentAttached(c.d) {
				res.Distribution["read-generated-valid-comment-attached-to-word-or-literal"]++
			}
		}
		if i%50 == 0 && len(c.d) > 0 {
			ioErrOracle(res, c.d, r.Intn(len(c.d)+1))
		}
	}
	res.Evaluations += len(cases)
	runHistory(res, r, tier, len(cs), func(i int) []byte { return cs[i].d }, longKept)
	res.Distribution["read-inputs"] = len(cs)
	res.Distribution["read-token-sequences-enumerated"] = nEnum
	if es, ok := res.Extra["exhaustive_spaces"].([]string); ok {
		res.Extra["exhaustive_spaces"] = append(es, fmt.Sprintf("ReadImports: all sequences of 1..%d tokens from %q, joined by a blank and joined directly", tokLen, tokAlphabet))
	}
	mid := 2 * (nEnum + nvalid/2)
	if mid < len(cases) {
		res.Samples = append(res.Samples, map[string]string{"case": cases[mid], "model": out[mid]})
	}
	res.Samples = append(res.Samples, map[string]string{"case": cases[0], "model": out[0]})
	return nontrivial
}

// replayOne runs a single case line (as stored in Violation.Input / Disagreement.Case).
func replayOne(res *corr.Result, model, c string) {
	if strings.HasPrefix(c, "readseq ") { // history oracle: implementation only, the model has no storage to alias
		seq, lanes, ok := decSeqCase(c)
		if !ok || len(seq) == 0 {
			res.DisagreeFor(p18, c, "", "replay: malformed readseq case")
			return
		}
		historyOracle(res, seq, lanes, false)
		return
	}
	if strings.HasPrefix(c, "scandir ") || strings.HasPrefix(c, "scanfiles ") || strings.HasPrefix(c, "unquote ") {
		replayScan(res, model, c) // scan.go lane (corrscan.go)
		return
	}
	f := strings.Split(c, " ")
	out, err := mdl.Run(model, nil, []string{c}, 1)
	if err != nil || len(f) != 3 {
		res.DisagreeFor(propsOfCase(c), c, "", fmt.Sprint("replay: ", err))
		return
	}
	res.Evaluations = 1
	switch f[0] {
	case "match":
		name, ts := string(corr.Unhx(f[1])), decTags(f[2])
		got := imports.MatchFile(name, tagMap(ts))
		if boolStr(got) != out[0] {
			res.DisagreeFor(p19, c, boolStr(got), out[0])
		}
		matchFileOracle(res, name, ts, got)
	case "should":
		content, ts := corr.Unhx(f[1]), decTags(f[2])
		got := imports.ShouldBuild(content, tagMap(ts))
		if boolStr(got) != out[0] {
			res.DisagreeFor(p19, c, boolStr(got), out[0])
		}
		shouldBuildOracle(res, content, ts, got)
	case "read":
		d := corr.Unhx(f[1])
		impl := implRead(d, f[2] == "1").line()
		if impl != out[0] {
			res.DisagreeFor(p18, c, impl, out[0])
		}
		readOracle(res, d, nil, false)
	}
}

func runImports(tier string, seed int64, model string, replay string) *corr.Result {
	res := corr.NewResult("imports", tier, seed)
	if replay != "" {
		replayOne(res, model, replay)
		return res
	}
	r := rand.New(rand.NewSource(seed))
	checkDriverU(res, model)
	syslistDrift(res)
	n19 := runC19(res, r, tier, model)
	n18 := runC18(res, r, tier, model)
	nScan := runScan(res, r, tier, model) // scan.go lane, after the older lanes so that their random streams are unchanged
	res.DistinctNontrivial = n19 + n18 + nScan
	res.Extra["nontrivial_C19"] = n19
	res.Extra["nontrivial_C18"] = n18
	res.Extra["nontrivial_scan"] = nScan
	res.Rule = "C19: (name, tag set) pairs whose name has a suffix that makes MatchFile false for at least one tag set, and (content, tag set) pairs whose leading block holds at least one +build line; " +
		"C18: distinct inputs that are generated valid headers / fully valid Go files (go/parser consulted) or raise a syntax error (whole-input clause exercised). " +
		"Every case is run on implementation and Lean model and compared (MatchFile/ShouldBuild verdicts; ReadImports imports, returned bytes, error kind, for both reportSyntaxError values). " +
		"History oracle (counted in evaluations, not in distinct_nontrivial): sequences of 2-5 ReadImports/ReadComments calls on inputs of this run are executed with every returned slice and import list kept uncopied next to a private copy; " +
		"after the later calls of the sequence, and again while 2-4 goroutines run the same calls concurrently, the kept results must equal their copies (class result-aliased) and the concurrent results the sequential ones (class concurrent-result-differs); results of every 8th comparison call are kept to the end of the run as well. " +
		"scan.go lane (C18+C19; non-trivial = successful scans of >= 3 directory entries / >= 2 explicit files): generated directories are written to disk, imports.ScanDir and imports.ScanFiles run on them and are compared with the model's scanDir / scanFiles (lists, ErrNoGo, read error and its file); " +
		"oracle without the model: go/parser's imports of every file the rules select (MatchFile / ShouldBuild called directly, the import \"C\" rule, name rules) must appear, nothing else may, lists strictly ascending; strconv.Unquote vs the model's unquote on all 1-2 piece literals over an escape/UTF-8 alphabet + random"
	return res
}
