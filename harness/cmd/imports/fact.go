package main

import (
	"fmt"
	"go/ast"
	"go/token"
	"regexp"
	"strconv"
	"strings"

	"verif/harness/internal/fact"
)

// emitBytes emits `def name : GIV.Bytes := [...]`, value from find() or pinned (then the anchor is lost).
func emitBytes(g *fact.Gen, name, doc, pinned string, find func() (string, bool, string)) {
	s, ok, why := find()
	if !ok {
		s = pinned
		g.Lost(name, why)
	} else {
		g.Found(name, strconv.Quote(s))
	}
	g.Emit("/-- %s -/\ndef %s : GIV.Bytes := %s\n", doc, name, fact.LeanBytes(s))
}

// reLit returns a finder that applies re (one capture group = a Go string literal without quotes,
// free of white space) to the white-space-free source of fd's body.
func reLit(g *fact.Gen, fd *ast.FuncDecl, fname string, re string) func() (string, bool, string) {
	return func() (string, bool, string) {
		if fd == nil {
			return "", false, "func " + fname + " not found"
		}
		m := regexp.MustCompile(re).FindStringSubmatch(g.Src(fd.Body))
		if m == nil {
			return "", false, "shape " + re + " not found in " + fname
		}
		s, err := strconv.Unquote(`"` + m[1] + `"`)
		if err != nil {
			return "", false, "bad literal in " + fname
		}
		return s, true, ""
	}
}

// alt decides a Bool fact: yes-shape present -> true, no-shape present (or yes-shape absent when no == "") -> false.
func alt(g *fact.Gen, fd *ast.FuncDecl, fname string, yes []string, no []string, absentMeansFalse string) func() (bool, bool, string) {
	return func() (bool, bool, string) {
		if fd == nil {
			return false, false, "func " + fname + " not found"
		}
		s := g.Src(fd.Body)
		all := func(ps []string) bool {
			if len(ps) == 0 {
				return false
			}
			for _, p := range ps {
				if !strings.Contains(s, p) {
					return false
				}
			}
			return true
		}
		switch {
		case all(yes):
			return true, true, ""
		case all(no):
			return false, true, ""
		case absentMeansFalse != "" && !strings.Contains(s, absentMeansFalse):
			return false, true, ""
		}
		return false, false, "unrecognised shape in " + fname
	}
}

func genImports(g *fact.Gen) {
	const build = "imports/build.go"
	const read = "imports/read.go"

	// ------------------------------------------------------------------ build.go
	g.EmitBytesVar(build, "goosList", "goosList", "aix android darwin dragonfly freebsd hurd illumos ios js linux nacl netbsd openbsd plan9 solaris windows zos ")
	g.EmitBytesVar(build, "unixList", "unixList", "aix android darwin dragonfly freebsd hurd illumos ios linux netbsd openbsd solaris ")
	g.EmitBytesVar(build, "goarchList", "goarchList", "386 amd64 amd64p32 arm armbe arm64 arm64be loong64 mips mipsle mips64 mips64le mips64p32 mips64p32le ppc ppc64 ppc64le riscv riscv64 s390 s390x sparc sparc64 wasm ")
	g.EmitBytesVar(build, "slashslash", "slashslash", "//")

	sb := g.FuncDecl(build, "ShouldBuild")
	mts := g.FuncDecl(build, "matchTags")
	mt := g.FuncDecl(build, "matchTag")
	mf := g.FuncDecl(build, "MatchFile")

	emitBytes(g, "plusBuild", "the directive word compared with f[0] in ShouldBuild.", "+build", reLit(g, sb, "ShouldBuild", `iff\[0\]=="([^"]*)"`))
	emitBytes(g, "tagStar", "the wildcard key tested in matchTag.", "*", reLit(g, mt, "matchTag", `iftags\["([^"]*)"\]&&name!=""`))
	emitBytes(g, "tagIgnore", "the tag exempt from the wildcard in matchTag.", "ignore", reLit(g, mt, "matchTag", `&&name!=""&&name!="([^"]*)"\{returntrue\}`))
	emitBytes(g, "tagLinux", "the tag that another tag also satisfies in matchTag.", "linux", reLit(g, mt, "matchTag", `ifname=="([^"]*)"\{have=have\|\|tags\[`))
	emitBytes(g, "tagAndroid", "the tag that also satisfies tagLinux in matchTag.", "android", reLit(g, mt, "matchTag", `\{have=have\|\|tags\["([^"]*)"\]\}`))
	emitBytes(g, "fileStar", "the wildcard key tested first in MatchFile.", "*", reLit(g, mf, "MatchFile", `^\{iftags\["([^"]*)"\]\{returntrue\}`))
	emitBytes(g, "testTok", "the trailing name segment MatchFile drops.", "test", reLit(g, mf, "MatchFile", `l\[n-1\]=="([^"]*)"\{l=l\[:n-1\]\}`))

	g.EmitBool("sbBlankOnlySetsEnd", "ShouldBuild pass 1 advances `end` only at blank lines (true), or at other lines too (false).", true, func() (bool, bool, string) {
		if sb == nil {
			return false, false, "func ShouldBuild not found"
		}
		s := g.Src(sb.Body)
		n := strings.Count(s, "end=")
		if !strings.Contains(s, "content=content[:end]") {
			return false, false, "content=content[:end] not found"
		}
		if strings.Contains(s, "iflen(line)==0{end=len(content)-len(p)continue}") {
			return n == 1, true, ""
		}
		return false, false, "blank-line branch not found"
	})
	g.EmitBool("sbNonCommentBreaks", "ShouldBuild pass 1 stops at the first line that is neither blank nor a // comment.", true,
		alt(g, sb, "ShouldBuild", []string{"if!bytes.HasPrefix(line,slashslash){break}"}, nil, "break"))
	g.EmitBool("sbTokensOr", "a +build line is satisfied when some token satisfies matchTags (true); when all do (false).", true,
		alt(g, sb, "ShouldBuild", []string{"ok:=falsefor_,tok:=rangef[1:]{ifmatchTags(tok,tags){ok=true}}if!ok{allok=false}"},
			[]string{"ok:=truefor_,tok:=rangef[1:]{if!matchTags(tok,tags){ok=false}}if!ok{allok=false}"}, ""))
	g.EmitBool("commaIsAnd", "matchTags combines the two sides of a comma with && (true) or || (false).", true,
		alt(g, mts, "matchTags", []string{"ok1:=matchTags(name[:i],tags)ok2:=matchTags(name[i+1:],tags)returnok1&&ok2"},
			[]string{"ok1:=matchTags(name[:i],tags)ok2:=matchTags(name[i+1:],tags)returnok1||ok2"}, ""))
	g.EmitBool("rejectsDoubleBang", "matchTags rejects a term starting with !!.", true,
		alt(g, mts, "matchTags", []string{`ifstrings.HasPrefix(name,"!!"){returnfalse}`}, nil, `"!!"`))
	g.EmitBool("bangNegates", "matchTags evaluates !tag as matchTag(tag, tags, false) guarded by len(name) > 1 (true); evaluates it with want = true (false).", true,
		alt(g, mts, "matchTags", []string{`ifstrings.HasPrefix(name,"!"){returnlen(name)>1&&matchTag(name[1:],tags,false)}returnmatchTag(name,tags,true)`},
			[]string{`ifstrings.HasPrefix(name,"!"){returnlen(name)>1&&matchTag(name[1:],tags,true)}returnmatchTag(name,tags,true)`}, ""))
	g.EmitBool("emptyIsFalse", "matchTags returns false for the empty name.", true,
		alt(g, mts, "matchTags", []string{`{ifname==""{returnfalse}`}, nil, `name==""`))
	g.EmitBool("tagStarClause", "matchTag: with the wildcard every valid non-empty tag other than tagIgnore matches whatever `want` is.", true,
		alt(g, mt, "matchTag", []string{`iftags["*"]&&name!=""&&name!="ignore"{returntrue}`}, nil, `"*"`))
	g.EmitBool("androidClause", "matchTag: `if name == \"linux\" { have = have || tags[\"android\"] }`.", true,
		alt(g, mt, "matchTag", []string{`have:=tags[name]ifname=="linux"{have=have||tags["android"]}`}, nil, `"android"`))
	g.EmitBool("haveEqWant", "matchTag returns `have == want` (true) or `have` (false).", true,
		alt(g, mt, "matchTag", []string{"returnhave==want}"}, []string{"returnhave}"}, ""))
	g.EmitBool("tagRuneCheck", "matchTag rejects names with a rune that is not a letter, digit, '_' or '.'.", true,
		alt(g, mt, "matchTag", []string{"for_,c:=rangename{if!unicode.IsLetter(c)&&!unicode.IsDigit(c)&&c!='_'&&c!='.'{returnfalse}}"}, nil, "unicode"))

	g.EmitBool("fileStarFirst", "MatchFile returns true at once when tags[\"*\"] is set.", true,
		alt(g, mf, "MatchFile", []string{`{iftags["*"]{returntrue}`}, nil, `"*"`))
	g.EmitBool("fileCutsDotAndPrefix", "MatchFile cuts the name at the first '.', returns true without '_' and ignores everything before the first '_'.", true,
		alt(g, mf, "MatchFile", []string{`ifdot:=strings.Index(name,".");dot!=-1{name=name[:dot]}`, `i:=strings.Index(name,"_")ifi<0{returntrue}name=name[i:]`, `l:=strings.Split(name,"_")`}, nil, ""))
	g.EmitBool("fileStripsTest", "MatchFile drops a final \"test\" segment before looking at the suffix.", true,
		alt(g, mf, "MatchFile", []string{`ifn:=len(l);n>0&&l[n-1]=="test"{l=l[:n-1]}`}, nil, `"test"`))

	// The suffix rules, in source order: 1 = _GOOS_GOARCH, 2 = _GOOS, 3 = _GOARCH; and how the known token is tested.
	rules, via, ok, why := matchFileRules(g, mf)
	if !ok {
		rules, via = []int{1, 2, 3}, true
		g.Lost("fileRules", why)
	} else {
		g.Found("fileRules", fmt.Sprint(rules))
		g.Found("fileViaMatchTag", strconv.FormatBool(via))
	}
	rs := make([]string, len(rules))
	for i, r := range rules {
		rs[i] = strconv.Itoa(r)
	}
	g.Emit("/-- MatchFile's suffix rules in source order: 1 = `n >= 2 && KnownOS[l[n-2]] && KnownArch[l[n-1]]` (both must be selected), 2 = `n >= 1 && KnownOS[l[n-1]]`, 3 = `n >= 1 && KnownArch[l[n-1]]`. -/\ndef fileRules : List Nat := [%s]\n", strings.Join(rs, ", "))
	g.Emit("/-- the rules decide by `matchTag(tok, tags, true)` (true: android also selects linux) or by `tags[tok]` (false). -/\ndef fileViaMatchTag : Bool := %v\n", via)

	// ------------------------------------------------------------------ read.go
	ri := g.FuncDecl(read, "ReadImports")
	pk := g.Method(read, "importReader", "peekByte")
	emitBytes(g, "bom", "the byte-order mark ReadImports knows.", "\xef\xbb\xbf", func() (string, bool, string) {
		v := g.TopLevelValue(read, "bom")
		cl, ok := v.(*ast.CompositeLit)
		if !ok {
			return "", false, "var bom is not a composite literal"
		}
		var b []byte
		for _, e := range cl.Elts {
			bl, ok := e.(*ast.BasicLit)
			if !ok || bl.Kind != token.INT {
				return "", false, "bom element is not an integer literal"
			}
			n, err := strconv.ParseUint(bl.Value, 0, 8)
			if err != nil {
				return "", false, "bom element out of range"
			}
			b = append(b, byte(n))
		}
		return string(b), true, ""
	})
	g.EmitBool("bomDiscarded", "ReadImports peeks len(bom) bytes and discards them when they equal bom (true); has no BOM handling (false).", true,
		func() (bool, bool, string) {
			if ri == nil {
				return false, false, "func ReadImports not found"
			}
			s := g.Src(ri.Body)
			if strings.Contains(s, "ifleadingBytes,err:=b.Peek(3);err==nil&&bytes.Equal(leadingBytes,bom){b.Discard(3)}r:=&importReader{b:b}") {
				return true, true, ""
			}
			if !strings.Contains(s, "bom") && !strings.Contains(s, "Discard") {
				return false, true, ""
			}
			return false, false, "unrecognised BOM handling"
		})
	emitBytes(g, "kwPackage", "first keyword ReadImports reads.", "package", reLit(g, ri, "ReadImports", `^\{.*?r:=&importReader\{b:b\}r\.readKeyword\("([a-z]*)"\)r\.readIdent\(\)`))
	emitBytes(g, "kwImport", "keyword read for each declaration in ReadImports' loop.", "import", reLit(g, ri, "ReadImports", `forr\.peekByte\(true\)=='i'\{r\.readKeyword\("([a-z]*)"\)`))

	limit, lok := 10000, false
	if pk != nil {
		if m := regexp.MustCompile(`ifr\.nerr\+\+;r\.nerr>(\d+)\{panic\(`).FindStringSubmatch(g.Src(pk.Body)); m != nil {
			limit, _ = strconv.Atoi(m[1])
			lok = true
		}
	}
	if lok {
		g.Found("nerrLimit", strconv.Itoa(limit))
	} else {
		g.Lost("nerrLimit", "nerr guard not found in peekByte")
	}
	g.Emit("/-- peekByte panics once it has been called more than this many times after an error. -/\ndef nerrLimit : Nat := %d\n", limit)

	// space bytes: the first case clause of the switch in peekByte
	var spaces []int
	if pk != nil {
		ast.Inspect(pk.Body, func(n ast.Node) bool {
			cc, ok := n.(*ast.CaseClause)
			if !ok || spaces != nil {
				return true
			}
			var tmp []int
			for _, e := range cc.List {
				bl, ok := e.(*ast.BasicLit)
				if !ok || bl.Kind != token.CHAR {
					return true
				}
				r, _, _, err := strconv.UnquoteChar(bl.Value[1:len(bl.Value)-1], '\'')
				if err != nil || r > 255 {
					return true
				}
				tmp = append(tmp, int(r))
			}
			if len(tmp) > 1 {
				spaces = tmp
			}
			return true
		})
	}
	if spaces == nil {
		spaces = []int{' ', '\f', '\t', '\r', '\n', ';'}
		g.Lost("spaceBytes", "space case clause not found in peekByte")
	} else {
		g.Found("spaceBytes", fmt.Sprint(spaces))
	}
	ss := make([]string, len(spaces))
	for i, s := range spaces {
		ss[i] = strconv.Itoa(s)
	}
	g.Emit("/-- bytes peekByte(skipSpace) treats as white space. -/\ndef spaceBytes : List UInt8 := [%s]\n", strings.Join(ss, ", "))

	g.EmitBool("isIdentStd", "isIdent is `A-Z | a-z | 0-9 | _ | >= utf8.RuneSelf`.", true, func() (bool, bool, string) {
		fd := g.FuncDecl(read, "isIdent")
		if fd == nil {
			return false, false, "func isIdent not found"
		}
		if g.Src(fd.Body) == "{return'A'<=c&&c<='Z'||'a'<=c&&c<='z'||'0'<=c&&c<='9'||c=='_'||c>=utf8.RuneSelf}" {
			return true, true, ""
		}
		return false, false, "isIdent has an unrecognised shape"
	})
	g.EmitBool("dropsLastByte", "on success before EOF ReadImports returns all bytes read but the last.", true,
		alt(g, ri, "ReadImports", []string{"ifr.err==nil&&!r.eof{returnr.buf[:len(r.buf)-1],nil}"}, nil, "len(r.buf)-1"))
	g.EmitBool("consumesWholeOnSyntax", "after a syntax error that is not to be reported ReadImports clears it and reads the rest of the input.", true,
		alt(g, ri, "ReadImports", []string{"ifr.err==errSyntax&&!reportSyntaxError{r.err=nilforr.err==nil&&!r.eof{r.readByte()}}returnr.buf,r.err}"}, nil, "reportSyntaxError{"))
}

// matchFileRules recognises the three `if n >= k && Known…[…] { return … }` statements of MatchFile.
func matchFileRules(g *fact.Gen, mf *ast.FuncDecl) (rules []int, via bool, ok bool, why string) {
	if mf == nil {
		return nil, false, false, "func MatchFile not found"
	}
	type shape struct {
		cond   string
		viaTag string
		viaMap string
		code   int
	}
	shapes := []shape{
		{"n>=2&&KnownOS[l[n-2]]&&KnownArch[l[n-1]]", "{returnmatchTag(l[n-2],tags,true)&&matchTag(l[n-1],tags,true)}", "{returntags[l[n-2]]&&tags[l[n-1]]}", 1},
		{"n>=1&&KnownOS[l[n-1]]", "{returnmatchTag(l[n-1],tags,true)}", "{returntags[l[n-1]]}", 2},
		{"n>=1&&KnownArch[l[n-1]]", "{returnmatchTag(l[n-1],tags,true)}", "{returntags[l[n-1]]}", 3},
	}
	nTag, nMap := 0, 0
	seenN := false
	for _, st := range mf.Body.List {
		if as, isAs := st.(*ast.AssignStmt); isAs && g.Src(as) == "n:=len(l)" {
			seenN = true
			continue
		}
		is, isIf := st.(*ast.IfStmt)
		if !seenN || !isIf {
			continue
		}
		if is.Init != nil || is.Else != nil {
			return nil, false, false, "suffix rule with init/else"
		}
		c, b := g.Src(is.Cond), g.Src(is.Body)
		found := false
		for _, sh := range shapes {
			if c == sh.cond {
				switch b {
				case sh.viaTag:
					nTag++
				case sh.viaMap:
					nMap++
				default:
					return nil, false, false, "suffix rule body unrecognised: " + b
				}
				rules = append(rules, sh.code)
				found = true
			}
		}
		if !found {
			return nil, false, false, "suffix rule condition unrecognised: " + c
		}
	}
	if !seenN {
		return nil, false, false, "n := len(l) not found"
	}
	if last := mf.Body.List[len(mf.Body.List)-1]; g.Src(last) != "returntrue" {
		return nil, false, false, "MatchFile does not end in return true"
	}
	if nTag > 0 && nMap > 0 {
		return nil, false, false, "suffix rules mix matchTag and tags[...]"
	}
	return rules, nMap == 0, true, ""
}
