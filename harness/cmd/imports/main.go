// imports group binary: `imports factgen ...` and `imports corr ...` (properties C18, C19).
package main

import (
	"encoding/json"
	"fmt"
	"os"

	"verif/harness/internal/corr"
	"verif/harness/internal/fact"
)

func main() {
	if len(os.Args) < 2 {
		fmt.Fprintln(os.Stderr, "usage: imports factgen|corr [flags]")
		os.Exit(2)
	}
	switch os.Args[1] {
	case "factgen":
		fact.Main(os.Args[2:], "imports", "Imports", genImports)
	case "corr":
		corr.Main(os.Args[2:], runImports)
		attributeDisagreements(os.Args[2:])
	default:
		fmt.Fprintln(os.Stderr, "usage: imports factgen|corr [flags]")
		os.Exit(2)
	}
}

// disagreementProps is set by runImports: the properties whose cases showed model/implementation
// differences (a ShouldBuild difference says nothing about ReadImports and vice versa).
var disagreementProps []string

// attributeDisagreements adds the top-level key "disagreement_properties" (read by ./check) to the
// result file corr.Main has just written; corr.Result has no field for it.
func attributeDisagreements(args []string) {
	out := ""
	for i, a := range args {
		if (a == "-out" || a == "--out") && i+1 < len(args) {
			out = args[i+1]
		} else if len(a) > 5 && (a[:5] == "-out=") {
			out = a[5:]
		} else if len(a) > 6 && (a[:6] == "--out=") {
			out = a[6:]
		}
	}
	if out == "" {
		return
	}
	data, err := os.ReadFile(out)
	if err != nil {
		return
	}
	var m map[string]any
	if json.Unmarshal(data, &m) != nil {
		return
	}
	props := disagreementProps
	if props == nil {
		props = []string{}
	}
	m["disagreement_properties"] = props
	if data, err = json.MarshalIndent(m, "", " "); err == nil {
		os.WriteFile(out, data, 0o666)
	}
}
