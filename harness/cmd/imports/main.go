// imports group binary: `imports factgen ...` and `imports corr ...` (properties C18, C19).
package main

import (
	"fmt"
	"os"

	"verif/harness/internal/corr"
	"verif/harness/internal/fact"
)

func main() {
	if len(os.Args) < 2 {
		fmt.Fprintln(os.Stderr, "usage: imports factgen|corr [flags]")
		os.Exit(2)
	}
	switch os.Args[1] {
	case "factgen":
		fact.Main(os.Args[2:], "imports", "Imports", genImports)
	case "corr":
		corr.Main(os.Args[2:], runImports)
	default:
		fmt.Fprintln(os.Stderr, "usage: imports factgen|corr [flags]")
		os.Exit(2)
	}
}
