package main

// Correspondence + oracle lane for imports/scan.go (ScanDir, ScanFiles): real temporary directories
// with generated file sets are scanned by the implementation and by the Lean model (GIV.Model.Scan,
// driver ops `scandir` / `scanfiles` / `unquote`); an independent oracle (go/parser + the package's own
// MatchFile / ShouldBuild called directly + strconv.Unquote, no model) says which import paths must and
// must not appear.  Properties: C18 (imports dropped / foreign / unsorted), C19 (file set).

import (
	"bytes"
	"errors"
	"fmt"
	"go/parser"
	"math/rand"
	"os"
	"path/filepath"
	"sort"
	"strconv"
	"strings"

	"github.com/rogpeppe/go-internal/imports"

	"verif/harness/internal/corr"
	"verif/harness/internal/mdl"
)

var p1819 = []string{"C18", "C19"}

type scanEntry struct {
	name string
	kind byte // '1' regular file, '0' directory, '2' symbolic link
	data []byte
}

const scanModelDir = "d" // the directory name the model sees; the implementation sees the temporary directory

func encEntries(es []scanEntry) string {
	if len(es) == 0 {
		return "_"
	}
	ss := make([]string, len(es))
	for i, e := range es {
		ss[i] = corr.Hx([]byte(e.name)) + ":" + string(e.kind) + ":" + corr.Hx(e.data)
	}
	return strings.Join(ss, ";")
}

func decEntries(s string) (es []scanEntry, ok bool) {
	if s == "_" {
		return nil, true
	}
	for _, it := range strings.Split(s, ";") {
		f := strings.Split(it, ":")
		if len(f) != 3 || len(f[1]) != 1 {
			return nil, false
		}
		es = append(es, scanEntry{string(corr.Unhx(f[0])), f[1][0], corr.Unhx(f[2])})
	}
	return es, true
}

// explicit file lists: names are "d/<base>", in call order (repetitions allowed)
func encFiles(es []scanEntry) string {
	if len(es) == 0 {
		return "_"
	}
	ss := make([]string, len(es))
	for i, e := range es {
		ss[i] = corr.Hx([]byte(scanModelDir+"/"+e.name)) + ":" + corr.Hx(e.data)
	}
	return strings.Join(ss, ";")
}

func decFiles(s string) (es []scanEntry, ok bool) {
	if s == "_" {
		return nil, true
	}
	for _, it := range strings.Split(s, ";") {
		f := strings.Split(it, ":")
		if len(f) != 2 {
			return nil, false
		}
		n := string(corr.Unhx(f[0]))
		if !strings.HasPrefix(n, scanModelDir+"/") {
			return nil, false
		}
		es = append(es, scanEntry{n[len(scanModelDir)+1:], '1', corr.Unhx(f[1])})
	}
	return es, true
}

func scanDirCase(tags []string, es []scanEntry) string {
	return "scandir " + encTags(tags) + " " + corr.Hx([]byte(scanModelDir)) + " " + encEntries(es)
}

func scanFilesCase(tags []string, es []scanEntry) string {
	return "scanfiles " + encTags(tags) + " 1 " + encFiles(es)
}

// materialise writes the entries into a fresh temporary directory.
func materialise(es []scanEntry) (dir string, err error) {
	dir, err = os.MkdirTemp("", "giv-scan-")
	if err != nil {
		return "", err
	}
	// MkdirTemp gives a clean absolute path unless TMPDIR is odd; ScanDir joins (and cleans) dir/name
	dir = filepath.Clean(dir)
	for _, e := range es {
		p := filepath.Join(dir, e.name)
		switch e.kind {
		case '1':
			if _, serr := os.Lstat(p); serr == nil {
				continue // the same file listed twice (explicit lists)
			}
			err = os.WriteFile(p, e.data, 0o666)
		case '0':
			err = os.Mkdir(p, 0o777)
		default:
			err = os.Symlink("a.go", p)
		}
		if err != nil {
			os.RemoveAll(dir)
			return "", err
		}
	}
	return dir, nil
}

func hexList(ss []string) string {
	if len(ss) == 0 {
		return "_"
	}
	hs := make([]string, len(ss))
	for i, s := range ss {
		hs[i] = corr.Hx([]byte(s))
	}
	return strings.Join(hs, ",")
}

// scanLine: the observable of one ScanDir / ScanFiles call in the model driver's format.
// The temporary directory is replaced by the model's directory name.
func scanLine(dir string, imps, timps []string, err error) string {
	if err == nil {
		return "ok I=" + hexList(imps) + " T=" + hexList(timps)
	}
	if err == imports.ErrNoGo {
		return "err nogo"
	}
	msg := err.Error()
	if rest, ok := strings.CutPrefix(msg, "reading "+dir+"/"); ok {
		if i := strings.LastIndex(rest, ": "); i >= 0 {
			name, text := rest[:i], rest[i+2:]
			switch {
			case text == "unexpected NUL in input":
				return "err read " + corr.Hx([]byte(scanModelDir+"/"+name)) + " nul"
			case text == "syntax error":
				return "err read " + corr.Hx([]byte(scanModelDir+"/"+name)) + " syntax"
			}
		}
	}
	return "err other " + strings.ReplaceAll(strings.ReplaceAll(msg, dir, scanModelDir), " ", "_")
}

func implScan(f func() ([]string, []string, error)) (imps, timps []string, err error) {
	defer func() {
		if p := recover(); p != nil {
			err = fmt.Errorf("panic: %v", p)
		}
	}()
	return f()
}

// ---------------------------------------------------------------- oracle (no model)

const markerPrefix = "m/"

func strictlySorted(ss []string) bool {
	for i := 1; i < len(ss); i++ {
		if !(ss[i-1] < ss[i]) {
			return false
		}
	}
	return true
}

func setOf(ss []string) map[string]bool {
	m := map[string]bool{}
	for _, s := range ss {
		m[s] = true
	}
	return m
}

func sortedKeys(m map[string]bool) []string {
	var ks []string
	for k := range m {
		ks = append(ks, k)
	}
	sort.Strings(ks)
	return ks
}

// scanExpect computes, without any model, what a scan of the given files must return: for each file that the
// rules select, the import paths go/parser (ImportsOnly) reports, unquoted.  applicable=false when some
// candidate file is not accepted by go/parser (the expectation is then undefined: ReadImports is lenient).
func scanExpect(res *corr.Result, lane string, es []scanEntry, tags map[string]bool, dirRules bool) (exp, expTest map[string]bool, nsel int, applicable bool) {
	exp, expTest = map[string]bool{}, map[string]bool{}
	applicable = true
	for _, e := range es {
		if dirRules {
			switch {
			case e.kind != '1':
				res.Distribution[lane+"-entry:not-regular(dir/symlink)"]++
				continue
			case strings.HasPrefix(e.name, "_"):
				res.Distribution[lane+"-entry:underscore-prefix"]++
				continue
			case !strings.HasSuffix(e.name, ".go"):
				res.Distribution[lane+"-entry:not-.go"]++
				continue
			case !imports.MatchFile(e.name, tags):
				res.Distribution[lane+"-entry:MatchFile-rejects"]++
				continue
			}
		}
		if bytes.IndexByte(e.data, 0) >= 0 {
			// a NUL byte anywhere is a hard error of ReadImports whatever reportSyntaxError says (as in go/build;
			// C18's whole-input clause is stated for NUL-free inputs), while go/parser in ImportsOnly mode never
			// looks past the import section: such a file is no "syntactically valid Go file" and the oracle,
			// which takes go/parser's acceptance as validity, does not apply
			res.Distribution[lane+"-entry:candidate-with-NUL(hard-error-by-design)"]++
			applicable = false
			continue
		}
		lits, ok := parserImports(e.data, parser.ImportsOnly)
		if !ok {
			res.Distribution[lane+"-entry:candidate-not-accepted-by-go/parser"]++
			applicable = false
			continue
		}
		isC := false
		for _, l := range lits {
			if l == `"C"` {
				isC = true
			}
			if l == "`C`" {
				res.Distribution[lane+"-entry:raw-string-`C`-import(not-treated-as-cgo-by-scan.go)"]++
			}
		}
		if isC && !tags["cgo"] && !tags["*"] {
			res.Distribution[lane+"-entry:import-C-skipped"]++
			continue
		}
		// the constraint block is read after a leading byte-order mark, as go/build does (readGoInfo strips it)
		if dirRules && !imports.ShouldBuild(stripBOM(e.data), tags) {
			res.Distribution[lane+"-entry:ShouldBuild-rejects"]++
			continue
		}
		nsel++
		m := exp
		if strings.HasSuffix(e.name, "_test.go") {
			m = expTest
			res.Distribution[lane+"-entry:selected-test"]++
		} else {
			res.Distribution[lane+"-entry:selected"]++
		}
		for _, l := range lits {
			if q, err := strconv.Unquote(l); err == nil {
				m[q] = true
			}
		}
	}
	return
}

func scanOracle(res *corr.Result, lane, c string, es []scanEntry, ts []string, dirRules bool, imps, timps []string, err error) {
	tags := tagMap(ts)
	exp, expTest, nsel, applicable := scanExpect(res, lane, es, tags, dirRules)
	// sortedness does not depend on the expectation
	if err == nil {
		res.OracleChecked["C18"]++
		if !strictlySorted(imps) || !strictlySorted(timps) {
			res.Violate("C18", c, fmt.Sprintf("result lists are not strictly ascending: imports %q testImports %q", imps, timps), "scan-unsorted")
		}
	}
	if !applicable {
		res.Distribution[lane+"-oracle:not-applicable(unparseable-candidate)"]++
		return
	}
	res.Distribution[lane+"-oracle:applied"]++
	res.OracleChecked["C18"]++
	res.OracleChecked["C19"]++
	if err != nil {
		switch {
		case err == imports.ErrNoGo && nsel == 0:
		case err == imports.ErrNoGo:
			res.Violate("C19", c, fmt.Sprintf("ErrNoGo although the rules select %d file(s)", nsel), "scan-wrong-file-set")
		default:
			res.Violate("C18", c, "error although go/parser accepts every candidate file: "+clip(err.Error(), 200), "scan-unexpected-error")
		}
		return
	}
	if nsel == 0 {
		res.Violate("C19", c, fmt.Sprintf("no file is selected by the rules, yet the scan returned imports %q testImports %q instead of ErrNoGo", imps, timps), "scan-wrong-file-set")
		return
	}
	got, gotTest := setOf(imps), setOf(timps)
	// markers first: every generated file imports a path of its own, so the file set is observable
	for _, pair := range []struct {
		what      string
		exp, got  map[string]bool
		othersGot map[string]bool
	}{{"imports", exp, got, gotTest}, {"testImports", expTest, gotTest, got}} {
		for _, q := range sortedKeys(pair.exp) {
			if !pair.got[q] {
				if strings.HasPrefix(q, markerPrefix) && !pair.othersGot[q] {
					res.Violate("C19", c, fmt.Sprintf("a file the rules select was left out: its own import %q is in neither list", q), "scan-wrong-file-set")
				} else {
					res.Violate("C18", c, fmt.Sprintf("import %q of a selected file is missing from %s (got %q)", q, pair.what, sortedKeys(pair.got)), "scan-dropped-import")
				}
				return
			}
		}
		for _, q := range sortedKeys(pair.got) {
			if !pair.exp[q] {
				if strings.HasPrefix(q, markerPrefix) && !exp[q] && !expTest[q] {
					res.Violate("C19", c, fmt.Sprintf("a file the rules exclude was scanned: its own import %q is in %s", q, pair.what), "scan-wrong-file-set")
				} else {
					res.Violate("C18", c, fmt.Sprintf("%s contains %q, which no selected file imports there (go/parser)", pair.what, q), "scan-foreign-import")
				}
				return
			}
		}
	}
}

// which property a model/implementation difference of the scan lane concerns: the file set (C19) when the
// ErrNoGo-ness or the set of per-file marker imports differs, otherwise the import lists (C18).
func scanDiffProps(impl, model string) []string {
	nogo := func(s string) bool { return s == "err nogo" }
	if nogo(impl) != nogo(model) {
		return p19
	}
	markers := func(s string) string {
		var ms []string
		for _, part := range strings.Fields(s) {
			if len(part) > 2 && (part[:2] == "I=" || part[:2] == "T=") {
				for _, h := range strings.Split(part[2:], ",") {
					if strings.HasPrefix(h, corr.Hx([]byte(markerPrefix))) {
						ms = append(ms, h)
					}
				}
			}
		}
		sort.Strings(ms)
		return strings.Join(ms, ",")
	}
	if strings.HasPrefix(impl, "ok ") && strings.HasPrefix(model, "ok ") && markers(impl) != markers(model) {
		return p19
	}
	return p18
}

// ---------------------------------------------------------------- generators

var scanTagSets = [][]string{
	nil, {"linux", "amd64"}, {"windows", "amd64"}, {"cgo"}, {"*"}, {"linux", "cgo"}, {"android", "arm64"}, {"*", "cgo"},
	{"foo"}, {"ignore"}, {"linux"}, {"darwin", "arm64", "cgo"}, {"*", "ignore"},
}

var scanNames = []string{
	"a.go", "b.go", "c.go", "a_test.go", "c_test.go", "x_linux.go", "x_windows.go", "x_amd64.go", "x_linux_arm64_test.go",
	"y_windows_test.go", "y_android.go", "_skip.go", "_test.go", ".hidden.go", ".go", "z.txt", "README", "go", "x.go", "weird_.go",
	"é.go", "d.go.bak", "linux.go", "test.go", "a_linux_test.go", "b_unknownos.go", "_", "q_test.go.go", "doc.GO",
}

var scanPathPool = []string{"fmt", "os", "os/exec", "a/b", "github.com/x/y", "é/世", "unsafe", "x~y"}

var scanBuildHeaders = []string{
	"// +build linux\n\n", "// +build windows\n\n", "// +build !windows\n\n", "// +build linux,amd64 windows\n\n", "// +build ignore\n\n",
	"// +build cgo\n\n", "// +build !cgo\n\n", "// +build foo\n\n", "// +build !foo\n\n", "// +build linux\n// +build amd64\n\n",
	"// +build windows\n", "//go:build windows\n\n", "// Copyright\n\n// +build windows\n\n", "// +build !!linux\n\n", "/* c */\n// +build windows\n\n",
	"\n\n// +build android\n\n", "// +build linux darwin\n\n",
}

// a literal that is fine for go/parser and for strconv.Unquote
func scanGoodLit(r *rand.Rand) string {
	p := scanPathPool[r.Intn(len(scanPathPool))]
	switch r.Intn(8) {
	case 0:
		return "`" + p + "`"
	case 1: // escapes that decode to path characters
		var sb strings.Builder
		sb.WriteByte('"')
		for i := 0; i < len(p); i++ {
			c := p[i]
			if c < 0x80 && r.Intn(2) == 0 {
				sb.WriteString([]string{fmt.Sprintf(`\x%02x`, c), fmt.Sprintf(`\%03o`, c), fmt.Sprintf(`\u%04x`, c), fmt.Sprintf(`\U%08X`, c)}[r.Intn(4)])
			} else {
				sb.WriteByte(c)
			}
		}
		sb.WriteByte('"')
		return sb.String()
	case 2:
		return []string{`"\u00e9/\u4e16"`, `"\U0001F600x"`, `"caf\u00e9"`, `"\303\251"`, `"\xc3\xa9"`}[r.Intn(5)]
	}
	return `"` + p + `"`
}

// literals ReadImports accepts lexically but that go/parser or strconv.Unquote reject, or that are no import paths
var scanOddLits = []string{
	`"a\qb"`, `"\'"`, `"\ud800"`, `"\U00110000"`, `"\400"`, `"\xZZ"`, `"\u12"`, "\"a\xffb\"", "\"\xed\xa0\x80\"", `"a\tb"`, `"a\"b"`, `""`, "``",
	"`a\r\nb`", "`a\\`", `"a b"`, `"\\"`, `"\7"`, `"\x4"`, `"\UFFFFFFFF"`, `"a\nb"`, `"\a\b\f\v"`, `"\0001"`, "\"\xc3\"", `"\udfff"`, `"\ue000"`, `"\U0010FFFF"`,
}

func scanSpec(r *rand.Rand, lit string) string {
	switch r.Intn(8) {
	case 0:
		return "x " + lit
	case 1:
		return "_ " + lit
	case 2:
		return ". " + lit
	case 3:
		return "/* c */ " + lit + " // c"
	}
	return lit
}

// genScanFile: one file for entry number idx.  Most files are clean Go with a marker import of their own.
func genScanFile(g *hgen, idx int) []byte {
	r := g.r
	switch k := r.Intn(40); {
	case k == 0:
		return nil // empty file
	case k == 1:
		src, _, _ := g.header()
		return src
	case k == 2:
		return g.malformed()
	}
	var sb strings.Builder
	if r.Intn(12) == 0 {
		sb.Write(bomBytes)
	}
	if r.Intn(2) == 0 {
		sb.WriteString(scanBuildHeaders[r.Intn(len(scanBuildHeaders))])
	}
	sb.WriteString("package p\n")
	var specs []string
	if r.Intn(8) != 0 {
		specs = append(specs, fmt.Sprintf(`"%s%d"`, markerPrefix, idx))
	}
	n := r.Intn(5)
	for i := 0; i < n; i++ {
		switch k := r.Intn(20); {
		case k == 0:
			specs = append(specs, scanSpec(r, scanOddLits[r.Intn(len(scanOddLits))]))
		case k == 1:
			specs = append(specs, `"C"`)
		case k == 2 && r.Intn(3) == 0:
			specs = append(specs, "`C`")
		default:
			specs = append(specs, scanSpec(r, scanGoodLit(r)))
		}
	}
	r.Shuffle(len(specs), func(i, j int) { specs[i], specs[j] = specs[j], specs[i] })
	for len(specs) > 0 {
		if r.Intn(2) == 0 || len(specs) == 1 {
			sb.WriteString("import " + specs[0] + "\n")
			specs = specs[1:]
		} else {
			k := 1 + r.Intn(len(specs))
			sb.WriteString("import (\n")
			for _, s := range specs[:k] {
				sb.WriteString("\t" + s + "\n")
			}
			sb.WriteString(")\n")
			specs = specs[k:]
		}
	}
	switch k := r.Intn(30); {
	case k == 0:
		sb.WriteString("import (\n\t\"late\"\n\t!!!\n)\n") // syntax error in the import section
	case k == 1:
		sb.WriteString("var x = 1\x00\n") // NUL after the import section: not read
	case k == 2:
		sb.WriteString("import \"n\x00ul\"\n") // NUL inside the import section: read error
	case k == 3:
		sb.WriteString("import \"open\n")
	case k < 20:
		sb.WriteString("\nfunc f() {}\n")
	case k < 24:
		sb.WriteString("\nvar s = \"import \\\"fake\\\"\"\nimport \"toolate\"\n")
	}
	return []byte(sb.String())
}

func genScanDir(g *hgen) (tags []string, es []scanEntry) {
	r := g.r
	tags = scanTagSets[r.Intn(len(scanTagSets))]
	n := r.Intn(7)
	if r.Intn(10) == 0 {
		n = r.Intn(2)
	}
	perm := r.Perm(len(scanNames))
	for i := 0; i < n; i++ {
		name := scanNames[perm[i]]
		e := scanEntry{name: name, kind: '1'}
		switch k := r.Intn(25); {
		case k == 0 || (name == "x.go" && k < 8):
			e.kind = '0'
		case k == 1 || (name == "x.go" && k < 16):
			e.kind = '2'
		default:
			e.data = genScanFile(g, i)
		}
		es = append(es, e)
	}
	sort.Slice(es, func(i, j int) bool { return es[i].name < es[j].name }) // os.ReadDir order
	return
}

// an explicit file list from a directory's regular files: any order, sometimes a file twice
func genExplicit(r *rand.Rand, es []scanEntry) []scanEntry {
	var reg []scanEntry
	for _, e := range es {
		if e.kind == '1' {
			reg = append(reg, e)
		}
	}
	r.Shuffle(len(reg), func(i, j int) { reg[i], reg[j] = reg[j], reg[i] })
	if len(reg) > 0 && r.Intn(3) == 0 {
		reg = reg[:1+r.Intn(len(reg))]
	}
	if len(reg) > 0 && r.Intn(6) == 0 {
		reg = append(reg, reg[r.Intn(len(reg))])
	}
	return reg
}

// ---------------------------------------------------------------- unquote (model of strconv.Unquote)

var unqPieces = []string{
	"a", "/", "é", "\xff", "\xed\xa0\x80", "\xc3", `\n`, `\t`, `\a`, `\x41`, `\xZ1`, `\x4`, `\101`, `\400`, `\377`, `\18`, `\7`, `\u00e9`, `\ud800`, `\udfff`,
	`\ue000`, `\ud7ff`, `\U0010ffff`, `\U00110000`, `\UFFFFFFFF`, `\U0001F600`, `\u12`, `\'`, `\"`, `\\`, `\q`, `\`, "\n", "\r", `"`, "`", "'", "\x00", "\x7f", "\xf4\x90\x80\x80", "\xf0\x9f\x98\x80",
}

func unquoteLine(s string) string {
	q, err := strconv.Unquote(s)
	if err != nil {
		return "none"
	}
	return "some " + corr.Hx([]byte(q))
}

func genUnquoteCases(r *rand.Rand, n int) []string {
	seen := map[string]bool{}
	var cs []string
	add := func(s string) {
		if !seen[s] {
			seen[s] = true
			cs = append(cs, s)
		}
	}
	for _, q := range []string{`"`, "`"} {
		add(q + q)
		add(q)
		for _, a := range unqPieces {
			add(q + a + q)
			add(q + a)
			for _, b := range unqPieces {
				add(q + a + b + q)
			}
		}
	}
	for _, l := range scanOddLits {
		add(l)
	}
	for i := 0; i < n; i++ {
		q := []string{`"`, `"`, "`"}[r.Intn(3)]
		var sb strings.Builder
		sb.WriteString(q)
		k := r.Intn(6)
		for j := 0; j < k; j++ {
			sb.WriteString(unqPieces[r.Intn(len(unqPieces))])
		}
		if r.Intn(10) != 0 {
			sb.WriteString(q)
		}
		add(sb.String())
	}
	return cs
}

// ---------------------------------------------------------------- run

// runScanCase runs one `scandir` / `scanfiles` case on the implementation: the observable line, plus the oracle.
func runScanCase(res *corr.Result, c string) (impl string, nontrivial bool, ok bool) {
	f := strings.Split(c, " ")
	if len(f) != 4 {
		return "", false, false
	}
	ts := decTags(f[1])
	switch f[0] {
	case "scandir":
		es, ok := decEntries(f[3])
		if !ok {
			return "", false, false
		}
		dir, err := materialise(es)
		if err != nil {
			return "err harness " + err.Error(), false, true
		}
		defer os.RemoveAll(dir)
		imps, timps, serr := implScan(func() ([]string, []string, error) { return imports.ScanDir(dir, tagMap(ts)) })
		scanOracle(res, "scandir", c, es, ts, true, imps, timps, serr)
		res.Distribution["scandir-result:"+scanResultKind(serr)]++
		return scanLine(dir, imps, timps, serr), serr == nil && len(es) >= 3, true
	case "scanfiles":
		es, ok := decFiles(f[3])
		if !ok {
			return "", false, false
		}
		dir, err := materialise(es)
		if err != nil {
			return "err harness " + err.Error(), false, true
		}
		defer os.RemoveAll(dir)
		paths := make([]string, len(es))
		for i, e := range es {
			paths[i] = filepath.Join(dir, e.name)
		}
		imps, timps, serr := implScan(func() ([]string, []string, error) { return imports.ScanFiles(paths, tagMap(ts)) })
		scanOracle(res, "scanfiles", c, es, ts, false, imps, timps, serr)
		res.Distribution["scanfiles-result:"+scanResultKind(serr)]++
		return scanLine(dir, imps, timps, serr), serr == nil && len(es) >= 2, true
	}
	return "", false, false
}

func scanResultKind(err error) string {
	switch {
	case err == nil:
		return "ok"
	case errors.Is(err, imports.ErrNoGo):
		return "ErrNoGo"
	case strings.Contains(err.Error(), "NUL"):
		return "read-error-NUL"
	}
	return "other-error"
}

func runScan(res *corr.Result, r *rand.Rand, tier, model string) int {
	g := &hgen{r: r}
	ndirs, nunq := 1200, 4000
	if tier == "thorough" {
		ndirs, nunq = 40000, 200000
	}
	var cases []string
	seen := map[string]bool{}
	add := func(c string) {
		if !seen[c] {
			seen[c] = true
			cases = append(cases, c)
		}
	}
	// fixed corpus: the package's own test fixture shape, the cgo rule for explicit files, ErrNoGo, dedup across files
	fix := func(tags []string, es ...scanEntry) {
		sort.Slice(es, func(i, j int) bool { return es[i].name < es[j].name })
		add(scanDirCase(tags, es))
		var reg []scanEntry
		for _, e := range es {
			if e.kind == '1' {
				reg = append(reg, e)
			}
		}
		add(scanFilesCase(tags, reg))
	}
	file := func(name, src string) scanEntry { return scanEntry{name, '1', []byte(src)} }
	fix(nil)
	fix([]string{"linux"}, file("a.go", "package p\nimport \"m/0\"\nimport \"fmt\"\n"), file("a_test.go", "package p\nimport (\n\t\"m/1\"\n\t\"fmt\"\n\t\"testing\"\n)\n"),
		file("c.go", "package p\nimport \"C\"\nimport \"m/2\"\n"), file("x_windows.go", "package p\nimport \"m/3\"\n"), file("w.go", "// +build windows\n\npackage p\nimport \"m/4\"\n"),
		file("_u.go", "package p\nimport \"m/5\"\n"), scanEntry{"x.go", '2', nil}, scanEntry{"sub.go", '0', nil})
	fix([]string{"*"}, file("c.go", "package p\nimport \"C\"\nimport \"m/0\"\n"), file("i.go", "// +build ignore\n\npackage p\nimport \"m/1\"\n"), file("x_windows.go", "package p\nimport `m/2`\n"))
	fix([]string{"cgo"}, file("c.go", "package p\nimport \"C\"\nimport \"m/0\"\n"), file("r.go", "package p\nimport `C`\n"))
	fix(nil, file("r.go", "package p\nimport `C`\nimport \"m/0\"\n"), file("q.go", "package p\nimport (\n\t\"a\\x62\"\n\t\"a\\qb\"\n\t\"\\u00e9\"\n\t\"m/1\"\n)\n"))
	fix(nil, file("bad.go", "package p\nimport \"n\x00\"\n"), file("a.go", "package p\nimport \"m/1\"\n"))
	fix(nil, file("only_windows.go", "package p\n"), file("z.txt", "package p\nimport \"m/1\"\n"))
	for i := 0; i < ndirs; i++ {
		tags, es := genScanDir(g)
		add(scanDirCase(tags, es))
		add(scanFilesCase(tags, genExplicit(r, es)))
	}
	nScan := len(cases)
	for _, s := range genUnquoteCases(r, nunq) {
		cases = append(cases, "unquote "+corr.Hx([]byte(s)))
	}
	out, err := mdl.Run(model, nil, cases, 0)
	if err != nil {
		res.DisagreeFor(p1819, "<driver scan lane>", "", err.Error())
		return 0
	}
	nontrivial := 0
	for i, c := range cases {
		if i >= nScan {
			s := string(corr.Unhx(strings.TrimPrefix(c, "unquote ")))
			impl := unquoteLine(s)
			res.Distribution["unquote-result:"+impl[:4]]++
			if impl != out[i] {
				res.DisagreeFor(p18, c, impl, out[i])
			}
			continue
		}
		impl, nt, ok := runScanCase(res, c)
		if !ok {
			res.DisagreeFor(p1819, c, "harness: malformed case", out[i])
			continue
		}
		if nt {
			nontrivial++
		}
		if impl != out[i] {
			res.DisagreeFor(scanDiffProps(impl, out[i]), c, impl, out[i])
		}
	}
	res.Evaluations += len(cases)
	res.Distribution["scan-cases(scandir+scanfiles)"] = nScan
	res.Distribution["unquote-cases"] = len(cases) - nScan
	if nScan > 20 {
		res.Samples = append(res.Samples, map[string]string{"case": clip(cases[15], 600), "model": out[15]})
	}
	return nontrivial
}

func replayScan(res *corr.Result, model, c string) {
	out, err := mdl.Run(model, nil, []string{c}, 1)
	if err != nil {
		res.DisagreeFor(p1819, c, "", fmt.Sprint("replay: ", err))
		return
	}
	res.Evaluations = 1
	if s, ok := strings.CutPrefix(c, "unquote "); ok {
		if impl := unquoteLine(string(corr.Unhx(s))); impl != out[0] {
			res.DisagreeFor(p18, c, impl, out[0])
		}
		return
	}
	impl, _, ok := runScanCase(res, c)
	if !ok {
		res.DisagreeFor(p1819, c, "replay: malformed scan case", out[0])
		return
	}
	if impl != out[0] {
		res.DisagreeFor(scanDiffProps(impl, out[0]), c, impl, out[0])
	}
}
