package main

// Real-kernel supplement (supporting evidence only): the UNMODIFIED package, several OS processes
// (this binary re-executed as `lockedfile helper …`) × goroutines, and a system-call order check of the
// unmodified package under strace against the model's programs.

import (
	"bufio"
	"bytes"
	"context"
	"errors"
	"fmt"
	"hash/crc32"
	"io"
	"math/rand"
	"os"
	"os/exec"
	"path/filepath"
	"regexp"
	"runtime"
	"strconv"
	"strings"
	"sync"
	"syscall"
	"time"

	"github.com/rogpeppe/go-internal/lockedfile"

	"verif/harness/internal/corr"
	"verif/harness/internal/mdl"
)

func helperMain(args []string) {
	if len(args) < 1 {
		os.Exit(2)
	}
	switch args[0] {
	case "stress":
		helperStress(args[1:])
	case "sysop":
		helperSysop(args[1], args[2])
	case "hold":
		// keeps whatever descriptors it inherited (exec.Cmd.ExtraFiles) open until stdin is closed
		fmt.Println("holding")
		io.Copy(io.Discard, os.Stdin)
	case "trylock":
		f, err := lockedfile.Edit(args[1])
		if err != nil {
			fmt.Println("error:", err)
			os.Exit(1)
		}
		f.Close()
		fmt.Println("locked")
	}
}

func mkBlob(r *rand.Rand, id string) []byte {
	n := r.Intn(3000)
	payload := bytes.Repeat([]byte{byte('a' + r.Intn(26))}, n)
	body := fmt.Sprintf("%s:%d:%s", id, n, payload)
	return []byte(fmt.Sprintf("%s:%08x", body, crc32.ChecksumIEEE([]byte(body))))
}

func blobOK(b []byte) bool {
	if len(b) == 0 {
		return true // initial contents
	}
	i := bytes.LastIndexByte(b, ':')
	if i < 0 || len(b)-i-1 != 8 {
		return false
	}
	return fmt.Sprintf("%08x", crc32.ChecksumIEEE(b[:i])) == string(b[i+1:])
}

// helperStress: stress <dir> <proc> <goroutines> <iterations> <seed>
func helperStress(a []string) {
	dir := a[0]
	proc, _ := strconv.Atoi(a[1])
	ng, _ := strconv.Atoi(a[2])
	iters, _ := strconv.Atoi(a[3])
	seed, _ := strconv.ParseInt(a[4], 10, 64)
	var mu sync.Mutex
	var out []string
	report := func(f string, x ...any) {
		mu.Lock()
		out = append(out, fmt.Sprintf(f, x...))
		mu.Unlock()
	}
	incs := make([]int, ng)
	stats := make([]map[string]int, ng)
	var wg sync.WaitGroup
	for g := 0; g < ng; g++ {
		wg.Add(1)
		go func(g int) {
			defer wg.Done()
			st := map[string]int{}
			stats[g] = st
			r := rand.New(rand.NewSource(seed*1000 + int64(proc)*100 + int64(g)))
			for it := 0; it < iters; it++ {
				token := fmt.Sprintf("p%d.g%d.i%d", proc, g, it)
				path := filepath.Join(dir, []string{"a", "b"}[r.Intn(2)])
				yield := func() {
					runtime.Gosched()
					if r.Intn(4) == 0 {
						time.Sleep(time.Duration(r.Intn(300)) * time.Microsecond)
					}
				}
				switch k := r.Intn(10); {
				case k < 3: // read lock
					f, err := lockedfile.Open(path)
					if err != nil {
						report("ERROR Open: %v", err)
						continue
					}
					st["rlock"]++
					for i := 0; i < 2; i++ {
						if w, _ := os.ReadFile(path + ".w"); len(w) != 0 {
							report("VIOLATION C06 reader %s holds %s while writer token %q is present", token, path, w)
						}
						yield()
					}
					f.Close()
				case k < 5: // write lock
					f, err := lockedfile.Edit(path)
					if err != nil {
						report("ERROR Edit: %v", err)
						continue
					}
					st["wlock"]++
					if w, _ := os.ReadFile(path + ".w"); len(w) != 0 {
						report("VIOLATION C06 writer %s holds %s while writer token %q is present", token, path, w)
					}
					os.WriteFile(path+".w", []byte(token), 0o666)
					yield()
					if w, _ := os.ReadFile(path + ".w"); string(w) != token {
						report("VIOLATION C06 writer %s holds %s but the witness holds %q", token, path, w)
					}
					os.WriteFile(path+".w", nil, 0o666)
					f.Close()
				case k < 7: // Mutex
					m := lockedfile.MutexAt(path + ".mu")
					unlock, err := m.Lock()
					if err != nil {
						report("ERROR Mutex.Lock: %v", err)
						continue
					}
					st["mutex"]++
					if w, _ := os.ReadFile(path + ".mw"); len(w) != 0 {
						report("VIOLATION C06 mutex holder %s of %s sees token %q", token, path, w)
					}
					os.WriteFile(path+".mw", []byte(token), 0o666)
					yield()
					if w, _ := os.ReadFile(path + ".mw"); string(w) != token {
						report("VIOLATION C06 mutex holder %s of %s: the witness holds %q", token, path, w)
					}
					os.WriteFile(path+".mw", nil, 0o666)
					unlock()
				case k < 8: // counter increment by Transform
					err := lockedfile.Transform(filepath.Join(dir, "cnt"), func(old []byte) ([]byte, error) {
						n := 0
						if len(old) > 0 {
							v, err := strconv.Atoi(string(old))
							if err != nil {
								report("VIOLATION C07 Transform saw a malformed counter %q", old)
								return nil, errors.New("malformed")
							}
							n = v
						}
						yield()
						return []byte(strconv.Itoa(n + 1)), nil
					})
					if err == nil {
						incs[g]++
						st["transform"]++
					}
				case k < 9: // Write of a check-summed blob of varying length
					if err := lockedfile.Write(filepath.Join(dir, "blob"), bytes.NewReader(mkBlob(r, token)), 0o666); err != nil {
						report("ERROR Write: %v", err)
					}
					st["write"]++
				default:
					b, err := lockedfile.Read(filepath.Join(dir, "blob"))
					if err != nil {
						report("ERROR Read: %v", err)
						continue
					}
					st["read"]++
					if !blobOK(b) {
						report("VIOLATION C07 Read returned an incomplete or mixed value of %d bytes", len(b))
					}
				}
			}
		}(g)
	}
	wg.Wait()
	w := bufio.NewWriter(os.Stdout)
	for _, l := range out {
		fmt.Fprintln(w, l)
	}
	total := 0
	for _, n := range incs {
		total += n
	}
	agg := map[string]int{}
	for _, st := range stats {
		for k, v := range st {
			agg[k] += v
		}
	}
	fmt.Fprintf(w, "DONE incs=%d rlock=%d wlock=%d mutex=%d transform=%d write=%d read=%d\n", total, agg["rlock"], agg["wlock"], agg["mutex"], agg["transform"], agg["write"], agg["read"])
	w.Flush()
}

func realKernel(res *corr.Result, tier string, seed int64, scratch string) {
	dupRelease(res, scratch)
	nonRegularTrunc(res, scratch)
	procs, gor, iters := 4, 4, 2000
	if tier == "thorough" {
		procs, gor, iters = 6, 6, 12000
	}
	dir := filepath.Join(scratch, "real")
	os.MkdirAll(dir, 0o777)
	for _, n := range []string{"a", "b", "blob"} {
		os.WriteFile(filepath.Join(dir, n), nil, 0o666)
	}
	exe, err := os.Executable()
	if err != nil {
		res.Observations = append(res.Observations, "real-kernel supplement skipped: "+err.Error())
		return
	}
	ctx, cancel := context.WithTimeout(context.Background(), 10*time.Minute)
	defer cancel()
	t0 := time.Now()
	outs := make([][]byte, procs)
	errs := make([]error, procs)
	var wg sync.WaitGroup
	for p := 0; p < procs; p++ {
		wg.Add(1)
		go func(p int) {
			defer wg.Done()
			cmd := exec.CommandContext(ctx, exe, "helper", "stress", dir, strconv.Itoa(p), strconv.Itoa(gor), strconv.Itoa(iters), strconv.FormatInt(seed, 10))
			outs[p], errs[p] = cmd.Output()
		}(p)
	}
	wg.Wait()
	total := 0
	sum := map[string]int{}
	for p := 0; p < procs; p++ {
		if errs[p] != nil {
			res.Observations = append(res.Observations, fmt.Sprintf("real-kernel helper %d: %v", p, errs[p]))
			continue
		}
		for _, l := range strings.Split(string(outs[p]), "\n") {
			switch {
			case strings.HasPrefix(l, "VIOLATION C06 "):
				res.Violate("C06", "real-kernel "+fmt.Sprint(procs, "x", gor, "x", iters, " seed ", seed), l[14:], "real-kernel-overlap")
			case strings.HasPrefix(l, "VIOLATION C07 "):
				res.Violate("C07", "real-kernel "+fmt.Sprint(procs, "x", gor, "x", iters, " seed ", seed), l[14:], "real-kernel-contents")
			case strings.HasPrefix(l, "ERROR "):
				res.Observations = append(res.Observations, "real-kernel: "+l)
			case strings.HasPrefix(l, "DONE "):
				for _, kv := range strings.Fields(l[5:]) {
					if i := strings.Index(kv, "="); i > 0 {
						n, _ := strconv.Atoi(kv[i+1:])
						sum[kv[:i]] += n
					}
				}
			}
		}
	}
	total = sum["incs"]
	cnt, _ := os.ReadFile(filepath.Join(dir, "cnt"))
	got := 0
	if len(cnt) > 0 {
		got, _ = strconv.Atoi(string(cnt))
	}
	res.OracleChecked["C07"] += sum["transform"] + sum["read"]
	res.OracleChecked["C06"] += sum["rlock"] + sum["wlock"] + sum["mutex"]
	if got != total {
		res.Violate("C07", "real-kernel "+fmt.Sprint(procs, "x", gor, "x", iters, " seed ", seed), fmt.Sprintf("lost update: %d successful Transform increments, counter is %d", total, got), "real-kernel-lost-update")
	}
	res.Extra["real_kernel"] = map[string]any{"processes": procs, "goroutines_per_process": gor, "iterations_per_goroutine": iters,
		"critical_sections": sum, "counter": got, "seconds": time.Since(t0).Seconds(),
		"note": "unmodified package on the real kernel; overlap witness = unlocked side file; supporting evidence only"}
}

// ---- Close must release the lock itself, also when the open file description is shared

const releaseBound = 3 * time.Second // a lock that Close released is acquired in microseconds

// acquireWithin reports whether a write lock on path can be taken within releaseBound; the attempt is left
// running (it releases at once) and `wait` joins it.
func acquireWithin(path string) (ok bool, wait func()) {
	done := make(chan error, 1)
	go func() {
		f, err := lockedfile.Edit(path)
		if err == nil {
			f.Close()
		}
		done <- err
	}()
	select {
	case err := <-done:
		return err == nil, func() {}
	case <-time.After(releaseBound):
		return false, func() {
			select {
			case <-done:
			case <-time.After(10 * time.Second):
			}
		}
	}
}

// fdOfPath finds a descriptor of this process that refers to path and is not in `before`.
func fdsOfPath(path string) map[int]bool {
	out := map[int]bool{}
	ents, _ := os.ReadDir("/proc/self/fd")
	for _, e := range ents {
		n, err := strconv.Atoi(e.Name())
		if err != nil {
			continue
		}
		if l, err := os.Readlink("/proc/self/fd/" + e.Name()); err == nil && l == path {
			out[n] = true
		}
	}
	return out
}

// dupRelease: "the lock is held … until Close (or the returned unlock function) is called, and is released by
// that call" — also when another descriptor (dup) or another process (inherited descriptor) shares the open
// file description at that moment.  flock(2) locks belong to the description: without the explicit LOCK_UN
// in closeFile the lock would survive Close until the last sharer closes.
func dupRelease(res *corr.Result, scratch string) {
	dir := filepath.Join(scratch, "dup")
	os.MkdirAll(dir, 0o777)
	exe, _ := os.Executable()
	report := func(variant, what string) {
		res.Violate("C06", "real-kernel dup-release "+variant, what, "lock-not-released-by-close")
	}
	type opener struct {
		name string
		open func(path string) (*lockedfile.File, error)
	}
	openers := []opener{
		{"Edit", lockedfile.Edit},
		{"Create", lockedfile.Create},
		{"OpenFile(O_WRONLY|O_CREATE)", func(p string) (*lockedfile.File, error) {
			return lockedfile.OpenFile(p, os.O_WRONLY|os.O_CREATE, 0o666)
		}},
		{"OpenFile(O_RDWR|O_APPEND)", func(p string) (*lockedfile.File, error) {
			return lockedfile.OpenFile(p, os.O_RDWR|os.O_APPEND, 0o666)
		}},
		{"Open (read lock, then a writer)", lockedfile.Open},
	}
	// (a) in-process: a dup'ed descriptor is still open when Close is called
	for i, o := range openers {
		path := filepath.Join(dir, fmt.Sprintf("f%d", i))
		os.WriteFile(path, []byte("x"), 0o666)
		f, err := o.open(path)
		if err != nil {
			res.Observations = append(res.Observations, "dup-release: "+o.name+": "+err.Error())
			continue
		}
		d, err := syscall.Dup(int(f.Fd()))
		if err != nil {
			f.Close()
			continue
		}
		f.Close()
		res.OracleChecked["C06"]++
		ok, wait := acquireWithin(path)
		syscall.Close(d)
		wait()
		if !ok {
			report("dup "+o.name, fmt.Sprintf("after %s + Close, with a dup of the descriptor still open, a write lock on the file could not be taken within %v: Close did not release the lock", o.name, releaseBound))
		}
	}
	// Mutex: the unlock function must release although the lock file's description is shared
	{
		path := filepath.Join(dir, "mu")
		before := fdsOfPath(path)
		unlock, err := lockedfile.MutexAt(path).Lock()
		if err == nil {
			d := -1
			for fd := range fdsOfPath(path) {
				if !before[fd] {
					d, _ = syscall.Dup(fd)
				}
			}
			unlock()
			if d >= 0 {
				res.OracleChecked["C06"]++
				done := make(chan bool, 1)
				go func() {
					u, err := lockedfile.MutexAt(path).Lock()
					if err == nil {
						u()
					}
					done <- err == nil
				}()
				ok := false
				select {
				case ok = <-done:
					syscall.Close(d)
				case <-time.After(releaseBound):
					syscall.Close(d)
					select {
					case <-done:
					case <-time.After(10 * time.Second):
					}
				}
				if !ok {
					report("dup Mutex", fmt.Sprintf("after Mutex.Lock + unlock, with a dup of the lock file's descriptor still open, the Mutex could not be locked again within %v", releaseBound))
				}
			}
		}
	}
	// (b) cross-process: a child process has inherited the descriptor and is still running at Close
	if exe != "" {
		path := filepath.Join(dir, "x")
		os.WriteFile(path, []byte("x"), 0o666)
		f, err := lockedfile.Edit(path)
		if err == nil {
			d, derr := syscall.Dup(int(f.Fd()))
			if derr != nil {
				f.Close()
				return
			}
			inh := os.NewFile(uintptr(d), "inherited")
			holder := exec.Command(exe, "helper", "hold")
			holder.ExtraFiles = []*os.File{inh}
			stdin, _ := holder.StdinPipe()
			stdout, _ := holder.StdoutPipe()
			if err := holder.Start(); err != nil {
				inh.Close()
				f.Close()
				return
			}
			bufio.NewReader(stdout).ReadString('\n') // the child is up and owns its copy
			inh.Close()                               // the parent's dup goes away: only the child shares the description
			f.Close()
			res.OracleChecked["C06"]++
			ctx, cancel := context.WithTimeout(context.Background(), releaseBound)
			out, terr := exec.CommandContext(ctx, exe, "helper", "trylock", path).Output()
			cancel()
			stdin.Close()
			holder.Wait()
			if terr != nil || !strings.Contains(string(out), "locked") {
				report("inherited descriptor", fmt.Sprintf("after Edit + Close, while a child process that inherited the descriptor is still running, another process could not write-lock the file within %v: Close did not release the lock", releaseBound))
			}
		}
	}
}

// ---- strace

func helperSysop(dir, spec string) {
	file := filepath.Join(dir, "f")
	arg := spec[1:]
	unhex := func(s string) []byte {
		if s == "-" || s == "" {
			return nil
		}
		return corr.Unhx(s)
	}
	switch spec[0] {
	case 'r':
		lockedfile.Read(file)
	case 'w':
		lockedfile.Write(file, bytes.NewReader(unhex(arg)), 0o666)
	case 't', 'a', 'x':
		lockedfile.Transform(file, func(old []byte) ([]byte, error) {
			switch spec[0] {
			case 'a':
				return append(append([]byte{}, old...), unhex(arg)...), nil
			case 'x':
				return nil, errors.New("fail")
			}
			return unhex(arg), nil
		})
	case 'm':
		if unlock, err := lockedfile.MutexAt(filepath.Join(dir, "m")).Lock(); err == nil {
			unlock()
		}
	case 'o', 'c', 'e', 'n':
		var f *lockedfile.File
		var err error
		switch spec[0] {
		case 'o':
			flag, _ := strconv.Atoi(strings.TrimSuffix(arg, ":"))
			f, err = lockedfile.OpenFile(file, flag, 0o666)
		case 'c':
			f, err = lockedfile.Create(file)
		case 'e':
			f, err = lockedfile.Edit(file)
		case 'n':
			f, err = lockedfile.Open(file)
		}
		if err == nil {
			f.Close()
		}
	}
}

func soloCalls(spec string) string {
	arg := spec[1:]
	switch spec[0] {
	case 'r':
		return "read f"
	case 'w':
		return "write f " + arg
	case 't', 'a', 'x':
		return "transform f " + spec
	case 'm':
		return "mlock " + arg + ";munlock"
	case 'c':
		return "create f;close"
	case 'e':
		return "edit f;close"
	case 'n':
		return "open f;close"
	case 'o':
		return "openfile f " + strings.TrimSuffix(arg, ":") + ";close"
	}
	return ""
}

var (
	stCall    = regexp.MustCompile(`^(\d+)\s+(openat|flock|ftruncate|close)\((.*)$`)
	stResumed = regexp.MustCompile(`^(\d+)\s+<\.\.\. (openat|flock|ftruncate|close) resumed>(.*)$`)
	stRet     = regexp.MustCompile(`=\s+(-?\d+)(?:\s+(\w+))?`)
)

func straceFlags(s string) string {
	acc, rest := "", ""
	for _, f := range strings.Split(s, "|") {
		switch f {
		case "O_RDONLY":
			acc = "RDONLY"
		case "O_WRONLY":
			acc = "WRONLY"
		case "O_RDWR":
			acc = "RDWR"
		}
	}
	for _, p := range [][2]string{{"O_CREAT", "+CREATE"}, {"O_TRUNC", "+TRUNC"}, {"O_EXCL", "+EXCL"}, {"O_APPEND", "+APPEND"}} {
		for _, f := range strings.Split(s, "|") {
			if f == p[0] {
				rest += p[1]
			}
		}
	}
	return acc + rest
}

// parseStrace extracts, in call order, the calls on descriptors opened on dir/f or dir/m.
func parseStrace(data []byte, dir string) []string {
	var out []string
	fds := map[string]string{} // fd -> name
	type pend struct {
		call, args string
		slot       int
	}
	pending := map[string]*pend{}
	finish := func(call, args, ret, errno string, slot int) {
		switch call {
		case "openat":
			m := regexp.MustCompile(`^AT_FDCWD, "([^"]*)", ([A-Z_|0-9x]+)`).FindStringSubmatch(args)
			if m == nil || filepath.Dir(m[1]) != dir {
				return
			}
			name := filepath.Base(m[1])
			if name != "f" && name != "m" {
				return
			}
			s := "open " + name + " " + straceFlags(m[2])
			if ret == "-1" {
				s += " -> " + strings.ToLower(errno)
			} else {
				fds[ret] = name
			}
			if slot >= 0 {
				out[slot] = s
			} else {
				out = append(out, s)
			}
		}
	}
	for _, l := range strings.Split(string(data), "\n") {
		if m := stResumed.FindStringSubmatch(l); m != nil {
			p := pending[m[1]]
			delete(pending, m[1])
			if p != nil && p.call == "openat" {
				r := stRet.FindStringSubmatch(m[3])
				if r != nil {
					finish("openat", p.args, r[1], r[2], p.slot)
				}
			}
			continue
		}
		m := stCall.FindStringSubmatch(l)
		if m == nil {
			continue
		}
		pid, call, rest := m[1], m[2], m[3]
		unfinished := strings.Contains(rest, "<unfinished")
		r := stRet.FindStringSubmatch(rest)
		switch call {
		case "openat":
			if unfinished {
				out = append(out, "")
				pending[pid] = &pend{"openat", rest, len(out) - 1}
			} else if r != nil {
				finish("openat", rest, r[1], r[2], -1)
			}
		default:
			a := strings.SplitN(rest, ")", 2)[0]
			a = strings.TrimSuffix(strings.TrimSpace(strings.Split(a, "<unfinished")[0]), ",")
			parts := strings.Split(a, ", ")
			name, ok := fds[parts[0]]
			if !ok {
				continue
			}
			_ = name
			switch call {
			case "flock":
				k := map[string]string{"LOCK_SH": "SH", "LOCK_EX": "EX", "LOCK_UN": "UN"}[strings.TrimSpace(parts[1])]
				out = append(out, "flock "+k)
			case "ftruncate":
				s := "ftruncate " + strings.TrimSpace(parts[1])
				if r != nil && r[1] == "-1" {
					s += " -> " + strings.ToLower(r[2])
				}
				out = append(out, s)
			case "close":
				out = append(out, "close")
				delete(fds, parts[0])
			}
		}
	}
	var clean []string
	for _, s := range out {
		if s != "" {
			clean = append(clean, s)
		}
	}
	return clean
}

var fdNum = regexp.MustCompile(` fd\d+`)

// modelCalls reduces the model's solo run to the same vocabulary.
func modelCalls(solo string) []string {
	var out []string
	for _, ev := range strings.Split(solo, "|") {
		ev = fdNum.ReplaceAllString(ev, "")
		f := strings.Fields(ev)
		if len(f) == 0 {
			continue
		}
		switch f[0] {
		case "open":
			s := "open " + f[1] + " " + f[2]
			if len(f) > 4 && !strings.HasPrefix(f[4], "ok:") {
				s += " -> " + f[4]
			}
			out = append(out, s)
		case "flock":
			out = append(out, "flock "+f[1])
		case "ftruncate":
			s := "ftruncate " + f[1]
			if len(f) > 3 {
				s += " -> " + f[3]
			}
			out = append(out, s)
		case "close":
			out = append(out, "close")
		}
	}
	return out
}

func straceCheck(res *corr.Result, model, scratch string) {
	if _, err := exec.LookPath("strace"); err != nil {
		res.Observations = append(res.Observations, "strace not available: system-call order of the unmodified package not checked")
		return
	}
	exe, err := os.Executable()
	if err != nil {
		return
	}
	var specs []string
	for _, s := range []string{"r", "w616263", "w-", "t6162636465", "t61", "t-", "a6263", "x", "c:", "e:", "n:", "m0"} {
		specs = append(specs, s)
	}
	for acc := 0; acc < 3; acc++ {
		for sub := 0; sub < 16; sub++ {
			flag := acc
			for i, b := range []int{os.O_CREATE, os.O_TRUNC, os.O_APPEND, os.O_EXCL} {
				if sub&(1<<i) != 0 {
					flag |= b
				}
			}
			specs = append(specs, fmt.Sprintf("o%d:", flag))
		}
	}
	type job struct {
		spec, init string
		obs        []string
		err        error
	}
	var jobs []*job
	for _, s := range specs {
		for _, ini := range []string{"none", "717273"} {
			jobs = append(jobs, &job{spec: s, init: ini})
		}
	}
	sem := make(chan struct{}, 8)
	var wg sync.WaitGroup
	for i, j := range jobs {
		wg.Add(1)
		sem <- struct{}{}
		go func(i int, j *job) {
			defer wg.Done()
			defer func() { <-sem }()
			dir := filepath.Join(scratch, fmt.Sprintf("st%d", i))
			os.MkdirAll(dir, 0o777)
			if j.init != "none" {
				os.WriteFile(filepath.Join(dir, "f"), corr.Unhx(j.init), 0o666)
			}
			outf := filepath.Join(dir, "strace.out")
			cmd := exec.Command("strace", "-f", "-o", outf, "-e", "trace=openat,flock,ftruncate,close", exe, "helper", "sysop", dir, j.spec)
			if out, err := cmd.CombinedOutput(); err != nil {
				j.err = fmt.Errorf("%v: %s", err, out)
				return
			}
			data, err := os.ReadFile(outf)
			if err != nil {
				j.err = err
				return
			}
			j.obs = parseStrace(data, dir)
		}(i, j)
	}
	wg.Wait()
	var lines []string
	for _, j := range jobs {
		lines = append(lines, "solo\t"+j.init+"\t"+soloCalls(j.spec))
	}
	out, err := mdl.Run(model, nil, lines, 0)
	if err != nil {
		res.Disagree("<strace model run>", "", err.Error())
		return
	}
	checked, failed := 0, 0
	for i, j := range jobs {
		if j.err != nil {
			failed++
			if failed == 1 {
				res.Observations = append(res.Observations, "strace run failed (order check skipped for it): "+j.err.Error())
			}
			continue
		}
		checked++
		want := strings.Join(modelCalls(out[i]), " | ")
		got := strings.Join(j.obs, " | ")
		if want != got {
			// differences that vanish when the ftruncate calls are ignored concern only C07
			strip := func(l []string) string {
				var o []string
				for _, s := range l {
					if !strings.HasPrefix(s, "ftruncate") {
						o = append(o, s)
					}
				}
				return strings.Join(o, " | ")
			}
			props := []string{"C06", "C07"}
			if strip(modelCalls(out[i])) == strip(j.obs) {
				props = []string{"C07"}
			}
			res.DisagreeFor(props, "strace "+j.spec+" init="+j.init, got, want)
		}
	}
	res.Distribution["strace-order-checks"] = checked
	res.Extra["strace"] = map[string]any{"checked": checked, "failed_to_run": failed,
		"what": "openat/flock/ftruncate/close order of the unmodified package for each public entry point and each access mode × {O_CREATE,O_TRUNC,O_APPEND,O_EXCL} subset, file present and absent, equals the model's program"}
}


// nonRegularTrunc: O_TRUNC on a file that cannot be truncated (a FIFO: ftruncate fails with EINVAL, and the package
// deliberately ignores that error for non-regular files) must still return the file LOCKED: "a caller that obtains a
// write-locked file holds it exclusively until Close".  The lock is probed from a second open file description
// with a non-blocking flock.  (seeded C06-m5: the truncate helper unlocked before deciding that the error is ignorable)
func nonRegularTrunc(res *corr.Result, scratch string) {
	dir := filepath.Join(scratch, "fifo")
	os.MkdirAll(dir, 0o777)
	type opener struct {
		name string
		open func(path string) (*lockedfile.File, error)
	}
	openers := []opener{
		{"OpenFile(O_RDWR|O_TRUNC)", func(p string) (*lockedfile.File, error) { return lockedfile.OpenFile(p, os.O_RDWR|os.O_TRUNC, 0) }},
		{"OpenFile(O_RDWR|O_CREATE|O_TRUNC)", func(p string) (*lockedfile.File, error) {
			return lockedfile.OpenFile(p, os.O_RDWR|os.O_CREATE|os.O_TRUNC, 0o666)
		}},
	}
	for i, op := range openers {
		path := filepath.Join(dir, fmt.Sprintf("pipe%d", i))
		if err := syscall.Mkfifo(path, 0o666); err != nil {
			res.Observations = append(res.Observations, "nonRegularTrunc: mkfifo unavailable: "+err.Error())
			return
		}
		// keep a reader/writer end open so that no open blocks
		keep, err := os.OpenFile(path, os.O_RDWR, 0)
		if err != nil {
			res.Observations = append(res.Observations, "nonRegularTrunc: cannot open the fifo: "+err.Error())
			return
		}
		f, err := op.open(path)
		res.OracleChecked["C06"]++
		if err != nil {
			// refusing is acceptable (no file handed out); nothing to check
			keep.Close()
			continue
		}
		probe, perr := os.OpenFile(path, os.O_RDWR, 0)
		if perr == nil {
			lerr := syscall.Flock(int(probe.Fd()), syscall.LOCK_EX|syscall.LOCK_NB)
			if lerr == nil {
				syscall.Flock(int(probe.Fd()), syscall.LOCK_UN)
				res.Violate("C06", "real-kernel non-regular-trunc "+op.name+" on a FIFO", "the returned file does not hold its lock: another open file description obtained LOCK_EX while it was open", "not-held-at-return")
			}
			probe.Close()
		}
		f.Close()
		// after Close the lock must be free again
		probe2, perr2 := os.OpenFile(path, os.O_RDWR, 0)
		if perr2 == nil {
			if lerr := syscall.Flock(int(probe2.Fd()), syscall.LOCK_EX|syscall.LOCK_NB); lerr != nil {
				res.Violate("C06", "real-kernel non-regular-trunc "+op.name+" on a FIFO", "the lock is still held after Close: "+lerr.Error(), "held-after-close")
			} else {
				syscall.Flock(int(probe2.Fd()), syscall.LOCK_UN)
			}
			probe2.Close()
		}
		keep.Close()
	}
}
