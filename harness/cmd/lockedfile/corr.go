package main

import (
	"bufio"
	"bytes"
	"fmt"
	"io"
	"math/rand"
	"os"
	"os/exec"
	"path/filepath"
	"regexp"
	"runtime"
	"strconv"
	"strings"
	"sync"

	"verif/harness/internal/corr"
	"verif/harness/internal/mdl"
	"verif/harness/internal/shimkit"
)

func verifRoot() string {
	if r := os.Getenv("VERIF_ROOT"); r != "" {
		return r
	}
	return "/verif"
}

func repoRoot() string {
	if r := os.Getenv("VERIF_REPO"); r != "" {
		return r
	}
	return "/repo"
}

var shimFiles = []string{"lockedfile/lockedfile.go", "lockedfile/lockedfile_filelock.go", "lockedfile/mutex.go",
	"lockedfile/internal/filelock/filelock.go", "lockedfile/internal/filelock/filelock_unix.go"}

func buildShim() (*shimkit.Built, error) {
	h := filepath.Join(verifRoot(), "harness")
	return shimkit.Build(shimkit.Spec{Repo: repoRoot(), Files: shimFiles,
		DriverDir: filepath.Join(h, "shimcmd", "lockedfile"), VshimDir: filepath.Join(h, "vshim")})
}

// ---------------------------------------------------------------- executions of the instrumented package

// A request is one line for the instrumented driver, with "@" standing for the scratch directory.
type request struct {
	line string // "run @ <clients> <sched> [opts]" or "dfs @ <clients> <bound> <max> [opts]"
	kind string // generator that produced it (for the distribution)
}

type event struct {
	idx  int
	proc int
	op   string
	args []string
	res  string
}

type execution struct {
	req    string // the request that reproduces it (a `run` line with the choice list)
	kind   string
	init   string // "none" or hex
	trace  string
	events []event
	end    string
	final  string
	sched  string
}

var execRe = regexp.MustCompile(`^TRACE (.*) END (\S+) FINAL (\S+) SCHED (\S+)$`)

func parseEvents(trace string) ([]event, error) {
	if trace == "" {
		return nil, nil
	}
	parts := strings.Split(trace, "|")
	evs := make([]event, 0, len(parts))
	for i, p := range parts {
		lhs, res := p, ""
		if j := strings.Index(p, " -> "); j >= 0 {
			lhs, res = p[:j], p[j+4:]
		}
		f := strings.Split(lhs, " ")
		if len(f) < 3 || !strings.HasPrefix(f[0], "p") {
			return nil, fmt.Errorf("unparsable event %q", p)
		}
		proc, err := strconv.Atoi(f[0][1:])
		if err != nil {
			return nil, fmt.Errorf("unparsable event %q", p)
		}
		evs = append(evs, event{i, proc, f[2], f[3:], res})
	}
	return evs, nil
}

func reqInit(fields []string) string {
	for _, f := range fields {
		if strings.HasPrefix(f, "init:") {
			if f[5:] == "" {
				return "-"
			}
			return f[5:]
		}
	}
	return "none"
}

func reqOpts(fields []string) string {
	var o []string
	for _, f := range fields {
		if strings.HasPrefix(f, "init:") || strings.HasPrefix(f, "fault:") {
			o = append(o, f)
		}
	}
	if len(o) == 0 {
		return ""
	}
	return " " + strings.Join(o, " ")
}

func (x *execution) replayLine() string {
	return strings.Join([]string{"replay", x.init, x.trace, x.end, x.final}, "\t")
}

// runShim feeds the requests to `workers` copies of the instrumented driver (each with its own
// scratch directory) and returns the executions in request order.
func runShim(bin, scratch string, reqs []request, workers int) ([]*execution, error) {
	if workers > len(reqs) {
		workers = len(reqs)
	}
	if workers < 1 {
		workers = 1
	}
	per := make([][]*execution, len(reqs))
	errs := make([]error, workers)
	var wg sync.WaitGroup
	chunk := (len(reqs) + workers - 1) / workers
	for w := 0; w < workers; w++ {
		lo, hi := w*chunk, (w+1)*chunk
		if hi > len(reqs) {
			hi = len(reqs)
		}
		if lo >= hi {
			continue
		}
		wg.Add(1)
		go func(w, lo, hi int) {
			defer wg.Done()
			dir := filepath.Join(scratch, fmt.Sprintf("w%d", w))
			cmd := exec.Command(bin)
			stdin, _ := cmd.StdinPipe()
			stdout, _ := cmd.StdoutPipe()
			var stderr bytes.Buffer
			cmd.Stderr = &stderr
			if err := cmd.Start(); err != nil {
				errs[w] = err
				return
			}
			go func() {
				bw := bufio.NewWriter(stdin)
				for _, r := range reqs[lo:hi] {
					bw.WriteString(strings.Replace(r.line, "@", dir, 1))
					bw.WriteByte('\n')
				}
				bw.Flush()
				stdin.Close()
			}()
			rd := bufio.NewReaderSize(stdout, 1<<16)
			for i := lo; i < hi; i++ {
				fields := strings.Fields(reqs[i].line)
				isDfs := fields[0] == "dfs"
				for {
					line, err := rd.ReadString('\n')
					if err != nil {
						errs[w] = fmt.Errorf("instrumented driver ended early (%v): %s", err, stderr.String())
						cmd.Wait()
						return
					}
					line = strings.TrimRight(line, "\n")
					if strings.HasPrefix(line, "DFSEND") {
						break
					}
					m := execRe.FindStringSubmatch(line)
					if m == nil {
						errs[w] = fmt.Errorf("unexpected driver output %.200q for %q", line, reqs[i].line)
						cmd.Wait()
						return
					}
					evs, err := parseEvents(m[1])
					if err != nil {
						errs[w] = err
						cmd.Wait()
						return
					}
					x := &execution{kind: reqs[i].kind, init: reqInit(fields), trace: m[1], events: evs, end: m[2], final: m[3], sched: m[4]}
					x.req = "run @ " + fields[2] + " " + m[4] + reqOpts(fields)
					per[i] = append(per[i], x)
					if !isDfs {
						break
					}
				}
			}
			io.Copy(io.Discard, rd)
			if err := cmd.Wait(); err != nil {
				errs[w] = fmt.Errorf("instrumented driver: %v: %s", err, stderr.String())
			}
		}(w, lo, hi)
	}
	wg.Wait()
	for _, e := range errs {
		if e != nil {
			return nil, e
		}
	}
	var out []*execution
	for _, p := range per {
		out = append(out, p...)
	}
	return out, nil
}

// ---------------------------------------------------------------- oracles (independent of the Lean model)

type opRec struct {
	kind    string // read write transform mlock openfile(create/edit/open) user close munlock
	args    []string
	path    string
	fd      int // descriptor opened by this operation (-1: none)
	acquire int // event index of the successful flock
	snap    *string
	faults  []string // event op names of injected faults (fail / short), EINTR not counted
	enoent  bool
	mutated bool
}

type handleRec struct {
	fd   int
	mode string
	path string
	// mutated: some write / pwrite / ftruncate took effect through this descriptor
	mutated bool
}

func strp(s string) *string { return &s }

func hexCat(a, b string) string {
	if a == "-" {
		a = ""
	}
	if b == "-" {
		b = ""
	}
	if a+b == "" {
		return "-"
	}
	return a + b
}

func modeOfFlagNum(flag int) string {
	if flag&3 == 1 || flag&3 == 2 {
		return "EX"
	}
	return "SH"
}

// oracle checks C06 and C07 on one execution, from the trace alone.
func oracle(res *corr.Result, x *execution) {
	viol := func(prop, what, class string, e event) {
		res.Violate(prop, x.req, fmt.Sprintf("%s (event %d: p%d %s %s -> %s)", what, e.idx, e.proc, e.op, strings.Join(e.args, " "), e.res), class)
	}
	fdPath := map[int]string{}
	fdProc := map[int]int{}
	held := map[int]string{}         // fd -> EX | SH
	fdMut := map[int]bool{}          // fd -> some mutation took effect through it
	cur := map[string]*string{}      // path -> known committed contents (hex), nil = unknown
	ops := map[int]*opRec{}          // proc -> running operation
	handles := map[int]*handleRec{}  // proc -> File handed out by OpenFile / Create / Edit / Open
	mhandles := map[int]*handleRec{} // proc -> file captured by a Mutex unlock function
	inCritical := map[int]bool{}
	if x.init == "none" {
		cur["f"] = strp("-")
	} else {
		cur["f"] = strp(x.init)
	}
	cur["g"] = strp("-")
	cur["m"] = strp("-")
	fdOf := func(s string) int {
		n, err := strconv.Atoi(strings.TrimPrefix(s, "fd"))
		if err != nil {
			return -1
		}
		return n
	}
	release := func(fd int, e event) {
		k := held[fd]
		delete(held, fd)
		if k != "EX" {
			return
		}
		p := fdPath[fd]
		o := ops[fdProc[fd]]
		if o == nil || o.fd != fd {
			// released outside the operation that opened it: Close of a raw handle / Mutex unlock
			if !fdMut[fd] {
				return
			}
			cur[p] = nil
			return
		}
		nf := 0
		for _, f := range o.faults {
			if f != "flock-un" && f != "close" {
				nf++
			}
		}
		switch o.kind {
		case "write":
			switch {
			case nf == 0:
				cur[p] = strp(o.args[1])
			case !o.mutated:
			default:
				cur[p] = nil
			}
		case "transform":
			spec := o.args[1]
			switch {
			case nf == 0 && spec[0] == 'x':
			case nf == 0 && spec[0] == 't':
				cur[p] = strp(spec[1:])
			case nf == 0 && spec[0] == 'a':
				if o.snap != nil {
					cur[p] = strp(hexCat(*o.snap, spec[1:]))
				} else {
					cur[p] = nil
				}
			case nf == 1:
				// the property: after any single failure the previous contents remain
				if o.snap != nil {
					cur[p] = o.snap
				} else if o.mutated {
					cur[p] = nil
				}
			default:
				if o.mutated {
					cur[p] = nil
				}
			}
		default:
			if fdMut[fd] {
				cur[p] = nil
			}
		}
	}
	isFault := func(e event) bool {
		if e.op == "flock" && e.res == "eintr" {
			return false // retried by filelock.lock
		}
		return e.res == "fail" || e.res == "eintr" || strings.HasPrefix(e.res, "short:")
	}
	for _, e := range x.events {
		if strings.HasPrefix(e.res, "kernel-disagrees") {
			viol("C06", "the kernel's flock disagrees with the lock table", "kernel-disagrees", e)
		}
		o := ops[e.proc]
		switch e.op {
		case "panic":
			viol("C06", "panic", "panic", e)
		case "call":
			switch e.args[0] {
			case "read", "write", "transform":
				ops[e.proc] = &opRec{kind: e.args[0], args: e.args[1:], path: e.args[1], fd: -1, acquire: -1}
			case "mlock":
				ops[e.proc] = &opRec{kind: "mlock", args: e.args[1:], path: "m", fd: -1, acquire: -1}
			case "openfile", "create", "edit", "open":
				ops[e.proc] = &opRec{kind: e.args[0], args: e.args[1:], path: e.args[1], fd: -1, acquire: -1}
			case "user":
				ops[e.proc] = &opRec{kind: "user", fd: -1, acquire: -1}
			case "close":
				ops[e.proc] = &opRec{kind: "close", fd: -1, acquire: -1}
				if h := handles[e.proc]; h != nil {
					res.OracleChecked["C06"]++
					if held[h.fd] != h.mode {
						viol("C06", "the lock is no longer held when Close is called", "lost-before-close", e)
					}
				}
			case "munlock":
				ops[e.proc] = &opRec{kind: "munlock", fd: -1, acquire: -1}
				inCritical[e.proc] = false
				if h := mhandles[e.proc]; h != nil {
					res.OracleChecked["C06"]++
					if held[h.fd] != "EX" {
						viol("C06", "the Mutex file lock is no longer held when unlock is called", "lost-before-close", e)
					}
				}
			}
		case "ret":
			if o == nil {
				continue
			}
			nf := len(o.faults)
			switch e.args[0] {
			case "read":
				res.OracleChecked["C07"]++
				if e.args[1] == "ok" {
					if o.snap != nil && *o.snap != e.args[2] {
						viol("C07", fmt.Sprintf("Read returned %s, the contents left by the last writer before its lock were %s", e.args[2], *o.snap), "read-not-last-committed", e)
					}
					if o.acquire < 0 {
						viol("C07", "Read returned without having held the lock", "read-without-lock", e)
					}
				} else if nf == 0 && !o.enoent {
					viol("C07", "Read failed without an injected fault", "unexpected-error", e)
				}
			case "write":
				res.OracleChecked["C07"]++
				if (e.args[1] == "ok") != (nf == 0) {
					viol("C07", "Write status does not match the injected faults", "write-status", e)
				}
			case "transform":
				res.OracleChecked["C07"]++
				spec := o.args[1]
				pre := 0
				for _, f := range o.faults {
					if f != "flock-un" && f != "close" {
						pre++
					}
				}
				wantOK := pre == 0 && spec[0] != 'x'
				if (e.args[1] == "ok") != wantOK {
					viol("C07", fmt.Sprintf("Transform returned %s with %d fault(s) before its unlock", e.args[1], pre), "transform-status", e)
				}
				if e.args[1] == "ok" && o.snap != nil && e.args[2] != *o.snap {
					viol("C07", fmt.Sprintf("Transform's function saw %s, the latest contents were %s", e.args[2], *o.snap), "transform-stale", e)
				}
			case "mlock":
				if e.args[1] == "ok" {
					res.OracleChecked["C06"]++
					if o.fd < 0 || held[o.fd] != "EX" {
						viol("C06", "Mutex.Lock returned without the exclusive file lock", "not-held-at-return", e)
					}
					for p, in := range inCritical {
						if in && p != e.proc {
							viol("C06", fmt.Sprintf("two Mutex critical sections overlap (p%d and p%d)", p, e.proc), "mutex-overlap", e)
						}
					}
					inCritical[e.proc] = true
					mhandles[e.proc] = &handleRec{fd: o.fd, mode: "EX", path: "m"}
				}
			case "openfile":
				if e.args[1] == "ok" {
					mode := "EX"
					switch o.kind {
					case "open":
						mode = "SH"
					case "openfile":
						n, _ := strconv.Atoi(o.args[1])
						mode = modeOfFlagNum(n)
					}
					res.OracleChecked["C06"]++
					if o.fd < 0 || held[o.fd] != mode {
						viol("C06", "OpenFile returned without the "+mode+" lock", "not-held-at-return", e)
					}
					handles[e.proc] = &handleRec{fd: o.fd, mode: mode, path: o.path}
				}
			case "close":
				if h := handles[e.proc]; h != nil {
					res.OracleChecked["C06"]++
					if e.args[1] == "ok" && held[h.fd] != "" {
						viol("C06", "the lock is still held after Close returned nil", "held-after-close", e)
					}
					delete(handles, e.proc)
				}
			case "munlock":
				if h := mhandles[e.proc]; h != nil && nf == 0 {
					res.OracleChecked["C06"]++
					if held[h.fd] != "" {
						viol("C06", "the Mutex file lock is still held after unlock returned", "held-after-close", e)
					}
				}
				delete(mhandles, e.proc)
			}
			delete(ops, e.proc)
		case "open":
			if strings.Contains(e.args[1], "TRUNC") && e.res != "fail" {
				viol("C07", "O_TRUNC reached open(2): the file is truncated before the lock is held", "trunc-at-open", e)
			}
			if strings.HasPrefix(e.res, "ok:fd") {
				fd := fdOf(e.res[3:])
				fdPath[fd] = e.args[0]
				fdProc[fd] = e.proc
				if o != nil {
					o.fd = fd
				}
			} else if o != nil {
				if e.res == "enoent" {
					o.enoent = true
				} else if isFault(e) {
					o.faults = append(o.faults, "open")
				}
			}
		case "flock":
			fd := fdOf(e.args[0])
			kind := e.args[1]
			if isFault(e) && o != nil {
				if kind == "UN" {
					o.faults = append(o.faults, "flock-un")
				} else {
					o.faults = append(o.faults, "flock")
				}
			}
			if e.res != "" {
				continue
			}
			if kind == "UN" {
				release(fd, e)
				continue
			}
			res.OracleChecked["C06"]++
			p := fdPath[fd]
			for other, k := range held {
				if other != fd && fdPath[other] == p && (kind == "EX" || k == "EX") {
					viol("C06", fmt.Sprintf("fd%d takes %s on %s while fd%d holds %s", fd, kind, p, other, k), "lock-overlap", e)
				}
			}
			held[fd] = kind
			if o != nil && o.fd == fd && o.acquire < 0 {
				o.acquire = e.idx
				o.snap = cur[p]
			}
		case "close":
			fd := fdOf(e.args[0])
			if isFault(e) && o != nil {
				o.faults = append(o.faults, "close")
			}
			if e.res == "" {
				if held[fd] != "" {
					release(fd, e)
				}
			}
		case "write", "pwrite", "ftruncate":
			fd := fdOf(e.args[0])
			took := e.res == "" || strings.HasPrefix(e.res, "ok:") || strings.HasPrefix(e.res, "short:")
			if isFault(e) && o != nil {
				o.faults = append(o.faults, e.op)
			}
			if took {
				res.OracleChecked["C07"]++
				if held[fd] != "EX" {
					viol("C07", "the file is modified through a descriptor that does not hold the exclusive lock", "mutation-without-ex", e)
				}
				fdMut[fd] = true
				if o != nil {
					o.mutated = true
				}
			}
		case "read", "fstat":
			if isFault(e) && o != nil {
				o.faults = append(o.faults, e.op)
			}
		}
	}
	if c := cur["f"]; c != nil && x.end != "aborted" {
		res.OracleChecked["C07"]++
		fin := x.final
		if fin == "none" {
			fin = "-"
		}
		if fin != *c {
			res.Violate("C07", x.req, fmt.Sprintf("final contents %s, expected %s (the value left by the last writer in lock order)", fin, *c), "final-contents")
		}
	}
}

// nontrivial: two descriptors of different clients were open on one file at the same time, or a fault was injected.
func nontrivial(x *execution) bool {
	open := map[int][2]string{}
	for _, e := range x.events {
		if e.res == "fail" || strings.HasPrefix(e.res, "short:") || e.res == "eintr" {
			return true
		}
		switch e.op {
		case "open":
			if strings.HasPrefix(e.res, "ok:fd") {
				for _, o := range open {
					if o[0] == e.args[0] && o[1] != strconv.Itoa(e.proc) {
						return true
					}
				}
				n, _ := strconv.Atoi(e.res[5:])
				open[n] = [2]string{e.args[0], strconv.Itoa(e.proc)}
			}
		case "close":
			if e.res == "" {
				n, _ := strconv.Atoi(strings.TrimPrefix(e.args[0], "fd"))
				delete(open, n)
			}
		}
	}
	return false
}

// ---------------------------------------------------------------- scenario generators

// blob is a self-describing value ⟨client, sequence number, length⟩ of the given length (≥ 0), hex encoded.
func blob(client, seq, n int) string {
	if n == 0 {
		return "-"
	}
	s := fmt.Sprintf("<c%d.%d:%d:", client, seq, n)
	for len(s) < n-1 {
		s += string(rune('a' + (len(s)+client+seq)%26))
	}
	s += ">"
	return corr.Hx([]byte(s[len(s)-n:]))
}

var blobLens = []int{0, 1, 3, 5, 8, 9, 13, 21, 40}

func randOp(r *rand.Rand, client, seq int, raw bool) string {
	b := blob(client, seq, blobLens[r.Intn(len(blobLens))])
	upper := r.Intn(100) < 15 // on the second file g
	up := func(s string) string {
		if upper {
			return strings.ToUpper(s[:1]) + s[1:]
		}
		return s
	}
	k := r.Intn(100)
	switch {
	case k < 28:
		return up("r")
	case k < 50:
		return up("w" + b)
	case k < 65:
		return up("t" + b)
	case k < 78:
		return up("a" + b)
	case k < 82:
		return up("x")
	case k < 90 || !raw:
		return "m" + strconv.Itoa(r.Intn(2))
	}
	acts := []string{}
	for i, n := 0, r.Intn(4); i < n; i++ {
		switch r.Intn(5) {
		case 0:
			acts = append(acts, "r"+strconv.Itoa(1+r.Intn(12)))
		case 1:
			acts = append(acts, "w"+blob(client, seq*10+i, 1+r.Intn(9)))
		case 2:
			acts = append(acts, "p"+blob(client, seq*10+i, 1+r.Intn(6))+"@"+strconv.Itoa(r.Intn(12)))
		case 3:
			acts = append(acts, "z"+strconv.Itoa(r.Intn(12)))
		case 4:
			acts = append(acts, "s")
		}
	}
	a := strings.Join(acts, ",")
	switch r.Intn(5) {
	case 0:
		return "c:" + a
	case 1:
		return "e:" + a
	case 2:
		return "n:" + a
	}
	flags := []int{0, 1, 2, 64, 65, 66, 512, 513, 514, 577, 578, 1025, 1026, 1089, 194, 193, 1538}
	return "o" + strconv.Itoa(flags[r.Intn(len(flags))]) + ":" + a
}

func randClients(r *rand.Rand, raw bool) string {
	nc := 2 + r.Intn(4)
	cs := make([]string, nc)
	for c := range cs {
		no := 1 + r.Intn(3)
		ops := make([]string, no)
		for i := range ops {
			ops[i] = randOp(r, c, i, raw)
		}
		cs[c] = strings.Join(ops, ";")
	}
	return strings.Join(cs, "|")
}

func genRandom(r *rand.Rand, n int) []request {
	var out []request
	for i := 0; i < n; i++ {
		raw := i%4 == 3
		line := "run @ " + randClients(r, raw)
		if i%3 == 0 {
			line += fmt.Sprintf(" s:%d:%d", r.Int63n(1<<40), 50+r.Intn(45))
		} else {
			line += fmt.Sprintf(" %d", r.Int63n(1<<40))
		}
		if r.Intn(3) == 0 {
			line += " init:" + strings.TrimPrefix(blob(9, i%7, blobLens[r.Intn(len(blobLens))]), "-")
		}
		kind := "random"
		if raw {
			kind = "random-raw-handles"
		}
		if i%10 == 9 {
			line += fmt.Sprintf(" fault:%d:fail", r.Intn(25))
			kind += "+fault"
		} else if i%40 == 7 {
			line += fmt.Sprintf(" fault:%d:eintr", r.Intn(25))
			kind += "+eintr"
		}
		out = append(out, request{line, kind})
	}
	return out
}

func genDFS(tier string) []request {
	max, bound := 250, 2
	if tier == "thorough" {
		max = 6000
	}
	b1, b2, b3 := blob(0, 0, 5), blob(1, 0, 9), blob(2, 0, 3)
	cfgs := []string{
		"w" + b1 + "|r",
		"w" + b1 + "|w" + b2,
		"t" + b1 + "|r",
		"a" + b1 + "|a" + b2,
		"a" + b1 + "|w" + b2 + "|r",
		"w" + b1 + "|r|r",
		"t" + b3 + "|a" + b2 + "|r",
		"m0|m0",
		"m0|m1|m0",
		"c:w" + b1 + "|r",
		"n:r4|w" + b2,
		"w" + b1 + ";r|a" + b3,
		"x|w" + b1 + "|r",
	}
	var out []request
	for i, c := range cfgs {
		line := fmt.Sprintf("dfs @ %s %d %d", c, bound, max)
		if i%2 == 0 {
			line += " init:" + blob(9, 0, 9)
		}
		out = append(out, request{line, "dfs"})
	}
	return out
}

var tfLens = []int{0, 1, 5, 9}

// genTransformFaults: all single-fault placements of a solo Transform, for |old|, |new| in tfLens².
// The OS steps of the fault-free run are obtained from the driver itself (first pass).
func genTransformFaults(bin, scratch string, tier string) ([]request, error) {
	type cfg struct {
		old, new string
	}
	var cfgs []cfg
	var probes []request
	for _, lo := range tfLens {
		for _, ln := range tfLens {
			c := cfg{blob(8, lo, lo), blob(7, ln, ln)}
			cfgs = append(cfgs, c)
			probes = append(probes, request{fmt.Sprintf("run @ t%s 1 init:%s", c.new, strings.TrimPrefix(c.old, "-")), "transform-probe"})
		}
	}
	xs, err := runShim(bin, scratch, probes, 4)
	if err != nil {
		return nil, err
	}
	var out []request
	for i, x := range xs {
		c := cfgs[i]
		base := fmt.Sprintf("t%s", c.new)
		ini := " init:" + strings.TrimPrefix(c.old, "-")
		out = append(out, request{"run @ " + base + " 1" + ini, "transform-nofault"})
		osIdx := 0
		var rollbackSteps []int
		for _, e := range x.events {
			switch e.op {
			case "open", "flock", "read", "pwrite", "write", "ftruncate", "fstat", "close":
			default:
				continue
			}
			kinds := []string{"fail"}
			if e.op == "pwrite" || e.op == "write" {
				n := 0
				if e.args[1] != "-" {
					n = len(e.args[1]) / 2
				}
				for _, k := range []int{0, 1, n / 2, n - 1} {
					if k >= 0 && k < n {
						kinds = append(kinds, fmt.Sprintf("short:%d", k))
					}
				}
			}
			if e.op == "flock" && e.args[1] != "UN" {
				kinds = append(kinds, "eintr")
			}
			seen := map[string]bool{}
			for _, k := range kinds {
				if seen[k] {
					continue
				}
				seen[k] = true
				out = append(out, request{fmt.Sprintf("run @ %s 1%s fault:%d:%s", base, ini, osIdx, k), "transform-single-fault"})
				// the same placement with a concurrent reader and a concurrent transformer
				out = append(out, request{fmt.Sprintf("run @ %s|r|a%s %d%s fault:%d:%s", base, blob(3, 0, 3), 1000+osIdx, ini, osIdx, k), "transform-fault+concurrency"})
			}
			if e.op == "pwrite" || e.op == "ftruncate" {
				rollbackSteps = append(rollbackSteps, osIdx)
			}
			osIdx++
		}
		// two faults (outside the property: the model must still agree): a data step and each roll-back step
		for _, s := range rollbackSteps {
			for d := 1; d <= 2; d++ {
				out = append(out, request{fmt.Sprintf("run @ %s 1%s fault:%d:fail fault:%d:fail", base, ini, s, s+d), "transform-two-faults"})
			}
		}
		// error from the user function
		out = append(out, request{"run @ x 1" + ini, "transform-function-error"})
	}
	return out, nil
}

// genFlags: OpenFile with every access mode × subset of {O_CREATE, O_TRUNC, O_APPEND, O_EXCL}, file present / absent,
// alone and against a concurrent writer.
func genFlags() []request {
	var out []request
	// access mode 3 (neither readable nor writable): flock(2) refuses the descriptor, OpenFile fails
	for _, fl := range []int{3, 3 | os.O_CREATE, 3 | os.O_TRUNC} {
		for _, ini := range []string{"", " init:" + blob(9, 1, 9)} {
			out = append(out, request{fmt.Sprintf("run @ o%d:r3 1%s", fl, ini), "flags-solo"})
			out = append(out, request{fmt.Sprintf("run @ o%d:r3|w%s|r 91%s", fl, blob(2, 0, 5), ini), "flags-concurrent"})
		}
	}
	for acc := 0; acc < 3; acc++ {
		for sub := 0; sub < 16; sub++ {
			flag := acc
			for i, b := range []int{os.O_CREATE, os.O_TRUNC, os.O_APPEND, os.O_EXCL} {
				if sub&(1<<i) != 0 {
					flag |= b
				}
			}
			acts := "r3,w" + blob(1, sub, 4) + ",p" + blob(1, sub, 2) + "@1,z6,s,r2"
			for _, ini := range []string{"", " init:" + blob(9, 1, 9)} {
				out = append(out, request{fmt.Sprintf("run @ o%d:%s 1%s", flag, acts, ini), "flags-solo"})
				out = append(out, request{fmt.Sprintf("run @ o%d:%s|w%s|r %d%s", flag, acts, blob(2, 0, 5), 77+flag, ini), "flags-concurrent"})
			}
		}
	}
	return out
}

// attribute says which property a trace rejection concerns: the order / mode / result of open, flock, close and
// the mutex steps concerns both (C07's linearizability rests on the locking); Transform's and Write's data steps,
// the truncate, the read loop, returned values and final contents concern only C07.
func attribute(x *execution, verdict string) []string {
	both := []string{"C06", "C07"}
	f := strings.Fields(verdict)
	if len(f) < 3 || f[0] != "reject" {
		return both
	}
	idx, err := strconv.Atoi(f[1])
	if err != nil {
		return both
	}
	if strings.Contains(verdict, "final contents differ") {
		return []string{"C07"}
	}
	dataOp := func(op string) bool {
		switch op {
		case "pwrite", "write", "ftruncate", "read", "fstat":
			return true
		}
		return false
	}
	obs := ""
	if idx < len(x.events) {
		e := x.events[idx]
		obs = e.op
		if e.op == "ret" && len(e.args) > 0 {
			switch e.args[0] {
			case "read", "write", "transform", "user":
				obs = "data-ret"
			}
		}
	}
	// what the model expected, if the verdict says so
	exp := ""
	for _, marker := range []string{"model expects: ", "model next: ", "model: ", "(blocked): "} {
		if i := strings.Index(verdict, marker); i >= 0 {
			rest := strings.Fields(verdict[i+len(marker):])
			if len(rest) > 0 {
				exp = rest[0]
			}
			break
		}
	}
	obsData := dataOp(obs) || obs == "data-ret"
	expData := exp == "" || dataOp(exp)
	if obsData && expData {
		return []string{"C07"}
	}
	return both
}

// ---------------------------------------------------------------- the run

func runLockedfile(tier string, seed int64, model string, replay string) *corr.Result {
	res := corr.NewResult("lockedfile", tier, seed)
	if os.Getenv("VERIF_SEARCH") != "" {
		seed += 104729
	}
	r := rand.New(rand.NewSource(seed))
	fail := func(what string, err error) *corr.Result {
		res.Observations = append(res.Observations, what+": "+err.Error())
		res.Disagree("<"+what+">", "", err.Error())
		return res
	}
	b, err := buildShim()
	if err != nil {
		return fail("building the instrumented copy", err)
	}
	defer b.Cleanup()
	scratch, err := os.MkdirTemp("", "giv-lockedfile-")
	if err != nil {
		return fail("scratch dir", err)
	}
	defer os.RemoveAll(scratch)

	var reqs []request
	if strings.HasPrefix(replay, "real-kernel") {
		// a finding of the real-kernel supplement: run the supplement again
		if strings.HasPrefix(replay, "real-kernel dup-release") {
			dupRelease(res, scratch)
		} else if strings.HasPrefix(replay, "real-kernel non-regular-trunc") {
			nonRegularTrunc(res, scratch)
		} else {
			realKernel(res, tier, seed, scratch)
		}
		res.Evaluations = res.OracleChecked["C06"] + res.OracleChecked["C07"]
		return res
	}
	if replay != "" {
		reqs = []request{{replay, "replay"}}
	} else {
		nrand := 3000
		if tier == "thorough" {
			nrand = 40000
		}
		reqs = append(reqs, genRandom(r, nrand)...)
		reqs = append(reqs, genDFS(tier)...)
		tf, err := genTransformFaults(b.Bin, scratch, tier)
		if err != nil {
			return fail("transform fault placements", err)
		}
		reqs = append(reqs, tf...)
		reqs = append(reqs, genFlags()...)
	}
	workers := runtime.NumCPU()
	if workers > 8 {
		workers = 8
	}
	// dfs requests are long: spread them by interleaving
	xs, err := runShim(b.Bin, scratch, interleave(reqs, workers), workers)
	if err != nil {
		return fail("instrumented run", err)
	}
	lines := make([]string, len(xs))
	seen := map[string]bool{}
	for i, x := range xs {
		lines[i] = x.replayLine()
		oracle(res, x)
		res.Distribution["kind:"+x.kind]++
		res.Distribution["end:"+x.end]++
		if !seen[x.trace] {
			seen[x.trace] = true
			if nontrivial(x) {
				res.DistinctNontrivial++
			}
		}
	}
	res.Distribution["distinct-traces"] = len(seen)
	out, err := mdl.Run(model, nil, lines, 0)
	if err != nil {
		return fail("model driver", err)
	}
	for i, x := range xs {
		if !strings.HasPrefix(out[i], "ok ") {
			res.DisagreeFor(attribute(x, out[i]), x.req, "trace of the instrumented package", out[i])
		}
	}
	res.Evaluations = len(xs)
	res.Rule = "distinct traces of the instrumented package in which two clients had the same file open at the same time (so the interleaving matters) or a fault was injected; every trace is replayed in the Lean model (each system call must be the next one of that client's program, enabled under the model's flock table, with the same result) and checked by the trace oracles"
	for _, i := range []int{0, len(xs) / 3, 2 * len(xs) / 3, len(xs) - 1} {
		if i >= 0 && i < len(xs) {
			t := xs[i].trace
			if len(t) > 600 {
				t = t[:600] + "…"
			}
			res.Samples = append(res.Samples, map[string]string{"case": xs[i].req, "trace": t, "model": out[i]})
		}
	}
	if replay == "" {
		realKernel(res, tier, seed, scratch)
		straceCheck(res, model, scratch)
	}
	return res
}

// interleave reorders requests so that consecutive chunks (one per worker) get a similar mix.
func interleave(reqs []request, workers int) []request {
	if workers <= 1 {
		return reqs
	}
	chunk := (len(reqs) + workers - 1) / workers
	out := make([]request, 0, len(reqs))
	buckets := make([][]request, workers)
	for i, r := range reqs {
		buckets[i%workers] = append(buckets[i%workers], r)
	}
	for _, b := range buckets {
		out = append(out, b...)
	}
	_ = chunk
	return out
}
