// lockedfile group binary: `lockedfile factgen ...` and `lockedfile corr ...` (properties C06, C07).
// `lockedfile shim` builds the instrumented driver and connects it to stdin/stdout (debugging aid);
// `lockedfile helper ...` is the child process of the real-kernel supplement (re-exec of this binary).
package main

import (
	"fmt"
	"os"
	"os/exec"

	"verif/harness/internal/corr"
	"verif/harness/internal/fact"
)

func main() {
	if len(os.Args) < 2 {
		fmt.Fprintln(os.Stderr, "usage: lockedfile factgen|corr [flags]")
		os.Exit(2)
	}
	switch os.Args[1] {
	case "factgen":
		fact.Main(os.Args[2:], "lockedfile", "Lockedfile", genLockedfile)
	case "corr":
		corr.Main(os.Args[2:], runLockedfile)
	case "helper":
		helperMain(os.Args[2:])
	case "shim":
		b, err := buildShim()
		if err != nil {
			fmt.Fprintln(os.Stderr, err)
			os.Exit(2)
		}
		defer b.Cleanup()
		cmd := exec.Command(b.Bin)
		cmd.Stdin, cmd.Stdout, cmd.Stderr = os.Stdin, os.Stdout, os.Stderr
		cmd.Run()
	default:
		fmt.Fprintln(os.Stderr, "usage: lockedfile factgen|corr [flags]")
		os.Exit(2)
	}
}
