package main

import (
	"fmt"
	"go/ast"
	"go/token"
	"os"
	"strings"

	"verif/harness/internal/fact"
)

const (
	relLF   = "lockedfile/lockedfile.go"
	relFL   = "lockedfile/lockedfile_filelock.go"
	relMu   = "lockedfile/mutex.go"
	relFlk  = "lockedfile/internal/filelock/filelock.go"
	relUnix = "lockedfile/internal/filelock/filelock_unix.go"
)

// flagExpr translates a Go expression over `flag`, os.O_* constants, integer literals and the operators
// & | &^ == != into Lean (Nat); ok=false when something else occurs.
func flagExpr(g *fact.Gen, e ast.Expr) (string, bool) {
	switch v := e.(type) {
	case *ast.ParenExpr:
		s, ok := flagExpr(g, v.X)
		return "(" + s + ")", ok
	case *ast.Ident:
		if v.Name == "flag" {
			return "flag", true
		}
	case *ast.BasicLit:
		if v.Kind == token.INT {
			return v.Value, true
		}
	case *ast.SelectorExpr:
		if id, ok := v.X.(*ast.Ident); ok && id.Name == "os" {
			switch v.Sel.Name {
			case "O_RDONLY", "O_WRONLY", "O_RDWR", "O_CREATE", "O_EXCL", "O_TRUNC", "O_APPEND":
				return v.Sel.Name, true
			}
		}
	case *ast.BinaryExpr:
		a, ok1 := flagExpr(g, v.X)
		b, ok2 := flagExpr(g, v.Y)
		if !ok1 || !ok2 {
			return "", false
		}
		switch v.Op {
		case token.AND:
			return "(" + a + " &&& " + b + ")", true
		case token.OR:
			return "(" + a + " ||| " + b + ")", true
		case token.EQL:
			return "(" + a + " == " + b + ")", true
		case token.NEQ:
			return "(" + a + " != " + b + ")", true
		}
	}
	return "", false
}

func findCall(g *fact.Gen, n ast.Node, funSrc string) *ast.CallExpr {
	var out *ast.CallExpr
	if n == nil {
		return nil
	}
	ast.Inspect(n, func(x ast.Node) bool {
		if c, ok := x.(*ast.CallExpr); ok && out == nil && g.Src(c.Fun) == funSrc {
			out = c
		}
		return out == nil
	})
	return out
}

func emitNat(g *fact.Gen, name, doc, pinned string, decide func() (string, bool, string)) {
	v, ok, why := decide()
	if !ok {
		v = pinned
		g.Lost(name, why)
	} else {
		g.Found(name, v)
	}
	g.Emit("/-- %s -/\ndef %s : Nat := %s\n", doc, name, v)
}

func genLockedfile(g *fact.Gen) {
	for _, c := range []struct {
		n string
		v int
	}{{"O_RDONLY", os.O_RDONLY}, {"O_WRONLY", os.O_WRONLY}, {"O_RDWR", os.O_RDWR}, {"O_CREATE", os.O_CREATE},
		{"O_EXCL", os.O_EXCL}, {"O_TRUNC", os.O_TRUNC}, {"O_APPEND", os.O_APPEND}} {
		g.Emit("/-- os.%s on the platform the harness is built for. -/\ndef %s : Nat := %d\n", c.n, c.n, c.v)
	}

	// ---------------------------------------------------------------- openFile
	openFile := g.FuncDecl(relFL, "openFile")
	body := func(fd *ast.FuncDecl) []ast.Stmt {
		if fd == nil || fd.Body == nil {
			return nil
		}
		return fd.Body.List
	}
	g.EmitBool("stripsTrunc", "openFile passes `flag &^ os.O_TRUNC` (true) or `flag` unchanged (false) to os.OpenFile.", true, func() (bool, bool, string) {
		if openFile == nil {
			return false, false, "func openFile not found"
		}
		c := findCall(g, openFile.Body, "os.OpenFile")
		if c == nil || len(c.Args) != 3 {
			return false, false, "os.OpenFile call not found"
		}
		switch g.Src(c.Args[1]) {
		case "flag&^os.O_TRUNC":
			return true, true, ""
		case "flag":
			return false, true, ""
		}
		return false, false, "unrecognised flag argument " + g.Src(c.Args[1])
	})
	var sw *ast.SwitchStmt
	swIdx, truncIdx := -1, -1
	var truncIf *ast.IfStmt
	for i, st := range body(openFile) {
		switch s := st.(type) {
		case *ast.SwitchStmt:
			if sw == nil {
				sw, swIdx = s, i
			}
		case *ast.IfStmt:
			if findCall(g, s.Body, "f.Truncate") != nil && truncIf == nil {
				truncIf, truncIdx = s, i
			}
		}
	}
	emitNat(g, "lockMask", "the tag of openFile's lock-mode switch is `flag & lockMask`.", "O_RDONLY ||| O_WRONLY ||| O_RDWR", func() (string, bool, string) {
		if sw == nil {
			return "", false, "switch not found"
		}
		be, ok := sw.Tag.(*ast.BinaryExpr)
		if !ok || be.Op != token.AND || g.Src(be.X) != "flag" {
			return "", false, "switch tag is not `flag & mask`"
		}
		s, ok := flagExpr(g, be.Y)
		if !ok {
			return "", false, "unrecognised mask"
		}
		return s, true, ""
	})
	var exCases, shCases []string
	defShared, defFound, casesOK := true, false, sw != nil
	if sw != nil {
		for _, st := range sw.Body.List {
			cc := st.(*ast.CaseClause)
			isLock := findCall(g, cc, "filelock.Lock") != nil
			isRLock := findCall(g, cc, "filelock.RLock") != nil
			if isLock == isRLock {
				casesOK = false
				continue
			}
			if cc.List == nil {
				defFound, defShared = true, isRLock
				continue
			}
			for _, e := range cc.List {
				s, ok := flagExpr(g, e)
				if !ok {
					casesOK = false
					continue
				}
				if isLock {
					exCases = append(exCases, s)
				} else {
					shCases = append(shCases, s)
				}
			}
		}
	}
	if !casesOK || !defFound {
		g.Lost("lockSwitch", "lock-mode switch has an unrecognised shape")
		exCases, shCases, defShared = []string{"O_WRONLY", "O_RDWR"}, nil, true
	} else {
		g.Found("lockSwitch", fmt.Sprintf("exclusive=%v shared=%v defaultShared=%v", exCases, shCases, defShared))
	}
	g.Emit("/-- the case values of that switch whose body calls filelock.Lock (exclusive). -/\ndef exclusiveCases : List Nat := [%s]\n", strings.Join(exCases, ", "))
	g.Emit("/-- the case values of that switch whose body calls filelock.RLock (shared). -/\ndef sharedCases : List Nat := [%s]\n", strings.Join(shCases, ", "))
	g.Emit("/-- the `default:` branch of that switch calls filelock.RLock (true) or filelock.Lock (false). -/\ndef defaultShared : Bool := %v\n", defShared)

	truncCond, truncOK := "(flag &&& O_TRUNC) == O_TRUNC", false
	if truncIf != nil {
		if s, ok := flagExpr(g, truncIf.Cond); ok {
			truncCond, truncOK = s, true
		}
	}
	if truncOK {
		g.Found("truncTest", truncCond)
	} else {
		g.Lost("truncTest", "guard of f.Truncate in openFile not recognised")
	}
	g.Emit("/-- the guard of openFile's `f.Truncate`. -/\ndef truncTest (flag : Nat) : Bool := %s\n", truncCond)
	emitNat(g, "truncSize", "the size passed to that Truncate.", "0", func() (string, bool, string) {
		if truncIf == nil {
			return "", false, "no Truncate in openFile"
		}
		c := findCall(g, truncIf.Body, "f.Truncate")
		if c == nil || len(c.Args) != 1 {
			return "", false, "no Truncate in openFile"
		}
		if bl, ok := c.Args[0].(*ast.BasicLit); ok && bl.Kind == token.INT {
			return bl.Value, true, ""
		}
		return "", false, "Truncate argument is not a literal"
	})
	g.EmitBool("truncAfterLock", "the Truncate statement comes after the lock-mode switch in openFile.", true, func() (bool, bool, string) {
		if swIdx < 0 || truncIdx < 0 {
			return false, false, "switch or Truncate statement not found"
		}
		return truncIdx > swIdx, true, ""
	})
	g.EmitBool("truncFailUnlocksCloses", "on Truncate failure openFile stats, and for regular files (or a Stat error) unlocks, closes and fails.", true, func() (bool, bool, string) {
		if truncIf == nil {
			return false, false, "no Truncate in openFile"
		}
		s := g.Src(truncIf.Body)
		return strings.Contains(s, "iferr:=f.Truncate(0);err!=nil{") &&
			strings.Contains(s, "iffi,statErr:=f.Stat();statErr!=nil||fi.Mode().IsRegular(){filelock.Unlock(f)f.Close()returnnil,err}"), true, ""
	})
	g.EmitBool("lockFailCloses", "on lock failure openFile closes the file and fails.", true, func() (bool, bool, string) {
		if openFile == nil || swIdx < 0 || swIdx+1 >= len(body(openFile)) {
			return false, false, "statement after the switch not found"
		}
		return g.Src(body(openFile)[swIdx+1]) == "iferr!=nil{f.Close()returnnil,err}", true, ""
	})

	// ---------------------------------------------------------------- closeFile
	closeFile := g.FuncDecl(relFL, "closeFile")
	g.EmitBool("unlockBeforeClose", "closeFile calls filelock.Unlock(f) before f.Close().", true, func() (bool, bool, string) {
		if closeFile == nil {
			return false, false, "func closeFile not found"
		}
		u, c := findCall(g, closeFile.Body, "filelock.Unlock"), findCall(g, closeFile.Body, "f.Close")
		if c == nil {
			return false, false, "Close call not found in closeFile"
		}
		if u == nil {
			// closeFile closes without unlocking first
			return false, true, ""
		}
		return u.Pos() < c.Pos(), true, ""
	})
	g.EmitBool("closeErrCombine", "closeFile returns the Unlock error, else the Close error.", true, func() (bool, bool, string) {
		if closeFile == nil {
			return false, false, "func closeFile not found"
		}
		return g.Src(closeFile.Body) == "{err:=filelock.Unlock(f)ifcloseErr:=f.Close();err==nil{err=closeErr}returnerr}", true, ""
	})

	// ---------------------------------------------------------------- filelock
	constIs := func(name, want string) func() (bool, bool, string) {
		return func() (bool, bool, string) {
			v := g.TopLevelValue(relUnix, name)
			if v == nil {
				return false, false, name + " not found"
			}
			return g.Src(v) == want, true, ""
		}
	}
	lockFn, rlockFn := g.FuncDecl(relFlk, "Lock"), g.FuncDecl(relFlk, "RLock")
	g.EmitBool("rlockIsSH", "filelock.RLock = lock(f, readLock) with readLock = syscall.LOCK_SH.", true, func() (bool, bool, string) {
		v, ok, why := constIs("readLock", "syscall.LOCK_SH")()
		if !ok || rlockFn == nil {
			return false, false, why + " / RLock not found"
		}
		return v && g.Src(rlockFn.Body) == "{returnlock(f,readLock)}", true, ""
	})
	g.EmitBool("lockIsEX", "filelock.Lock = lock(f, writeLock) with writeLock = syscall.LOCK_EX.", true, func() (bool, bool, string) {
		v, ok, why := constIs("writeLock", "syscall.LOCK_EX")()
		if !ok || lockFn == nil {
			return false, false, why + " / Lock not found"
		}
		return v && g.Src(lockFn.Body) == "{returnlock(f,writeLock)}", true, ""
	})
	g.EmitBool("unlockIsUN", "filelock.Unlock = unlock(f) = lock(f, syscall.LOCK_UN).", true, func() (bool, bool, string) {
		u1, u2 := g.FuncDecl(relFlk, "Unlock"), g.FuncDecl(relUnix, "unlock")
		if u1 == nil || u2 == nil {
			return false, false, "Unlock/unlock not found"
		}
		return g.Src(u1.Body) == "{returnunlock(f)}" && g.Src(u2.Body) == "{returnlock(f,syscall.LOCK_UN)}", true, ""
	})
	g.EmitBool("retriesEINTR", "filelock.lock retries syscall.Flock while it returns EINTR.", true, func() (bool, bool, string) {
		fd := g.FuncDecl(relUnix, "lock")
		if fd == nil {
			return false, false, "func lock not found"
		}
		s := g.Src(fd.Body)
		if !strings.Contains(s, "syscall.Flock(int(f.Fd()),int(lt))") {
			return false, false, "Flock call not found"
		}
		return strings.Contains(s, "for{err=syscall.Flock(int(f.Fd()),int(lt))iferr!=syscall.EINTR{break}}"), true, ""
	})

	// ---------------------------------------------------------------- flags of the entry points
	flagOf := func(name, rel, fn, recv, callee, pinned string) {
		emitNat(g, name, "flag "+fn+" passes to "+callee+".", pinned, func() (string, bool, string) {
			var fd *ast.FuncDecl
			if recv != "" {
				fd = g.Method(rel, recv, fn)
			} else {
				fd = g.FuncDecl(rel, fn)
			}
			if fd == nil {
				return "", false, fn + " not found"
			}
			c := findCall(g, fd.Body, callee)
			if c == nil || len(c.Args) != 3 {
				return "", false, callee + " call not found in " + fn
			}
			s, ok := flagExpr(g, c.Args[1])
			if !ok {
				return "", false, "unrecognised flag expression"
			}
			return s, true, ""
		})
	}
	flagOf("flagsOpen", relLF, "Open", "", "OpenFile", "O_RDONLY")
	flagOf("flagsCreate", relLF, "Create", "", "OpenFile", "((O_RDWR ||| O_CREATE) ||| O_TRUNC)")
	flagOf("flagsEdit", relLF, "Edit", "", "OpenFile", "(O_RDWR ||| O_CREATE)")
	flagOf("flagsWrite", relLF, "Write", "", "OpenFile", "((O_WRONLY ||| O_CREATE) ||| O_TRUNC)")
	flagOf("flagsMutex", relMu, "Lock", "Mutex", "OpenFile", "(O_RDWR ||| O_CREATE)")

	shape := func(name, doc, rel, fn, recv string, test func(s string, fd *ast.FuncDecl) bool) {
		g.EmitBool(name, doc, true, func() (bool, bool, string) {
			var fd *ast.FuncDecl
			if recv != "" {
				fd = g.Method(rel, recv, fn)
			} else {
				fd = g.FuncDecl(rel, fn)
			}
			if fd == nil {
				return false, false, fn + " not found"
			}
			return test(g.Src(fd.Body), fd), true, ""
		})
	}
	shape("openFileCallsOpenFile", "OpenFile gets its file from openFile(name, flag, perm) and returns an error if that fails.", relLF, "OpenFile", "",
		func(s string, _ *ast.FuncDecl) bool {
			return strings.Contains(s, "f.osFile.File,err=openFile(name,flag,perm)iferr!=nil{returnnil,err}")
		})
	shape("closeCallsCloseFile", "File.Close: error if already closed, else closed=true and closeFile(f.osFile.File).", relLF, "Close", "File",
		func(s string, _ *ast.FuncDecl) bool {
			return strings.HasPrefix(s, "{iff.closed{return&fs.PathError{") && strings.Contains(s, "f.closed=trueerr:=closeFile(f.osFile.File)") && strings.HasSuffix(s, "returnerr}")
		})
	shape("readShape", "Read: Open(name); defer f.Close(); io.ReadAll(f).", relLF, "Read", "",
		func(s string, _ *ast.FuncDecl) bool {
			return s == "{f,err:=Open(name)iferr!=nil{returnnil,err}deferf.Close()returnio.ReadAll(f)}"
		})
	shape("writeShape", "Write: OpenFile; io.Copy(f, content); Close, whose error is reported only if Copy succeeded.", relLF, "Write", "",
		func(s string, _ *ast.FuncDecl) bool {
			return strings.HasPrefix(s, "{f,err:=OpenFile(name,") && strings.HasSuffix(s, "iferr!=nil{returnerr}_,err=io.Copy(f,content)ifcloseErr:=f.Close();err==nil{err=closeErr}returnerr}")
		})
	shape("mutexLockShape", "Mutex.Lock: OpenFile, then mu.mu.Lock(); the unlock function does mu.mu.Unlock() then f.Close().", relMu, "Lock", "Mutex",
		func(s string, _ *ast.FuncDecl) bool {
			return strings.Contains(s, "iferr!=nil{returnnil,err}mu.mu.Lock()returnfunc(){mu.mu.Unlock()f.Close()},nil}") && strings.Contains(s, "f,err:=OpenFile(mu.Path,")
		})
	// ---------------------------------------------------------------- Transform
	tr := g.FuncDecl(relLF, "Transform")
	trStmt := func(pred func(s string) bool) (int, ast.Stmt) {
		for i, st := range body(tr) {
			if pred(g.Src(st)) {
				return i, st
			}
		}
		return -1, nil
	}
	tailIdx, tailSt := trStmt(func(s string) bool { return strings.HasPrefix(s, "iflen(new)>len(old){") })
	deferIdx, deferSt := trStmt(func(s string) bool { return strings.HasPrefix(s, "deferfunc(){") })
	bodyIdx, bodySt := trStmt(func(s string) bool {
		return strings.HasPrefix(s, "iflen(new)>=len(old){") || strings.HasPrefix(s, "iflen(new)>len(old){if_,err:=f.WriteAt(new[:len(old)],0)")
	})
	readIdx, _ := trStmt(func(s string) bool { return s == "old,err:=io.ReadAll(f)" })
	callIdx, _ := trStmt(func(s string) bool { return s == "new,err:=t(old)" })
	editIdx, _ := trStmt(func(s string) bool { return s == "f,err:=Edit(name)" })
	dcloseIdx, _ := trStmt(func(s string) bool { return s == "deferf.Close()" })
	tb := func(name, doc string, f func() bool) {
		g.EmitBool(name, doc, true, func() (bool, bool, string) {
			if tr == nil {
				return false, false, "func Transform not found"
			}
			return f(), true, ""
		})
	}
	tb("tPrologue", "Transform: f := Edit(name); defer f.Close(); old := io.ReadAll(f); new := t(old), each error returned at once, in this order.", func() bool {
		return editIdx == 0 && dcloseIdx == 2 && readIdx == 3 && callIdx == 5 && tailIdx == 7 &&
			g.Src(body(tr)[1]) == "iferr!=nil{returnerr}" && g.Src(body(tr)[4]) == "iferr!=nil{returnerr}" && g.Src(body(tr)[6]) == "iferr!=nil{returnerr}"
	})
	tb("tTailFirst", "Transform: `if len(new) > len(old)` it first writes new[len(old):] at offset len(old); on failure it truncates to len(old) and returns the error.", func() bool {
		return tailSt != nil && g.Src(tailSt) == "iflen(new)>len(old){if_,err:=f.WriteAt(new[len(old):],int64(len(old)));err!=nil{f.Truncate(int64(len(old)))returnerr}}" &&
			bodyIdx > tailIdx
	})
	tb("tRollback", "Transform: the deferred roll-back (registered after the tail write, before the body write) does, if err != nil, WriteAt(old, 0) and, only if that succeeded, Truncate(len(old)).", func() bool {
		return deferSt != nil && deferIdx > tailIdx && deferIdx < bodyIdx &&
			g.Src(deferSt) == "deferfunc(){iferr!=nil{if_,err:=f.WriteAt(old,0);err==nil{f.Truncate(int64(len(old)))}}}()"
	})
	tb("tBody", "Transform: `if len(new) >= len(old)` WriteAt(new[:len(old)], 0), else WriteAt(new, 0) then Truncate(len(new)); each error returned; then return nil.", func() bool {
		return bodySt != nil && bodyIdx == len(body(tr))-2 && g.Src(body(tr)[len(body(tr))-1]) == "returnnil" &&
			g.Src(bodySt) == "iflen(new)>=len(old){if_,err:=f.WriteAt(new[:len(old)],0);err!=nil{returnerr}}else{if_,err:=f.WriteAt(new,0);err!=nil{returnerr}iferr:=f.Truncate(int64(len(new)));err!=nil{returnerr}}"
	})
}
