package main

// Generator and oracle for C16 (Params.UpdateScripts).

import (
	"bytes"
	"fmt"
	"math/rand"
	"sort"
	"strings"
	"unicode/utf8"

	"github.com/rogpeppe/go-internal/txtar"

	"verif/harness/internal/corr"
)

type c16recipe struct {
	updates     map[string]string // entry name -> actual content recorded last (only executed, plain, mismatching, in-archive cmps)
	order       []string
	untouched   []string // golden entries that must keep their bytes
	otherFail   bool     // some executed line fails for another reason
	unquotable  bool     // some update content needs quoting and cannot be quoted
	conflict    bool     // outputs are not a function of the script alone (a golden compared against two different outputs, or an updated entry used as an output)
	totalLines  int
	lastLineRun int
	dupGolden   bool   // the archive names a golden file twice: only the last entry of a name is unpacked, read and asserted
	setupCd     string // Params.Setup moved env.Cd to this directory before the script started
}

// gen16Opts: variations of the C16 generator (extra cases after the plain ones).
type gen16Opts struct {
	dupGolden bool // one golden name occurs twice in the archive
	setupCd   bool // a Setup hook sets env.Cd to a directory the archive creates (oracle-only: not modelled)
}

func genC16(rng *rand.Rand) *tcase { return genC16opt(rng, gen16Opts{}) }

// content of an actual output: lines joined by '\n', plus a final '\n' when nl
type content struct {
	lines []string
	nl    bool
}

func (c content) String() string {
	s := strings.Join(c.lines, "\n")
	if c.nl {
		s += "\n"
	}
	return s
}

func (c content) args() string {
	mode := "nonl"
	if c.nl {
		mode = "nl"
	}
	var ws []string
	for _, l := range c.lines {
		ws = append(ws, q(l))
	}
	return strings.TrimRight(mode+" "+strings.Join(ws, " "), " ")
}

var actualPool = []content{
	{nil, false},                             // ""
	{[]string{"hello"}, true},                // plain
	{[]string{"a", "b"}, true},               //
	{[]string{"no newline"}, false},          // not representable: Format adds the newline
	{[]string{"-- x --"}, true},              // marker look-alike: quoted
	{[]string{"a", "-- x --", "b"}, true},    // marker in the middle: quoted
	{[]string{"-- x --"}, false},             // needs quoting, cannot be quoted (no final newline)
	{[]string{"a", "-- y --"}, false},        // same, last line
	{[]string{">quoted"}, true},              // '>' line that is not a quote
	{[]string{"a", ""}, true},                // "a\n\n"
	{[]string{"x", "-- not marker--"}, true}, // look-alike that is no marker
	{[]string{"--  --"}, true},               // empty name: no marker
	{[]string{"ünï"}, true},                  // non-ASCII
	{[]string{"\xff", "-- z --"}, true},      // needs quoting, not UTF-8
	{[]string{"\xffraw"}, true},              // not UTF-8 but no marker: stored verbatim
	{[]string{"-- a b --", "-- c --"}, true}, // two markers
	{nil, true},                              // "\n"
	{[]string{" -- x --"}, true},             // indented: no marker
}

var goldenBodies = []string{"", "hello\n", "a\nb\n", ">-- x --\n", "x\n", "old\ncontent\n", "\n"}
var goldenNames = []string{"g1.golden", "sub/g2.txt", "want 3", "g4", "sub/deep/g5"}

func representable(c string) bool {
	return (c == "" || strings.HasSuffix(c, "\n")) && !txtar.NeedsQuote([]byte(c))
}

func quotable(c string) bool {
	return (c == "" || strings.HasSuffix(c, "\n")) && utf8.ValidString(c)
}

func genC16opt(rng *rand.Rand, o gen16Opts) *tcase {
	g := &gen{rng: rng, st: newGst()}
	builtinOnly := g.chance(30)
	g.fl = flags{update: true, cont: g.chance(50), customCmds: !builtinOnly, customCond: !builtinOnly && g.chance(20)}
	s := g.st
	rec := &c16recipe{updates: map[string]string{}}
	tags := []string{"nontrivial"}

	// ---- archive: golden entries, then input files
	a := &txtar.Archive{}
	k := 2 + g.rng.Intn(4)
	perm := g.rng.Perm(len(goldenNames))
	var goldens []string
	for i := 0; i < k; i++ {
		name := goldenNames[perm[i]]
		goldens = append(goldens, name)
		a.Files = append(a.Files, txtar.File{Name: name, Data: []byte(g.pick(goldenBodies))})
	}
	nin := 1 + g.rng.Intn(3)
	var inputs []string
	for i := 0; i < nin; i++ {
		name := fmt.Sprintf("in%d.txt", i)
		body := g.pick([]string{"hello\n", "a\nb\n", "fresh output\n", "x\n", "", ">-- x --\n", "val=v1\n"})
		inputs = append(inputs, name)
		a.Files = append(a.Files, txtar.File{Name: name, Data: []byte(body)})
	}
	if g.chance(50) { // interleave: order must be preserved
		g.rng.Shuffle(len(a.Files), func(i, j int) { a.Files[i], a.Files[j] = a.Files[j], a.Files[i] })
	}
	if o.dupGolden {
		// a second entry under the name of a golden, anywhere in the archive: the files are unpacked in
		// order, so the LAST entry of a name is what the script reads (the loop below keeps that one)
		name := g.pick(goldens)
		body := g.pick([]string{"shadow\n", "", "hello\n", "old\ncontent\n", "x\n"})
		at := g.rng.Intn(len(a.Files) + 1)
		a.Files = append(a.Files[:at:at], append([]txtar.File{{Name: name, Data: []byte(body)}}, a.Files[at:]...)...)
		rec.dupGolden = true
		tags = append(tags, "dup-golden")
	}
	if o.setupCd {
		// Params.Setup: "The Setup function may modify Vars and Cd as it wishes" — the script starts in a
		// sub-directory of $WORK that the archive creates.  Which files are archive entries does not depend on that.
		dirSet := map[string]bool{}
		for _, f := range a.Files {
			for d := parentOf(f.Name); d != ""; d = parentOf(d) {
				dirSet[d] = true
			}
		}
		if len(dirSet) == 0 {
			a.Files = append(a.Files, txtar.File{Name: "sub/keep.txt", Data: []byte("keep\n")})
			dirSet["sub"] = true
		}
		var dirs []string
		for d := range dirSet {
			dirs = append(dirs, d)
		}
		sort.Strings(dirs)
		rec.setupCd = g.pick(dirs)
		g.fl.setupCd = rec.setupCd
		tags = append(tags, "setup-cd")
		// bystanders: for an entry cd/x also an entry x — the file cd/x is NOT the entry x
		have := map[string]bool{}
		for _, f := range a.Files {
			have[f.Name] = true
		}
		for _, f := range append([]txtar.File{}, a.Files...) {
			if rest, ok := strings.CutPrefix(f.Name, rec.setupCd+"/"); ok && !have[rest] && g.chance(60) {
				have[rest] = true
				a.Files = append(a.Files, txtar.File{Name: rest, Data: []byte(g.pick([]string{"bystander\n", "hello\n", ""}))})
				tags = append(tags, "setup-cd:entry-named-like-cd-relative-golden")
			}
		}
	}
	for _, f := range a.Files {
		s.mkdirAll(parentOf(f.Name))
		s.files[f.Name] = string(f.Data)
	}
	s.cd = rec.setupCd
	inArchive := map[string]bool{}
	for _, f := range a.Files {
		inArchive[f.Name] = true
	}

	var lines, recipe []string
	alive := true
	firstFail := -1
	emit := func(text string) int {
		lines = append(lines, text)
		return len(lines)
	}
	// the same script without UpdateScripts (the "plain" run): every mismatching cmp is a failure.
	// It separates C01 matters (also wrong in the plain run) from C16 matters (only wrong under UpdateScripts).
	alive0, firstFail0 := true, -1
	var tree0 []string
	fail0 := func(ln int) {
		if !alive0 {
			return
		}
		if firstFail0 < 0 {
			firstFail0 = ln
		}
		if !g.fl.cont {
			alive0 = false
			tree0 = s.tree()
		}
	}
	fail := func(ln int, why string) {
		if !alive {
			return
		}
		fail0(ln)
		rec.otherFail = true
		recipe = append(recipe, fmt.Sprintf("line %d fails (%s)", ln, why))
		tags = append(tags, "other-failure:"+why)
		if firstFail < 0 {
			firstFail = ln
		}
		if !g.fl.cont {
			alive = false
		}
	}
	if g.chance(30) {
		emit("# goldens")
	}
	emit("env K=v1")
	s.env["K"] = "v1"

	// produce an actual content somewhere and return the cmp source word
	produce := func(want *string) (string, bool) {
		if builtinOnly {
			// actual = an input file of the archive (or a copy of a golden made at run time)
			in := g.pick(inputs)
			if want != nil {
				// need a specific content: copy the golden itself to a scratch file
				return "", false
			}
			return in, true
		}
		var c content
		if want != nil {
			// express *want as lines
			w := *want
			nl := strings.HasSuffix(w, "\n")
			if nl {
				w = w[:len(w)-1]
			}
			var ls []string
			if !(w == "" && !nl) {
				ls = strings.Split(w, "\n")
				if w == "" {
					ls = nil
				}
			}
			c = content{ls, nl}
			if c.String() != *want {
				return "", false
			}
		} else {
			c = actualPool[g.rng.Intn(len(actualPool))]
		}
		switch g.rng.Intn(3) {
		case 0:
			emit("put out " + c.args())
			if alive {
				s.stdout, s.stderr = c.String(), ""
			}
			return "stdout", true
		case 1:
			emit("put err " + c.args())
			if alive {
				s.stdout, s.stderr = "", c.String()
			}
			return "stderr", true
		default:
			g.ctr++
			name := fmt.Sprintf("act%d.txt", g.ctr)
			emit("put file:$WORK/" + name + " " + c.args())
			if alive {
				s.files[name] = c.String()
			}
			return name, true
		}
	}
	// current content behind a cmp source word
	srcContent := func(src string) string {
		switch src {
		case "stdout":
			return s.stdout
		case "stderr":
			return s.stderr
		}
		return s.files[src]
	}
	srcWord := func(src string) string {
		if src == "stdout" || src == "stderr" {
			return src
		}
		return g.rel(src)
	}

	for _, gname := range goldens {
		if g.chance(15) {
			emit(g.pick([]string{"# next golden", "", "#"}))
		}
		scen := g.rng.Intn(10)
		if scen >= 7 && g.chance(50) { // keep a good share of runs free of unrelated failures (fix-point clause)
			scen = g.rng.Intn(7)
		}
		gold := s.files[gname]
		switch scen {
		case 0, 1, 2, 3: // plain cmp, mismatch expected (unless the pool happens to hit the same content)
			if g.chance(20) && s.isDir(parentOf(gname)) && parentOf(gname) != "" { // compare from inside the golden's directory
				ln := emit("cd " + g.rel(parentOf(gname)))
				_ = ln
				if alive {
					s.cd = parentOf(gname)
				}
			}
			src, ok := produce(nil)
			if !ok {
				continue
			}
			ln := emit("cmp " + srcWord(src) + " " + g.rel(gname))
			if alive {
				act := srcContent(src)
				if act != gold {
					rec.updates[gname] = act
					fail0(ln)
					recipe = append(recipe, fmt.Sprintf("line %d: cmp mismatch on %s -> update", ln, gname))
					tags = append(tags, "update")
				} else {
					recipe = append(recipe, fmt.Sprintf("line %d: cmp happens to match %s", ln, gname))
				}
			}
			if g.chance(15) { // compared a second time against something else: the last recorded content wins
				src2, ok := produce(nil)
				if ok {
					ln := emit("cmp " + srcWord(src2) + " " + g.rel(gname))
					if alive {
						act := srcContent(src2)
						// one golden against two outputs: no content of the entry can satisfy both lines
						// unless the outputs coincide
						rec.conflict = true
						if act != gold {
							rec.updates[gname] = act
							fail0(ln)
							recipe = append(recipe, fmt.Sprintf("line %d: second cmp mismatch on %s -> last wins", ln, gname))
							tags = append(tags, "update-twice")
						}
					}
				}
			}
		case 4: // plain cmp, match
			src, ok := produce(&gold)
			if !ok {
				// builtin-only: compare the golden with a run-time copy of itself (reversed roles keep it in-archive)
				g.ctr++
				cp := fmt.Sprintf("copy%d.txt", g.ctr)
				emit("cp " + g.rel(gname) + " " + g.rel(cp))
				if alive {
					s.files[cp] = gold
				}
				src = cp
			}
			ln := emit("cmp " + srcWord(src) + " " + g.rel(gname))
			recipe = append(recipe, fmt.Sprintf("line %d: cmp matches %s", ln, gname))
			tags = append(tags, "match")
		case 5: // negated cmp: never an update
			src, ok := produce(nil)
			if !ok {
				continue
			}
			ln := emit("! cmp " + srcWord(src) + " " + g.rel(gname))
			if alive {
				if srcContent(src) == gold {
					fail(ln, "neg-cmp-equal")
				} else {
					recipe = append(recipe, fmt.Sprintf("line %d: ! cmp differs on %s (no update)", ln, gname))
					tags = append(tags, "neg-cmp")
				}
			}
		case 6: // cmpenv: never an update; a mismatch fails
			src, ok := produce(nil)
			if !ok {
				continue
			}
			neg := g.chance(50)
			text := "cmpenv " + srcWord(src) + " " + g.rel(gname)
			if neg {
				text = "! " + text
			}
			ln := emit(text)
			if alive {
				eq := srcContent(src) == gold // goldens hold no '$': expansion is the identity
				switch {
				case neg && eq:
					fail(ln, "neg-cmpenv-equal")
				case !neg && !eq:
					fail(ln, "cmpenv-differs")
				default:
					recipe = append(recipe, fmt.Sprintf("line %d: %s passes (no update)", ln, text))
					tags = append(tags, "cmpenv")
				}
			}
		case 7: // compared against a run-time copy outside the archive: a mismatch fails, no update
			g.ctr++
			rt := fmt.Sprintf("rt%d.txt", g.ctr)
			if alt := joinCd(rec.setupCd, gname); rec.setupCd != "" && !s.exists(alt) && s.isDir(parentOf(alt)) && g.chance(70) {
				// the run-time file sits where the entry would be if entry names were resolved against the
				// directory Setup chose: still not a file of the archive
				rt = alt
				tags = append(tags, "setup-cd:outside-file-at-cd-relative-entry-name")
			}
			emit("cp " + g.rel(gname) + " " + g.rel(rt))
			if alive {
				s.files[rt] = gold
			}
			src, ok := produce(nil)
			if !ok {
				continue
			}
			ln := emit("cmp " + srcWord(src) + " " + g.rel(rt))
			if alive && srcContent(src) != gold {
				fail(ln, "cmp-outside-archive")
			}
		case 8: // the golden is the *first* argument: the second decides; second is an input entry -> that entry is updated
			in := g.pick(inputs)
			ln := emit("cmp " + g.rel(gname) + " " + g.rel(in))
			if alive && s.files[gname] != s.files[in] {
				rec.updates[in] = s.files[gname]
				fail0(ln)
				recipe = append(recipe, fmt.Sprintf("line %d: cmp golden against entry %s -> that entry is updated", ln, in))
				tags = append(tags, "update-input-entry")
				rec.conflict = true
			}
		case 9: // an unrelated failure in between
			ln := emit(g.pick([]string{"exists nothing-here", "frobnicate", "! exists " + g.rel(gname), "cmp " + g.rel(gname)}))
			fail(ln, "unrelated")
		}
	}
	if g.chance(20) {
		emit("# done")
	}
	if g.chance(10) {
		ln := emit(g.pick([]string{"stop", "skip"}))
		_ = ln
	}
	// ---- expectation
	endsWith := lines[len(lines)-1]
	comment := strings.Join(lines, "\n") + "\n"
	a.Comment = []byte(comment)
	file := txtar.Format(a)
	rec.totalLines = len(lines)

	for _, gname := range goldens {
		if _, ok := rec.updates[gname]; !ok {
			rec.untouched = append(rec.untouched, gname)
		}
	}
	for _, c := range rec.updates {
		if txtar.NeedsQuote([]byte(c)) && !quotable(c) {
			rec.unquotable = true
		}
	}
	verdict := "pass"
	if rec.otherFail {
		verdict = "fail"
	} else if alive && endsWith == "skip" {
		verdict = "skip"
	}
	// where the loop stopped: ts.lineno
	lastLine := len(lines)
	if !g.fl.cont && rec.otherFail {
		lastLine = firstFail
	}
	after := file
	if len(rec.updates) > 0 {
		if rec.unquotable {
			verdict = "fail"
			if firstFail < 0 {
				firstFail = lastLine
			}
			tags = append(tags, "unquotable")
		} else {
			b := &txtar.Archive{Comment: a.Comment}
			for _, f := range a.Files {
				d := f.Data
				if c, ok := rec.updates[f.Name]; ok {
					d = []byte(c)
					if txtar.NeedsQuote(d) {
						d, _ = txtar.Quote(d)
						tags = append(tags, "quoted")
					}
				}
				b.Files = append(b.Files, txtar.File{Name: f.Name, Data: d})
			}
			after = txtar.Format(b)
		}
	} else {
		tags = append(tags, "no-update")
	}
	if builtinOnly {
		tags = append(tags, "builtin-only")
	}
	exp := &obs{verdict: verdict, line: firstFail, tree: s.tree(), file: after}
	verdict0 := "pass"
	switch {
	case firstFail0 >= 0:
		verdict0 = "fail"
	case alive0 && endsWith == "skip":
		verdict0 = "skip"
	}
	if alive0 {
		tree0 = s.tree()
	}
	exp0 := &obs{verdict: verdict0, line: firstFail0, tree: tree0, file: file}
	if len(recipe) == 0 {
		recipe = append(recipe, "no comparison executed")
	}
	return &tcase{kind: "c16", fl: g.fl, file: file, exp: exp, exp0: exp0, recipe: strings.Join(recipe, "; "), tags: tags, c16: rec}
}

func goFixNLs(d []byte) []byte {
	if len(d) == 0 || d[len(d)-1] == '\n' {
		return d
	}
	return append(append([]byte{}, d...), '\n')
}

// c16Oracle states the property on the parsed archives, independently of Format.
func c16Oracle(res *corr.Result, c *tcase, in string, got obs, rerun *obs) {
	if c.c16 == nil {
		return
	}
	rec := c.c16
	res.OracleChecked["C16"]++
	before := txtar.Parse(c.file)
	if len(rec.updates) == 0 || rec.unquotable {
		// "never modify the script": not even a reformat
		if !bytes.Equal(got.file, c.file) {
			res.Violate("C16", in, "script file rewritten although no update applies ["+c.recipe+"]", "rewritten-without-update")
		}
		if rec.unquotable && got.verdict != "fail" {
			res.Violate("C16", in, "an update that cannot be quoted must fail the run cleanly, got "+got.verdict+" "+got.note, "unquotable-not-clean-failure")
		}
		return
	}
	after := txtar.Parse(got.file)
	if !bytes.Equal(after.Comment, before.Comment) {
		res.Violate("C16", in, "script text changed by the update", "comment-changed")
		return
	}
	if len(after.Files) != len(before.Files) {
		res.Violate("C16", in, fmt.Sprintf("number of entries changed %d -> %d", len(before.Files), len(after.Files)), "entries-changed")
		return
	}
	lastOf := map[string]int{} // an archive may name a file twice: the last entry is the one that is unpacked and read
	for i, f := range before.Files {
		lastOf[f.Name] = i
	}
	for i := range before.Files {
		bf, af := before.Files[i], after.Files[i]
		if bf.Name != af.Name {
			res.Violate("C16", in, fmt.Sprintf("entry %d renamed/reordered %q -> %q", i, bf.Name, af.Name), "names-changed")
			return
		}
		if act, ok := rec.updates[bf.Name]; ok {
			if lastOf[bf.Name] != i {
				// an earlier entry of the same name: the code rewrites it too; the property speaks of "this
				// entry" only — noted, not asserted either way
				res.Distribution["c16:shadowed-duplicate-entry-not-asserted"]++
				continue
			}
			want := []byte(act)
			if txtar.NeedsQuote(want) {
				want, _ = txtar.Quote(want)
			}
			if !bytes.Equal(af.Data, goFixNLs(want)) {
				res.Violate("C16", in, fmt.Sprintf("entry %q holds %q, actual content was %q", bf.Name, af.Data, act), "update-wrong-content")
			}
			// quoted content must unquote to the actual content
			if txtar.NeedsQuote([]byte(act)) {
				if u, err := txtar.Unquote(af.Data); err != nil || string(u) != act {
					res.Violate("C16", in, fmt.Sprintf("entry %q does not unquote to the actual content", bf.Name), "update-not-unquotable")
				}
			}
		} else if !bytes.Equal(bf.Data, af.Data) {
			res.Violate("C16", in, fmt.Sprintf("entry %q changed although no plain cmp mismatched on it", bf.Name), "frame-violated")
		}
	}
	if !rec.otherFail && got.verdict == "fail" {
		res.Violate("C16", in, "run fails although the only mismatches were in-archive cmps", "update-does-not-pass")
	}
	// fix-point: re-run without UpdateScripts
	if rerun != nil && !rec.otherFail && !rec.conflict {
		all := true
		for _, act := range rec.updates {
			if !representable(act) {
				all = false
			}
		}
		if all {
			res.Distribution["c16:rerun-checked"]++
			if rerun.verdict == "fail" || rerun.verdict == "crash" {
				res.Violate("C16", in, "re-running the updated script without UpdateScripts: "+rerun.verdict+" "+rerun.note, "rerun-fails")
			}
			if !bytes.Equal(rerun.file, got.file) {
				res.Violate("C16", in, "re-running the updated script changed it", "rerun-changes")
			}
		} else {
			res.Distribution["c16:rerun-not-representable"]++
		}
	}
}
