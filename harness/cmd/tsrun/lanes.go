package main

// Oracle-only lanes of C01: parts of the property's quantifier that the Lean model does not cover.
// The expectation comes from the generator's own bookkeeping (or from the run of the same script on
// its own); nothing here is compared with the model.
//
//   - commands registered through testscript.Main (`vmain`): "vmain args" behaves like "exec vmain args",
//     and with RequireExplicitExec every use without exec — negated or not, behind guards that hold —
//     is a failure of that line and the program is not run;
//   - Params.Deadline: a command that is still running when the deadline of the run expires is
//     interrupted and its line is reported as failed because of the time-out, `exec` and `! exec`
//     alike, in the foreground or when a `wait` collects it;
//   - several script files in one RunT call whose base names clash (a/foo.txt, c/foo#1.txt, b/foo.txt)
//     with kept work directories: every script gets a subtest name of its own — hence a work directory
//     of its own — and is reported exactly as when it is run alone.

import (
	"fmt"
	"go/build"
	"math/rand"
	"os"
	"path/filepath"
	"sort"
	"strconv"
	"strings"

	"github.com/rogpeppe/go-internal/testscript"

	"verif/harness/internal/corr"
)

// ---------------------------------------------------------------- testscript.Main commands

// mainCmdName is the command this binary hands to testscript.Main (main.go): a second name of the
// helper program (helper.go), installed on PATH by testscript and registered as a script command.
const mainCmdName = "vmain"

func mainCommands() map[string]func() {
	return map[string]func(){mainCmdName: func() { helperMain(os.Args[1:]) }}
}

type mFunc func() int

func (f mFunc) Run() int { return f() }

// execMainLine: a foreground run of `vmain`, with or without `exec` in front.
func (g *gen) execMainLine(good bool) gline {
	s := g.st
	implicit := g.chance(65)
	neg := g.chance(50)
	if implicit && g.fl.explicitExec {
		if !good {
			// without exec the line fails whatever the program would do, and the program is not run:
			// buffers and ts.stdin stay as they are
			st := g.pick([]string{"exit:1", "exit:1", "exit:2", "out:x", ""})
			text := strings.TrimRight(mainCmdName+" "+st, " ")
			tag := "bad-main-implicit-under-explicit-exec"
			if neg {
				text = "! " + text
				tag = "bad-neg-main-implicit-under-explicit-exec"
			}
			return gline{text: text, tag: tag}
		}
		implicit = false
	}
	status := 0
	if neg == good {
		status = 1 + g.rng.Intn(3)
	}
	h := g.helperActions(s.stdin, status, false)
	text := strings.TrimRight(mainCmdName+" "+strings.Join(h.args, " "), " ")
	tag := "main-implicit"
	if !implicit {
		text = "exec " + text
		tag = "main-exec"
	}
	if neg {
		text = "! " + text
		tag = "neg-" + tag
	}
	if !good {
		tag = "bad-" + tag
	}
	return gline{text: text, apply: func() { s.stdout, s.stderr, s.stdin = h.out, h.err, "" }, tag: tag}
}

// laneCorpus: fixed cases of the oracle-only lanes, run on every seed.
func laneCorpus() []*tcase {
	mk := func(fl flags, file string, exp obs, recipe string, tags ...string) *tcase {
		exp.file = []byte(file)
		sort.Strings(exp.tree)
		return &tcase{kind: "c01", fl: fl, file: []byte(file), exp: &exp, recipe: recipe, tags: append([]string{"nontrivial", "corpus"}, tags...)}
	}
	d := func(name string) string { return "d:" + corr.Hx([]byte(name)) }
	em := flags{explicitExec: true, mainCmd: true, customCmds: true}
	return []*tcase{
		mk(em, "probe 1\n! vmain exit:1\nprobe 3\n", obs{verdict: "fail", line: 2, probes: []string{"1"}}, "RequireExplicitExec: negated use of a Main command without exec", "main-cmd:neg-implicit-under-explicit-exec"),
		mk(em, "probe 1\nvmain out:x\nprobe 3\n", obs{verdict: "fail", line: 2, probes: []string{"1"}}, "RequireExplicitExec: use of a Main command without exec", "main-cmd:implicit-under-explicit-exec"),
		mk(flags{explicitExec: true, mainCmd: true, customCmds: true, cont: true}, "[gc] ! vmain exit:2\nprobe 2\n[gccgo] vmain\n", obs{verdict: "fail", line: 1, probes: []string{"2"}}, "RequireExplicitExec, ContinueOnError: guarded negated use without exec", "main-cmd:neg-implicit-under-explicit-exec"),
		mk(em, "exec vmain out:x\nstdout x\n! exec vmain exit:1\nprobe 4\n", obs{verdict: "pass", line: -1, probes: []string{"4"}}, "RequireExplicitExec: exec vmain is fine", "main-cmd:exec"),
		mk(flags{mainCmd: true}, "vmain out:x err:y\nstdout x\nstderr y\n! vmain exit:2\n! stdout x\n", obs{verdict: "pass", line: -1}, "a Main command without exec behaves like exec", "main-cmd:implicit"),
		mk(flags{mainCmd: true}, "vmain out:x\n! vmain out:y\nmkdir never\n", obs{verdict: "fail", line: 2}, "negated Main command that succeeds", "main-cmd:implicit"),
		mk(flags{mainCmd: true, cont: true}, "vmain exit:3\nmkdir after\n", obs{verdict: "fail", line: 1, tree: []string{d("after")}}, "Main command that fails, ContinueOnError", "main-cmd:implicit"),
	}
}

// oracleOnlyCorpus: fixed scripts over parts of the documented language the Lean model leaves out; the expectation is
// written down here.
//   - [go1.N] conditions: true exactly for the release tags of the toolchain (go1.1 … go1.<current>), whatever the
//     number of digits of N (seeded C01-m11 compared the tags as strings);
//   - a program that the script itself installs on, or shadows along, an unchanged $PATH between two `exec`s of the
//     same bare name (seeded C01-m10 memoised the look-up per $PATH value);
//   - UpdateScripts on a script whose text has CRLF line ends: the script text stays byte-for-byte (seeded C16-m12).
func oracleOnlyCorpus() []*tcase {
	mk := func(fl flags, file string, exp obs, recipe string, tags ...string) *tcase {
		if exp.file == nil {
			exp.file = []byte(file)
		}
		sort.Strings(exp.tree)
		fl.oracleOnly = true
		return &tcase{kind: "c01", fl: fl, file: []byte(file), exp: &exp, recipe: recipe, tags: append([]string{"nontrivial", "corpus"}, tags...)}
	}
	d := func(name string) string { return "d:" + corr.Hx([]byte(name)) }
	f := func(name, data string) string { return "f:" + corr.Hx([]byte(name)) + ":" + corr.Hx([]byte(data)) }
	var out []*tcase
	// ---- [go1.N]
	cur := 0
	for _, t := range build.Default.ReleaseTags {
		if n, err := strconv.Atoi(strings.TrimPrefix(t, "go1.")); err == nil && n > cur {
			cur = n
		}
	}
	if cur >= 10 {
		for _, n := range []int{1, 3, 9, 10, 12, cur - 1, cur} {
			c := fmt.Sprintf("go1.%d", n)
			out = append(out,
				mk(flags{}, "["+c+"] exists nothing\nmkdir after\n", obs{verdict: "fail", line: 1}, "["+c+"] holds for this toolchain: the guarded failing line runs", "cond:go-version-true"),
				mk(flags{}, "[!"+c+"] exists nothing\nmkdir after\n", obs{verdict: "pass", line: -1, tree: []string{d("after")}}, "[!"+c+"] does not hold: the guarded line is skipped", "cond:go-version-true"))
		}
		for _, n := range []int{cur + 1, cur + 7, 100, 101, 1000} {
			if n <= cur {
				continue
			}
			c := fmt.Sprintf("go1.%d", n)
			out = append(out,
				mk(flags{}, "["+c+"] exists nothing\nmkdir after\n", obs{verdict: "pass", line: -1, tree: []string{d("after")}}, "["+c+"] is not a release tag of this toolchain: the guarded line is skipped", "cond:go-version-false"),
				mk(flags{cont: true}, "[!"+c+"] exists nothing\nmkdir after\n", obs{verdict: "fail", line: 1, tree: []string{d("after")}}, "[!"+c+"] holds: the guarded failing line runs", "cond:go-version-false"))
		}
	}
	// ---- programs installed along an unchanged $PATH
	okSh, badSh := "#!/bin/sh\nexit 0\n", "#!/bin/sh\nexit 1\n"
	if _, err := os.Stat("/bin/sh"); err == nil {
		out = append(out,
			mk(flags{}, "mkdir bin\nenv PATH=$WORK/bin${:}$PATH\n! exec mytool\ncp ok.sh bin/mytool\nchmod 755 bin/mytool\nexec mytool\n-- ok.sh --\n"+okSh,
				obs{verdict: "pass", line: -1, tree: []string{d("bin"), f("bin/mytool", okSh), f("ok.sh", okSh)}},
				"a program that is not found at first, then installed on the unchanged $PATH, is found by the next exec", "exec:path-install"),
			mk(flags{}, "mkdir bin1\nmkdir bin2\ncp ok.sh bin2/mytool\nchmod 755 bin2/mytool\nenv PATH=$WORK/bin1${:}$WORK/bin2${:}$PATH\nexec mytool\ncp bad.sh bin1/mytool\nchmod 755 bin1/mytool\nexec mytool\nmkdir never\n-- ok.sh --\n"+okSh+"-- bad.sh --\n"+badSh,
				obs{verdict: "fail", line: 9, tree: []string{d("bin1"), d("bin2"), f("bin1/mytool", badSh), f("bin2/mytool", okSh), f("ok.sh", okSh), f("bad.sh", badSh)}},
				"a failing program installed earlier on the unchanged $PATH shadows the one found before", "exec:path-shadow"),
			mk(flags{}, "mkdir bin\nenv PATH=$WORK/bin${:}$PATH\ncp ok.sh bin/mytool\nchmod 755 bin/mytool\nexec mytool\nrm bin/mytool\n! exec mytool\nexec mytool\n-- ok.sh --\n"+okSh,
				obs{verdict: "fail", line: 8, tree: []string{d("bin"), f("ok.sh", okSh)}},
				"a program removed from the unchanged $PATH is no longer found", "exec:path-remove"))
	}
	// ---- UpdateScripts, CRLF script text
	crlf := "exec vh out:new\r\ncmp stdout g\r\n# done\r\n"
	out = append(out,
		mk(flags{update: true}, crlf+"-- g --\nold\n", obs{verdict: "pass", line: -1, tree: []string{f("g", "old\n")}, file: []byte(crlf + "-- g --\nnew\n")},
			"UpdateScripts on a script with CRLF line ends: only the golden entry changes, the script text stays byte-for-byte", "update:crlf-script-text"),
		mk(flags{update: true}, crlf+"-- g --\nold\n-- h --\nkeep\r\n", obs{verdict: "pass", line: -1, tree: []string{f("g", "old\n"), f("h", "keep\r\n")}, file: []byte(crlf + "-- g --\nnew\n-- h --\nkeep\r\n")},
			"UpdateScripts, CRLF script text, a bystander entry with CRLF data", "update:crlf-script-text"))
	return out
}

// ---------------------------------------------------------------- Params.Deadline

const timedOutMsg = "test timed out while running command"

// saysTimedOut: the log attributes the failure to the time-out (the wording itself is not part of the property).
func saysTimedOut(log string) bool {
	l := strings.ToLower(log)
	return strings.Contains(l, "timed out") || strings.Contains(l, "timeout") || strings.Contains(l, "time out") || strings.Contains(l, "deadline")
}

// genDeadline: a script in which one command is still running when the deadline of the run expires
// (fillParams: about a second after the start).  Before that command only builtin lines that cannot
// fail run, so the expectation does not depend on how fast the machine is.
func genDeadline(rng *rand.Rand, variant int) *tcase {
	g := &gen{rng: rng, st: newGst()}
	g.fl = flags{deadline: true, cont: g.chance(40)}
	s := g.st
	var lines []string
	for i, n := 0, g.rng.Intn(3); i < n; i++ {
		switch g.rng.Intn(4) {
		case 0:
			lines = append(lines, "exists .")
		case 1:
			lines = append(lines, "# phase")
		case 2:
			lines = append(lines, "! exists nothing")
		default:
			g.ctr++
			d := fmt.Sprintf("d%d", g.ctr)
			lines = append(lines, "mkdir "+d)
			s.mkdirAll(d)
		}
	}
	var tag string
	switch variant % 6 {
	case 0:
		lines, tag = append(lines, "exec vh block"), "exec"
	case 1, 2:
		lines, tag = append(lines, "! exec vh block"), "neg-exec"
	case 3:
		lines, tag = append(lines, "exec vh block &", "wait"), "bg-wait"
	case 4:
		lines, tag = append(lines, "! exec vh block &b1&", "wait b1"), "neg-bg-wait-name"
	default:
		lines, tag = append(lines, "! exec vh block &", "exists .", "wait"), "neg-bg-wait"
	}
	k := len(lines)
	lines = append(lines, "mkdir after")
	if g.fl.cont {
		s.mkdirAll("after")
	}
	file := []byte(strings.Join(lines, "\n") + "\n")
	exp := &obs{verdict: "fail", line: k, tree: s.tree(), file: file}
	return &tcase{kind: "c01", fl: g.fl, file: file, exp: exp,
		recipe: fmt.Sprintf("line %d is still running when the deadline of the run expires (%s)", k, tag),
		tags:   []string{"nontrivial", "deadline:" + tag}}
}

// ---------------------------------------------------------------- several files, clashing base names

type mgroup struct {
	fl      flags
	names   []string // slash paths of the script files below the group's directory, in Params.Files order
	members []int    // indices into cases: the same scripts as cases of their own (run alone)
	pattern string
	// filled by runMulti
	got      []obs
	subtests []string // the names RunT passed to T.Run, in call order
	ioErr    string
}

var multiPatterns = [][]string{
	{"a/foo.txt", "c/foo#1.txt", "b/foo.txt"},
	{"a/foo.txt", "b/foo.txtar", "c/foo#1.txt"},
	{"a/foo.txt", "b/foo#1.txt", "c/foo.txt", "d/foo.txt"},
	{"a/x.txt", "b/x.txt", "c/x#2.txt", "d/x.txt"},
	{"a/s#1.txt", "b/s.txt", "c/s.txtar"},
	{"a/t.txt", "b/t.txt", "c/t#1#1.txt", "d/t#1.txt", "e/t.txt"},
	{"a/foo.txt", "b/bar.txt", "c/foo.txt"},
}

// withLeftoverProbe puts two lines in front of a generated script: the first fails when the work
// directory is not fresh (another script of the same RunT call has used it), the second leaves the mark.
func withLeftoverProbe(c *tcase) {
	const pre = "! exists zz-left\nmkdir zz-left\n"
	c.file = append([]byte(pre), c.file...)
	c.exp.file = c.file
	if c.exp.line > 0 {
		c.exp.line += 2
	}
	setupFailed := false
	for _, t := range c.tags {
		if t == "setup-fail" {
			setupFailed = true
		}
	}
	if !setupFailed {
		c.exp.tree = append(c.exp.tree, "d:"+corr.Hx([]byte("zz-left")))
		sort.Strings(c.exp.tree)
	}
	c.recipe = "lines 1-2 probe for a fresh work directory; then (line numbers +2): " + c.recipe
}

// genMultiGroup draws one group; its scripts are appended to cases as cases of their own.
func genMultiGroup(rng *rand.Rand, n int, cases []*tcase) (*mgroup, []*tcase) {
	g := &gen{rng: rng}
	pat := multiPatterns[n%len(multiPatterns)]
	if n >= len(multiPatterns) && g.chance(50) {
		pat = multiPatterns[rng.Intn(len(multiPatterns))]
	}
	fl := flags{cont: g.chance(40), explicitExec: g.chance(15), unique: g.chance(35), customCmds: g.chance(60), customCond: g.chance(40)}
	mg := &mgroup{fl: fl, names: pat, pattern: strings.Join(pat, ",")}
	for range pat {
		var c *tcase
		for c = genC01opt(rng, genOpts{fl: &fl, short: true}); len(c.file) > 20000; c = genC01opt(rng, genOpts{fl: &fl, short: true}) {
		}
		withLeftoverProbe(c)
		c.tags = append(c.tags, "multi-file-member")
		mg.members = append(mg.members, len(cases))
		cases = append(cases, c)
	}
	return mg, cases
}

func (g *mgroup) encode(cases []*tcase) string {
	var parts []string
	for j, i := range g.members {
		parts = append(parts, g.names[j]+"="+corr.Hx(cases[i].file))
	}
	return "files-multi " + g.fl.String() + " " + strings.Join(parts, ",")
}

func decodeMultiGroup(s string) (*mgroup, []*tcase) {
	f := strings.Fields(s)
	if len(f) != 3 {
		return nil, nil
	}
	g := &mgroup{fl: parseFlags(f[1]), pattern: "replay"}
	var cases []*tcase
	for _, p := range strings.Split(f[2], ",") {
		name, h, ok := strings.Cut(p, "=")
		if !ok || name == "" || strings.Contains(name, "..") || strings.HasPrefix(name, "/") {
			return nil, nil
		}
		g.names = append(g.names, name)
		g.members = append(g.members, len(cases))
		cases = append(cases, &tcase{kind: "c01", fl: g.fl, file: corr.Unhx(h), recipe: "replay", tags: []string{"nontrivial", "multi-file-member"}})
	}
	return g, cases
}

// multiT: a testscript.T that runs every subtest to completion at once (Parallel is a no-op, so the
// scripts run one after the other) and keeps the names it was given.
type multiT struct {
	recT
	names  []string
	subs   []*recT
	marks  []int
	probes *[]string
}

func (t *multiT) Run(name string, f func(testscript.T)) {
	sub := &recT{}
	t.names = append(t.names, name)
	t.subs = append(t.subs, sub)
	t.marks = append(t.marks, len(*t.probes))
	sub.Run(name, f)
}

// runMulti runs the scripts of the group through ONE RunT call (Params.Files, kept work directories).
func (r *runner) runMulti(g *mgroup, cases []*tcase) {
	for try := 0; try < 3; try++ {
		if r.runMultiOnce(g, cases); g.ioErr == "" {
			return
		}
	}
}

func (r *runner) runMultiOnce(g *mgroup, cases []*tcase) {
	g.got, g.subtests, g.ioErr = nil, nil, ""
	dir := r.newDir()
	defer os.RemoveAll(dir)
	wroot := filepath.Join(dir, "work")
	if err := os.MkdirAll(wroot, 0o777); err != nil {
		g.ioErr = err.Error()
		return
	}
	var paths []string
	for j, i := range g.members {
		p := filepath.Join(dir, "scripts", filepath.FromSlash(g.names[j]))
		if err := os.MkdirAll(filepath.Dir(p), 0o777); err != nil {
			g.ioErr = err.Error()
			return
		}
		if err := os.WriteFile(p, cases[i].file, 0o666); err != nil {
			g.ioErr = err.Error()
			return
		}
		paths = append(paths, p)
	}
	var probes []string
	p := testscript.Params{Files: paths, WorkdirRoot: wroot}
	r.fillParams(&p, g.fl, &probes)
	t := &multiT{probes: &probes}
	func() {
		defer func() {
			if e := recover(); e != nil {
				t.note = "outside T.Run: " + fmt.Sprint(e)
			}
		}()
		testscript.RunT(t, p)
	}()
	g.subtests = t.names
	for j := range g.members {
		if j >= len(t.subs) {
			g.got = append(g.got, obs{verdict: "not-run", line: -1, note: t.note})
			continue
		}
		sub := t.subs[j]
		o := obs{verdict: sub.verdict, line: -1, note: sub.note}
		hi := len(probes)
		if j+1 < len(t.marks) {
			hi = t.marks[j+1]
		}
		o.probes = append([]string(nil), probes[t.marks[j]:hi]...)
		if m := failLineRE.FindStringSubmatch(sub.log.String()); m != nil {
			o.line, _ = strconv.Atoi(m[2])
			if m[1] != paths[j] {
				o.note += " FAIL line names " + m[1]
				o.line = -2
			}
		}
		o.tree = readTree(filepath.Join(wroot, "script-"+t.names[j]))
		var err error
		if o.file, err = os.ReadFile(paths[j]); err != nil {
			g.ioErr = err.Error()
		}
		g.got = append(g.got, o)
	}
	if _, err := os.Stat(wroot); err != nil {
		g.ioErr = err.Error()
	}
}

// multiOracle (C01): in one RunT call over files with clashing base names, every script is reported
// as when it is run alone, and no two scripts are given the same subtest name (the name decides the
// work directory: with the same name the second script would run in what the first one left behind).
func multiOracle(res *corr.Result, g *mgroup, cases []*tcase, solo []obs) {
	if g.ioErr != "" {
		res.Distribution["harness-io-error"]++
		return
	}
	for _, i := range g.members {
		if solo[i].ioErr != "" {
			res.Distribution["harness-io-error"]++
			return
		}
	}
	in := g.encode(cases)
	res.Distribution["c01:multi-file-group"]++
	res.Distribution["c01:multi-file-group:files="+g.pattern]++
	res.OracleChecked["C01"]++
	if len(g.subtests) != len(g.members) {
		res.Violate("C01", in, fmt.Sprintf("RunT started %d subtests for %d script files: %q", len(g.subtests), len(g.members), g.subtests), "multi-file-subtest-count")
		return
	}
	seen := map[string]int{}
	for j, n := range g.subtests {
		if k, dup := seen[n]; dup {
			res.Violate("C01", in, fmt.Sprintf("scripts %s and %s were both given the subtest name %q (one work directory script-%s for both): names %q", g.names[k], g.names[j], n, n, g.subtests), "multi-file-names-collide")
			break
		}
		seen[n] = j
	}
	// one report per group: a differing verdict (or FAIL line) rather than a differing tree, when there are both
	worst, worstRank := -1, 0
	for j, i := range g.members {
		res.OracleChecked["C01"]++
		if solo[i].String(cases[i].file) == g.got[j].String(cases[i].file) {
			continue
		}
		rank := 1
		if solo[i].verdict != g.got[j].verdict || solo[i].line != g.got[j].line {
			rank = 2
		}
		if rank > worstRank {
			worst, worstRank = j, rank
		}
	}
	if worst >= 0 {
		j, i := worst, g.members[worst]
		res.Violate("C01", in, fmt.Sprintf("script %s (subtest %q) run together with the others: %s %s; run alone: %s [%s]", g.names[j], g.subtests[j],
			g.got[j].String(cases[i].file), g.got[j].note, solo[i].String(cases[i].file), cases[i].recipe), "multi-file-"+classOf(&solo[i], &g.got[j]))
	}
}
