// tsrun group binary: `tsrun factgen ...` and `tsrun corr ...` (properties C01, C16).
package main

import (
	"fmt"
	"os"

	"verif/harness/internal/corr"
	"verif/harness/internal/fact"
)

func main() {
	if len(os.Args) < 2 {
		fmt.Fprintln(os.Stderr, "usage: tsrun factgen|corr [flags]")
		os.Exit(2)
	}
	switch os.Args[1] {
	case "factgen":
		fact.Main(os.Args[2:], "tsrun", "TsRun", genTsRun)
	case "corr":
		corr.Main(os.Args[2:], runTsRun)
	default:
		fmt.Fprintln(os.Stderr, "usage: tsrun factgen|corr [flags]")
		os.Exit(2)
	}
}
