// tsrun group binary: `tsrun factgen ...` and `tsrun corr ...` (properties C01, C16).
// Invoked through a link named `vh` it is the helper program the generated scripts `exec` (helper.go);
// invoked as `vmain` (the copy testscript.Main installs) it is the same helper as a Main command.
package main

import (
	"fmt"
	"os"
	"path/filepath"

	"github.com/rogpeppe/go-internal/testscript"

	"verif/harness/internal/corr"
	"verif/harness/internal/fact"
)

func main() {
	if filepath.Base(os.Args[0]) == "vh" { // the scripts' helper program (helper.go)
		helperMain(os.Args[1:])
		return
	}
	if filepath.Base(os.Args[0]) == mainCmdName { // the copy of this binary that testscript.Main put on PATH
		testscript.Main(nil, mainCommands()) // runs the command and exits
	}
	if len(os.Args) < 2 {
		fmt.Fprintln(os.Stderr, "usage: tsrun factgen|corr [flags]")
		os.Exit(2)
	}
	switch os.Args[1] {
	case "factgen":
		fact.Main(os.Args[2:], "tsrun", "TsRun", genTsRun)
	case "corr":
		// through testscript.Main, as a TestMain would: it installs a copy of this binary named `vmain` on
		// PATH and registers `vmain` as a script command ("vmain args" = "exec vmain args", unless
		// Params.RequireExplicitExec) — the commands of exe.go, which are part of C01 (lanes.go).
		// Main runs the function below and exits with its result.
		testscript.Main(mFunc(func() int { corr.Main(os.Args[2:], runTsRun); return 0 }), mainCommands())
	default:
		fmt.Fprintln(os.Stderr, "usage: tsrun factgen|corr [flags]")
		os.Exit(2)
	}
}
