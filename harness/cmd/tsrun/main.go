// tsrun group binary: `tsrun factgen ...` and `tsrun corr ...` (properties C01, C16).
// Invoked through a link named `vh` it is the helper program the generated scripts `exec` (helper.go).
package main

import (
	"fmt"
	"os"
	"path/filepath"

	"verif/harness/internal/corr"
	"verif/harness/internal/fact"
)

func main() {
	if filepath.Base(os.Args[0]) == "vh" { // the scripts' helper program (helper.go)
		helperMain(os.Args[1:])
		return
	}
	if len(os.Args) < 2 {
		fmt.Fprintln(os.Stderr, "usage: tsrun factgen|corr [flags]")
		os.Exit(2)
	}
	switch os.Args[1] {
	case "factgen":
		fact.Main(os.Args[2:], "tsrun", "TsRun", genTsRun)
	case "corr":
		corr.Main(os.Args[2:], runTsRun)
	default:
		fmt.Fprintln(os.Stderr, "usage: tsrun factgen|corr [flags]")
		os.Exit(2)
	}
}
