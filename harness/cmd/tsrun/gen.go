package main

// Generator of C01 cases.  A script is built line by line from a recipe; the generator keeps a
// deliberately naive picture of the work directory (two maps), of ts.cd, of the variables it set,
// of the stdout/stderr buffers and of the probes that ran, and applies a line's effect only when
// the recipe says the line is executed.  The expected observables follow by construction.

import (
	"fmt"
	"math/rand"
	"runtime"
	"sort"
	"strings"

	"github.com/rogpeppe/go-internal/txtar"

	"verif/harness/internal/corr"
)

type gst struct {
	files  map[string]string // $WORK-relative slash path -> content
	dirs   map[string]bool   // $WORK-relative; the root is implicit
	cd     string            // "" = $WORK
	env    map[string]string
	stdout string
	stderr string
	stdin  string // ts.stdin: set by `stdin`, consumed by the next exec
	bgs    []gbg  // ts.background, oldest first (genbg.go)
	probes []string
}

func newGst() *gst {
	return &gst{files: map[string]string{}, dirs: map[string]bool{}, env: map[string]string{}}
}

func (s *gst) isDir(p string) bool  { return p == "" || s.dirs[p] }
func (s *gst) isFile(p string) bool { _, ok := s.files[p]; return ok }
func (s *gst) exists(p string) bool { return s.isDir(p) || s.isFile(p) }

func parentOf(p string) string {
	i := strings.LastIndex(p, "/")
	if i < 0 {
		return ""
	}
	return p[:i]
}

func baseOf(p string) string { return p[strings.LastIndex(p, "/")+1:] }

func (s *gst) mkdirAll(p string) {
	for p != "" {
		s.dirs[p] = true
		p = parentOf(p)
	}
}

func (s *gst) tree() []string {
	var out []string
	for d := range s.dirs {
		out = append(out, "d:"+corr.Hx([]byte(d)))
	}
	for f, c := range s.files {
		out = append(out, "f:"+corr.Hx([]byte(f))+":"+corr.Hx([]byte(c)))
	}
	sort.Strings(out)
	return out
}

func (s *gst) sortedFiles() []string {
	var out []string
	for f := range s.files {
		out = append(out, f)
	}
	sort.Strings(out)
	return out
}

func (s *gst) sortedDirs() []string {
	var out []string
	for d := range s.dirs {
		out = append(out, d)
	}
	sort.Strings(out)
	return out
}

type gen struct {
	rng    *rand.Rand
	st     *gst
	fl     flags
	ctr    int
	bgMode bool // this script leans towards exec / background / wait / kill lines
}

func (g *gen) pick(ss []string) string { return ss[g.rng.Intn(len(ss))] }
func (g *gen) chance(pct int) bool     { return g.rng.Intn(100) < pct }

// q quotes a word for the tokenizer when it needs it.
func q(s string) string {
	if s == "" {
		return "''"
	}
	if strings.ContainsAny(s, " \t'#$\r") {
		return "'" + strings.ReplaceAll(s, "'", "''") + "'"
	}
	return s
}

// rel renders the $WORK-relative path p as a script word, given ts.cd.
func (g *gen) rel(p string) string {
	s := g.st
	var forms []string
	quoted := func(x string) string { // quote only the literal part: $WORK must stay outside quotes
		return q(x)
	}
	if p == "" {
		forms = append(forms, "$WORK")
		if s.cd == "" {
			forms = append(forms, ".")
		} else if !strings.Contains(s.cd, "/") {
			forms = append(forms, "..")
		}
	} else {
		forms = append(forms, "$WORK/"+quoted(p), "${WORK}/"+quoted(p))
		switch {
		case s.cd == "":
			forms = append(forms, quoted(p), quoted(p), "./"+quoted(p))
		case p == s.cd:
			forms = append(forms, ".")
		case strings.HasPrefix(p, s.cd+"/"):
			forms = append(forms, quoted(p[len(s.cd)+1:]), quoted(p[len(s.cd)+1:]))
		case !strings.Contains(s.cd, "/"):
			forms = append(forms, "../"+quoted(p))
		}
		for _, k := range []string{"X", "Y", "FOO_1"} {
			if v, ok := s.env[k]; ok && v == p {
				forms = append(forms, "$WORK/$"+k, "$WORK/${"+k+"}")
			}
		}
	}
	return forms[g.rng.Intn(len(forms))]
}

var absentNames = []string{"nothing", "zz1", "missing.txt", "d/zz2", "nodir/zz3", "d/e/zz4", "d2/none"}

// absent returns a path that does not exist (its parent may or may not).
func (g *gen) absent(needParent bool) string {
	for try := 0; try < 20; try++ {
		p := g.pick(absentNames)
		if g.st.exists(p) {
			continue
		}
		// no component may be a regular file
		bad := false
		for q := parentOf(p); q != ""; q = parentOf(q) {
			if g.st.isFile(q) {
				bad = true
			}
		}
		if bad || (needParent && !g.st.isDir(parentOf(p))) {
			continue
		}
		return p
	}
	g.ctr++
	return fmt.Sprintf("fresh%d", g.ctr)
}

func (g *gen) someFile() (string, bool) {
	fs := g.st.sortedFiles()
	if len(fs) == 0 {
		return "", false
	}
	return g.pick(fs), true
}

func (g *gen) someDir() string {
	ds := append([]string{""}, g.st.sortedDirs()...)
	return g.pick(ds)
}

func (g *gen) somePath() string {
	all := append(g.st.sortedFiles(), g.st.sortedDirs()...)
	all = append(all, "")
	return g.pick(all)
}

var words = []string{"alpha", "beta", "gamma", "delta", "two", "x1", "Hello"}

// a line: its text and what it does when it runs.
type gline struct {
	text   string
	apply  func() // effect of running it (good lines: the whole effect; bad lines: the effect before the Fatalf)
	tag    string
	custom bool // uses a custom command
}

func noop() {}

// ---- good lines (succeed in the current state)

func (g *gen) goodLine(depth int) gline {
	s := g.st
	for {
		switch g.rng.Intn(28) {
		case 24, 25, 26, 27: // exec, exec &, wait, kill (genbg.go)
			l, ok := g.bgGoodLine()
			if !ok {
				continue
			}
			return l
		case 0, 1: // exists
			n := 1 + g.rng.Intn(3)
			var a []string
			for i := 0; i < n; i++ {
				a = append(a, g.rel(g.somePath()))
			}
			return gline{text: "exists " + strings.Join(a, " "), apply: noop, tag: "exists"}
		case 2: // ! exists
			return gline{text: "! exists " + g.rel(g.absent(false)), apply: noop, tag: "neg-exists"}
		case 3: // cmp equal
			fs := s.sortedFiles()
			var pairs [][2]string
			for _, a := range fs {
				for _, b := range fs {
					if a != b && s.files[a] == s.files[b] {
						pairs = append(pairs, [2]string{a, b})
					}
				}
			}
			for _, b := range fs {
				if s.files[b] == s.stdout {
					pairs = append(pairs, [2]string{"\x00stdout", b})
				}
				if s.files[b] == s.stderr {
					pairs = append(pairs, [2]string{"\x00stderr", b})
				}
			}
			if len(pairs) == 0 {
				continue
			}
			p := pairs[g.rng.Intn(len(pairs))]
			a := ""
			if strings.HasPrefix(p[0], "\x00") {
				a = p[0][1:]
				if s.isFile(joinCd(s.cd, a)) || g.rel(p[1]) == a { // a file literally named stdout would not shadow, but keep clear
					continue
				}
			} else {
				a = g.rel(p[0])
			}
			b := g.rel(p[1])
			if a == b {
				continue
			}
			return gline{text: "cmp " + a + " " + b, apply: noop, tag: "cmp"}
		case 4: // ! cmp differing
			fs := s.sortedFiles()
			if len(fs) < 2 {
				continue
			}
			a, b := g.pick(fs), g.pick(fs)
			if s.files[a] == s.files[b] {
				continue
			}
			ta, tb := g.rel(a), g.rel(b)
			if ta == tb {
				continue
			}
			return gline{text: "! cmp " + ta + " " + tb, apply: noop, tag: "neg-cmp"}
		case 5: // cp file -> new file / existing file / dir
			src, ok := g.someFile()
			if !ok {
				continue
			}
			switch g.rng.Intn(3) {
			case 0:
				dst := g.absent(true)
				return gline{text: "cp " + g.rel(src) + " " + g.rel(dst), apply: func() { s.files[dst] = s.files[src] }, tag: "cp"}
			case 1:
				dst, _ := g.someFile()
				return gline{text: "cp " + g.rel(src) + " " + g.rel(dst), apply: func() { s.files[dst] = s.files[src] }, tag: "cp"}
			default:
				d := g.someDir()
				src2, _ := g.someFile()
				t1, t2 := joinCd(d, baseOf(src)), joinCd(d, baseOf(src2))
				if s.isDir(t1) || s.isDir(t2) {
					continue
				}
				// one source after the other: the second is read after the first has been written
				return gline{text: "cp " + g.rel(src) + " " + g.rel(src2) + " " + g.rel(d), apply: func() { s.files[t1] = s.files[src]; s.files[t2] = s.files[src2] }, tag: "cp-dir"}
			}
		case 6: // cp stdout/stderr -> file
			which := g.pick([]string{"stdout", "stderr"})
			if s.isFile(joinCd(s.cd, which)) {
				continue
			}
			dst := g.absent(true)
			c := s.stdout
			if which == "stderr" {
				c = s.stderr
			}
			return gline{text: "cp " + which + " " + g.rel(dst), apply: func() { s.files[dst] = c }, tag: "cp-buffer"}
		case 7: // mkdir
			var ps []string
			for i := 0; i < 1+g.rng.Intn(2); i++ {
				if g.chance(30) {
					ps = append(ps, g.someDir())
				} else {
					ps = append(ps, g.absent(false))
				}
			}
			var a []string
			for _, p := range ps {
				a = append(a, g.rel(p))
			}
			return gline{text: "mkdir " + strings.Join(a, " "), apply: func() {
				for _, p := range ps {
					s.mkdirAll(p)
				}
			}, tag: "mkdir"}
		case 8: // rm
			var p string
			switch g.rng.Intn(3) {
			case 0:
				f, ok := g.someFile()
				if !ok {
					continue
				}
				p = f
			case 1:
				p = g.someDir()
			default:
				p = g.absent(false)
			}
			if p == "" || p == s.cd || strings.HasPrefix(s.cd, p+"/") {
				continue
			}
			return gline{text: "rm " + g.rel(p), apply: func() { s.removeAll(p) }, tag: "rm"}
		case 9: // mv file
			src, ok := g.someFile()
			if !ok {
				continue
			}
			dst := g.absent(true)
			if g.chance(25) {
				dst, _ = g.someFile()
			}
			return gline{text: "mv " + g.rel(src) + " " + g.rel(dst), apply: func() {
				c := s.files[src]
				delete(s.files, src)
				s.files[dst] = c
			}, tag: "mv"}
		case 10: // cd
			d := g.someDir()
			return gline{text: "cd " + g.rel(d), apply: func() { s.cd = d }, tag: "cd"}
		case 11: // env
			k := g.pick([]string{"X", "Y", "FOO_1"})
			v := g.somePath()
			if v == "" || strings.ContainsAny(v, " ") {
				v = g.absent(false)
			}
			return gline{text: "env " + k + "=" + v, apply: func() { s.env[k] = v }, tag: "env"}
		case 12, 13: // put
			if !g.fl.customCmds {
				continue
			}
			var lines []string
			for i := 0; i < g.rng.Intn(3); i++ {
				l := g.pick(words)
				if g.chance(40) {
					l += " " + g.pick(words)
				}
				lines = append(lines, l)
			}
			mode := g.pick([]string{"nl", "nl", "nonl"})
			content := strings.Join(lines, "\n")
			if mode == "nl" {
				content += "\n"
			}
			var ws []string
			for _, l := range lines {
				ws = append(ws, q(l))
			}
			argtext := strings.TrimRight(" "+mode+" "+strings.Join(ws, " "), " ")
			switch g.rng.Intn(3) {
			case 0:
				return gline{text: "put out" + argtext, apply: func() { s.stdout, s.stderr = content, "" }, tag: "put-out", custom: true}
			case 1:
				return gline{text: "put err" + argtext, apply: func() { s.stdout, s.stderr = "", content }, tag: "put-err", custom: true}
			default:
				dst := g.absent(true)
				if f, ok := g.someFile(); ok && g.chance(30) {
					dst = f
				}
				r := g.rel(dst)
				if strings.Contains(r, "'") { // put's target is one word "file:<path>"; keep it unquoted-simple
					continue
				}
				return gline{text: "put file:" + r + argtext, apply: func() { s.files[dst] = content }, tag: "put-file", custom: true}
			}
		case 14: // stdout / stderr match
			which := g.pick([]string{"stdout", "stderr"})
			text := s.stdout
			if which == "stderr" {
				text = s.stderr
			}
			var present, absent []string
			for _, w := range words {
				if strings.Contains(text, w) {
					present = append(present, w)
				} else {
					absent = append(absent, w)
				}
			}
			if g.chance(50) && len(absent) > 0 {
				return gline{text: "! " + which + " " + g.pick(absent), apply: noop, tag: "neg-match"}
			}
			if len(present) == 0 {
				continue
			}
			w := g.pick(present)
			if g.chance(40) {
				return gline{text: fmt.Sprintf("%s -count=%d %s", which, strings.Count(text, w), w), apply: noop, tag: "match-count"}
			}
			return gline{text: which + " " + w, apply: noop, tag: "match"}
		case 15: // grep
			f, ok := g.someFile()
			if !ok {
				continue
			}
			for _, w := range []string{"hello", "alpha", "two", "gamma"} {
				if strings.Contains(s.files[f], w) {
					return gline{text: "grep " + w + " " + g.rel(f), apply: noop, tag: "grep"}
				}
			}
			return gline{text: "! grep zebra " + g.rel(f), apply: noop, tag: "neg-grep"}
		case 16: // probe
			if !g.fl.customCmds {
				continue
			}
			g.ctr++
			id := fmt.Sprintf("p%d", g.ctr)
			if g.chance(20) {
				return gline{text: "! probe " + id + " extra", apply: func() { s.probes = append(s.probes, "!"+id+",extra") }, tag: "neg-probe", custom: true}
			}
			return gline{text: "probe " + id, apply: func() { s.probes = append(s.probes, id) }, tag: "probe", custom: true}
		case 17: // wait / kill (whatever background commands exist must allow it) / stdin
			switch g.rng.Intn(3) {
			case 0:
				l, ok := g.waitLine(true)
				if !ok {
					continue
				}
				return l
			case 1:
				l, ok := g.killLine()
				if !ok {
					continue
				}
				return l
			default:
				f, ok := g.someFile()
				if !ok {
					continue
				}
				return gline{text: "stdin " + g.rel(f), apply: func() { s.stdin = s.files[f] }, tag: "stdin"}
			}
		case 18: // a guard that does not hold in front of anything: the line is a no-op
			if depth > 0 {
				continue
			}
			inner := g.goodLine(1)
			if g.chance(60) {
				// the whole line is tokenized before any guard is looked at: a guard cannot
				// protect an unterminated quote
				for inner = g.badLine(1); inner.tag == "bad-unterminated-quote"; inner = g.badLine(1) {
				}
			}
			if g.chance(15) {
				inner = gline{text: g.pick([]string{"stop", "skip", "skip msg"})}
			}
			pre := g.guard(false)
			if g.chance(25) { // guards after one that does not hold are never evaluated, not even bad ones
				pre += " " + g.pick([]string{"[bad]", "[nosuchcondition]", g.guard(true), g.guard(false), "[!bad]"})
			}
			if g.chance(20) { // a guard that holds first
				pre = g.guard(true) + " " + pre
			}
			return gline{text: pre + " " + inner.text, apply: noop, tag: "guard-false", custom: inner.custom}
		case 20: // cmpenv: the second file is expanded
			fs := s.sortedFiles()
			var pairs [][2]string
			for _, a := range fs {
				for _, b := range fs {
					if a != b && s.files[a] == expandNaive(s.files[b], s.env) {
						pairs = append(pairs, [2]string{a, b})
					}
				}
			}
			if len(pairs) == 0 {
				continue
			}
			pr := pairs[g.rng.Intn(len(pairs))]
			ta, tb := g.rel(pr[0]), g.rel(pr[1])
			if ta == tb {
				continue
			}
			return gline{text: "cmpenv " + ta + " " + tb, apply: noop, tag: "cmpenv"}
		case 21: // a file holding what a template expands to
			if !g.fl.customCmds {
				continue
			}
			var tmpl []string
			for _, f := range s.sortedFiles() {
				if strings.Contains(s.files[f], "$") {
					tmpl = append(tmpl, f)
				}
			}
			if len(tmpl) == 0 {
				continue
			}
			t := g.pick(tmpl)
			want := expandNaive(s.files[t], s.env)
			if !strings.HasSuffix(want, "\n") || strings.Count(want, "\n") != 1 || strings.ContainsAny(want, "' #") {
				continue
			}
			dst := g.absent(true)
			r := g.rel(dst)
			if strings.Contains(r, "'") {
				continue
			}
			return gline{text: "put file:" + r + " nl " + strings.TrimSuffix(want, "\n"), apply: func() { s.files[dst] = want }, tag: "put-expanded", custom: true}
		case 22: // unquote
			for _, f := range s.sortedFiles() {
				c := s.files[f]
				if strings.HasPrefix(c, ">") && strings.HasSuffix(c, "\n") && g.chance(60) {
					f := f
					return gline{text: "unquote " + g.rel(f), apply: func() { s.files[f] = strings.ReplaceAll("\n"+c, "\n>", "\n")[1:] }, tag: "unquote"}
				}
			}
			continue
		case 23: // mv directory
			var ds []string
			for _, d := range s.sortedDirs() {
				if d != s.cd && !strings.HasPrefix(s.cd, d+"/") {
					ds = append(ds, d)
				}
			}
			if len(ds) == 0 {
				continue
			}
			src := g.pick(ds)
			dst := g.absent(true)
			if dst == src || strings.HasPrefix(dst, src+"/") {
				continue
			}
			return gline{text: "mv " + g.rel(src) + " " + g.rel(dst), apply: func() { s.renameTree(src, dst) }, tag: "mv-dir"}
		case 19: // guards that hold in front of a good line
			if depth > 0 {
				continue
			}
			inner := g.goodLine(1)
			pre := g.guard(true)
			if g.chance(30) {
				pre += " " + g.guard(true)
			}
			return gline{text: pre + " " + inner.text, apply: inner.apply, tag: "guard-true", custom: inner.custom}
		}
	}
}

// expandNaive: $NAME and ${NAME} for the variables the generator set itself; everything else it
// never writes into file contents.
func expandNaive(text string, env map[string]string) string {
	var b strings.Builder
	for i := 0; i < len(text); i++ {
		if text[i] != '$' {
			b.WriteByte(text[i])
			continue
		}
		j := i + 1
		brace := j < len(text) && text[j] == '{'
		if brace {
			j++
		}
		k := j
		for k < len(text) && (text[k] == '_' || text[k] >= '0' && text[k] <= '9' || text[k] >= 'a' && text[k] <= 'z' || text[k] >= 'A' && text[k] <= 'Z') {
			k++
		}
		b.WriteString(env[text[j:k]])
		if brace {
			k++
		}
		i = k - 1
	}
	return b.String()
}

func (s *gst) renameTree(src, dst string) {
	mv := func(p string) string {
		if p == src {
			return dst
		}
		if strings.HasPrefix(p, src+"/") {
			return dst + p[len(src):]
		}
		return p
	}
	nf := map[string]string{}
	for f, c := range s.files {
		nf[mv(f)] = c
	}
	nd := map[string]bool{}
	for d := range s.dirs {
		nd[mv(d)] = true
	}
	s.files, s.dirs = nf, nd
}

func joinCd(cd, p string) string {
	if cd == "" {
		return p
	}
	if p == "" {
		return cd
	}
	return cd + "/" + p
}

func (s *gst) removeAll(p string) {
	for f := range s.files {
		if f == p || strings.HasPrefix(f, p+"/") {
			delete(s.files, f)
		}
	}
	for d := range s.dirs {
		if d == p || strings.HasPrefix(d, p+"/") {
			delete(s.dirs, d)
		}
	}
}

// guard returns a [cond] word that holds (or does not hold) on this host.
func (g *gen) guard(holds bool) string {
	otherOS := "windows"
	if runtime.GOOS == "windows" {
		otherOS = "linux"
	}
	otherArch := "s390x"
	if runtime.GOARCH == "s390x" {
		otherArch = "amd64"
	}
	t := []string{"[" + runtime.GOOS + "]", "[" + runtime.GOARCH + "]", "[gc]", "[!exec:nosuchprog-zz]", "[!" + otherOS + "]", "[!gccgo]", "[!" + otherArch + "]", "'[ " + runtime.GOOS + " ]'", "'[ !  gccgo ]'"}
	f := []string{"[" + otherOS + "]", "[!" + runtime.GOOS + "]", "[exec:nosuchprog-zz]", "[gccgo]", "[!gc]", "[" + otherArch + "]", "'[! " + runtime.GOARCH + " ]'"}
	if runtime.GOOS != "windows" && runtime.GOOS != "plan9" && runtime.GOOS != "js" {
		t = append(t, "[unix]")
		f = append(f, "[!unix]")
	}
	if g.fl.customCond {
		t = append(t, "[yes]", "[yes]", "[!no]", "'[ yes ]'", "'[! no]'", "'[ !  no ]'")
		f = append(f, "[no]", "[no]", "[!yes]", "'[ ! yes ]'", "'[ no]'")
	}
	if holds {
		return g.pick(t)
	}
	return g.pick(f)
}

// ---- bad lines (call Fatalf in the current state)

func (g *gen) badLine(depth int) gline {
	s := g.st
	if g.fl.mainCmd && depth == 0 && g.chance(45) { // the Main-command lane (lanes.go)
		return g.execMainLine(false)
	}
	// an outstanding background command that ended against its line: `wait` is the line that reports it
	if depth == 0 && g.chance(50) {
		if _, fatal, _, _ := s.waitAll(false); fatal {
			if l, ok := g.waitLine(false); ok {
				return l
			}
		}
	}
	for {
		switch g.rng.Intn(31) {
		case 27, 28, 29, 30: // exec / wait / kill failures (genbg.go)
			l, ok := g.bgBadLine()
			if !ok {
				continue
			}
			return l
		case 0:
			return gline{text: "exists " + g.rel(g.absent(false)), tag: "bad-exists"}
		case 1:
			return gline{text: "! exists " + g.rel(g.somePath()), tag: "bad-neg-exists"}
		case 2:
			fs := s.sortedFiles()
			if len(fs) < 2 {
				continue
			}
			a, b := g.pick(fs), g.pick(fs)
			if s.files[a] == s.files[b] {
				continue
			}
			ta, tb := g.rel(a), g.rel(b)
			if ta == tb {
				continue
			}
			return gline{text: "cmp " + ta + " " + tb, tag: "bad-cmp-differ"}
		case 3:
			fs := s.sortedFiles()
			for _, a := range fs {
				for _, b := range fs {
					if a != b && s.files[a] == s.files[b] {
						ta, tb := g.rel(a), g.rel(b)
						if ta != tb {
							return gline{text: "! cmp " + ta + " " + tb, tag: "bad-neg-cmp-equal"}
						}
					}
				}
			}
			continue
		case 4:
			f, ok := g.someFile()
			if !ok {
				continue
			}
			t := g.rel(f)
			return gline{text: "cmp " + t + " " + t, tag: "bad-cmp-self"}
		case 5:
			f, ok := g.someFile()
			if !ok {
				continue
			}
			return gline{text: g.pick([]string{"cmp ", "cmpenv "}) + g.rel(f), tag: "bad-usage"}
		case 6:
			f, ok := g.someFile()
			if !ok {
				continue
			}
			if g.chance(50) {
				return gline{text: "cmp " + g.rel(g.absent(false)) + " " + g.rel(f), tag: "bad-cmp-missing"}
			}
			return gline{text: "cmp " + g.rel(f) + " " + g.rel(g.absent(false)), tag: "bad-cmp-missing"}
		case 7:
			return gline{text: g.pick([]string{"frobnicate", "frobnicate a b", "nosuchcommand x", "EXISTS a"}), tag: "bad-unknown"}
		case 8:
			return gline{text: g.pick([]string{"exits a", "mkdri d9", "stpo", "skpi", "cpm a b", "existss x"}), tag: "bad-misspelt"}
		case 9:
			return gline{text: g.pick([]string{"!exists nothing", "!cmp a b", "!stop"}), tag: "bad-bang-glued"}
		case 10:
			return gline{text: g.pick([]string{"cd", "cd a b", "mv a", "mv a b c", "stop a b", "skip a b", "mkdir", "rm", "cp a", "cp", "exists", "exists -readonly", "stdin", "stdin a b", "wait a b", "kill a b c", "stdout", "stderr a b", "grep x", "stdout -count=0 x"}), tag: "bad-usage"}
		case 11:
			if !g.fl.customCmds {
				return gline{text: g.pick([]string{"failcmd boom", "probe p0", "put out nl x"}), tag: "bad-custom-absent"}
			}
			return gline{text: g.pick([]string{"failcmd boom", "failcmd", "! failcmd x", "put", "put out", "put out maybe x", "put nowhere nl x", "! put out nl x"}), tag: "bad-failcmd", custom: true}
		case 12:
			return gline{text: g.pick([]string{"! cd .", "! mkdir d9", "! stop", "! skip", "! env A=b", "! cp a b", "! mv a b", "! rm a", "! wait", "! kill", "! stdin a", "! unquote a", "! stdout -count=1 x"}), tag: "bad-neg-unsupported"}
		case 13: // guard problems
			if g.fl.customCond {
				return gline{text: g.pick([]string{"[yes]", "[no]", "[!no]", "[bad] exists .", "[!bad] stop", "[] exists .", "[yes] [no]", "[yes] [maybe] stop"}), tag: "bad-guard"}
			}
			return gline{text: g.pick([]string{"[" + runtime.GOOS + "]", "[gccgo]", "[yes] exists .", "[!no] stop", "[nosuchcondition] skip", "[] exists .", "[gc] [gccgo]"}), tag: "bad-guard"}
		case 14:
			f, ok := g.someFile()
			if ok && g.chance(50) {
				return gline{text: "cd " + g.rel(f), tag: "bad-cd-file"}
			}
			return gline{text: "cd " + g.rel(g.absent(false)), tag: "bad-cd-missing"}
		case 15:
			which := g.pick([]string{"stdout", "stderr"})
			text := s.stdout
			if which == "stderr" {
				text = s.stderr
			}
			for _, w := range words {
				if strings.Contains(text, w) {
					if g.chance(50) {
						return gline{text: "! " + which + " " + w, tag: "bad-neg-match"}
					}
					return gline{text: fmt.Sprintf("%s -count=%d %s", which, strings.Count(text, w)+1, w), tag: "bad-count"}
				}
			}
			return gline{text: which + " zebra", tag: "bad-nomatch"}
		case 16:
			switch g.rng.Intn(3) {
			case 0:
				return gline{text: "mv " + g.rel(g.absent(false)) + " " + g.rel(g.absent(true)), tag: "bad-mv-missing"}
			case 1:
				return gline{text: "cp " + g.rel(g.absent(false)) + " " + g.rel(g.absent(true)), tag: "bad-cp-missing"}
			default:
				f, ok := g.someFile()
				if !ok {
					continue
				}
				return gline{text: "cp " + g.rel(f) + " " + g.rel(f) + " " + g.rel(g.absent(true)), tag: "bad-cp-notdir"}
			}
		case 17:
			return gline{text: g.pick([]string{"exists 'abc", "probe 'unterminated", "stop 'a b", "exists a 'b''"}), tag: "bad-unterminated-quote"}
		case 18:
			return gline{text: g.pick([]string{"!", "! ", " !"}), tag: "bad-bang-alone"}
		case 19: // partial effect: the first directory is created, the second argument runs through a file
			f, ok := g.someFile()
			if !ok {
				continue
			}
			d := g.absent(false)
			return gline{text: "mkdir " + g.rel(d) + " " + g.rel(f) + "/sub", apply: func() { s.mkdirAll(d) }, tag: "bad-partial-mkdir"}
		case 20:
			if depth > 0 {
				continue
			}
			inner := g.badLine(1)
			pre := g.guard(true)
			if g.chance(30) {
				pre += " " + g.guard(true)
			}
			return gline{text: pre + " " + inner.text, apply: inner.apply, tag: "bad-guard-true+" + inner.tag, custom: inner.custom}
		case 21:
			f, ok := g.someFile()
			if !ok {
				continue
			}
			return gline{text: "exists -readonly " + g.rel(f), tag: "bad-readonly"}
		case 22:
			f, ok := g.someFile()
			if !ok {
				continue
			}
			return gline{text: "grep zebra " + g.rel(f), tag: "bad-grep"}
		case 23:
			return gline{text: "grep x " + g.rel(g.absent(false)), tag: "bad-grep-missing"}
		case 24:
			return gline{text: "stdin " + g.rel(g.absent(false)), tag: "bad-stdin-missing"}
		case 26:
			fs := s.sortedFiles()
			if len(fs) < 2 {
				continue
			}
			a, b := g.pick(fs), g.pick(fs)
			if a == b || s.files[a] == expandNaive(s.files[b], s.env) {
				continue
			}
			ta, tb := g.rel(a), g.rel(b)
			if ta == tb {
				continue
			}
			return gline{text: "cmpenv " + ta + " " + tb, tag: "bad-cmpenv-differ"}
		case 25:
			f, ok := g.someFile()
			if !ok || strings.HasPrefix(s.files[f], ">") || s.files[f] == "" {
				continue
			}
			return gline{text: "unquote " + g.rel(f), tag: "bad-unquote"}
		}
	}
}

var archNames = []string{"a.txt", "b.txt", "g", "d/c.txt", "d/e/f.txt", "sp ace.txt", "d2/x", "a.txt"}
var archBodies = []string{"hello\n", "hello\n", "alpha beta\ngamma\n", "", "x\n", "one two three\ntwo\n", "two\n", "val=$X\n", "val=${Y}\n", ">hello\n", ">alpha beta\n>gamma\n"}

// longLinePerMille: share of the generated scripts that contain a line of 64 KiB or more (every such
// case travels hex-encoded to the model driver; the thorough tier lowers the share, not the count).
var longLinePerMille = 50

// genOpts: variations of the C01 generator used by the oracle-only lanes (lanes.go).
type genOpts struct {
	fl      *flags // use these Params instead of drawing them
	mainCmd bool   // lean towards uses of `vmain`, the command registered through testscript.Main
	short   bool   // no line of 64 KiB or more
}

func genC01(rng *rand.Rand) *tcase { return genC01opt(rng, genOpts{}) }

func genC01opt(rng *rand.Rand, o genOpts) *tcase {
	g := &gen{rng: rng, st: newGst()}
	g.fl = flags{cont: g.chance(50), explicitExec: g.chance(20), unique: g.chance(20), customCmds: g.chance(65), customCond: g.chance(50)}
	if g.chance(30) { // builtin-only: also goes through the cmd/testscript binary
		g.fl = flags{cont: g.chance(50)}
	}
	if o.fl != nil {
		g.fl = *o.fl
	}
	if o.mainCmd {
		g.fl.mainCmd = true
		g.fl.explicitExec = g.chance(55)
	}
	s := g.st
	var tags []string
	nontrivial := false

	// ---- archive
	a := &txtar.Archive{}
	nfiles := g.rng.Intn(6)
	setupFailed := false
	for i := 0; i < nfiles; i++ {
		name := g.pick(archNames)
		body := g.pick(archBodies)
		a.Files = append(a.Files, txtar.File{Name: name, Data: []byte(body)})
	}
	for _, f := range a.Files {
		if setupFailed {
			break
		}
		s.mkdirAll(parentOf(f.Name))
		if g.fl.unique && s.isFile(f.Name) {
			setupFailed = true
			break
		}
		s.files[f.Name] = string(f.Data)
	}

	// ---- script
	n := 1 + g.rng.Intn(25)
	failing := g.chance(50)
	k := 1 + g.rng.Intn(n)
	g.bgMode = g.chance(45)
	if o.mainCmd {
		g.bgMode = true
	}
	// a very long line (around bufio.Scanner's 64 KiB token limit), mostly with a failing line after it
	longAt, longLen := 0, 0
	if g.rng.Intn(1000) < longLinePerMille && !o.short {
		if n < 3 {
			n = 3 + g.rng.Intn(6)
		}
		longAt = 1 + g.rng.Intn(n-1)
		longLen = longLengths[g.rng.Intn(len(longLengths))]
		if g.chance(75) {
			failing = true
			k = longAt + 1 + g.rng.Intn(n-longAt)
		} else if k == longAt {
			failing = false
		}
	}
	endAt, endKind := 0, ""
	if g.chance(35) || (g.bgMode && g.chance(30)) {
		endAt = 1 + g.rng.Intn(n)
		endKind = g.pick([]string{"stop", "stop", "skip", "skip"})
		if g.bgMode && n > 2 { // leave room for background commands to be started first; mostly skip
			endAt = 2 + g.rng.Intn(n-1)
			endKind = g.pick([]string{"stop", "skip", "skip", "skip"})
		}
		if (endAt == k && failing) || endAt == longAt {
			endAt = 0
		}
	}
	var lines, recipe []string
	alive := !setupFailed
	failedYet := false
	verdict := ""
	firstFail := -1
	if setupFailed {
		verdict, firstFail = "fail", 0
		recipe = append(recipe, "setup fails: duplicate name with RequireUniqueNames")
		tags = append(tags, "setup-fail")
		nontrivial = true
	}
	// bgEvent: tags what happens to outstanding background commands at a point where the script ends,
	// waits or fails (the classes of DESIGN 6.7: a status against its line followed by wait / skip /
	// stop / end / a failing line, with and without ContinueOnError)
	bgEvent := func(ev string) {
		if len(s.bgs) == 0 {
			return
		}
		c := "-"
		if g.fl.cont {
			c = "cont"
		}
		kind := "as-demanded"
		if s.pendingContradiction() {
			kind = "AGAINST-LINE"
		}
		tags = append(tags, fmt.Sprintf("bg@%s:%s:%s", ev, kind, c))
		if len(s.bgs) >= 2 && (s.bgs[0].contradicts(false) || (s.bgs[0].blocks && !s.bgs[0].neg)) {
			tags = append(tags, "bg@"+ev+":two-or-more-first-against-line")
		}
		nontrivial = true
	}
	fails := func(i int, why string) {
		recipe = append(recipe, fmt.Sprintf("line %d fails (%s)", i, why))
		tags = append(tags, why)
		if firstFail < 0 {
			firstFail = i
		}
		failedYet = true
		if !g.fl.cont {
			alive = false
			verdict = "fail"
		}
	}
	run := func(i int, l gline, bad bool) {
		switch {
		case i == longAt:
		case g.chance(15): // a trailing comment
			l.text += g.pick([]string{" # note", " #", "\t# exists nothing"})
		case g.chance(6): // blanks of all three kinds around the words
			l.text = g.pick([]string{" ", "\t", "  "}) + l.text + g.pick([]string{" ", "\t", "\r", " \r"})
		}
		lines = append(lines, l.text)
		if l.custom || strings.Contains(l.tag, "guard") || strings.Contains(l.tag, "neg") || strings.Contains(l.tag, "exec") || strings.Contains(l.tag, "-bg") || strings.Contains(l.tag, "main-") || bad {
			nontrivial = true
		}
		if !alive {
			return
		}
		if bad {
			switch {
			case strings.HasPrefix(l.tag, "bad-wait"):
				bgEvent("wait")
			default:
				bgEvent("failing-line")
			}
		} else if strings.HasPrefix(l.tag, "wait") {
			bgEvent("wait")
		}
		if strings.HasPrefix(l.tag, "wait") || strings.HasPrefix(l.tag, "bad-wait") {
			for _, b := range s.bgs {
				if b.blocks && b.signalled {
					tags = append(tags, "bg:kill-then-wait")
					break
				}
			}
		}
		if l.apply != nil {
			l.apply()
		}
		if !bad {
			tags = append(tags, "line:"+l.tag)
		}
		if bad {
			fails(i, l.tag)
		}
	}
	for i := 1; i <= n; i++ {
		switch {
		case i == longAt:
			var base gline
			bad := failing && i == k
			if bad {
				base = g.badLine(0)
			} else {
				base = g.goodLine(0)
			}
			for base.tag == "bad-unterminated-quote" { // a comment after an open quote would be part of the word
				base = g.badLine(0)
			}
			l, form := g.longLine(base, longLen)
			if l.tag != base.tag { // the line was replaced by one of its own (comment line, long word)
				bad = false
				if failing && i == k {
					failing = false
				}
			}
			nontrivial = true
			if alive {
				tags = append(tags, fmt.Sprintf("long-line:%s:len=%d", form, len(l.text)))
				if failing && k > i {
					tags = append(tags, "long-line:failing-line-after-it")
				}
				recipe = append(recipe, fmt.Sprintf("line %d is %d bytes long (%s)", i, len(l.text), form))
			}
			if l.tag == "long-comment-line" {
				lines = append(lines, l.text)
			} else {
				run(i, l, bad)
			}
		case failing && i == k:
			run(i, g.badLine(0), true)
		case i == endAt:
			nontrivial = true
			kind := endKind
			skipFatal := false
			if kind == "skip" {
				// skip interrupts the background commands and waits for them: a status against its line
				// makes the skip line FAIL; a status that would depend on timing: use stop instead
				det, fatal, _, _ := s.waitAll(true)
				if !det {
					kind = "stop"
				}
				skipFatal = det && fatal
			}
			text := kind
			if g.chance(40) {
				text += " " + g.pick([]string{"done", "'why not'"})
			}
			if g.chance(25) {
				text = g.guard(true) + " " + text
			}
			lines = append(lines, text)
			if alive {
				bgEvent(kind)
				if skipFatal {
					for j := range s.bgs {
						s.bgs[j].signalled = true
					}
					fails(i, "bad-skip-background-status")
					break
				}
				recipe = append(recipe, fmt.Sprintf("line %d %s", i, kind))
				tags = append(tags, kind)
				alive = false
				switch {
				case failedYet:
					verdict = "fail"
				case kind == "stop":
					verdict = "pass"
				default:
					verdict = "skip"
				}
			}
		case g.chance(12):
			lines = append(lines, g.pick([]string{"# phase", "#", "# exists nothing", "#! stop"}))
		case g.chance(7):
			lines = append(lines, g.pick([]string{"", " ", "\t", "  # indented comment", " \t #x"}))
		case g.fl.cont && failedYet && alive && g.chance(15):
			run(i, g.badLine(0), true)
		case g.bgMode && g.chance(45):
			if l, ok := g.bgGoodLine(); ok {
				run(i, l, false)
			} else {
				run(i, g.goodLine(0), false)
			}
		default:
			run(i, g.goodLine(0), false)
		}
	}
	if alive {
		bgEvent("end")
	}
	if verdict == "" {
		if failedYet {
			verdict = "fail"
		} else {
			verdict = "pass"
		}
	}
	if failing {
		tags = append(tags, "built-to-fail")
	}
	if g.fl.cont {
		tags = append(tags, "continue-on-error")
	}
	if g.fl.mainCmd {
		tags = append(tags, "main-cmd-lane")
	}
	if nontrivial {
		tags = append([]string{"nontrivial"}, tags...)
	} else {
		tags = append([]string{"plain"}, tags...)
	}
	comment := strings.Join(lines, "\n")
	if len(a.Files) > 0 || g.chance(85) {
		comment += "\n"
	}
	a.Comment = []byte(comment)
	file := txtar.Format(a)
	if len(a.Files) == 0 {
		file = []byte(comment) // Format would add the final newline
	}
	exp := &obs{verdict: verdict, line: firstFail, probes: s.probes, tree: s.tree(), file: file}
	if len(recipe) == 0 {
		recipe = append(recipe, "every line succeeds")
	}
	return &tcase{kind: "c01", fl: g.fl, file: file, exp: exp, recipe: strings.Join(recipe, "; "), tags: tags}
}
