package main

// The helper program of the generated scripts.  The tsrun binary behaves as the helper when it is
// invoked through a link named `vh` (a directory holding that link is put in front of PATH for the
// scripts: in-process through Params.Setup, for cmd/testscript through the PATH of the child).
//
//	vh ACTION...     the actions are performed in order; at the end the process exits with status 0
//	  out:TEXT       TEXT and a newline to stdout
//	  err:TEXT       TEXT and a newline to stderr
//	  cat            copy what is left of stdin to stdout
//	  exit:N         exit with status N
//	  block          never return (until a signal ends the process); gives up after ten minutes
//
// Nothing here depends on time: a helper either runs to completion by itself or blocks until it is
// signalled (default dispositions: SIGINT and SIGKILL both end it with a non-success status).

import (
	"fmt"
	"io"
	"os"
	"path/filepath"
	"strconv"
	"strings"
	"time"
)

func helperMain(args []string) {
	for _, a := range args {
		switch {
		case strings.HasPrefix(a, "out:"):
			fmt.Fprintln(os.Stdout, a[4:])
		case strings.HasPrefix(a, "err:"):
			fmt.Fprintln(os.Stderr, a[4:])
		case a == "cat":
			io.Copy(os.Stdout, os.Stdin)
		case strings.HasPrefix(a, "exit:"):
			n, err := strconv.Atoi(a[5:])
			if err != nil {
				fmt.Fprintln(os.Stderr, "vh: bad status", a)
				os.Exit(126)
			}
			os.Exit(n)
		case a == "block":
			time.Sleep(10 * time.Minute)
			os.Exit(125)
		default:
			fmt.Fprintln(os.Stderr, "vh: unknown action", a)
			os.Exit(126)
		}
	}
	os.Exit(0)
}

// helperDir makes a directory with the link `vh` -> this binary below root.
func helperDir(root string) (string, error) {
	self, err := os.Executable()
	if err != nil {
		return "", err
	}
	if real, err := filepath.EvalSymlinks(self); err == nil {
		self = real
	}
	dir := filepath.Join(root, "helperbin")
	if err := os.MkdirAll(dir, 0o777); err != nil {
		return "", err
	}
	if err := os.Symlink(self, filepath.Join(dir, "vh")); err != nil {
		return "", err
	}
	return dir, nil
}
