package main

import (
	"go/ast"
	"go/token"
	"strconv"
	"strings"

	"verif/harness/internal/fact"
)

// genTsRun extracts, by function name and syntactic shape, every deciding expression of the
// script loop that GIV.Model.Script / ScriptUpdate / ScriptCmds use.
func genTsRun(g *fact.Gen) {
	const ts = "testscript/testscript.go"
	const cmd = "testscript/cmd.go"
	const cli = "cmd/testscript/main.go"
	const imp = "imports/build.go"

	// shape(name, doc, pinned, f): f returns (value, recognised, why-not)
	shape := func(name, doc string, pinned bool, f func() (bool, bool, string)) { g.EmitBool(name, doc, pinned, f) }
	// has: the body of fn contains all of the needles, in this order
	ordered := func(src string, needles ...string) bool {
		pos := 0
		for _, n := range needles {
			i := strings.Index(src[pos:], n)
			if i < 0 {
				return false
			}
			pos += i + len(n)
		}
		return true
	}
	body := func(fd *ast.FuncDecl) string {
		if fd == nil || fd.Body == nil {
			return ""
		}
		return g.Src(fd.Body)
	}
	present := func(fd *ast.FuncDecl, fname string, needles ...string) func() (bool, bool, string) {
		return func() (bool, bool, string) {
			if fd == nil {
				return false, false, "func " + fname + " not found"
			}
			if ordered(body(fd), needles...) {
				return true, true, ""
			}
			return false, true, ""
		}
	}

	// ---- scriptCmds key set
	{
		var names []string
		ok := false
		if v := g.TopLevelValue(cmd, "scriptCmds"); v != nil {
			if cl, isCL := v.(*ast.CompositeLit); isCL {
				ok = true
				for _, e := range cl.Elts {
					kv, isKV := e.(*ast.KeyValueExpr)
					if !isKV {
						ok = false
						break
					}
					s, isStr := fact.StringLit(kv.Key)
					if !isStr {
						ok = false
						break
					}
					names = append(names, s)
				}
			}
		}
		if !ok {
			names = []string{"cd", "chmod", "cmp", "cmpenv", "cp", "env", "exec", "exists", "grep", "kill", "mkdir", "mv", "rm", "skip", "stderr", "stdin", "stdout", "ttyin", "ttyout", "stop", "symlink", "unix2dos", "unquote", "wait"}
			g.Lost("scriptCmdNames", "scriptCmds is not a map literal with string keys")
		} else {
			g.Found("scriptCmdNames", strings.Join(names, ","))
		}
		g.Emit("/-- keys of the `scriptCmds` map literal in testscript/cmd.go, in source order. -/\ndef scriptCmdNames : List String := %s\n", fact.LeanStrList(names))
	}

	// ---- run()
	run := g.Method(ts, "TestScript", "run")
	var loop *ast.ForStmt
	var afterLoop []ast.Stmt
	if run != nil {
		for i, st := range run.Body.List {
			if f, ok := st.(*ast.ForStmt); ok && g.Src(f.Cond) == `script!=""` {
				loop = f
				afterLoop = run.Body.List[i+1:]
			}
		}
	}
	loopSrc := ""
	if loop != nil {
		loopSrc = g.Src(loop.Body)
	}
	shape("linenoBeforeComment", "run: `ts.lineno++` comes before the `strings.HasPrefix(line, \"#\")` phase-comment `continue`.", true, func() (bool, bool, string) {
		if loop == nil {
			return false, false, "script loop not found"
		}
		i := strings.Index(loopSrc, "ts.lineno++")
		j := strings.Index(loopSrc, "ifstrings.HasPrefix(line,")
		if i < 0 || j < 0 {
			return false, false, "lineno++ or comment test not found"
		}
		return i < j, true, ""
	})
	{
		b, ok := byte('#'), false
		if loop != nil {
			ast.Inspect(loop.Body, func(n ast.Node) bool {
				if is, isIf := n.(*ast.IfStmt); isIf {
					if c, isCall := is.Cond.(*ast.CallExpr); isCall && g.Src(c.Fun) == "strings.HasPrefix" && len(c.Args) == 2 && g.Src(c.Args[0]) == "line" {
						if s, isStr := fact.StringLit(c.Args[1]); isStr && len(s) == 1 && strings.Contains(g.Src(is.Body), "continue") {
							b, ok = s[0], true
						}
					}
				}
				return true
			})
		}
		if ok {
			g.Found("commentByte", strconv.Itoa(int(b)))
		} else {
			g.Lost("commentByte", "phase comment test not found")
		}
		g.Emit("/-- the byte that starts a phase comment line (`strings.HasPrefix(line, \"#\")`). -/\ndef commentByte : UInt8 := %d\n", b)
	}
	// the `if !ok {` block after `ok := ts.runLine(line)`
	var notOK *ast.IfStmt
	var afterNotOK []ast.Stmt
	if loop != nil {
		for i, st := range loop.Body.List {
			if is, ok := st.(*ast.IfStmt); ok && g.Src(is.Cond) == "!ok" && i > 0 && g.Src(loop.Body.List[i-1]) == "ok:=ts.runLine(line)" {
				notOK = is
				afterNotOK = loop.Body.List[i+1:]
			}
		}
	}
	var contIf *ast.IfStmt
	if notOK != nil {
		for _, st := range notOK.Body.List {
			if is, ok := st.(*ast.IfStmt); ok && g.Src(is.Cond) == "ts.params.ContinueOnError" {
				contIf = is
			}
		}
	}
	shape("setsTsFailed", "run: the `if !ok {` block after `ok := ts.runLine(line)` sets `ts.failed = true` before the ContinueOnError test.", true, func() (bool, bool, string) {
		if notOK == nil {
			return false, false, "`if !ok` block after runLine not found"
		}
		return ordered(g.Src(notOK.Body), "ts.failed=true", "ifts.params.ContinueOnError"), true, ""
	})
	shape("failNowInElse", "run: `if ts.params.ContinueOnError { … } else { ts.t.FailNow() }` — FailNow is in the else branch.", true, func() (bool, bool, string) {
		if contIf == nil {
			return false, false, "ContinueOnError test not found in the failure block"
		}
		inThen := strings.Contains(g.Src(contIf.Body), "ts.t.FailNow()")
		inElse := contIf.Else != nil && strings.Contains(g.Src(contIf.Else), "ts.t.FailNow()")
		switch {
		case inElse && !inThen:
			return true, true, ""
		case inThen && !inElse:
			return false, true, ""
		}
		return false, false, "FailNow in neither or both branches"
	})
	shape("stoppedBreaks", "run: `if ts.stopped { break }` follows the failure block inside the loop.", true, func() (bool, bool, string) {
		if notOK == nil {
			return false, false, "`if !ok` block after runLine not found"
		}
		for _, st := range afterNotOK {
			if is, ok := st.(*ast.IfStmt); ok && g.Src(is.Cond) == "ts.stopped" && strings.Contains(g.Src(is.Body), "break") {
				return true, true, ""
			}
		}
		return false, true, ""
	})
	shape("finalFailNow", "run: after the loop `if failed { ts.t.FailNow() }`.", true, func() (bool, bool, string) {
		if loop == nil {
			return false, false, "script loop not found"
		}
		for _, st := range afterLoop {
			if is, ok := st.(*ast.IfStmt); ok && g.Src(is.Cond) == "failed" && strings.Contains(g.Src(is.Body), "ts.t.FailNow()") {
				return true, true, ""
			}
		}
		return false, true, ""
	})

	// ---- runLine
	rl := g.Method(ts, "TestScript", "runLine")
	rlSrc := body(rl)
	shape("blankLineOk", "runLine: a line that parses to no arguments returns true before anything else.", true,
		present(rl, "runLine", "args:=ts.parse(line)iflen(args)==0{returntrue}"))
	shape("guardIsBracketed", "runLine: the guard loop tests `strings.HasPrefix(args[0], \"[\") && strings.HasSuffix(args[0], \"]\")`.", true,
		present(rl, "runLine", `forstrings.HasPrefix(args[0],"[")&&strings.HasSuffix(args[0],"]"){`, "cond=cond[1:len(cond)-1]cond=strings.TrimSpace(cond)args=args[1:]"))
	shape("missingCmdBeforeCond", "runLine: `missing command after condition` is raised before the condition is evaluated.", true, func() (bool, bool, string) {
		if rl == nil {
			return false, false, "func runLine not found"
		}
		i := strings.Index(rlSrc, `iflen(args)==0{ts.Fatalf("missingcommandaftercondition")}`)
		j := strings.Index(rlSrc, "ts.condition(cond)")
		if j < 0 {
			return false, false, "condition call not found"
		}
		return i >= 0 && i < j, true, ""
	})
	shape("bangNegatesCond", "runLine: a leading \"!\" of the condition sets `want = false`.", true,
		present(rl, "runLine", `want:=trueifstrings.HasPrefix(cond,"!"){want=falsecond=strings.TrimSpace(cond[1:])}`))
	shape("guardSkipsOnNe", "runLine: the rest of the line is not run when `ok != want` (true), `ok == want` would be false.", true, func() (bool, bool, string) {
		if rl == nil {
			return false, false, "func runLine not found"
		}
		switch {
		case strings.Contains(rlSrc, "ifok!=want{returntrue}"):
			return true, true, ""
		case strings.Contains(rlSrc, "ifok==want{returntrue}"):
			return false, true, ""
		}
		return false, false, "guard comparison has an unrecognised shape"
	})
	shape("condErrorFatal", "runLine: a condition error (`err != nil`) is `ts.Fatalf`.", true,
		present(rl, "runLine", "ok,err:=ts.condition(cond)iferr!=nil{ts.Fatalf("))
	shape("bangSetsNeg", "runLine: `args[0] == \"!\"` sets neg and drops the word; `! on line by itself` is fatal.", true,
		present(rl, "runLine", `neg:=falseifargs[0]=="!"{neg=trueargs=args[1:]iflen(args)==0{ts.Fatalf(`))
	shape("builtinBeforeCustom", "runLine: `cmd := scriptCmds[args[0]]`, and only `if cmd == nil` `cmd = ts.params.Cmds[args[0]]`.", true, func() (bool, bool, string) {
		if rl == nil {
			return false, false, "func runLine not found"
		}
		switch {
		case strings.Contains(rlSrc, "cmd:=scriptCmds[args[0]]ifcmd==nil{cmd=ts.params.Cmds[args[0]]}"):
			return true, true, ""
		case strings.Contains(rlSrc, "cmd:=ts.params.Cmds[args[0]]ifcmd==nil{cmd=scriptCmds[args[0]]}"):
			return false, true, ""
		}
		return false, false, "command lookup has an unrecognised shape"
	})
	shape("unknownCmdFatal", "runLine: a nil cmd after both lookups ends in `ts.Fatalf(\"unknown command …\")` in every switch arm.", true, func() (bool, bool, string) {
		if rl == nil {
			return false, false, "func runLine not found"
		}
		var sw *ast.SwitchStmt
		for _, st := range rl.Body.List {
			if is, ok := st.(*ast.IfStmt); ok && g.Src(is.Cond) == "cmd==nil" {
				for _, s2 := range is.Body.List {
					if s, ok := s2.(*ast.SwitchStmt); ok {
						sw = s
					}
				}
			}
		}
		if sw == nil {
			return false, false, "switch over suggestions not found"
		}
		hasDefault := false
		for _, c := range sw.Body.List {
			cc := c.(*ast.CaseClause)
			if cc.List == nil {
				hasDefault = true
			}
			if len(cc.Body) == 0 || !strings.HasPrefix(g.Src(cc.Body[len(cc.Body)-1]), `ts.Fatalf("unknowncommand`) {
				return false, true, ""
			}
		}
		return hasDefault, true, ""
	})
	shape("cmdGetsNegAndRest", "runLine: the command is called as `cmd(ts, neg, args[1:])`.", true,
		present(rl, "runLine", "ts.callBuiltinCmd(func(){cmd(ts,neg,args[1:])})returntrue"))
	shape("runLineCatchesFailNow", "runLine: `defer catchFailNow(func() { runOK = false })` is the first statement.", true, func() (bool, bool, string) {
		if rl == nil || len(rl.Body.List) == 0 {
			return false, false, "func runLine not found"
		}
		return g.Src(rl.Body.List[0]) == "defercatchFailNow(func(){runOK=false})", true, ""
	})
	cfn := g.FuncDecl(ts, "catchFailNow")
	shape("catchRepanicsOthers", "catchFailNow re-panics every value other than failNow.", true,
		present(cfn, "catchFailNow", "e:=recover()ife==nil{return}ife!=failNow{panic(e)}f()"))
	fatalf := g.Method(ts, "TestScript", "Fatalf")
	shape("fatalfPanicsFailNow", "Fatalf ends in `panic(failNow)`.", true, func() (bool, bool, string) {
		if fatalf == nil || len(fatalf.Body.List) == 0 {
			return false, false, "func Fatalf not found"
		}
		return g.Src(fatalf.Body.List[len(fatalf.Body.List)-1]) == "panic(failNow)", true, ""
	})

	// ---- cmdSkip / cmdStop / setup
	skip := g.Method(cmd, "TestScript", "cmdSkip")
	shape("skipChecksFailed", "cmdSkip: `if ts.failed { ts.t.FailNow() }` precedes every `ts.t.Skip`.", true, func() (bool, bool, string) {
		if skip == nil {
			return false, false, "func cmdSkip not found"
		}
		s := body(skip)
		j := strings.Index(s, "ts.t.Skip(")
		if j < 0 {
			return false, false, "no ts.t.Skip call in cmdSkip"
		}
		i := strings.Index(s, "ifts.failed{ts.t.FailNow()}")
		return i >= 0 && i < j, true, ""
	})
	shape("skipChecksBackground", "cmdSkip: background commands are waited for with `ts.cmdWait(false, nil)` (exit statuses checked against their lines) before any `ts.t.Skip`; `ts.waitBackground(false)` there would ignore them.", true, func() (bool, bool, string) {
		if skip == nil {
			return false, false, "func cmdSkip not found"
		}
		s := body(skip)
		j := strings.Index(s, "ts.t.Skip(")
		if j < 0 {
			return false, false, "no ts.t.Skip call in cmdSkip"
		}
		if i := strings.Index(s, "ts.cmdWait(false,nil)"); i >= 0 && i < j {
			return true, true, ""
		}
		if i := strings.Index(s, "ts.waitBackground(true)"); i >= 0 && i < j {
			return true, true, ""
		}
		if i := strings.Index(s, "ts.waitBackground(false)"); i >= 0 && i < j {
			return false, true, ""
		}
		return false, false, "cmdSkip waits for background commands in an unrecognised way (or not at all)"
	})
	execCmd := g.Method(cmd, "TestScript", "cmdExec")
	shape("execRejectsLoneBgSpec", "cmdExec's usage check rejects a lone background specifier of either form (`&` or `&name&`: `len(args) == 1 && backgroundSpecifier.MatchString(args[0])`); with only `args[0] == \"&\"` there, `exec &name&` reaches `args[1:len(args)-1]` with one argument and panics.", true, func() (bool, bool, string) {
		if execCmd == nil {
			return false, false, "func cmdExec not found"
		}
		s := body(execCmd)
		j := strings.Index(s, "args[1:len(args)-1]")
		if j < 0 {
			return false, false, "the background branch's args[1:len(args)-1] not found"
		}
		if i := strings.Index(s, "len(args)==1&&backgroundSpecifier.MatchString(args[0])"); i >= 0 && i < j {
			return true, true, ""
		}
		if i := strings.Index(s, `len(args)==1&&args[0]=="&"`); i >= 0 && i < j {
			return false, true, ""
		}
		return false, false, "cmdExec's usage check has an unrecognised shape"
	})
	stop := g.Method(cmd, "TestScript", "cmdStop")
	shape("stopSetsStopped", "cmdStop sets `ts.stopped = true` as its last statement.", true, func() (bool, bool, string) {
		if stop == nil || len(stop.Body.List) == 0 {
			return false, false, "func cmdStop not found"
		}
		return g.Src(stop.Body.List[len(stop.Body.List)-1]) == "ts.stopped=true", true, ""
	})
	setup := g.Method(ts, "TestScript", "setup")
	shape("setupFailureFailsNow", "setup: `defer catchFailNow(func() { ts.t.FailNow() })`.", true, func() (bool, bool, string) {
		if setup == nil || len(setup.Body.List) == 0 {
			return false, false, "func setup not found"
		}
		return g.Src(setup.Body.List[0]) == "defercatchFailNow(func(){ts.t.FailNow()})", true, ""
	})

	// ---- cmd/testscript
	rrun := g.Method(cli, "runT", "Run")
	rrSrc := body(rrun)
	shape("cliSkipNotFailure", "cmd/testscript runT.Run: `case nil, skipRun:` has an empty body (a skipped script is not a failure).", true, func() (bool, bool, string) {
		if rrun == nil {
			return false, false, "func runT.Run not found"
		}
		if !strings.Contains(rrSrc, "skipRun") {
			return false, false, "skipRun not mentioned"
		}
		return strings.Contains(rrSrc, "switcherr:=recover();err{casenil,skipRun:casefailedRun:"), true, ""
	})
	shape("cliFailSetsFailed", "cmd/testscript runT.Run: `case failedRun: r.failed.Store(true)`.", true,
		present(rrun, "runT.Run", "casefailedRun:r.failed.Store(true)"))
	{
		me := g.FuncDecl(cli, "mainerr")
		mn := g.FuncDecl(cli, "main")
		code, ok := 1, false
		if me != nil && mn != nil && strings.Contains(body(me), "ifr.failed.Load(){returnfailedRun}") {
			ast.Inspect(mn.Body, func(n ast.Node) bool {
				if c, isCall := n.(*ast.CallExpr); isCall && g.Src(c.Fun) == "os.Exit" && len(c.Args) == 1 {
					if bl, isLit := c.Args[0].(*ast.BasicLit); isLit && bl.Kind == token.INT {
						if v, err := strconv.Atoi(bl.Value); err == nil {
							code, ok = v, true
						}
					}
				}
				return true
			})
		}
		if ok {
			g.Found("cliFailedExit", strconv.Itoa(code))
		} else {
			g.Lost("cliFailedExit", "mainerr/main exit path not recognised")
		}
		g.Emit("/-- cmd/testscript mainerr: `if r.failed.Load() { return failedRun }`; main: `os.Exit(n)` on error. -/\ndef cliFailedExit : Nat := %d\n", code)
	}

	// ---- condition tables (imports/build.go)
	for _, l := range []struct{ goName, pinned string }{
		{"goosList", "aix android darwin dragonfly freebsd hurd illumos ios js linux nacl netbsd openbsd plan9 solaris windows zos "},
		{"unixList", "aix android darwin dragonfly freebsd hurd illumos ios linux netbsd openbsd solaris "},
		{"goarchList", "386 amd64 amd64p32 arm armbe arm64 arm64be loong64 mips mipsle mips64 mips64le mips64p32 mips64p32le ppc ppc64 ppc64le riscv riscv64 s390 s390x sparc sparc64 wasm "},
	} {
		s, ok := "", false
		if v := g.TopLevelValue(imp, l.goName); v != nil {
			s, ok = fact.StringLit(v)
		}
		if !ok {
			s = l.pinned
			g.Lost(l.goName, "no string constant "+l.goName+" in "+imp)
		} else {
			g.Found(l.goName, strconv.Quote(s))
		}
		g.Emit("/-- imports/build.go %s (strings.Fields). -/\ndef %s : List String := %s\n", l.goName, l.goName, fact.LeanStrList(strings.Fields(s)))
	}
}
