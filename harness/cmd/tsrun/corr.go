package main

import "verif/harness/internal/corr"

func runTsRun(tier string, seed int64, model string, replay string) *corr.Result {
	return corr.NewResult("tsrun", tier, seed)
}
