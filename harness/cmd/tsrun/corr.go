package main

// Correspondence + oracles for the testscript script loop (C01) and UpdateScripts (C16).
//
// Every generated case is one script file plus a Params subset.  It is run
//   - through the real testscript.RunT with a recording implementation of testscript.T
//     (FailNow / Skip as panic sentinels recovered in Run, exactly as cmd/testscript does),
//   - through the Lean model driver (gim_tsrun),
//   - and, when it uses no custom command / condition, through the cmd/testscript binary built from /repo,
// and the observables are compared: verdict, file:line of the first "FAIL:" log entry, the probe
// commands that ran, the final work-directory tree, the script file bytes afterwards, the exit status.
// The oracle is the generator itself: it builds each script from a recipe (which line fails and why,
// where stop/skip sit, which golden entries mismatch) and so knows the expected observables by
// construction, from a deliberately naive bookkeeping of files, directories, buffers, variables and
// outstanding background commands (helper program `vh`: helper.go, genbg.go).
// Cases of the oracle-only lanes (lanes.go; UpdateScripts with a Setup hook that moves env.Cd: gen16.go)
// have no model counterpart: flags.modelled() is false and only the expectation is compared.

import (
	"bytes"
	"compress/gzip"
	"context"
	"encoding/base64"
	"errors"
	"fmt"
	"io"
	"math/rand"
	"os"
	"os/exec"
	"path/filepath"
	"regexp"
	"runtime"
	"sort"
	"strconv"
	"strings"
	"sync"
	"time"

	"github.com/rogpeppe/go-internal/testscript"

	"verif/harness/internal/corr"
	"verif/harness/internal/mdl"
)

// ---------------------------------------------------------------- cases

type flags struct {
	cont, explicitExec, unique, update, customCmds, customCond bool
	// lanes without a model counterpart (the expectation comes from the generator alone):
	deadline   bool   // "d": Params.Deadline expires about a second after the start of the run
	mainCmd    bool   // "m": the script uses `vmain`, the command this binary registers through testscript.Main
	setupCd    string // "@<hex>": Params.Setup sets env.Cd to this $WORK-relative (slash) directory, which the archive creates
	oracleOnly bool   // "o": the script uses features outside the Lean model ([go1.N] conditions, programs installed on $PATH by the script, CRLF script text)
}

func (f flags) String() string {
	s := ""
	for _, x := range []struct {
		b bool
		c string
	}{{f.cont, "c"}, {f.explicitExec, "e"}, {f.unique, "n"}, {f.update, "U"}, {f.customCmds, "k"}, {f.customCond, "q"}, {f.deadline, "d"}, {f.mainCmd, "m"}, {f.oracleOnly, "o"}} {
		if x.b {
			s += x.c
		}
	}
	if s == "" {
		s = "-"
	}
	if f.setupCd != "" {
		s += "@" + corr.Hx([]byte(f.setupCd))
	}
	return s
}

func parseFlags(s string) flags {
	s, cd, _ := strings.Cut(s, "@")
	f := flags{cont: strings.Contains(s, "c"), explicitExec: strings.Contains(s, "e"), unique: strings.Contains(s, "n"),
		update: strings.Contains(s, "U"), customCmds: strings.Contains(s, "k"), customCond: strings.Contains(s, "q"),
		deadline: strings.Contains(s, "d"), mainCmd: strings.Contains(s, "m"), oracleOnly: strings.Contains(s, "o")}
	if cd != "" {
		f.setupCd = string(corr.Unhx(cd))
	}
	return f
}

// modelled: the Lean model knows neither Params.Deadline, nor commands registered through
// testscript.Main, nor a Setup hook that moves env.Cd; such cases are judged by the generator's
// expectation only (oracle-only lanes).
func (f flags) modelled() bool { return !f.deadline && !f.mainCmd && f.setupCd == "" && !f.oracleOnly }

// cliable: cmd/testscript can only set ContinueOnError and UpdateScripts.
func (f flags) cliable() bool {
	return !f.explicitExec && !f.unique && !f.customCmds && !f.customCond && f.modelled()
}

// obs is what is compared between implementation, model and expectation.
type obs struct {
	verdict string   // pass fail skip crash
	line    int      // first "FAIL: file:line:" entry; -1 = none
	probes  []string // in order
	tree    []string // sorted "d:path" / "f:path:hexdata", work dir without .tmp
	file    []byte   // script file bytes afterwards
	note    string   // crash value etc. (not compared)
	log     string   // deadline lane only: what the run logged through T.Log (not compared; searched for the time-out message)
	ioErr   string   // the harness could not set up / read back its own files (not a property of the code under test)
}

func (o obs) String(before []byte) string {
	l := "-"
	if o.line >= 0 {
		l = strconv.Itoa(o.line)
	}
	p := "-"
	if len(o.probes) > 0 {
		hs := make([]string, len(o.probes))
		for i, x := range o.probes {
			hs[i] = corr.Hx([]byte(x))
		}
		p = strings.Join(hs, ",")
	}
	t := "-"
	if len(o.tree) > 0 {
		t = strings.Join(o.tree, ";")
	}
	f := "same"
	if !bytes.Equal(o.file, before) {
		f = corr.Hx(o.file)
	}
	return "v=" + o.verdict + " line=" + l + " probes=" + p + " tree=" + t + " file=" + f
}

type tcase struct {
	kind   string // "c01" | "c16"
	fl     flags
	file   []byte
	exp    *obs   // generator's expectation (nil on replay without one)
	exp0   *obs   // cases with UpdateScripts: expectation for the same script WITHOUT UpdateScripts
	recipe string // human readable
	tags   []string
	// c16 only
	c16 *c16recipe
}

func (c *tcase) request() string {
	return "run " + c.fl.String() + " " + runtime.GOOS + " " + runtime.GOARCH + " " + corr.Hx(c.file)
}

// plainRequest: the same script without UpdateScripts.
func (c *tcase) plainRequest() string {
	fl := c.fl
	fl.update = false
	return "run " + fl.String() + " " + runtime.GOOS + " " + runtime.GOARCH + " " + corr.Hx(c.file)
}

// ---------------------------------------------------------------- recording T

var (
	errSkipT = errors.New("recT: skip")
	errFailT = errors.New("recT: fail")
)

type recT struct {
	mu      sync.Mutex
	log     strings.Builder
	verdict string
	note    string
}

func (t *recT) Skip(a ...any) { t.Log(a...); panic(errSkipT) }
func (t *recT) Fatal(a ...any) {
	t.Log(a...)
	t.FailNow()
}
func (t *recT) Parallel() {}
func (t *recT) Log(a ...any) {
	t.mu.Lock()
	defer t.mu.Unlock()
	t.log.WriteString(fmt.Sprint(a...))
	t.log.WriteString("\n")
}
func (t *recT) FailNow()      { panic(errFailT) }
func (t *recT) Verbose() bool { return false }
func (t *recT) Run(name string, f func(testscript.T)) {
	defer func() {
		switch r := recover(); r {
		case nil:
			t.verdict = "pass"
		case errSkipT:
			t.verdict = "skip"
		case errFailT:
			t.verdict = "fail"
		default:
			t.verdict = "crash"
			t.note = fmt.Sprint(r)
		}
	}()
	f(t)
}

var failLineRE = regexp.MustCompile(`(?m)^FAIL: (.*?):(\d+): `)

// ---------------------------------------------------------------- running the implementation

type runner struct {
	root   string // temp root, created and removed by runTsRun
	cliBin string
	hdir   string // directory holding the helper program `vh` (helper.go); first on the scripts' PATH
	n      int
	mu     sync.Mutex
}

func (r *runner) newDir() string {
	r.mu.Lock()
	r.n++
	d := filepath.Join(r.root, fmt.Sprintf("c%06d", r.n))
	r.mu.Unlock()
	if err := os.MkdirAll(d, 0o777); err != nil {
		panic(err)
	}
	return d
}

func customCmds(probes *[]string) map[string]func(ts *testscript.TestScript, neg bool, args []string) {
	return map[string]func(ts *testscript.TestScript, neg bool, args []string){
		"probe": func(ts *testscript.TestScript, neg bool, args []string) {
			id := strings.Join(args, ",")
			if neg {
				id = "!" + id
			}
			*probes = append(*probes, id)
		},
		"failcmd": func(ts *testscript.TestScript, neg bool, args []string) {
			ts.Fatalf("failcmd: %v", args)
		},
		"put": func(ts *testscript.TestScript, neg bool, args []string) {
			if neg {
				ts.Fatalf("unsupported: ! put")
			}
			if len(args) < 2 || (args[1] != "nl" && args[1] != "nonl") {
				ts.Fatalf("usage: put out|err|file:PATH nl|nonl line...")
			}
			content := strings.Join(args[2:], "\n")
			if args[1] == "nl" {
				content += "\n"
			}
			switch {
			case args[0] == "out":
				fmt.Fprint(ts.Stdout(), content)
			case args[0] == "err":
				fmt.Fprint(ts.Stderr(), content)
			case strings.HasPrefix(args[0], "file:"):
				if err := os.WriteFile(ts.MkAbs(args[0][5:]), []byte(content), 0o666); err != nil {
					ts.Fatalf("put: %v", err)
				}
			default:
				ts.Fatalf("usage: put out|err|file:PATH nl|nonl line...")
			}
		},
		// a custom command under a builtin name: runLine must never reach it
		"exists": func(ts *testscript.TestScript, neg bool, args []string) {
			*probes = append(*probes, "SHADOW")
		},
	}
}

func customCond(c string) (bool, error) {
	switch c {
	case "yes":
		return true, nil
	case "no":
		return false, nil
	}
	return false, fmt.Errorf("no such condition %q", c)
}

func readTree(dir string) []string {
	var out []string
	filepath.Walk(dir, func(path string, info os.FileInfo, err error) error {
		if err != nil {
			return nil
		}
		rel, _ := filepath.Rel(dir, path)
		rel = filepath.ToSlash(rel)
		if rel == "." {
			return nil
		}
		if rel == ".tmp" {
			return filepath.SkipDir
		}
		if info.IsDir() {
			out = append(out, "d:"+corr.Hx([]byte(rel)))
		} else {
			data, _ := os.ReadFile(path)
			out = append(out, "f:"+corr.Hx([]byte(rel))+":"+corr.Hx(data))
		}
		return nil
	})
	sort.Strings(out)
	return out
}

// runReal runs one script file through testscript.RunT (again, when the harness's own file
// handling hit an I/O error).
func (r *runner) runReal(fl flags, file []byte) obs {
	var o obs
	for try := 0; try < 3; try++ {
		if o = r.runRealOnce(fl, file); o.ioErr == "" {
			break
		}
	}
	return o
}

// deadlineAhead: how far ahead Params.Deadline lies in the deadline lane.  RunT reserves two grace
// periods of 100 ms, so the commands of the script are interrupted about a second after the start.
// Nothing the lane expects depends on how long that really takes: the only program its scripts run
// blocks until it is signalled.
const deadlineAhead = 1200 * time.Millisecond

// fillParams: everything of Params but the files and the work-directory root.
func (r *runner) fillParams(p *testscript.Params, fl flags, probes *[]string) {
	p.ContinueOnError = fl.cont
	p.RequireExplicitExec = fl.explicitExec
	p.RequireUniqueNames = fl.unique
	p.UpdateScripts = fl.update
	// safety net only: a script that waits for a helper nobody ever signals (never generated on the
	// unchanged tree) is cut off instead of hanging the run
	p.Deadline = time.Now().Add(4 * time.Minute)
	if fl.deadline {
		p.Deadline = time.Now().Add(deadlineAhead)
	}
	p.Setup = func(env *testscript.Env) error {
		env.Setenv("PATH", r.hdir+string(filepath.ListSeparator)+env.Getenv("PATH"))
		if fl.setupCd != "" { // "The Setup function may modify Vars and Cd as it wishes."
			env.Cd = filepath.Join(env.WorkDir, filepath.FromSlash(fl.setupCd))
		}
		return nil
	}
	if fl.customCmds {
		p.Cmds = customCmds(probes)
	}
	if fl.customCond {
		p.Condition = customCond
	}
}

func (r *runner) runRealOnce(fl flags, file []byte) obs {
	dir := r.newDir()
	script := filepath.Join(dir, "s.txt")
	if err := os.WriteFile(script, file, 0o666); err != nil {
		return obs{ioErr: err.Error()}
	}
	wroot := filepath.Join(dir, "work")
	if err := os.MkdirAll(wroot, 0o777); err != nil {
		return obs{ioErr: err.Error()}
	}
	var probes []string
	p := testscript.Params{
		Files:       []string{script},
		WorkdirRoot: wroot,
	}
	r.fillParams(&p, fl, &probes)
	t := &recT{}
	func() {
		defer func() {
			if e := recover(); e != nil {
				t.verdict = "crash"
				t.note = "outside T.Run: " + fmt.Sprint(e)
			}
		}()
		testscript.RunT(t, p)
	}()
	o := obs{verdict: t.verdict, line: -1, probes: probes, note: t.note}
	if fl.deadline {
		o.log = t.log.String()
	}
	if m := failLineRE.FindStringSubmatch(t.log.String()); m != nil {
		n, _ := strconv.Atoi(m[2])
		o.line = n
		if m[1] != script {
			o.note += " FAIL line names " + m[1]
			o.line = -2
		}
	}
	o.tree = readTree(filepath.Join(wroot, "script-s"))
	var err error
	if o.file, err = os.ReadFile(script); err != nil {
		o.ioErr = err.Error()
	}
	if _, err := os.Stat(wroot); err != nil {
		o.ioErr = err.Error()
	}
	os.RemoveAll(dir)
	return o
}

// runCLI runs cmd/testscript on the given script files (in one invocation); it returns the exit
// status and the bytes of the files afterwards.
func (r *runner) runCLI(fl flags, files [][]byte) (int, [][]byte, string) {
	dir := r.newDir()
	tmp := filepath.Join(dir, "tmp")
	os.MkdirAll(tmp, 0o777)
	var args []string
	if fl.cont {
		args = append(args, "-continue")
	}
	if fl.update {
		args = append(args, "-u")
	}
	var names []string
	for i, f := range files {
		n := filepath.Join(dir, fmt.Sprintf("s%d.txt", i))
		os.WriteFile(n, f, 0o666)
		names = append(names, n)
		args = append(args, n)
	}
	ctx, cancel := context.WithTimeout(context.Background(), 5*time.Minute) // safety net, as in runRealOnce
	defer cancel()
	cmd := exec.CommandContext(ctx, r.cliBin, args...)
	cmd.Dir = dir
	// no `go` on PATH (cmd/testscript then skips gotooltest.Setup): only the helper program `vh`
	cmd.Env = []string{"PATH=" + r.hdir, "TMPDIR=" + tmp, "HOME=" + dir}
	out, err := cmd.CombinedOutput()
	code := 0
	if err != nil {
		var ee *exec.ExitError
		if errors.As(err, &ee) {
			code = ee.ExitCode()
		} else {
			code = -1
		}
	}
	after := make([][]byte, len(files))
	for i, n := range names {
		after[i], _ = os.ReadFile(n)
	}
	os.RemoveAll(dir)
	return code, after, string(out)
}

func buildCLI(dir string) (string, error) {
	repo := os.Getenv("VERIF_REPO")
	if repo == "" {
		repo = "/repo"
	}
	bin := filepath.Join(dir, "testscript")
	cmd := exec.Command("go", "build", "-o", bin, "github.com/rogpeppe/go-internal/cmd/testscript")
	cmd.Dir = repo
	cmd.Env = append(os.Environ(), "GOFLAGS=-mod=mod", "GOPROXY=off", "GOSUMDB=off", "GOTOOLCHAIN=local", "CGO_ENABLED=0")
	out, err := cmd.CombinedOutput()
	if err != nil {
		return "", fmt.Errorf("go build cmd/testscript: %v: %s", err, out)
	}
	return bin, nil
}

// ---------------------------------------------------------------- model output

func parseModel(line string, before []byte) (obs, int, bool) {
	o := obs{line: -1}
	exit := -1
	if !strings.HasPrefix(line, "v=") {
		return o, exit, false
	}
	for _, f := range strings.Split(line, " ") {
		k, v, _ := strings.Cut(f, "=")
		switch k {
		case "v":
			o.verdict = v
		case "line":
			if v != "-" {
				o.line, _ = strconv.Atoi(v)
			}
		case "probes":
			if v != "-" {
				for _, h := range strings.Split(v, ",") {
					o.probes = append(o.probes, string(corr.Unhx(h)))
				}
			}
		case "tree":
			if v != "-" {
				o.tree = strings.Split(v, ";")
				sort.Strings(o.tree)
			}
		case "exit":
			exit, _ = strconv.Atoi(v)
		case "file":
			if v == "same" {
				o.file = before
			} else {
				o.file = corr.Unhx(v)
			}
		}
	}
	return o, exit, true
}

func verdictExit(v string) int {
	switch v {
	case "fail":
		return 1
	case "crash":
		return 2
	}
	return 0
}

// ---------------------------------------------------------------- main entry

func classOf(exp, got *obs) string {
	switch {
	case exp.verdict != got.verdict:
		return "verdict-" + exp.verdict + "-reported-" + got.verdict
	case exp.line != got.line:
		return "wrong-line"
	case !bytes.Equal(exp.file, got.file):
		return "script-file-differs"
	}
	return "observables-differ"
}

func (c *tcase) encode() string { return encodeInput(c) }

// encodeInput: "<kind> <flags> <hex of the script file> [exp:…]"; a large file (long lines) travels
// gzip-compressed as "<kind>z <flags> <base64url> […]" — the replay input is passed on a command line,
// where a single argument is limited to 128 KiB.
func encodeInput(c *tcase) string {
	s := c.kind + " " + c.fl.String() + " " + corr.Hx(c.file)
	if len(c.file) > 20000 {
		var b bytes.Buffer
		zw := gzip.NewWriter(&b)
		zw.Write(c.file)
		zw.Close()
		s = c.kind + "z " + c.fl.String() + " " + base64.RawURLEncoding.EncodeToString(b.Bytes())
	}
	if c.exp != nil {
		s += " exp:" + strings.ReplaceAll(c.exp.String(c.file), " ", "|")
	}
	return s
}

func decodeInput(s string) *tcase {
	f := strings.Fields(s)
	if len(f) < 3 {
		return nil
	}
	c := &tcase{kind: f[0], fl: parseFlags(f[1]), recipe: "replay"}
	if strings.HasSuffix(c.kind, "z") {
		c.kind = strings.TrimSuffix(c.kind, "z")
		raw, err := base64.RawURLEncoding.DecodeString(f[2])
		if err != nil {
			return nil
		}
		zr, err := gzip.NewReader(bytes.NewReader(raw))
		if err != nil {
			return nil
		}
		if c.file, err = io.ReadAll(zr); err != nil {
			return nil
		}
	} else {
		c.file = corr.Unhx(f[2])
	}
	if len(f) >= 4 && strings.HasPrefix(f[3], "exp:") {
		o, _, ok := parseModel(strings.ReplaceAll(f[3][4:], "|", " "), c.file)
		if ok {
			c.exp = &o
		}
	}
	return c
}

func runTsRun(tier string, seed int64, model string, replay string) *corr.Result {
	res := corr.NewResult("tsrun", tier, seed)
	rng := rand.New(rand.NewSource(seed))

	root, err := os.MkdirTemp("", "tsrun-corr-")
	if err != nil {
		res.Observations = append(res.Observations, "cannot create temp dir: "+err.Error())
		res.Disagree("<tempdir>", "", err.Error())
		return res
	}
	defer os.RemoveAll(root)
	if real, err := filepath.EvalSymlinks(root); err == nil {
		root = real
	}
	r := &runner{root: root}
	if r.hdir, err = helperDir(root); err != nil {
		res.Observations = append(res.Observations, "cannot set up the helper program: "+err.Error())
		res.Disagree("<helper>", "", err.Error())
		return res
	}
	if r.cliBin, err = buildCLI(root); err != nil {
		res.Observations = append(res.Observations, err.Error())
		res.Disagree("<build cmd/testscript>", err.Error(), "")
		return res
	}

	var cases []*tcase
	var groups []*mgroup // several script files in one RunT call (lanes.go)
	var replayGroup []int
	if strings.HasPrefix(replay, "files-multi ") {
		var g *mgroup
		if g, cases = decodeMultiGroup(replay); g == nil {
			res.Observations = append(res.Observations, "unreadable replay input")
			return res
		}
		groups = append(groups, g)
	} else if strings.HasPrefix(replay, "cli-multi ") {
		// several scripts in one cmd/testscript invocation
		for _, h := range strings.Split(strings.TrimPrefix(replay, "cli-multi "), ",") {
			replayGroup = append(replayGroup, len(cases))
			cases = append(cases, &tcase{kind: "c01", file: corr.Unhx(h), recipe: "replay"})
		}
	} else if replay != "" {
		c := decodeInput(replay)
		if c == nil {
			res.Observations = append(res.Observations, "unreadable replay input")
			return res
		}
		cases = append(cases, c)
	} else {
		n01, n16 := 1500, 800
		if tier == "thorough" {
			n01, n16 = 100000, 30000
			longLinePerMille = 8
		}
		cases = append(cases, corpusCases()...)
		for i := 0; i < n01; i++ {
			cases = append(cases, genC01(rng))
		}
		for i := 0; i < n16; i++ {
			cases = append(cases, genC16(rng))
		}
		// oracle-only lanes (lanes.go): commands registered through testscript.Main, Params.Deadline,
		// several script files with clashing base names in one RunT call
		nMain, nDeadline, nGroups := 150, 6, 24
		if tier == "thorough" {
			nMain, nDeadline, nGroups = 3000, 30, 300
		}
		nDup, nCd := 60, 80
		if tier == "thorough" {
			nDup, nCd = 1500, 2000
		}
		for i := 0; i < nDup; i++ { // C16: an archive that names a golden file twice
			cases = append(cases, genC16opt(rng, gen16Opts{dupGolden: true}))
		}
		for i := 0; i < nCd; i++ { // C16, oracle-only: a Setup hook that moves env.Cd
			cases = append(cases, genC16opt(rng, gen16Opts{setupCd: true, dupGolden: i%8 == 7}))
		}
		cases = append(cases, laneCorpus()...)
		cases = append(cases, oracleOnlyCorpus()...)
		for i := 0; i < nMain; i++ {
			cases = append(cases, genC01opt(rng, genOpts{mainCmd: true}))
		}
		for i := 0; i < nDeadline; i++ {
			cases = append(cases, genDeadline(rng, i))
		}
		for i := 0; i < nGroups; i++ {
			var g *mgroup
			g, cases = genMultiGroup(rng, i, cases)
			groups = append(groups, g)
		}
	}

	// ---- model (cases with UpdateScripts are also asked without it: the "plain" run)
	// (cases of the oracle-only lanes — flags.modelled() false — are not put to the model)
	reqs := make([]string, len(cases))
	mainIdx := make([]int, len(cases))
	plainIdx := make([]int, len(cases))
	allReqs := make([]string, 0, len(cases))
	for i, c := range cases {
		reqs[i] = c.request()
		mainIdx[i] = -1
		if c.fl.modelled() {
			mainIdx[i] = len(allReqs)
			allReqs = append(allReqs, reqs[i])
		}
	}
	for i, c := range cases {
		plainIdx[i] = -1
		if c.fl.update && c.fl.modelled() {
			plainIdx[i] = len(allReqs)
			allReqs = append(allReqs, c.plainRequest())
		}
	}
	allOut, err := mdl.Run(model, nil, allReqs, 0)
	if err != nil {
		res.Observations = append(res.Observations, "model driver error: "+err.Error())
		res.Disagree("<driver>", "", err.Error())
		return res
	}
	modelOut := make([]string, len(cases))
	for i := range cases {
		modelOut[i] = "not-modelled"
		if mainIdx[i] >= 0 {
			modelOut[i] = allOut[mainIdx[i]]
		}
	}

	// ---- implementation (in-process RunT, then the CLI), in parallel; results by index
	impl := make([]obs, len(cases))
	plain := make([]*obs, len(cases)) // UpdateScripts cases: the run without it
	cliExit := make([]int, len(cases))
	cliFile := make([][]byte, len(cases))
	cliOut := make([]string, len(cases))
	rerun := make([]*obs, len(cases)) // c16: second run without UpdateScripts, on the updated file
	var wg sync.WaitGroup
	sem := make(chan struct{}, runtime.NumCPU())
	// Scripts of the oracle-only corpus write an executable file and exec it straight away.  In a process that
	// forks from other goroutines at the same time, the exec can fail with ETXTBSY (a child forked in between
	// still holds the write descriptor: golang.org/issue/22315) — a property of fork/exec under concurrency,
	// not of the script loop.  Those cases are therefore run one at a time after the parallel batch.
	var serial []int
	runCase := func(i int) {
		c := cases[i]
		impl[i] = r.runReal(c.fl, c.file)
		cliExit[i] = -100
		if c.fl.cliable() {
			code, after, out := r.runCLI(c.fl, [][]byte{c.file})
			cliExit[i], cliFile[i], cliOut[i] = code, after[0], out
		}
		if c.fl.update {
			fl2 := c.fl
			fl2.update = false
			o0 := r.runReal(fl2, c.file)
			plain[i] = &o0
			if c.kind == "c16" {
				o2 := r.runReal(fl2, impl[i].file)
				rerun[i] = &o2
			}
		}
	}
	for i := range cases {
		if cases[i].fl.oracleOnly {
			serial = append(serial, i)
			continue
		}
		wg.Add(1)
		sem <- struct{}{}
		go func(i int) {
			defer wg.Done()
			defer func() { <-sem }()
			runCase(i)
		}(i)
	}
	for _, g := range groups {
		wg.Add(1)
		sem <- struct{}{}
		go func(g *mgroup) {
			defer wg.Done()
			defer func() { <-sem }()
			r.runMulti(g, cases)
		}(g)
	}
	wg.Wait()
	for _, i := range serial {
		runCase(i)
	}

	// ---- compare.  Attribution: what goes wrong without UpdateScripts as well is a matter of the
	// script loop (C01); what goes wrong only under UpdateScripts is a matter of C16.
	c01, c16 := []string{"C01"}, []string{"C16"}
	seen := map[string]bool{}
	nontrivial := 0
	ioErrs := 0
	loopBroken := false // pass 2 only: the script loop misbehaves on plain scripts, UpdateScripts cannot be judged
	process := func(i int, c *tcase) {
		if impl[i].ioErr != "" || (rerun[i] != nil && rerun[i].ioErr != "") || (plain[i] != nil && plain[i].ioErr != "") || cliExit[i] == -1 {
			// the harness's own temp files failed (disk, descriptor limits, a cleaner): not evidence either way
			ioErrs++
			res.Distribution["harness-io-error"]++
			if ioErrs <= 3 {
				res.Observations = append(res.Observations, "harness I/O error, case skipped: "+impl[i].ioErr)
			}
			return
		}
		in := encodeInput(c)
		key := c.fl.String() + " " + string(c.file)
		first := !seen[key]
		seen[key] = true
		for _, t := range c.tags {
			res.Distribution[c.kind+":"+t]++
		}
		res.Distribution[c.kind+":verdict="+impl[i].verdict]++
		res.Distribution[c.kind+":flags="+c.fl.String()]++
		if first && len(c.tags) > 0 && c.tags[0] == "nontrivial" {
			nontrivial++
		}
		implLine := impl[i].String(c.file)

		// -- the plain run first (cases with UpdateScripts)
		owner := c01 // whom differences of the main run are attributed to
		plainBad := false
		if c.fl.update {
			owner = c16
			fl0 := c.fl
			fl0.update = false
			in0 := (&tcase{kind: "c01", fl: fl0, file: c.file, exp: c.exp0}).encode()
			p := plain[i]
			pLine := p.String(c.file)
			if plainIdx[i] < 0 {
				// oracle-only lane
			} else if mo0, _, ok := parseModel(allOut[plainIdx[i]], c.file); !ok {
				res.DisagreeFor(c01, allReqs[plainIdx[i]], pLine, allOut[plainIdx[i]])
				plainBad = true
			} else if ms := mo0.String(c.file); ms != pLine {
				res.DisagreeFor(c01, allReqs[plainIdx[i]], pLine+" "+p.note, ms)
				plainBad = true
			}
			if c.exp0 != nil {
				res.OracleChecked["C01"]++
				if es := c.exp0.String(c.file); es != pLine {
					res.Violate("C01", in0, "expected "+es+" got "+pLine+" "+p.note+" [same script without UpdateScripts; "+c.recipe+"]", classOf(c.exp0, p))
					plainBad = true
				}
			}
			if !bytes.Equal(p.file, c.file) {
				res.Violate("C16", in0, "script file rewritten without UpdateScripts", "rewritten-without-flag")
			}
		}
		if plainBad {
			// the script loop itself misbehaves on this script: nothing can be said about UpdateScripts here
			res.Distribution["c16:not-judged-plain-run-wrong"]++
			return
		}
		if c.fl.update && loopBroken {
			res.Distribution["c16:not-judged-script-loop-wrong"]++
			return
		}

		// -- model vs implementation
		mo, mexit, ok := parseModel(modelOut[i], c.file)
		if mainIdx[i] < 0 {
			res.Distribution[c.kind+":not-modelled(oracle-only)"]++
		} else if !ok {
			res.DisagreeFor(owner, reqs[i], implLine, modelOut[i])
			res.Distribution["model:"+strings.SplitN(modelOut[i], " ", 2)[0]]++
		} else {
			if ms := mo.String(c.file); ms != implLine {
				if !c.fl.update && bytes.Equal(mo.file, impl[i].file) {
					res.DisagreeFor(c01, reqs[i], implLine+" "+impl[i].note, ms)
				} else {
					res.DisagreeFor(c16, reqs[i], implLine+" "+impl[i].note, ms)
				}
			}
			if cliExit[i] != -100 {
				if cliExit[i] != mexit && mo.verdict == impl[i].verdict {
					res.DisagreeFor(c01, reqs[i]+" [cli]", fmt.Sprintf("exit=%d", cliExit[i]), fmt.Sprintf("exit=%d", mexit))
				}
				if !bytes.Equal(cliFile[i], mo.file) {
					res.DisagreeFor(c16, reqs[i]+" [cli file]", corr.Hx(cliFile[i]), corr.Hx(mo.file))
				}
			}
		}

		// -- oracle 0 (needs no expectation): a run is reported as passed, failed or skipped — a Go panic
		// escaping from the script loop (no custom command of this harness panics) is none of these
		res.OracleChecked[owner[0]]++
		if impl[i].verdict == "crash" {
			res.Violate(owner[0], in, "the run ended in a Go panic instead of a reported verdict: "+impl[i].note+" ["+c.recipe+"]", "run-crashed")
		}

		// -- oracle 1: the generator's expectation
		if c.exp != nil {
			res.OracleChecked[owner[0]]++
			es := c.exp.String(c.file)
			if c.c16 != nil && c.c16.unquotable && !c.c16.otherFail {
				// the FAIL entry of a refused Quote carries the current ts.lineno: a script-loop detail
				e2, g2 := *c.exp, impl[i]
				e2.line, g2.line = -1, -1
				if e2.String(c.file) == g2.String(c.file) {
					es = implLine
				}
			}
			if c.c16 != nil && c.c16.dupGolden {
				// an archive that names a golden file twice: which bytes the script file must hold afterwards
				// is c16Oracle's business (only the entry the script reads is asserted)
				e2, g2 := *c.exp, impl[i]
				e2.file, g2.file = nil, nil
				if e2.String(c.file) == g2.String(c.file) {
					es = implLine
				}
			}
			// This is also the verdict-level oracle for background commands and long lines: the expectation
			// comes from the generator's own bookkeeping (genbg.go), not from the Lean model.  A script in
			// which an executed line has to fail — a `wait` or `skip` that must report a background command
			// which ended against its line included — reported as pass / skip is class
			// "verdict-fail-reported-pass|skip"; a failing line after a 64 KiB line reported at another
			// line (or not at all) is "wrong-line" / "verdict-fail-reported-pass".
			if es != implLine {
				var about []string
				for _, t := range c.tags {
					if strings.HasPrefix(t, "bg@") || strings.HasPrefix(t, "long-line") || strings.HasPrefix(t, "bad-skip") || strings.HasPrefix(t, "bad-wait") ||
						strings.HasPrefix(t, "deadline") || strings.HasPrefix(t, "main-cmd") || strings.HasPrefix(t, "setup-cd") || strings.Contains(t, "-main-") {
						about = append(about, t)
					}
				}
				extra := ""
				if len(about) > 0 {
					extra = " {" + strings.Join(about, " ") + "}"
				}
				res.Violate(owner[0], in, "expected "+es+" got "+implLine+" "+impl[i].note+" ["+c.recipe+"]"+extra, classOf(c.exp, &impl[i]))
			}
		}
		// -- oracle 1b (C01, deadline lane): a command still running when the run's deadline expires is
		// interrupted, and its line — negated or not — is reported as failed because of the time-out
		if c.fl.deadline && c.exp != nil && c.exp.verdict == "fail" {
			res.OracleChecked["C01"]++
			if impl[i].verdict == "fail" && !saysTimedOut(impl[i].log) {
				res.Violate("C01", in, "the run failed, but its log does not say that the test timed out (\""+timedOutMsg+"\"): "+lastLines(impl[i].log, 4)+" ["+c.recipe+"]", "deadline-not-reported")
			}
		}
		// -- oracle 2 (C01): the exit status of the standalone command is the one that belongs to the verdict
		// RunT reported for the same run (what the verdict should have been is oracle 1's business)
		if cliExit[i] != -100 {
			res.OracleChecked["C01"]++
			if want := verdictExit(impl[i].verdict); cliExit[i] != want {
				res.Violate("C01", in, fmt.Sprintf("cmd/testscript exit status %d, want %d (RunT verdict %s): %s", cliExit[i], want, impl[i].verdict, lastLines(cliOut[i], 3)), "cli-exit-status")
			}
		}
		// -- oracle 3 (C16): frame + fix-point, stated on the parsed archives
		if c.kind == "c16" {
			c16Oracle(res, c, in, impl[i], rerun[i])
		}
	}
	// pass 1: scripts without UpdateScripts, and the multi-file invocations — the script loop (C01)
	for i, c := range cases {
		if !c.fl.update {
			process(i, c)
		}
	}
	for _, g := range groups {
		multiOracle(res, g, cases, impl)
	}
	if replay == "" {
		groups := 60
		if tier == "thorough" {
			groups = 600
		}
		multiCLI(res, r, rng, cases, impl, model, groups, nil)
	} else if replayGroup != nil {
		multiCLI(res, r, rng, cases, impl, model, 1, replayGroup)
	}
	// pass 2: scripts with UpdateScripts (C16) — judged only if pass 1 found the loop in order
	for _, v := range res.Violations {
		if v.Property == "C01" {
			loopBroken = true
		}
	}
	if res.DisagreementsBy["C01"]+res.DisagreementsBy["*"] > 0 {
		loopBroken = true
	}
	if loopBroken {
		res.Observations = append(res.Observations, "the script loop (C01) misbehaves on scripts without UpdateScripts: the UpdateScripts cases of this run are not judged (C16)")
	}
	for i, c := range cases {
		if c.fl.update {
			process(i, c)
		}
	}

	if ioErrs*50 > len(cases) {
		res.Disagree("<harness>", fmt.Sprintf("%d of %d cases hit I/O errors in the harness's temp dir", ioErrs, len(cases)), "")
	}

	res.Evaluations = len(cases)
	res.DistinctNontrivial = nontrivial
	res.Rule = "distinct (flags, script file) cases whose recipe contains at least one of: a line built to fail, stop, skip, a [cond] guard, a negated command, a custom command, exec / a background command / wait / kill, a line of 64 KiB or more, or (C16) a golden entry compared under UpdateScripts; each case is run through testscript.RunT with a recording T, through the Lean model and (builtin-only cases) through the cmd/testscript binary, and verdict, first FAIL line, probe trace, final tree, script bytes and exit status are compared with the model and with the expectation the generator derived from its recipe; oracle-only lanes without a model counterpart (judged by the generator's expectation alone): uses of a command registered through testscript.Main with and without RequireExplicitExec, a command still running when Params.Deadline expires (exec and ! exec, in the foreground or collected by wait), several script files with clashing base names in one RunT call with kept work directories (subtest names pairwise distinct, every script reported as when it is run alone), UpdateScripts runs whose Setup hook moved env.Cd into a sub-directory; (C16) archives that name a golden file twice (model and oracle; only the entry the script reads is asserted)"
	for _, i := range []int{0, 1, len(cases) / 3, len(cases) / 2, len(cases) - 1} {
		if i >= 0 && i < len(cases) {
			res.Samples = append(res.Samples, map[string]string{"case": reqs[i], "script": string(cases[i].file), "recipe": cases[i].recipe, "impl": impl[i].String(cases[i].file), "model": modelOut[i]})
		}
	}
	return res
}

func lastLines(s string, n int) string {
	l := strings.Split(strings.TrimRight(s, "\n"), "\n")
	if len(l) > n {
		l = l[len(l)-n:]
	}
	return strings.Join(l, " / ")
}

// multiCLI: groups of builtin-only scripts in one invocation; exit 0 iff none failed.
func multiCLI(res *corr.Result, r *runner, rng *rand.Rand, cases []*tcase, impl []obs, model string, groups int, fixed []int) {
	var idx []int
	for i, c := range cases {
		if c.fl.cliable() && !c.fl.update && !c.fl.cont && impl[i].verdict != "crash" && impl[i].ioErr == "" && len(c.file) < 20000 {
			idx = append(idx, i)
		}
	}
	type grp struct{ members []int }
	var gs []grp
	if fixed != nil {
		gs = append(gs, grp{fixed})
		groups = 0
	} else if len(idx) < 4 {
		return
	}
	for g := 0; g < groups; g++ {
		k := 2 + rng.Intn(3)
		var m []int
		for j := 0; j < k; j++ {
			m = append(m, idx[rng.Intn(len(idx))])
		}
		gs = append(gs, grp{m})
	}
	var reqs []string
	for _, g := range gs {
		var vs []string
		for _, i := range g.members {
			vs = append(vs, impl[i].verdict)
		}
		reqs = append(reqs, "cli "+strings.Join(vs, ","))
	}
	out, err := mdl.Run(model, nil, reqs, 1)
	if err != nil {
		res.DisagreeFor([]string{"C01"}, "<driver cli>", "", err.Error())
		return
	}
	codes := make([]int, len(gs))
	var wg sync.WaitGroup
	for gi := range gs {
		wg.Add(1)
		go func(gi int) {
			defer wg.Done()
			var files [][]byte
			for _, i := range gs[gi].members {
				files = append(files, cases[i].file)
			}
			codes[gi], _, _ = r.runCLI(flags{}, files)
		}(gi)
	}
	wg.Wait()
	for gi, g := range gs {
		if codes[gi] == -1 {
			res.Distribution["harness-io-error"]++
			continue
		}
		res.Distribution["cli-multi"]++
		if got := fmt.Sprintf("exit=%d", codes[gi]); got != out[gi] {
			res.DisagreeFor([]string{"C01"}, reqs[gi], got, out[gi])
		}
		res.OracleChecked["C01"]++
		anyFail := false
		for _, i := range g.members {
			if impl[i].verdict == "fail" {
				anyFail = true
			}
		}
		if (codes[gi] == 0) == anyFail {
			var ins []string
			for _, i := range g.members {
				ins = append(ins, corr.Hx(cases[i].file))
			}
			res.Violate("C01", "cli-multi "+strings.Join(ins, ","), fmt.Sprintf("exit status %d with verdicts %s", codes[gi], reqs[gi]), "cli-exit-status-multi")
		}
	}
}

// corpusCases: witnesses of past findings, always run first.
func corpusCases() []*tcase {
	mk := func(kind string, fl flags, file string, exp obs, recipe string) *tcase {
		exp.file = []byte(file)
		if exp.verdict == "" {
			return &tcase{kind: kind, fl: fl, file: []byte(file), recipe: recipe, tags: []string{"nontrivial", "corpus"}}
		}
		return &tcase{kind: kind, fl: fl, file: []byte(file), exp: &exp, recipe: recipe, tags: []string{"nontrivial", "corpus"}}
	}
	return append(edgeCases(),
		// fixed 45bab20: skip after a failed line hid the failure
		mk("c01", flags{cont: true}, "exists nothing\nskip\n", obs{verdict: "fail", line: 1}, "regression: line 1 fails, line 2 skip, ContinueOnError"),
		mk("c01", flags{}, "exists nothing\nskip\n", obs{verdict: "fail", line: 1}, "line 1 fails, no ContinueOnError"),
		mk("c01", flags{cont: true}, "skip\nexists nothing\n", obs{verdict: "skip", line: -1}, "skip before the failing line"),
		mk("c01", flags{cont: true}, "# phase\nexists nothing\n\n# next\nstop done\nexists nothing\n", obs{verdict: "fail", line: 2}, "failure, then stop, ContinueOnError"),
		// fixed 26d8675: an update that cannot be quoted escaped as panic(failNow)
		mk("c01", flags{update: true, customCmds: true}, "put out nonl a '-- x --'\ncmp stdout g\n-- g --\nx\n", obs{verdict: "fail", line: 2, tree: []string{"f:" + corr.Hx([]byte("g")) + ":" + corr.Hx([]byte("x\n"))}}, "regression: unquotable update content"),
	)
}
