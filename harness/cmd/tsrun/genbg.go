package main

// Generator support for `exec` (foreground and background), `wait`, `kill` and their interplay
// with skip / stop / a failing line / the end of the script, and for very long script lines.
//
// The bookkeeping is the generator's own (independent of the Lean model): a background command is
// one of the helper's deterministic behaviours (helper.go) — it runs to completion by itself
// (outputs, exit status) or blocks until a signal ends it.  Whatever would depend on timing is never
// generated: waiting for a blocking helper nobody signalled, the status of a self-terminating helper
// that has been signalled, signalling a helper that may already have exited.

import (
	"fmt"
	"strings"
)

type gbg struct {
	name      string
	neg       bool
	out, err  string
	status    int
	blocks    bool
	signalled bool
}

// result: did the process succeed, once it has ended?  det = false: it never ends / depends on timing.
func (b gbg) result() (ok, det bool) {
	if b.blocks {
		return false, b.signalled
	}
	return b.status == 0, !b.signalled
}

// resultInterrupted: the same right after an interrupt has been sent.
func (b gbg) resultInterrupted() (ok, det bool) {
	switch {
	case b.blocks:
		return false, true
	case b.signalled, b.status == 0:
		return false, false
	}
	return false, true
}

// contradicts: the process ended (determined) against what its line demands.
func (b gbg) contradicts(interrupted bool) bool {
	ok, det := b.result()
	if interrupted {
		ok, det = b.resultInterrupted()
	}
	return det && ok == b.neg
}

// waitAll: the outcome of `wait` (or of the wait inside `skip`, interrupted = true).
func (s *gst) waitAll(interrupted bool) (det, fatal bool, out, err string) {
	for _, b := range s.bgs {
		ok, d := b.result()
		if interrupted {
			ok, d = b.resultInterrupted()
		}
		if !d {
			return false, false, "", ""
		}
		if ok == b.neg {
			return true, true, "", ""
		}
		out += b.out
		err += b.err
	}
	return true, false, out, err
}

// pendingContradiction: some outstanding background command has ended / will end against its line.
func (s *gst) pendingContradiction() bool {
	for _, b := range s.bgs {
		if b.contradicts(false) || (b.blocks && !b.neg) {
			return true
		}
	}
	return false
}

func (s *gst) findBg(name string) int {
	if name == "" {
		return -1
	}
	for i, b := range s.bgs {
		if b.name == name {
			return i
		}
	}
	return -1
}

// ---- the helper's actions

type hrun struct {
	args        []string // script words after `exec vh`
	out, err    string
	status      int
	blocks      bool
	consumesStd bool
}

// helperActions draws a list of actions and what they do given ts.stdin.
func (g *gen) helperActions(stdin string, wantStatus int, block bool) hrun {
	if block {
		return hrun{args: []string{"block"}, blocks: true}
	}
	var h hrun
	for i, n := 0, g.rng.Intn(4); i < n; i++ {
		w := g.pick(words)
		if g.chance(25) {
			w += " " + g.pick(words)
		}
		switch g.rng.Intn(5) {
		case 0, 1:
			h.args = append(h.args, q("out:"+w))
			h.out += w + "\n"
		case 2, 3:
			h.args = append(h.args, q("err:"+w))
			h.err += w + "\n"
		default:
			h.args = append(h.args, "cat")
			h.out += stdin
			stdin = ""
		}
	}
	if wantStatus != 0 || g.chance(20) {
		h.args = append(h.args, fmt.Sprintf("exit:%d", wantStatus))
	}
	h.status = wantStatus
	return h
}

var bgNames = []string{"b1", "b2", "srv", "X_9"}

// execFgLine: a foreground exec whose status is as the line demands (good) or not (bad).
func (g *gen) execFgLine(good bool) gline {
	s := g.st
	if g.fl.mainCmd && g.chance(75) { // the Main-command lane (lanes.go)
		return g.execMainLine(good)
	}
	if g.chance(12) { // a program that is not on PATH: a start error, stdin is kept
		text := "exec nosuchprog-zz" + g.pick([]string{"", " a", " out:x"})
		if good {
			text = "! " + text
		}
		tag := "exec-notfound"
		if good {
			tag = "neg-exec-notfound"
		} else {
			tag = "bad-exec-notfound"
		}
		return gline{text: text, apply: func() { s.stdout, s.stderr = "", "" }, tag: tag}
	}
	neg := g.chance(45)
	status := 0
	if neg == good { // good: neg <-> failing status; bad: the other way round
		status = 1 + g.rng.Intn(3)
	}
	h := g.helperActions(s.stdin, status, false)
	text := "exec vh " + strings.Join(h.args, " ")
	text = strings.TrimRight(text, " ")
	tag := "exec-fg"
	if neg {
		text = "! " + text
		tag = "neg-exec-fg"
	}
	if !good {
		tag = "bad-" + tag
	}
	return gline{text: text, apply: func() { s.stdout, s.stderr, s.stdin = h.out, h.err, "" }, tag: tag}
}

// execBgLine: starts a background command (always succeeds as a line); kind: "ok" = will end as its
// line demands, "contra" = will end against it, "" = either.
func (g *gen) execBgLine(kind string) (gline, bool) {
	s := g.st
	name := ""
	if g.chance(55) {
		name = g.pick(bgNames)
		if s.findBg(name) >= 0 {
			return gline{}, false
		}
	}
	spec := "&"
	if name != "" {
		spec = "&" + name + "&"
	}
	if kind == "" && g.chance(8) { // start error under `!`
		return gline{text: "! exec nosuchprog-zz " + spec, apply: func() { s.stdout, s.stderr = "", "" }, tag: "neg-exec-bg-notfound"}, true
	}
	neg := g.chance(35)
	block := g.chance(35)
	succeeds := false
	switch kind {
	case "ok":
		succeeds = !neg
	case "contra":
		succeeds = neg
	default:
		succeeds = g.chance(50)
	}
	if succeeds {
		block = false // a blocking helper never succeeds
	}
	status := 0
	if !succeeds && !block {
		status = 1 + g.rng.Intn(3)
	}
	h := g.helperActions(s.stdin, status, block)
	text := "exec vh " + strings.Join(h.args, " ") + " " + spec
	tag := "exec-bg"
	if neg {
		text = "! " + text
		tag = "neg-exec-bg"
	}
	if block {
		tag += "-block"
	}
	if name != "" {
		tag += "-named"
	}
	b := gbg{name: name, neg: neg, out: h.out, err: h.err, status: h.status, blocks: h.blocks}
	return gline{text: text, apply: func() {
		s.bgs = append(s.bgs, b)
		s.stdout, s.stderr, s.stdin = "", "", ""
	}, tag: tag}, true
}

// waitLine: `wait` / `wait name` with the given outcome (good = ends ok); false = not possible now.
func (g *gen) waitLine(good bool) (gline, bool) {
	s := g.st
	// wait NAME
	if g.chance(50) {
		var named []int
		for i, b := range s.bgs {
			if b.name != "" && s.findBg(b.name) == i {
				if ok, det := b.result(); det && (ok != b.neg) == good {
					named = append(named, i)
				}
			}
		}
		if len(named) > 0 {
			i := named[g.rng.Intn(len(named))]
			b := s.bgs[i]
			tag := "wait-name"
			if !good {
				tag = "bad-wait-name-status"
			}
			return gline{text: "wait " + b.name, apply: func() {
				s.stdout, s.stderr = b.out, b.err
				if good {
					s.bgs = append(append([]gbg{}, s.bgs[:i]...), s.bgs[i+1:]...)
				}
			}, tag: tag}, true
		}
	}
	det, fatal, out, err := s.waitAll(false)
	if !det || fatal == good {
		return gline{}, false
	}
	if good {
		tag := "wait"
		if len(s.bgs) > 0 {
			tag = fmt.Sprintf("wait-bg%d", min(len(s.bgs), 3))
		}
		return gline{text: "wait", apply: func() { s.stdout, s.stderr, s.bgs = out, err, nil }, tag: tag}, true
	}
	tag := "bad-wait-status"
	if len(s.bgs) > 1 && s.bgs[0].contradicts(false) {
		tag = "bad-wait-status-first-of-several"
	}
	return gline{text: "wait", apply: noop, tag: tag}, true
}

// killLine: signals blocking helpers that have not been signalled yet (all of them, or one by name).
func (g *gen) killLine() (gline, bool) {
	s := g.st
	sig := g.pick([]string{"", "", " -INT", " -KILL"})
	if g.chance(60) {
		var named []int
		for i, b := range s.bgs {
			if b.name != "" && s.findBg(b.name) == i && b.blocks && !b.signalled {
				named = append(named, i)
			}
		}
		if len(named) > 0 {
			i := named[g.rng.Intn(len(named))]
			return gline{text: "kill" + sig + " " + s.bgs[i].name, apply: func() { s.bgs[i].signalled = true }, tag: "kill-name"}, true
		}
	}
	for _, b := range s.bgs {
		if !b.blocks || b.signalled {
			return gline{}, false
		}
	}
	tag := "kill"
	if len(s.bgs) > 0 {
		tag = "kill-bg"
	}
	return gline{text: "kill" + sig, apply: func() {
		for i := range s.bgs {
			s.bgs[i].signalled = true
		}
	}, tag: tag}, true
}

// bgGoodLine: one good line of the exec / background family.
func (g *gen) bgGoodLine() (gline, bool) {
	// blocking helpers outstanding: signal them (so that a later wait / skip can tell); signalled or
	// self-terminating ones: wait for them
	live, signalled := 0, 0
	for _, b := range g.st.bgs {
		if b.blocks && !b.signalled {
			live++
		}
		if b.blocks && b.signalled {
			signalled++
		}
	}
	if live > 0 && g.chance(35) {
		if l, ok := g.killLine(); ok {
			return l, true
		}
	}
	if signalled > 0 && g.chance(50) {
		if l, ok := g.waitLine(true); ok {
			return l, true
		}
	}
	switch g.rng.Intn(10) {
	case 0, 1, 2:
		return g.execFgLine(true), true
	case 3, 4, 5:
		if len(g.st.bgs) >= 3 {
			return gline{}, false
		}
		return g.execBgLine("")
	case 6, 7:
		return g.waitLine(true)
	default:
		return g.killLine()
	}
}

// bgBadLine: one failing line of the family (usage errors, wrong statuses, unknown names).
func (g *gen) bgBadLine() (gline, bool) {
	s := g.st
	switch g.rng.Intn(8) {
	case 0, 1:
		return g.execFgLine(false), true
	case 2, 3, 4:
		return g.waitLine(false)
	case 5:
		return gline{text: g.pick([]string{"exec", "exec &", "! exec", "wait nosuchbg", "kill nosuchbg", "kill -INT nosuchbg", "kill -HUP", "kill -TERM b1", "! wait", "! kill"}), tag: "bad-bg-usage"}, true
	case 6: // duplicate background name
		for _, b := range s.bgs {
			if b.name != "" {
				return gline{text: g.pick([]string{"", "! "}) + "exec vh out:x &" + b.name + "&", tag: "bad-exec-bg-duplicate"}, true
			}
		}
		return gline{}, false
	default: // start error without `!`: the buffers are cleared before the Fatalf
		spec := g.pick([]string{"&", "&nf&"})
		if s.findBg("nf") >= 0 {
			spec = "&"
		}
		return gline{text: "exec nosuchprog-zz " + spec, apply: func() { s.stdout, s.stderr = "", "" }, tag: "bad-exec-bg-notfound"}, true
	}
}

// ---- long lines

// longLengths: around bufio.Scanner's default token limit (64 KiB) and well above it.
var longLengths = []int{65534, 65535, 65536, 65537, 70001, 131073}

// longLine turns l into a line of exactly n bytes (when l is short enough) without changing what it does:
// a trailing comment, trailing blanks, or — for form "word" — a long quoted argument of its own.
func (g *gen) longLine(l gline, n int) (gline, string) {
	form := g.pick([]string{"trailing-comment", "trailing-blanks", "word", "comment-line"})
	switch form {
	case "comment-line":
		return gline{text: "# " + strings.Repeat("c", n-2), tag: "long-comment-line"}, form
	case "word":
		w := strings.Repeat("w", n-len("! exists ''"))
		return gline{text: "! exists '" + w + "'", apply: noop, tag: "long-word"}, form
	case "trailing-blanks":
		if pad := n - len(l.text); pad > 0 {
			l.text += strings.Repeat(g.pick([]string{" ", "\t"}), pad)
		}
		return l, form
	}
	if pad := n - len(l.text) - 3; pad > 0 {
		l.text += " # " + strings.Repeat("c", pad)
	}
	return l, form
}
