package main

// Hand-written edge cases: compared between implementation and model on every run (no expectation).

func edgeCases() []*tcase {
	edge := func(fl flags, file string) *tcase {
		return &tcase{kind: "c01", fl: fl, file: []byte(file), recipe: "hand-written edge case (model vs implementation only)", tags: []string{"nontrivial", "edge"}}
	}
	k := flags{customCmds: true, customCond: true}
	kc := flags{customCmds: true, customCond: true, cont: true}
	return []*tcase{
		edge(flags{}, "exists .\nstop"),
		edge(flags{}, "stop\nexists nothing"),
		edge(flags{}, "#"),
		edge(flags{}, "# only a phase line\n"),
		edge(flags{}, "\r\nexists .\r\nstop\r\n"),
		edge(flags{}, "\r"),
		edge(flags{}, "exists a#b\n-- a --\nx\n"),
		edge(flags{}, "exists ''\ncd ''\nexists $NOPE\n"),
		edge(flags{}, "env\nenv X\nenv X=1 Y=2\nenv =x\nexists $X\n"),
		edge(flags{}, "exists .\n-- a --\nx\n-- a/b --\ny\n"),
		edge(flags{}, "exists a/b\n-- a/b --\ny\n-- a --\nx\n"),
		edge(flags{unique: true}, "exists a\n-- a --\nx\n-- ./a --\ny\n"),
		edge(flags{}, "exists a\ncmp a b\n-- a --\nx\n-- ./a --\ny\n-- b --\ny\n"),
		edge(flags{}, "mkdir a/b/c\nrm a\n! exists a\nexists a\n"),
		edge(flags{cont: true}, "exists nothing\nstop\nexists nothing\n"),
		edge(flags{cont: true}, "exists nothing\nskip why\n"),
		edge(flags{}, "skip 'some reason'\nexists nothing\n"),
		edge(flags{}, "[!exec:nosuchprog-zz] [gc] ! exists nothing\n[gc]\texists .\n"),
		edge(flags{}, "[exec:nosuchprog-zz] [bad] frobnicate\n[gc] [bad] exists .\n"),
		edge(flags{}, "! stdout x\n! stderr x\nstdout x\n"),
		edge(flags{}, "cmp stdout stderr\n"),
		edge(flags{}, "cp stdout stdout\nexists stdout\ncmp stdout stdout\n"),
		edge(flags{cont: true}, "cmp stdout a\ncmp stderr a\n! cmp stdout b\ncmp a ttyout\n-- a --\n-- b --\nx\n"),
		edge(flags{}, "cd sub\nexists ../a ./b $WORK/a\ncd ..\nexists sub\n-- a --\n-- sub/b --\n"),
		edge(flags{}, "mv sub other\nexists other/b\n! exists sub\nmv a other\n-- a --\n-- sub/b --\n"),
		edge(flags{}, "cp a b sub\ncp a sub/b\ncp sub a\n-- a --\n1\n-- b --\n2\n-- sub/c --\n3\n"),
		edge(flags{}, "exists 'a b' 'it''s'\n! exists ''''\n-- a b --\n-- it's --\n"),
		edge(flags{}, "stdin a\nwait\nkill\nkill -KILL\nkill -HUP\n-- a --\n"),
		edge(flags{cont: true}, "kill -INT x\nkill x\nwait x\nkill ''\nkill -INT ''\n"),
		edge(flags{}, "unquote a b\ncmp a c\nunquote c\n-- a --\n>x\n>>y\n-- b --\n-- c --\nx\n>y\n"),
		edge(flags{}, "grep -count=2 x a\ngrep -count=1 x a\n-- a --\nxx\n"),
		edge(flags{}, "grep x a b\n"),
		edge(k, "put out nl a b\nstdout -count=1 a\ncp stdout o\nput err nonl z\n! stdout a\nstderr z\ncmp stdout empty\ncmp stderr o2\n-- empty --\n-- o2 --\nz\n"),
		edge(k, "'[ yes ]' '[! no ]' probe a\n'[  ! yes]' probe b\n[yes] [no] probe c\n[!no] ! probe d e\nprobe\n"),
		edge(kc, "[bad] probe a\n[] probe b\n[yes]\n[no]\nprobe c\n! exists\nexists x y z\n"),
		edge(kc, "failcmd\nprobe after\nskip\nprobe never\n"),
		edge(kc, "put out nl x\nfailcmd now\nstdout x\n! probe q\nstop\nprobe never\n"),
		edge(k, "put file:sub/x nl 1\nput file:nodir/x nl 1\n-- sub/keep --\n"),
		edge(flags{customCmds: true}, "[yes] probe a\n"),
		edge(flags{explicitExec: true, customCmds: true}, "probe a\nexists .\n"),
		edge(flags{update: true}, "cmp a g\ncmp a h\ncmpenv a i\n! cmp a j\ncmp a k\n-- a --\nnew\n-- g --\nold\n-- h --\nnew\n-- i --\nold\n-- j --\nold\n-- k --\n"),
		edge(flags{update: true}, "cp g rt\ncmp a rt\n-- a --\nnew\n-- g --\nold\n"),
		edge(flags{update: true, cont: true}, "cmp a g\nexists nothing\ncmp a h\nskip\n-- a --\n-- x --\n-- g --\nold\n-- h --\nold\n"),
		edge(flags{update: true}, "cmp a g\n-- g --\nold\n-- a --\nno newline"),
		edge(flags{update: true}, "cd sub\ncmp ../a g\ncmp ../a $WORK/sub/g\n-- a --\nnew\n-- sub/g --\nold\n"),
		edge(flags{update: true}, "cmp a g\n-- a --\n-- g --\nold\n-- g --\nolder\n"),
	}
}
