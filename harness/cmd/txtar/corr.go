package main

import (
	"bytes"
	"fmt"
	"math/rand"
	"strings"
	"unicode/utf8"

	"github.com/rogpeppe/go-internal/txtar"
	xtxtar "golang.org/x/tools/txtar"

	"verif/harness/internal/corr"
	"verif/harness/internal/mdl"
)

func showArchive(a *txtar.Archive) string {
	var sb strings.Builder
	sb.WriteString("c:" + corr.Hx(a.Comment))
	for _, f := range a.Files {
		sb.WriteString(";f:" + corr.Hx([]byte(f.Name)) + ":" + corr.Hx(f.Data))
	}
	return sb.String()
}

func safeParse(d []byte) (a *txtar.Archive, panicked bool) {
	defer func() {
		if r := recover(); r != nil {
			a, panicked = nil, true
		}
	}()
	return txtar.Parse(d), false
}

func safeNeedsQuote(d []byte) (s string, v bool, panicked bool) {
	defer func() {
		if r := recover(); r != nil {
			s, panicked = "panic", true
		}
	}()
	v = txtar.NeedsQuote(d)
	if v {
		return "true", v, false
	}
	return "false", v, false
}

func showQ(b []byte, err error) string {
	if err == nil {
		return "ok:" + corr.Hx(b)
	}
	switch {
	case strings.Contains(err.Error(), "no final newline"):
		return "err:nonl"
	case strings.Contains(err.Error(), "non-UTF-8"):
		return "err:utf8"
	case strings.Contains(err.Error(), "does not appear to be quoted"):
		return "err:notquoted"
	}
	return "err:other:" + err.Error()
}

func goFixNL(d []byte) []byte {
	if len(d) == 0 || d[len(d)-1] == '\n' {
		return d
	}
	return append(append([]byte{}, d...), '\n')
}

// txtarImplLine computes, on the implementation, the same line the model driver prints for `all <hex>`.
func txtarImplLine(d []byte) string {
	p, panicked := safeParse(d)
	ps, fs, pfps := "panic", "panic", "panic"
	if !panicked {
		ps = showArchive(p)
		f := txtar.Format(p)
		fs = corr.Hx(f)
		if p2, pk := safeParse(f); !pk {
			pfps = showArchive(p2)
		}
	}
	nq, _, _ := safeNeedsQuote(d)
	q, qerr := txtar.Quote(append([]byte{}, d...))
	u, uerr := txtar.Unquote(append([]byte{}, d...))
	r := xtxtar.Parse(d)
	return "P=" + ps + " F=" + fs + " PFP=" + pfps + " NQ=" + nq + " Q=" + showQ(q, qerr) + " U=" + showQ(u, uerr) +
		" R=" + showArchive(r) + " T=" + corr.Hx([]byte(strings.TrimSpace(string(d))))
}

// independent definition of "marker line" for the well-formedness predicate of the statement.
func isMarkerLineIndep(line []byte) bool {
	line = bytes.TrimSuffix(line, []byte("\r"))
	if len(line) < 6 || !bytes.HasPrefix(line, []byte("-- ")) || !bytes.HasSuffix(line, []byte(" --")) {
		return false
	}
	return strings.TrimSpace(string(line[3:len(line)-3])) != ""
}

func hasMarkerLineIndep(d []byte) bool {
	for _, l := range bytes.Split(d, []byte("\n")) {
		if isMarkerLineIndep(l) {
			return true
		}
	}
	return false
}

func equalArchive(a, b *txtar.Archive) bool {
	if !bytes.Equal(a.Comment, b.Comment) || len(a.Files) != len(b.Files) {
		return false
	}
	for i := range a.Files {
		if a.Files[i].Name != b.Files[i].Name || !bytes.Equal(a.Files[i].Data, b.Files[i].Data) {
			return false
		}
	}
	return true
}

// txtarOracle checks C03 and C14 directly on the implementation for one byte string.
func txtarOracle(res *corr.Result, d []byte) {
	in := corr.Hx(d)
	// ---- C03
	res.OracleChecked["C03"]++
	p, panicked := safeParse(d)
	if panicked {
		res.Violate("C03", in, "txtar.Parse panics", "parse-panic")
	} else {
		f := txtar.Format(p)
		p2, pk := safeParse(f)
		if pk {
			res.Violate("C03", in, "Parse(Format(Parse(x))) panics", "reparse-panic")
		} else if !equalArchive(p, p2) {
			class := "reparse-differs"
			if bytes.HasSuffix(d, []byte("\r")) {
				class = "reparse-differs-cr-at-eof"
			}
			res.Violate("C03", in, "Parse(Format(Parse(x))) != Parse(x): "+showArchive(p)+" vs "+showArchive(p2), class)
		}
		if !bytes.Contains(d, []byte("\r")) {
			r := xtxtar.Parse(d)
			if !equalArchive(p, r) {
				res.Violate("C03", in, "differs from x/tools reference on CR-free input: "+showArchive(p)+" vs "+showArchive(r), "ref-differs")
			}
		}
		// CRLF recognised like LF, on inputs where every CR is directly followed by LF.
		crOK := true
		for i, b := range d {
			if b == '\r' && (i+1 >= len(d) || d[i+1] != '\n') {
				crOK = false
			}
		}
		if crOK && bytes.Contains(d, []byte("\r")) {
			d2 := bytes.ReplaceAll(d, []byte("\r\n"), []byte("\n"))
			if q, pk := safeParse(d2); !pk {
				same := len(q.Files) == len(p.Files) && bytes.Equal(bytes.ReplaceAll(p.Comment, []byte("\r\n"), []byte("\n")), q.Comment)
				if same {
					for i := range q.Files {
						if q.Files[i].Name != p.Files[i].Name || !bytes.Equal(bytes.ReplaceAll(p.Files[i].Data, []byte("\r\n"), []byte("\n")), q.Files[i].Data) {
							same = false
						}
					}
				}
				if !same {
					res.Violate("C03", in, "CRLF marker lines not recognised like LF ones", "crlf-differs")
				}
			}
		}
	}
	// ---- C14
	res.OracleChecked["C14"]++
	_, nq, nqPanic := safeNeedsQuote(d)
	if nqPanic {
		res.Violate("C14", in, "txtar.NeedsQuote panics", "needsquote-panic")
	} else {
		a := &txtar.Archive{Files: []txtar.File{{Name: "f", Data: d}}}
		pp, pk := safeParse(txtar.Format(a))
		if !pk {
			safe := len(pp.Comment) == 0 && len(pp.Files) == 1 && pp.Files[0].Name == "f" && bytes.Equal(pp.Files[0].Data, goFixNL(d))
			if nq == safe {
				class := "needsquote-inexact"
				if !nq && !bytes.HasSuffix(d, []byte("\n")) {
					class = "needsquote-false-last-line-marker"
				}
				res.Violate("C14", in, fmt.Sprintf("NeedsQuote=%v but body-safe=%v", nq, safe), class)
			}
		}
	}
	// second reading of the statement, independent of the implementation's own Parse:
	// "... that is when the body contains a file marker line, whether or not the body ends in a newline".
	if !nqPanic && nq != hasMarkerLineIndep(d) {
		res.Violate("C14", in, fmt.Sprintf("NeedsQuote=%v but body has-marker-line=%v", nq, !nq), "needsquote-vs-marker-line")
	}
	q, qerr := txtar.Quote(append([]byte{}, d...))
	if qerr == nil {
		u, uerr := txtar.Unquote(append([]byte{}, q...))
		if uerr != nil || !bytes.Equal(u, d) {
			res.Violate("C14", in, "Unquote(Quote(d)) != d", "unquote-quote")
		}
		if _, v, pk := safeNeedsQuote(q); pk || v {
			res.Violate("C14", in, "Quote(d) needs quoting", "quoted-needs-quote")
		}
		a := &txtar.Archive{Files: []txtar.File{{Name: "f", Data: q}}}
		if pp, pk := safeParse(txtar.Format(a)); pk || len(pp.Files) != 1 || !bytes.Equal(pp.Files[0].Data, q) || pp.Files[0].Name != "f" || len(pp.Comment) != 0 {
			res.Violate("C14", in, "Quote(d) does not survive Format/Parse", "quoted-not-stable")
		}
	} else {
		// must only refuse unrepresentable data: no final newline or invalid UTF-8
		if (len(d) == 0 || d[len(d)-1] == '\n') && utf8.Valid(d) {
			res.Violate("C14", in, "Quote refuses representable data: "+qerr.Error(), "quote-refuses")
		}
	}
}

// ---- well-formed archives (format_parse_wf)

func encArchive(a *txtar.Archive) string { return showArchive(a) }

func wellFormedIndep(a *txtar.Archive) bool {
	okData := func(d []byte) bool {
		return (len(d) == 0 || d[len(d)-1] == '\n') && !hasMarkerLineIndep(d)
	}
	if !okData(a.Comment) {
		return false
	}
	for _, f := range a.Files {
		if f.Name == "" || strings.TrimSpace(f.Name) != f.Name || strings.Contains(f.Name, "\n") || !okData(f.Data) {
			return false
		}
	}
	return true
}

func wfImplLine(a *txtar.Archive) string {
	f := txtar.Format(a)
	p, pk := safeParse(f)
	if pk {
		return "F=" + corr.Hx(f) + " P=panic"
	}
	return "F=" + corr.Hx(f) + " P=" + showArchive(p)
}

var txtarAlpha6 = []byte{'-', ' ', '\n', '\r', 'a', '>'}
var txtarAlpha10 = []byte{'-', ' ', '\n', '\r', 'a', '>', '\t', 0xC2, 0x85, 0xA0}

func enumStrings(alpha []byte, maxLen int, f func([]byte)) {
	buf := make([]byte, 0, maxLen)
	var rec func()
	rec = func() {
		f(buf)
		if len(buf) == maxLen {
			return
		}
		for _, c := range alpha {
			buf = append(buf, c)
			rec()
			buf = buf[:len(buf)-1]
		}
	}
	rec()
}

var txtarPieces = []string{"-- ", " --", "--", "-", " ", "\n", "\r\n", "\r", "a", "b c", ">", "\t", "\u0085", " ", " ", "ü", "\xff", "\xc2", "-- a --\n", "-- b --\r\n", "-- --\n", "--  --\n", "-- a --", "x\n", ">-- a --\n", "\n-- ", "--   --\n", "--  x  --\n"}

func randTxtarBytes(r *rand.Rand) []byte {
	var b []byte
	n := r.Intn(12)
	for i := 0; i < n; i++ {
		b = append(b, txtarPieces[r.Intn(len(txtarPieces))]...)
	}
	if r.Intn(4) == 0 && len(b) > 0 { // single byte corruption
		b[r.Intn(len(b))] = byte(r.Intn(256))
	}
	return b
}

var txtarNames = []string{"a", "b c", "a/b.txt", "ü", "x --", "-- y", "a\rb", " ", " a", "a ", "", "a\nb", "-", "--", "a ", "\xffz"}
var txtarBodies = []string{"", "x\n", "x", "-- a --\n", "x\n-- a --\n", "-- a --", ">-- a --\n", "-- a --\r\n", "--  --\n", "-- --\n", "a\r\n", "\r", "-- a --\r", "line\n\n", "\xff\n", "--   --\n", " -- a --\n", "-- a -- \n", "--a --\n"}

func randArchive(r *rand.Rand, wfBias bool) *txtar.Archive {
	a := &txtar.Archive{}
	pick := func(s []string, wfN int) string {
		if wfBias {
			return s[r.Intn(wfN)]
		}
		return s[r.Intn(len(s))]
	}
	if wfBias {
		a.Comment = []byte([]string{"", "c\n", "x\ny\n", " -- a --\n", "--a --\n"}[r.Intn(5)])
	} else {
		a.Comment = []byte(pick(txtarBodies, 2))
	}
	n := r.Intn(5)
	for i := 0; i < n; i++ {
		name := pick(txtarNames, 8)
		body := pick(txtarBodies, 2)
		if wfBias && r.Intn(3) == 0 {
			body = []string{"line\n\n", " -- a --\n", "-- a -- \n", "--a --\n", "--  --\n", "a\r\n", ">-- a --\n"}[r.Intn(7)]
		}
		a.Files = append(a.Files, txtar.File{Name: name, Data: []byte(body)})
	}
	return a
}

func runTxtar(tier string, seed int64, model string, replay string) *corr.Result {
	res := corr.NewResult("txtar", tier, seed)
	r := rand.New(rand.NewSource(seed))

	var inputs [][]byte
	seen := map[string]bool{}
	add := func(b []byte) {
		if !seen[string(b)] {
			seen[string(b)] = true
			inputs = append(inputs, append([]byte{}, b...))
		}
	}
	if replay != "" {
		add(corr.Unhx(replay))
	} else {
		// corpus first: witnesses of past findings
		for _, s := range []string{"-- --", "-- a --\r", "-- x --", "a\n-- x --", "-- --\n", "x\n-- --", "-- a --\r\n", "-- a --\r\r\n", "--  --\n", "--   --\n"} {
			add([]byte(s))
		}
		// long lines around buffer-size boundaries (4 KiB, 64 KiB: bufio defaults and limits), before / after / as part of marker lines
		for _, n := range []int{4095, 4096, 4097, 65535, 65536, 65537, 70000} {
			long := bytes.Repeat([]byte("x"), n)
			for _, tail := range []string{"\n-- a --\nbody\n", "\n-- a --", "\r\n-- a --\r\n", "\n", ""} {
				add(append(append([]byte{}, long...), tail...))
				add(append(append([]byte("-- f --\n"), long...), tail...))
			}
			add(append(append([]byte("-- "), long...), " --\ndata\n"...))
			add(append(append(append([]byte("-- a --\n"), long...), "\n-- "...), append(long, " --\n"...)...))
		}
		l6, l10 := 7, 5
		nrand := 20000
		if tier == "thorough" {
			l6, l10, nrand = 8, 6, 400000
		}
		enumStrings(txtarAlpha6, l6, add)
		enumStrings(txtarAlpha10, l10, add)
		res.Exhaustive = true
		res.Extra["exhaustive_spaces"] = []string{fmt.Sprintf("all strings over %q up to length %d", txtarAlpha6, l6), fmt.Sprintf("all strings over %q up to length %d", txtarAlpha10, l10)}
		for i := 0; i < nrand; i++ {
			if i%2 == 0 {
				add(randTxtarBytes(r))
			} else {
				add(txtar.Format(randArchive(r, i%4 == 1)))
			}
		}
	}
	cases := make([]string, len(inputs))
	for i, d := range inputs {
		cases[i] = "all " + corr.Hx(d)
	}
	// well-formed / arbitrary archives through Format then Parse
	var archives []*txtar.Archive
	if replay == "" {
		n := 5000
		if tier == "thorough" {
			n = 100000
		}
		for i := 0; i < n; i++ {
			archives = append(archives, randArchive(r, i%3 != 0))
		}
	}
	for _, a := range archives {
		cases = append(cases, "wf "+encArchive(a))
	}

	modelOut, err := mdl.Run(model, nil, cases, 0)
	if err != nil {
		res.Observations = append(res.Observations, "model driver error: "+err.Error())
		res.Disagree("<driver>", "", err.Error())
		return res
	}
	nontrivial := 0
	for i, d := range inputs {
		impl := txtarImplLine(d)
		if impl != modelOut[i] {
			// P F PFP R T are C03's observables, NQ Q U are C14's
			var props []string
			fi, fm := strings.Fields(impl), strings.Fields(modelOut[i])
			c03, c14 := len(fi) != len(fm), len(fi) != len(fm)
			for k := 0; k < len(fi) && k < len(fm); k++ {
				if fi[k] != fm[k] {
					if strings.HasPrefix(fi[k], "NQ=") || strings.HasPrefix(fi[k], "Q=") || strings.HasPrefix(fi[k], "U=") {
						c14 = true
					} else {
						c03 = true
					}
				}
			}
			if c03 {
				props = append(props, "C03")
			}
			if c14 {
				props = append(props, "C14")
			}
			res.DisagreeFor(props, cases[i], impl, modelOut[i])
		}
		txtarOracle(res, d)
		if bytes.HasPrefix(d, []byte("-- ")) || bytes.Contains(d, []byte("\n-- ")) {
			nontrivial++
			res.Distribution["has-marker-prefix-at-line-start"]++
		}
		if p, pk := safeParse(d); !pk {
			res.Distribution[fmt.Sprintf("files=%d", min(len(p.Files), 4))]++
		} else {
			res.Distribution["parse-panic"]++
		}
		if bytes.Contains(d, []byte("\r")) {
			res.Distribution["has-CR"]++
		}
		res.Distribution[fmt.Sprintf("len=%d", min(len(d), 9))]++
	}
	wf := 0
	for j, a := range archives {
		i := len(inputs) + j
		impl := wfImplLine(a)
		if impl != modelOut[i] {
			res.DisagreeFor([]string{"C03"}, cases[i], impl, modelOut[i])
		}
		if wellFormedIndep(a) {
			wf++
			res.OracleChecked["C03"]++
			p, pk := safeParse(txtar.Format(a))
			norm := &txtar.Archive{Comment: a.Comment, Files: a.Files}
			if pk || !equalArchive(p, norm) {
				res.Violate("C03", "wf "+encArchive(a), "Parse(Format(a)) != a for well-formed a", "format-parse-wf")
			}
		}
	}
	res.Distribution["archives-wellformed"] = wf
	res.Distribution["archives-total"] = len(archives)
	res.Evaluations = len(cases)
	res.DistinctNontrivial = nontrivial + wf
	res.Rule = "distinct byte strings (exhaustive enumeration + deduplicated random) that have the marker prefix '-- ' at a line start, plus generated archives satisfying the statement's well-formedness predicate; each case is run through Parse, Format∘Parse, Parse∘Format∘Parse, NeedsQuote, Quote, Unquote, x/tools Parse and TrimSpace on implementation and Lean model and the result lines compared"
	for _, i := range []int{0, 1, len(inputs) / 2, len(inputs) - 1, len(cases) - 1} {
		if i >= 0 && i < len(cases) {
			res.Samples = append(res.Samples, map[string]string{"case": cases[i], "model": modelOut[i]})
		}
	}
	return res
}
