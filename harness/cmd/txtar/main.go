// txtar group binary: `txtar factgen ...` and `txtar corr ...` (properties C03, C14).
package main

import (
	"fmt"
	"os"

	"verif/harness/internal/corr"
	"verif/harness/internal/fact"
)

func main() {
	if len(os.Args) < 2 {
		fmt.Fprintln(os.Stderr, "usage: txtar factgen|corr [flags]")
		os.Exit(2)
	}
	switch os.Args[1] {
	case "factgen":
		fact.Main(os.Args[2:], "txtar", "Txtar", genTxtar)
	case "corr":
		corr.Main(os.Args[2:], runTxtar)
	default:
		fmt.Fprintln(os.Stderr, "usage: txtar factgen|corr [flags]")
		os.Exit(2)
	}
}
