package main

import (
	"go/ast"
	"os"
	"path/filepath"
	"strings"

	"verif/harness/internal/fact"
)

// translated functions of txtar/archive.go, callees first
var txtarGoFuncs = []string{"isMarker", "fixNL", "findFileMarker", "Parse", "NeedsQuote", "Quote", "Unquote"}

func pinnedDir() string {
	root := os.Getenv("VERIF_ROOT")
	if root == "" {
		root = "/verif"
	}
	return filepath.Join(root, "harness", "pinned")
}

func genTxtar(g *fact.Gen) {
	const rel = "txtar/archive.go"
	g.TranslateModule("TxtarGo", rel, txtarGoFuncs, "txtar",
		[]string{"GIV.GoLib", "GIV.Model.Txtar", "GIV.Gen.Txtar"}, "GIV.Go.Txtar", filepath.Join(pinnedDir(), "TxtarGo.lean"))
	g.EmitBytesVar(rel, "marker", "marker", "-- ")
	g.EmitBytesVar(rel, "markerEnd", "markerEnd", " --")
	g.EmitBytesVar(rel, "newlineMarker", "newlineMarker", "\n-- ")

	isMarker := g.FuncDecl(rel, "isMarker")
	g.EmitBool("lenGuard", "isMarker guards the name slice with `len(data) >= len(marker)+len(markerEnd)` before slicing.", true, func() (bool, bool, string) {
		if isMarker == nil {
			return false, false, "func isMarker not found"
		}
		s := g.Src(isMarker.Body)
		if !strings.Contains(s, "data[len(marker):len(data)-len(markerEnd)]") {
			return false, false, "name slice expression not found"
		}
		guard := strings.Contains(s, "len(data)>=len(marker)+len(markerEnd)") || strings.Contains(s, "len(data)<len(marker)+len(markerEnd)")
		return guard, true, ""
	})
	g.EmitBool("crAtEOF", "isMarker strips a trailing '\\\\r' from the marker line also when the line has no final newline (true), or only inside the newline branch (false).", true, func() (bool, bool, string) {
		if isMarker == nil {
			return false, false, "func isMarker not found"
		}
		// locate the `if i := bytes.IndexByte(data, '\n'); i >= 0 { ... }` statement
		var nlIf *ast.IfStmt
		for _, st := range isMarker.Body.List {
			if is, ok := st.(*ast.IfStmt); ok && strings.Contains(g.Src(is.Init), "bytes.IndexByte(data,'\\n')") {
				nlIf = is
			}
		}
		if nlIf == nil {
			return false, false, "newline branch not found"
		}
		inside := strings.Contains(g.Src(nlIf.Body), "'\\r'") || strings.Contains(g.Src(nlIf.Body), `"\r"`)
		outside := false
		for _, st := range isMarker.Body.List {
			if st == ast.Stmt(nlIf) {
				continue
			}
			s := g.Src(st)
			if strings.Contains(s, "'\\r'") || strings.Contains(s, `"\r"`) {
				outside = true
			}
		}
		switch {
		case inside && !outside:
			return false, true, ""
		case outside && !inside:
			return true, true, ""
		}
		return false, false, "carriage-return handling has an unrecognised shape"
	})
	g.EmitBool("needsQuoteTestsName", "NeedsQuote returns `name != \"\"` (true) or `after != nil` (false).", true, func() (bool, bool, string) {
		fd := g.FuncDecl(rel, "NeedsQuote")
		if fd == nil {
			return false, false, "func NeedsQuote not found"
		}
		s := g.Src(fd.Body)
		switch {
		case strings.Contains(s, "findFileMarker(data)") && strings.Contains(s, `returnname!=""`):
			return true, true, ""
		case strings.Contains(s, "findFileMarker(data)") && strings.Contains(s, "returnafter!=nil"):
			return false, true, ""
		}
		return false, false, "return expression has an unrecognised shape"
	})
}
