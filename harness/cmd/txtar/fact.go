package main

import (
	"go/ast"
	"os"
	"os/exec"
	"path/filepath"
	"regexp"
	"strings"

	"verif/harness/internal/fact"
)

// translated functions of txtar/archive.go, callees first
var txtarGoFuncs = []string{"isMarker", "fixNL", "findFileMarker", "Parse", "NeedsQuote", "Quote", "Unquote"}

func pinnedDir() string {
	root := os.Getenv("VERIF_ROOT")
	if root == "" {
		root = "/verif"
	}
	return filepath.Join(root, "harness", "pinned")
}

// translated functions of golang.org/x/tools/txtar/archive.go (the REFERENCE definition of the format), callees first
var xtxtarGoFuncs = []string{"isMarker", "fixNL", "findFileMarker", "Parse", "Format"}

// xtoolsFile locates a source file of golang.org/x/tools in the version /repo's go.mod requires (the library
// /repo's txtar.Format calls and whose Parse is the reference of property C03; this harness is built against
// the same version through its `replace … => /repo`): `go list -m` run in /repo, else GOMODCACHE + the version
// read from /repo/go.mod.  When neither works the (non-existent) path returned makes TranslateModule write the
// pinned copy and report the anchor lost.
func xtoolsFile(repo string, rel ...string) string {
	env := append(os.Environ(), "GOFLAGS=-mod=mod", "GOPROXY=off", "GOSUMDB=off", "GOTOOLCHAIN=local")
	cmd := exec.Command("go", "list", "-m", "-f", "{{.Dir}}", "golang.org/x/tools")
	cmd.Dir, cmd.Env = repo, env
	if out, err := cmd.Output(); err == nil {
		if dir := strings.TrimSpace(string(out)); dir != "" {
			if _, err := os.Stat(dir); err == nil {
				return filepath.Join(append([]string{dir}, rel...)...)
			}
		}
	}
	ver := ""
	if data, err := os.ReadFile(filepath.Join(repo, "go.mod")); err == nil {
		if m := regexp.MustCompile(`(?m)^\s*(?:require\s+)?golang\.org/x/tools\s+(v\S+)`).FindSubmatch(data); m != nil {
			ver = string(m[1])
		}
	}
	cache := ""
	if out, err := exec.Command("go", "env", "GOMODCACHE").Output(); err == nil {
		cache = strings.TrimSpace(string(out))
	}
	if ver == "" || cache == "" {
		return filepath.Join(append([]string{string(filepath.Separator) + "golang.org-x-tools-not-found"}, rel...)...)
	}
	return filepath.Join(append([]string{cache, "golang.org", "x", "tools@" + ver}, rel...)...)
}

func genTxtar(g *fact.Gen) {
	const rel = "txtar/archive.go"
	g.TranslateModule("TxtarGo", rel, txtarGoFuncs, "txtar",
		[]string{"GIV.GoLib", "GIV.Model.Txtar", "GIV.Gen.Txtar"}, "GIV.Go.Txtar", filepath.Join(pinnedDir(), "TxtarGo.lean"))
	// golang.org/x/tools/txtar (Format, and the reference Parse with its findFileMarker / isMarker / fixNL), translated
	// from the LIBRARY SOURCE in the module cache, in the version /repo's go.mod requires; GIV.Lemmas.XTxtarGo proves the
	// translation equal to the model's `format` and `refParseIdx` (hence `refParse`) for every archive / byte string
	g.TranslateModule("XTxtarGo", xtoolsFile(g.Repo, "txtar", "archive.go"), xtxtarGoFuncs, "xtxtar",
		[]string{"GIV.GoLib", "GIV.Model.Txtar"}, "GIV.Go.XTxtar", filepath.Join(pinnedDir(), "XTxtarGo.lean"))
	g.EmitBytesVar(rel, "marker", "marker", "-- ")
	g.EmitBytesVar(rel, "markerEnd", "markerEnd", " --")
	g.EmitBytesVar(rel, "newlineMarker", "newlineMarker", "\n-- ")

	isMarker := g.FuncDecl(rel, "isMarker")
	g.EmitBool("lenGuard", "isMarker guards the name slice with `len(data) >= len(marker)+len(markerEnd)` before slicing.", true, func() (bool, bool, string) {
		if isMarker == nil {
			return false, false, "func isMarker not found"
		}
		s := g.Src(isMarker.Body)
		if !strings.Contains(s, "data[len(marker):len(data)-len(markerEnd)]") {
			return false, false, "name slice expression not found"
		}
		guard := strings.Contains(s, "len(data)>=len(marker)+len(markerEnd)") || strings.Contains(s, "len(data)<len(marker)+len(markerEnd)")
		return guard, true, ""
	})
	g.EmitBool("crAtEOF", "isMarker strips a trailing '\\\\r' from the marker line also when the line has no final newline (true), or only inside the newline branch (false).", true, func() (bool, bool, string) {
		if isMarker == nil {
			return false, false, "func isMarker not found"
		}
		// locate the `if i := bytes.IndexByte(data, '\n'); i >= 0 { ... }` statement
		var nlIf *ast.IfStmt
		for _, st := range isMarker.Body.List {
			if is, ok := st.(*ast.IfStmt); ok && strings.Contains(g.Src(is.Init), "bytes.IndexByte(data,'\\n')") {
				nlIf = is
			}
		}
		if nlIf == nil {
			return false, false, "newline branch not found"
		}
		inside := strings.Contains(g.Src(nlIf.Body), "'\\r'") || strings.Contains(g.Src(nlIf.Body), `"\r"`)
		outside := false
		for _, st := range isMarker.Body.List {
			if st == ast.Stmt(nlIf) {
				continue
			}
			s := g.Src(st)
			if strings.Contains(s, "'\\r'") || strings.Contains(s, `"\r"`) {
				outside = true
			}
		}
		switch {
		case inside && !outside:
			return false, true, ""
		case outside && !inside:
			return true, true, ""
		}
		return false, false, "carriage-return handling has an unrecognised shape"
	})
	g.EmitBool("needsQuoteTestsName", "NeedsQuote returns `name != \"\"` (true) or `after != nil` (false).", true, func() (bool, bool, string) {
		fd := g.FuncDecl(rel, "NeedsQuote")
		if fd == nil {
			return false, false, "func NeedsQuote not found"
		}
		s := g.Src(fd.Body)
		switch {
		case strings.Contains(s, "findFileMarker(data)") && strings.Contains(s, `returnname!=""`):
			return true, true, ""
		case strings.Contains(s, "findFileMarker(data)") && strings.Contains(s, "returnafter!=nil"):
			return false, true, ""
		}
		return false, false, "return expression has an unrecognised shape"
	})
}
