// script group binary: `script factgen ...` and `script corr ...` (property C02).
//
// The binary is also its own helper program: `script __envdump` prints os.Environ(), one
// hex-encoded entry per line; test scripts run it with `exec` to observe the child environment.
package main

import (
	"encoding/hex"
	"fmt"
	"os"

	"verif/harness/internal/corr"
	"verif/harness/internal/fact"
)

const envDumpArg = "__envdump"

func main() {
	if len(os.Args) >= 2 && os.Args[1] == envDumpArg {
		for _, kv := range os.Environ() {
			if kv == "" {
				fmt.Println("-")
			} else {
				fmt.Println(hex.EncodeToString([]byte(kv)))
			}
		}
		return
	}
	if len(os.Args) < 2 {
		fmt.Fprintln(os.Stderr, "usage: script factgen|corr [flags]")
		os.Exit(2)
	}
	switch os.Args[1] {
	case "factgen":
		fact.Main(os.Args[2:], "script", "Script", genScript)
	case "corr":
		corr.Main(os.Args[2:], runScript)
	default:
		fmt.Fprintln(os.Stderr, "usage: script factgen|corr [flags]")
		os.Exit(2)
	}
}
