// script group binary: `script factgen ...` and `script corr ...` (property C02).
//
// The binary is also its own helper program: `script __envdump` prints its environment strings (/proc/self/environ, else os.Environ()), one
// hex-encoded entry per line; test scripts run it with `exec` to observe the child environment.
package main

import (
	"encoding/hex"
	"fmt"
	"os"
	"strings"

	"verif/harness/internal/corr"
	"verif/harness/internal/fact"
)

const envDumpArg = "__envdump"

func main() {
	if len(os.Args) >= 2 && os.Args[1] == envDumpArg {
		// the strings exactly as handed over by execve: the Go runtime's os.Environ() drops
		// later entries whose text before the first '=' repeats (syscall.copyenv)
		entries := os.Environ()
		if raw, err := os.ReadFile("/proc/self/environ"); err == nil {
			entries = strings.Split(strings.TrimSuffix(string(raw), "\x00"), "\x00")
			if len(raw) == 0 {
				entries = nil
			}
		}
		for _, kv := range entries {
			if kv == "" {
				fmt.Println("-")
			} else {
				fmt.Println(hex.EncodeToString([]byte(kv)))
			}
		}
		return
	}
	if len(os.Args) < 2 {
		fmt.Fprintln(os.Stderr, "usage: script factgen|corr [flags]")
		os.Exit(2)
	}
	switch os.Args[1] {
	case "factgen":
		fact.Main(os.Args[2:], "script", "Script", genScript)
	case "corr":
		corr.Main(os.Args[2:], runScript)
	default:
		fmt.Fprintln(os.Stderr, "usage: script factgen|corr [flags]")
		os.Exit(2)
	}
}
