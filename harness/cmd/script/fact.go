package main

import (
	"go/ast"
	"go/parser"
	"go/token"
	"os"
	"os/exec"
	"path/filepath"
	"runtime"
	"strconv"
	"strings"

	"verif/harness/internal/fact"
)

// ---- small AST helpers

// charLit returns the byte of a character literal expression.
func charLit(e ast.Expr) (byte, bool) {
	bl, ok := e.(*ast.BasicLit)
	if !ok || bl.Kind != token.CHAR {
		return 0, false
	}
	s, err := strconv.Unquote(bl.Value)
	if err != nil || len(s) != 1 {
		return 0, false
	}
	return s[0], true
}

// orOperands flattens a || b || c (through parentheses).
func orOperands(e ast.Expr) []ast.Expr {
	switch v := e.(type) {
	case *ast.ParenExpr:
		return orOperands(v.X)
	case *ast.BinaryExpr:
		if v.Op == token.LOR {
			return append(orOperands(v.X), orOperands(v.Y)...)
		}
	}
	return []ast.Expr{e}
}

// lineCharTests returns the bytes c of all operands of the form `line[i] == 'c'`, and whether every
// operand was either of that form or `i >= len(line)`.
func lineCharTests(g *fact.Gen, e ast.Expr) (chars []byte, clean bool) {
	clean = true
	for _, op := range orOperands(e) {
		if g.Src(op) == "i>=len(line)" {
			continue
		}
		be, ok := op.(*ast.BinaryExpr)
		if ok && be.Op == token.EQL && g.Src(be.X) == "line[i]" {
			if c, ok := charLit(be.Y); ok {
				chars = append(chars, c)
				continue
			}
		}
		clean = false
	}
	return
}

func hasBreak(b *ast.BlockStmt) bool {
	for _, st := range b.List {
		if br, ok := st.(*ast.BranchStmt); ok && br.Tok == token.BREAK {
			return true
		}
	}
	return false
}

func leanU8List(b []byte) string {
	parts := make([]string, len(b))
	for i, c := range b {
		parts[i] = strconv.Itoa(int(c))
	}
	return "[" + strings.Join(parts, ", ") + "]"
}

func goroot() string {
	if out, err := exec.Command("go", "env", "GOROOT").Output(); err == nil && strings.TrimSpace(string(out)) != "" {
		return strings.TrimSpace(string(out))
	}
	return runtime.GOROOT()
}

func parseStd(g *fact.Gen, rel string) *ast.File {
	f, err := parser.ParseFile(g.Fset, filepath.Join(goroot(), "src", rel), nil, 0)
	if err != nil {
		return nil
	}
	return f
}

func stdFunc(f *ast.File, name string) *ast.FuncDecl {
	if f == nil {
		return nil
	}
	for _, d := range f.Decls {
		if fd, ok := d.(*ast.FuncDecl); ok && fd.Name.Name == name && fd.Recv == nil {
			return fd
		}
	}
	return nil
}

func pinnedDir() string {
	root := os.Getenv("VERIF_ROOT")
	if root == "" {
		root = "/verif"
	}
	return filepath.Join(root, "harness", "pinned")
}

func genScript(g *fact.Gen) {
	const ts = "testscript/testscript.go"
	const cmdgo = "testscript/cmd.go"
	// the tokenizer itself, translated statement by statement (harness/internal/go2lean)
	g.TranslateModule("ScriptGo", ts, []string{"TestScript.expand/func1", "TestScript.parse"}, "script",
		[]string{"GIV.GoLib", "GIV.Model.ScriptParse"}, "GIV.Go.Script", filepath.Join(pinnedDir(), "ScriptGo.lean"))
	// os.Expand and its helpers, translated from the STANDARD LIBRARY SOURCE of the toolchain this binary is
	// built with (an absolute path: the file is outside /repo); GIV.Lemmas.OsExpandGo proves the translation
	// equal to the model's osExpand for every string and every mapping
	g.TranslateModule("OsExpandGo", filepath.Join(goroot(), "src", "os", "env.go"),
		[]string{"isShellSpecialVar", "isAlphaNum", "getShellName", "Expand"}, "os",
		[]string{"GIV.GoLib", "GIV.GoLibNil"}, "GIV.Go.Os", filepath.Join(pinnedDir(), "OsExpandGo.lean"))

	emitU8List := func(name, doc string, pinned []byte, v []byte, ok bool, why string) {
		if !ok {
			v = pinned
			g.Lost(name, why)
		} else {
			g.Found(name, strconv.Quote(string(v)))
		}
		g.Emit("/-- %s -/\ndef %s : List UInt8 := %s\n", doc, name, leanU8List(v))
	}
	emitBytes := func(name, doc string, pinned string, v string, ok bool, why string) {
		if !ok {
			v = pinned
			g.Lost(name, why)
		} else {
			g.Found(name, strconv.Quote(v))
		}
		g.Emit("/-- %s -/\ndef %s : GIV.Bytes := %s\n", doc, name, fact.LeanBytes(v))
	}

	// ------------------------------------------------------------------ the tokenizer
	parse := g.Method(ts, "TestScript", "parse")
	var loop *ast.ForStmt
	if parse != nil {
		for _, st := range parse.Body.List {
			if fs, ok := st.(*ast.ForStmt); ok {
				loop = fs
			}
		}
	}
	var sepIf, eolIf, quoteIf *ast.IfStmt
	var sepChars, breakChars []byte
	sepOK, sepWhy := false, "loop of parse not found"
	if loop != nil {
		sepWhy = "separator test `!quoted && (...)` not found as first statement of the loop"
		for _, st := range loop.Body.List {
			is, ok := st.(*ast.IfStmt)
			if !ok {
				continue
			}
			cond := g.Src(is.Cond)
			switch {
			case sepIf == nil && strings.HasPrefix(cond, "!quoted&&("):
				if be, ok := is.Cond.(*ast.BinaryExpr); ok && be.Op == token.LAND && g.Src(be.X) == "!quoted" {
					chars, clean := lineCharTests(g, be.Y)
					if clean && strings.Contains(cond, "i>=len(line)") {
						sepIf, sepChars = is, chars
					}
				}
			case cond == "i>=len(line)":
				eolIf = is
			case strings.HasPrefix(cond, "line[i]==") && quoteIf == nil:
				quoteIf = is
			}
		}
		if sepIf != nil {
			sepWhy = "inner `if i >= len(line) || line[i] == c { break }` not found"
			for _, st := range sepIf.Body.List {
				if is, ok := st.(*ast.IfStmt); ok && hasBreak(is.Body) {
					chars, clean := lineCharTests(g, is.Cond)
					if clean && strings.Contains(g.Src(is.Cond), "i>=len(line)") {
						breakChars = chars
						sepOK = true
					}
				}
			}
		}
	}
	var blanks []byte
	for _, c := range sepChars {
		if !strings.ContainsRune(string(breakChars), rune(c)) {
			blanks = append(blanks, c)
		}
	}
	for _, c := range breakChars { // a break byte must also be a separator byte
		if !strings.ContainsRune(string(sepChars), rune(c)) {
			sepOK, sepWhy = false, "break byte is not among the separator bytes"
		}
	}
	emitU8List("blanks", "bytes that separate arguments outside quotes: the `line[i] == c` alternatives of the `!quoted && (...)` test of the loop in (*TestScript).parse that do not also `break`.", []byte(" \t\r"), blanks, sepOK, sepWhy)
	emitU8List("commentChars", "bytes that end the line outside quotes: the `line[i] == c` alternatives of the inner `break` test.", []byte("#"), breakChars, sepOK, sepWhy)

	// quote byte
	q, qOK := byte('\''), false
	if quoteIf != nil {
		if be, ok := quoteIf.Cond.(*ast.BinaryExpr); ok && be.Op == token.EQL && g.Src(be.X) == "line[i]" {
			if c, ok := charLit(be.Y); ok && strings.Contains(g.Src(quoteIf.Body), "quoted=true") && strings.Contains(g.Src(quoteIf.Body), "quoted=false") {
				q, qOK = c, true
			}
		}
	}
	if qOK {
		g.Found("quoteChar", strconv.QuoteRune(rune(q)))
	} else {
		g.Lost("quoteChar", "`if line[i] == c {` block toggling `quoted` not found")
	}
	g.Emit("/-- the quote byte: `if line[i] == c {` of the block that toggles `quoted`. -/\ndef quoteChar : UInt8 := %d\n", q)
	qlit := strconv.QuoteRune(rune(q))

	// inside the quote block: `if !quoted {...}` , the doubled-quote if, and the closing statements
	var openIf, dblIf *ast.IfStmt
	var closing []ast.Stmt
	if quoteIf != nil {
		for _, st := range quoteIf.Body.List {
			if is, ok := st.(*ast.IfStmt); ok {
				switch {
				case g.Src(is.Cond) == "!quoted":
					openIf = is
					continue
				case g.Src(is.Cond) == "i+1<len(line)&&line[i+1]=="+qlit:
					dblIf = is
					continue
				}
			}
			closing = append(closing, st)
		}
	}
	g.EmitBool("doubledQuoteRule", "inside quotes a quote directly followed by a quote (`i+1 < len(line) && line[i+1] == quote`) appends the chunk, restarts the chunk at the second quote (`start = i + 1`) and skips it (`i++`).", true, func() (bool, bool, string) {
		if quoteIf == nil || openIf == nil {
			return false, false, "quote block not found"
		}
		if dblIf == nil {
			// rule absent only if nothing else in the block looks ahead
			if strings.Contains(g.Src(quoteIf.Body), "line[i+1]") {
				return false, false, "look-ahead at line[i+1] has an unrecognised shape"
			}
			return false, true, ""
		}
		b := g.Src(dblIf.Body)
		if strings.Contains(b, "start=i+1") && strings.Contains(b, "i++") && strings.HasSuffix(b, "continue}") {
			return true, true, ""
		}
		return false, false, "body of the doubled-quote test has an unrecognised shape"
	})
	g.EmitBool("unterminatedIsFatal", "reaching the end of the line inside quotes (`if i >= len(line)` after the separator test) calls ts.Fatalf.", true, func() (bool, bool, string) {
		if loop == nil {
			return false, false, "loop of parse not found"
		}
		if eolIf == nil {
			return false, true, ""
		}
		if strings.Contains(g.Src(eolIf.Body), "ts.Fatalf(") {
			return true, true, ""
		}
		return false, false, "end-of-line test does not call ts.Fatalf"
	})
	const rawAdd, expAdd = "arg+=line[start:i]", "arg+=ts.expand(line[start:i])"
	classify := func(srcs []string) (expands bool, ok bool) {
		nRaw, nExp := 0, 0
		for _, s := range srcs {
			nRaw += strings.Count(s, rawAdd)
			nExp += strings.Count(s, expAdd)
		}
		switch {
		case nExp > 0 && nRaw == 0:
			return true, true
		case nRaw > 0 && nExp == 0:
			return false, true
		}
		return false, false
	}
	g.EmitBool("expandsUnquotedChunks", "chunks outside quotes are appended as `arg += ts.expand(line[start:i])` (at a separator and when a quote opens).", true, func() (bool, bool, string) {
		if sepIf == nil || openIf == nil {
			return false, false, "separator block or `if !quoted` block not found"
		}
		a, ok1 := classify([]string{g.Src(sepIf.Body)})
		b, ok2 := classify([]string{g.Src(openIf.Body)})
		if !ok1 || !ok2 || a != b {
			return false, false, "unquoted chunks are not uniformly expanded / not expanded"
		}
		return a, true, ""
	})
	g.EmitBool("expandsQuotedChunks", "chunks inside quotes are appended as `ts.expand(...)` (false: appended raw as `arg += line[start:i]`).", false, func() (bool, bool, string) {
		if quoteIf == nil || openIf == nil {
			return false, false, "quote block not found"
		}
		var srcs []string
		if dblIf != nil {
			srcs = append(srcs, g.Src(dblIf.Body))
		}
		for _, st := range closing {
			srcs = append(srcs, g.Src(st))
		}
		v, ok := classify(srcs)
		if !ok {
			return false, false, "quoted chunks are not uniformly raw / expanded"
		}
		return v, true, ""
	})

	// ------------------------------------------------------------------ expand
	expand := g.Method(ts, "TestScript", "expand")
	expSrc := ""
	if expand != nil {
		expSrc = g.Src(expand.Body)
	}
	g.EmitBool("expandIsOsExpand", "(*TestScript).expand is `return os.Expand(s, func(key string) string {...})`.", true, func() (bool, bool, string) {
		if expand == nil {
			return false, false, "method expand not found"
		}
		if strings.HasPrefix(expSrc, "{returnos.Expand(s,func(keystring)string{") {
			return true, true, ""
		}
		return false, false, "expand is not a single os.Expand call"
	})
	suffix, sufOK := "@R", false
	if expand != nil {
		ast.Inspect(expand.Body, func(n ast.Node) bool {
			if ce, ok := n.(*ast.CallExpr); ok && g.Src(ce.Fun) == "strings.TrimSuffix" && len(ce.Args) == 2 && g.Src(ce.Args[0]) == "key" {
				if s, ok := fact.StringLit(ce.Args[1]); ok {
					suffix, sufOK = s, true
				}
			}
			return true
		})
		if !strings.Contains(expSrc, "ifkey1:=strings.TrimSuffix(key,"+strconv.Quote(suffix)+");len(key1)!=len(key){") {
			sufOK = false
		}
	}
	emitBytes("atRSuffix", "the suffix of `if key1 := strings.TrimSuffix(key, suffix); len(key1) != len(key)` in the mapping function of expand.", "@R", suffix, sufOK, "TrimSuffix test not found in expand")
	g.EmitBool("atRQuotesMeta", "with the suffix present the mapping returns `regexp.QuoteMeta(ts.Getenv(key1))`.", true, func() (bool, bool, string) {
		if !sufOK {
			return false, false, "TrimSuffix test not found"
		}
		if strings.Contains(expSrc, "len(key1)!=len(key){returnregexp.QuoteMeta(ts.Getenv(key1))}") {
			return true, true, ""
		}
		if strings.Contains(expSrc, "len(key1)!=len(key){returnts.Getenv(key1)}") {
			return false, true, ""
		}
		return false, false, "suffix branch has an unrecognised shape"
	})
	g.EmitBool("expandUsesGetenv", "without the suffix the mapping returns `ts.Getenv(key)`.", true, func() (bool, bool, string) {
		if expand == nil {
			return false, false, "method expand not found"
		}
		if strings.HasSuffix(expSrc, "returnts.Getenv(key)})}") {
			return true, true, ""
		}
		return false, false, "final return of the mapping has an unrecognised shape"
	})

	// ------------------------------------------------------------------ Getenv / Setenv / setup / cmdEnv / exec
	bodySrc := func(rel, recv, name string) (string, bool) {
		fd := g.Method(rel, recv, name)
		if fd == nil {
			return "", false
		}
		return g.Src(fd.Body), true
	}
	g.EmitBool("getenvReadsEnvMap", "(*TestScript).Getenv is `return ts.envMap[envvarname(key)]`.", true, func() (bool, bool, string) {
		s, ok := bodySrc(ts, "TestScript", "Getenv")
		if !ok {
			return false, false, "method Getenv not found"
		}
		if s == "{returnts.envMap[envvarname(key)]}" {
			return true, true, ""
		}
		return false, false, "Getenv has an unrecognised shape"
	})
	setenvSrc, setenvFound := bodySrc(ts, "TestScript", "Setenv")
	g.EmitBool("setenvAppendsList", "(*TestScript).Setenv does `ts.env = append(ts.env, key+\"=\"+value)`.", true, func() (bool, bool, string) {
		if !setenvFound {
			return false, false, "method Setenv not found"
		}
		if strings.Contains(setenvSrc, `ts.env=append(ts.env,key+"="+value)`) {
			return true, true, ""
		}
		if !strings.Contains(setenvSrc, "ts.env=") && !strings.Contains(setenvSrc, "ts.env[") {
			return false, true, ""
		}
		return false, false, "Setenv updates ts.env in an unrecognised way"
	})
	g.EmitBool("setenvUpdatesMap", "(*TestScript).Setenv does `ts.envMap[envvarname(key)] = value`.", true, func() (bool, bool, string) {
		if !setenvFound {
			return false, false, "method Setenv not found"
		}
		if strings.Contains(setenvSrc, "ts.envMap[envvarname(key)]=value") {
			return true, true, ""
		}
		if !strings.Contains(setenvSrc, "ts.envMap[") && !strings.Contains(setenvSrc, "ts.envMap=") {
			return false, true, ""
		}
		return false, false, "Setenv updates ts.envMap in an unrecognised way"
	})
	g.EmitBool("setupBuildsMapFromList", "setup sets `ts.env = env.Vars` and fills envMap from every `kv` of ts.env, in order, with `if i := strings.Index(kv, \"=\"); i >= 0 { ts.envMap[envvarname(kv[:i])] = kv[i+1:] }`.", true, func() (bool, bool, string) {
		s, ok := bodySrc(ts, "TestScript", "setup")
		if !ok {
			return false, false, "method setup not found"
		}
		if strings.Contains(s, "ts.env=env.Vars") &&
			strings.Contains(s, `ts.envMap=make(map[string]string)for_,kv:=rangets.env{ifi:=strings.Index(kv,"=");i>=0{ts.envMap[envvarname(kv[:i])]=kv[i+1:]}}`) {
			return true, true, ""
		}
		return false, false, "envMap construction in setup has an unrecognised shape"
	})
	g.EmitBool("cmdEnvSplitsAtFirstEq", "cmdEnv splits each argument at the first \"=\" (`i := strings.Index(env, \"=\")`), skips arguments without one (`if i < 0 {...; continue}`) and calls `ts.Setenv(env[:i], env[i+1:])`.", true, func() (bool, bool, string) {
		s, ok := bodySrc(cmdgo, "TestScript", "cmdEnv")
		if !ok {
			return false, false, "method cmdEnv not found"
		}
		if strings.Contains(s, `for_,env:=rangeargs{i:=strings.Index(env,"=")ifi<0{`) && strings.Contains(s, "continue}ts.Setenv(env[:i],env[i+1:])}") {
			return true, true, ""
		}
		return false, false, "argument loop of cmdEnv has an unrecognised shape"
	})
	pwd, pwdOK, pwdWhy := "PWD", true, ""
	for _, name := range []string{"exec", "execBackground"} {
		fd := g.Method(ts, "TestScript", name)
		found := false
		if fd != nil {
			ast.Inspect(fd.Body, func(n ast.Node) bool {
				as, ok := n.(*ast.AssignStmt)
				if !ok || len(as.Lhs) != 1 || len(as.Rhs) != 1 || g.Src(as.Lhs[0]) != "cmd.Env" {
					return true
				}
				ce, ok := as.Rhs[0].(*ast.CallExpr)
				if !ok || g.Src(ce.Fun) != "append" || len(ce.Args) != 2 || g.Src(ce.Args[0]) != "ts.env" {
					return true
				}
				be, ok := ce.Args[1].(*ast.BinaryExpr)
				if !ok || be.Op != token.ADD || g.Src(be.Y) != "ts.cd" {
					return true
				}
				if s, ok := fact.StringLit(be.X); ok && strings.HasSuffix(s, "=") && !strings.Contains(s[:len(s)-1], "=") {
					if name == "exec" {
						pwd = s[:len(s)-1]
						found = true
					} else if s[:len(s)-1] == pwd {
						found = true
					}
				}
				return true
			})
		}
		if !found {
			pwdOK, pwdWhy = false, "`cmd.Env = append(ts.env, \"PWD=\"+ts.cd)` not found in "+name
		}
	}
	g.EmitBool("childEnvIsListPlusPWD", "exec and execBackground both set `cmd.Env = append(ts.env, NAME+\"=\"+ts.cd)`.", true, func() (bool, bool, string) {
		return pwdOK, pwdOK, pwdWhy
	})
	emitBytes("pwdName", "the NAME of the variable appended for children.", "PWD", pwd, pwdOK, pwdWhy)

	// ------------------------------------------------------------------ GOROOT: os.Expand helpers, regexp.QuoteMeta
	osEnv := parseStd(g, "os/env.go")
	var specials []byte
	spOK, spWhy := false, "func isShellSpecialVar not found in GOROOT/src/os/env.go"
	if fd := stdFunc(osEnv, "isShellSpecialVar"); fd != nil {
		spWhy = "isShellSpecialVar is not a single switch with one case returning true"
		if len(fd.Body.List) == 2 {
			if sw, ok := fd.Body.List[0].(*ast.SwitchStmt); ok && g.Src(sw.Tag) == "c" && len(sw.Body.List) == 1 && g.Src(fd.Body.List[1]) == "returnfalse" {
				cc := sw.Body.List[0].(*ast.CaseClause)
				good := len(cc.Body) == 1 && g.Src(cc.Body[0]) == "returntrue"
				for _, e := range cc.List {
					c, ok := charLit(e)
					if !ok {
						good = false
					}
					specials = append(specials, c)
				}
				spOK = good
			}
		}
	}
	emitU8List("shellSpecialVars", "GOROOT/src/os/env.go isShellSpecialVar: the case list.", []byte("*#$@!?-0123456789"), specials, spOK, spWhy)
	g.EmitBool("alphaNumIsIdentChars", "GOROOT/src/os/env.go isAlphaNum is `c == '_' || '0' <= c && c <= '9' || 'a' <= c && c <= 'z' || 'A' <= c && c <= 'Z'`.", true, func() (bool, bool, string) {
		fd := stdFunc(osEnv, "isAlphaNum")
		if fd == nil {
			return false, false, "func isAlphaNum not found in GOROOT/src/os/env.go"
		}
		if g.Src(fd.Body) == "{returnc=='_'||'0'<=c&&c<='9'||'a'<=c&&c<='z'||'A'<=c&&c<='Z'}" {
			return true, true, ""
		}
		return false, false, "isAlphaNum has an unrecognised shape"
	})
	reFile := parseStd(g, "regexp/regexp.go")
	reSpecial, reOK, reWhy := "", false, "init ranging over the special bytes not found in GOROOT/src/regexp/regexp.go"
	if reFile != nil {
		for _, d := range reFile.Decls {
			fd, ok := d.(*ast.FuncDecl)
			if !ok || fd.Name.Name != "init" {
				continue
			}
			for _, st := range fd.Body.List {
				rs, ok := st.(*ast.RangeStmt)
				if !ok || !strings.Contains(g.Src(rs.Body), "specialBytes[b%16]|=1<<(b/16)") {
					continue
				}
				if s, ok := fact.StringLit(rs.X); ok {
					reSpecial, reOK = s, true
				}
			}
		}
		if fd := stdFunc(reFile, "special"); fd == nil || g.Src(fd.Body) != "{returnb<utf8.RuneSelf&&specialBytes[b%16]&(1<<(b/16))!=0}" {
			reOK, reWhy = false, "func special has an unrecognised shape"
		}
	}
	emitBytes("regexpSpecial", "GOROOT/src/regexp/regexp.go: the bytes escaped by QuoteMeta (the string ranged over in the init of specialBytes).", `\.+*?()|[]{}^$`, reSpecial, reOK, reWhy)
}
