package main

import (
	"fmt"
	"math/rand"
	"os"
	"os/exec"
	"path/filepath"
	"regexp"
	"runtime"
	"sort"
	"strconv"
	"strings"
	"sync"
	"unicode/utf8"

	"github.com/rogpeppe/go-internal/testscript"

	"verif/harness/internal/corr"
	"verif/harness/internal/mdl"
)

// ------------------------------------------------------------------------------------------------
// scripts: the unit of work.  One script = one txtar archive run through the real testscript.RunT.

type lineMeta struct {
	kind string // probe | env | exec | grab | raw
	id   string // probe / grab id

	// oracle expectations, checked on the implementation independently of the model
	oracle   string   // "" | quote | noresplit | atR | snapshot | child
	wantArgs []string // quote / noresplit: the arguments after the id
	atRVal   string   // atR: the value the expansion must match exactly
	wantEnv  map[string]string
}

type probeRec struct {
	args   []string
	getenv []string
}

type script struct {
	name  string
	extra []string // appended to Env.Vars by Setup
	names []string // Getenv of each is recorded by every probe
	lines []string
	meta  []lineMeta
	class string // generator family, for the distribution
	files string // txtar file section appended after the script
	tier  string
	seed  int64

	// filled by the run of the implementation
	file     string
	vars     []string
	cd       string
	probes   map[string]probeRec
	grabs    map[string]string
	log      string
	fails    map[int]string // line number -> first FAIL message
	failPrev map[int]string // log line just before that FAIL line
	panicked string
}

func (s *script) add(line string, m lineMeta) {
	s.lines = append(s.lines, line)
	s.meta = append(s.meta, m)
}

// replayKey identifies line i for ./check --replay: generation is deterministic in (tier, seed).
func (s *script) replayKey(i int) string {
	return fmt.Sprintf("regen tier=%s seed=%d script=%s line=%d vars=%s text=%s", s.tier, s.seed, s.name, i+1, hexList(s.extra), corr.Hx([]byte(s.lines[i])))
}

func (s *script) nextID() string { return strconv.Itoa(len(s.lines) + 1) }

// ------------------------------------------------------------------------------------------------
// a testscript.T that runs sub-tests on goroutines

type rootT struct {
	mu    sync.Mutex
	wg    sync.WaitGroup
	sem   chan struct{}
	subs  map[string]*subT
	fatal []string
}

type subT struct {
	name     string
	log      strings.Builder
	failed   bool
	skipped  bool
	panicked string
}

func (r *rootT) Skip(a ...any) { r.Fatal(append([]any{"root skip: "}, a...)...) }
func (r *rootT) Fatal(a ...any) {
	r.mu.Lock()
	r.fatal = append(r.fatal, fmt.Sprint(a...))
	r.mu.Unlock()
	runtime.Goexit()
}
func (r *rootT) Parallel()     {}
func (r *rootT) Log(a ...any)  {}
func (r *rootT) FailNow()      { r.Fatal("root FailNow") }
func (r *rootT) Verbose() bool { return false }
func (r *rootT) Run(name string, f func(testscript.T)) {
	st := &subT{name: name}
	r.mu.Lock()
	r.subs[name] = st
	r.mu.Unlock()
	r.wg.Add(1)
	go func() {
		defer r.wg.Done()
		r.sem <- struct{}{}
		defer func() { <-r.sem }()
		defer func() {
			if e := recover(); e != nil {
				st.panicked = fmt.Sprint(e)
			}
		}()
		f(st)
	}()
}

func (t *subT) Skip(a ...any)  { t.skipped = true; runtime.Goexit() }
func (t *subT) Fatal(a ...any) { t.Log(a...); t.FailNow() }
func (t *subT) Parallel()      {}
func (t *subT) Log(a ...any)   { t.log.WriteString(fmt.Sprint(a...)); t.log.WriteByte('\n') }
func (t *subT) FailNow()       { t.failed = true; runtime.Goexit() }
func (t *subT) Verbose() bool  { return false }
func (t *subT) Run(name string, f func(testscript.T)) {
	panic("nested Run is not used by testscript")
}

// runImpl runs all scripts through testscript.RunT (public API only): a custom command `probe`
// records its argument vector and ts.Getenv of the script's names; `grabenv` records the stdout of
// the preceding `exec` of the helper program (this binary with __envdump).
func runImpl(scripts []*script) error {
	dir, err := os.MkdirTemp("", "giv-script-")
	if err != nil {
		return err
	}
	defer os.RemoveAll(dir)
	byName := map[string]*script{}
	var files []string
	for _, s := range scripts {
		s.file = filepath.Join(dir, s.name+".txt")
		s.probes = map[string]probeRec{}
		s.grabs = map[string]string{}
		s.fails = map[int]string{}
		s.failPrev = map[int]string{}
		if err := os.WriteFile(s.file, []byte(strings.Join(s.lines, "\n")+"\n"+s.files), 0o666); err != nil {
			return err
		}
		byName[s.name] = s
		files = append(files, s.file)
	}
	root := &rootT{sem: make(chan struct{}, runtime.NumCPU()), subs: map[string]*subT{}}
	p := testscript.Params{
		Files:           files,
		ContinueOnError: true,
		WorkdirRoot:     "",
		Setup: func(env *testscript.Env) error {
			s := byName[strings.TrimPrefix(filepath.Base(env.WorkDir), "script-")]
			if s == nil {
				return fmt.Errorf("unknown script for %s", env.WorkDir)
			}
			env.Vars = append(env.Vars, s.extra...)
			s.vars = append([]string{}, env.Vars...)
			s.cd = env.Cd
			return nil
		},
		Cmds: map[string]func(ts *testscript.TestScript, neg bool, args []string){
			"probe": func(ts *testscript.TestScript, neg bool, args []string) {
				s := byName[ts.Name()]
				rec := probeRec{args: append([]string{}, args...)}
				for _, n := range s.names {
					rec.getenv = append(rec.getenv, ts.Getenv(n))
				}
				id := ""
				if len(args) > 0 {
					id = args[0]
				}
				if _, dup := s.probes[id]; dup {
					id = id + "#dup"
				}
				s.probes[id] = rec
			},
			// setvar NAME VALUE: an assignment made by a custom command through the public API
			// (TestScript.Setenv) rather than by the `env` builtin
			"setvar": func(ts *testscript.TestScript, neg bool, args []string) {
				if len(args) == 2 {
					ts.Setenv(args[0], args[1])
				}
			},
			"grabenv": func(ts *testscript.TestScript, neg bool, args []string) {
				s := byName[ts.Name()]
				if len(args) == 1 {
					s.grabs[args[0]] = ts.ReadFile("stdout")
				}
			},
		},
	}
	done := make(chan struct{})
	go func() { // RunT may Goexit through root.Fatal
		defer close(done)
		testscript.RunT(root, p)
	}()
	<-done
	root.wg.Wait()
	if len(root.fatal) > 0 {
		return fmt.Errorf("RunT: %s", strings.Join(root.fatal, "; "))
	}
	for _, s := range scripts {
		st := root.subs[s.name]
		if st == nil {
			return fmt.Errorf("script %s did not run", s.name)
		}
		s.log = st.log.String()
		s.panicked = st.panicked
		re := regexp.MustCompile(`^FAIL: ` + regexp.QuoteMeta(s.file) + `:(\d+): (.*)$`)
		prev := ""
		for _, l := range strings.Split(s.log, "\n") {
			if m := re.FindStringSubmatch(l); m != nil {
				n, _ := strconv.Atoi(m[1])
				if _, ok := s.fails[n]; !ok {
					s.fails[n] = m[2]
					s.failPrev[n] = prev
				}
			}
			prev = l
		}
	}
	return nil
}

func hexList(l []string) string {
	if len(l) == 0 {
		return "."
	}
	h := make([]string, len(l))
	for i, s := range l {
		h[i] = corr.Hx([]byte(s))
	}
	return strings.Join(h, ",")
}

// implLine renders what the implementation did on line i in the model driver's vocabulary.
func (s *script) implLine(i int) string {
	m := s.meta[i]
	if msg, ok := s.fails[i+1]; ok {
		switch {
		case msg == "unterminated quoted argument":
			return "E"
		case m.kind == "exec" && msg == "unexpected command failure" && s.failPrev[i+1] == "[exec: environment variable contains NUL]":
			return "X:nul"
		case strings.HasPrefix(msg, "unknown command "):
			if q, err := strconv.QuotedPrefix(strings.TrimPrefix(msg, "unknown command ")); err == nil {
				if u, err := strconv.Unquote(q); err == nil {
					return "O1:" + corr.Hx([]byte(u))
				}
			}
		}
		return "F:" + msg
	}
	switch m.kind {
	case "probe":
		rec, ok := s.probes[m.id]
		if !ok {
			return "P-missing"
		}
		return "P:" + hexList(append([]string{"probe"}, rec.args...)) + "|" + hexList(rec.getenv)
	case "env", "setvar":
		return "V"
	case "exec":
		out, ok := s.grabs[m.id]
		if !ok {
			return "X-missing"
		}
		f := strings.Fields(out)
		if len(f) == 0 {
			return "X:."
		}
		return "X:" + strings.Join(f, ",")
	case "grab":
		return "O:" + hexList([]string{"grabenv", m.id})
	case "cmpenv":
		return "O:" + hexList(strings.Fields(s.lines[i]))
	case "wait":
		return "O:" + hexList([]string{"wait"})
	case "raw":
		return "N"
	}
	return "?"
}

// modelLine maps the model's answer into the same vocabulary (raw lines only reveal args[0]).
func modelLine(m lineMeta, impl, out string) string {
	if (m.kind == "raw" || strings.HasPrefix(impl, "O1:")) && strings.HasPrefix(out, "O:") {
		first, _, _ := strings.Cut(out[2:], ",")
		return "O1:" + first
	}
	return out
}

// ------------------------------------------------------------------------------------------------
// generators

const trickyX = "u v'$X#w"
const trickyX2 = "u.v '$X#(w)"
const trickyA = "A#' $a"

var exhaustAlpha = []byte{'a', ' ', '\'', '$', '{', '}', '#', 'X'}

func enumWords(alpha []byte, maxLen int, f func(string)) {
	buf := make([]byte, 0, maxLen)
	var rec func()
	rec = func() {
		f(string(buf))
		if len(buf) == maxLen {
			return
		}
		for _, c := range alpha {
			buf = append(buf, c)
			rec()
			buf = buf[:len(buf)-1]
		}
	}
	rec()
}

func exhaustiveScripts(alpha []byte, maxLen, perScript int) []*script {
	var out []*script
	var words []string
	enumWords(alpha, maxLen, func(w string) { words = append(words, w) })
	mk := func(kind string, n int) *script {
		return &script{name: fmt.Sprintf("ex%s%04d", kind, n), extra: []string{"X=" + trickyX, "a=" + trickyA}, names: []string{"X", "a"}, class: "exhaustive-" + kind}
	}
	for k := 0; k < len(words); k += perScript {
		sp, sr := mk("p", k/perScript), mk("r", k/perScript)
		for _, w := range words[k:min(k+perScript, len(words))] {
			id := sp.nextID()
			sp.add("probe "+id+" "+w, lineMeta{kind: "probe", id: id})
			sr.add(w, lineMeta{kind: "raw"})
		}
		out = append(out, sp, sr)
	}
	return out
}

// pieces for the second exhaustive family: every sequence of up to maxPieces pieces
var exhaustPieces = []string{"a", " ", "'", "''", "$X", "${X}", "${X@R}", "#", "\t", "\r", "$", "${", "}", "X@R"}

func pieceScripts(pieces []string, maxPieces, perScript int) []*script {
	var out []*script
	var words []string
	var rec func(prefix string, n int)
	rec = func(prefix string, n int) {
		words = append(words, prefix)
		if n == maxPieces {
			return
		}
		for _, p := range pieces {
			rec(prefix+p, n+1)
		}
	}
	rec("", 0)
	// different piece sequences can spell the same text: keep each text once
	seen := map[string]bool{}
	uniq := words[:0]
	for _, w := range words {
		if !seen[w] {
			seen[w] = true
			uniq = append(uniq, w)
		}
	}
	words = uniq
	for k := 0; k < len(words); k += perScript {
		sp := &script{name: fmt.Sprintf("pc%04d", k/perScript), extra: []string{"X=" + trickyX2, "a=" + trickyA}, names: []string{"X", "a"}, class: "pieces"}
		for _, w := range words[k:min(k+perScript, len(words))] {
			id := sp.nextID()
			sp.add("probe "+id+" "+w, lineMeta{kind: "probe", id: id})
		}
		out = append(out, sp)
	}
	return out
}

// ---- cmpenv: ts.expand applied to whole files (blanks, quotes, '#', newlines are ordinary text there)

type cmpCase struct {
	vars []string // Setup extra vars
	text string   // content of the file that cmpenv expands (a final newline is added)
	want string   // filled from the model: expand(text+"\n")
}

// fixed part of the initial environment (setup), used to predict expansions without knowing $WORK
var fixedVars = []string{"GOTRACEBACK=system", "HOME=/no-home", "devnull=/dev/null", "/=/", ":=:", "$=$", "exe="}

func (g *rgen) cmpText() string {
	var sb strings.Builder
	for n := 1 + g.r.Intn(8); n > 0; n-- {
		switch k := g.r.Intn(12); {
		case k < 3:
			sb.WriteString(g.plain())
		case k < 6:
			sb.WriteString(g.varref())
		case k < 8:
			sb.WriteString(g.pick(oddPieces))
		case k < 10:
			sb.WriteString(strings.ReplaceAll(g.wild(4), "-", "+")) // no "-- name --" marker lines
		case k == 10:
			sb.WriteString(g.pick([]string{"\n", "\r\n", " ", "\t", "\n\n", "${HOME}", "$/", "${:}", "$$", "$exe", "${devnull}"}))
		default:
			sb.WriteString(g.pick(seps))
		}
	}
	return sb.String()
}

func cmpenvScripts(cases []cmpCase) []*script {
	var out []*script
	for n, c := range cases {
		s := &script{name: fmt.Sprintf("cmp%05d", n), extra: c.vars, names: []string{"X"}, class: "cmpenv"}
		s.add("cmpenv p t", lineMeta{kind: "cmpenv"})
		s.add("! cmpenv q t", lineMeta{kind: "cmpenv"})
		s.files = "-- p --\n" + c.want + "-- q --\n" + "x" + c.want + "-- t --\n" + c.text + "\n"
		out = append(out, s)
	}
	return out
}

type rgen struct {
	r      *rand.Rand
	allowN bool // NUL bytes allowed
}

var namePool = []string{"A", "B", "X", "Y_1", "a", "ab", "PWD", "HOME", "N9", "_", "K@R", "a.b", "1x", "", "$", "x y", "K"}

const plainChars = "abXY_09./=-:,@%+~KR"

var specialBytes = []byte(" \t\r'#${}\\.*+?()|[]^@=\"`a")

func (g *rgen) pick(ss []string) string { return ss[g.r.Intn(len(ss))] }

func (g *rgen) plain() string {
	n := 1 + g.r.Intn(4)
	b := make([]byte, n)
	for i := range b {
		b[i] = plainChars[g.r.Intn(len(plainChars))]
	}
	return string(b)
}

// wild: arbitrary bytes except newline, biased to the special ones.
func (g *rgen) wild(maxLen int) string {
	n := g.r.Intn(maxLen + 1)
	b := make([]byte, 0, n)
	for len(b) < n {
		switch k := g.r.Intn(10); {
		case k < 6:
			b = append(b, specialBytes[g.r.Intn(len(specialBytes))])
		case k < 8:
			b = append(b, plainChars[g.r.Intn(len(plainChars))])
		case k == 8:
			b = append(b, []string{"é", " ", "\xff", "\xc3", "\x01", "\x7f", " ", "�"}[g.r.Intn(8)]...)
		default:
			c := byte(g.r.Intn(256))
			if c == '\n' || (c == 0 && !g.allowN) {
				c = '$'
			}
			b = append(b, c)
		}
	}
	return string(b)
}

// unquotedWord: a word of unquoted text made of bytes that are none of space, tab, CR, newline, quote,
// '$', '#': it must come back as exactly one identical argument.  Biased to bytes that a rune- or
// locale-based notion of "white space" would wrongly split at: \v, \f, 0x1c-0x1f, 0x85, 0xA0 (also as
// the second byte of à / Å / NBSP / NEL), U+2028, U+3000, CJK, arbitrary high and control bytes.
var wordPieces = []string{"\v", "\f", "\x1c", "\x1d", "\x1e", "\x1f", "\x85", "\xa0", "à", "Å", "voilà", "déjà", "\u00a0", "\u0085", "\u2028", "\u2029", "\u3000", "\u1680", "\u2003", "漢字", "日本", "\xc3", "\xe2\x80", "\x7f", "\x01", "\x08", "\x1b", "a", "Z", "0", "_", "-", "=", "{", "}", "\\", "\"", "`", "*", "[", "~"}

func (g *rgen) unquotedWord() string {
	var sb strings.Builder
	for n := 1 + g.r.Intn(4); n > 0; n-- {
		if g.r.Intn(5) == 0 {
			c := byte(1 + g.r.Intn(255))
			switch c {
			case ' ', '\t', '\r', '\n', '\'', '$', '#':
				c = 0x85
			}
			sb.WriteByte(c)
		} else {
			sb.WriteString(g.pick(wordPieces))
		}
	}
	return sb.String()
}

func sq(w string) string { return "'" + strings.ReplaceAll(w, "'", "''") + "'" }

func (g *rgen) varref() string {
	n := g.pick(namePool)
	switch g.r.Intn(6) {
	case 0, 1:
		return "$" + n
	case 2, 3:
		return "${" + n + "}"
	case 4:
		return "${" + n + "@R}"
	default:
		return "$" + n + "@R"
	}
}

var oddPieces = []string{"$", "${", "${}", "$$", "${$}", "$1", "${*}", "$-", "${X", "$}", "{", "}", "${X@}", "${@R}", "${@}", "$@R", "${a b}", "$'X'", "${'X'}", "''", "''''", "$ ", "${X}}", "$${X}", "\\$X", "${X@R@R}", "${}X", "$_", "$é"}

func (g *rgen) token() string {
	var sb strings.Builder
	for n := 1 + g.r.Intn(4); n > 0; n-- {
		switch k := g.r.Intn(20); {
		case k < 6:
			sb.WriteString(g.plain())
		case k < 10:
			sb.WriteString(sq(g.wild(5)))
		case k < 15:
			sb.WriteString(g.varref())
		case k < 18:
			sb.WriteString(g.pick(oddPieces))
		case k == 18 && g.r.Intn(2) == 0:
			sb.WriteString(g.unquotedWord())
		case k == 18:
			// unquoted wild bytes without blanks/quotes/#: high bytes, controls, regexp metas
			w := g.wild(3)
			w = strings.Map(func(r rune) rune {
				if r == ' ' || r == '\t' || r == '\r' || r == '\'' || r == '#' {
					return '.'
				}
				return r
			}, w)
			sb.WriteString(w)
		default:
			sb.WriteString("#")
		}
	}
	return sb.String()
}

var seps = []string{" ", " ", " ", "\t", "\r", "  ", " \t", "\r ", "\t\t "}
var probePrefixes = []string{"probe", "probe", "probe", "'probe'", "pro'be'", "$P", "${P}", "pr${R}obe", "'pro'be"}

// token1: a token guaranteed to be exactly one argument (an empty or comment-looking one is quoted).
func (g *rgen) token1() string {
	t := g.token()
	if t == "" || strings.HasPrefix(t, "#") || strings.ContainsAny(t, " \t\r") && !strings.Contains(t, "'") {
		return sq(g.plain())
	}
	return t
}

// historyScript: few variables, many re-assignments (by `env` and by a custom command through
// TestScript.Setenv) interleaved with every form of reference to the same variables, so that any
// state derived from a variable's value (memoised expansions, cached child environments) is used,
// invalidated and used again.
func historyScript(r *rand.Rand, n int, nLines int) *script {
	g := &rgen{r: r, allowN: false}
	names := []string{"X", "Y", "K"}
	s := &script{name: fmt.Sprintf("hst%05d", n), names: names, class: "history"}
	s.extra = []string{"P=probe", "R=", "X=" + g.wild(4), "X=" + g.wild(4)}
	cur := map[string]string{}
	for _, kv := range s.extra {
		k, v, _ := strings.Cut(kv, "=")
		cur[k] = v
	}
	// a reference and what it must expand to (regexp.QuoteMeta of the standard library is the reference
	// for @R; the property oracle of the run checks these independently of the Lean model)
	refs := func(v string) (string, string) {
		val := cur[v]
		switch g.r.Intn(6) {
		case 0:
			return "$" + v, val
		case 1:
			return "${" + v + "}", val
		case 2:
			return "${" + v + "@R}", regexp.QuoteMeta(val)
		case 3:
			return "a${" + v + "@R}b", "a" + regexp.QuoteMeta(val) + "b"
		case 4:
			return "'${" + v + "@R}'", "${" + v + "@R}"
		}
		return "$" + v + "${" + v + "@R}", val + regexp.QuoteMeta(val)
	}
	for i := 0; i < nLines; i++ {
		v := g.pick(names)
		switch k := r.Intn(10); {
		case k < 2:
			val := g.valueText()
			s.add("env "+v+"="+sq(val), lineMeta{kind: "env"})
			cur[v] = val
		case k < 4:
			val := g.valueText()
			s.add("setvar "+v+" "+sq(val), lineMeta{kind: "setvar"})
			cur[v] = val
		case k < 5 && i > 2:
			s.addExec(r.Intn(3) == 0)
		default:
			id := s.nextID()
			r1, w1 := refs(v)
			r2, w2 := refs(g.pick(names))
			s.add("probe "+id+" "+r1+" "+r2, lineMeta{kind: "probe", id: id, oracle: "noresplit", wantArgs: []string{w1, w2}})
		}
	}
	return s
}

// valueText: a value with regexp-special and shell-special bytes (written single-quoted).
func (g *rgen) valueText() string {
	alpha := "ab.+*()[]$#' \\|^{}x"
	n := 1 + g.r.Intn(6)
	b := make([]byte, n)
	for i := range b {
		b[i] = alpha[g.r.Intn(len(alpha))]
	}
	return string(b)
}

func (g *rgen) argsText() string {
	var sb strings.Builder
	for n := g.r.Intn(5); n > 0; n-- {
		sb.WriteString(g.pick(seps))
		sb.WriteString(g.token())
	}
	switch k := g.r.Intn(40); {
	case k < 3:
		sb.WriteString(g.pick(seps) + "# junk 'unbalanced $X")
	case k < 5:
		sb.WriteString(g.pick(seps) + "'" + g.wild(4)) // very likely unterminated
	case k < 9:
		sb.WriteString(g.pick(seps))
	}
	return sb.String()
}

func quoteName(n string) string {
	for i := 0; i < len(n); i++ {
		if !strings.ContainsRune("abcdefghijklmnopqrstuvwxyzABCDEFGHIJKLMNOPQRSTUVWXYZ0123456789_.@", rune(n[i])) {
			return sq(n)
		}
	}
	if n == "" {
		return ""
	}
	return n
}

func (g *rgen) envLine() string {
	var sb strings.Builder
	sb.WriteString(g.pick([]string{"env", "env", "'env'", "e${R}nv"}))
	for n := 1 + g.r.Intn(3); n > 0; n-- {
		sb.WriteString(g.pick(seps))
		if g.r.Intn(12) == 0 {
			sb.WriteString(quoteName(g.pick(namePool))) // display only (or junk)
			continue
		}
		sb.WriteString(quoteName(g.pick(namePool)) + "=")
		if g.r.Intn(8) != 0 {
			sb.WriteString(g.token())
		}
	}
	if g.r.Intn(10) == 0 {
		sb.WriteString(" # c")
	}
	return sb.String()
}

func selfPath() string {
	p, err := os.Executable()
	if err != nil {
		return os.Args[0]
	}
	return p
}

// addExec runs the helper in the foreground (exec) or in the background (execBackground, then wait).
func (s *script) addExec(background bool) {
	id := s.nextID()
	if background {
		s.add("exec "+sq(selfPath())+" "+envDumpArg+" &", lineMeta{kind: "exec", id: id})
		s.add("wait", lineMeta{kind: "wait"})
	} else {
		s.add("exec "+sq(selfPath())+" "+envDumpArg, lineMeta{kind: "exec", id: id})
	}
	s.add("grabenv "+id, lineMeta{kind: "grab", id: id})
}

func randomScript(r *rand.Rand, n int, nLines, nExec int) *script {
	g := &rgen{r: r, allowN: r.Intn(8) == 0}
	s := &script{name: fmt.Sprintf("rnd%05d", n), names: namePool, class: "random"}
	s.extra = []string{"P=probe", "R="}
	for k := r.Intn(4); k > 0; k-- {
		s.extra = append(s.extra, g.pick(namePool[:12])+"="+g.wild(6))
	}
	execAt := map[int]bool{}
	for k := 0; k < nExec; k++ {
		execAt[r.Intn(nLines)] = true
	}
	for i := 0; i < nLines; i++ {
		if execAt[i] {
			id := s.nextID()
			s.add("probe "+id, lineMeta{kind: "probe", id: id, oracle: "childprobe"})
			s.addExec(r.Intn(3) == 0)
		}
		switch k := r.Intn(10); {
		case k < 2:
			s.add(g.envLine(), lineMeta{kind: "env"})
		case k < 3:
			s.add("setvar"+g.pick(seps)+quoteName(g.pick(namePool))+g.pick(seps)+g.token1(), lineMeta{kind: "setvar"})
		default:
			id := s.nextID()
			s.add(g.pick(probePrefixes)+g.pick(seps)+id+g.argsText(), lineMeta{kind: "probe", id: id})
		}
	}
	return s
}

// oracleScript: controlled lines whose outcome is known to the harness without any model.
func oracleScript(r *rand.Rand, n int, nLines, nExec int) *script {
	g := &rgen{r: r, allowN: false}
	// KR / AR / R: names that end in the letters of the "@R" operator, next to the shorter names K / A they would
	// collapse to if the operator were cut off as a character set instead of as a suffix (seeded C02-m8)
	names := []string{"K", "A", "B", "X", "Y_1", "PWD", "HOME", "unset_name", "KR", "AR", "R"}
	s := &script{name: fmt.Sprintf("orc%05d", n), names: names, class: "oracle"}
	cur := map[string]string{}
	initial := g.wild(5)
	s.extra = []string{"K=" + initial, "A=first", "A=second"}
	cur["K"], cur["A"] = initial, "second"
	snapshot := func() map[string]string {
		m := map[string]string{}
		for k, v := range cur {
			m[k] = v
		}
		return m
	}
	// fixed corpus: words with bytes that only a wrong notion of white space would split at
	for _, ws := range [][]string{
		{"voilà", "déjà", "vu"}, {"Å", "à"}, {"a\vb", "c\fd"}, {"x\x85y", "z\xa0w"}, {"\x1c\x1d\x1e\x1f"},
		{"a\u00a0b", "c\u0085d", "e\u2028f", "g\u3000h"}, {"漢字", "日本"}, {"\x85", "\xa0", "\v", "\f"},
	} {
		id := s.nextID()
		s.add("probe "+id+" "+strings.Join(ws, g.pick(seps)), lineMeta{kind: "probe", id: id, oracle: "hash", wantArgs: ws})
	}
	execAt := map[int]bool{}
	for k := 0; k < nExec; k++ {
		execAt[r.Intn(nLines)] = true
	}
	assignable := []string{"K", "A", "B", "X", "Y_1", "PWD", "KR", "AR", "R"}
	for i := 0; i < nLines; i++ {
		if execAt[i] {
			id := s.nextID()
			s.add("probe "+id, lineMeta{kind: "probe", id: id, oracle: "child", wantEnv: snapshot()})
			s.addExec(r.Intn(3) == 0)
		}
		switch k := r.Intn(10); {
		case k < 3: // assignment with a fully quoted argument: the value is known
			name := assignable[r.Intn(len(assignable))]
			v := g.wild(7)
			if r.Intn(6) == 0 {
				v = ""
			}
			s.add("env "+sq(name+"="+v), lineMeta{kind: "env"})
			cur[name] = v
			id := s.nextID()
			s.add("probe "+id, lineMeta{kind: "probe", id: id, oracle: "snapshot", wantEnv: snapshot()})
		case k < 6: // quoting law
			var ws []string
			var sb strings.Builder
			for m := 1 + r.Intn(4); m > 0; m-- {
				w := g.wild(8)
				ws = append(ws, w)
				sb.WriteString(g.pick(seps) + sq(w))
			}
			id := s.nextID()
			s.add("probe "+id+sb.String(), lineMeta{kind: "probe", id: id, oracle: "quote", wantArgs: ws})
		case k == 6: // an unquoted '#' ends the line; unquoted text splits at blank runs
			var ws []string
			var sb strings.Builder
			for m := 1 + r.Intn(3); m > 0; m-- {
				if k := r.Intn(5); k < 2 {
					w := g.unquotedWord()
					ws = append(ws, w)
					sb.WriteString(g.pick(seps) + w)
				} else if k == 2 {
					w := g.plain()
					ws = append(ws, w)
					sb.WriteString(g.pick(seps) + w)
				} else {
					w := g.wild(5)
					ws = append(ws, w)
					sb.WriteString(g.pick(seps) + sq(w))
				}
			}
			tail := g.pick([]string{"", " ", "\t\r", " #", "#", " # " + g.wild(6), "#'" + g.wild(4), "\t#$X ${", " ## '"})
			id := s.nextID()
			s.add("probe "+id+sb.String()+tail, lineMeta{kind: "probe", id: id, oracle: "hash", wantArgs: ws})
		case k < 8: // values are neither re-split nor re-expanded nor cut at '#'
			name := []string{"K", "A", "X", "B"}[r.Intn(4)]
			v := cur[name]
			id := s.nextID()
			s.add("probe "+id+" $"+name+" ${"+name+"} x$"+name+"'y z'${"+name+"}w", lineMeta{kind: "probe", id: id, oracle: "noresplit", wantArgs: []string{v, v, "x" + v + "y z" + v + "w"}})
		default: // ${NAME@R}
			name := []string{"K", "A", "X", "B", "KR", "AR", "R"}[r.Intn(7)]
			id := s.nextID()
			s.add("probe "+id+" ${"+name+"@R}", lineMeta{kind: "probe", id: id, oracle: "atR", atRVal: cur[name]})
		}
	}
	return s
}

// ------------------------------------------------------------------------------------------------
// oracles on the implementation

func neighbours(v string) []string {
	seen := map[string]bool{v: true}
	var out []string
	add := func(w string) {
		if !seen[w] && len(out) < 80 {
			seen[w] = true
			out = append(out, w)
		}
	}
	add("")
	add(v + v)
	add(v + "x")
	add("x" + v)
	add(v + "\n")
	add(strings.ToUpper(v))
	add(strings.ToLower(v))
	add(regexp.QuoteMeta(v))
	add(strings.ReplaceAll(v, "\\", ""))
	for i := 0; i < len(v) && len(out) < 80; i++ {
		add(v[:i] + v[i+1:])
		add(v[:i] + "x" + v[i+1:])
		add(v[:i] + "Z" + v[i+1:])
		add(v[:i] + "x" + v[i:])
		add(v[:i] + string(v[i]) + v[i:])
		add(v[:i] + "\\" + v[i:])
	}
	return out
}

func parseChildEnv(hexLines string) (map[string]string, error) {
	m := map[string]string{}
	for _, f := range strings.Fields(hexLines) {
		kv := string(corr.Unhx(f))
		if i := strings.Index(kv, "="); i >= 0 {
			if _, dup := m[kv[:i]]; !dup { // first mention wins (syscall.copyenv)
				m[kv[:i]] = kv[i+1:]
			}
		}
	}
	return m, nil
}

func (s *script) oracles(res *corr.Result) {
	for i, m := range s.meta {
		if m.oracle == "" || m.kind != "probe" {
			continue
		}
		in := s.replayKey(i)
		rec, ok := s.probes[m.id]
		if msg, failed := s.fails[i+1]; failed || !ok {
			res.OracleChecked["C02"]++
			res.Violate("C02", in, "well-formed line was rejected or the command did not run: "+msg, "oracle-line-rejected")
			continue
		}
		if len(rec.args) == 0 {
			res.OracleChecked["C02"]++
			res.Violate("C02", in, "probe received no arguments", "oracle-line-rejected")
			continue
		}
		got := rec.args[1:]
		switch m.oracle {
		case "quote":
			res.OracleChecked["C02"]++
			res.Distribution["oracle-quote"]++
			if !equalStrings(got, m.wantArgs) {
				res.Violate("C02", in, fmt.Sprintf("quoting law: got %q want %q", got, m.wantArgs), "quoting-law")
			}
		case "hash":
			res.OracleChecked["C02"]++
			res.Distribution["oracle-hash-split"]++
			if !equalStrings(got, m.wantArgs) {
				res.Violate("C02", in, fmt.Sprintf("splitting / comment: got %q want %q", got, m.wantArgs), "split-comment")
			}
		case "noresplit":
			res.OracleChecked["C02"]++
			res.Distribution["oracle-noresplit"]++
			if !equalStrings(got, m.wantArgs) {
				res.Violate("C02", in, fmt.Sprintf("expansion re-split / re-expanded / cut: got %q want %q", got, m.wantArgs), "no-resplit")
			}
		case "snapshot", "child":
			res.OracleChecked["C02"]++
			res.Distribution["oracle-latest-wins"]++
			for j, n := range s.names {
				want, assigned := m.wantEnv[n]
				if !assigned && n == "HOME" {
					continue // set by testscript itself
				}
				if rec.getenv[j] != want {
					res.Violate("C02", in, fmt.Sprintf("latest assignment does not win: Getenv(%q)=%q want %q", n, rec.getenv[j], want), "latest-wins")
				}
			}
		case "atR":
			v := m.atRVal
			if len(got) != 1 {
				res.OracleChecked["C02"]++
				res.Violate("C02", in, fmt.Sprintf("${NAME@R} gave %d arguments", len(got)), "atR-args")
				continue
			}
			if !utf8.ValidString(v) || strings.ContainsRune(v, utf8.RuneError) {
				// Go's regexp accepts only UTF-8 patterns and reads invalid input bytes as U+FFFD:
				// outside the stated domain of the @R clause (see props.json assumptions).
				res.Distribution["atR-skipped-not-utf8-or-U+FFFD"]++
				continue
			}
			res.OracleChecked["C02"]++
			res.Distribution["oracle-atR"]++
			re, err := regexp.Compile("^(?:" + got[0] + ")$")
			if err != nil {
				res.Violate("C02", in, "${NAME@R} is not a regular expression: "+err.Error(), "atR-compile")
				continue
			}
			if !re.MatchString(v) {
				res.Violate("C02", in, fmt.Sprintf("${NAME@R}=%q does not match the value %q", got[0], v), "atR-nomatch")
			}
			for _, w := range neighbours(v) {
				res.Distribution["oracle-atR-neighbours"]++
				if re.MatchString(w) {
					res.Violate("C02", in, fmt.Sprintf("${NAME@R}=%q for value %q also matches %q", got[0], v, w), "atR-overmatch")
					break
				}
			}
		}
		// child environment agrees with Getenv: the probe is directly followed by exec + grabenv
		if (m.oracle == "child" || m.oracle == "childprobe") && i+2 < len(s.meta) && s.meta[i+1].kind == "exec" {
			res.OracleChecked["C02"]++
			if msg, failed := s.fails[i+2]; failed {
				if s.failPrev[i+2] == "[exec: environment variable contains NUL]" {
					res.Distribution["child-exec-refused-NUL"]++
				} else {
					res.Violate("C02", in, "helper program did not run: "+msg+" / "+s.failPrev[i+2], "child-exec-failed")
				}
				continue
			}
			child, _ := parseChildEnv(s.grabs[s.meta[i+1].id])
			res.Distribution["oracle-child-env"]++
			for j, n := range s.names {
				if n == "PWD" || n == "" || strings.Contains(n, "=") {
					continue
				}
				res.Distribution["oracle-child-env-names"]++
				if child[n] != rec.getenv[j] {
					res.Violate("C02", in, fmt.Sprintf("child sees %q=%q but Getenv gives %q", n, child[n], rec.getenv[j]), "child-env-differs")
				}
			}
			if child["PWD"] != s.cd {
				res.Violate("C02", in, fmt.Sprintf("child PWD=%q, script directory %q", child["PWD"], s.cd), "child-pwd")
			}
		}
	}
}

func equalStrings(a, b []string) bool {
	if len(a) != len(b) {
		return false
	}
	for i := range a {
		if a[i] != b[i] {
			return false
		}
	}
	return true
}

// ------------------------------------------------------------------------------------------------
// direct comparisons of the modelled standard-library functions

// exhaustive part: QuoteMeta on every single byte and every pair of "interesting" bytes; os.Expand
// (with expand's mapping) on every string over a syntax alphabet up to oxLen.
var oxAlpha = []byte{'$', '{', '}', 'a', '1', '@', 'R', ' '}

func stdExhaustive(oxLen int) (cases []string, impl []string) {
	for b := 0; b < 256; b++ {
		w := string([]byte{byte(b)})
		cases = append(cases, "qm "+corr.Hx([]byte(w)))
		impl = append(impl, corr.Hx([]byte(regexp.QuoteMeta(w))))
		w = "a" + w + "."
		cases = append(cases, "qm "+corr.Hx([]byte(w)))
		impl = append(impl, corr.Hx([]byte(regexp.QuoteMeta(w))))
	}
	vars := []string{"a=<A>", "a1=<A1>", "1=<1>", "@=<at>", "R=<R>", "$=$", "a@=<aat>"}
	m := map[string]string{}
	for _, kv := range vars {
		i := strings.Index(kv, "=")
		m[kv[:i]] = kv[i+1:]
	}
	hv := hexList(vars)
	enumWords(oxAlpha, oxLen, func(text string) {
		want := os.Expand(text, func(key string) string {
			if k1 := strings.TrimSuffix(key, "@R"); len(k1) != len(key) {
				return regexp.QuoteMeta(m[k1])
			}
			return m[key]
		})
		cases = append(cases, "ox "+hv+" "+corr.Hx([]byte(text)))
		impl = append(impl, corr.Hx([]byte(want)))
	})
	return
}

func stdCases(r *rand.Rand, n int) (cases []string, impl []string) {
	g := &rgen{r: r, allowN: true}
	for i := 0; i < n; i++ {
		switch i % 3 {
		case 0:
			w := g.wild(10)
			cases = append(cases, "qm "+corr.Hx([]byte(w)))
			impl = append(impl, corr.Hx([]byte(regexp.QuoteMeta(w))))
		case 1:
			vars := []string{"X=" + g.wild(4), "a=" + g.wild(3), "X=" + g.wild(4), "$=$", "K=" + g.wild(5)}
			var sb strings.Builder
			for k := 1 + r.Intn(5); k > 0; k-- {
				switch r.Intn(4) {
				case 0:
					sb.WriteString(g.varref())
				case 1:
					sb.WriteString(g.pick(oddPieces))
				case 2:
					sb.WriteString(g.wild(3))
				default:
					sb.WriteString(g.plain())
				}
			}
			text := sb.String()
			m := map[string]string{}
			for _, kv := range vars {
				i := strings.Index(kv, "=")
				m[kv[:i]] = kv[i+1:]
			}
			want := os.Expand(text, func(key string) string {
				if k1 := strings.TrimSuffix(key, "@R"); len(k1) != len(key) {
					return regexp.QuoteMeta(m[k1])
				}
				return m[key]
			})
			cases = append(cases, "ox "+hexList(vars)+" "+corr.Hx([]byte(text)))
			impl = append(impl, corr.Hx([]byte(want)))
		default:
			var l []string
			for k := r.Intn(7); k > 0; k-- {
				switch r.Intn(8) {
				case 0:
					l = append(l, "="+g.plain())
				case 1:
					l = append(l, g.plain()) // may lack '='
				case 2:
					l = append(l, "")
				default:
					l = append(l, g.pick([]string{"A", "B", "PWD", "", "=A", "A=B"})+"="+strings.ReplaceAll(g.wild(3), "\x00", "0"))
				}
			}
			c := exec.Command("x")
			c.Env = append([]string{}, l...)
			if c.Env == nil {
				c.Env = []string{}
			}
			cases = append(cases, "dedup "+hexList(l))
			impl = append(impl, hexList(c.Environ()))
		}
	}
	return
}

// ------------------------------------------------------------------------------------------------

func nontrivialLine(l string) bool { return strings.ContainsAny(l, "'$#") }

func runScript(tier string, seed int64, model string, replay string) *corr.Result {
	if replay != "" { // the key carries the tier and seed the failing script was generated with
		for _, f := range strings.Fields(replay) {
			if v, ok := strings.CutPrefix(f, "tier="); ok && (v == "quick" || v == "thorough") {
				tier = v
			}
			if v, ok := strings.CutPrefix(f, "seed="); ok {
				if n, err := strconv.ParseInt(v, 10, 64); err == nil {
					seed = n
				}
			}
		}
	}
	res := corr.NewResult("script", tier, seed)
	r := rand.New(rand.NewSource(seed))

	maxLen, maxPieces, nRandom, nOracle, randLines, nExec, nStd, nCmp := 6, 4, 300, 120, 200, 3, 30000, 600
	if tier == "thorough" {
		maxLen, maxPieces, nRandom, nOracle, randLines, nExec, nStd, nCmp = 7, 5, 3000, 1000, 300, 3, 300000, 6000
	}
	// generation is deterministic in (tier, seed): a replay regenerates everything and keeps one script
	var scripts []*script
	scripts = append(scripts, exhaustiveScripts(exhaustAlpha, maxLen, 5000)...)
	res.Exhaustive = true
	res.Extra["exhaustive_spaces"] = []string{
		fmt.Sprintf("every line `probe <id> <w>` and every bare line `<w>` for all w over %q up to length %d, with X=%q and a=%q bound", exhaustAlpha, maxLen, trickyX, trickyA)}
	for i := 0; i < nRandom; i++ {
		scripts = append(scripts, randomScript(r, i, randLines, nExec))
	}
	for i := 0; i < nOracle; i++ {
		scripts = append(scripts, oracleScript(r, i, randLines/2, nExec))
	}
	for i := 0; i < nOracle; i++ {
		scripts = append(scripts, historyScript(r, i, 40))
	}
	scripts = append(scripts, pieceScripts(exhaustPieces, maxPieces, 5000)...)
	res.Extra["exhaustive_spaces"] = append(res.Extra["exhaustive_spaces"].([]string),
		fmt.Sprintf("every line `probe <id> <w>` for all w that are concatenations of up to %d pieces of %q, with X=%q and a=%q bound", maxPieces, exhaustPieces, trickyX2, trickyA))
	// cmpenv: the model predicts ts.expand of a whole file; `cmpenv` must agree and `! cmpenv` must see a difference
	{
		g := &rgen{r: r, allowN: true}
		cc := make([]cmpCase, nCmp)
		req := make([]string, nCmp)
		for i := range cc {
			cc[i].vars = []string{"X=" + g.wild(5), "a=" + g.wild(3), "K=" + g.wild(6), "X=" + g.wild(5)}
			cc[i].text = g.cmpText()
			req[i] = "ox " + hexList(append(append([]string{}, fixedVars...), cc[i].vars...)) + " " + corr.Hx([]byte(cc[i].text+"\n"))
		}
		pred, err := mdl.Run(model, nil, req, 0)
		if err != nil {
			res.Observations = append(res.Observations, "model driver error: "+err.Error())
			res.Disagree("<driver>", "", err.Error())
			return res
		}
		for i := range cc {
			cc[i].want = string(corr.Unhx(pred[i]))
		}
		scripts = append(scripts, cmpenvScripts(cc)...)
	}
	for _, s := range scripts {
		s.tier, s.seed = tier, seed
	}
	if replay != "" {
		// "regen tier=T seed=S script=NAME line=N ..." (written by replayKey)
		want := ""
		for _, f := range strings.Fields(replay) {
			if v, ok := strings.CutPrefix(f, "script="); ok {
				want = v
			}
		}
		var keep []*script
		for _, s := range scripts {
			if s.name == want {
				keep = append(keep, s)
			}
		}
		if len(keep) == 0 {
			res.Observations = append(res.Observations, "replay: script "+want+" not found for this tier/seed")
			res.Disagree("<replay>", replay, "script not regenerated")
			return res
		}
		scripts = keep
		res.Exhaustive = false
	}

	if err := runImpl(scripts); err != nil {
		res.Observations = append(res.Observations, "implementation run error: "+err.Error())
		res.Disagree("<impl>", err.Error(), "")
		return res
	}

	// model: one request per script
	cases := make([]string, len(scripts))
	for i, s := range scripts {
		hl := make([]string, len(s.lines))
		for j, l := range s.lines {
			hl[j] = corr.Hx([]byte(l))
		}
		cases[i] = "run " + corr.Hx([]byte(s.cd)) + " " + hexList(s.names) + " " + hexList(s.vars) + " " + strings.Join(hl, ",")
	}
	var stdReq, stdImpl []string
	if replay == "" {
		stdReq, stdImpl = stdCases(r, nStd)
		oxLen := 5
		if tier == "thorough" {
			oxLen = 7
		}
		er, ei := stdExhaustive(oxLen)
		stdReq, stdImpl = append(stdReq, er...), append(stdImpl, ei...)
		res.Extra["exhaustive_spaces"] = append(res.Extra["exhaustive_spaces"].([]string),
			fmt.Sprintf("os.Expand with expand's mapping vs the model on every string over %q up to length %d; regexp.QuoteMeta vs the model on every single byte", oxAlpha, oxLen))
	}
	modelOut, err := mdl.Run(model, nil, append(append([]string{}, cases...), stdReq...), 0)
	if err != nil {
		res.Observations = append(res.Observations, "model driver error: "+err.Error())
		res.Disagree("<driver>", "", err.Error())
		return res
	}

	seen := map[string]bool{}
	for i, s := range scripts {
		if s.panicked != "" {
			res.Disagree("script "+s.name, "panic: "+s.panicked, "")
			continue
		}
		outs := strings.Split(modelOut[i], ";")
		if len(outs) != len(s.lines) {
			res.Disagree("script "+s.name, fmt.Sprintf("%d lines", len(s.lines)), fmt.Sprintf("%d results: %.200s", len(outs), modelOut[i]))
			continue
		}
		for j := range s.lines {
			impl, mod := s.implLine(j), modelLine(s.meta[j], s.implLine(j), outs[j])
			res.Evaluations++
			if impl != mod {
				res.Disagree(s.replayKey(j), impl, mod)
			}
			res.Distribution[s.class+":"+impl[:1]]++
			key := s.class + "\x00" + s.lines[j]
			if s.class == "random" || s.class == "oracle" {
				key = s.name + "\x00" + strconv.Itoa(j) // every line runs in its own assignment history
			}
			if !seen[key] && nontrivialLine(s.lines[j]) {
				seen[key] = true
				res.DistinctNontrivial++
			}
		}
		s.oracles(res)
	}
	for k := range stdReq {
		res.Evaluations++
		res.Distribution["std:"+strings.Fields(stdReq[k])[0]]++
		if stdImpl[k] != modelOut[len(cases)+k] {
			res.Disagree(stdReq[k], stdImpl[k], modelOut[len(cases)+k])
		}
	}
	res.Rule = "script lines (each run through the real testscript.RunT with ContinueOnError, observed by a custom `probe` command, the `unknown command` message, and a helper program run with exec, and through the Lean model of parse/expand/cmdEnv/childEnv) that contain a quote, '$' or '#'; exhaustive lines are counted once per distinct text, random/oracle lines once per (script, position) because each runs in its own assignment history"
	// samples: one successfully parsed probe line (with '$' or a quote) per generator family
	sampled := map[string]bool{}
	for i, s := range scripts {
		if sampled[s.class] || s.panicked != "" {
			continue
		}
		outs := strings.Split(modelOut[i], ";")
		for j := len(s.lines) / 2; j < len(s.lines) && j < len(outs); j++ {
			if impl := s.implLine(j); s.meta[j].kind == "probe" && strings.HasPrefix(impl, "P:") && nontrivialLine(s.lines[j]) {
				sampled[s.class] = true
				res.Samples = append(res.Samples, map[string]string{"family": s.class, "script": s.name, "setup_vars": fmt.Sprintf("%q", s.extra), "line": fmt.Sprintf("%q", s.lines[j]), "impl": impl, "model": outs[j]})
				break
			}
		}
	}
	keys := make([]string, 0, len(res.Distribution))
	for k := range res.Distribution {
		keys = append(keys, k)
	}
	sort.Strings(keys)
	res.Observations = append(res.Observations,
		"the @R oracle is restricted to values that are valid UTF-8 without U+FFFD: Go's regexp rejects non-UTF-8 patterns and reads invalid input bytes as U+FFFD",
		"a NUL byte in any environment entry makes os/exec refuse to start the child (modelled as X:nul)",
		"outside C02 (misuse of Params.Setup): an Env.Vars entry without '=' makes a bare `env` line panic in cmdEnv (kv[:strings.Index(kv, \"=\")] with index -1); generated Setup variables always contain '='")
	return res
}
