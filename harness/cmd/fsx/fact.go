package main

import (
	"fmt"
	"go/ast"
	"go/token"
	"os"
	"os/exec"
	"path/filepath"
	"runtime"
	"strconv"
	"strings"

	"verif/harness/internal/fact"
)

// xl translates a small fragment of Go boolean expressions over one string/[]byte variable
// into a Lean `Bool` expression over `GIV.Bytes`.
type xl struct {
	vars map[string]string // Go identifier (or "*ident") -> Lean variable
	fns  map[string]string // Go unary predicate name -> Lean function
	why  string
}

func (x *xl) fail(format string, a ...any) string {
	if x.why == "" {
		x.why = fmt.Sprintf(format, a...)
	}
	return "false"
}

// constStr evaluates a constant string expression: literals, string(filepath.Separator),
// []byte("…"), string("…") and their concatenation.
func constStr(e ast.Expr) (string, bool) {
	switch v := e.(type) {
	case *ast.BasicLit:
		switch v.Kind {
		case token.STRING:
			s, err := strconv.Unquote(v.Value)
			return s, err == nil
		case token.CHAR:
			s, err := strconv.Unquote(v.Value)
			return s, err == nil
		}
	case *ast.ParenExpr:
		return constStr(v.X)
	case *ast.BinaryExpr:
		if v.Op == token.ADD {
			a, ok1 := constStr(v.X)
			b, ok2 := constStr(v.Y)
			return a + b, ok1 && ok2
		}
	case *ast.CallExpr:
		if len(v.Args) != 1 {
			return "", false
		}
		switch f := v.Fun.(type) {
		case *ast.Ident:
			if f.Name == "string" {
				if sel, ok := v.Args[0].(*ast.SelectorExpr); ok {
					if id, ok := sel.X.(*ast.Ident); ok && (id.Name == "filepath" && sel.Sel.Name == "Separator" || id.Name == "os" && sel.Sel.Name == "PathSeparator") {
						return "/", true // the Unix value; Windows is out of scope (props.json)
					}
				}
				return constStr(v.Args[0])
			}
		case *ast.ArrayType:
			return constStr(v.Args[0])
		}
	}
	return "", false
}

func leanLit(s string) string { return "(" + fact.LeanBytes(s) + " : GIV.Bytes)" }

func (x *xl) variable(e ast.Expr) (string, bool) {
	switch v := e.(type) {
	case *ast.Ident:
		l, ok := x.vars[v.Name]
		return l, ok
	case *ast.StarExpr:
		if id, ok := v.X.(*ast.Ident); ok {
			l, ok := x.vars["*"+id.Name]
			return l, ok
		}
	case *ast.ParenExpr:
		return x.variable(v.X)
	}
	return "", false
}

func (x *xl) boolExpr(e ast.Expr) string {
	switch v := e.(type) {
	case *ast.ParenExpr:
		return x.boolExpr(v.X)
	case *ast.UnaryExpr:
		if v.Op == token.NOT {
			return "(!" + x.boolExpr(v.X) + ")"
		}
	case *ast.BinaryExpr:
		switch v.Op {
		case token.LOR:
			return "(" + x.boolExpr(v.X) + " || " + x.boolExpr(v.Y) + ")"
		case token.LAND:
			return "(" + x.boolExpr(v.X) + " && " + x.boolExpr(v.Y) + ")"
		case token.EQL, token.NEQ:
			l, r := v.X, v.Y
			if _, ok := x.variable(l); !ok {
				l, r = r, l
			}
			lv, ok1 := x.variable(l)
			s, ok2 := constStr(r)
			if !ok1 || !ok2 {
				return x.fail("comparison of unrecognised operands")
			}
			if v.Op == token.EQL {
				return lv + " == " + leanLit(s)
			}
			return "(!(" + lv + " == " + leanLit(s) + "))"
		}
	case *ast.CallExpr:
		name := ""
		switch f := v.Fun.(type) {
		case *ast.Ident:
			name = f.Name
		case *ast.SelectorExpr:
			if id, ok := f.X.(*ast.Ident); ok {
				name = id.Name + "." + f.Sel.Name
			}
		}
		switch name {
		case "filepath.IsAbs":
			if len(v.Args) == 1 {
				if lv, ok := x.variable(v.Args[0]); ok {
					return leanLit("/") + ".isPrefixOf " + lv // Unix: filepathlite.IsAbs = HasPrefix(path, "/")
				}
			}
		case "strings.HasPrefix", "bytes.HasPrefix", "strings.HasSuffix", "bytes.HasSuffix":
			if len(v.Args) == 2 {
				lv, ok1 := x.variable(v.Args[0])
				s, ok2 := constStr(v.Args[1])
				if ok1 && ok2 {
					if strings.HasSuffix(name, "Prefix") {
						return leanLit(s) + ".isPrefixOf " + lv
					}
					return leanLit(s) + ".isSuffixOf " + lv
				}
			}
		default:
			if fn, ok := x.fns[name]; ok && len(v.Args) == 1 {
				if lv, ok := x.variable(v.Args[0]); ok {
					return fn + " " + lv
				}
			}
		}
		return x.fail("call %s has an unrecognised shape", name)
	default:
		if lv, ok := x.variable(e); ok {
			return lv
		}
	}
	return x.fail("unrecognised expression node %T", e)
}

// callPos returns the position of the first call whose whitespace-free source starts with prefix.
func callPos(g *fact.Gen, root ast.Node, prefix string) (pos token.Pos, call *ast.CallExpr) {
	ast.Inspect(root, func(n ast.Node) bool {
		if c, ok := n.(*ast.CallExpr); ok && call == nil && strings.HasPrefix(g.Src(c), prefix) {
			pos, call = c.Pos(), c
		}
		return call == nil
	})
	return
}

func returnsNilOrSkip(g *fact.Gen, b *ast.BlockStmt) bool {
	if b == nil || len(b.List) == 0 {
		return false
	}
	s := g.Src(b.List[len(b.List)-1])
	return s == "returnnil"
}

func goroot() string {
	if out, err := exec.Command("go", "env", "GOROOT").Output(); err == nil && strings.TrimSpace(string(out)) != "" {
		return strings.TrimSpace(string(out))
	}
	return runtime.GOROOT()
}

func pinnedDir() string {
	root := os.Getenv("VERIF_ROOT")
	if root == "" {
		root = "/verif"
	}
	return filepath.Join(root, "harness", "pinned")
}

func genFsx(g *fact.Gen) {
	// filepath.Clean itself (Unix): internal/filepathlite/path.go of the toolchain the harness is built with, together
	// with the constants and one-line functions the build constraints select on Unix (path_unix.go: Separator,
	// IsPathSeparator, IsAbs, volumeNameLen; path_nonwindows.go: the empty postClean), translated statement by
	// statement (harness/internal/go2lean); GIV.Lemmas.FilepathGo* prove the translation equal to the model's
	// cleanBytes / cleanPath for every string
	fpl := filepath.Join(goroot(), "src", "internal", "filepathlite")
	g.TranslateModuleFiles("FilepathGo", filepath.Join(fpl, "path.go"),
		[]string{filepath.Join(fpl, "path_unix.go"), filepath.Join(fpl, "path_nonwindows.go")},
		[]string{"volumeNameLen", "IsPathSeparator", "IsAbs", "replaceStringByte", "FromSlash", "lazybuf.index", "lazybuf.append", "lazybuf.string", "Clean", "VolumeName", "Dir"}, "filepath",
		[]string{"GIV.GoLib", "GIV.GoLibNil"}, "GIV.Go.Filepath", filepath.Join(pinnedDir(), "FilepathGo.lean"))
	// filepath.Join on Unix: func join of path/filepath/path_unix.go (Join(elem...) = join(elem))
	g.TranslateModule("FilepathJoinGo", filepath.Join(goroot(), "src", "path", "filepath", "path_unix.go"), []string{"join"}, "filepathjoin",
		[]string{"GIV.GoLib", "GIV.Gen.FilepathGo", "GIV.Model.Fsx"}, "GIV.Go.FilepathJoin", filepath.Join(pinnedDir(), "FilepathJoinGo.lean"))
	// isAbs of /repo's txtar/archive.go (filepath.IsAbs is the translated definition above)
	g.TranslateModule("TxtarAbsGo", "txtar/archive.go", []string{"isAbs"}, "txtarabs",
		[]string{"GIV.GoLib", "GIV.Gen.FilepathGo"}, "GIV.Go.TxtarWrite", filepath.Join(pinnedDir(), "TxtarAbsGo.lean"))
	const arch = "txtar/archive.go"

	// ---- isAbs
	isAbsLean, isAbsDoc := leanLit("/")+".isPrefixOf p || "+leanLit("/")+".isPrefixOf p", "filepath.IsAbs(p) || strings.HasPrefix(p, string(filepath.Separator))"
	if fd := g.FuncDecl(arch, "isAbs"); fd != nil && fd.Type.Params != nil && len(fd.Type.Params.List) == 1 && len(fd.Type.Params.List[0].Names) == 1 {
		var ret *ast.ReturnStmt
		for _, st := range fd.Body.List {
			if r, ok := st.(*ast.ReturnStmt); ok && len(r.Results) == 1 {
				ret = r
			}
		}
		if ret == nil || len(fd.Body.List) != 1 {
			g.Lost("isAbs", "body is not a single return")
		} else {
			x := &xl{vars: map[string]string{fd.Type.Params.List[0].Names[0].Name: "p"}}
			e := x.boolExpr(ret.Results[0])
			if x.why != "" {
				g.Lost("isAbs", x.why)
			} else {
				isAbsLean, isAbsDoc = e, g.Pretty(ret.Results[0])
				g.Found("isAbs", isAbsDoc)
			}
		}
	} else {
		g.Lost("isAbs", "func isAbs(p string) not found")
	}
	g.Emit("/-- txtar/archive.go isAbs: `%s` (Unix: filepath.IsAbs(p) = HasPrefix(p, \"/\")). -/\ndef isAbs (p : GIV.Bytes) : Bool := %s\n", isAbsDoc, isAbsLean)

	// ---- Write
	rejLean := "(((isAbs fp || fp == " + leanLit(".") + ") || fp == " + leanLit("..") + ") || " + leanLit("../") + ".isPrefixOf fp)"
	rejDoc := `isAbs(fp) || fp == "." || fp == ".." || strings.HasPrefix(fp, ".."+string(filepath.Separator))`
	cleans, joinsAfter, mkdirBefore := true, true, true
	flags := map[string]bool{"O_WRONLY": true, "O_CREATE": true, "O_EXCL": true, "O_TRUNC": false, "O_APPEND": false}
	var loop *ast.RangeStmt
	if fd := g.FuncDecl(arch, "Write"); fd != nil {
		for _, st := range fd.Body.List {
			if r, ok := st.(*ast.RangeStmt); ok && g.Src(r.X) == "a.Files" {
				loop = r
			}
		}
	}
	if loop == nil {
		for _, a := range []string{"writeRejects", "writeCleansName", "writeJoinsAfterTest", "openFlags", "mkdirAllBeforeOpen"} {
			g.Lost(a, "`for … range a.Files` loop of Write not found")
		}
	} else {
		// fp := filepath.Clean(filepath.FromSlash(f.Name))
		if len(loop.Body.List) > 0 && g.Src(loop.Body.List[0]) == "fp:=filepath.Clean(filepath.FromSlash(f.Name))" {
			g.Found("writeCleansName", "true")
		} else if p, _ := callPos(g, loop.Body, "filepath.Clean("); p == token.NoPos {
			cleans = false
			g.Found("writeCleansName", "false")
		} else {
			g.Lost("writeCleansName", "first statement of the loop is not fp := filepath.Clean(filepath.FromSlash(f.Name))")
		}
		var rej *ast.IfStmt
		for _, st := range loop.Body.List {
			if is, ok := st.(*ast.IfStmt); ok && strings.Contains(g.Src(is.Body), "outsideparentdirectory") {
				rej = is
			}
		}
		if rej == nil {
			g.Lost("writeRejects", "no `if … { return …outside parent directory… }` in Write's loop")
		} else {
			x := &xl{vars: map[string]string{"fp": "fp"}, fns: map[string]string{"isAbs": "isAbs"}}
			e := x.boolExpr(rej.Cond)
			if x.why != "" {
				g.Lost("writeRejects", x.why)
			} else {
				rejLean, rejDoc = e, g.Pretty(rej.Cond)
				g.Found("writeRejects", rejDoc)
			}
			jp, _ := callPos(g, loop.Body, "filepath.Join(dir,fp)")
			switch {
			case jp == token.NoPos:
				g.Lost("writeJoinsAfterTest", "filepath.Join(dir, fp) not found")
			default:
				joinsAfter = jp > rej.End()
				g.Found("writeJoinsAfterTest", strconv.FormatBool(joinsAfter))
			}
		}
		mp, _ := callPos(g, loop.Body, "os.MkdirAll(filepath.Dir(fp),")
		op, oc := callPos(g, loop.Body, "os.OpenFile(fp,")
		if mp == token.NoPos || op == token.NoPos {
			g.Lost("mkdirAllBeforeOpen", "os.MkdirAll(filepath.Dir(fp), …) or os.OpenFile(fp, …) not found")
		} else {
			mkdirBefore = mp < op
			g.Found("mkdirAllBeforeOpen", strconv.FormatBool(mkdirBefore))
		}
		if oc == nil || len(oc.Args) != 3 {
			g.Lost("openFlags", "os.OpenFile(fp, flags, perm) not found")
		} else {
			seen := map[string]bool{}
			okShape := true
			var walk func(e ast.Expr)
			walk = func(e ast.Expr) {
				switch v := e.(type) {
				case *ast.BinaryExpr:
					if v.Op != token.OR {
						okShape = false
					}
					walk(v.X)
					walk(v.Y)
				case *ast.ParenExpr:
					walk(v.X)
				case *ast.SelectorExpr:
					if id, ok := v.X.(*ast.Ident); ok && (id.Name == "os" || id.Name == "syscall") {
						seen[v.Sel.Name] = true
					} else {
						okShape = false
					}
				default:
					okShape = false
				}
			}
			walk(oc.Args[1])
			if !okShape {
				g.Lost("openFlags", "flag expression is not an | of os.O_* constants")
			} else {
				for k := range flags {
					flags[k] = seen[k]
				}
				g.Found("openFlags", g.Pretty(oc.Args[1]))
			}
		}
	}
	g.Emit("/-- Write's rejection test on fp = filepath.Clean(filepath.FromSlash(f.Name)): `%s`. -/\ndef writeRejects (fp : GIV.Bytes) : Bool := %s\n", rejDoc, rejLean)
	g.Emit("/-- Write cleans the entry name first: fp := filepath.Clean(filepath.FromSlash(f.Name)). -/\ndef writeCleansName : Bool := %v\n", cleans)
	g.Emit("/-- Write joins with filepath.Join(dir, fp) after the rejection test. -/\ndef writeJoinsAfterTest : Bool := %v\n", joinsAfter)
	for _, f := range []struct{ lean, goName string }{{"openWronly", "O_WRONLY"}, {"openCreate", "O_CREATE"}, {"openExcl", "O_EXCL"}, {"openTrunc", "O_TRUNC"}, {"openAppend", "O_APPEND"}} {
		g.Emit("/-- os.OpenFile flag %s present. -/\ndef %s : Bool := %v\n", f.goName, f.lean, flags[f.goName])
	}
	g.Emit("/-- os.MkdirAll(filepath.Dir(fp), …) is called before os.OpenFile(fp, …) in Write's loop body. -/\ndef mkdirAllBeforeOpen : Bool := %v\n", mkdirBefore)

	// ---- txtar-c
	const savedir = "cmd/txtar-c/savedir.go"
	var cb *ast.FuncLit
	if fd := g.FuncDecl(savedir, "main"); fd != nil {
		if _, c := callPos(g, fd.Body, "filepath.Walk(dir,"); c != nil && len(c.Args) == 2 {
			cb, _ = c.Args[1].(*ast.FuncLit)
		}
	}
	dotLean, dotDoc := "("+leanLit(".")+".isPrefixOf name && (!all))", `strings.HasPrefix(name, ".") && !*allFlag`
	dotSkipsDir, nonReg, badUTF8, addNL, quoteBranch, order := true, true, true, true, true, true
	unq := "unquote "
	names := []string{"dotSkip", "dotSkipsDir", "skipsNonRegular", "skipsInvalidUTF8", "addsFinalNewline", "quoteBranch", "unquotePrefix", "callbackOrder"}
	if cb == nil {
		for _, a := range names {
			g.Lost(a, "callback of filepath.Walk(dir, …) in txtar-c main not found")
		}
	} else {
		var ifDot, ifReg, ifUTF, ifNL, ifNQ *ast.IfStmt
		var appendPos token.Pos
		for _, st := range cb.Body.List {
			switch v := st.(type) {
			case *ast.IfStmt:
				c := g.Src(v.Cond)
				switch {
				case strings.Contains(c, "strings.HasPrefix(name,"):
					ifDot = v
				case strings.Contains(c, "IsRegular()"):
					ifReg = v
				case strings.Contains(c, "utf8.Valid(data)"):
					ifUTF = v
				case strings.Contains(c, "bytes.HasSuffix(data,"):
					ifNL = v
				case strings.Contains(c, "txtar.NeedsQuote(data)"):
					ifNQ = v
				}
			case *ast.AssignStmt:
				if strings.HasPrefix(g.Src(v), "a.Files=append(a.Files,txtar.File{Name:filepath.ToSlash(filename),Data:data") {
					appendPos = v.Pos()
				}
			}
		}
		if ifDot == nil {
			g.Lost("dotSkip", "no `if strings.HasPrefix(name, …) …` in the callback")
			g.Lost("dotSkipsDir", "dot rule not found")
		} else {
			x := &xl{vars: map[string]string{"name": "name", "*allFlag": "all"}}
			e := x.boolExpr(ifDot.Cond)
			if x.why != "" {
				g.Lost("dotSkip", x.why)
			} else {
				dotLean, dotDoc = e, g.Pretty(ifDot.Cond)
				g.Found("dotSkip", dotDoc)
			}
			b := g.Src(ifDot.Body)
			switch {
			case b == "{ifinfo.IsDir(){returnfilepath.SkipDir}returnnil}":
				g.Found("dotSkipsDir", "true")
			case !strings.Contains(b, "SkipDir") && returnsNilOrSkip(g, ifDot.Body):
				dotSkipsDir = false
				g.Found("dotSkipsDir", "false")
			default:
				g.Lost("dotSkipsDir", "body of the dot rule has an unrecognised shape")
			}
		}
		if ifReg != nil && g.Src(ifReg.Cond) == "!info.Mode().IsRegular()" && returnsNilOrSkip(g, ifReg.Body) {
			g.Found("skipsNonRegular", "true")
		} else if ifReg == nil {
			nonReg = false
			g.Found("skipsNonRegular", "false")
		} else {
			g.Lost("skipsNonRegular", "regular-file test has an unrecognised shape")
		}
		if ifUTF != nil && g.Src(ifUTF.Cond) == "!utf8.Valid(data)" && returnsNilOrSkip(g, ifUTF.Body) {
			g.Found("skipsInvalidUTF8", "true")
		} else if ifUTF == nil {
			badUTF8 = false
			g.Found("skipsInvalidUTF8", "false")
		} else {
			g.Lost("skipsInvalidUTF8", "utf8.Valid test has an unrecognised shape")
		}
		if ifNL != nil && g.Src(ifNL.Cond) == `len(data)>0&&!bytes.HasSuffix(data,[]byte("\n"))` && strings.Contains(g.Src(ifNL.Body), `data=append(data,'\n')`) {
			g.Found("addsFinalNewline", "true")
		} else if ifNL == nil {
			addNL = false
			g.Found("addsFinalNewline", "false")
		} else {
			g.Lost("addsFinalNewline", "newline fix has an unrecognised shape")
		}
		if ifNQ == nil {
			quoteBranch = false
			g.Found("quoteBranch", "false")
			g.Lost("unquotePrefix", "no NeedsQuote branch")
		} else {
			ok := g.Src(ifNQ.Cond) == "txtar.NeedsQuote(data)" && len(ifNQ.Body.List) == 4
			if ok {
				s0, isIf0 := ifNQ.Body.List[0].(*ast.IfStmt)
				s2, isIf2 := ifNQ.Body.List[2].(*ast.IfStmt)
				ok = isIf0 && g.Src(s0.Cond) == "!*quoteFlag" && returnsNilOrSkip(g, s0.Body) &&
					g.Src(ifNQ.Body.List[1]) == "data,err=txtar.Quote(data)" &&
					isIf2 && g.Src(s2.Cond) == "err!=nil" && returnsNilOrSkip(g, s2.Body)
			}
			gotPrefix := false
			if ok {
				// a.Comment = append(a.Comment, []byte("unquote "+filename+"\n")...)
				as, isAs := ifNQ.Body.List[3].(*ast.AssignStmt)
				ok = isAs && strings.HasPrefix(g.Src(as), "a.Comment=append(a.Comment,[]byte(") && strings.HasSuffix(g.Src(as), `+filename+"\n")...)`)
				if ok {
					ast.Inspect(as, func(n ast.Node) bool {
						if be, isBE := n.(*ast.BinaryExpr); isBE && be.Op == token.ADD {
							if inner, isBE2 := be.X.(*ast.BinaryExpr); isBE2 && inner.Op == token.ADD {
								if s, okS := constStr(inner.X); okS && g.Src(inner.Y) == "filename" {
									unq, gotPrefix = s, true
								}
							}
						}
						return true
					})
				}
			}
			if ok && gotPrefix {
				g.Found("quoteBranch", "true")
				g.Found("unquotePrefix", strconv.Quote(unq))
			} else {
				g.Lost("quoteBranch", "NeedsQuote branch has an unrecognised shape")
				g.Lost("unquotePrefix", "NeedsQuote branch has an unrecognised shape")
			}
		}
		// order of the present steps
		last := token.NoPos
		for _, s := range []*ast.IfStmt{ifDot, ifReg, ifUTF, ifNL, ifNQ} {
			if s != nil {
				if s.Pos() < last {
					order = false
				}
				last = s.Pos()
			}
		}
		if appendPos == token.NoPos {
			g.Lost("callbackOrder", "a.Files = append(a.Files, txtar.File{Name: filepath.ToSlash(filename), Data: data}) not found")
		} else {
			if appendPos < last {
				order = false
			}
			g.Found("callbackOrder", strconv.FormatBool(order))
		}
	}
	g.Emit("/-- txtar-c skip rule for Walk entries: `%s`. -/\ndef dotSkip (name : GIV.Bytes) (all : Bool) : Bool := %s\n", dotDoc, dotLean)
	g.Emit("/-- txtar-c: a skipped dot entry that is a directory returns filepath.SkipDir (its subtree is not walked). -/\ndef dotSkipsDir : Bool := %v\n", dotSkipsDir)
	g.Emit("/-- txtar-c: `!info.Mode().IsRegular()` entries are not archived. -/\ndef skipsNonRegular : Bool := %v\n", nonReg)
	g.Emit("/-- txtar-c: `!utf8.Valid(data)` files are ignored. -/\ndef skipsInvalidUTF8 : Bool := %v\n", badUTF8)
	g.Emit("/-- txtar-c: `len(data) > 0 && !bytes.HasSuffix(data, []byte(\"\\n\"))` appends '\\n'. -/\ndef addsFinalNewline : Bool := %v\n", addNL)
	g.Emit("/-- txtar-c: the NeedsQuote branch has the shape: !*quoteFlag -> skip; Quote error -> skip; comment += prefix+filename+\"\\n\"; file stored with the quoted data. -/\ndef quoteBranch : Bool := %v\n", quoteBranch)
	g.Emit("/-- txtar-c: prefix of the comment line written for a quoted file. -/\ndef unquotePrefix : GIV.Bytes := %s\n", fact.LeanBytes(unq))
	g.Emit("/-- txtar-c: dot rule, regular-file test, UTF-8 test, newline fix, NeedsQuote branch and the append to a.Files appear in this order in the Walk callback. -/\ndef callbackOrder : Bool := %v\n", order)

	// ---- txtar-x
	const extract = "cmd/txtar-x/extract.go"
	unquotes := false
	if fd := g.FuncDecl(extract, "main"); fd != nil {
		src := g.Src(fd.Body)
		if !strings.Contains(src, "txtar.Write(a,*extractDir)") {
			g.Lost("extractUnquotes", "txtar.Write(a, *extractDir) not found in txtar-x main")
		} else {
			unquotes = strings.Contains(g.Src(g.Parse(extract)), "Unquote")
			g.Found("extractUnquotes", strconv.FormatBool(unquotes))
		}
	} else {
		g.Lost("extractUnquotes", "txtar-x main not found")
	}
	g.Emit("/-- txtar-x calls txtar.Write(a, *extractDir) on the parsed archive; true iff it mentions Unquote anywhere (it does not: unquoting is left to the consumer). -/\ndef extractUnquotes : Bool := %v\n", unquotes)
}
