// fsx group binary: `fsx factgen ...` and `fsx corr ...` (property C15:
// txtar.Write containment, txtar-c / txtar-x round trip).
package main

import (
	"fmt"
	"os"

	"verif/harness/internal/corr"
	"verif/harness/internal/fact"
)

func main() {
	if len(os.Args) < 2 {
		fmt.Fprintln(os.Stderr, "usage: fsx factgen|corr [flags]")
		os.Exit(2)
	}
	switch os.Args[1] {
	case "factgen":
		fact.Main(os.Args[2:], "fsx", "Fsx", genFsx)
	case "corr":
		corr.Main(os.Args[2:], runFsx)
	default:
		fmt.Fprintln(os.Stderr, "usage: fsx factgen|corr [flags]")
		os.Exit(2)
	}
}
